import Driver.Core
import Driver.ElfOps
import Mltwist.Model.Startup
/-
Handlers for start-up (C26): `startup` (in-process replay of `run()`), `startupbin` (the real binary).
-/
namespace Driver.Startup
open Driver Mltwist Mltwist.Elf Mltwist.Startup

def stageName : Stage → String
  | .args => "args" | .elf => "elf" | .code => "code" | .memory => "memory"
  | .parse => "parse" | .model => "model" | .bytes => "bytes"

def outcomeName (crash : String) : Outcome → String
  | .ui => "ui"
  | .exit1 s => "exit1:" ++ stageName s
  | .panic => crash

def knownStages : List String := ["args", "elf", "code", "memory", "parse", "model", "bytes", "uinew"]

/-- the property itself: the UI is entered, or exit status 1 with one of the program's messages -/
def total (out : String) : Bool :=
  out == "ui" || knownStages.any (fun s => out == "exit1:" ++ s)

def judge (kind : String) (crashWord : String) (nargs : Nat) (res : List String) : Except String Verdict := do
  let (view, out) ← match (Driver.Elf.pView.run res) with
    | .ok (v, rest) => pure (v, rest)
    | .error e => throw e
  let istr := " ".intercalate out
  let tags0 := [kind, s!"args{min nargs 3}", if view.isSome then "opened" else "openerr"]
  if istr == "skipped:alloc" then
    return { corr := none, oracleNA := true, tags := tags0 ++ ["skipped"] }
  let model := outcomeName crashWord (run Driver.Elf.allocLim nargs view)
  let corr := corrOf model istr
  let orc : Option String :=
    if total istr then
      if nargs != 1 && istr != "exit1:args" then some "wrong number of arguments not reported"
      else if nargs == 1 && view.isNone && istr != "exit1:elf" then some "a file that cannot be opened as ELF is not reported"
      else none
    else match view.bind Driver.Elf.bigFill with
      | some n => some s!"crash at start-up: a PT_LOAD header requests a zero fill of {n} bytes (F19)"
      | none => some s!"neither the UI nor an error exit: {istr}"
  return { corr, oracle := orc, tags := tags0 ++ [istr] }

def hStartup : Handler := fun args res => do
  let _ ← runP pHex args
  judge "inproc" "PANIC" 1 res

def hStartupBin : Handler := fun args res => do
  match args with
  | n :: rest =>
    let some k := n.toNat? | throw "bad argument count"
    if rest.length != k then throw "argument count mismatch"
    judge "binary" "crash" k res
  | [] => throw "missing argument count"

end Driver.Startup

namespace Driver
def startupHandlers : List (String × Handler) :=
  [("startup", Startup.hStartup), ("startupbin", Startup.hStartupBin)]
end Driver
