import Driver.Core
import Mltwist.Model.Exprtools
import Mltwist.Model.Const
import Mltwist.Spec.Checks
import Mltwist.Spec.Subterms
import Mltwist.Spec.Gadgets
/-
Handlers for the expression layer: C09 C10 C11 C12 C13 C27 C28.
-/
namespace Driver
open Mltwist

def envSeeds : List Nat := [1, 2, 3, 4, 5, 6]

/-- do `a` and `b` evaluate alike under the sample valuations? returns the first differing seed -/
def evalDiffer (a b : Expr) : Option Nat :=
  envSeeds.find? fun s => let ρ := mkEnv s; a.eval ρ != b.eval ρ

def sizeTag (e : Expr) : String :=
  let n := e.size
  if n ≤ 1 then "size1" else if n ≤ 5 then "size2-5" else if n ≤ 20 then "size6-20" else "size21+"

def parseKind : String → Except String Kind
  | "const" => pure .const | "binary" => pure .binary | "less" => pure .less
  | "memload" => pure .memLoad | "regload" => pure .regLoad
  | k => throw s!"bad kind {k}"

def splitBar (toks : List String) : List String × List String :=
  (toks.takeWhile (· ≠ "|"), (toks.dropWhile (· ≠ "|")).drop 1)

def replRule (w : Nat) (e : Expr) : Option Expr :=
  if e.width = w then some (.regLoad s!"repl{e.size}" w) else none

/-- all sub-expressions in pre-order (independent oracle for `find`) -/
def subterms : Expr → List Expr
  | e@(.binary _ a b _) => e :: (subterms a ++ subterms b)
  | e@(.less a b t f _) => e :: (subterms a ++ subterms b ++ subterms t ++ subterms f)
  | e@(.memLoad _ a _) => e :: subterms a
  | e => [e]

def hFold : Handler := fun args res => do
  let e ← runP pExpr args
  let (r1, r2) := splitBar res
  let model := constFold e
  let mstr := fmtExpr model ++ " | " ++ fmtExpr model
  let istr := " ".intercalate res
  let tags := [sizeTag e] ++ (if model != e then ["changed"] else []) ++
    (if e.closed then ["closed"] else [])
  if res == ["PANIC"] then
    return { corr := corrOf mstr istr, oracle := some "panic", tags }
  let i1 ← runP pExpr r1
  let i2 ← runP pExpr r2
  let orc := firstFail [
    (i1.width == e.width, "width changed"),
    ((evalDiffer e i1).isNone, s!"value differs under valuation seed {(evalDiffer e i1).getD 0}"),
    (!e.closed || i1.isConst, "closed expression did not fold to a constant"),
    (i1.noConstOp, "constant-only operation remains"),
    (i2 == i1, "folding twice differs")]
  return { corr := corrOf mstr istr, oracle := orc, tags }

def hPurge : Handler := fun args res => do
  let e ← runP pExpr args
  let model := purgeWidthGadgets e
  let tags := [sizeTag e] ++ (if model != e then ["changed"] else [])
  if res == ["PANIC"] then
    return { corr := corrOf (fmtExpr model) "PANIC", oracle := some "panic", tags }
  let i ← runP pExpr res
  let orc := firstFail [
    (i.width == e.width, "width changed"),
    ((evalDiffer e i).isNone, s!"value differs under valuation seed {(evalDiffer e i).getD 0}")]
  return { corr := corrOf (fmtExpr model) (fmtExpr i), oracle := orc, tags }

def hSetw : Handler := fun args res => do
  let (w, e) ← runP (do let w ← pNat; let e ← pExpr; pure (w, e)) args
  let model := setWidth e w
  let tags := [sizeTag e, if w < e.width then "cut" else if w = e.width then "same" else "extend"]
  if res == ["PANIC"] then
    return { corr := corrOf (fmtExpr model) "PANIC", oracle := some "panic", tags }
  let i ← runP pExpr res
  let bad := envSeeds.find? fun s => let ρ := mkEnv s; i.eval ρ != trunc w (e.eval ρ)
  let orc := firstFail [
    (i.width == w, "result width is not the requested width"),
    (bad.isNone, s!"value is not the truncation/extension under valuation seed {bad.getD 0}")]
  return { corr := corrOf (fmtExpr model) (fmtExpr i), oracle := orc, tags }

def hPoss : Handler := fun args res => do
  let e ← runP pExpr args
  let model := possibilities e
  let tags := [sizeTag e, if model.length > 1 then "multi" else "single"]
  if res == ["PANIC"] then
    return { corr := corrOf (fmtExprs model) "PANIC", oracle := some "panic", tags }
  let is ← runP pExprs res
  let uncovered := envSeeds.find? fun s =>
    let ρ := mkEnv s; !(is.any fun p => p.eval ρ == e.eval ρ)
  let orc := firstFail [
    (is.all (fun p => p.width == e.width), "an alternative has a different width"),
    (is.all (·.noLess), "an alternative contains a conditional"),
    (uncovered.isNone, s!"no alternative has the value under valuation seed {uncovered.getD 0}")]
  return { corr := corrOf (fmtExprs model) (fmtExprs is), oracle := orc, tags }

def hEqual : Handler := fun args res => do
  let (a, b) ← runP (do let a ← pExpr; let b ← pExpr; pure (a, b)) args
  let model := equal a b
  let istr := " ".intercalate res
  let tags := [sizeTag a, if a == b then "same" else "different"]
  let orc := if istr == toString (decide (a = b)) then none else some "Equal disagrees with structural identity"
  return { corr := corrOf (toString model) istr, oracle := orc, tags }

def hFind : Handler := fun args res => do
  let (k, e) ← runP (do let k ← next; let e ← pExpr; pure (k, e)) args
  let kind ← parseKind k
  let model := findAll kind e
  let istr := " ".intercalate res
  let spec := (subterms e).filter (·.kind == kind)
  let tags := [sizeTag e, if model.isEmpty then "nomatch" else "match"]
  let orc := if istr == fmtExprs spec then none else some "not the pre-order list of sub-expressions of the kind"
  return { corr := corrOf (fmtExprs model) istr, oracle := orc, tags }

def hRepl : Handler := fun args res => do
  let (k, w, e) ← runP (do let k ← next; let w ← pNat; let e ← pExpr; pure (k, w, e)) args
  let kind ← parseKind k
  let model := replaceAll kind (replRule w) e
  let istr := " ".intercalate res
  let matches_ := (subterms e).any fun s => s.kind == kind && s.width == w
  let tags := [sizeTag e, if matches_ then "match" else "nomatch"]
  let spec := e.mapBottomUp (fun s => if s.kind == kind then (replRule w s).getD s else s)
  let orc := if !matches_ && istr != fmtExpr e then some "changed although nothing matches"
    else if istr != fmtExpr spec then some "not the bottom-up substitution of exactly the matching sub-expressions"
    else none
  return { corr := corrOf (fmtExpr model) istr, oracle := orc, tags }

def hExprs : Handler := fun args res => do
  let ef ← runP pEffect args
  return { corr := corrOf (fmtExprs ef.exprs) (" ".intercalate res), oracleNA := true, tags := [] }

def hExprsMany : Handler := fun args res => do
  let efs ← runP (pList pEffect) args
  return { corr := corrOf (fmtExprs (efs.flatMap Effect.exprs)) (" ".intercalate res),
           oracleNA := true, tags := [] }

/-- kind, key and width of an effect -/
def effectShape : Effect → String × String × Nat
  | .memStore _ k _ w => ("ms", k, w)
  | .regStore _ k w => ("rs", k, w)

def hEfApply : Handler := fun args res => do
  let (w, ef) ← runP (do let w ← pNat; let ef ← pEffect; pure (w, ef)) args
  let model := ef.apply (setWidth · w)
  if res == ["PANIC"] then
    return { corr := corrOf (fmtEffect model) "PANIC", oracle := some "panic", tags := [] }
  let i ← runP pEffect res
  let orc := firstFail [
    (effectShape i == effectShape ef, "the transformed effect changed kind, key or width"),
    (i.exprs.map Expr.width == ef.exprs.map (fun _ => w), "an operand was not transformed")]
  return { corr := corrOf (fmtEffect model) (fmtEffect i), oracle := orc,
           tags := [if ef.exprs.any (fun e => e.width != ef.width) then "mixedwidth" else "samewidth"] }

def hEfsApply : Handler := fun args res => do
  let (w, efs) ← runP (do let w ← pNat; let efs ← pList pEffect; pure (w, efs)) args
  return { corr := corrOf (fmtEffects (efs.map (Effect.apply (setWidth · w)))) (" ".intercalate res),
           oracleNA := true, tags := [] }

def hWgArg : Handler := fun args res => do
  let e ← runP pExpr args
  let model := match widthGadgetArg e with | some a => "some " ++ fmtExpr a | none => "none"
  return { corr := corrOf model (" ".intercalate res), oracleNA := true,
           tags := [if (widthGadgetArg e).isSome then "gadget" else "nogadget"] }

/-! ### gadgets -/

structure Gadget where
  model : Expr
  /-- documented value under a valuation, if the documentation defines one -/
  spec : Env → Option Nat
  ok : Bool := true      -- false: the Go constructor panics on these arguments
  tags : List String := []

def pGadget : P Gadget := do
  let name ← next
  let ev (ρ : Env) (e : Expr) := e.eval ρ
  match name with
  | "negate" => do
    let w ← pNat; let e ← pExpr
    pure { model := Tools.negate e w, spec := fun ρ => some (Spec.neg w (ev ρ e)) }
  | "sub" => do
    let w ← pNat; let a ← pExpr; let b ← pExpr
    pure { model := Tools.sub a b w, spec := fun ρ => some (Spec.sub w (trunc w (ev ρ a)) (trunc w (ev ρ b))) }
  | "abs" => do
    let w ← pNat; let e ← pExpr
    pure { model := Tools.abs e w, spec := fun ρ => some (Spec.abs w (ev ρ e)) }
  | "ones" => do
    let w ← pNat
    pure { model := Tools.ones w, spec := fun _ => some (Spec.ones w) }
  | "mod" => do
    let w ← pNat; let a ← pExpr; let b ← pExpr
    pure { model := Tools.mod a b w, spec := fun ρ => some (Spec.umod w (ev ρ a) (ev ρ b)) }
  | "signedmul" => do
    let w ← pNat; let a ← pExpr; let b ← pExpr
    pure { model := Tools.signedMul a b w, ok := Tools.signedMulOk w,
           spec := fun ρ => if a.width ≤ 2 * w ∧ b.width ≤ 2 * w
             then some (Spec.smul w a.width b.width (ev ρ a) (ev ρ b)) else none }
  | "signeddiv" => do
    let w ← pNat; let a ← pExpr; let b ← pExpr
    pure { model := Tools.signedDiv a b w,
           spec := fun ρ => if a.width = w ∧ b.width = w then some (Spec.sdiv w (ev ρ a) (ev ρ b)) else none }
  | "signedmod" => do
    let w ← pNat; let a ← pExpr; let b ← pExpr
    pure { model := Tools.signedMod a b w,
           spec := fun ρ => if a.width = w ∧ b.width = w then some (Spec.smod w (ev ρ a) (ev ρ b)) else none }
  | "signextend" => do
    let w ← pNat; let e ← pExpr; let sb ← pExpr
    pure { model := Tools.signExtend e sb w,
           spec := fun ρ => let bit := trunc w (ev ρ sb)
             if bit < 8 * w then some (Spec.sext w (trunc w (ev ρ e)) bit) else none }
  | "rsha" => do
    let w ← pNat; let e ← pExpr; let s ← pExpr
    pure { model := Tools.rshA e s w, spec := fun ρ => some (Spec.rsha w (ev ρ e) (trunc w (ev ρ s))) }
  | "bitnot" => do
    let w ← pNat; let e ← pExpr
    pure { model := Tools.bitNot e w, spec := fun ρ => some (Spec.bnot w (ev ρ e)) }
  | "bitand" => do
    let w ← pNat; let a ← pExpr; let b ← pExpr
    pure { model := Tools.bitAnd a b w, spec := fun ρ => some (Spec.band w (ev ρ a) (ev ρ b)) }
  | "bitor" => do
    let w ← pNat; let a ← pExpr; let b ← pExpr
    pure { model := Tools.bitOr a b w, spec := fun ρ => some (Spec.bor w (ev ρ a) (ev ρ b)) }
  | "bitxor" => do
    let w ← pNat; let a ← pExpr; let b ← pExpr
    pure { model := Tools.bitXor a b w, spec := fun ρ => some (Spec.bxor w (ev ρ a) (ev ρ b)) }
  | "bool" => do
    let e ← pExpr
    pure { model := Tools.bool e, spec := fun ρ => some (if ev ρ e = 0 then 0 else 1) }
  | "not" => do
    let e ← pExpr
    pure { model := Tools.not e, spec := fun ρ => some (if ev ρ e = 0 then 1 else 0) }
  | "boolcond" => do
    let w ← pNat; let c ← pExpr; let a ← pExpr; let b ← pExpr
    pure { model := Tools.boolCond c a b w,
           spec := fun ρ => some (if trunc w (ev ρ c) ≠ 0 then trunc w (ev ρ a) else trunc w (ev ρ b)) }
  | "eq" | "lts" | "leu" | "les" => do
    let w ← pNat; let a ← pExpr; let b ← pExpr; let t ← pExpr; let f ← pExpr
    let sel (ρ : Env) (c : Bool) := some (if c then trunc w (ev ρ t) else trunc w (ev ρ f))
    let x (ρ : Env) := trunc w (ev ρ a)
    let y (ρ : Env) := trunc w (ev ρ b)
    match name with
    | "eq" => pure { model := Tools.eq a b t f w, spec := fun ρ => sel ρ (x ρ == y ρ) }
    | "lts" => pure { model := Tools.lts a b t f w, spec := fun ρ => sel ρ (toInt w (x ρ) < toInt w (y ρ)) }
    | "leu" => pure { model := Tools.leu a b t f w, spec := fun ρ => sel ρ (x ρ ≤ y ρ) }
    | _ => pure { model := Tools.les a b t f w, spec := fun ρ => sel ρ (toInt w (x ρ) ≤ toInt w (y ρ)) }
  | "maskbits" => do
    let w ← pNat; let cnt ← pNat; let e ← pExpr
    pure { model := Tools.maskBits e cnt w,
           spec := fun ρ => some (Spec.mask w (ev ρ e) cnt) }
  | "intnegative" => do
    let w ← pNat; let e ← pExpr
    -- documented only as zero / nonzero: normalise through the sign
    pure { model := Tools.intNegative e w,
           spec := fun ρ => some (if toInt w (trunc w (ev ρ e)) < 0 then 2 ^ (8 * w - 1) else 0),
           tags := [] }
  | "widthgadget" => do
    let w ← pNat; let e ← pExpr
    pure { model := newWidthGadget e w, spec := fun ρ => some (trunc w (ev ρ e)) }
  | _ => throw s!"unknown gadget {name}"

/-- `gadget …`: constructed tree vs model (structural) and vs the documented function under
sample valuations (reference evaluator on the implementation's tree). -/
def hGadget (folded : Bool) : Handler := fun args res => do
  let g ← runP pGadget args
  let name := args.headD "?"
  let istr := " ".intercalate res
  if !g.ok then
    return { corr := corrOf "PANIC" istr, oracleNA := true, tags := [name, "rejected"] }
  let model := if folded then constFold g.model else g.model
  if res == ["PANIC"] then
    return { corr := corrOf (fmtExpr model) "PANIC", oracle := some "panic", tags := [name] }
  let i ← runP pExpr res
  let defined := (g.spec (mkEnv 1)).isSome
  let bad := envSeeds.find? fun s =>
    let ρ := mkEnv s
    match g.spec ρ with
    | some v => i.eval ρ != v
    | none => false
  let orc := firstFail [
    (i.width == g.model.width, "unexpected width"),
    (bad.isNone, s!"value differs from the documented function under valuation seed {bad.getD 0}")]
  return { corr := corrOf (fmtExpr model) (fmtExpr i), oracle := orc,
           oracleNA := false, tags := [name] ++ (if defined then ["spec"] else ["nospec"]) }

/-! ### constants (C27) -/

def typeSize : String → Except String (Nat × Bool)
  | "u8" => pure (1, false) | "u16" => pure (2, false) | "u32" => pure (4, false) | "u64" => pure (8, false)
  | "i8" => pure (1, true) | "i16" => pure (2, true) | "i32" => pure (4, true) | "i64" => pure (8, true)
  -- defined (named) integer types of the harness with these underlying types
  | "nu8" => pure (1, false) | "nu16" => pure (2, false) | "nu32" => pure (4, false) | "nu64" => pure (8, false)
  | "ni8" => pure (1, true) | "ni16" => pure (2, true) | "ni32" => pure (4, true) | "ni64" => pure (8, true)
  | t => throw s!"bad type {t}"

end Driver

namespace Driver
open Mltwist

def fmtOptConst : Option (List UInt8) → String
  | some bs => "c:" ++ fmtHexRaw bs
  | none => "PANIC"

def hConstUint (fromSize : Bool) : Handler := fun args res => do
  let (t, w, v) ← runP (do
    let t ← next
    let (sz, _) ← typeSize t
    let w ← if fromSize then pure sz else pNat
    let v ← pNat
    pure (t, w, v)) args
  let (sz, _) ← typeSize t
  let model := Const.newConstUint v w
  let istr := " ".intercalate res
  let fits := v < 2 ^ (8 * w)
  let spec := if fits then "c:" ++ fmtHexRaw (natToLE w v) else "PANIC"
  let tags := [t, if fits then "fits" else "overflow", if w < sz then "narrow" else if w = sz then "exact" else "wide"]
  return { corr := corrOf (fmtOptConst model) istr,
           oracle := if istr == spec then none else some "not the w-byte little-endian encoding / wrong acceptance", tags }

def hConstInt (fromSize : Bool) : Handler := fun args res => do
  let (t, w, v) ← runP (do
    let t ← next
    let (sz, _) ← typeSize t
    let w ← if fromSize then pure sz else pNat
    let v ← pInt
    pure (t, w, v)) args
  let (sz, _) ← typeSize t
  let model := Const.newConstInt v w
  let istr := " ".intercalate res
  let fits := -(2 ^ (8 * w - 1) : Int) ≤ v ∧ v < (2 ^ (8 * w - 1) : Int)
  let spec := if fits then "c:" ++ fmtHexRaw (natToLE w (Spec.ofInt w v)) else "PANIC"
  let tags := [t, if fits then "fits" else "overflow", if v < 0 then "neg" else "nonneg",
    if w < sz then "narrow" else if w = sz then "exact" else "wide"]
  return { corr := corrOf (fmtOptConst model) istr,
           oracle := if istr == spec then none else some "not the w-byte two's-complement encoding / wrong acceptance", tags }

def hToUint : Handler := fun args res => do
  let (t, e) ← runP (do let t ← next; let e ← pExpr; pure (t, e)) args
  let (sz, _) ← typeSize t
  let .const bs := e | throw "not a constant"
  let (v, fits) := Const.constUint sz bs
  let istr := " ".intercalate res
  let specV := leToNat bs % 2 ^ (8 * sz)
  let specFits := leToNat bs < 2 ^ (8 * sz)
  return { corr := corrOf s!"{v} {fits}" istr,
           oracle := if istr == s!"{specV} {decide specFits}" then none else some "not the low bytes / wrong fits flag",
           tags := [t, if specFits then "fits" else "overflow"] }

def hWithWidth : Handler := fun args res => do
  let (w, e) ← runP (do let w ← pNat; let e ← pExpr; pure (w, e)) args
  let .const bs := e | throw "not a constant"
  let model := Const.withWidth bs w
  let istr := " ".intercalate res
  let spec := "c:" ++ fmtHexRaw (natToLE w (leToNat bs))
  return { corr := corrOf ("c:" ++ fmtHexRaw model) istr,
           oracle := if istr == spec then none else some "not the value truncated / zero-extended",
           tags := [if w < bs.length then "cut" else if w = bs.length then "same" else "extend"] }

def hNewConst : Handler := fun args res => do
  let (w, b, _b2) ← runP (do let w ← pNat; let b ← pHex; let b2 ← pHex; pure (w, b, b2)) args
  let model := Const.newConst b w
  let istr := " ".intercalate res
  return { corr := corrOf ("c:" ++ fmtHexRaw model) istr,
           oracle := if istr == "c:" ++ fmtHexRaw model then none else some "constant changed with the caller's slice / wrong bytes",
           tags := [if w < b.length then "cut" else if w = b.length then "same" else "extend"] }

def exprHandlers : List (String × Handler) := [
  ("fold", hFold), ("purge", hPurge), ("setw", hSetw), ("poss", hPoss), ("equal", hEqual),
  ("find", hFind), ("repl", hRepl), ("exprs", hExprs), ("exprsmany", hExprsMany),
  ("efapply", hEfApply), ("efsapply", hEfsApply), ("wgarg", hWgArg),
  ("gadget", hGadget false), ("gadgetf", hGadget true),
  ("constuint", hConstUint false), ("constint", hConstInt false),
  ("constfromuint", hConstUint true), ("constfromint", hConstInt true),
  ("touint", hToUint), ("withwidth", hWithWidth), ("newconst", hNewConst)]

end Driver
