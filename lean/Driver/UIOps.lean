import Driver.Core
import Mltwist.Model.UI
import Mltwist.Spec.UI
/-
Handler for whole console UI sessions (C22), op `ui`:

  ui <entry> <nblocks> (<begin> <hex>)… <n> <k> LINE…
     => err:<stage> | S ("|" STEP)*
  S    := <depth> <mode name hex>… <kind> <cursor> <print status>:<newlines> DUMP
  DUMP := D= | D <entry> <nblocks> (<Idx> <Begin> <End> <nins>
               (<Idx> <Begin> <text hex> <bytes hex> <LowerBound> <UpperBound>)…)…
        | E <ip|-> <nregs> (<key hex> <width>)… <nmems> (<key hex> <nblocks> (<begin> <end>)…)…
        | M
  STEP := <status> <consumed> <nprompts> (r|m <width>)… F S
        | (quit|eof|PANIC|HANG) <consumed> <nprompts> (r|m <width>)… F
  F    := - | <pattern hex> (E | <one 0/1 digit per listing line>)

The model never sees the instructions of the program: the parameters of `Model/UI.lean` are replayed
from what the implementation showed (untrusted glue, not part of any theorem):

* code operations: `Listing.refOps` with the bounds of the last code dump (as in `Driver/ListingOps`);
  the code of the model after a command is compared with the next dump;
* regular expressions: the match vector `F` of the line (a table from line text to the answer);
* the emulator: its state is the last dump `E` (instruction pointer, register names and widths,
  memories and their blocks); `Step` asks for the values the implementation prompted for (`r|m <width>`)
  and ends in the state of the next dump, or fails when no instruction is at the instruction pointer; since the
  repair of F45 `Step` can also fail AT an instruction (an access leaves the address space) after its prompts:
  whether it did is replayed from the status of the call (`error`), the state after it from the next dump;
  `emulator.New` and `Regs.Store` yield the state of the next dump.  Memory cells are constants.

What is compared (C): status, lines consumed, mode stack, kind, cursor, `Print` status and number of
newlines after every call.  The oracle (O) is `Spec.UI.checkSession` on the implementation's answers.
-/
namespace Driver.UIOps
open Driver Mltwist Mltwist.UI

def strOfBytes (bs : List UInt8) : String := String.ofList (bs.map fun b => Char.ofNat b.toNat)

/-! ### observations -/

structure EObs where
  ip : Option Nat := none
  regs : List (Str × Nat) := []
  mems : List (Str × List (Nat × Nat)) := []
  deriving Repr, Inhabited

inductive Dump where
  | same
  | code (c : Listing.Code)
  | emu (e : EObs)
  | mem
  deriving Repr

structure SObs where
  names : List Str
  kind : String
  cursor : Int
  render : String
  dump : Dump
  deriving Repr

def pCode : P Listing.Code := do
  let entry ← pNat
  let blocks ← pList (do
    let idx ← pNat
    let bg ← pNat
    let en ← pNat
    let ins ← pList (do
      let i ← pNat
      let a ← pNat
      let t ← pHex
      let bs ← pHex
      let lo ← pNat
      let up ← pNat
      pure (⟨strOfBytes t, bs, i, a, lo, up⟩ : Listing.Ins))
    pure (⟨idx, bg, en, ins⟩ : Listing.Block))
  pure ⟨entry, blocks⟩

def pEObs : P EObs := do
  let t ← next
  let ip ← if t == "-" then pure none else
    match t.toNat? with
    | some n => pure (some n)
    | none => throw s!"bad ip {t}"
  let regs ← pList (do
    let k ← pHex
    let w ← pNat
    pure (k, w))
  let mems ← pList (do
    let k ← pHex
    let bl ← pList (do
      let x ← pNat
      let y ← pNat
      pure (x, y))
    pure (k, bl))
  pure { ip, regs, mems }

def pSObs : P SObs := do
  let depth ← pNat
  let mut names : Array Str := #[]
  for _ in [0:depth] do
    names := names.push (← pHex)
  let kind ← next
  if kind == "none" then
    return { names := names.toList, kind, cursor := -1, render := "-", dump := .mem }
  let cursor ← pInt
  let render ← next
  let d ← next
  let dump ← match d with
    | "D=" => pure Dump.same
    | "D" => do pure (Dump.code (← pCode))
    | "E" => do pure (Dump.emu (← pEObs))
    | "M" => pure Dump.mem
    | t => throw s!"bad dump {t}"
  pure { names := names.toList, kind, cursor, render, dump }

structure FindObs where
  pattern : Str
  /-- `none`: the pattern does not compile -/
  vec : Option (List Bool)
  deriving Repr

structure StepTok where
  status : String
  consumed : Nat
  prompts : List Nat
  find : Option FindObs
  after : Option SObs
  deriving Repr

def pStep : P StepTok := do
  let status ← next
  let consumed ← pNat
  let prompts ← pList (do
    let _ ← next
    pNat)
  let f ← next
  let find ← if f == "-" then pure none else do
    let some pat := parseHex f | throw s!"bad pattern {f}"
    let v ← next
    if v == "E" then pure (some ⟨pat, none⟩)
    else if v.toList.all (fun c => c == '0' || c == '1') then
      pure (some ⟨pat, some (v.toList.map (· == '1'))⟩)
    else throw s!"bad match vector {v}"
  let terminal := ["quit", "eof", "PANIC", "HANG"].contains status
  let after ← if terminal then pure none else do pure (some (← pSObs))
  pure { status, consumed, prompts, find, after }

def splitBar : List String → List (List String)
  | [] => [[]]
  | "|" :: ts => [] :: splitBar ts
  | t :: ts =>
    match splitBar ts with
    | [] => [[t]]
    | g :: gs => (t :: g) :: gs

/-! ### the replayed parameters -/

/-- the emulator state of the model: the last dump -/
structure RSt where
  cur : EObs
  deriving Inhabited

def asks : List Nat → StepTree RSt → StepTree RSt
  | [], t => t
  | w :: ws, t => .ask w fun _ => asks ws t

def lookupKey {α} (l : List (Str × α)) (k : Str) : Option α := (l.find? fun p => p.1 == k).map (·.2)

def replayEops (code : Listing.Code) (next : EObs) (prompts : List Nat) (failed : Bool := false) : EmuOps RSt where
  init _ _ := ⟨next⟩
  ip s := s.cur.ip
  step s :=
    match s.cur.ip with
    | none => .panic
    | some ip =>
      match (code.address ip).bind (·.address ip) with
      | none => .fail s
      | some _ => asks prompts (if failed then .fail ⟨next⟩ else .done ⟨next⟩)
  regWidth s k := lookupKey s.cur.regs k
  regStore _ _ _ := ⟨next⟩
  mem s k := (lookupKey s.cur.mems k).map fun bl => ⟨some bl, fun _ => some [0]⟩
  regs s := s.cur.regs.map fun p => ⟨strOfBytes p.1, p.2⟩

def replayRx (texts : List String) (f : Option FindObs) : Str → Option (String → Bool) := fun pat =>
  match f with
  | none => some fun _ => false
  | some fo =>
    if fo.pattern != pat then some fun _ => false
    else
      match fo.vec with
      | none => none
      | some v =>
        let table := texts.zip v
        some fun t => ((table.find? fun p => p.1 == t).map (·.2)).getD false

/-! ### printing the model state like the harness does -/

def kindName {σ} : Mode σ → String
  | .dis _ => "dis" | .emu _ => "emu" | .mem _ _ => "mem"

def cursorOf {σ} : Mode σ → Nat
  | .dis st => st.cursor.value
  | .emu e => e.view.cursor.value
  | .mem _ v => v.cursor

def fmtRender (r : Render.Res) : String :=
  match r.status with
  | .ok => s!"ok:{r.out.nl}"
  | .err => s!"err:{r.out.nl}"
  | .panic => s!"PANIC:{r.out.nl}"
  | .outOfFuel => s!"FUEL:{r.out.nl}"

def fmtState (eops : EmuOps RSt) (ui : UI RSt) (n : Nat) : String :=
  let names := ui.stack.reverse.map (·.name)
  let head := s!"{names.length} " ++ " ".intercalate (names.map fmtHex)
  match ui.stack with
  | [] => head ++ " none"
  | top :: _ => head ++ s!" {kindName top.mode} {cursorOf top.mode} {fmtRender (renderTop eops ui n)}"

def fmtSObs (o : SObs) : String :=
  let head := s!"{o.names.length} " ++ " ".intercalate (o.names.map fmtHex)
  if o.kind == "none" then head ++ " none" else head ++ s!" {o.kind} {o.cursor} {o.render}"

def stripBounds (c : Listing.Code) : Listing.Code :=
  { c with blocks := c.blocks.map fun b => { b with ins := b.ins.map fun i => { i with lower := 0, upper := 0 } } }

/-- put the bounds (the whole code) of the last dump into the disassembler mode on top of the stack -/
def refreshCode (ui : UI RSt) (code : Listing.Code) : UI RSt :=
  match ui.stack with
  | top :: below =>
    match top.mode with
    | .dis st => ⟨{ top with mode := .dis { st with code := code } } :: below⟩
    | _ => ui
  | [] => ui

def topCode (ui : UI RSt) : Option Listing.Code :=
  match ui.stack with
  | top :: _ =>
    match top.mode with
    | .dis st => some st.code
    | _ => none
  | [] => none

def topTexts (ui : UI RSt) : List String :=
  match ui.stack with
  | top :: _ =>
    match top.mode with
    | .dis st => st.lines.lines.map (·.value)
    | _ => []
  | [] => []

def specStatus : String → Spec.Status
  | "skip" => .skip | "ok" => .ok | "error" => .error | "left" => .left | "quit" => .quit
  | "eof" => .eof | "HANG" => .hang | _ => .panic

def fmtAnswer : Answer → String
  | .skipped => "skip" | .executed => "ok" | .error => "error" | .left => "left"

/-- scanner glue: `bufio.ScanLines` drops one trailing carriage return -/
def scanLine (s : Str) : Str := if s.getLast? == some 0x0d then s.dropLast else s

/-- a script line is a byte string -/
def pLine : P Str := do
  let t ← next
  if t == "-" then pure []
  else if t.startsWith "x:" then
    match parseHex (t.drop 2).toString with
    | some bs => pure bs
    | none => throw s!"bad line {t}"
  else throw s!"bad line {t}"

structure Acc where
  ui : UI RSt
  inp : Input
  code : Listing.Code
  emu : EObs
  names : List Str
  /-- the script lines the implementation has not consumed yet (for the oracle) -/
  todo : Input
  diff : Option String := none
  obs : Array Spec.StepObs := #[]
  tags : Array String := #[]
  stop : Bool := false

def lineTags (line : Str) (kind : String) : List String :=
  let ws := Spec.words line
  (if !line.isEmpty && ws.isEmpty then ["allspace"] else []) ++
  (if line.any (· == 0x09) then ["tab"] else []) ++
  (if line.head? == some 0x20 || line.getLast? == some 0x20 then ["outer-space"] else []) ++
  (if ws.length ≥ 3 then ["words3+"] else []) ++
  (match ws.head? with
   | some w => if w.any (fun c => 0x41 ≤ c && c ≤ 0x5a) then ["upper"] else []
   | none => []) ++
  (if line.length > 1000 then ["longline"] else []) ++ [s!"in-{kind}"]

def doStep (n : Nat) (a : Acc) (k : Nat) (st : StepTok) : Except String Acc := do
  let line := a.todo.head?
  let kind := (a.names.getLast?.map fun nm => match Spec.kindOf nm with
    | .dis => "dis" | .emu => "emu" | .mem => "mem" | .other => "other").getD "none"
  -- parameters of this call
  let nextEmu : EObs := match st.after with
    | some ⟨_, _, _, _, .emu e⟩ => e
    | _ => a.emu
  let ui := refreshCode a.ui a.code
  let p : Params RSt := {
    cops := Listing.refOps
    eops := replayEops a.code nextEmu st.prompts (st.status == "error")
    rx := replayRx (topTexts ui) st.find }
  -- the oracle's view of the call
  let so : Spec.StepObs := {
    line, status := specStatus st.status, consumed := st.consumed, remaining := a.todo.length,
    before := a.names, after := st.after.map (·.names),
    renderPanic := match st.after with | some o => o.render.startsWith "PANIC" | none => false }
  let a := { a with obs := a.obs.push so, todo := a.todo.drop st.consumed }
  let tags := (match line with | some l => lineTags l kind | none => ["at-eof"]) ++ [s!"st-{st.status}"] ++
    (if st.prompts.length > 0 then ["prompt"] else []) ++
    (if st.prompts.length > 1 then ["prompts2+"] else []) ++
    (match st.find with | some ⟨_, none⟩ => ["find-badregex"] | some _ => ["find"] | none => [])
  let actTag : List String := match line, ui.stack with
    | some l, top :: _ =>
      if l.isEmpty then [] else
      match parseCommand top.cmdMap l with
      | .ok cmd args =>
        let nm := (reprStr cmd.act).replace "Mltwist.UI.Act." ""
        [s!"{nm}-{st.status}"] ++
          (if st.prompts.length > 0 && st.consumed > st.prompts.length + 1 then ["value-retry"] else []) ++
          (if nm == "dFind" && args.length == 2 then ["find-words2+"] else []) ++
          -- F45: `Step` failed although an instruction is at the instruction pointer
          (if nm == "eStep" && st.status == "error" &&
              (match a.emu.ip with
               | some ip => ((a.code.address ip).bind (·.address ip)).isSome
               | none => false) then ["step-access-err"] else [])
      | .err => ["parse-err"]
      | .panic => ["parse-panic"]
    | _, _ => []
  let a := { a with tags := a.tags ++ tags.toArray ++ actTag.toArray }
  if a.diff.isSome then
    -- the model has lost track: only the oracle goes on
    let names := match st.after with | some o => o.names | none => a.names
    return { a with names }
  -- the model
  let out := uiStep p ui a.inp
  let (mstr, next) : String × Option (UI RSt × Input) := match out with
    | .cont ans ui' rest =>
      (s!"{fmtAnswer ans} {a.inp.length - rest.length} {fmtState p.eops ui' n}", some (ui', rest))
    | .exited rest => (s!"quit {a.inp.length - rest.length}", none)
    | .eof _ => (s!"eof {a.inp.length}", none)
    | .hang => ("HANG", none)
    | .panic => ("PANIC", none)
  let istr := match st.after with
    | some o => s!"{st.status} {st.consumed} {fmtSObs o}"
    | none => if st.status == "HANG" || st.status == "PANIC" then st.status else s!"{st.status} {st.consumed}"
  let mut diff : Option String := if mstr == istr then none else some s!"call {k + 1}: {mstr}"
  -- the code of the model against the dump
  let mut code := a.code
  match st.after, next with
  | some o, some (ui', _) =>
    match o.dump with
    | .code c =>
      code := c
      match topCode ui' with
      | some mc =>
        if diff.isNone && stripBounds mc != stripBounds c then diff := some s!"call {k + 1}: code differs"
      | none => pure ()
    | .same =>
      match topCode ui' with
      | some mc =>
        if diff.isNone && stripBounds mc != stripBounds a.code then diff := some s!"call {k + 1}: code changed"
      | none => pure ()
    | _ => pure ()
  | _, _ => pure ()
  let names := match st.after with | some o => o.names | none => a.names
  match next with
  | some (ui', rest) =>
    return { a with ui := ui', inp := rest, code, emu := nextEmu, names, diff }
  | none =>
    return { a with diff, names, stop := true }

def handler : Handler := fun args res => do
  let (n, lines) ← runP (do
      let _ ← pNat
      let _ ← pList (do
        let _ ← pNat
        let _ ← pHex
        pure ())
      let n ← pNat
      let lines ← pList pLine
      pure (n, lines)) args
  if res == ["PANIC"] || res == ["CRASH"] then
    return { corr := some "no panic", oracle := some "the session crashes the harness", tags := ["CRASH"] }
  match res with
  | [t] =>
    if t.startsWith "err:" then return { oracleNA := true, tags := ["build-" ++ (t.drop 4).toString] }
  | _ => pure ()
  match splitBar res with
  | [] => throw "empty result"
  | s0 :: stepToks =>
    let o0 ← runP pSObs s0
    let code0 ← match o0.dump with
      | .code c => pure c
      | _ => throw "no initial code dump"
    let some ui0 := (UI.init code0 : Option (UI RSt)) | throw "model: UI.init fails"
    let p0 : Params RSt := { cops := Listing.refOps, eops := replayEops code0 {} [], rx := fun _ => none }
    let m0 := fmtState p0.eops ui0 n
    let d0 := if m0 == fmtSObs o0 then none else some s!"initial state: {m0}"
    let steps ← stepToks.mapM (runP pStep)
    let mut acc : Acc := {
      ui := ui0, inp := lines.map scanLine, code := code0, emu := {}, names := o0.names,
      todo := lines.map scanLine, diff := d0 }
    let mut k := 0
    for st in steps do
      acc ← doStep n acc k st
      k := k + 1
    let oracle := Spec.checkSession acc.obs.toList
    let statuses := acc.obs.toList.map (·.status)
    let kinds := (acc.obs.toList.flatMap fun o =>
      (o.before.getLast?.map Spec.kindOf).toList).eraseDups
    let nonEmptyOk := (acc.obs.toList.any fun o => o.status == .ok)
    let tags := ["ui"] ++ acc.tags.toList.eraseDups ++
      (if kinds.length ≥ 2 then ["modes2+"] else []) ++
      (if kinds.length ≥ 3 then ["modes3"] else []) ++
      (if statuses.contains .error && nonEmptyOk then ["err+ok"] else []) ++
      [s!"blocks{min code0.blocks.length 4}"] ++
      (if lines.length ≥ 10 then ["script10+"] else [])
    return { corr := acc.diff, oracle, tags }

/-- the real binary under a pseudo-terminal (thorough tier): there is no model run here (nothing of the
parameters can be observed), only the oracle: the program ends by itself with status 0 (`quit`) or 1 (end
of the input) and prints no Go crash report -/
def binHandler : Handler := fun args res => do
  let _ ← runP (do
      let _ ← pHex
      let _ ← pNat
      let lines ← pList pLine
      pure lines) args
  let r := " ".intercalate res
  let ok := r == "exit:0 clean" || r == "exit:1 clean"
  if r == "nopty" then return { oracleNA := true, tags := ["uibin", "nopty"] }
  return {
    oracle := if ok then none else some s!"the binary ends with '{r}'",
    tags := ["uibin", (res.headD "").replace ":" "-"] }

def uiHandlers : List (String × Handler) := [("ui", handler), ("uibin", binHandler)]

end Driver.UIOps

namespace Driver
export Driver.UIOps (uiHandlers)
end Driver
