import Driver.Core
import Mltwist.Model.Format
import Mltwist.Spec.Format
/-
Handler for help-text wrapping (C29):  `fmt <indent> <width> <hex of s> => <hex of output> | PANIC | DIVERGES`.
-/
namespace Driver
open Mltwist

def fmtOutcome : Format.Outcome → String
  | .ok out => fmtHex out
  | .panic => "PANIC"
  | .diverges => "DIVERGES"
  | .outOfFuel => "OUTOFFUEL"

def hFmt : Handler := fun args res => do
  let (indent, width, s) ← runP (do let i ← pInt; let w ← pInt; let s ← pHex; pure (i, w, s)) args
  let m := fmtOutcome (Format.format s indent width)
  let istr := " ".intercalate res
  let chars := width - indent * 8
  let pre : Bool := decide (Spec.Format.Pre s) && decide (1 ≤ chars) && decide (0 ≤ indent)
  let ws := Spec.Format.words s
  let longest := ws.foldl (fun a w => max a w.length) 0
  let baseTags := [if pre then "pre" else "nopre"] ++
    (if s.isEmpty then ["empty"] else []) ++
    (if pre && decide ((longest : Int) > chars) then ["longword"] else []) ++
    (if pre && ws.any (fun w => decide ((w.length : Int) = chars)) then ["exactword"] else [])
  if !pre then
    -- outside the precondition the property says nothing; only model = implementation is compared
    let why := if decide (chars < 0) then "chars<0" else if decide (chars = 0) then "chars=0"
      else if decide (indent < 0) then "indent<0"
      else if s.head? == some Spec.Format.space then "leadsp" else "newline"
    return { corr := corrOf m istr, oracleNA := true, tags := baseTags ++ [why] }
  -- CRASH: the harness gave no answer (watchdog of ops_format.go or a fatal runtime error)
  if res == ["PANIC"] || res == ["DIVERGES"] || res == ["CRASH"] then
    return { corr := corrOf m istr, oracle := some s!"{istr} within the precondition", tags := baseTags }
  let out ← runP pHex res
  let orc := Spec.Format.check s indent.toNat chars.toNat out
  let nlines := (out.filter (· == Spec.Format.nl)).length
  let tags := baseTags ++ [if nlines ≥ 2 then "multi" else "single"] ++
    (if decide ((s.length : Int) > chars) && nlines ≥ 2 then ["wrapped"] else [])
  return { corr := corrOf m istr, oracle := orc, tags }

def formatHandlers : List (String × Handler) := [("fmt", hFmt)]

end Driver
