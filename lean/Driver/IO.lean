import Mltwist.Model.Expr
import Mltwist.Model.Transform
/-
Line protocol: parsing and printing of expressions, effects and small values.
Untrusted glue (not used in any theorem); `partial` is fine here.
-/
namespace Driver
open Mltwist

def hexDigit (c : Char) : Option Nat :=
  if '0' ≤ c ∧ c ≤ '9' then some (c.toNat - '0'.toNat)
  else if 'a' ≤ c ∧ c ≤ 'f' then some (c.toNat - 'a'.toNat + 10)
  else if 'A' ≤ c ∧ c ≤ 'F' then some (c.toNat - 'A'.toNat + 10)
  else none

partial def parseHexChars : List Char → Option (List UInt8)
  | [] => some []
  | a :: b :: rest => do
    let x ← hexDigit a
    let y ← hexDigit b
    let r ← parseHexChars rest
    pure (UInt8.ofNat (16 * x + y) :: r)
  | _ => none

def parseHex (s : String) : Option (List UInt8) :=
  if s == "-" then some [] else parseHexChars s.toList

def hexChar (n : Nat) : Char :=
  if n < 10 then Char.ofNat ('0'.toNat + n) else Char.ofNat ('a'.toNat + n - 10)

def fmtHexRaw (bs : List UInt8) : String :=
  String.ofList (bs.flatMap fun b => [hexChar (b.toNat / 16), hexChar (b.toNat % 16)])

def fmtHex (bs : List UInt8) : String := if bs.isEmpty then "-" else fmtHexRaw bs

def binOpName : BinOp → String
  | .add => "add" | .lsh => "lsh" | .rsh => "rsh" | .mul => "mul" | .div => "div" | .nand => "nand"

def parseBinOp : String → Option BinOp
  | "add" => some .add | "lsh" => some .lsh | "rsh" => some .rsh
  | "mul" => some .mul | "div" => some .div | "nand" => some .nand
  | _ => none

partial def fmtExpr : Expr → String
  | .const bs => "c:" ++ fmtHexRaw bs
  | .binary op a b w => s!"b {binOpName op} {w} {fmtExpr a} {fmtExpr b}"
  | .less a b t f w => s!"l {w} {fmtExpr a} {fmtExpr b} {fmtExpr t} {fmtExpr f}"
  | .memLoad k a w => s!"m {k} {w} {fmtExpr a}"
  | .regLoad k w => s!"r {k} {w}"

def fmtExprs (es : List Expr) : String :=
  es.foldl (fun acc e => acc ++ " " ++ fmtExpr e) (toString es.length)

def fmtEffect : Effect → String
  | .memStore v k a w => s!"ms {k} {w} {fmtExpr v} {fmtExpr a}"
  | .regStore v k w => s!"rs {k} {w} {fmtExpr v}"

def fmtEffects (es : List Effect) : String :=
  es.foldl (fun acc e => acc ++ " " ++ fmtEffect e) (toString es.length)

/-- token stream parser monad -/
abbrev P := StateT (List String) (Except String)

def next : P String := do
  match (← get) with
  | [] => throw "unexpected end of tokens"
  | t :: ts => set ts; pure t

def atEnd : P Bool := do pure (← get).isEmpty

def pNat : P Nat := do
  let t ← next
  match t.toNat? with
  | some n => pure n
  | none => throw s!"bad nat {t}"

def pInt : P Int := do
  let t ← next
  match t.toInt? with
  | some n => pure n
  | none => throw s!"bad int {t}"

def pHex : P (List UInt8) := do
  let t ← next
  match parseHex t with
  | some bs => pure bs
  | none => throw s!"bad hex {t}"

def pBool : P Bool := do
  match (← next) with
  | "true" => pure true
  | "false" => pure false
  | t => throw s!"bad bool {t}"

def expect (s : String) : P Unit := do
  let t ← next
  if t != s then throw s!"expected {s} got {t}"

partial def pExpr : P Expr := do
  let t ← next
  if t.startsWith "cw:" then
    -- cw:<hex>:<w>: the constant c:<hex> narrowed to w bytes (`Const.WithWidth`); in the model just the low w bytes
    let cs := t.toList.drop 3
    let h := cs.takeWhile (· != ':')
    let w := String.ofList ((cs.dropWhile (· != ':')).drop 1)
    match parseHexChars h, w.toNat? with
    | some bs, some n => if n == 0 || n > bs.length then throw s!"bad narrowed const {t}" else pure (.const (bs.take n))
    | _, _ => throw s!"bad narrowed const {t}"
  else if t.startsWith "c:" then
    match parseHexChars (t.toList.drop 2) with
    | some bs => pure (.const bs)
    | none => throw s!"bad const {t}"
  else match t with
  | "b" => do
    let o ← next
    let some op := parseBinOp o | throw s!"bad op {o}"
    let w ← pNat
    let a ← pExpr
    let b ← pExpr
    pure (.binary op a b w)
  | "l" => do
    let w ← pNat
    let a ← pExpr
    let b ← pExpr
    let tr ← pExpr
    let f ← pExpr
    pure (.less a b tr f w)
  | "m" => do
    let k ← next
    let w ← pNat
    let a ← pExpr
    pure (.memLoad k a w)
  | "r" => do
    let k ← next
    let w ← pNat
    pure (.regLoad k w)
  | _ => throw s!"bad expr token {t}"

def pEffect : P Effect := do
  match (← next) with
  | "ms" => do
    let k ← next
    let w ← pNat
    let v ← pExpr
    let a ← pExpr
    pure (.memStore v k a w)
  | "rs" => do
    let k ← next
    let w ← pNat
    let v ← pExpr
    pure (.regStore v k w)
  | t => throw s!"bad effect token {t}"

def pList {α} (p : P α) : P (List α) := do
  let n ← pNat
  let mut acc : Array α := #[]
  for _ in [0:n] do
    acc := acc.push (← p)
  pure acc.toList

def pExprs : P (List Expr) := pList pExpr

def runP {α} (p : P α) (toks : List String) : Except String α :=
  match p.run toks with
  | .ok (a, []) => .ok a
  | .ok (_, t :: _) => .error s!"trailing token {t}"
  | .error e => .error e

def words (s : String) : List String :=
  (s.splitOn " ").filter (· ≠ "")

/-! deterministic pseudo-random valuations -/

def mix (h x : Nat) : Nat := ((h ^^^ x) * 1099511628211 + 0x9e3779b97f4a7c15) % 2 ^ 64

def hashStr (seed : Nat) (s : String) : Nat := s.foldl (fun h c => mix h c.toNat) (mix seed 77)

/-- a pseudo-random natural below `2^(8*bytes)` with a bias to boundary values -/
def rndNat (h : Nat) (bytes : Nat) : Nat :=
  let m := 2 ^ (8 * bytes)
  let big := (List.range ((bytes + 7) / 8 + 1)).foldl (fun acc i => acc * 2 ^ 64 + mix h (i + 1)) 0
  match h % 8 with
  | 0 => 0
  | 1 => m - 1
  | 2 => m / 2
  | 3 => m / 2 - 1
  | 4 => (mix h 5) % 256
  | _ => big % m

def mkEnv (seed : Nat) : Env where
  reg k := rndNat (hashStr seed k) 40
  mem k a := mix (mix (hashStr (seed + 1) k) a) 1 / 2 ^ 56

end Driver
