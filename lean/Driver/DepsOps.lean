import Driver.Core
import Mltwist.Model.Deps
import Mltwist.Spec.Deps
import Mltwist.Spec.BasicBlock
/-
Handlers for the dependency analysis and the move bookkeeping of `internal/deps`.

  deps    <entry> <n> (<type> <addr> <len> <neffects> EF…)… <k> op…    C07 oracle (bookkeeping)
  depsx   … the same line format and the same harness function …       C05 oracle (execution)
  depsadj <entry> <n> (<type> <addr> <len> <neffects> EF…)…            C06 oracle (adjacent swaps)

ops: `mv <block> <from> <to>`, `bmv <from> <to>`, `lb <block> <i>`, `ub <block> <i>`, `addr <a>`,
`edges <block>`.  Result of `deps`/`depsx`:
  `<all edges> ; <state> | <answer> ; <state> | … | <all edges>`      (see `ops_deps.go`).
-/
namespace Driver.Deps
open Driver Mltwist Mltwist.Deps

/-! ### parsing of the arguments -/

abbrev Raw := Nat × Nat × Nat × List Effect

def pRaw : P Raw := do
  let t ← pNat
  let a ← pNat
  let l ← pNat
  let efs ← pList pEffect
  pure (t, a, l, efs)

def pOp : P Op := do
  match (← next) with
  | "mv" => do let b ← pInt; let f ← pInt; let t ← pInt; pure (.mv b f t)
  | "bmv" => do let f ← pInt; let t ← pInt; pure (.bmv f t)
  | "lb" => do let b ← pInt; let i ← pInt; pure (.lb b i)
  | "ub" => do let b ← pInt; let i ← pInt; pure (.ub b i)
  | "addr" => do let a ← pNat; pure (.addr a)
  | "edges" => do let b ← pInt; pure (.edges b)
  | t => throw s!"bad deps op {t}"

def pProgram : P (Nat × List Raw) := do
  let e ← pNat
  let l ← pList pRaw
  pure (e, l)

/-! ### printing of the model -/

def fmtErrClass : BasicBlock.ErrClass → String
  | .noBlock => "noblock" | .notContained => "notcontained" | .notFound => "notfound"
  | .notBoundary => "boundary"

def fmtParseFail : BasicBlock.ParseFail → String
  | .panic => "PANIC"
  | .jumpTarget c => "err:jt:" ++ fmtErrClass c
  | .entry c => "err:entry:" ++ fmtErrClass c

def fmtMoveErr : MoveErr → String
  | .negFrom => "err:neg:from" | .aboveFrom => "err:above:from"
  | .negTo => "err:neg:to" | .aboveTo => "err:above:to"
  | .upper u => s!"err:upper:{u}" | .lower l => s!"err:lower:{l}"
  | .panic => "PANIC"

def pairLe (a b : Nat × Nat) : Bool := a.1 < b.1 || (a.1 == b.1 && a.2 ≤ b.2)

/-- the edges of a block as sorted pairs of original addresses -/
def blockEdges (b : Block) : List (Nat × Nat) :=
  let orig (id : Nat) : Nat := ((b.seq.find? (·.id == id)).map (·.origAddr)).getD 0
  ((b.edges.map fun e => (orig e.1, orig e.2)).mergeSort pairLe).eraseDups

def fmtPairs (l : List (Nat × Nat)) : String :=
  l.foldl (fun acc e => acc ++ s!" {e.1} {e.2}") (toString l.length)

def fmtBlockEdges (b : Block) : String := fmtPairs (blockEdges b)

def currentBlocks (c : Code) : List Block := c.blocks.filterMap fun p => c.store[p]?

def fmtAllEdges (c : Code) : String :=
  (currentBlocks c).foldl (fun acc b => acc ++ " " ++ fmtBlockEdges b) (toString c.blocks.length)

/-- `none` = a panic somewhere in the dump -/
def fmtIns (c : Code) (b : Block) (k : Nat) (i : Ins) : Option String := do
  let lo ← b.lowerBound k
  let hi ← b.upperBound k
  let fb ← c.address i.currAddr
  let lk ← match fb with
    | none => pure "- -"
    | some fb => do
      let fi ← fb.address i.currAddr
      match fi with
      | none => pure s!"{fb.begin} -"
      | some fi => pure s!"{fb.begin} {fi.origAddr}"
  pure s!"{i.origAddr} {i.currAddr} {i.len} {i.blockIdx} {lo} {hi} {lk}"

def fmtState (c : Code) : String :=
  let r : Option String := (currentBlocks c).foldlM (fun acc b => do
    let parts ← (b.seq.zipIdx).mapM fun (i, k) => fmtIns c b k i
    pure (parts.foldl (fun acc p => acc ++ " " ++ p)
      (acc ++ s!" B {b.idx} {b.begin} {b.end_} {b.seq.length}"))) (toString c.blocks.length)
  r.getD "PANIC"

def fmtAnswer : Answer → String
  | .panic => "PANIC"
  | .ok => "ok"
  | .err e => fmtMoveErr e
  | .bound n => toString n
  | .addr none => "none"
  | .addr (some (b, none)) => s!"{b.begin} none"
  | .addr (some (b, some i)) => s!"{b.begin} {i.origAddr}"
  | .edges b => fmtBlockEdges b

def modelHistory (c : Code) (ops : List Op) : String :=
  let (c, parts) := ops.foldl (fun (st : Code × List String) op =>
    let (c', a) := st.1.step op
    (c', st.2 ++ [fmtAnswer a ++ " ; " ++ fmtState c'])) (c, [fmtAllEdges c ++ " ; " ++ fmtState c])
  " | ".intercalate (parts ++ [fmtAllEdges c])

/-! ### parsing of the implementation's result -/

def splitAt (sep : String) (toks : List String) : List (List String) :=
  let (cur, acc) := toks.foldl (fun (p : List String × List (List String)) t =>
    if t == sep then ([], p.2 ++ [p.1]) else (p.1 ++ [t], p.2)) ([], [])
  acc ++ [cur]

/-- an instruction of a dump -/
structure DIns where
  orig : Nat
  curr : Nat
  len : Nat
  bidx : Nat
  lb : Int
  ub : Int
  lkB : Option Nat
  lkI : Option Nat
  deriving Repr, BEq

structure DBlock where
  idx : Nat
  begin : Nat
  end_ : Nat
  seq : List DIns
  deriving Repr, BEq

def pOptNat : P (Option Nat) := do
  let t ← next
  if t == "-" then pure none else
  match t.toNat? with
  | some n => pure (some n)
  | none => throw s!"bad optional nat {t}"

def pDIns : P DIns := do
  let orig ← pNat
  let curr ← pNat
  let len ← pNat
  let bidx ← pNat
  let lb ← pInt
  let ub ← pInt
  let lkB ← pOptNat
  let lkI ← pOptNat
  pure { orig, curr, len, bidx, lb, ub, lkB, lkI }

def pDBlock : P DBlock := do
  expect "B"
  let idx ← pNat
  let begin ← pNat
  let end_ ← pNat
  let seq ← pList pDIns
  pure { idx, begin, end_, seq }

def pState : P (List DBlock) := pList pDBlock

/-- `<nblocks> (<k> (<from> <to>)…)…`; a trailing `!asym` of a block is reported -/
def pAllEdges : P (List (List (Nat × Nat)) × Bool) := do
  let n ← pNat
  let mut acc : Array (List (Nat × Nat)) := #[]
  let mut asym := false
  for _ in [0:n] do
    let l ← pList (do let a ← pNat; let b ← pNat; pure (a, b))
    acc := acc.push l
    match (← get) with
    | "!asym" :: rest => set rest; asym := true
    | _ => pure ()
  pure (acc.toList, asym)

/-! ### views -/

open Mltwist.Deps.Spec in
/-- the view of a dumped block; `orig0` = the original addresses of the block in the original
order (ids), `edges` by original address -/
def viewOf (orig0 : List Nat) (edges : List (Nat × Nat)) (d : DBlock) : VBlock :=
  let idOf (a : Nat) : Nat := orig0.findIdx (· == a)
  { begin := d.begin, end_ := d.end_, idx := d.idx,
    seq := d.seq.map fun i => { id := idOf i.orig, orig := i.orig, curr := i.curr, len := i.len, idx := i.bidx },
    edges := edges.map fun e => (idOf e.1, idOf e.2) }

/-- static description of the original blocks: begin ↦ (original addresses, edges) -/
structure Orig where
  begin : Nat
  origs : List Nat
  edges : List (Nat × Nat)

def origOf (os : List Orig) (begin : Nat) : Orig :=
  (os.find? (·.begin == begin)).getD ⟨begin, [], []⟩

open Mltwist.Deps.Spec in
def viewCode (os : List Orig) (st : List DBlock) : VCode :=
  { blocks := st.map fun d => let o := origOf os d.begin; viewOf o.origs o.edges d }

/-! ### the C07 oracle -/

open Mltwist.Deps.Spec in
/-- the invariant on one dump -/
def checkDump (os : List Orig) (st : List DBlock) : Option String :=
  let v := viewCode os st
  match v.check with
  | some r => some r
  | none =>
    -- the blocks are the original blocks
    if (st.map (·.begin)).mergeSort (· ≤ ·) != (os.map (·.begin)).mergeSort (· ≤ ·) then
      some "the set of blocks changed"
    else
      match (st.zip v.blocks).findSome? (fun (d, b) =>
          b.checkBounds (d.seq.map fun i => (i.lb, i.ub))) with
      | some r => some r
      | none =>
        -- lookups: every instruction is found at its current address, in its block
        match st.findSome? (fun d => d.seq.findSome? fun i =>
            if i.lkB != some d.begin then some s!"Code.Address does not find the block of address {i.curr}"
            else if i.lkI != some i.orig then
              some s!"Block.Address does not find the instruction at its current address {i.curr}"
            else none) with
        | some r => some r
        | none => none

def frozenD (d : DBlock) : Nat × Nat × List (Nat × Nat × Nat) :=
  (d.begin, d.end_, d.seq.map fun i => (i.orig, i.curr, i.len))

open Mltwist.Deps.Spec in
/-- judge one step: the answer and the next dump, given the previous dump -/
def checkStep (os : List Orig) (prev next : List DBlock) (op : Op) (ans : List String) :
    Option String :=
  let unchanged : Option String := if prev == next then none else some "the state changed"
  let blockAt (bi : Int) : Option DBlock := if bi < 0 then none else prev[bi.toNat]?
  match op with
  | .mv bi f t =>
    match blockAt bi with
    | none => if ans == ["PANIC"] then unchanged else some "a move in a block that does not exist did not panic"
    | some d =>
      let n := d.seq.length
      let valid := decide (0 ≤ f) && decide (f < n) && decide (0 ≤ t) && decide (t < n)
      let within := match d.seq[f.toNat]? with
        | some i => decide (i.lb ≤ t) && decide (t ≤ i.ub)
        | none => false
      if ans == ["ok"] then
        if !(valid && within) then some "a move outside the reported bounds (or with an invalid position) was accepted"
        else
          let want := rotate (d.seq.map (·.orig)) f.toNat t.toNat
          let okBlock (k : Nat) (x y : DBlock) : Bool :=
            if k == bi.toNat then
              y.seq.map (·.orig) == want && y.begin == x.begin && y.end_ == x.end_ && y.idx == x.idx
            else x == y
          if prev.length != next.length then some "the number of blocks changed"
          else if !((prev.zip next).zipIdx.all fun ((x, y), k) => okBlock k x y) then
            some "an accepted move is not the rotation of the segment between the two positions"
          else none
      else if ans.length == 1 && (ans.headD "").startsWith "err:" then
        if valid && within then some "a move to a valid position within the reported bounds was rejected"
        else unchanged
      else some "a move panicked"
  | .bmv f t =>
    let n := prev.length
    let valid := decide (0 ≤ f) && decide (f < n) && decide (0 ≤ t) && decide (t < n)
    if ans == ["ok"] then
      if !valid then some "a block move with an invalid position was accepted"
      else if next.map frozenD != rotate (prev.map frozenD) f.toNat t.toNat then
        some "a block move changed more than the order of the blocks"
      else none
    else if ans.length == 1 && (ans.headD "").startsWith "err:" then
      if valid then some "a block move between valid positions was rejected" else unchanged
    else some "a block move panicked"
  | .lb bi i =>
    match (blockAt bi).bind (fun d => if i < 0 then none else d.seq[i.toNat]?) with
    | none => if ans == ["PANIC"] then unchanged else some "a bound of an instruction that does not exist did not panic"
    | some x => if ans == [toString x.lb] then unchanged else some "LowerBound answers differently in the dump"
  | .ub bi i =>
    match (blockAt bi).bind (fun d => if i < 0 then none else d.seq[i.toNat]?) with
    | none => if ans == ["PANIC"] then unchanged else some "a bound of an instruction that does not exist did not panic"
    | some x => if ans == [toString x.ub] then unchanged else some "UpperBound answers differently in the dump"
  | .addr a =>
    let v := viewCode os prev
    let want : List String := match v.lookup a with
      | none => ["none"]
      | some b => match b.lookup a with
        | none => [toString b.begin, "none"]
        | some i => [toString b.begin, toString i.orig]
    if ans != want then some s!"lookup of address {a}: expected {" ".intercalate want}"
    else unchanged
  | .edges bi =>
    match blockAt bi with
    | none => if ans == ["PANIC"] then unchanged else some "edges of a block that does not exist did not panic"
    | some d =>
      if ans != (fmtPairs (origOf os d.begin).edges).splitOn " " then some "the dependency edges of a block changed"
      else unchanged

/-! ### the C05 oracle -/

open Mltwist.Deps.Spec in
/-- the specification's view of a dumped block: effects and type by original address -/
def sinsOf (raw : List Raw) (lastOrig : Option Nat) (d : DBlock) : List SIns :=
  d.seq.map fun i =>
    match raw.find? (fun r => r.2.1 == i.orig) with
    | some (t, a, l, efs) =>
      { typ := t, addr := i.curr, len := i.len, effects := efs,
        term := lastOrig == some a && !(BasicBlock.Spec.realTargets a l efs).isEmpty }
    | none => { typ := 0, addr := i.curr, len := i.len, effects := [], term := false }

def envSeeds : List Nat := [11, 23, 37, 41, 59]

open Mltwist.Deps.Spec in
/-- run the current order of the block `begin` against its original order -/
def checkExec (raw : List Raw) (s0 cur : List DBlock) (begin : Nat) : Option String :=
  match s0.find? (·.begin == begin), cur.find? (·.begin == begin) with
  | some d0, some d =>
    let lastOrig := d0.seq.getLast?.map (·.orig)
    let l0 := sinsOf raw lastOrig d0
    let l := sinsOf raw lastOrig d
    let regs := (l0.flatMap fun i => i.regIn ++ i.regOut).eraseDups
    envSeeds.findSome? fun s =>
      (compareRuns l0 l regs (mkEnv s)).map fun r => s!"block {begin}, valuation seed {s}: {r}"
  | _, _ => some "block disappeared"

/-! ### the handlers -/

structure Parsed where
  edges0 : List (List (Nat × Nat))
  asym : Bool
  s0 : List DBlock
  steps : List (List String × List DBlock)
  edgesEnd : List (List (Nat × Nat))

def parseResult (res : List String) : Except String Parsed := do
  let parts := splitAt "|" res
  match parts with
  | [] => throw "empty result"
  | first :: rest =>
    let (e0, s0) ← match splitAt ";" first with
      | [e, s] => do
        let e ← runP pAllEdges e
        let s ← runP pState s
        pure (e, s)
      | _ => throw "bad initial part"
    let stepsRaw := rest.dropLast
    let last ← match rest.getLast? with
      | some l => runP pAllEdges l
      | none => throw "final edges missing"
    let steps ← stepsRaw.mapM fun p =>
      match splitAt ";" p with
      | [a, s] => do
        let s ← runP pState s
        pure (a, s)
      | _ => throw "bad step"
    pure { edges0 := e0.1, asym := e0.2 || last.2, s0, steps, edgesEnd := last.1 }

def tagsOf (raw : List Raw) (ops : List Op) (p : Parsed) : List String :=
  let n := p.s0.length
  let lens := raw.map (·.2.2.1)
  let answers := p.steps.map (·.1)
  let mvs := (ops.zip answers).filterMap fun (op, a) => match op with
    | .mv _ f t => some (f, t, a)
    | _ => none
  let bmvs := (ops.zip answers).filterMap fun (op, a) => match op with
    | .bmv f t => some (f, t, a)
    | _ => none
  let okFar := mvs.any fun (f, t, a) => a == ["ok"] && f != t
  let okFwd := mvs.any fun (f, t, a) => a == ["ok"] && f < t
  let okBack := mvs.any fun (f, t, a) => a == ["ok"] && f > t
  let okLong := mvs.any fun (f, t, a) => a == ["ok"] && ((f - t).natAbs ≥ 2)
  let nOk := (mvs.filter fun (f, t, a) => a == ["ok"] && f != t).length
  [if n ≥ 2 then "multi-block" else "one-block"] ++
  (if okFar then ["mv-ok"] else []) ++
  (if okFwd then ["mv-fwd"] else []) ++ (if okBack then ["mv-back"] else []) ++
  (if okLong then ["mv-long"] else []) ++
  (if nOk ≥ 2 then ["mv-ok2+"] else []) ++
  (if mvs.any fun (f, t, a) => a == ["ok"] && f == t then ["mv-same"] else []) ++
  (if mvs.any fun (_, _, a) => (a.headD "").startsWith "err:upper" || (a.headD "").startsWith "err:lower"
    then ["mv-rej-bound"] else []) ++
  (if mvs.any fun (_, _, a) => (a.headD "").startsWith "err:neg" || (a.headD "").startsWith "err:above"
    then ["mv-rej-index"] else []) ++
  (if bmvs.any fun (f, t, a) => a == ["ok"] && f != t then ["bmv-ok"] else []) ++
  (if bmvs.any fun (_, _, a) => (a.headD "").startsWith "err:" then ["bmv-rej"] else []) ++
  (if answers.any (· == ["PANIC"]) then ["op-panic"] else []) ++
  (if (ops.any fun | .addr _ => true | _ => false) then ["lookup"] else []) ++
  (if lens.any (· != 4) then ["unequal-len"] else []) ++
  (if okFar && lens.any (· != 4) then ["mv-ok-unequal"] else []) ++
  (if p.edges0.any (·.length ≥ 1) then ["has-edges"] else []) ++
  (if raw.any (fun r => r.1 % 2 == 1) then ["memorder"] else []) ++
  (if raw.any (fun r => r.1 / 2 % 2 == 1 || r.1 / 4 % 2 == 1) then ["special"] else []) ++
  (if raw.any (fun r => (outputRegs r.2.2.2).contains ipKey) then ["ipwrite"] else []) ++
  (if raw.any (fun r => (outputRegs r.2.2.2).contains ipKey &&
      (BasicBlock.Spec.realTargets r.2.1 r.2.2.1 r.2.2.2).isEmpty) then ["ip-fallthrough"] else []) ++
  (if raw.any (fun r => r.2.1 + r.2.2.1 ≥ 2 ^ 64) then ["top"] else [])

/-- common part of `deps` and `depsx`; `exec` selects the oracle -/
def hHistory (exec : Bool) : Handler := fun args res => do
  let ((entry, raw), ops) ← runP (do let p ← pProgram; let ops ← pList pOp; pure (p, ops)) args
  let mstr := match newCode entry raw with
    | .error f => fmtParseFail f
    | .ok c => modelHistory c ops
  let istr := " ".intercalate res
  let corr := corrOf mstr istr
  if res == ["PANIC"] || res == ["CRASH"] then
    return { corr, oracle := some "panic", tags := ["panic"] }
  if res.length == 1 && (res.headD "").startsWith "err:" then
    return { corr, oracleNA := true, tags := ["parse-error"] }
  if res.contains "PANIC" && !(splitAt "|" res).all (fun p => (splitAt ";" p).length ≤ 2 &&
      !(((splitAt ";" p).getLast?.getD []).contains "PANIC")) then
    return { corr, oracle := some "a state dump panicked", tags := ["panic"] }
  let p ← parseResult res
  let tags := tagsOf raw ops p
  if p.steps.length != ops.length then
    return { corr, oracle := some "wrong number of answers", tags }
  -- the original blocks
  let os : List Orig := (p.s0.zip p.edges0).map fun (d, e) => ⟨d.begin, d.seq.map (·.orig), e⟩
  let wf := BasicBlock.Spec.wfB (raw.map fun (_, a, l, efs) => ⟨a, l, BasicBlock.Spec.realTargets a l efs⟩)
  if !wf then
    return { corr, oracleNA := true, tags := tags ++ ["nonwf"] }
  let states := p.s0 :: p.steps.map (·.2)
  if !exec then
    let o1 := if p.asym then some "depsFwd and depsBack disagree" else none
    let o2 := states.zipIdx.findSome? fun (st, k) => (checkDump os st).map fun r => s!"after op {k}: {r}"
    let o3 := ((states.zip (states.drop 1)).zip (ops.zip (p.steps.map (·.1)))).zipIdx.findSome?
      fun (((prev, next), (op, ans)), k) => (checkStep os prev next op ans).map fun r => s!"op {k + 1}: {r}"
    let endBlocks := states.getLast?.getD []
    let o4 := if (endBlocks.zip p.edgesEnd).all (fun (d, e) => e == (origOf os d.begin).edges) &&
        endBlocks.length == p.edgesEnd.length then none
      else some "the dependency edges changed during the history"
    return { corr, oracle := o1 <|> o2 <|> o3 <|> o4, tags }
  else
    -- execution: after every accepted instruction move the block behaves like the original one;
    -- block moves change no address
    let o := ((states.zip (states.drop 1)).zip (ops.zip (p.steps.map (·.1)))).zipIdx.findSome?
      fun (((prev, next), (op, ans)), k) =>
        match op with
        | .mv bi _ _ =>
          if ans == ["ok"] && 0 ≤ bi then
            match prev[bi.toNat]? with
            | some d => (checkExec raw p.s0 next d.begin).map fun r => s!"op {k + 1}: {r}"
            | none => none
          else none
        | .bmv _ _ =>
          if (next.map frozenD).mergeSort (fun a b => a.1 ≤ b.1) != (prev.map frozenD).mergeSort (fun a b => a.1 ≤ b.1)
          then some s!"op {k + 1}: a block move changed an instruction address" else none
        | _ => none
    return { corr, oracle := o, tags }

open Mltwist.Deps.Spec in
def hAdj : Handler := fun args res => do
  let (entry, raw) ← runP pProgram args
  let mres := newCode entry raw
  let mstr := match mres with
    | .error f => fmtParseFail f
    | .ok c =>
      (currentBlocks c).zipIdx.foldl (fun acc (b, bi) =>
        (List.range (b.seq.length - 1)).foldl (fun acc (i : Nat) =>
          acc ++ " " ++ (match (c.step (.mv bi i ((i : Int) + 1))).2 with
            | .ok => "ok"
            | a => fmtAnswer a)) (acc ++ s!" {b.seq.length - 1}")) (toString c.blocks.length)
  let istr := " ".intercalate res
  let corr := corrOf mstr istr
  if res == ["PANIC"] || res == ["CRASH"] || res.contains "PANIC" then
    return { corr, oracle := some "panic", tags := ["panic"] }
  if res.length == 1 && (res.headD "").startsWith "err:" then
    return { corr, oracleNA := true, tags := ["parse-error"] }
  let impl ← runP (pList (pList next)) res
  -- the blocks as the specification cuts them
  let ins : List BasicBlock.Ins := raw.map fun (_, a, l, efs) => ⟨a, l, BasicBlock.Spec.realTargets a l efs⟩
  if !BasicBlock.Spec.wfB ins then
    return { corr, oracleNA := true, tags := ["nonwf"] }
  let blocks := BasicBlock.Spec.blocks entry ins
  if blocks.length != impl.length || !(blocks.zip impl).all (fun (b, r) => r.length + 1 == b.length) then
    return { corr, oracle := some "block structure", tags := [] }
  let sins (b : List BasicBlock.Ins) : List SIns := b.zipIdx.map fun (x, k) =>
    match raw.find? (fun r => r.2.1 == x.addr) with
    | some (t, a, l, efs) => { typ := t, addr := a, len := l, effects := efs,
                               term := k + 1 == b.length && !x.jumps.isEmpty }
    | none => { typ := 0, addr := x.addr, len := x.len, effects := [], term := false }
  let pairs : List (Bool × String) := (blocks.zip impl).flatMap fun (b, r) =>
    let l := sins b
    ((l.zip (l.drop 1)).zip r).map fun ((x, y), a) => (decide (Independent x y), a)
  let bad := pairs.any fun (ind, a) => ind && a != "ok"
  let tags :=
    (if pairs.any (fun (ind, _) => ind) then ["independent"] else []) ++
    (if pairs.any (fun (ind, _) => !ind) then ["conflict"] else []) ++
    (if pairs.any (fun (ind, a) => !ind && a == "ok") then ["conflict-accepted"] else []) ++
    (if blocks.length ≥ 2 then ["multi-block"] else ["one-block"]) ++
    (if raw.any (fun r => r.1 % 2 == 1) then ["memorder"] else []) ++
    (if raw.any (fun r => r.1 / 2 % 2 == 1 || r.1 / 4 % 2 == 1) then ["special"] else []) ++
    (if raw.any (fun r => (outputRegs r.2.2.2).contains ipKey) then ["ipwrite"] else [])
  return { corr, oracle := if bad then some "an independent adjacent pair cannot be swapped" else none, tags }

open Mltwist.Deps.Spec in
/-- the instruction with original address `a`, standing at position `k` of a block of `n` instructions -/
def sinsAt (raw : List (Nat × Nat × Nat × List Effect)) (n a k : Nat) : SIns :=
  match raw.find? (fun r => r.2.1 == a) with
  | some (t, a, len, efs) =>
    let isTerm := k + 1 == n && !(BasicBlock.Spec.realTargets a len efs).isEmpty
    ⟨t, a, len, efs, isTerm⟩
  | none => ⟨6, a, 0, [], true⟩

open Mltwist.Deps.Spec in
/-- `depsadjh`: C06 after a history.  The harness applies the operations, then swaps every adjacent pair of the
CURRENT order of every block (and swaps it back).  The oracle rebuilds the current instruction sequence from the
reported original addresses and demands that every independent adjacent pair was swappable (and the swap could be
undone).  No model result is compared (the histories are tied to the model by the `deps` stream). -/
def hAdjH : Handler := fun args res => do
  let ((_, raw), _) ← runP (do let p ← pProgram; let ops ← pList pOp; pure (p, ops)) args
  if res == ["PANIC"] || res == ["CRASH"] then
    return { oracle := some "panic", tags := ["panic"] }
  if res.length == 1 && (res.headD "").startsWith "err:" then
    return { oracleNA := true, tags := ["parse-error"] }
  let parts := (splitAt "|" res).drop 1
  let mut pairs : List (Bool × String) := []
  for p in parts do
    let n := ((p.drop 1).headD "0").toNat?.getD 0
    let addrs := ((p.drop 2).take n).map fun a => a.toNat?.getD 0
    let answers := (p.drop (2 + n))
    if addrs.length != n || answers.length + 1 != max n 1 then
      throw "depsadjh: malformed block"
    let l : List SIns := addrs.zipIdx.map fun (a, k) => sinsAt raw n a k
    pairs := pairs ++ ((l.zip (l.drop 1)).zip answers).map fun ((x, y), a) => (decide (Independent x y), a)
  let bad := pairs.find? fun (ind, a) => (ind && a != "ok") || a.startsWith "ok-noundo" || a.startsWith "PANIC"
  let tags := ["adj-history"] ++
    (if pairs.any (fun (ind, _) => ind) then ["independent"] else []) ++
    (if pairs.any (fun (ind, _) => !ind) then ["conflict"] else [])
  return { oracle := bad.map fun (_, a) => s!"after the history an independent adjacent pair cannot be swapped (answer {a})", tags }

/-- `depsemu`: C05 observed end to end — the REAL emulator run over the original and over the moved copy of
every block, from the same machine state.  The harness reports both runs; the oracle is equality of the final
states (registers incl. the instruction pointer, memories) whenever the run of the original block completes.
No model result is involved (the moves themselves are tied to the model by the `deps`/`depsx` streams). -/
def hDepsEmu : Handler := fun _ res => do
  if res == ["PANIC"] || res == ["CRASH"] then
    return { oracle := some "panic", tags := ["panic"] }
  if res.length == 1 && (res.headD "").startsWith "err:" then
    return { oracleNA := true, tags := ["parse-error"] }
  let parts := splitAt "|" res
  let hdr := parts.headD []
  let accepted := ((hdr.drop 1).headD "0").toNat?.getD 0
  let blocks := (parts.drop 1).map (splitAt ";;")
  if blocks.any (fun b => b.length != 3) || hdr.length != 2 then
    throw "depsemu: malformed result"
  let okRun (r : List String) := r.headD "" == "ok"
  let completed := blocks.filter fun b => okRun (b.getD 1 [])
  -- since the repair of F45 `Step` never panics (C03 `never_panics_step`): a panicking run is a failure by itself
  if let some b := blocks.find? fun b => (b.getD 1 []).headD "" == "PANIC" || (b.getD 2 []).headD "" == "PANIC" then
    return { oracle := some s!"the emulator panics while running block {" ".intercalate (b.headD [])}: {" ".intercalate (b.getD 1 [])} / {" ".intercalate (b.getD 2 [])}",
             tags := ["emu-e2e", "e2e-panic"] }
  let bad := completed.find? fun b => b.getD 1 [] != b.getD 2 []
  let tags := ["emu-e2e"] ++ (if accepted > 0 then ["e2e-moved"] else ["e2e-unmoved"]) ++
    (if accepted ≥ 2 then ["e2e-moved2+"] else []) ++
    (if completed.length < blocks.length then ["e2e-abort"] else []) ++
    (if completed.isEmpty then ["e2e-none"] else [])
  match bad with
  | some b =>
    return { oracle := some s!"the emulator ends in a different state after the accepted moves: block {" ".intercalate (b.headD [])}", tags }
  | none => return { oracleNA := completed.isEmpty, tags }

end Driver.Deps

namespace Driver

def depsHandlers : List (String × Handler) := [
  ("deps", Deps.hHistory false),
  ("depsx", Deps.hHistory true),
  ("depsemu", Deps.hDepsEmu),
  ("depsadj", Deps.hAdj),
  ("depsadjh", Deps.hAdjH)]

end Driver
