import Driver.Core
import Mltwist.Spec.Elf
/-
Handlers for ELF loading (C20): `elf`, `elfsub`.
-/
namespace Driver.Elf
open Driver Mltwist Mltwist.Elf

/-- the largest zero fill the allocator is assumed to grant (model parameter `lim`); the in-process
streams stay far below, the F19 stream far above -/
def allocLim : Nat := 2 ^ 28

def pData : P (Option (List UInt8)) := do
  let t ← next
  if t == "E" then pure none
  else match parseHex t with
    | some bs => pure (some bs)
    | none => throw s!"bad data {t}"

def pSection : P Section := do
  let typ ← pNat; let flags ← pNat; let addr ← pNat; let size ← pNat; let size2 ← pNat; let d ← pData
  pure ⟨typ, flags, addr, size, size2, d⟩

def pProg : P Prog := do
  let typ ← pNat; let vaddr ← pNat; let filesz ← pNat; let memsz ← pNat; let d ← pData
  pure ⟨typ, vaddr, filesz, memsz, d⟩

/-- `view E` or `view <type> <entry> <ns> … <np> …`, followed by `;;` -/
def pView : P (Option View) := do
  expect "view"
  let t ← next
  if t == "E" then
    expect ";;"
    pure none
  else
    let some typ := t.toNat? | throw s!"bad type {t}"
    let entry ← pNat
    let secs ← pList pSection
    let progs ← pList pProg
    expect ";;"
    pure (some ⟨typ, entry, secs, progs⟩)

def errName : Err → String
  | .open => "err:open" | .type => "err:type" | .read => "err:read" | .size => "err:size"
  | .memsz => "err:memsz" | .empty => "err:empty" | .overlap => "err:overlap" | .wrap => "err:wrap"
  | .panic => "PANIC" | .alloc => "CRASH"

def fmtBlocks (bs : List Block) : String :=
  bs.foldl (fun acc b => acc ++ s!" {b.1} {fmtHex b.2}") (toString bs.length)

def fmtMem : Except Err (List Block) → String
  | .error e => errName e
  | .ok bs => fmtBlocks bs

def fmtLookup (m : Except Err (List Block)) (a : Nat) : String :=
  match m with
  | .error _ => "x"
  | .ok bs => match address bs a with
    | .error e => errName e
    | .ok none => "none"
    | .ok (some l) => fmtHex l

def isCrash (m : Except Err (List Block)) : Bool :=
  match m with | .error .alloc => true | .error .panic => true | _ => false

/-- the model's outcome in the harness' notation -/
def modelOutcome (v : Option View) (addrs : List Nat) : String :=
  match load allocLim v with
  | .error e => errName e
  | .ok l =>
    if isCrash l.code || isCrash l.mem then "CRASH" else
    let as := addrs.foldl (fun acc a => acc ++ s!" {fmtLookup l.code a} {fmtLookup l.mem a}") ""
    s!"ok {l.entry} code {fmtMem l.code} mem {fmtMem l.mem} addr {addrs.length}{as}"

/-! ### parsing of the implementation's outcome -/

inductive MemRes where
  | err (cls : String)
  | blocks (bs : List Block)

def pBlocks : P (List Block) := pList (do let b ← pNat; let h ← pHex; pure (b, h))

def pMemRes : P MemRes := do
  match (← get) with
  | t :: rest =>
    if t.startsWith "err:" then set rest; pure (.err t)
    else do let bs ← pBlocks; pure (.blocks bs)
  | [] => throw "unexpected end of tokens"

/-- lookup answer: `x`, `none` or hex -/
inductive Ans where
  | absent | none | bytes (l : List UInt8)

def pAns : P Ans := do
  let t ← next
  if t == "x" then pure .absent
  else if t == "none" then pure .none
  else match parseHex t with
    | some l => pure (.bytes l)
    | none => throw s!"bad answer {t}"

structure ImplOk where
  entry : Nat
  code : MemRes
  mem : MemRes
  answers : List (Ans × Ans)

def pImplOk : P ImplOk := do
  let entry ← pNat
  expect "code"; let code ← pMemRes
  expect "mem"; let mem ← pMemRes
  expect "addr"
  let answers ← pList (do let c ← pAns; let m ← pAns; pure (c, m))
  pure ⟨entry, code, mem, answers⟩

/-! ### oracle -/

def bigFill (v : View) : Option Nat :=
  (v.progs.filterMap fun p =>
    if p.typ = 1 ∧ p.memsz ≥ p.filesz ∧ p.data.isSome ∧ missingOf p.memsz (p.data.getD []).length > allocLim
    then some (missingOf p.memsz (p.data.getD []).length) else none).head?

def checkAns (what : String) (m : MemRes) (a : Nat) (ans : Ans) : Option String :=
  match m, ans with
  | .err _, .absent => none
  | .err _, _ => some s!"{what}: lookup answered although there is no memory"
  | .blocks _, .absent => some s!"{what}: lookup not answered"
  | .blocks bs, .none =>
    if Spec.lookupOk bs a none then none else some s!"{what}: address {a} is mapped but the lookup returns nothing"
  | .blocks bs, .bytes l =>
    if Spec.lookupOk bs a (some l) then none
    else some s!"{what}: lookup of {a} does not return the bytes up to the end of its block"

def checkExpect (what : String) (e : Spec.Expect) (m : MemRes) : Option String :=
  match e, m with
  | .unknown, _ => none
  | .reject _, .err _ => none
  | .reject why, .blocks _ => some s!"{what}: accepted although {why}"
  | .image _, .err c => some s!"{what}: rejected ({c}) although the file defines a proper image"
  | .image bs, .blocks is => if bs == is then none else some s!"{what}: differs from the image defined by the file"
  | .either _, .err _ => none
  | .either bs, .blocks is => if bs == is then none else some s!"{what}: differs from the image defined by the file"

def memTag (what : String) : MemRes → String
  | .err c => what ++ ":" ++ c
  | .blocks _ => what ++ ":ok"

def hElf (sub : Bool) : Handler := fun args res => do
  let (file, addrs) ← runP (do let f ← pHex; let a ← pList pNat; pure (f, a)) args
  let (view, out) ← match (pView.run res) with
    | .ok (v, rest) => pure (v, rest)
    | .error e => throw e
  let istr := " ".intercalate out
  let model := modelOutcome view addrs
  let raw := Spec.readElf file.toArray
  let tags0 := [if sub then "sub" else "inproc", if view.isSome then "opened" else "openerr",
    if raw.isSome then "wf" else "nwf"]
  let crashed := out == ["PANIC"] || out == ["CRASH"]
  let corr := if crashed then corrOf model "CRASH" else corrOf model istr
  if out == ["skipped:alloc"] then
    return { corr := none, oracleNA := true, tags := tags0 ++ ["skipped"] }
  if crashed then
    let why := match view.bind bigFill with
      | some n => s!"crash while loading: a PT_LOAD header requests a zero fill of {n} bytes (F19)"
      | none => "crash while loading"
    return { corr, oracle := some why, tags := tags0 ++ ["crash"] }
  match view with
  | none =>
    return { corr, oracle := if out == ["err:open"] then none else some "debug/elf rejects the file but it was loaded",
             tags := tags0 }
  | some v =>
    let tyExp := match raw with
      | some r => Spec.expectType r.etype
      | none => Spec.expectType v.typ
    match out with
    | ["err:open"] => return { corr, oracle := some "debug/elf opens the file but NewParser does not", tags := tags0 }
    | ["err:type"] =>
      return { corr, oracle := if tyExp == some true then some "executable or shared object rejected" else none,
               tags := tags0 ++ ["typerej", s!"type{min v.typ 5}"] }
    | "ok" :: rest =>
      let r ← runP pImplOk rest
      if r.answers.length != addrs.length then throw "wrong number of lookup answers"
      let viewChecks : Option String := firstFail [
        (tyExp != some false, "relocatable, core or untyped file accepted"),
        (r.entry == v.entry, "entry point differs from the header"),
        (match r.code with | .blocks bs => decide (Spec.Fits bs) | .err _ => true,
          "code image: a block reaches the end of the address space (its exclusive end is not an address; it cannot be looked up)"),
        (match r.mem with | .blocks bs => decide (Spec.Fits bs) | .err _ => true,
          "program memory: a block reaches the end of the address space (its exclusive end is not an address; it cannot be looked up)"),
        (match r.code with | .blocks bs => Spec.codeConsistent v bs | .err _ => true,
          "code image is not the sorted, non-overlapping list of the qualifying sections of the view"),
        (match r.mem with | .blocks bs => Spec.memConsistent v bs | .err _ => true,
          "program memory is not the sorted, non-overlapping list of the PT_LOAD images of the view")]
      let ansChecks : Option String := (addrs.zip r.answers).findSome? fun (a, (c, m)) =>
        checkAns "code" r.code a c <|> checkAns "memory" r.mem a m
      let fileChecks : Option String := match raw with
        | none => none
        | some rw =>
          (if rw.entry == r.entry then none else some "entry point differs from the file header") <|>
          checkExpect "code" (Spec.expectCode file.toArray rw) r.code <|>
          checkExpect "memory" (Spec.expectMem file.toArray rw) r.mem
      return { corr, oracle := viewChecks <|> ansChecks <|> fileChecks,
               tags := tags0 ++ ["typeok", s!"type{min v.typ 5}", memTag "code" r.code, memTag "mem" r.mem] ++
                 (if r.answers.any (fun (c, m) => (match c with | .bytes _ => true | _ => false) ||
                    (match m with | .bytes _ => true | _ => false)) then ["hit"] else []) }
    | _ => throw "bad elf outcome"

end Driver.Elf

namespace Driver
def elfHandlers : List (String × Handler) := [("elf", Elf.hElf false), ("elfsub", Elf.hElf true)]
end Driver
