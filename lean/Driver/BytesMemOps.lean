import Driver.IntervalOps
import Mltwist.Model.BytesMem
import Mltwist.Model.BytesHeap
import Mltwist.Spec.BytesMem
/-
Handler for byte memory histories (C15).

  bytes <k> <begin1> <hex1> … <n> op…   with ops  st <addr> <w> <expr> | ld <addr> <w> | ms <addr> <w> | bl
  result: err:overlap | answer₁ | … | answerₙ | alias:ok

The model column replays the history through `Model/BytesMem`; the oracle column replays it on the
byte map of `Spec/BytesMem` and compares every answer of the implementation with the answer the
property demands (loads/missing of width 0 are outside the property and are not judged).
-/
namespace Driver
open Mltwist Mltwist.BytesMem

inductive BOp where
  | st (addr w : Nat) (ex : Expr)
  | ld (addr w : Nat)
  | ms (addr w : Nat)
  | bl

def pBOp : P BOp := do
  match (← next) with
  | "st" => do let a ← pNat; let w ← pNat; let e ← pExpr; pure (.st a w e)
  | "ld" => do let a ← pNat; let w ← pNat; pure (.ld a w)
  | "ms" => do let a ← pNat; let w ← pNat; pure (.ms a w)
  | "bl" => pure .bl
  | t => throw s!"bad bytes op {t}"

def pBytesLine : P (List Block × List BOp) := do
  let bl ← pList (do let b ← pNat; let h ← pHex; pure (b, h))
  let ops ← pList pBOp
  pure (bl, ops)

def fmtLoad : Option (List UInt8) → String
  | none => "none"
  | some bs => "some c:" ++ fmtHexRaw bs

/-- model replay: the answers of all operations -/
def modelRun : List Block → List BOp → List String
  | _, [] => []
  | bs, .st a w e :: rest =>
    match storeExpr bs a w e with
    | .ok bs' => "ok" :: modelRun bs' rest
    | .error .nonConst => "PANIC" :: modelRun bs rest
    | .error _ => "PANIC" :: modelRun [] rest     -- `b.blocks, err = dedupBlocks(..)` leaves nil behind
  | bs, .ld a w :: rest =>
    (match load bs a w with
     | .ok r => fmtLoad r
     | .error _ => "PANIC") :: modelRun bs rest
  | bs, .ms a w :: rest => fmtIntvs (missing bs a w) :: modelRun bs rest
  | bs, .bl :: rest => fmtIntvs (blocks bs) :: modelRun bs rest

/-! heap-level replay (`Model/BytesHeap`, repaired `store`): answers and the aliasing field -/

def heapCfg : BytesHeap.Cfg := { grow := fun old need => max need (2 * old), fixF05 := true }

/-- the initial heap: one array per initial block, one per distinct constant token -/
def heapSetup (bl : List Block) (ops : List BOp) :
    BytesHeap.Heap × List BytesHeap.HBlock × List (List UInt8 × BytesHeap.Slice) := Id.run do
  let mut h : BytesHeap.Heap := []
  let mut input : List BytesHeap.HBlock := []
  for b in bl do
    input := input ++ [(b.1, { arr := h.length, off := 0, len := b.2.length, cap := b.2.length })]
    h := h ++ [b.2]
  let mut consts : List (List UInt8 × BytesHeap.Slice) := []
  for op in ops do
    match op with
    | .st _ _ (.const c) =>
      if (consts.lookup c).isNone then
        consts := consts ++ [(c, { arr := h.length, off := 0, len := c.length, cap := c.length })]
        h := h ++ [c]
    | _ => pure ()
  return (h, input, consts)

def heapRunOps (consts : List (List UInt8 × BytesHeap.Slice)) :
    BytesHeap.HState → List BOp → List String
  | st, [] => [if BytesHeap.changed st == 0 then "alias:ok" else s!"alias:changed {BytesHeap.changed st}"]
  | st, .st a w (.const c) :: rest =>
    match consts.lookup c with
    | none => "ERR" :: heapRunOps consts st rest
    | some s =>
      let (st', ans) := BytesHeap.stepA heapCfg st (.st a w (.ext s))
      (match ans with | .ok => "ok" | _ => "PANIC") :: heapRunOps consts st' rest
  | st, .st _ _ _ :: rest => "PANIC" :: heapRunOps consts st rest
  | st, .ld a w :: rest =>
    let (st', ans) := BytesHeap.stepA heapCfg st (.ld a w)
    (match ans with
     | .loaded r => fmtLoad (r.map (BytesHeap.read st'.heap))
     | _ => "PANIC") :: heapRunOps consts st' rest
  | st, .ms a w :: rest =>
    fmtIntvs (missing (BytesHeap.view st.heap st.blocks) a w) :: heapRunOps consts st rest
  | st, .bl :: rest => fmtIntvs (blocks (BytesHeap.view st.heap st.blocks)) :: heapRunOps consts st rest

def heapRun (bl : List Block) (ops : List BOp) : String :=
  let (h0, input, consts) := heapSetup bl ops
  let mon0 := input.foldl (fun m b => BytesHeap.watch h0 b.2 m) []
  match BytesHeap.newBytesH heapCfg h0 input with
  | (_, .error _) => "err:overlap"
  | (h1, .ok bs) =>
    " | ".intercalate (heapRunOps consts { heap := h1, blocks := bs, loaded := [], mon := mon0 } ops)

/-- oracle replay: first disagreement between the implementation's answers and the byte map -/
def oracleRun : BytesSpec.OState → List BOp → List String → Nat → Option String
  | _, [], [last], _ => if last == "alias:ok" then none else some s!"aliasing: {last}"
  | _, [], _, _ => some "wrong number of answers"
  | _, _ :: _, [], _ => some "wrong number of answers"
  | s, op :: rest, ans :: more, k =>
    match op with
    | .st a w (.const c) =>
      if ans == "ok" then oracleRun (s.store a w c) rest more (k + 1)
      else some s!"op {k}: store of a constant answered {ans}"
    | .st _ _ _ =>
      if ans == "PANIC" then oracleRun s rest more (k + 1)
      else some s!"op {k}: store of a non-constant answered {ans}"
    | .ld a w =>
      if w == 0 then oracleRun s rest more (k + 1)
      else
        let exp := fmtLoad (s.load a w)
        if ans == exp then oracleRun s rest more (k + 1)
        else some s!"op {k}: load {a} {w} answered {ans}, byte map says {exp}"
    | .ms a w =>
      if w == 0 then oracleRun s rest more (k + 1)
      else
        let exp := fmtIntvs (s.missing a w)
        if ans == exp then oracleRun s rest more (k + 1)
        else some s!"op {k}: missing {a} {w} answered {ans}, byte map says {exp}"
    | .bl =>
      let exp := fmtIntvs s.blocks
      if ans == exp then oracleRun s rest more (k + 1)
      else some s!"op {k}: blocks answered {ans}, byte map says {exp}"

def splitBarB (toks : List String) : List String :=
  (" ".intercalate toks).splitOn " | "

/-- classification of a history (coverage statistics) -/
def bytesTags (bl : List Block) (ops : List BOp) : List String := Id.run do
  let mut tags : List String := []
  let add (t : String) (ts : List String) : List String := if ts.contains t then ts else t :: ts
  if bl.any (fun b => b.2.isEmpty) then tags := add "emptyblk" tags
  let mut s := BytesSpec.initState bl
  let mut seen : List (List UInt8) := []
  let mut nst := 0
  for op in ops do
    match op with
    | .st a w (.const c) =>
      nst := nst + 1
      if seen.contains c then tags := add "reuse" tags
      seen := c :: seen
      if w == 0 then tags := add "w0" tags
      if c.length != w then tags := add "resize" tags
      let pres := (List.range w).map fun i => (s.map (a + i)).isSome
      let changes := (pres.zip (pres.drop 1)).countP fun p => p.1 != p.2
      if changes ≥ 1 then tags := add "span" tags
      if changes ≥ 3 then tags := add "span3" tags
      if pres.all id && w > 0 then tags := add "inplace" tags
      if pres.contains false then
        -- adjacency: the store touches present bytes directly outside its range
        if (a > 0 && (s.map (a - 1)).isSome) || (s.map (a + w)).isSome then tags := add "merge" tags
        let later := (s.blocks.filter fun i => i.1 > (a : Int)).length
        if later ≥ 2 then tags := add "front2" tags
      if a + w ≥ 2 ^ 64 then tags := add "wrap" tags
      if a ≥ 2 ^ 63 then tags := add "high" tags
      s := s.store a w c
    | .st _ _ _ => tags := add "nonconst" tags
    | .ld a w =>
      if w == 0 then tags := add "w0" tags
      else if (s.load a w).isSome then tags := add "ldhit" tags else tags := add "ldmiss" tags
      if a + w ≥ 2 ^ 64 then tags := add "wrap" tags
    | .ms a w =>
      if w == 0 then tags := add "w0" tags
      else
        let m := s.missing a w
        if m.isEmpty then tags := add "msnone" tags
        else if m.length ≥ 2 then tags := add "msmulti" tags
        else tags := add "msone" tags
      if a + w ≥ 2 ^ 64 then tags := add "wrap" tags
    | .bl => if s.blocks.length ≥ 3 then tags := add "bl3" tags
  if nst ≥ 3 && (tags.contains "span" || tags.contains "merge" || tags.contains "front2") then
    tags := add "rich" tags
  return tags.reverse

def hBytes : Handler := fun args res => do
  let (bl, ops) ← runP pBytesLine args
  let istr := " ".intercalate res
  let mstr := match newBytes bl with
    | .error _ => "err:overlap"
    | .ok bs => " | ".intercalate (modelRun bs ops ++ ["alias:ok"])
  let hstr := heapRun bl ops
  let mstr := if hstr == mstr then mstr else s!"MODELS-DISAGREE value:[{mstr}] heap:[{hstr}]"
  let ov := BytesSpec.overlapB bl
  let tags := (if ov then ["overlap"] else ["valid"]) ++ bytesTags bl ops
  let orc : Option String :=
    if istr == "err:overlap" then
      (if ov then none else some "NewBytes rejected blocks that share no address")
    else if ov then some "NewBytes accepted overlapping blocks"
    else oracleRun (BytesSpec.initState bl) ops (splitBarB res) 0
  return { corr := corrOf mstr istr, oracle := orc, tags }

def bytesMemHandlers : List (String × Handler) := [("bytes", hBytes)]

end Driver
