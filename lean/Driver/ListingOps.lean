import Driver.Core
import Mltwist.Spec.Listing
/-
Handlers for the disassembler mode of the console UI: listing (C23, op `dis`) and navigation
(C31, op `nav`).  Both ops have the same syntax and are executed identically by the harness;
they differ in what the oracle looks at.

  dis|nav <entry> <n> (<addr> <len> <neffects> EF…)… <k> CMD…
     => err:newcode | S ("|" STEP)*
  S    := <cursor> L <nlines> (<text hex> m:<mark> <block> <instr>)…
          D <entry> <nblocks> (<Idx> <Begin> <End> <Line(block,0)> <nins>
             (<Idx> <Begin> <text hex> <bytes hex> <LowerBound> <UpperBound>)…)…
  STEP := PANIC | <status> <matches> S

The model never sees the instructions of the line: its code state is the dump `D` of the
implementation (the code model underneath is another component).  Before every command the model
state takes the bounds from the previous dump; the command is run with the reference code
operations `refOps`; the resulting code is compared with the next dump.

Glue that is not part of any theorem: the token parser, and `parseLine` — a transcription of
`UI.parseCommand` (splitting at spaces, command lookup, `strconv.Atoi` + range check).
-/
namespace Driver.Listing
open Driver Mltwist Mltwist.Listing

/-! ### parsing the result -/

def strOfBytes (bs : List UInt8) : String := String.ofList (bs.map fun b => Char.ofNat b.toNat)

def pText : P String := do pure (strOfBytes (← pHex))

def pOptNat : P (Option Nat) := do
  let i ← pInt
  pure (if i < 0 then none else some i.toNat)

def pMark : P String := do
  let t ← next
  if t.startsWith "m:" then pure (t.drop 2).toString else throw s!"bad mark {t}"

/-- the observable state of the implementation -/
structure Obs where
  cursor : Nat
  lines : List Line
  code : Code
  /-- `Lines.Line(block, 0)` for every block -/
  line0 : List Nat
  deriving Repr

def pObs : P Obs := do
  let cursor ← pNat
  expect "L"
  let lines ← pList (do
    let v ← pText
    let m ← pMark
    let b ← pOptNat
    let i ← pOptNat
    pure (⟨v, m, b, i⟩ : Line))
  expect "D"
  let entry ← pNat
  let blocks ← pList (do
    let idx ← pNat
    let bg ← pNat
    let en ← pNat
    let l0 ← pNat
    let ins ← pList (do
      let i ← pNat
      let a ← pNat
      let t ← pText
      let bs ← pHex
      let lo ← pNat
      let up ← pNat
      pure (⟨t, bs, i, a, lo, up⟩ : Ins))
    pure ((⟨idx, bg, en, ins⟩ : Block), l0))
  pure { cursor, lines, code := ⟨entry, blocks.map (·.1)⟩, line0 := blocks.map (·.2) }

def splitBar : List String → List (List String)
  | [] => [[]]
  | "|" :: ts => [] :: splitBar ts
  | t :: ts =>
    match splitBar ts with
    | [] => [[t]]
    | g :: gs => (t :: g) :: gs

/-! ### parsing a command line (transcription of `UI.parseCommand`) -/

inductive CmdKind where
  | down (n : Nat) | up (n : Nat) | move (f t : Nat) | bounds (l : Nat) | find | goto (n : Nat)
  | entrypoint | alllines
  deriving Repr

inductive Parsed where
  | noop          -- the empty line
  | panic         -- a line of spaces (`parts[0]`, F20); surplus words for a command without optional arguments
  | parseErr
  | cmd (c : CmdKind)
  | unsupported
  deriving Repr

/-- `strconv.Atoi` followed by the range check of `ParseNum(0, MaxInt)` -/
def parseNum (s : String) : Option Nat :=
  let cs := s.toList
  let (neg, ds) := match cs with
    | '+' :: r => (false, r)
    | '-' :: r => (true, r)
    | r => (false, r)
  if ds.isEmpty || !ds.all Char.isDigit then none
  else
    let v := ds.foldl (fun a c => a * 10 + (c.toNat - '0'.toNat)) 0
    if neg then (if v = 0 then some 0 else none)
    else if v > maxInt then none else some v

def parseLine (line : String) : Parsed :=
  if line.isEmpty then .noop
  else
    match (line.splitOn " ").filter (· ≠ "") with
    | [] => .panic
    | key :: parts =>
      let nargs : Option Nat :=
        if ["down", "d", "up", "u", "bounds", "b", "goto", "g"].contains key then some 1
        else if ["move", "mv", "m"].contains key then some 2
        else if ["find", "f", "/"].contains key then some 1
        else if ["entrypoint", "entry", "alllines"].contains key then some 0
        else if ["emulate", "emul", "e"].contains key then some 0
        else none
      match nargs with
      | none => .parseErr
      | some n =>
        if parts.length < n then .parseErr
        else if ["find", "f", "/"].contains key then .cmd .find
        else
          let nums := (parts.take n).map parseNum
          if nums.any Option.isNone then .parseErr
          else if parts.length > n then .panic     -- `cmd.OptionalArgs(parts)` with a nil function
          else
            match key, nums with
            | "down", [some a] | "d", [some a] => .cmd (.down a)
            | "up", [some a] | "u", [some a] => .cmd (.up a)
            | "bounds", [some a] | "b", [some a] => .cmd (.bounds a)
            | "goto", [some a] | "g", [some a] => .cmd (.goto a)
            | "move", [some a, some b] | "mv", [some a, some b] | "m", [some a, some b] => .cmd (.move a b)
            | "entrypoint", [] | "entry", [] => .cmd .entrypoint
            | "alllines", [] => .cmd .alllines
            | _, _ => .unsupported

def decodeCmd (tok : String) : Except String String :=
  if tok.startsWith "x:" then
    match parseHex (tok.drop 2).toString with
    | some bs => .ok (strOfBytes bs)
    | none => .error s!"bad command token {tok}"
  else .ok (tok.replace "," " ")

/-! ### printing -/

def fmtMoveErr : MoveErr → String
  | .emptyFrom => "emptyfrom" | .emptyTo => "emptyto" | .blockIns => "blockins"
  | .blockMove => "blockmove" | .amongBlocks => "amongblocks" | .insMove => "insmove"

def fmtErr : ErrClass → String
  | .parse => "parse" | .move e => fmtMoveErr e | .noBlock => "noblock" | .notIns => "notins"
  | .regex => "regex" | .tooBig => "toobig" | .negative => "negative" | .tooHigh => "toohigh"
  | .noBlockAddr => "noblockaddr" | .noInsAddr => "noinsaddr"

def fmtStatus : Status → String
  | .ok => "ok" | .noMatch => "msg:nomatch" | .err e => "err:" ++ fmtErr e

/-- code without the bounds -/
def stripBounds (c : Code) : Code :=
  { c with blocks := c.blocks.map fun b => { b with ins := b.ins.map fun i => { i with lower := 0, upper := 0 } } }

/-- first difference between the model state and the observed state -/
def diffState (st : St) (o : Obs) : Option String :=
  if st.cursor.value != o.cursor then some s!"cursor {st.cursor.value}"
  else if st.lines.lines.length != o.lines.length then some s!"{st.lines.lines.length} lines"
  else
    match (List.range o.lines.length).find? (fun i => st.lines.lines[i]? != o.lines[i]?) with
    | some i =>
      match st.lines.lines[i]? with
      | some l => some s!"line {i}: '{l.value}' mark '{l.mark}' block {l.block} instr {l.instr}"
      | none => some s!"line {i}"
    | none =>
      if st.lines.blockStarts.map (· + 1) != o.line0 then
        some s!"blockStarts {st.lines.blockStarts}"
      else if stripBounds st.code != stripBounds o.code then some s!"code {repr (stripBounds st.code)}"
      else none

/-! ### the oracle -/


/-- C23 on one observed state: the listing is the fresh rendering of the dumped code, and
`Lines.Line` points to the rows of the instructions -/
def checkListing (o : Obs) : Option String :=
  let want := Spec.rows o.code
  let got := o.lines.map Spec.rowOf
  if got.length != want.length then some s!"listing has {got.length} rows, a fresh rendering {want.length}"
  else
    match (List.range want.length).find? (fun i => got[i]? != want[i]?) with
    | some i =>
      let g := (got[i]?.map (·.text)).getD ""
      let w := (want[i]?.map (·.text)).getD ""
      if g != w then some s!"row {i} shows '{g}', a fresh rendering '{w}'"
      else some s!"row {i} ('{g}') is attributed to the wrong block/instruction"
    | none =>
      match (List.range o.code.blocks.length).find? (fun b => o.line0[b]? != some (Spec.lineOf o.code b 0)) with
      | some b => some s!"Lines.Line(block {b}, 0) = {o.line0[b]?.getD 0}, the row is {Spec.lineOf o.code b 0}"
      | none => none

def texts (o : Obs) : List String := o.lines.map (·.value)

structure StepInfo where
  diff : Option String := none
  c23 : Option String := none
  c31 : Option String := none
  c31na : Bool := true        -- the step is no navigation command
  law : Option String := none
  tags : List String := []

def isOkStatus (s : String) : Bool := s == "ok"

/-- is the command a move of two header lines / two instruction lines of one block (on a correct listing)? -/
def moveKind (o : Obs) (f t : Nat) : String :=
  match o.lines[f]?, o.lines[t]? with
  | some a, some b =>
    match a.block, b.block, a.instr, b.instr with
    | some _, some _, none, none => "block"
    | some x, some y, some _, some _ => if x == y then "ins" else "other"
    | _, _, _, _ => "other"
  | _, _ => "range"

def parseMatches (tok : String) (n : Nat) : Except String (Option (List Bool)) :=
  if tok == "E" then .ok none
  else if tok.length == n && tok.toList.all (fun c => c == '0' || c == '1') then
    .ok (some (tok.toList.map (· == '1')))
  else .error s!"bad match vector {tok}"

/-- one step: model, correspondence, oracle.  Returns the next model state (`none` after a panic). -/
def doStep (st : St) (prev : Obs) (line : String) (toks : List String) (blockMoved : Bool) :
    Except String (StepInfo × Option (St × Obs)) := do
  let parsed := parseLine line
  let implPanic := toks == ["PANIC"]
  -- the implementation's answer
  let impl : Option (String × String × Obs) ←
    if implPanic then pure none
    else match toks with
      | status :: ms :: rest => do
        let o ← runP pObs rest
        pure (some (status, ms, o))
      | _ => throw "bad step"
  -- the model
  let st := { st with code := prev.code }
  let findMs : Option (Option (List Bool)) ←
    match impl with
    | some (_, ms, _) => if ms == "-" then pure none else do pure (some (← parseMatches ms prev.lines.length))
    | none => pure none
  let mres : Option (Status × St) ← match parsed with
    | .noop => pure (some (.ok, st))
    | .panic => pure none
    | .parseErr => pure (some (.err .parse, st))
    | .unsupported => throw s!"unsupported command {line}"
    | .cmd k =>
      match k with
      | .down n => pure (step refOps st (.down n))
      | .up n => pure (step refOps st (.up n))
      | .move f t => pure (step refOps st (.move f t))
      | .bounds l => pure (step refOps st (.bounds l))
      | .goto n => pure (step refOps st (.goto n))
      | .entrypoint => pure (step refOps st .entrypoint)
      | .alllines => pure (some (.ok, st))
      | .find =>
        match findMs with
        | some ms => pure (step refOps st (.find ms))
        | none =>
          -- the implementation panicked before/without giving the vector: the model cannot run `find`
          pure (step refOps st (.find (some (List.replicate st.lines.len false))))
  let kindTag : String := match parsed with
    | .noop => "noop" | .panic => "parse-panic" | .parseErr => "parse-err" | .unsupported => "unsupported"
    | .cmd k => match k with
      | .down _ => "down" | .up _ => "up" | .move .. => "move" | .bounds _ => "bounds" | .goto _ => "goto"
      | .entrypoint => "entrypoint" | .alllines => "alllines" | .find => "find"
  let isNav := ["down", "up", "goto", "entrypoint", "find"].contains kindTag
  let isMoveish := ["move", "bounds"].contains kindTag
  match impl with
  | none =>
    -- the implementation panicked
    let diff := match mres with | none => none | some (s, _) => some s!"{fmtStatus s}"
    let info : StepInfo := {
      diff,
      c23 := if isMoveish then some s!"'{line}' panics" else none,
      c31 := if isNav then some s!"'{line}' panics" else none,
      c31na := !isNav,
      tags := [kindTag ++ "-PANIC"] }
    return (info, none)
  | some (status, _, o) =>
    let diff : Option String := match mres with
      | none => some "PANIC"
      | some (s, st') =>
        if fmtStatus s != status then some (fmtStatus s) else diffState st' o
    -- C23: the listing is a fresh rendering of the dumped code; a rejected command leaves the text alone
    let ok := isOkStatus status
    let c23a := checkListing o
    let c23b : Option String :=
      if !ok && texts o != texts prev then some s!"rejected '{line}' changes the listing"
      else if !ok && stripBounds o.code != stripBounds prev.code then some s!"rejected '{line}' changes the code"
      else none
    -- the assumptions on the code model
    let mk := match parsed with
      | .cmd (.move f t) => moveKind prev f t
      | _ => "none"
    let law : Option String :=
      if !Spec.addrWfB o.code then some "addresses of the dumped code are not ascending/disjoint"
      else if !(ok && kindTag == "move") then
        (if o.code != prev.code then some s!"'{line}' ({status}) changes the code" else none)
      else if !Spec.wfB o.code then some "code is not well-formed after the move"
      else if mk == "block" then Spec.checkBlockMove prev.code o.code
      else if mk == "ins" then
        match prev.lines[(match parsed with | .cmd (.move f _) => f | _ => 0)]? with
        | some l => Spec.checkInsMove prev.code o.code (l.block.getD 0)
        | none => some "no line"
      else some "a move that is neither a block nor an instruction move is accepted"
    -- C31
    let len := prev.lines.length
    let expect : Option Spec.Expect := match parsed with
      | .cmd (.down n) => some (Spec.expectDown len prev.cursor n)
      | .cmd (.up n) => some (Spec.expectUp prev.cursor n)
      | .cmd (.goto n) => some (Spec.expectGoto len n)
      | .cmd .entrypoint => some (Spec.expectEntry prev.code)
      | .cmd .find => match findMs with
        | some ms => some (Spec.expectFind ms len prev.cursor)
        | none => none
      | _ => none
    let c31 : Option String := match expect with
      | some e => (Spec.checkNav e ok prev.cursor o.cursor).map (s!"'{line}' with the cursor on {prev.cursor}: " ++ ·)
      | none => if o.cursor != prev.cursor then some s!"'{line}' moves the cursor" else none
    -- tags
    let uneven := match parsed with
      | .cmd (.move f t) =>
        match prev.lines[f]?, prev.lines[t]? with
        | some a, some b =>
          let lo := min (a.block.getD 0) (b.block.getD 0)
          let hi := max (a.block.getD 0) (b.block.getD 0)
          let sizes := ((prev.code.blocks.drop lo).take (hi + 1 - lo)).map (·.ins.length)
          lo != hi && sizes.any (· != sizes.headD 0)
        | _, _ => false
      | _ => false
    let okS := if ok then "ok" else (if status.startsWith "msg" then "msg" else "err")
    let extra : List String :=
      (match parsed with
       | .cmd (.move ..) =>
         [s!"move-{mk}-{okS}"] ++ (if mk == "block" && ok && uneven then ["blockmove-uneven"] else []) ++
         (if mk == "ins" && ok && blockMoved then ["insmove-after-blockmove"] else []) ++
         (if mk == "ins" && !ok && status == "err:insmove" then ["insmove-rejected"] else []) ++
         (if mk == "block" && ok then (match parsed with | .cmd (.move f t) => if f == t then ["blockmove-self"] else [] | _ => []) else [])
       | .cmd .find =>
         (match findMs with
          | some (some v) =>
            let cnt := (v.filter id).length
            [s!"find-{okS}"] ++
            (if prev.cursor + 1 == len then ["find-cursor-last"] else []) ++
            (if prev.cursor == 0 then ["find-cursor-first"] else []) ++
            (if ok && o.cursor < prev.cursor then ["find-wrapped"] else []) ++
            (if cnt == 1 && v.getD prev.cursor false then ["find-only-cursor-line"] else []) ++
            (if cnt ≥ 2 then ["find-several"] else if cnt == 1 then ["find-one"] else ["find-none"])
          | some none => ["find-badregex"]
          | none => [])
       | .cmd .entrypoint => [s!"entrypoint-{okS}"] ++ (if blockMoved then ["entrypoint-after-blockmove"] else [])
       | .cmd (.bounds _) => [s!"bounds-{okS}"] ++ (if blockMoved && ok then ["bounds-after-blockmove"] else [])
       | _ => [s!"{kindTag}-{okS}"])
    let info : StepInfo := { diff, c23 := c23a <|> c23b, c31, c31na := !isNav, law, tags := extra }
    match mres with
    | none => return (info, none)
    | some (_, st') => return (info, some (st', o))

/-- run the whole history -/
def runHistory (st0 : St) (o0 : Obs) (cmds : List String) (steps : List (List String)) :
    Except String (List StepInfo) := do
  let mut st := st0
  let mut prev := o0
  let mut out : Array StepInfo := #[]
  let mut blockMoved := false
  let mut todo := steps
  for line in cmds do
    match todo with
    | [] => break          -- the history ended with a panic
    | toks :: rest =>
      todo := rest
      let (info, next) ← doStep st prev line toks blockMoved
      out := out.push info
      if info.tags.contains "move-block-ok" then blockMoved := true
      match next with
      | none => break
      | some (st', o) =>
        -- continue from the implementation's state when the model disagreed
        let marked := (List.range o.lines.length).filter (fun i => ((o.lines[i]?).map (·.mark)).getD "" != "")
        let lns : Lines := { lines := o.lines, blockStarts := o.line0.map (· - 1), marks := marked }
        let reset : St := { code := o.code, lines := lns, cursor := ⟨st'.cursor.maxValue, o.cursor⟩ }
        st := if info.diff.isSome then reset else st'
        prev := o
  return out.toList

def pSkipIns : P Unit := do
  let _ ← pNat
  let _ ← pNat
  let _ ← pList pEffect
  pure ()

def handler (forNav : Bool) : Handler := fun args res => do
  let cmdToks ← match (do
      let _ ← pNat
      let _ ← pList pSkipIns
      let k ← pNat
      let mut acc : Array String := #[]
      for _ in [0:k] do
        acc := acc.push (← next)
      pure acc.toList : P (List String)).run args with
    | .ok (a, []) => pure a
    | .ok (_, t :: _) => throw s!"trailing token {t}"
    | .error e => throw e
  let cmds ← cmdToks.mapM decodeCmd
  let op := if forNav then "nav" else "dis"
  if res == ["err:newcode"] then
    return { oracleNA := true, tags := [op, "newcode-err"] }
  if res == ["PANIC"] || res == ["CRASH"] then
    return { corr := some "no panic", oracle := some "panic while building the mode", tags := [op, "PANIC"] }
  match splitBar res with
  | [] => throw "empty result"
  | s0 :: steps =>
    let o0 ← runP pObs s0
    let st0 := St.init o0.code
    let d0 := diffState st0 o0
    let c0 := checkListing o0
    let infos ← runHistory st0 o0 cmds steps
    let firstOf (f : StepInfo → Option String) : Option String :=
      (infos.zipIdx.findSome? fun (i, k) => (f i).map (s!"step {k + 1}: " ++ ·))
    let corr := (d0.map ("initial state: " ++ ·)) <|> firstOf (·.diff)
    let law := firstOf (·.law)
    let c23 := (c0.map ("initial state: " ++ ·)) <|> firstOf (·.c23)
    let c31 := firstOf (·.c31)
    let sizes := o0.code.blocks.map (·.ins.length)
    let stepTags := (infos.flatMap (·.tags)).eraseDups
    let navSteps := (infos.filter (!·.c31na)).length
    let tags := [op, s!"blocks{min sizes.length 5}",
        if sizes.any (· != sizes.headD 0) then "uneven-sizes" else "even-sizes"] ++ stepTags ++
      (if navSteps ≥ 3 then ["nav3+"] else []) ++
      (if law.isSome then ["code-law-broken"] else [])
    let oracle :=
      if forNav then c31 <|> (law.map ("code model: " ++ ·))
      else c23 <|> (law.map ("code model: " ++ ·))
    return { corr, oracle, tags }

def listingHandlers : List (String × Handler) := [
  ("dis", handler false),
  ("nav", handler true)]

end Driver.Listing

namespace Driver
export Driver.Listing (listingHandlers)
end Driver
