import Driver.OverlayOps
import Mltwist.Model.State
import Mltwist.Spec.State
/-
Handlers for register map and state histories (C18).

  regmap <n> op…   ops  st <key> <w> E | ld <key> <w> | len           result: answers | R <k> key E …
  state <n> op…    ops  ap EF | lr <key> <w> | lm <key> <addr> <w> | mm <key> <addr> <w> | mb <key> | dump
                   result: answers | <dump of the final state>
  statemem <key> <mem> <n> op…   the same on a state whose address space <key> holds the stack <mem>
                   (as in `layers`; the tool's arrangement is `O B … S 0`)

The oracle (independent of the model) keeps the history of register writes and, per memory key, the
replayed byte map.  A read of register `k` at width `w'` must be absent iff `k` was never written and
otherwise have width `w'` and the value `trunc w' (trunc w ⟦e⟧)` of the last write `(e, w)` under 6
valuations.  A refused `Apply` must leave the dump of the state unchanged (`false same`) and is only
legitimate for a `MemStore` whose address is not closed (a closed address always reduces to a constant,
C09); an accepted `MemStore` must have an address whose value does not depend on the valuation, and
its store is replayed at that value modulo `2^64`.
-/
namespace Driver.State
open Driver Driver.Overlay Mltwist Mltwist.State Mltwist.Overlay Mltwist.Spec.State Mltwist.Spec.Overlay

/-! ### dumps -/

/-- sort an association list by key (printing only) -/
def sortKeys {α : Type} (l : List (String × α)) : List (String × α) :=
  (l.toArray.qsort fun a b => a.1 < b.1).toList

/-- chunks of at most 255 bytes of `[b, e)` -/
def chunks (b e : Nat) : List (Nat × Nat) :=
  (List.range ((e - b + 254) / 255)).map fun i => (b + 255 * i, min 255 (e - (b + 255 * i)))

/-- `dumpMem` of the harness; `none` = a panic -/
def dumpMem (m : Mem) : Option String :=
  match m.blocks with
  | .error _ => none
  | .ok bl =>
    bl.foldl (fun acc i =>
      match acc with
      | none => none
      | some s =>
        (chunks i.1.toNat i.2.toNat).foldl (fun acc c =>
          match acc, m.load c.1 c.2 with
          | some s, .ok r => some (s ++ " " ++ fmtLoad r)
          | _, _ => none) (some (s ++ s!" {i.1} {i.2}"))) (some (toString bl.length))

def dumpRegs (r : RegMap) : String :=
  (sortKeys r).foldl (fun acc p => acc ++ " " ++ p.1 ++ " " ++ fmtExpr p.2) s!"R {r.length}"

def dumpState (s : State) : Option String :=
  (sortKeys s.mems).foldl (fun acc p =>
    match acc, dumpMem p.2 with
    | some a, some d => some (a ++ " " ++ p.1 ++ " " ++ d)
    | _, _ => none) (some (dumpRegs s.regs ++ s!" M {s.mems.length}"))

/-! ### regmap -/

inductive ROp where
  | st (k : String) (w : Nat) (e : Expr)
  | ld (k : String) (w : Nat)
  | len

def pROp : P ROp := do
  match (← next) with
  | "st" => do let k ← next; let w ← pNat; let e ← pExpr; pure (.st k w e)
  | "ld" => do let k ← next; let w ← pNat; pure (.ld k w)
  | "len" => pure .len
  | t => throw s!"bad regmap op {t}"

def regmapModel : List ROp → RegMap → List String → List String → List String × List String
  | [], m, acc, tags => (acc ++ [dumpRegs m], tags)
  | .st k w e :: ops, m, acc, tags =>
    let tg := (if (assocGet k m).isSome then ["rewrite"] else []) ++
      (if e.width < w then ["st-extend"] else if e.width > w then ["st-trunc"] else ["st-same"])
    regmapModel ops (m.store k e w) (acc ++ ["-"]) (tags ++ tg)
  | .ld k w :: ops, m, acc, tags =>
    let tg := match assocGet k m with
      | none => ["ld-none"]
      | some e => if w < e.width then ["ld-narrower"] else if w > e.width then ["ld-wider"] else ["ld-equal"]
    regmapModel ops m (acc ++ [fmtLoad (m.load k w)]) (tags ++ tg)
  | .len :: ops, m, acc, tags => regmapModel ops m (acc ++ [toString m.len]) tags

/-- judge a register read against the write history -/
def judgeRegLoad (h : RegHist) (i : Nat) (k : String) (w' : Nat) (f : List String) :
    Except String (Option String) := do
  match lastWrite k h, f with
  | none, ["none"] => pure none
  | none, _ => pure (some s!"op {i}: unwritten register {k} does not read as absent")
  | some _, ["none"] => pure (some s!"op {i}: written register {k} reads as absent")
  | some r, "some" :: et => do
    let e ← runP pExpr et
    if e.width != w' then pure (some s!"op {i}: register read has width {e.width}, not {w'}")
    else
      match envSeeds.find? (fun sd => let ρ := mkEnv sd; e.eval ρ != readVal ρ r w') with
      | some sd => pure (some s!"op {i}: register {k} does not read as its last write under valuation seed {sd}")
      | none => pure none
  | _, _ => throw "bad register load answer"

/-- judge a dump of the registers: exactly the written keys, each holding its last write at its
write width -/
def judgeRegDump (h : RegHist) (toks : List String) : Except String (Option String × List String) := do
  match toks with
  | "R" :: rest =>
    let (regs, rest') ← (do
      let n ← pNat
      let mut acc : List (String × Expr) := []
      for _ in [0:n] do
        let k ← next
        let e ← pExpr
        acc := acc ++ [(k, e)]
      pure acc).run rest
    let keys := writtenKeys h
    if regs.length != keys.length then return (some "dump: wrong number of registers", rest')
    for (k, e) in regs do
      match lastWrite k h with
      | none => return (some s!"dump: unwritten register {k} is present", rest')
      | some r =>
        if e.width != r.w then return (some s!"dump: register {k} is held at width {e.width}, written {r.w}", rest')
        if let some sd := envSeeds.find? (fun sd => let ρ := mkEnv sd; e.eval ρ != trunc r.w (r.value.eval ρ)) then
          return (some s!"dump: register {k} differs from its last write under valuation seed {sd}", rest')
    return (none, rest')
  | _ => throw "bad dump"

def regmapOracle : List ROp → List (List String) → RegHist → Nat → Except String (Option String)
  | [], fields, h, _ =>
    match fields with
    | [f] => do
      let (r, rest) ← judgeRegDump h f
      if !rest.isEmpty then throw "trailing tokens in dump"
      pure r
    | _ => pure (some "wrong number of answers")
  | op :: ops, fields, h, i =>
    match fields with
    | [] => pure (some "missing answer")
    | f :: rest => do
      if f == ["PANIC"] then return some s!"op {i} panics"
      match op with
      | .st k w e =>
        if f != ["-"] then pure (some s!"op {i}: bad store answer")
        else regmapOracle ops rest (h ++ [⟨k, e, w⟩]) (i + 1)
      | .ld k w => do
        match ← judgeRegLoad h i k w f with
        | some r => pure (some r)
        | none => regmapOracle ops rest h (i + 1)
      | .len =>
        if f != [toString (writtenKeys h).length] then
          pure (some s!"op {i}: len is not the number of written registers")
        else regmapOracle ops rest h (i + 1)

def hRegMap : Handler := fun args res => do
  let ops ← runP (pList pROp) args
  let (answers, tags) := regmapModel ops [] [] []
  let mstr := " | ".intercalate answers
  let istr := " ".intercalate res
  let orc ← regmapOracle ops (splitBars res) [] 0
  let tags := tags.eraseDups
  let tags := tags ++ (if tags.contains "rewrite" && (tags.contains "ld-narrower" || tags.contains "ld-wider")
    then ["width-interplay"] else [])
  return { corr := corrOf mstr istr, oracle := orc, tags }

/-! ### state -/

inductive StOp where
  | ap (ef : Effect)
  | lr (k : String) (w : Nat)
  | lm (k : String) (a w : Nat)
  | mm (k : String) (a w : Nat)
  | mb (k : String)
  | dump

def pStOp : P StOp := do
  match (← next) with
  | "ap" => do let ef ← pEffect; pure (.ap ef)
  | "lr" => do let k ← next; let w ← pNat; pure (.lr k w)
  | "lm" => do let k ← next; let a ← pNat; let w ← pNat; pure (.lm k a w)
  | "mm" => do let k ← next; let a ← pNat; let w ← pNat; pure (.mm k a w)
  | "mb" => do let k ← next; pure (.mb k)
  | "dump" => pure .dump
  | t => throw s!"bad state op {t}"

/-- no register or memory symbol -/
def closed : Expr → Bool
  | .const _ => true
  | .binary _ a b _ => closed a && closed b
  | .less a b t f _ => closed a && closed b && closed t && closed f
  | .memLoad .. => false
  | .regLoad .. => false

def stateModel : List StOp → State → List String → List String → List String × List String
  | [], s, acc, tags =>
    match dumpState s with
    | some d => (acc ++ [d], tags)
    | none => (acc ++ ["PANIC"], tags)
  | op :: ops, s, acc, tags =>
    match op with
    | .ap ef =>
      let tg := match ef with
        | .regStore .. => ["ap-reg"]
        | .memStore _ _ addr _ =>
          (match addr with
           | .const c => if c.length > 8 then ["ap-wideconst"] else ["ap-const"]
           | _ => if closed addr then ["ap-foldable"] else
              (match constFold addr with
               | .const _ => ["ap-open-folds"]
               | _ => ["ap-symbolic"]))
      match s.apply ef with
      | .ok (s', true) => stateModel ops s' (acc ++ ["true"]) (tags ++ tg)
      | .ok (s', false) => stateModel ops s' (acc ++ ["false same"]) (tags ++ tg ++ ["refused"])
      | .error _ => (acc ++ ["PANIC"], tags ++ tg ++ ["panic"])
    | .lr k w =>
      stateModel ops s (acc ++ [fmtLoad (s.regs.load k w)]) (tags ++ [if (s.regs.load k w).isSome then "lr-some" else "lr-none"])
    | .lm k a w =>
      match s.mems.load k a w with
      | .ok r => stateModel ops s (acc ++ [fmtLoad r]) (tags ++ [if r.isSome then "lm-some" else "lm-none"])
      | .error _ => (acc ++ ["PANIC"], tags ++ ["panic"])
    | .mm k a w =>
      match s.mems.missing k a w with
      | .ok r => stateModel ops s (acc ++ [fmtIntvs r]) (tags ++ ["mm"])
      | .error _ => (acc ++ ["PANIC"], tags ++ ["panic"])
    | .mb k =>
      match s.mems.blocks k with
      | .ok r => stateModel ops s (acc ++ [fmtIntvs r]) (tags ++ ["mb"])
      | .error _ => (acc ++ ["PANIC"], tags ++ ["panic"])
    | .dump =>
      match dumpState s with
      | some d => stateModel ops s (acc ++ [d]) (tags ++ ["dump"])
      | none => (acc ++ ["PANIC"], tags ++ ["panic"])

/-- oracle state: register write history and the byte maps of the memories -/
structure OSt where
  regs : RegHist := []
  mems : OMap := []

/-- judge the memory part of a dump: `M <m> key <k> b e <loads> …` -/
def judgeMemDump (mems : OMap) (toks : List String) : Except String (Option String) := do
  let p : P (Option String) := do
    expect "M"
    let n ← pNat
    let keys := (mems.map (·.1)).eraseDups
    if n != keys.length then
      -- consume nothing more: the verdict is already negative
      set ([] : List String)
      return some "dump: wrong number of memories"
    let mut verdict : Option String := none
    for _ in [0:n] do
      let key ← next
      let s := mems.get key
      let nb ← pNat
      let mut blocks : List Interval.Intv := []
      for _ in [0:nb] do
        let b ← pNat
        let e ← pNat
        blocks := blocks ++ [((b : Int), (e : Int))]
        for c in chunks b e do
          let t ← next
          if t == "none" then
            if verdict.isNone then verdict := some s!"dump: block [{b},{e}) of {key} cannot be loaded"
          else if t == "some" then
            let ex ← pExpr
            if verdict.isNone then
              if ex.width != c.2 then verdict := some s!"dump: chunk of {key} at {c.1} has width {ex.width}"
              else if let some sd := envSeeds.find? (fun sd => let ρ := mkEnv sd; ex.eval ρ != s.loadVal ρ c.1 c.2) then
                verdict := some s!"dump: content of {key} at {c.1} differs from the written bytes under valuation seed {sd}"
          else throw s!"bad dump token {t}"
      if verdict.isNone then
        let toksB := (fmtIntvs blocks).splitOn " "
        match judgeBlocks s 0 toksB with
        | .ok (some r) => verdict := some ("dump: " ++ key ++ ": " ++ r)
        | .ok none => pure ()
        | .error e => throw e
    return verdict
  runP p toks

def judgeDump (o : OSt) (toks : List String) : Except String (Option String) := do
  let (r, rest) ← judgeRegDump o.regs toks
  match r with
  | some x => pure (some x)
  | none => judgeMemDump o.mems rest

def stateOracle : List StOp → List (List String) → OSt → Nat → Bool → Except String (Option String)
  | [], fields, o, _, dom =>
    match fields with
    | [f] => if dom then judgeDump o f else pure none
    | _ => pure (some "wrong number of answers")
  | op :: ops, fields, o, i, dom =>
    match fields with
    | [] => pure (some "missing answer")
    | f :: rest => do
      if f == ["PANIC"] then
        -- a memory store outside the domain of C14 may panic (top of the address space, width 0)
        let outside := match op with
          | .ap (.memStore _ _ addr w) =>
            let vals := envSeeds.map fun sd => addr.eval (mkEnv sd)
            (vals.all fun x => x == vals.headD 0) && !inDomain (vals.headD 0 % 2 ^ 64) w
          | _ => false
        return (if dom && !outside then some s!"op {i} panics" else none)
      match op with
      | .ap (.regStore v k w) =>
        if f != ["true"] then pure (some s!"op {i}: register store answered {" ".intercalate f}")
        else stateOracle ops rest { o with regs := o.regs ++ [⟨k, v, w⟩] } (i + 1) dom
      | .ap (.memStore v key addr w) =>
        match f with
        | ["false", same] =>
          if same != "same" then pure (some s!"op {i}: a refused memory store changed the state")
          else if closed addr then pure (some s!"op {i}: a memory store with a constant-valued address was refused")
          else stateOracle ops rest o (i + 1) dom
        | ["true"] =>
          let vals := envSeeds.map fun sd => addr.eval (mkEnv sd)
          if !(vals.all fun x => x == vals.headD 0) then
            pure (some s!"op {i}: a memory store whose address depends on the valuation was applied")
          else
            let a := vals.headD 0 % 2 ^ 64
            let dom' := dom && inDomain a w
            match o.mems.store key a v w with
            | none => pure (some s!"op {i}: store refused by the oracle")
            | some mems' => stateOracle ops rest { o with mems := mems' } (i + 1) dom'
        | _ => pure (some s!"op {i}: bad apply answer")
      | .lr k w => do
        match ← judgeRegLoad o.regs i k w f with
        | some r => pure (some r)
        | none => stateOracle ops rest o (i + 1) dom
      | .lm key a w => do
        if !(dom && inDomain a w) then return ← stateOracle ops rest o (i + 1) dom
        match ← judgeLoad (o.mems.get key) i a w f with
        | some r => pure (some r)
        | none => stateOracle ops rest o (i + 1) dom
      | .mm key a w => do
        if !(dom && inDomain a w) then return ← stateOracle ops rest o (i + 1) dom
        match ← judgeMissing (o.mems.get key) i a w f with
        | some r => pure (some r)
        | none => stateOracle ops rest o (i + 1) dom
      | .mb key => do
        if !dom then return ← stateOracle ops rest o (i + 1) dom
        match ← judgeBlocks (o.mems.get key) i f with
        | some r => pure (some r)
        | none => stateOracle ops rest o (i + 1) dom
      | .dump => do
        if !dom then return ← stateOracle ops rest o (i + 1) dom
        match ← judgeDump o f with
        | some r => pure (some r)
        | none => stateOracle ops rest o (i + 1) dom

def runStateOps (ops : List StOp) (s0 : State) (o0 : OSt) (dom0 : Bool) (extra : List String)
    (res : List String) : Except String Verdict := do
  let (answers, tags) := stateModel ops s0 [] []
  let mstr := " | ".intercalate answers
  let istr := " ".intercalate res
  let orc ← stateOracle ops (splitBars res) o0 0 dom0
  return { corr := corrOf mstr istr, oracle := orc, tags := extra ++ tags.eraseDups }

def hState : Handler := fun args res => do
  let ops ← runP (pList pStOp) args
  runStateOps ops State.new {} true [] res

/-- `statemem <key> <mem> <n> op…`: the state starts with one address space holding a stack of memories -/
def hStateMem : Handler := fun args res => do
  let (key, d, ops) ← runP (do
    let key ← next
    let d ← pDesc
    let ops ← pList pStOp
    pure (key, d, ops)) args
  let istr := " ".intercalate res
  if d.overlaps then
    let orc := if istr == "err:overlap" then none else some "NewBytes accepted overlapping blocks"
    return { corr := corrOf "err:overlap" istr, oracle := orc, tags := ["overlap"] }
  match d.build with
  | .error msg => return { corr := corrOf msg istr, oracleNA := true, tags := ["setup-fail"] }
  | .ok mem =>
    runStateOps ops { regs := [], mems := [(key, mem)] } { regs := [], mems := [(key, d.stack)] }
      d.inDomain ["statemem", if d.depth ≥ 1 then "layered" else "single"] res

end Driver.State

namespace Driver
def stateHandlers : List (String × Handler) :=
  [("regmap", State.hRegMap), ("state", State.hState), ("statemem", State.hStateMem)]
end Driver
