import Driver.ExprOps
import Driver.IntervalOps
import Mltwist.Model.Sparse
import Mltwist.Spec.Sparse
import Mltwist.Spec.IntervalSet
/-
Handler for histories on the sparse memory (C14).

  sparse <n> op1 … opn => answer1 | … | answern | alias:ok

ops: `st <addr> <w> E`, `ld <addr> <w>`, `ms <addr> <w>`, `bl`.
-/
namespace Driver
open Mltwist Mltwist.Sparse Mltwist.Spec.Sparse Mltwist.Interval

inductive SOp where
  | st (a w : Nat) (e : Expr)
  | ld (a w : Nat)
  | ms (a w : Nat)
  | bl

def pSOp : P SOp := do
  match (← next) with
  | "st" => do let a ← pNat; let w ← pNat; let e ← pExpr; pure (.st a w e)
  | "ld" => do let a ← pNat; let w ← pNat; pure (.ld a w)
  | "ms" => do let a ← pNat; let w ← pNat; pure (.ms a w)
  | "bl" => pure .bl
  | t => throw s!"bad sparse op {t}"

/-- split the result tokens at `|` -/
def splitBars (toks : List String) : List (List String) :=
  let (cur, acc) := toks.foldl (fun (p : List String × List (List String)) t =>
    if t == "|" then ([], p.2 ++ [p.1]) else (p.1 ++ [t], p.2)) ([], [])
  acc ++ [cur]

def inDomain (a w : Nat) : Bool := 1 ≤ w && w ≤ 255 && a + w < 2 ^ 64

/-- run the model; answers (canonical strings) and tags -/
def sparseModel : List SOp → Tree → List String → List String → List String × List String
  | [], _, acc, tags => (acc ++ ["alias:ok"], tags)
  | op :: ops, t, acc, tags =>
    match op with
    | .st a w e =>
      let tg := (match overlaps t a (endAddr a w) with
        | .ok ov =>
          (if ov.any (fun o => o.low < a || endAddr a w < o.high) then ["st-partial"] else []) ++
          (if ov.any (fun o => o.low < a && endAddr a w < o.high) then ["st-split"] else []) ++
          (if ov.length ≥ 2 then ["st-multi"] else [])
        | _ => []) ++
        (if e.width < w then ["narrow-stored-wide"] else if e.width > w then ["wide-stored-narrow"] else [])
      match store t a e w with
      | .ok t' => sparseModel ops t' (acc ++ ["-"]) (tags ++ tg)
      | .error _ => (acc ++ ["PANIC"], tags ++ ["panic"])
    | .ld a w =>
      match load t a w with
      | .ok none => sparseModel ops t (acc ++ ["none"]) (tags ++ ["ld-none"])
      | .ok (some e) =>
        let tg := match overlaps t a (endAddr a w) with
          | .ok ov =>
            (if ov.length ≥ 2 then ["ld-multi"] else []) ++
            (if ov.length ≥ 3 then ["ld-multi3"] else []) ++
            (if ov.any (fun o => o.low < a) then ["ld-cutbegin"] else []) ++
            (if ov.any (fun o => endAddr a w < o.high) then ["ld-cutend"] else []) ++
            (if ov.any (fun o => o.val.begin + (max a o.low - o.low) ≥ o.val.ex.width) then ["ld-zeroext"] else [])
          | _ => []
        sparseModel ops t (acc ++ ["some " ++ fmtExpr e]) (tags ++ ["ld-some"] ++ tg)
      | .error _ => (acc ++ ["PANIC"], tags ++ ["panic"])
    | .ms a w =>
      match missing t a w with
      | .ok m => sparseModel ops t (acc ++ [fmtIntvs m])
          (tags ++ [if m.length ≥ 2 then "ms-multi" else if m.isEmpty then "ms-empty" else "ms-one"])
      | .error _ => (acc ++ ["PANIC"], tags ++ ["panic"])
    | .bl =>
      match blocks t with
      | .ok m => sparseModel ops t (acc ++ [fmtIntvs m]) (tags ++ [if m.length ≥ 2 then "bl-multi" else "bl-small"])
      | .error _ => (acc ++ ["PANIC"], tags ++ ["panic"])

def natPoints (b e : Int) : List Int := (List.range (e - b).toNat).map fun (i : Nat) => b + (i : Int)

/-- the oracle: replay the history on a spec map and judge every implementation answer.
Returns the first failure. -/
def sparseOracle : List SOp → List (List String) → Hist → Nat → Except String (Option String)
  | [], fields, _, _ =>
    match fields with
    | [["alias:ok"]] => pure none
    | [f] => pure (some ("aliasing monitor: " ++ " ".intercalate f))
    | _ => pure (some "wrong number of answers")
  | op :: ops, fields, h, k =>
    match fields with
    | [] => pure (some "missing answer")
    | f :: rest =>
      if f == ["PANIC"] then pure (some s!"op {k} panics") else
      match op with
      | .st a w e =>
        if f != ["-"] then pure (some s!"op {k}: bad store answer") else
        sparseOracle ops rest (h.store a e w) (k + 1)
      | .ld a w => do
        let present := h.allPresent a w
        match f with
        | ["none"] =>
          if present then pure (some s!"op {k}: load fails although every byte was written")
          else sparseOracle ops rest h (k + 1)
        | "some" :: et => do
          let e ← runP pExpr et
          if !present then pure (some s!"op {k}: load succeeds although a byte is missing")
          else if e.width != w then pure (some s!"op {k}: loaded expression has width {e.width}, not {w}")
          else
            match envSeeds.find? (fun s => let ρ := mkEnv s; e.eval ρ != h.loadVal ρ a w) with
            | some s => pure (some s!"op {k}: loaded value differs from the written bytes under valuation seed {s}")
            | none => sparseOracle ops rest h (k + 1)
        | _ => throw "bad load answer"
      | .ms a w => do
        let m ← runP pIntvs f
        let bad := (natPoints a (a + w)).find? fun x => memB x m != (h.get x.toNat).isNone
        let out := m.find? fun i => i.1 < (a : Int) || i.2 > ((a + w : Nat) : Int)
        if !normalB m then pure (some s!"op {k}: missing set is not in normal form")
        else if out.isSome then pure (some s!"op {k}: missing set leaves the requested range")
        else if bad.isSome then pure (some s!"op {k}: missing set is wrong at address {bad.getD 0}")
        else sparseOracle ops rest h (k + 1)
      | .bl => do
        let m ← runP pIntvs f
        let notIn := h.written.find? fun (x : Nat) => !memB (x : Int) m
        let extra := (m.flatMap fun i => natPoints i.1 i.2).find? fun x => x < 0 || (h.get x.toNat).isNone
        if !normalB m then pure (some s!"op {k}: block set is not in normal form")
        else if notIn.isSome then pure (some s!"op {k}: written address {notIn.getD 0} is not in the block set")
        else if extra.isSome then pure (some s!"op {k}: block set contains the unwritten address {extra.getD 0}")
        else sparseOracle ops rest h (k + 1)

def hSparse : Handler := fun args res => do
  let ops ← runP (pList pSOp) args
  let (answers, tags) := sparseModel ops [] [] []
  let mstr := " | ".intercalate answers
  let istr := " ".intercalate res
  let dom := ops.all fun
    | .st a w _ => inDomain a w
    | .ld a w => inDomain a w
    | .ms a w => inDomain a w
    | .bl => true
  let tags := tags.eraseDups
  let composed := tags.contains "ld-multi" || tags.contains "ld-cutbegin" || tags.contains "ld-cutend"
  let tags := tags ++ (if composed then ["composed"] else []) ++ (if dom then [] else ["outdomain"])
  if !dom then
    return { corr := corrOf mstr istr, oracleNA := true, tags }
  let orc ← sparseOracle ops (splitBars res) [] 0
  return { corr := corrOf mstr istr, oracle := orc, tags }

def sparseHandlers : List (String × Handler) := [("sparse", hSparse)]

end Driver
