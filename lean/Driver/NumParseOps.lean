import Driver.Core
import Mltwist.Model.NumParse
import Mltwist.Spec.NumParse
/-
Handlers for numeric user input (C30):

  parseaddr <hex of the argument>   =>  ok <n> | err | PANIC
  readvalue <w> <hex of the line>   =>  ok c:<hex> | err | PANIC

`readvalue` feeds `<line>\n` to the console input; `linereader.ReadLine` is a `bufio.Scanner` with
`ScanLines`, which ends the line at the first `\n` and drops one trailing `\r`.  That cut is applied
here (glue, `scanLine`) before the model and the oracle see the line.
-/
namespace Driver.NumParse
open Driver Mltwist

def fmtAddrRes : NumParse.Res Nat → String
  | .ok v => s!"ok {v}"
  | .err => "err"
  | .panic => "PANIC"

def fmtValRes : NumParse.Res (List UInt8) → String
  | .ok bs => "ok c:" ++ fmtHexRaw bs
  | .err => "err"
  | .panic => "PANIC"

def isAlnum (c : UInt8) : Bool :=
  (0x30 ≤ c && c ≤ 0x39) || (0x41 ≤ c && c ≤ 0x5a) || (0x61 ≤ c && c ≤ 0x7a)

/-- classification of the string for the coverage statistics -/
def shapeTags (s : List UInt8) : List String :=
  let body := match s with
    | 0x2b :: r => r
    | 0x2d :: r => r
    | r => r
  let signTag := match s with
    | 0x2b :: _ => ["plus"]
    | 0x2d :: _ => ["minus"]
    | _ => []
  let baseTag := match body with
    | 0x30 :: c :: _ =>
      if c == 0x78 || c == 0x58 then "hex" else if c == 0x62 || c == 0x42 then "bin"
      else if c == 0x6f || c == 0x4f then "octo" else "oct"
    | _ => "dec"
  [baseTag] ++ signTag ++
    (if s.length < 2 then ["short"] else []) ++
    (if s.isEmpty then ["empty"] else []) ++
    (if !s.isEmpty && s.all (fun c => isAlnum c || c == 0x2b || c == 0x2d) then ["numlike"] else ["odd"]) ++
    (if s.any (· == 0x5f) then ["underscore"] else [])

def hParseAddr : Handler := fun args res => do
  let s ← runP pHex args
  let m := fmtAddrRes (NumParse.parseAddr s)
  let istr := " ".intercalate res
  let expected := match Spec.NumParse.addrExpected s with
    | some v => s!"ok {v}"
    | none => "err"
  let big := match Spec.NumParse.addrValue s with
    | some v => if v ≥ 2 ^ 64 then ["overflow"] else if v ≥ 2 ^ 63 then ["high"] else []
    | none => []
  let tags := shapeTags s ++ big ++
    [if (Spec.NumParse.addrExpected s).isSome then "accept" else "reject"] ++
    (if NumParse.parseAddrPinned s != NumParse.parseAddr s then ["f27"] else [])
  let orc := if istr == expected then none
    else some s!"the argument must be answered with {expected}"
  return { corr := corrOf m istr, oracle := orc, tags }

/-- `bufio.ScanLines` on `line ++ "\n"`: up to the first newline, one trailing CR dropped -/
def scanLine (s : List UInt8) : List UInt8 :=
  let l := s.takeWhile (· != 0x0a)
  if l.getLast? == some 0x0d then l.dropLast else l

def hReadValue : Handler := fun args res => do
  let (w, raw) ← runP (do let w ← pNat; let s ← pHex; pure (w, s)) args
  let line := scanLine raw
  let m := fmtValRes (NumParse.readValue w line)
  let istr := " ".intercalate res
  let expected := match Spec.NumParse.valueExpected w line with
    | some bs => "ok c:" ++ fmtHexRaw bs
    | none => "err"
  let sz := match Spec.NumParse.lineValue line with
    | some n =>
      (if n < 0 then ["negative"] else []) ++
      (if n.natAbs ≥ 2 ^ (8 * w) then ["truncated"] else []) ++
      (if n < 0 && n.natAbs > 2 ^ (8 * w - 1) then ["belowmin"] else [])
    | none => []
  let tags := shapeTags line ++ sz ++ [s!"w{if w ≤ 8 then toString w else "big"}"] ++
    [if (Spec.NumParse.lineValue line).isSome then "accept" else "reject"] ++
    (if line != raw then ["cut"] else [])
  let orc := if istr == expected then none
    else some s!"the line must be answered with {expected}"
  return { corr := corrOf m istr, oracle := orc, tags }

end Driver.NumParse

namespace Driver
def numParseHandlers : List (String × Handler) := [
  ("parseaddr", NumParse.hParseAddr),
  ("readvalue", NumParse.hReadValue)]
end Driver
