import Driver.Core
import Mltwist.Spec.Opcode
/-
Handler for the opcode matcher (C19).

  opmatch <n> <bytes-hex> <mask-hex> … <k> <input-hex>…
    => err:invalid | err:ambiguous | ok <r1> … <rk>      (ri = none | position of the pattern)

Oracle (independent of the model): `err:invalid` iff some pattern is ill-formed; otherwise
`err:ambiguous` iff two patterns at different positions agree on their common mask over the common
prefix; otherwise `ok`, and every answer is the unique position whose pattern matches the input
(brute force over all patterns), `none` iff there is none.
-/
namespace Driver
open Mltwist Mltwist.Opcode

def pPat : P Pat := do
  let b ← pHex
  let m ← pHex
  pure { bytes := b, mask := m }

def fmtErrClass : ErrClass → String
  | .invalid => "err:invalid"
  | .ambiguous => "err:ambiguous"
  | .panic => "PANIC"

def fmtMatchRes : Option Nat → String
  | none => "none"
  | some i => toString i

def popcount (b : UInt8) : Nat := (List.range 8).foldl (fun acc i => acc + (b.toNat >>> i) % 2) 0

def hOpMatch : Handler := fun args res => do
  let (ps, inputs) ← runP (do let ps ← pList pPat; let ins ← pList pHex; pure (ps, ins)) args
  -- model
  let mres := newMatcher ps
  let mstr := match mres with
    | .error e => fmtErrClass e
    | .ok m => inputs.foldl (fun acc bs => acc ++ " " ++ fmtMatchRes (m.match bs)) "ok"
  let istr := " ".intercalate res
  -- spec
  let allWF := ps.all wellFormedB
  let cps := conflictPairs ps
  let sameMask := (List.range ps.length).any fun i => (List.range ps.length).any fun j =>
    i < j && (ps.getD i ⟨[], []⟩).mask == (ps.getD j ⟨[], []⟩).mask
  let partial_ := (List.range ps.length).any fun i => (List.range ps.length).any fun j =>
    let p := ps.getD i ⟨[], []⟩
    let q := ps.getD j ⟨[], []⟩
    i < j && p.mask != q.mask &&
      (List.range (min p.mask.length q.mask.length)).any fun k =>
        let a := p.mask.getD k 0
        let b := q.mask.getD k 0
        a &&& b != a && a &&& b != b
  let lens := (ps.map fun p => p.mask.length).eraseDups
  let nmatch := inputs.map fun bs => (matching ps bs).length
  let tags :=
    [if !allWF then "invalid" else if cps.isEmpty then "accept" else "conflict",
     if ps.length ≥ 3 then "multi" else "small"] ++
    (if sameMask then ["samemask"] else []) ++
    (if partial_ then ["partial"] else []) ++
    (if lens.length ≥ 2 then ["mixedlen"] else []) ++
    (if ps.any fun p => (applyMask p.bytes p.mask) != p.bytes then ["dontcare"] else []) ++
    (if allWF && cps.isEmpty && nmatch.any (· == 1) then ["hit"] else []) ++
    (if allWF && cps.isEmpty && nmatch.any (· == 0) then ["miss"] else [])
  if res == ["PANIC"] then
    return { corr := corrOf mstr "PANIC", oracle := some "panic", tags }
  let orc ← match res with
    | ["err:invalid"] =>
      pure (firstFail [(!allWF, "all patterns are well formed but NewMatcher reports an invalid one")])
    | ["err:ambiguous"] =>
      pure (firstFail [
        (allWF, "an ill-formed pattern is not reported as invalid"),
        (!cps.isEmpty, "rejected as ambiguous although no byte string matches two patterns")])
    | "ok" :: rs =>
      if rs.length != inputs.length then throw "wrong number of answers" else
      let answers := (inputs.zip rs).map fun (bs, r) =>
        let ms := matching ps bs
        let want := match ms with | [i] => toString i | [] => "none" | _ => "ambiguous"
        (r == want, s!"input {fmtHex bs}: answer {r}, patterns matching: {ms}")
      pure (firstFail ([
        (allWF, "an ill-formed pattern was accepted"),
        (cps.isEmpty, match cps with
          | (i, j) :: _ => s!"accepted although patterns {i} and {j} are matched by a common byte string"
          | [] => "")] ++ answers))
    | _ => throw s!"unexpected result {istr}"
  return { corr := corrOf mstr istr, oracle := orc, tags }

def opcodeHandlers : List (String × Handler) := [
  ("opmatch", hOpMatch)]

end Driver
