import Driver.StateOps
import Mltwist.Model.Emulator
import Mltwist.Model.BasicBlock
import Mltwist.Spec.Emulator
/-
Handlers for emulator histories (C03: `emu`, C04: `emuq`; the same operation of the harness).

  emu|emuq <seed> <entry> <ncode> (<begin> <hex>)… <ndata> (<begin> <hex>)… <nsteps> <npre> (<key> <hex>)…
  result: err:<class>  |  step | step | … | D <dump of the final state>
    step = ok RL <n> (key C)… RS <n> (key C)… ML <n> (key addr C)… MS <n> (key addr C)…
              Q <n> (r key w | m key addr w)… R <k> (key E)… W <dump of the sparse layer>
         | err | PANIC Q …
         | err:access <addr> <w> Q <n> … R <k> (key E)… W <dump of the sparse layer>     (F45: an access of the
              instruction leaves the address space; the provider calls of the failed step and the state after it)

C: the model (`Model/Emulator.lean` on the code view lifted from the code blocks) against every field.
O (`emu`): the reference machine of `Spec/Emulator.lean` after every step (C03).
O (`emuq`): the provider log against what the emulator knows (C04).
-/
namespace Driver.Emu
open Driver Driver.State Mltwist Mltwist.State Mltwist.Overlay Mltwist.Emulator

/-! ### the line -/

structure Line where
  seed : Nat
  entry : Nat
  code : List (Nat × List UInt8)
  data : List (Nat × List UInt8)
  nsteps : Nat
  pre : List (String × List UInt8)

def pBlocks : P (List (Nat × List UInt8)) := pList (do let b ← pNat; let h ← pHex; pure (b, h))

def pLine : P Line := do
  let seed ← pNat
  let entry ← pNat
  let code ← pBlocks
  let data ← pBlocks
  let nsteps ← pNat
  let pre ← pList (do let k ← next; let h ← pHex; pure (k, h))
  pure { seed, entry, code, data, nsteps, pre }

def provider (seed : Nat) : Provider where
  reg key w := natToLE w (Spec.Emu.provReg seed key)
  mem key a w := (List.range w).map fun i => UInt8.ofNat (Spec.Emu.provByte seed key ((a + i) % 2 ^ 64))

/-! ### model side -/

def fmtRegSet (tag : String) (l : List (String × List UInt8)) : String :=
  (sortKeys l).foldl (fun acc p => acc ++ s!" {p.1} c:{fmtHexRaw p.2}") s!"{tag} {l.length}"

def fmtAccesses (tag : String) (l : List MemAccess) : String :=
  l.foldl (fun acc a => acc ++ s!" {a.key} {a.addr} c:{fmtHexRaw a.value}") s!"{tag} {l.length}"

def fmtReq : Req → String
  | .reg k w => s!"r {k} {w}"
  | .mem k a w => s!"m {k} {a} {w}"

def fmtLog (l : List Req) : String := l.foldl (fun acc r => acc ++ " " ++ fmtReq r) s!"Q {l.length}"

/-- the sparse layer of the `memory` address space -/
def sparseLayer (s : State) : Option Mem :=
  match assocGet Riscv.memoryKey s.mems with
  | some (.overlay _ o) => some o
  | _ => none

def fmtStep (s : State) (rep : Report) (log : List Req) : String :=
  let w := match sparseLayer s with
    | some o => (dumpMem o).getD "PANIC"
    | none => "PANIC"
  " ".intercalate ["ok", fmtRegSet "RL" rep.regLoads, fmtRegSet "RS" rep.regStores,
    fmtAccesses "ML" rep.memLoads, fmtAccesses "MS" rep.memStores, fmtLog log, dumpRegs s.regs, "W " ++ w]

/-- a step that failed with the access error: the access, the provider calls made before it, the state after -/
def fmtAccessErr (s : State) (log : List Req) (addr w : Nat) : String :=
  let d := match sparseLayer s with
    | some o => (dumpMem o).getD "PANIC"
    | none => "PANIC"
  " ".intercalate [s!"err:access {addr} {w}", fmtLog log, dumpRegs s.regs, "W " ++ d]

def insertBlock (x : Nat × List UInt8) : List (Nat × List UInt8) → List (Nat × List UInt8)
  | [] => [x]
  | y :: ys => if x.1 < y.1 then x :: y :: ys else y :: insertBlock x ys

/-- `newMemory`: sort by begin, reject overlaps -/
def elfMemory (bs : List (Nat × List UInt8)) : Option (List (Nat × List UInt8)) :=
  let s := bs.foldl (fun acc x => insertBlock x acc) []
  if (s.zip (s.drop 1)).any (fun p => p.2.1 < (p.1.1 + p.1.2.length) % 2 ^ 64) then none else some s

/-- the setup of the harness: `error` = the `err:<class>` answer -/
def setup (l : Line) : Except String (CodeView × State) := do
  let some cm := elfMemory l.code | throw "err:codeoverlap"
  let some code := liftCode cm | throw "err:parse"
  match BasicBlock.newCode l.entry (code.map fun i => (i.addr, i.len, i.effects)) with
  | .error .panic => throw "PANIC"
  | .error _ => throw "err:newcode"
  | .ok _ => pure ()
  let bs ← match BytesMem.newBytes (l.code ++ l.data) with
    | .ok bs => pure bs
    | .error _ => throw "err:overlap"
  let regs := l.pre.foldl (fun (m : RegMap) p => m.store p.1 (.const p.2) p.2.length) RegMap.empty
  let s0 : State := { regs, mems := [(Riscv.memoryKey, .overlay (.bytes bs) (.sparse []))] }
  pure (code, Emulator.new l.entry s0)

def runModel (p : Provider) (code : CodeView) : Nat → State → List String → List String
  | 0, s, acc => acc ++ ["D " ++ (dumpState s).getD "PANIC"]
  | n + 1, s, acc =>
    match step p code s with
    | .ok s' rep log => runModel p code n s' (acc ++ [fmtStep s' rep log])
    | .err => acc ++ ["err", "D " ++ (dumpState s).getD "PANIC"]
    | .accessErr s' log addr w => acc ++ [fmtAccessErr s' log addr w, "D " ++ (dumpState s').getD "PANIC"]
    | .panic _ => acc ++ ["PANIC"]

/-! ### the observed steps -/

open Spec.Emu in
def pObsReq : P Spec.Emu.Req := do
  match (← next) with
  | "r" => do let k ← next; let w ← pNat; pure (.reg k w)
  | "m" => do let k ← next; let a ← pNat; let w ← pNat; pure (.mem k a w)
  | t => throw s!"bad request {t}"

def pConst : P (List UInt8) := do
  match ← pExpr with
  | .const bs => pure bs
  | _ => throw "constant expected"

def closed : Expr → Bool
  | .const _ => true
  | .binary _ a b _ => closed a && closed b
  | .less a b t f _ => closed a && closed b && closed t && closed f
  | .memLoad .. => false
  | .regLoad .. => false

def dummyEnv : Env := { reg := fun _ => 0, mem := fun _ _ => 0 }

def held (e : Expr) : Spec.Emu.Held := if closed e then some (e.width, e.eval dummyEnv) else none

/-- `W <k> b e <load>… …` → address ↦ byte -/
def pWBytes : P (List (Nat × Option Nat)) := do
  expect "W"
  let nb ← pNat
  let mut acc : List (Nat × Option Nat) := []
  for _ in [0:nb] do
    let b ← pNat
    let e ← pNat
    for c in chunks b e do
      match (← next) with
      | "none" => acc := acc ++ (List.range c.2).map fun i => (c.1 + i, none)
      | "some" =>
        let ex ← pExpr
        if closed ex && ex.width == c.2 then
          let v := ex.eval dummyEnv
          acc := acc ++ (List.range c.2).map fun i => (c.1 + i, some (v / 256 ^ i % 256))
        else acc := acc ++ (List.range c.2).map fun i => (c.1 + i, none)
      | t => throw s!"bad dump token {t}"
  pure acc

def pObs : P Spec.Emu.Obs := do
  expect "RL"
  let regLoads ← pList (do let k ← next; let c ← pConst; pure (k, c))
  expect "RS"
  let regStores ← pList (do let k ← next; let c ← pConst; pure (k, c))
  expect "ML"
  let memLoads ← pList (do let k ← next; let a ← pNat; let c ← pConst; pure (⟨k, a, c⟩ : Spec.Emu.Access))
  expect "MS"
  let memStores ← pList (do let k ← next; let a ← pNat; let c ← pConst; pure (⟨k, a, c⟩ : Spec.Emu.Access))
  expect "Q"
  let reqs ← pList pObsReq
  expect "R"
  let regs ← pList (do let k ← next; let e ← pExpr; pure (k, held e))
  let wbytes ← pWBytes
  pure { regLoads, regStores, memLoads, memStores, reqs, regs, wbytes }

def pErrObs : P Spec.Emu.ErrObs := do
  let addr ← pNat
  let w ← pNat
  expect "Q"
  let reqs ← pList pObsReq
  expect "R"
  let regs ← pList (do let k ← next; let e ← pExpr; pure (k, held e))
  let wbytes ← pWBytes
  pure { addr, w, reqs, regs, wbytes }

inductive Field where
  | ok (o : Spec.Emu.Obs)
  | err
  | accessErr (o : Spec.Emu.ErrObs)
  | panic
  | dump

def parseField (f : List String) : Except String Field :=
  match f with
  | "ok" :: rest => do pure (.ok (← runP pObs rest))
  | ["err"] => pure .err
  | "err:access" :: rest => do pure (.accessErr (← runP pErrObs rest))
  | "PANIC" :: _ => pure .panic
  | "D" :: _ => pure .dump
  | _ => throw "bad step field"

/-! ### oracles -/

structure Walk where
  tags : List String := []
  /-- latest writer of a byte: address ↦ piece id (the image is piece 0) -/
  owner : List (Nat × Nat) := []
  pieces : Nat := 1
  visited : List Nat := []

def Walk.tag (w : Walk) (t : String) : Walk := if w.tags.contains t then w else { w with tags := w.tags ++ [t] }

def Walk.claim (w : Walk) (a n : Nat) : Walk :=
  { w with owner := (List.range n).map (fun i => (a + i, w.pieces)) ++ w.owner, pieces := w.pieces + 1 }

open Spec.Emu in
/-- classification of one executed step (coverage tags only) -/
def classify (u : Setup) (name : String) (word : Nat) (pre post : Spec.Rv.St) (o : Obs) (w : Walk) : Walk := Id.run do
  let mut w := w
  if w.visited.contains pre.pc then w := w.tag "revisit"
  w := { w with visited := pre.pc :: w.visited }
  if post.pc != (pre.pc + 4) % 2 ^ 64 then
    w := w.tag "jump-taken"
    if post.pc < pre.pc then w := w.tag "backjump"
  if isAmo name || isSc name || name.startsWith "lr." then w := w.tag "atomic"
  if isCsr name then w := w.tag "csr"
  if ["div", "divu", "rem", "remu", "divw", "divuw", "remw", "remuw"].contains name then
    if pre.get (Spec.Rv.rs2 word) % (if name.endsWith "w" then 2 ^ 32 else 2 ^ 64) == 0 then w := w.tag "div0"
  -- provider supplies are pieces of their own
  for q in o.reqs do
    match q with
    | .reg _ _ => w := w.tag "ask-reg"
    | .mem _ a n => w := (w.claim a n).tag "ask-mem"
  match Spec.Rv.accessRange 64 name word pre with
  | some (a, n) =>
    if a + n + 16 ≥ 2 ^ 64 then w := w.tag "near-top-ok"
    if readsMem name then
      let ids := ((List.range n).map fun i =>
        if inBlocks u.image (a + i) && (w.owner.lookup (a + i)).isNone then 0 else (w.owner.lookup (a + i)).getD 0).eraseDups
      let asked := o.reqs.filter fun q => match q with | .mem .. => true | _ => false
      if ids.length ≥ 2 then w := w.tag "composed-load"
      if ids.length ≥ 3 then w := w.tag "composed3"
      if !asked.isEmpty && (asked.length ≥ 2 || asked.any fun q => match q with | .mem _ _ m => m < n | _ => false) then
        w := w.tag "straddle"
      if ids.contains 0 && ids.length ≥ 2 then w := w.tag "image+written"
      if ids.length == 1 && ids != [0] then
        -- one piece: is it cut?
        let id := ids.headD 0
        let cnt := (w.owner.filter fun p => p.2 == id).length
        if cnt != n then w := w.tag "cut-load"
    if writesMem name then w := w.claim a n
  | none => pure ()
  return w

def lenTag (n : Nat) : String :=
  if n ≤ 1 then "steps0-1" else if n ≤ 5 then "steps2-5" else if n ≤ 20 then "steps6-20" else "steps21+"

open Spec.Emu in
/-- C03: walk the reference machine along the observed steps -/
def oracle03 (u : Setup) (nsteps : Nat) (fields : List Field) :
    Option String × Bool × List String := Id.run do
  let mut s := u.init
  let mut written : List Nat := []
  let mut w : Walk := {}
  let mut i := 0
  let mut fs := fields
  let mut executed := 0
  while i < nsteps do
    let f := fs.head?
    fs := fs.drop 1
    -- no panic, ever: whatever the reference thinks of the step
    if let some .panic := f then
      return (some s!"step {i} panics (instruction pointer {s.pc})", false, w.tags ++ ["panic"])
    match u.refStep s with
    | .outOfScope "wrap" =>
      -- F45: the access does not fit the address space: `Step` must fail, the architectural state must not change
      let (name, a, n) := u.wrapAccess s
      match f with
      | some (.accessErr o) =>
        match judgeAccessErr03 i name a n s written o with
        | some r => return (some r, false, w.tags ++ ["access-err", name])
        | none =>
          w := w.tag "access-err"
          w := w.tag (if writesMem name && !readsMem name then "access-err-store"
            else if writesMem name then "access-err-amo" else "access-err-load")
          if a + n == 2 ^ 64 then w := w.tag "access-end-exact" else w := w.tag "access-wrapped"
          if !o.reqs.isEmpty then w := w.tag "access-err-asked"
          if executed ≥ 1 then w := w.tag "access-err-late"
          return (none, false, w.tags ++ [lenTag executed])
      | some (.ok _) =>
        return (some s!"step {i} ({name}) executes although its access [{a},+{n}) leaves the address space", false, w.tags ++ [name])
      | some .err =>
        return (some s!"step {i} ({name}) fails as if no instruction were at {s.pc}; its access [{a},+{n}) leaves the address space", false, w.tags ++ [name])
      | _ => return (some s!"step {i}: missing answer", false, w.tags)
    | .outOfScope why =>
      return (none, true, (w.tag ("oos-" ++ why)).tags ++ [lenTag executed])
    | .undefined =>
      return (some s!"step {i}: the word at {s.pc} was parsed but the reference defines no such instruction", false, w.tags)
    | .noIns =>
      match f with
      | some .err => return (none, false, (w.tag "err-end").tags ++ [lenTag executed])
      | some .panic => return (some s!"step {i} panics (instruction pointer {s.pc} is not at an instruction)", false, w.tags ++ ["panic"])
      | some (.ok _) => return (some s!"step {i} executes although {s.pc} is not the start of a decoded instruction", false, w.tags)
      | some (.accessErr _) => return (some s!"step {i} fails with the access error although {s.pc} is not the start of a decoded instruction", false, w.tags)
      | _ => return (some s!"step {i}: missing answer", false, w.tags)
    | .exec name word post =>
      match f with
      | some (.ok o) =>
        let written' := match Spec.Rv.accessRange 64 name word s with
          | some (a, n) => if writesMem name then (List.range n).map (a + ·) ++ written else written
          | none => written
        match judgeStep03 i name word s post written' o with
        | some r => return (some r, false, w.tags ++ [name])
        | none =>
          w := classify u name word s post o w
          s := post
          written := written'
          executed := executed + 1
      | some .err => return (some s!"step {i} fails although {s.pc} is the start of {name}", false, w.tags ++ [name])
      | some (.accessErr o) =>
        return (some s!"step {i} ({name}) fails with the access error for [{o.addr},+{o.w}) although the reference's access is inside the address space", false, w.tags ++ [name])
      | some .panic => return (some s!"step {i} ({name}) panics", false, w.tags ++ ["panic", name])
      | _ => return (some s!"step {i}: missing answer", false, w.tags)
    i := i + 1
  return (none, false, w.tags ++ [lenTag executed])

open Spec.Emu in
/-- C04: the provider log along the run -/
def oracle04 (u : Setup) (nsteps : Nat) (fields : List Field) :
    Except String (Option String × Bool × List String) := do
  let mut s := u.init
  let mut k := u.know0
  let mut tags : List String := []
  let mut i := 0
  let mut fs := fields
  let mut nreq := 0
  let mut executed := 0
  let addTag (ts : List String) (t : String) : List String := if ts.contains t then ts else ts ++ [t]
  while i < nsteps do
    let f := fs.head?
    fs := fs.drop 1
    -- no panic, ever
    if let some .panic := f then return (some s!"step {i} panics", false, tags ++ ["panic"])
    match u.refStep s, f with
    | .outOfScope "wrap", some (.accessErr o) =>
      -- F45: the failed step has asked the provider, too: for unknown state only, once
      for q in o.reqs do
        match q with
        | .reg .. => tags := addTag tags "ask-reg"
        | .mem .. => tags := addTag tags "ask-mem"
      nreq := nreq + o.reqs.length
      match judgeReqs u i o.reqs k with
      | .error r => return (some r, false, tags ++ ["access-err"])
      | .ok _ =>
        return (none, false, addTag tags "access-err" ++ (if o.reqs.isEmpty then [] else ["access-err-asked"]) ++
          [lenTag executed] ++ (if nreq == 0 then ["no-requests"] else []))
    | .outOfScope "wrap", _ => return (none, true, addTag tags "diverged")
    | .outOfScope why, _ => return (none, true, addTag tags ("oos-" ++ why) ++ [lenTag executed])
    | .noIns, some .err => return (none, false, addTag tags "err-end" ++ [lenTag executed])
    | .exec name word post, some (.ok o) =>
      -- the emulator must be where the reference is, otherwise the log cannot be judged
      match o.regs.lookup ipKey with
      | some (some (_, v)) => if v != post.pc then return (none, true, addTag tags "diverged")
      | _ => return (none, true, addTag tags "diverged")
      let store := match Spec.Rv.accessRange 64 name word s with
        | some r => if writesMem name then some r else none
        | none => none
      -- coverage: a read of state supplied in an earlier step
      if o.regLoads.any (fun p => k.supRegs.any (·.1 == p.1)) then tags := addTag tags "reread-reg"
      if o.memLoads.any (fun m => (List.range m.bytes.length).any fun j => (k.supBytes.lookup (m.key, m.addr + j)).isSome) then
        tags := addTag tags "reread-mem"
      if o.regLoads.any (fun p => k.regs.contains p.1 && !k.supRegs.any (·.1 == p.1) && p.1 != ipKey) then
        tags := addTag tags "read-known-reg"
      for q in o.reqs do
        match q with
        | .reg .. => tags := addTag tags "ask-reg"
        | .mem _ _ m =>
          tags := addTag tags "ask-mem"
          match Spec.Rv.accessRange 64 name word s with
          | some (_, n) => if m < n then tags := addTag tags "ask-partial"
          | none => pure ()
      if (o.reqs.filter fun q => match q with | .mem .. => true | _ => false).length ≥ 2 then
        tags := addTag tags "ask-multi"
      nreq := nreq + o.reqs.length
      match judgeStep04 u i (dstRegs name word) store o k with
      | .error r => return (some r, false, tags ++ [name])
      | .ok k' => k := k'
      s := post
      executed := executed + 1
    | _, some .panic => return (some s!"step {i} panics", false, tags ++ ["panic"])
    | _, _ => return (none, true, addTag tags "diverged")
    i := i + 1
  return (none, false, tags ++ [lenTag executed] ++ (if nreq == 0 then ["no-requests"] else []))

def toSetup (l : Line) : Spec.Emu.Setup :=
  { seed := l.seed, entry := l.entry, code := l.code, data := l.data, pre := l.pre }

/-- normalise the implementation's answer for the comparison: a panicking step prints its log -/
def normImpl (fields : List (List String)) : String :=
  " | ".intercalate (fields.map fun f => match f with
    | "PANIC" :: _ => "PANIC"
    | _ => " ".intercalate f)

def handler (c04 : Bool) : Handler := fun args res => do
  let l ← runP pLine args
  let fieldsRaw := Driver.Overlay.splitBars res
  let istr := normImpl (match fieldsRaw.reverse with
    | ("D" :: _) :: ("PANIC" :: r) :: rest => (("PANIC" :: r) :: rest).reverse
    | _ => fieldsRaw)
  match setup l with
  | .error msg =>
    return { corr := corrOf msg (" ".intercalate res), oracleNA := true, tags := ["setup-fail", msg] }
  | .ok (code, s0) =>
    let mstr := " | ".intercalate (runModel (provider l.seed) code l.nsteps s0 [])
    let corr := corrOf mstr istr
    let u := toSetup l
    if !u.wf then return { corr, oracleNA := true, tags := ["wide-preset"] }
    match res with
    | ["PANIC"] => return { corr, oracle := some "the setup panics", tags := ["panic"] }
    | r :: _ =>
      if r.startsWith "err:" && r != "err:access" then
        return { corr, oracle := some s!"setup refused ({r}) although the code parses", tags := ["setup-fail"] }
    | [] => pure ()
    let fields ← fieldsRaw.mapM parseField
    if c04 then
      let (orc, na, tags) ← oracle04 u l.nsteps fields
      return { corr, oracle := orc, oracleNA := na, tags := ["emuq"] ++ tags }
    else
      let (orc, na, tags) := oracle03 u l.nsteps fields
      return { corr, oracle := orc, oracleNA := na, tags := ["emu"] ++ tags }

end Driver.Emu

namespace Driver
def emuHandlers : List (String × Handler) := [("emu", Emu.handler false), ("emuq", Emu.handler true)]
end Driver
