import Driver.ExprOps
import Driver.IntervalOps
import Mltwist.Model.Overlay
import Mltwist.Spec.Overlay
import Mltwist.Spec.IntervalSet
/-
Handlers for layered memory histories (C16).

  overlay <k> <begin1> <hex1> … <n> op…      NewOverlay(NewBytes(blocks), NewSparse())
  layers <mem> <n> op…                       <mem> ::= B <k> blocks… | S <m> (addr w E)… | O <mem> <mem>
  memmap <n> op…                             keyed ops on a fresh MemMap

ops: `st <addr> <w> E`, `ld <addr> <w>`, `ms <addr> <w>`, `bl` (memmap: a key after the op name).
Result: answers joined by ` | `, then (overlay/layers) `base:unchanged`.

The model column replays the history through `Model/Overlay`; the oracle column replays it on a stack
of byte maps (`Spec/Overlay`, top layer first) and judges every answer of the implementation:
load succeeds iff every byte is present in some layer, has width `w` and evaluates (6 valuations) to
the little-endian sum of "top-most present byte"; missing/blocks are in normal form and exact on every
address concerned; no `PANIC`; the bases are unchanged.
-/
namespace Driver.Overlay
open Driver Mltwist Mltwist.Overlay Mltwist.Interval Mltwist.Spec.Sparse Mltwist.Spec.Overlay

inductive MOp where
  | st (a w : Nat) (e : Expr)
  | ld (a w : Nat)
  | ms (a w : Nat)
  | bl

def pMOp : P MOp := do
  match (← next) with
  | "st" => do let a ← pNat; let w ← pNat; let e ← pExpr; pure (.st a w e)
  | "ld" => do let a ← pNat; let w ← pNat; pure (.ld a w)
  | "ms" => do let a ← pNat; let w ← pNat; pure (.ms a w)
  | "bl" => pure .bl
  | t => throw s!"bad memory op {t}"

/-- description of a stack of memories -/
inductive Desc where
  | B (blocks : List (Nat × List UInt8))
  | S (stores : List (Nat × Nat × Expr))
  | O (base over : Desc)

partial def pDesc : P Desc := do
  match (← next) with
  | "B" => do
    let bl ← pList (do let b ← pNat; let h ← pHex; pure (b, h))
    pure (.B bl)
  | "S" => do
    let st ← pList (do let a ← pNat; let w ← pNat; let e ← pExpr; pure (a, w, e))
    pure (.S st)
  | "O" => do
    let b ← pDesc
    let o ← pDesc
    pure (.O b o)
  | t => throw s!"bad memory kind {t}"

/-- split the result tokens at `|` -/
def splitBars (toks : List String) : List (List String) :=
  let (cur, acc) := toks.foldl (fun (p : List String × List (List String)) t =>
    if t == "|" then ([], p.2 ++ [p.1]) else (p.1 ++ [t], p.2)) ([], [])
  acc ++ [cur]

def inDomain (a w : Nat) : Bool := 1 ≤ w && w ≤ 255 && a + w < 2 ^ 64

def fmtLoad : Option Expr → String
  | none => "none"
  | some e => "some " ++ fmtExpr e

/-! ### model side -/

/-- the memory a description denotes: `error "err:overlap"` / `error "PANIC"` -/
def Desc.build : Desc → Except String Mem
  | .B bl =>
    match BytesMem.newBytes bl with
    | .ok bs => .ok (.bytes bs)
    | .error _ => .error "err:overlap"
  | .S sts =>
    match sts.foldlM (fun t (s : Nat × Nat × Expr) => Sparse.store t s.1 s.2.2 s.2.1) ([] : Sparse.Tree) with
    | .ok t => .ok (.sparse t)
    | .error _ => .error "PANIC"
  | .O b o => do
    let b' ← b.build
    let o' ← o.build
    pure (.overlay b' o')

/-- does the overlay `Load` of the model compose several reads?  returns the number of reads -/
def pieces (m : Mem) (a w : Nat) : Nat :=
  match m with
  | .overlay _ o =>
    match o.missing a w with
    | .ok miss =>
      if miss.isEmpty then 1
      else if miss == [((a : Int), ((a + w : Nat) : Int))] then 1
      else miss.length + (mapComplement [((a : Int), ((a + w : Nat) : Int))] miss).length
    | _ => 0
  | _ => 1

/-- an interval of one list meets at least two intervals of the other -/
def crosses (x y : List Intv) : Bool :=
  x.any fun i => (y.filter fun j => decide (max i.1 j.1 < min i.2 j.2)).length ≥ 2

/-- model replay: answers and tags -/
def modelRun : List MOp → Mem → List String → List String → List String × List String
  | [], _, acc, tags => (acc ++ ["base:unchanged"], tags)
  | op :: ops, m, acc, tags =>
    match op with
    | .st a w e =>
      match m.store a e w with
      | .ok m' => modelRun ops m' (acc ++ ["-"]) tags
      | .error _ => (acc ++ ["PANIC"], tags ++ ["panic"])
    | .ld a w =>
      match m.load a w with
      | .ok none => modelRun ops m (acc ++ ["none"]) (tags ++ ["ld-none"])
      | .ok (some e) =>
        let n := pieces m a w
        let tg := match m with
          | .overlay _ o =>
            (match o.missing a w with
             | .ok [] => ["ld-over"]
             | .ok miss => if n == 1 then ["ld-base"] else
                 ["ld-mixed"] ++ (if n ≥ 3 then ["ld-mixed3"] else []) ++ (if n ≥ 4 then ["ld-mixed4"] else []) ++
                 (if miss.head?.map (·.1) == some (a : Int) then ["ld-basefirst"] else ["ld-overfirst"])
             | _ => [])
          | _ => []
        modelRun ops m (acc ++ ["some " ++ fmtExpr e]) (tags ++ ["ld-some"] ++ tg)
      | .error _ => (acc ++ ["PANIC"], tags ++ ["panic"])
    | .ms a w =>
      match m.missing a w with
      | .ok r =>
        let tg := match m with
          | .overlay b o =>
            (match b.missing a w, o.missing a w with
             | .ok x, .ok y => if crosses x y || crosses y x then ["ms-cross"] else []
             | _, _ => [])
          | _ => []
        modelRun ops m (acc ++ [fmtIntvs r])
          (tags ++ tg ++ [if r.length ≥ 2 then "ms-multi" else if r.isEmpty then "ms-empty" else "ms-one"])
      | .error _ => (acc ++ ["PANIC"], tags ++ ["panic"])
    | .bl =>
      match m.blocks with
      | .ok r => modelRun ops m (acc ++ [fmtIntvs r]) (tags ++ [if r.length ≥ 2 then "bl-multi" else "bl-small"])
      | .error _ => (acc ++ ["PANIC"], tags ++ ["panic"])

/-! ### oracle side -/

/-- the oracle stack of a description, top layer first -/
def Desc.stack : Desc → OStack
  | .B bl => [OLayer.ofBlocks bl]
  | .S sts => [.sparse (sts.foldl (fun h (s : Nat × Nat × Expr) => h.store s.1 s.2.2 s.2.1) [])]
  | .O b o => o.stack ++ b.stack

def natPoints (b e : Int) : List Int := (List.range (e - b).toNat).map fun (i : Nat) => b + (i : Int)

/-- judge the answer of a `Load` -/
def judgeLoad (s : OStack) (k a w : Nat) (f : List String) : Except String (Option String) := do
  let present := s.allPresent a w
  match f with
  | ["none"] =>
    if present then pure (some s!"op {k}: load fails although every byte is present in some layer") else pure none
  | "some" :: et => do
    let e ← runP pExpr et
    if !present then pure (some s!"op {k}: load succeeds although a byte is present in no layer")
    else if e.width != w then pure (some s!"op {k}: loaded expression has width {e.width}, not {w}")
    else
      match envSeeds.find? (fun sd => let ρ := mkEnv sd; e.eval ρ != s.loadVal ρ a w) with
      | some sd => pure (some s!"op {k}: loaded value differs from the layered bytes under valuation seed {sd}")
      | none => pure none
  | _ => throw "bad load answer"

/-- judge the answer of `Missing` -/
def judgeMissing (s : OStack) (k a w : Nat) (f : List String) : Except String (Option String) := do
  let m ← runP pIntvs f
  let bad := (natPoints a (a + w)).find? fun x => memB x m != !s.present x.toNat
  let out := m.find? fun i => i.1 < (a : Int) || i.2 > ((a + w : Nat) : Int)
  if !normalB m then pure (some s!"op {k}: missing set is not in normal form")
  else if out.isSome then pure (some s!"op {k}: missing set leaves the requested range")
  else if bad.isSome then pure (some s!"op {k}: missing set is wrong at address {bad.getD 0}")
  else pure none

/-- judge the answer of `Blocks` -/
def judgeBlocks (s : OStack) (k : Nat) (f : List String) : Except String (Option String) := do
  let m ← runP pIntvs f
  let notIn := s.candidates.find? fun (x : Nat) => s.present x && !memB (x : Int) m
  let extra := (m.flatMap fun i => natPoints i.1 i.2).find? fun x => x < 0 || !s.present x.toNat
  if !normalB m then pure (some s!"op {k}: block set is not in normal form")
  else if notIn.isSome then pure (some s!"op {k}: present address {notIn.getD 0} is not in the block set")
  else if extra.isSome then pure (some s!"op {k}: block set contains the absent address {extra.getD 0}")
  else pure none

/-- replay the history on the stack of byte maps and judge every implementation answer -/
def oracleRun : List MOp → List (List String) → OStack → Nat → Except String (Option String)
  | [], fields, _, _ =>
    match fields with
    | [["base:unchanged"]] => pure none
    | [f] => pure (some ("base monitor: " ++ " ".intercalate f))
    | _ => pure (some "wrong number of answers")
  | op :: ops, fields, s, k =>
    match fields with
    | [] => pure (some "missing answer")
    | f :: rest =>
      match op with
      | .st a w e =>
        match s.store a e w with
        | none =>
          -- a byte memory on top refuses non-constants by its documented panic; the history ends
          if f == ["PANIC"] && rest.isEmpty then pure none
          else pure (some s!"op {k}: store of a non-constant to a byte memory answered {" ".intercalate f}")
        | some s' =>
          if f == ["PANIC"] then pure (some s!"op {k} panics")
          else if f != ["-"] then pure (some s!"op {k}: bad store answer")
          else oracleRun ops rest s' (k + 1)
      | .ld a w => do
        if f == ["PANIC"] then return some s!"op {k} panics"
        match ← judgeLoad s k a w f with
        | some r => pure (some r)
        | none => oracleRun ops rest s (k + 1)
      | .ms a w => do
        if f == ["PANIC"] then return some s!"op {k} panics"
        match ← judgeMissing s k a w f with
        | some r => pure (some r)
        | none => oracleRun ops rest s (k + 1)
      | .bl => do
        if f == ["PANIC"] then return some s!"op {k} panics"
        match ← judgeBlocks s k f with
        | some r => pure (some r)
        | none => oracleRun ops rest s (k + 1)

def opsInDomain (ops : List MOp) : Bool := ops.all fun
  | .st a w _ => inDomain a w
  | .ld a w => inDomain a w
  | .ms a w => inDomain a w
  | .bl => true

/-- all blocks and stores of a description are inside the domain -/
def Desc.inDomain : Desc → Bool
  | .B bl => bl.all fun b => b.1 + b.2.length < 2 ^ 64
  | .S sts => sts.all fun s => Overlay.inDomain s.1 s.2.1
  | .O b o => b.inDomain && o.inDomain

def Desc.depth : Desc → Nat
  | .O b o => 1 + max b.depth o.depth
  | _ => 0

def runDesc (d : Desc) (ops : List MOp) (res : List String) (extraTags : List String) : Except String Verdict := do
  let istr := " ".intercalate res
  match d.build with
  | .error msg =>
    -- a panic while building the stack (out-of-domain setup store): correspondence only
    return { corr := corrOf msg istr, oracleNA := true, tags := extraTags ++ ["setup-fail"] }
  | .ok m =>
    let (answers, tags) := modelRun ops m [] []
    let mstr := " | ".intercalate answers
    let dom := opsInDomain ops && d.inDomain
    let tags := extraTags ++ tags.eraseDups ++ (if dom then [] else ["outdomain"])
    if !dom then
      return { corr := corrOf mstr istr, oracleNA := true, tags }
    let orc ← oracleRun ops (splitBars res) d.stack 0
    return { corr := corrOf mstr istr, oracle := orc, tags }

/-- does some block list of the description overlap (then `NewBytes` must fail) -/
def Desc.overlaps : Desc → Bool
  | .B bl => BytesSpec.overlapB bl
  | .S _ => false
  | .O b o => b.overlaps || o.overlaps

def hLayersOf (d : Desc) (ops : List MOp) (res : List String) (extra : List String) : Except String Verdict := do
  let istr := " ".intercalate res
  if d.overlaps then
    let orc := if istr == "err:overlap" then none else some "NewBytes accepted overlapping blocks"
    return { corr := corrOf "err:overlap" istr, oracle := orc, tags := extra ++ ["overlap"] }
  if istr == "err:overlap" then
    return { corr := corrOf "?" istr, oracle := some "NewBytes rejected blocks that share no address",
             tags := extra }
  runDesc d ops res extra

def hOverlay : Handler := fun args res => do
  let (bl, ops) ← runP (do
    let bl ← pList (do let b ← pNat; let h ← pHex; pure (b, h))
    let ops ← pList pMOp
    pure (bl, ops)) args
  hLayersOf (.O (.B bl) (.S [])) ops res [s!"base{min bl.length 3}"]

def hLayers : Handler := fun args res => do
  let (d, ops) ← runP (do let d ← pDesc; let ops ← pList pMOp; pure (d, ops)) args
  let shape := match d with
    | .O (.B _) (.S _) => "bytes-sparse"
    | .O (.S _) (.S _) => "sparse-sparse"
    | .O _ _ => "nested"
    | _ => "single"
  hLayersOf d ops res [shape]

/-! ### `memmap` -/

inductive KOp where
  | st (key : String) (a w : Nat) (e : Expr)
  | ld (key : String) (a w : Nat)
  | ms (key : String) (a w : Nat)
  | bl (key : String)

def pKOp : P KOp := do
  match (← next) with
  | "st" => do let k ← next; let a ← pNat; let w ← pNat; let e ← pExpr; pure (.st k a w e)
  | "ld" => do let k ← next; let a ← pNat; let w ← pNat; pure (.ld k a w)
  | "ms" => do let k ← next; let a ← pNat; let w ← pNat; pure (.ms k a w)
  | "bl" => do let k ← next; pure (.bl k)
  | t => throw s!"bad memmap op {t}"

def memmapModel : List KOp → MemMap → List String → List String → List String × List String
  | [], _, acc, tags => (acc, tags)
  | op :: ops, m, acc, tags =>
    match op with
    | .st k a w e =>
      let tg := if (assocGet k m).isNone then ["new-key"] else ["old-key"]
      match m.store k a e w with
      | .ok m' => memmapModel ops m' (acc ++ ["-"]) (tags ++ tg)
      | .error _ => (acc ++ ["PANIC"], tags ++ ["panic"])
    | .ld k a w =>
      match m.load k a w with
      | .ok r => memmapModel ops m (acc ++ [fmtLoad r])
          (tags ++ [if (assocGet k m).isNone then "ld-nokey" else if r.isSome then "ld-some" else "ld-none"])
      | .error _ => (acc ++ ["PANIC"], tags ++ ["panic"])
    | .ms k a w =>
      match m.missing k a w with
      | .ok r => memmapModel ops m (acc ++ [fmtIntvs r]) (tags ++ [if (assocGet k m).isNone then "ms-nokey" else "ms-key"])
      | .error _ => (acc ++ ["PANIC"], tags ++ ["panic"])
    | .bl k =>
      match m.blocks k with
      | .ok r => memmapModel ops m (acc ++ [fmtIntvs r]) (tags ++ [if (assocGet k m).isNone then "bl-nokey" else "bl-key"])
      | .error _ => (acc ++ ["PANIC"], tags ++ ["panic"])

/-- the oracle of a keyed family of memories: key ↦ stack -/
abbrev OMap := List (String × OStack)

def OMap.get (m : OMap) (k : String) : OStack := (m.lookup k).getD []

def OMap.set (m : OMap) (k : String) (s : OStack) : OMap := (k, s) :: m.filter (fun p => p.1 != k)

/-- a store to a key: an unknown key gets an empty sparse memory first -/
def OMap.store (m : OMap) (k : String) (a : Nat) (e : Expr) (w : Nat) : Option OMap :=
  let s := match m.lookup k with
    | some s => s
    | none => [.sparse []]
  (s.store a e w).map fun s' => m.set k s'

def memmapOracle : List KOp → List (List String) → OMap → Nat → Except String (Option String)
  | [], fields, _, _ => if fields.isEmpty || fields == [[]] then pure none else pure (some "wrong number of answers")
  | op :: ops, fields, m, k =>
    match fields with
    | [] => pure (some "missing answer")
    | f :: rest => do
      if f == ["PANIC"] then return some s!"op {k} panics"
      match op with
      | .st key a w e =>
        match m.store key a e w with
        | none => pure (some s!"op {k}: store refused")
        | some m' =>
          if f != ["-"] then pure (some s!"op {k}: bad store answer") else memmapOracle ops rest m' (k + 1)
      | .ld key a w => do
        match ← judgeLoad (m.get key) k a w f with
        | some r => pure (some r)
        | none => memmapOracle ops rest m (k + 1)
      | .ms key a w => do
        match ← judgeMissing (m.get key) k a w f with
        | some r => pure (some r)
        | none => memmapOracle ops rest m (k + 1)
      | .bl key => do
        match ← judgeBlocks (m.get key) k f with
        | some r => pure (some r)
        | none => memmapOracle ops rest m (k + 1)

def hMemMap : Handler := fun args res => do
  let ops ← runP (pList pKOp) args
  let (answers, tags) := memmapModel ops [] [] []
  let mstr := " | ".intercalate answers
  let istr := " ".intercalate res
  let dom := ops.all fun
    | .st _ a w _ => inDomain a w
    | .ld _ a w => inDomain a w
    | .ms _ a w => inDomain a w
    | .bl _ => true
  let keys := (ops.filterMap fun | .st k _ _ _ => some k | _ => none).eraseDups
  let tags := tags.eraseDups ++ (if keys.length ≥ 2 then ["multi-key"] else []) ++ (if dom then [] else ["outdomain"])
  if !dom then
    return { corr := corrOf mstr istr, oracleNA := true, tags }
  let fields := if res.isEmpty then [] else splitBars res
  let orc ← memmapOracle ops fields [] 0
  return { corr := corrOf mstr istr, oracle := orc, tags }

end Driver.Overlay

namespace Driver
def overlayHandlers : List (String × Handler) :=
  [("overlay", Overlay.hOverlay), ("layers", Overlay.hLayers), ("memmap", Overlay.hMemMap)]
end Driver
