import Driver.Core
import Driver.BasicBlockOps
import Mltwist.Model.Render
import Mltwist.Spec.Render
/-
Handlers for screen rendering (C24), see `cmd/verifharness/ops_render.go` for the line format.

  render lines <CODE> <cursor> <h>  => <st> <nl> <open> <min> <max> L <L> c <c> B <B> I <I> win <first|-> <cnt> <cur|->
  render mem <MEM> <cursor> <h>     => <st> <nl> <open> <min> <max> R <R> c <c|-> win …
  render regs <REGS> <h>            => <st> <nl> <open> <min> <max>
  render prompt <h>                 => <st> <nl> <open> <min> <max>
  render comp emu|uidis|uiemu|uimem|syn …  => … g <k> g1 … gk [ig …] [seen …]
  phicut <n> => <k>      phisweep <lo> <cnt> => k_lo … k_{lo+cnt-1}

The number of rows of the listing is computed by the model of `deps.NewCode` (`L = 2·blocks + instructions`:
a header per block, a row per instruction, an empty row between blocks and at the end).  The number of
rows `R` of the memory view is *taken from the implementation's answer*: how memory blocks become rows
(`memview/line.go`) belongs to property C32, for C24 the view state is `(R, cursor)`.
-/
namespace Driver.Render
open Driver Mltwist Mltwist.Render

/-- the fields common to all results -/
structure Head where
  status : String
  nl : Nat
  op : Bool
  min : Int
  max : Int

def pHead : P Head := do
  let status ← next
  let nl ← pNat
  let o ← pNat
  let min ← pInt
  let max ← pInt
  pure ⟨status, nl, o == 1, min, max⟩

def fmtStatus : Status → String
  | .ok => "ok" | .err => "err" | .panic => "PANIC" | .outOfFuel => "OUTOFFUEL"

def fmtHead (v : View) (r : Res) : String :=
  s!"{fmtStatus r.status} {r.out.nl} {if r.out.op then 1 else 0} {v.minLines} {v.maxLines}"

def fmtOptIdx : Option Nat → String
  | some i => toString i
  | none => "-"

def fmtIntList (tag : String) : Option (List Int) → String
  | none => s!" {tag} -"
  | some xs => xs.foldl (fun acc x => acc ++ s!" {x}") s!" {tag} {xs.length}"

/-- cursor specification of the harness (`suicCursor`) -/
def resolveCursor (spec : String) (size : Nat) : Except String Nat := do
  let c : Int ←
    if spec == "mid" then pure ((size / 2 : Nat) : Int)
    else match spec.toInt? with
      | some v => pure (if v < 0 then (size : Int) + v else v)
      | none => throw s!"bad cursor {spec}"
  let c := if c ≥ size then (size : Int) - 1 else c
  pure (if c < 0 then 0 else c.toNat)

/-! ### arguments -/

/-- CODE: the number of blocks and of instructions of the code model, `none` if `NewCode` fails -/
def pCode : P (Option (Nat × Nat)) := do
  let entry ← pNat
  let raw ← pList pRawIns
  match BasicBlock.newCode entry raw with
  | .ok bs => pure (some (bs.length, (bs.map (·.length)).foldl (· + ·) 0))
  | .error _ => pure none

def listingLen (bi : Nat × Nat) : Nat := 2 * bi.1 + bi.2

/-- MEM: only skipped (see the header) -/
def pMemOp : P Unit := do
  match (← next) with
  | "st" => do let _ ← pNat; let _ ← pNat; let _ ← pExpr; pure ()
  | "ld" | "ms" => do let _ ← pNat; let _ ← pNat; pure ()
  | "bl" => pure ()
  | t => throw s!"bad memory op {t}"

def pMem : P Unit := do
  let t ← next
  if t == "nil" then pure ()
  else match t.toNat? with
    | some n => for _ in [0:n] do pMemOp
    | none => throw s!"bad memory {t}"

def insertReg (r : Reg) : List Reg → List Reg
  | [] => [r]
  | x :: xs => if r.key == x.key then r :: xs else if r.key < x.key then r :: x :: xs else x :: insertReg r xs

/-- REGS: the register file as the list of its entries sorted by key (later stores replace earlier ones) -/
def pRegs : P (List Reg) := do
  let k ← pNat
  let mut regs : List Reg := []
  for _ in [0:k] do
    let key ← next
    let w ← pNat
    let e ← pExpr
    match e with
    | .const _ => regs := insertReg ⟨key, w⟩ regs
    | _ => throw "register value is not a constant"
  pure regs

/-- `emulator.New` stores the instruction pointer (8 bytes) into the register file -/
def withIP (regs : List Reg) : List Reg := insertReg ⟨ipKey, 8⟩ regs

/-! ### oracle -/

def outcomeOf (s : String) : Except String Spec.Render.Outcome :=
  match s with
  | "ok" => pure .ok
  | "err" => pure .err
  | "PANIC" => pure .panic
  | _ => throw s!"bad status {s}"

/-- the property on the implementation's answer -/
def oracleHead (h : Head) (n : Int) : Except String (Option String) := do
  let o ← outcomeOf h.status
  pure (Spec.Render.check h.min h.max n o h.nl h.op)

def headTags (kind : String) (h : Head) (n : Int) : List String :=
  [kind, h.status] ++
  (if n < h.min then ["belowmin"] else if n = h.min then ["atmin"] else ["abovemin"]) ++
  (if h.min = h.max then ["fixed"] else []) ++
  (if h.min = h.max ∧ n = h.min then ["exact"] else []) ++
  (if h.max < 0 then ["unbounded"] else if h.max < h.min then ["invalid"] else []) ++
  (if h.max ≥ 0 ∧ n > h.max then ["abovemax"] else []) ++
  (if h.op then ["open"] else [])

def firstSome (xs : List (Option String)) : Option String :=
  xs.foldl (fun acc x => match acc with | some a => some a | none => x) none

/-! ### listing and memory window fields -/

/-- `win <first|-> <cnt> <cursorrow|->` for a window starting at `begin` with `cnt` numbered rows -/
def fmtWin (begin cnt c : Nat) (hasCursor : Bool) : String :=
  let first := if cnt = 0 then none else some begin
  let cur := if hasCursor && decide (begin ≤ c) && decide (c < begin + cnt) then some c else none
  s!" win {fmtOptIdx first} {cnt} {fmtOptIdx cur}"

def fmtLinesInfo (bi : Nat × Nat) (c : Nat) : String :=
  s!" L {listingLen bi} c {c} B {bi.1} I {bi.2}"

def listingTags (L c n : Nat) : List String :=
  (if L < 5 then ["tiny"] else if L = 5 then ["five"] else []) ++
  (if (c - phiCut n) + n > L then ["clamped"] else ["inside"]) ++
  (if n > L then ["short"] else []) ++
  (if c = 0 then ["cur-first"] else if c + 1 = L then ["cur-last"] else if c + 2 = L then ["cur-last-1"] else ["cur-mid"])

/-- result fields `R <R> c <c|->` of the memory view in the implementation's answer -/
def findAfter (tag : String) : List String → Option String
  | a :: b :: rest => if a == tag then some b else findAfter tag (b :: rest)
  | _ => none

/-! ### handlers -/

def hLines (args res : List String) : Except String Verdict := do
  let (code, cur, n) ← runP (do let c ← pCode; let cur ← next; let n ← pNat; pure (c, cur, n)) args
  let istr := " ".intercalate res
  match code with
  | none => return { corr := corrOf "err:code" istr, oracleNA := true, tags := ["lines", "badcode"] }
  | some bi =>
    let L := listingLen bi
    let c ← resolveCursor cur L
    let v := linesView L c
    let r := v.print n
    let m := fmtHead v r ++ fmtLinesInfo bi c ++ fmtWin (linesBegin L c n) r.out.nl c true
    if res == ["PANIC"] || res == ["CRASH"] then
      return { corr := corrOf m istr, oracle := some "panic", tags := ["lines"] }
    let h ← runP pHead (res.take 5)
    let orc ← oracleHead h n
    return { corr := corrOf m istr, oracle := orc, oracleNA := decide ((n : Int) < h.min), tags := headTags "lines" h n ++ listingTags L c n }

def hMem (args res : List String) : Except String Verdict := do
  let (cur, n) ← runP (do pMem; let cur ← next; let n ← pNat; pure (cur, n)) args
  let istr := " ".intercalate res
  if res == ["PANIC"] || res == ["CRASH"] then
    return { corr := some "?", oracle := some "panic", tags := ["mem"] }
  let h ← runP pHead (res.take 5)
  let some rs := findAfter "R" res | throw "no R field"
  let some R := rs.toNat? | throw "bad R field"
  let c ← resolveCursor cur R
  let v := memView R c
  let r := v.print n
  let cnt := if R = 0 then 0 else r.out.nl
  let m := fmtHead v r ++ s!" R {R} c {if R = 0 then "-" else toString c}" ++ fmtWin (memBegin c n) cnt c (R != 0)
  let orc ← oracleHead h n
  let tags := headTags "mem" h n ++ (if R = 0 then ["nocursor"] else
    (if (c - phiCut n) + n > R then ["clamped"] else ["inside"]) ++
    (if c = 0 then ["cur-first"] else if c + 1 = R then ["cur-last"] else ["cur-mid"]))
  return { corr := corrOf m istr, oracle := orc, oracleNA := decide ((n : Int) < h.min), tags }

def regTags (regs : List Reg) : List String :=
  let ip := regs.any (·.key == ipKey)
  let nonIP := regs.length - (if ip then 1 else 0)
  (if ip then ["ip"] else ["noip"]) ++
  (if ip && nonIP % 2 == 0 then ["ip-even"] else []) ++
  (if regs.isEmpty then ["noregs"] else []) ++
  (if regs.any (fun r => regText r ≥ 39) then ["wide"] else [])

def hRegs (args res : List String) : Except String Verdict := do
  let (regs, n) ← runP (do let r ← pRegs; let n ← pNat; pure (r, n)) args
  let istr := " ".intercalate res
  let v := regView regs
  let r := v.print n
  let m := fmtHead v r
  if res == ["PANIC"] || res == ["CRASH"] then
    return { corr := corrOf m istr, oracle := some "panic", tags := ["regs"] }
  let h ← runP pHead res
  let orc ← oracleHead h n
  return { corr := corrOf m istr, oracle := orc, oracleNA := decide ((n : Int) < h.min), tags := headTags "regs" h n ++ regTags regs }

def hPrompt (args res : List String) : Except String Verdict := do
  let n ← runP pNat args
  let istr := " ".intercalate res
  let v := promptView
  let m := fmtHead v (v.print n)
  if res == ["PANIC"] || res == ["CRASH"] then
    return { corr := corrOf m istr, oracle := some "panic", tags := ["prompt"] }
  let h ← runP pHead res
  let orc ← oracleHead h n
  return { corr := corrOf m istr, oracle := orc, oracleNA := decide ((n : Int) < h.min), tags := headTags "prompt" h n }

/-- bounds `(min, max)` the property expects of the real views (for the oracle on the grants) -/
def specListing (L : Nat) : Int × Int := (5, L)
def specRegs (regs : List Reg) : Int × Int :=
  let nonIP := (regs.filter fun r => !(r.key == ipKey)).length
  (Spec.Render.regRows nonIP, Spec.Render.regRows nonIP)
def specComposite (bs : List (Int × Int)) : Int × Int :=
  let k : Int := bs.length
  (Spec.Render.sumI (bs.map (·.1)) + (k - 1),
   if bs.any (fun b => decide (b.2 < 0)) then -1 else Spec.Render.sumI (bs.map (·.2)) + (k - 1))

def pGrants (tag : String) (res : List String) : Except String (Option (List Int)) := do
  let rec go : List String → Except String (Option (List Int))
    | a :: rest =>
      if a == tag then
        match rest with
        | "-" :: _ => pure none
        | k :: more =>
          match k.toNat? with
          | some k => do
            let xs ← (more.take k).mapM fun t => match t.toInt? with
              | some v => pure v
              | none => throw s!"bad grant {t}"
            if xs.length ≠ k then throw "short grant list"
            pure (some xs)
          | none => throw s!"bad grant count {k}"
        | [] => throw "no grant count"
      else go rest
    | [] => throw s!"no {tag} field"
  go res

def grantOracle (bounds : List (Int × Int)) (n : Int) (gs : Option (List Int)) : Option String :=
  match gs with
  | none => none
  | some gs => Spec.Render.checkGrants bounds n gs

def compTags (els : List View) : List String :=
  let flex := (els.filter fun e => decide (e.maxLines < 0) || decide (e.maxLines > e.minLines ∧ e.minLines ≥ 0)).length
  [s!"k{if els.length ≥ 4 then "4+" else toString els.length}"] ++
  (if flex ≥ 2 then ["flex2+"] else if flex = 1 then ["flex1"] else ["flex0"]) ++
  (if els.any (fun e => decide (e.minLines < 0)) then ["negmin"] else []) ++
  (if els.any (fun e => decide (e.maxLines ≥ 0 ∧ e.maxLines < e.minLines)) then ["invalid-child"] else []) ++
  (if els.any (fun e => decide (e.maxLines < 0)) then ["unbounded-child"] else [])

/-- more than one element can take rows above its minimum and there are rows to hand out: the shape
in which the pinned `distributeLines` (F26) over-commits -/
def overTag (els : List View) (n : Int) : List String :=
  match distributeLines false els (n - compMinLines els) with
  | some gs => if n ≥ compMinLines els ∧ sumInts gs + elementSpaces els > n then ["f26-shape"] else []
  | none => []

def hComp (args res : List String) : Except String Verdict := do
  let istr := " ".intercalate res
  match args with
  | "syn" :: rest =>
    let (bounds, n) ← runP (do
      let bs ← pList (do let a ← pInt; let b ← pInt; pure (a, b))
      let n ← pInt
      pure (bs, n)) rest
    let els : List View := bounds.map fun b => ⟨b.1, b.2, fun g => ⟨.ok, ⟨g, false⟩⟩⟩
    let v := composite els
    let r := compPrint false els n
    let gs := if n - compMinLines els < 0 then none else distributeLines false els (n - compMinLines els)
    let seen : List Int := match r.status, gs with
      | .ok, some gs => gs
      | _, _ => []
    let m := fmtHead v r ++ fmtIntList "g" gs ++ fmtIntList "seen" (some seen)
    if res == ["PANIC"] || res == ["CRASH"] then
      return { corr := corrOf m istr, oracle := some "panic", tags := ["syn"] }
    let h ← runP pHead (res.take 5)
    let igs ← pGrants "g" res
    -- The property covers the composites the tool can build: two elements with non-negative minimums, the
    -- second of fixed height (register table, prompt).  Every other shape is compared with the model only:
    -- with two growable elements distributeLines over-grants (observation O-F26), and Composite.MinLines adds
    -- negative minimums as they are while mins() clamps them to 0.
    let covered := match bounds with
      | [a, b] => decide (0 ≤ a.1) && decide (0 ≤ b.1) && decide (b.2 = b.1)
      | _ => false
    let tags := headTags "syn" h n ++ compTags els ++ overTag els n ++
      [if covered then "tool-shape" else "na-shape"]
    if !covered then
      return { corr := corrOf m istr, oracleNA := true, tags }
    let orc := firstSome [← oracleHead h n, grantOracle bounds n igs]
    return { corr := corrOf m istr, oracle := orc, oracleNA := decide (n < h.min), tags }
  | kind :: rest =>
    if kind == "emu" || kind == "uiemu" || kind == "uidis" then
      let (code, regs, cur, n) ← runP (do
        let c ← pCode
        let regs ← if kind == "uidis" then pure [] else pRegs
        let cur ← next
        let n ← pInt
        pure (c, regs, cur, n)) rest
      match code with
      | none => return { corr := corrOf "err:code" istr, oracleNA := true, tags := [kind, "badcode"] }
      | some bi =>
        let L := listingLen bi
        let c ← resolveCursor cur L
        let regs := withIP regs
        let lv := linesView L c
        let inner : List View := [lv, regView regs]
        let (els, innerEls) : List View × Option (List View) :=
          if kind == "emu" then (inner, none)
          else if kind == "uidis" then ([lv, promptView], none)
          else ([composite inner, promptView], some inner)
        let v := composite els
        let r := compPrint false els n
        let gs := if n - compMinLines els < 0 then none else distributeLines false els (n - compMinLines els)
        -- height of the listing
        let lg : Option Int := match gs, innerEls with
          | some (g :: _), none => some g
          | some (g :: _), some ie =>
            if g - compMinLines ie < 0 then none
            else (distributeLines false ie (g - compMinLines ie)).bind (·.head?)
          | _, _ => none
        let igs : Option (List Int) := match gs, innerEls with
          | some (g :: _), some ie =>
            if g - compMinLines ie < 0 then none else distributeLines false ie (g - compMinLines ie)
          | _, _ => none
        let win := match lg with
          | some g =>
            let lr := lv.print g.toNat
            fmtWin (linesBegin L c g.toNat) lr.out.nl c true
          | none => fmtWin 0 0 c false
        let m := fmtHead v r ++ fmtLinesInfo bi c ++ win ++ fmtIntList "g" gs ++
          (if kind == "uiemu" then fmtIntList "ig" igs else "")
        if res == ["PANIC"] || res == ["CRASH"] then
          return { corr := corrOf m istr, oracle := some "panic", tags := [kind] }
        if res == ["err:new"] then
          return { corr := corrOf m istr, oracleNA := true, tags := [kind, "errnew"] }
        let h ← runP pHead (res.take 5)
        let iGs ← pGrants "g" res
        let iIgs ← if kind == "uiemu" then pGrants "ig" res else pure none
        let bL := specListing L
        let bR := specRegs regs
        let bInner := specComposite [bL, bR]
        let bounds := if kind == "emu" then [bL, bR] else if kind == "uidis" then [bL, (2, 2)] else [bInner, (2, 2)]
        let innerOrc := match iGs, kind == "uiemu" with
          | some (g :: _), true => grantOracle [bL, bR] g iIgs
          | _, _ => none
        let orc := firstSome [← oracleHead h n, grantOracle bounds n iGs, innerOrc]
        let tags := headTags kind h n ++ listingTags L c (match lg with | some g => g.toNat | none => 0) ++
          (if kind == "uidis" then [] else regTags regs) ++ compTags els
        return { corr := corrOf m istr, oracle := orc, oracleNA := decide (n < h.min), tags }
    else if kind == "uimem" then
      let (cur, n) ← runP (do pMem; let cur ← next; let n ← pInt; pure (cur, n)) rest
      if res == ["PANIC"] || res == ["CRASH"] then
        return { corr := some "?", oracle := some "panic", tags := [kind] }
      let h ← runP pHead (res.take 5)
      let some rs := findAfter "R" res | throw "no R field"
      let some R := rs.toNat? | throw "bad R field"
      let c ← resolveCursor cur R
      let mv := memView R c
      let els := [mv, promptView]
      let v := composite els
      let r := compPrint false els n
      let gs := if n - compMinLines els < 0 then none else distributeLines false els (n - compMinLines els)
      let win := match gs with
        | some (g :: _) =>
          let lr := mv.print g.toNat
          fmtWin (memBegin c g.toNat) (if R = 0 then 0 else lr.out.nl) c (R != 0)
        | _ => fmtWin 0 0 c false
      let m := fmtHead v r ++ s!" R {R} c {if R = 0 then "-" else toString c}" ++ win ++ fmtIntList "g" gs
      let iGs ← pGrants "g" res
      let orc := firstSome [← oracleHead h n, grantOracle [(5, -1), (2, 2)] n iGs]
      let tags := headTags kind h n ++ (if R = 0 then ["nocursor"] else []) ++ compTags els
      return { corr := corrOf m istr, oracle := orc, oracleNA := decide (n < h.min), tags }
    else throw s!"bad composite kind {kind}"
  | [] => throw "missing composite kind"

def hRender : Handler := fun args res =>
  match args with
  | "lines" :: rest => hLines rest res
  | "mem" :: rest => hMem rest res
  | "regs" :: rest => hRegs rest res
  | "prompt" :: rest => hPrompt rest res
  | "comp" :: rest => hComp rest res
  | _ => throw "bad render kind"

/-- `phicut <n> => k`: the float computation of the Go code against the integer definition -/
def hPhiCut : Handler := fun args res => do
  let n ← runP pNat args
  let m := toString (phiCut n)
  let k ← runP pNat res
  let orc := if Spec.Render.isPhiCut n k then none else some s!"{k} is not the integer part of {n}/phi^2"
  return { corr := corrOf m (" ".intercalate res), oracle := orc,
           tags := ["phicut", if n < 1000 then "small" else if n ≤ 100000 then "medium" else "large"] }

def hPhiSweep : Handler := fun args res => do
  let (lo, cnt) ← runP (do let a ← pNat; let b ← pNat; pure (a, b)) args
  let ks ← res.mapM fun t => match t.toNat? with
    | some k => pure k
    | none => throw s!"bad value {t}"
  if ks.length ≠ cnt then throw "wrong number of values"
  let ns := (List.range cnt).map (· + lo)
  let bad := (ns.zip ks).find? fun p => !Spec.Render.isPhiCut p.1 p.2
  let orc := match bad with
    | some p => some s!"{p.2} is not the integer part of {p.1}/phi^2"
    | none => none
  -- model: phiCut is monotone with steps of at most 1, follow it incrementally from the first value
  let mbad := (ns.zip ks).find? fun p => !phiOK p.1 p.2 || phiOK p.1 (p.2 + 1)
  let corr := match mbad with
    | some p => some s!"model differs at {p.1}"
    | none => none
  return { corr, oracle := orc, tags := ["phisweep"] }

end Driver.Render

namespace Driver
def renderHandlers : List (String × Handler) := [
  ("render", Render.hRender),
  ("phicut", Render.hPhiCut),
  ("phisweep", Render.hPhiSweep)]
end Driver
