import Driver.Core
import Mltwist.Spec.IntervalSet
/-
Handlers for the interval algebra (C17).
-/
namespace Driver
open Mltwist Mltwist.Interval

def pIntvs : P (List Intv) := pList (do let b ← pInt; let e ← pInt; pure (b, e))

def fmtIntvs (m : List Intv) : String :=
  m.foldl (fun acc i => acc ++ s!" {i.1} {i.2}") (toString m.length)

/-- sample points: all interval ends ±1 -/
def samplePoints (ls : List (List Intv)) : List Int :=
  (ls.flatten.flatMap fun i => [i.1 - 1, i.1, i.1 + 1, i.2 - 1, i.2, i.2 + 1]).eraseDups

def intervalOp (name : String) (model : List Intv → List Intv → List Intv)
    (spec : Bool → Bool → Bool) : Handler := fun args res => do
  let (l1, l2) ← runP (do let a ← pIntvs; let b ← pIntvs; pure (a, b)) args
  let a := newMap l1
  let b := newMap l2
  let m := model a b
  let istr := " ".intercalate res
  let tags := [name, if a.length ≥ 2 && b.length ≥ 2 then "multi" else "small",
    if b.isEmpty || a.isEmpty then "empty" else "nonempty"]
  if res == ["PANIC"] then
    return { corr := corrOf (fmtIntvs m) "PANIC", oracle := some "panic", tags }
  if res.any (·.startsWith "!!") then
    return { corr := corrOf (fmtIntvs m) istr,
             oracle := some s!"the operation modified an operand or a result it had returned before ({res.getLast?.getD ""})", tags }
  let im ← runP pIntvs res
  let pts := samplePoints [l1, l2, im]
  let bad := pts.find? fun x => memB x im != spec (memB x l1) (memB x l2)
  let orc := firstFail [
    (normalB im, "result is not sorted/disjoint/non-adjacent/non-empty"),
    (bad.isNone, s!"membership of {bad.getD 0} is wrong")]
  return { corr := corrOf (fmtIntvs m) istr, oracle := orc, tags }

def hINew : Handler := fun args res => do
  let l ← runP pIntvs args
  let m := newMap l
  let istr := " ".intercalate res
  let tags := ["new", if l.length ≥ 3 then "multi" else "small"]
  if res == ["PANIC"] then
    return { corr := corrOf (fmtIntvs m) "PANIC", oracle := some "panic", tags }
  let im ← runP pIntvs res
  let pts := samplePoints [l, im]
  let bad := pts.find? fun x => memB x im != memB x l
  let orc := firstFail [
    (normalB im, "result is not sorted/disjoint/non-adjacent/non-empty"),
    (bad.isNone, s!"membership of {bad.getD 0} is wrong")]
  return { corr := corrOf (fmtIntvs m) istr, oracle := orc, tags }

def intervalHandlers : List (String × Handler) := [
  ("inew", hINew),
  ("iunion", intervalOp "union" mapUnion (fun a b => a || b)),
  ("icompl", intervalOp "compl" mapComplement (fun a b => a && !b)),
  ("iinter", intervalOp "inter" mapIntersect (fun a b => a && b)),
  -- the same operations instantiated at uint64 (model.Addr) in the harness; the model is over `Int`
  ("inewu", hINew),
  ("iunionu", intervalOp "union" mapUnion (fun a b => a || b)),
  ("icomplu", intervalOp "compl" mapComplement (fun a b => a && !b)),
  ("iinteru", intervalOp "inter" mapIntersect (fun a b => a && b))]

end Driver
