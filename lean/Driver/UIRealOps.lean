import Driver.Core
import Driver.StateOps
import Mltwist.Model.Compose
import Mltwist.Model.Elf
import Mltwist.Spec.UI
import Mltwist.Spec.Listing
/-
Handler for END-TO-END console sessions, op `uireal`: the COMPOSED model (`Model/Compose.lean`: `realSession`
and the step function underneath it — the console UI of `Model/UI.lean` over the real code model `Model/Deps.lean`
through `opsAt`/`listingOf`, the real emulator `Model/Emulator.lean` through `stepTree`/`emuOps`, the layered
memories through `ofMem`, the registers through `regsOf`) is executed on the same program and the same console
input as the Go program, and everything the user can observe is compared command by command.

  uireal <entry> <ncode> (<begin> <hex>)… <ndata> (<begin> <hex>)… <n> <k> LINE…
     => err:<stage> | S ("|" STEP)*
  S    := <depth> <mode name hex>… <kind> <cursor> <print status>:<newlines> BODY
  BODY := D T K                                                                          kind dis
        | E <ip|-> R <nregs> (<key> EXPR)… M <nmems> (<key hex> <nblocks> (<begin> <end>)…)…
            W <dump of the sparse layer> T K                                             kind emu
        | V <rows> <hex of the text Print(n) wrote>                                      kind mem
  D    := D= | D <entry> <nblocks> (<Idx> <Begin> <End> <nins>
               (<Idx> <Begin> <text hex> <bytes hex> <LowerBound> <UpperBound>)…)…
  T    := T= | T <nlines> <text hex>…        K := K <nlines> <mark or ->…
  STEP := <status> <consumed> P <nprompts> (r <key hex> <width> | m <key hex> <addr> <width>)…
          X <error class or -> (K- | K <n> <key hex>…) [S]

THE MODEL RUN.  Start-up as `Lemmas/ComposeStartup.lean` (`Started`) describes it: `Elf.newMemory code`,
`Parse.parseRv64`, `Deps.newCode entry (rawOf is)`, `BytesMem.newBytes (code ++ data)`, `UI.init (listingOf info d0)`
with `info = infoOfParsed is`.  Then, per call of `processCommand`, exactly the body of `realRunWith`:
`uiStep (paramsAt info bs rx r.deps) r.ui inp` and `uiNextDeps r.deps r.ui inp`.  At the end the outcome of the
loop is compared with `realSession info bs rx d0 input` itself.

`rx` (the regular expression library is a parameter of the model): the exact matcher `rxOf` for the patterns
`^? (literal | .)* $?` with literal ∈ [A-Za-z0-9 ,:_-], and "does not compile" for the patterns of `knownBad`
(checked against `regexp.CompilePOSIX` when the list was written).  A script with another `find` pattern is
refused (`ERR`): the generator produces no other.

UNTRUSTED GLUE (not part of the model, cross-checked against it where possible):
* the value prompts (`stepPrompts`): the replay of `stepTree` with the requests kept (the interaction tree of
  `Model/UI.lean` carries only the width of a prompt); the widths along the path of the REAL tree are compared
  with the glue's (`treeWidths`);
* the class of an error message (`analyse`): the decisions of `parseCommandWith`, `actEmulate`, the memory view
  commands re-read off the model's own functions; for the disassembler commands the class is the `ErrClass`
  of `Listing.step`, for `step` it is the outcome of `Emulator.step` (`err` / `accessErr a w`).

C: everything above, per call.  O (independent of the model): `Spec.UI.checkSession` (no panic, every line
answered, mode stack as the command words dictate, …; an endless value prompt at the very end of the input is
the known behaviour of `readValueNoErr` and accepted), the mode stack is `[app]`, `[app, emulate]` or
`[app, emulate, memview(…)]`, the listing of the disassembler mode and of the emulator mode is the fresh
rendering (`Listing.Spec.rows`) of the code reported last.
-/
namespace Driver.UIReal
open Driver Mltwist Mltwist.UI Mltwist.Lemmas.Compose Mltwist.Props.Compose

/-! ### the line -/

structure Line where
  entry : Nat
  code : List (Nat × List UInt8)
  data : List (Nat × List UInt8)
  height : Nat
  lines : List Str

def scanLine (s : Str) : Str := if s.getLast? == some 0x0d then s.dropLast else s

def pScript : P Str := do
  let t ← next
  if t == "-" then pure []
  else if t.startsWith "x:" then
    match parseHex (t.drop 2).toString with
    | some bs => pure bs
    | none => throw s!"bad line {t}"
  else throw s!"bad line {t}"

def pBlocks : P (List (Nat × List UInt8)) := pList (do let b ← pNat; let h ← pHex; pure (b, h))

def pLine : P Line := do
  let entry ← pNat
  let code ← pBlocks
  let data ← pBlocks
  let height ← pNat
  let lines ← pList pScript
  pure { entry, code, data, height, lines := lines.map scanLine }

/-! ### the regular expressions the driver understands exactly -/

inductive Atom where
  | any
  | lit (c : Char)

structure Pat where
  left : Bool
  right : Bool
  atoms : List Atom

def litByte (c : UInt8) : Bool :=
  (0x30 ≤ c && c ≤ 0x39) || (0x41 ≤ c && c ≤ 0x5a) || (0x61 ≤ c && c ≤ 0x7a) ||
    c == 0x20 || c == 0x2c || c == 0x3a || c == 0x2d || c == 0x5f

def parseAtoms : Str → Option (List Atom)
  | [] => some []
  | c :: r =>
    if c == 0x2e then (parseAtoms r).map (Atom.any :: ·)
    else if litByte c then (parseAtoms r).map (Atom.lit (Char.ofNat c.toNat) :: ·)
    else none

def parsePat (s : Str) : Option Pat :=
  let (left, s1) := match s with
    | 0x5e :: r => (true, r)
    | _ => (false, s)
  let (right, s2) := if s1.getLast? == some 0x24 then (true, s1.dropLast) else (false, s1)
  (parseAtoms s2).map fun atoms => ⟨left, right, atoms⟩

/-- patterns `regexp.CompilePOSIX` rejects -/
def knownBad : List Str := ["(", ")", "[", "*", "+", "?", "a**", "\\", "x{2", "a(b", "[a-", "x{2,1}"].map UI.b

def atomOK : Atom → Char → Bool
  | .any, _ => true
  | .lit c, d => c == d

/-- the atoms match a prefix of the text (`whole`: all of it) -/
def matchHere (whole : Bool) : List Atom → List Char → Bool
  | [], cs => !whole || cs.isEmpty
  | _ :: _, [] => false
  | a :: as, c :: cs => atomOK a c && matchHere whole as cs

def matchPat (p : Pat) (t : String) : Bool :=
  let cs := t.toList
  if p.left then matchHere p.right p.atoms cs
  else (List.range (cs.length + 1)).any fun i => matchHere p.right p.atoms (cs.drop i)

def rxOf (s : Str) : Option (String → Bool) :=
  if knownBad.contains s then none
  else match parsePat s with
    | some p => some (matchPat p)
    | none => some fun _ => false

/-- a `find` line whose pattern `rxOf` does not understand -/
def unsupported (line : Str) : Bool :=
  match dropEmptyStrs (split line) with
  | w :: r :: rest =>
    if w == UI.b "find" || w == UI.b "f" || w == UI.b "/" then
      let pat := joinSp (r :: rest)
      !knownBad.contains pat && (parsePat pat).isNone
    else false
  | _ => false

/-! ### start-up -/

structure Setup where
  info : Info
  bs : List BytesMem.Block
  d0 : Deps.Code
  ui0 : UI ESt

def setup (l : Line) : Except String Setup := do
  let cm ← match Elf.newMemory l.code with
    | .ok cm => pure cm
    | .error _ => throw "err:codemem"
  let is ← match Parse.parseRv64 cm with
    | .ok is => pure is
    | .error (.parse _ _) => throw "err:parse"
    | .error (.invalid _) => throw "err:parse"
    | .error _ => throw "PANIC"
  let d0 ← match Deps.newCode l.entry (rawOf is) with
    | .ok c => pure c
    | .error .panic => throw "PANIC"
    | .error _ => throw "err:newcode"
  let bs ← match BytesMem.newBytes (l.code ++ l.data) with
    | .ok bs => pure bs
    | .error _ => throw "err:bytes"
  let info := infoOfParsed is
  match (UI.init (listingOf info d0) : Option (UI ESt)) with
  | some ui0 => pure { info, bs, d0, ui0 }
  | none => throw "err:uinew"

/-! ### printing the model state like the harness does -/

def hexOfString (s : String) : String := fmtHex (s.toList.map fun c => UInt8.ofNat c.toNat)

def fmtCode (c : Listing.Code) : String :=
  c.blocks.foldl (fun acc b =>
    b.ins.foldl (fun acc i =>
      acc ++ s!" {i.idx} {i.addr} {fmtHex i.text.toUTF8.toList} {fmtHex i.bytes} {i.lower} {i.upper}")
      (acc ++ s!" {b.idx} {b.begin} {b.stop} {b.ins.length}"))
    s!"D {c.entry} {c.blocks.length}"

def fmtTexts (l : Listing.Lines) : String :=
  l.lines.foldl (fun acc x => acc ++ " " ++ fmtHex x.value.toUTF8.toList) s!"T {l.lines.length}"

def fmtMarks (l : Listing.Lines) : String :=
  l.lines.foldl (fun acc x => acc ++ " " ++ (if x.mark.isEmpty then "-" else x.mark)) s!"K {l.lines.length}"

def fmtRender (r : Render.Res) : String :=
  match r.status with
  | .ok => s!"ok:{r.out.nl}"
  | .err => s!"err:{r.out.nl}"
  | .panic => s!"PANIC:{r.out.nl}"
  | .outOfFuel => s!"FUEL:{r.out.nl}"

def sparseLayer (s : State.State) : Option Overlay.Mem :=
  match Overlay.assocGet Riscv.memoryKey s.mems with
  | some (.overlay _ o) => some o
  | _ => none

def fmtEmu (e : ESt) : String :=
  let ip := match Emulator.mustIP e.st with
    | .ok a => toString a
    | .error _ => "-"
  let mems := (Driver.State.sortKeys e.st.mems).foldl (fun acc p =>
    match p.2.blocks with
    | .ok bl => bl.foldl (fun acc i => acc ++ s!" {i.1} {i.2}") (acc ++ s!" {hexOfString p.1} {bl.length}")
    | .error _ => acc ++ s!" {hexOfString p.1} PANIC") s!"M {e.st.mems.length}"
  let w := match sparseLayer e.st with
    | some o => (Driver.State.dumpMem o).getD "PANIC"
    | none => "PANIC"
  s!"E {ip} {Driver.State.dumpRegs e.st.regs} {mems} W {w}"

/-- the `D=`/`T=` shorthands: the dumps printed last -/
structure Last where
  code : String := ""
  texts : String := ""

def shortListing (last : Last) (l : Listing.Lines) : String × Last :=
  let t := fmtTexts l
  ((if t == last.texts then "T=" else t) ++ " " ++ fmtMarks l, { last with texts := t })

def fmtState (eops : EmuOps ESt) (ui : UI ESt) (n : Nat) (last : Last) : String × Last :=
  let names := ui.stack.reverse.map (·.name)
  let head := s!"{names.length} " ++ " ".intercalate (names.map fmtHex)
  match ui.stack with
  | [] => (head ++ " none", last)
  | top :: _ =>
    let pr := fmtRender (renderTop eops ui n)
    match top.mode with
    | .dis st =>
      let d := fmtCode st.code
      let same := d == last.code
      let (ls, last) := shortListing { last with code := d } st.lines
      (head ++ s!" dis {st.cursor.value} {pr} " ++ (if same then "D=" else d) ++ " " ++ ls, last)
    | .emu e =>
      let (ls, last) := shortListing last e.view.lines
      (head ++ s!" emu {e.view.cursor.value} {pr} {fmtEmu e.emu} " ++ ls, last)
    | .mem m v =>
      let out := match MemView.print m v n with
        | some bs => fmtHex bs
        | none => "PANIC"
      (head ++ s!" mem {v.cursor} {pr} V {v.lines.length} {out}", last)

/-! ### glue: the value prompts and the class of the error message -/

def fmtReq : Emulator.Req → String
  | .reg k w => s!"r {hexOfString k} {w % 256}"
  | .mem k a w => s!"m {hexOfString k} {a} {w % 256}"

/-- `readValueNoErr` with a counter: how often the prompt is printed; `none` = the input ends (`hang`) or a panic -/
partial def readCount (w : Nat) (inp : Input) (cnt : Nat) : Nat × Option (Str × Input) :=
  match inp with
  | [] => (cnt + 1, none)
  | [line] =>
    match NumParse.readValue w line with
    | .ok c => (cnt + 1, some (c, []))
    | _ => (cnt + 1, none)
  | line :: ack :: rest =>
    match NumParse.readValue w line with
    | .ok c => (cnt + 1, some (c, ack :: rest))
    | .err => readCount w rest (cnt + 1)
    | .panic => (cnt + 1, none)

structure StepGlue where
  prompts : Array String := #[]
  widths : Array Nat := #[]
  /-- the outcome of the last replay -/
  cls : Option String := none
  retry : Bool := false

/-- the replay of `stepTree` with the requests kept -/
partial def stepPrompts (e : ESt) (ans : Answers) (inp : Input) (fuel : Nat) (g : StepGlue) : StepGlue :=
  if fuel == 0 then g
  else
    let next (log : List Emulator.Req) (cls : Option String) : StepGlue :=
      match firstOpen ans log with
      | none => { g with cls }
      | some r =>
        let w := reqWidth r % 256
        let (cnt, res) := readCount w inp 0
        let g := { g with prompts := g.prompts ++ (List.replicate cnt (fmtReq r)).toArray, widths := g.widths.push w,
                          retry := g.retry || cnt > 1 }
        match res with
        | none => g
        | some (c, rest) => stepPrompts e (ans ++ [(r, c)]) rest (fuel - 1) g
    match Emulator.step (provOf ans) e.code e.st with
    | .ok _ _ log => next log none
    | .accessErr _ log a w => next log (some s!"access:{a}:{w}")
    | .err => { g with cls := some "stepnoins" }
    | .panic _ => { g with cls := some "PANIC" }

/-- the widths asked along the path of the real interaction tree -/
partial def treeWidths (t : StepTree ESt) (inp : Input) (acc : Array Nat) : Array Nat :=
  match t with
  | .ask w k =>
    match readValueNoErr w inp with
    | .value c rest => treeWidths (k c) rest (acc.push w)
    | _ => acc.push w
  | _ => acc

def errClassName : Listing.ErrClass → String
  | .parse => "parse"
  | .move .emptyFrom => "emptyfrom" | .move .emptyTo => "emptyto" | .move .blockIns => "blockins"
  | .move .blockMove => "blockmove" | .move .amongBlocks => "amongblocks" | .move .insMove => "insmove"
  | .noBlock => "noblock" | .notIns => "notins" | .regex => "regex" | .tooBig => "toobig"
  | .negative => "negative" | .tooHigh => "toohigh" | .noBlockAddr => "noblockaddr" | .noInsAddr => "noinsaddr"

structure Analysis where
  act : Option Act := none
  prompts : Array String := #[]
  cls : Option String := none
  /-- the keys printed by `memories` -/
  mems : Option (List String) := none
  glueDiff : Option String := none
  retry : Bool := false

def disClass (r : Option (Listing.Status × Listing.St)) : Option String :=
  match r with
  | some (.err e, _) => some (errClassName e)
  | _ => none

def firstBadArg : List ArgKind → List Str → Nat → Option Nat
  | [], _, _ => none
  | _ :: _, [], _ => none
  | k :: ks, s :: ss, i =>
    match parseArg k s with
    | .ok _ => firstBadArg ks ss (i + 1)
    | _ => some i

def memClass (v : MemView.View) (x : Int) : Option String :=
  if x < 0 then some "negative" else if x ≥ (v.lines.length : Int) then some "toohigh" else none

def actAnalysis (p : Params ESt) (top : NamedMode ESt) (below : List (NamedMode ESt)) (act : Act)
    (args : List ArgVal) (inp : Input) : Analysis :=
  let a : Analysis := { act := some act }
  match act, top.mode, args with
  | .dDown, .dis st, [.num n] => { a with cls := disClass (Listing.step p.cops st (.down n)) }
  | .dUp, .dis st, [.num n] => { a with cls := disClass (Listing.step p.cops st (.up n)) }
  | .dMove, .dis st, [.num f, .num t] => { a with cls := disClass (Listing.step p.cops st (.move f t)) }
  | .dBounds, .dis st, [.num l] => { a with cls := disClass (Listing.step p.cops st (.bounds l)) }
  | .dGoto, .dis st, [.num n] => { a with cls := disClass (Listing.step p.cops st (.goto n)) }
  | .dEntry, .dis st, _ => { a with cls := disClass (Listing.step p.cops st .entrypoint) }
  | .dFind, .dis st, [.str r] =>
    { a with cls := disClass (Listing.step p.cops st (.find ((p.rx r).map fun f => st.lines.lines.map fun l => f l.value))) }
  | .dFind, .dis st, [.str r, .str o] =>
    { a with cls := disClass (Listing.step p.cops st
        (.find ((p.rx (r ++ 0x20 :: o)).map fun f => st.lines.lines.map fun l => f l.value))) }
  | .dEmulate, .dis st, _ =>
    let l := st.cursor.value
    match st.lines.lines[l]?, st.lines.block st.code l with
    | some line, some (some block) =>
      match line.instr with
      | none => { a with cls := some "emunotins" }
      | some insIdx =>
        match block.ins[insIdx]? with
        | none => a
        | some ins =>
          match newEmu p.eops st.code ins.addr with
          | .err => { a with cls := some "emucreate" }
          | .ok e => if (addMode ⟨top :: below⟩ (UI.b "emulate") (.emu e)).isNone then { a with cls := some "addmode" } else a
          | .panic => a
    | some _, some none => { a with cls := some "emunoblock" }
    | _, _ => a
  | .eStep, .emu e, _ =>
    let g := stepPrompts e.emu [] inp stepFuel {}
    let tw := treeWidths (p.eops.step e.emu) inp #[]
    let glueDiff := if tw == g.widths then none else some s!"prompt widths: tree {tw} glue {g.widths}"
    let cls := match g.cls with
      | some c => some c
      | none =>
        -- the step ended well: `refreshCursor` on the state the REAL tree ends in
        match runTree (p.eops.step e.emu) inp with
        | .done s _ => (match refreshCursor p.eops e.view s with | .err => some "refresh" | _ => none)
        | _ => none
    { a with prompts := g.prompts, cls, glueDiff, retry := g.retry }
  | .eRegmod, .emu e, [.str key] =>
    match p.eops.regWidth e.emu key with
    | none => { a with cls := some "regunset" }
    | some w =>
      let (cnt, _) := readCount w inp 0
      { a with prompts := (List.replicate cnt s!"r {fmtHex key} {w}").toArray, retry := cnt > 1 }
  | .eMemories, .emu e, _ =>
    { a with mems := some ((Driver.State.sortKeys e.emu.st.mems).map fun p => hexOfString p.1) }
  | .mDown, .mem _ v, [.num n] =>
    { a with cls := if (MemView.cmdDown v n).isNone then memClass v (MemView.wrapInt ((v.cursor : Int) + n)) else none }
  | .mUp, .mem _ v, [.num n] =>
    { a with cls := if (MemView.cmdUp v n).isNone then memClass v (MemView.wrapInt ((v.cursor : Int) - n)) else none }
  | .mGoto, .mem _ v, [.num n] =>
    { a with cls := if (MemView.cmdGoto v n).isNone then memClass v n else none }
  | .mAddress, .mem _ v, [.addr x] =>
    { a with cls := if (MemView.cmdAddress v x).isNone then
        (if (MemView.findLine x v.lines).isNone then some "noaddr" else some "toohigh") else none }
  | _, _, _ => a

/-- what the call prints besides the screen: prompts, the class of the error message, the memory keys -/
def analyse (p : Params ESt) (ui : UI ESt) (inp : Input) : Analysis :=
  match inp, ui.stack with
  | line :: rest, top :: below =>
    if line.isEmpty then {} else
    match dropEmptyStrs (split line) with
    | [] => { cls := some "nocmd" }
    | cmdStr :: parts =>
      match top.cmdMap.find cmdStr with
      | none => { cls := some "unknown" }
      | some cmd =>
        if parts.length < cmd.args.length then { cls := some "fewargs" }
        else match firstBadArg cmd.args parts 0 with
          | some i => { cls := some s!"badarg:{i}" }
          | none =>
            if parts.length > cmd.args.length && !cmd.opt then { cls := some "manyargs" }
            else match parseCommand top.cmdMap line with
              | .ok cmd args => actAnalysis p top below cmd.act args rest
              | _ => { glueDiff := some "glue: parseCommand disagrees with the class analysis" }
  | _, _ => {}

/-! ### the implementation's answer, parsed (for the oracle) -/

structure SObs where
  names : List Str
  kind : String
  pstatus : String
  /-- the code dump, if the state carries a new one -/
  code : Option Listing.Code
  /-- the texts of the listing, if the state carries new ones; `T=`: `none` -/
  texts : Option (List String)
  sameTexts : Bool
  hasListing : Bool

def strOfBytes (bs : List UInt8) : String := String.ofList (bs.map fun b => Char.ofNat b.toNat)

def pCodeDump : P Listing.Code := do
  let entry ← pNat
  let blocks ← pList (do
    let idx ← pNat
    let bg ← pNat
    let en ← pNat
    let ins ← pList (do
      let i ← pNat
      let a ← pNat
      let t ← pHex
      let bs ← pHex
      let lo ← pNat
      let up ← pNat
      pure (⟨strOfBytes t, bs, i, a, lo, up⟩ : Listing.Ins))
    pure (⟨idx, bg, en, ins⟩ : Listing.Block))
  pure ⟨entry, blocks⟩

def pTexts : P (Option (List String) × Bool) := do
  let t ← next
  if t == "T=" then pure (none, true)
  else if t == "T" then do
    let l ← pList pHex
    pure (some (l.map strOfBytes), false)
  else throw s!"bad listing token {t}"

def pMarks : P Unit := do
  expect "K"
  let _ ← pList next

/-- skip to the listing part of an emulator state -/
def skipToTexts : P Unit := do
  let toks ← get
  set (toks.dropWhile fun t => t != "T" && t != "T=")

def pSObs : P SObs := do
  let depth ← pNat
  let mut names : Array Str := #[]
  for _ in [0:depth] do
    names := names.push (← pHex)
  let kind ← next
  if kind == "none" then
    return { names := names.toList, kind, pstatus := "-", code := none, texts := none, sameTexts := false, hasListing := false }
  let _ ← pInt
  let pstatus ← next
  match kind with
  | "dis" =>
    let d ← next
    let code ← if d == "D=" then pure none else if d == "D" then do pure (some (← pCodeDump)) else throw s!"bad dump {d}"
    let (texts, same) ← pTexts
    pMarks
    pure { names := names.toList, kind, pstatus, code, texts, sameTexts := same, hasListing := true }
  | "emu" =>
    skipToTexts
    let (texts, same) ← pTexts
    pMarks
    pure { names := names.toList, kind, pstatus, code := none, texts, sameTexts := same, hasListing := true }
  | _ =>
    set ([] : List String)
    pure { names := names.toList, kind, pstatus, code := none, texts := none, sameTexts := false, hasListing := false }

structure StepObs where
  status : String
  consumed : Nat
  nprompts : Nat
  cls : String
  after : Option SObs

def pStepObs : P StepObs := do
  let status ← next
  let consumed ← pNat
  expect "P"
  let prompts ← pList (do
    match (← next) with
    | "r" => do let _ ← next; let _ ← next; pure ()
    | "m" => do let _ ← next; let _ ← next; let _ ← next; pure ()
    | t => throw s!"bad prompt {t}")
  expect "X"
  let cls ← next
  let k ← next
  if k == "K" then
    let _ ← pList next
  else if k != "K-" then throw s!"bad memories token {k}"
  let terminal := ["quit", "eof", "PANIC", "HANG"].contains status
  let after ← if terminal then pure none else do pure (some (← pSObs))
  pure { status, consumed, nprompts := prompts.length, cls, after }

def splitBar : List String → List (List String)
  | [] => [[]]
  | "|" :: ts => [] :: splitBar ts
  | t :: ts =>
    match splitBar ts with
    | [] => [[t]]
    | g :: gs => (t :: g) :: gs

def specStatus : String → Spec.Status
  | "skip" => .skip | "ok" => .ok | "error" => .error | "left" => .left | "quit" => .quit
  | "eof" => .eof | "HANG" => .hang | _ => .panic

/-- the mode stack is `[app]`, `[app, emulate]` or `[app, emulate, memview(…)]` -/
def shapeOK (names : List Str) : Bool :=
  match names.map Spec.kindOf with
  | [.dis] => true
  | [.dis, .emu] => true
  | [.dis, .emu, .mem] => true
  | _ => false

/-- the oracle on the implementation's answers alone -/
def oracle (lines : Input) (s0 : SObs) (steps : List StepObs) : Option String := Id.run do
  let mut names := s0.names
  let mut todo := lines
  let mut code : Option Listing.Code := s0.code
  let mut texts : Option (List String) := s0.texts
  let mut obs : Array Spec.StepObs := #[]
  let mut states : List SObs := [s0]
  for st in steps do
    obs := obs.push {
      line := todo.head?, status := specStatus st.status, consumed := st.consumed, remaining := todo.length,
      before := names, after := st.after.map (·.names),
      renderPanic := match st.after with | some o => o.pstatus.startsWith "PANIC" | none => false }
    todo := todo.drop st.consumed
    match st.after with
    | some o => names := o.names; states := states ++ [o]
    | none => pure ()
  -- an endless value prompt at the very end of the input: the known behaviour of `readValueNoErr`
  let obsL := obs.toList
  let sess := match obsL.getLast? with
    | some o =>
      if o.status = .hang ∧ o.consumed = o.remaining then
        (obsL.dropLast.findSome? Spec.checkStep)
      else Spec.checkSession obsL
    | none => none
  if let some e := sess then return some e
  for o in states do
    if !shapeOK o.names then return some "the mode stack is not [app], [app, emulate] or [app, emulate, memview]"
    if let some c := o.code then code := some c
    if let some t := o.texts then texts := some t
    if o.hasListing then
      match code, texts with
      | some c, some t =>
        if (Listing.Spec.rows c).map (·.text) != t then
          return some s!"the listing of the {o.kind} mode is not the fresh rendering of the code reported last"
      | _, _ => return some "a listing without a code dump"
  return none

/-! ### the session -/

def fmtAnswer : Answer → String
  | .skipped => "skip" | .executed => "ok" | .error => "error" | .left => "left"

def fmtPrompts (a : Array String) : String :=
  a.foldl (fun acc s => acc ++ " " ++ s) s!"P {a.size}"

def fmtMems : Option (List String) → String
  | none => "K-"
  | some l => l.foldl (fun acc s => acc ++ " " ++ s) s!"K {l.length}"

def finalName : Final → String
  | .exited => "quit" | .eof _ => "eof" | .hang => "HANG" | .panic => "PANIC" | .outOfFuel => "FUEL"

structure Acc where
  r : RUI
  inp : Input
  last : Last
  out : Array String := #[]
  tags : Array String := #[]
  ended : Option String := none
  glue : Option String := none
  coupling : Option String := none
  sessions : Nat := 0
  moves : Nat := 0
  movedAfterSession : Bool := false

def actName (a : Act) : String := (reprStr a).replace "Mltwist.UI.Act." ""

/-- one call of `processCommand`: the body of `realRunWith` -/
def doStep (su : Setup) (n : Nat) (a : Acc) : Acc :=
  let p := paramsAt su.info su.bs rxOf a.r.deps
  let an := analyse p a.r.ui a.inp
  let out := uiStep p a.r.ui a.inp
  let deps' := uiNextDeps a.r.deps a.r.ui a.inp
  let kind := match a.r.ui.stack with
    | top :: _ => (match top.mode with | .dis _ => "dis" | .emu _ => "emu" | .mem _ _ => "mem")
    | [] => "none"
  let glue := match a.glue, an.glueDiff with
    | some g, _ => some g
    | none, g => g
  match out with
  | .cont ans ui' rest =>
    let p' := paramsAt su.info su.bs rxOf deps'
    let (s, last) := fmtState p'.eops ui' n a.last
    let status := fmtAnswer ans
    let cls := if status == "error" then (an.cls.getD "other") else "-"
    let str := s!"{status} {a.inp.length - rest.length} {fmtPrompts an.prompts} X {cls} {fmtMems an.mems} {s}"
    -- the coupling the composition theorems state: the disassembler shows the CURRENT real code, the emulator
    -- runs on its code view
    let coupling := match a.coupling, ui'.stack with
      | some c, _ => some c
      | none, top :: _ =>
        (match top.mode with
         | .dis st => if st.code == listingOf su.info deps' then none else some "the disassembler does not show the real code"
         | .emu e =>
           if e.emu.code != codeViewOf deps' then some "the emulator does not run on the current code"
           else if e.view.code != listingOf su.info deps' then some "the emulator listing does not show the real code"
           else none
         | _ => none)
      | none, [] => none
    let act := an.act.map actName
    let okAct (x : String) : Bool := act == some x && status == "ok"
    let sessions := if okAct "dEmulate" then a.sessions + 1 else a.sessions
    let moves := if okAct "dMove" then a.moves + 1 else a.moves
    let movedAfterSession := a.movedAfterSession || (okAct "dMove" && a.sessions ≥ 1)
    let tags : List String :=
      [s!"in-{kind}", s!"st-{status}"] ++
      (match act with | some x => [s!"{x}-{status}"] | none => []) ++
      (if cls != "-" then [s!"x-{(cls.splitOn ":").headD ""}"] else []) ++
      (if act == some "eStep" && !an.prompts.isEmpty then ["step-prompt"] else []) ++
      (if act == some "eStep" && an.prompts.size ≥ 2 then ["step-prompts2+"] else []) ++
      (if an.prompts.any (·.startsWith "m ") then ["prompt-mem"] else []) ++
      (if an.retry then ["value-retry"] else []) ++
      (if act == some "eStep" && a.moves ≥ 1 then ["step-on-moved-code"] else []) ++
      (if act == some "eStep" && a.movedAfterSession then ["step-after-move-between-sessions"] else []) ++
      (if okAct "dEmulate" && a.moves ≥ 1 then ["emulate-after-move"] else []) ++
      (if okAct "dMove" then [if deps'.blocks != a.r.deps.blocks then "blockmove-ok" else "insmove-ok"] else []) ++
      (if sessions ≥ 2 then ["sessions2+"] else []) ++
      (if kind == "mem" && status == "ok" then ["mem-nav"] else []) ++
      (if okAct "mAddress" then ["mem-address-ok"] else []) ++
      (if okAct "eMemory" then ["memview-open"] else [])
    { a with r := ⟨deps', ui'⟩, inp := rest, last, out := a.out.push str, tags := a.tags ++ tags.toArray, glue, coupling,
             sessions, moves, movedAfterSession }
  | .exited rest =>
    { a with out := a.out.push s!"quit {a.inp.length - rest.length} P 0 X - K-", ended := some "quit", glue,
             tags := a.tags ++ #[s!"in-{kind}", "st-quit"] }
  | .eof _ =>
    let cls := "-"
    { a with out := a.out.push s!"eof {a.inp.length} {fmtPrompts an.prompts} X {cls} {fmtMems an.mems}", ended := some "eof", glue,
             tags := a.tags ++ #[s!"in-{kind}", "st-eof"] }
  | .hang =>
    { a with out := a.out.push s!"HANG {a.inp.length} P 0 X - K-", ended := some "HANG", glue,
             tags := a.tags ++ #[s!"in-{kind}", "st-HANG", "hang-eof"] ++ (if !an.prompts.isEmpty then #["eof-mid-prompt"] else #[]) }
  | .panic =>
    { a with out := a.out.push "PANIC", ended := some "PANIC", glue, tags := a.tags ++ #[s!"in-{kind}", "st-PANIC"] }

/-- normalise the implementation's answer: the consumed lines and prompts of a hanging or panicking call are
not compared -/
def normStep (f : List String) : String :=
  match f with
  | "PANIC" :: _ => "PANIC"
  | _ => " ".intercalate f

/-- a hanging call: the harness lists the prompts it printed until it gave up (not compared; the number of lines
consumed is) -/
def sameField (m i : String) : Bool :=
  m == i || (m.startsWith "HANG " && (m.splitOn " ").take 2 == (i.splitOn " ").take 2)

def firstDiff : List String → List String → Nat → Option String
  | [], [], _ => none
  | m :: ms, i :: is, j => if sameField m i then firstDiff ms is (j + 1) else some s!"call {j}: {m}"
  | m :: _, [], j => some s!"call {j} (missing in the implementation's answer): {m}"
  | [], _ :: _, j => some s!"call {j}: the model's session has ended"

def handler : Handler := fun args res => do
  let l ← runP pLine args
  if l.lines.any unsupported then throw "a find pattern the driver's matcher does not understand"
  if res == ["CRASH"] then
    return { corr := some "no crash", oracle := some "the session crashes the harness", tags := ["uireal", "CRASH"] }
  match setup l with
  | .error msg =>
    let istr := " ".intercalate res
    return { corr := corrOf msg istr, oracle := if istr == "PANIC" then some "start-up panics" else none,
             oracleNA := istr != "PANIC", tags := ["uireal", "setup-" ++ msg] }
  | .ok su =>
    if res == ["PANIC"] then
      return { corr := some "no panic", oracle := some "the session panics outside processCommand", tags := ["uireal", "PANIC"] }
    match res with
    | [t] => if t.startsWith "err:" then return { corr := some "the UI starts", oracleNA := true, tags := ["uireal", "setup-diff"] }
    | _ => pure ()
    let p0 := paramsAt su.info su.bs rxOf su.d0
    let (s0, last0) := fmtState p0.eops su.ui0 l.height {}
    let mut acc : Acc := { r := ⟨su.d0, su.ui0⟩, inp := l.lines, last := last0 }
    let mut k := 0
    -- every call consumes at least one line or ends the session
    while acc.ended.isNone && k ≤ l.lines.length do
      acc := doStep su l.height acc
      k := k + 1
    let fields := splitBar res
    let ifields := fields.map normStep
    let mfields := s0 :: acc.out.toList
    -- the whole session through `realSession` itself
    let final := finalName (realSession su.info su.bs rxOf su.d0 l.lines)
    let loopEnd := acc.ended.getD "FUEL"
    let mut corr : Option String := none
    if final != loopEnd then corr := some s!"realSession ends with {final}, the step loop with {loopEnd}"
    if corr.isNone then
      if let some g := acc.glue then corr := some g
    if corr.isNone then
      if let some c := acc.coupling then corr := some c
    if corr.isNone then
      corr := firstDiff mfields ifields 0
    -- the oracle
    let orc ← match fields with
      | [] => throw "empty result"
      | f0 :: rest => do
        let o0 ← runP pSObs f0
        let steps ← rest.mapM fun f =>
          match f with
          | "PANIC" :: _ => pure ({ status := "PANIC", consumed := 0, nprompts := 0, cls := "-", after := none } : StepObs)
          | _ => runP pStepObs f
        pure (oracle l.lines o0 steps)
    let kinds := (acc.tags.toList.filter (·.startsWith "in-")).eraseDups
    let tags := ["uireal"] ++ acc.tags.toList.eraseDups ++
      (if kinds.length ≥ 2 then ["modes2+"] else []) ++ (if kinds.length ≥ 3 then ["modes3"] else []) ++
      (if acc.tags.contains "st-error" && acc.tags.contains "st-ok" then ["err+ok"] else []) ++
      [s!"blocks{min (listingOf su.info su.d0).blocks.length 4}"] ++
      (if l.lines.length ≥ 10 then ["script10+"] else [])
    return { corr, oracle := orc, tags }

def uirealHandlers : List (String × Handler) := [("uireal", handler)]

end Driver.UIReal

namespace Driver
export Driver.UIReal (uirealHandlers)
end Driver
