import Driver.Core
import Mltwist.Model.MemView
import Mltwist.Model.NumParse
import Mltwist.Spec.MemView
import Mltwist.Spec.NumParse
/-
Handler for memory view histories (C32):

  memview nil <k> cmd…
  memview sparse <n> (<addr> <w> E)*n <k> cmd…
  memview bytes <b> (<begin> <hex>)*b <n> (<addr> <w> E)*n <k> cmd…
  cmd ∈ print <n> | addr <hex of the argument> | goto <n> | up <n> | down <n>

Correspondence: the memory models (`Model/Sparse.lean`, `Model/BytesMem.lean`) + `Model/MemView.lean`.
Oracle: the byte map `σ` obtained by replaying the (constant) stores, `Spec/MemView.lean`
(windows, cells, layout, address lookup) and `Spec/NumParse.lean` (the address grammar).  The printed
text of the implementation is *parsed* row by row here and compared field by field.
-/
namespace Driver.MemView
open Driver Mltwist Mltwist.MemView

structure Store where
  addr : Nat
  w : Nat
  ex : Expr

inductive Cmd where
  | print (n : Int)
  | addr (s : List UInt8)
  | goto (n : Nat)
  | up (n : Nat)
  | down (n : Nat)
  /-- a store into the memory WHILE the view exists (the view keeps its rows, the bytes are read live) -/
  | st (s : Store)

inductive MemSpec where
  | nil
  | sparse (sts : List Store)
  | bytes (blocks : List (Nat × List UInt8)) (sts : List Store)

def pStore : P Store := do
  let a ← pNat; let w ← pNat; let e ← pExpr
  pure ⟨a, w, e⟩

def pCmd : P Cmd := do
  match (← next) with
  | "st" => do pure (.st (← pStore))
  | "print" => do pure (.print (← pInt))
  | "addr" => do pure (.addr (← pHex))
  | "goto" => do pure (.goto (← pNat))
  | "up" => do pure (.up (← pNat))
  | "down" => do pure (.down (← pNat))
  | t => throw s!"bad memview command {t}"

def pLine : P (MemSpec × List Cmd) := do
  let kind ← next
  let ms ← match kind with
    | "nil" => pure MemSpec.nil
    | "sparse" => do pure (MemSpec.sparse (← pList pStore))
    | "bytes" => do
      let bl ← pList (do let b ← pNat; let h ← pHex; pure (b, h))
      let sts ← pList pStore
      pure (MemSpec.bytes bl sts)
    | t => throw s!"bad memview memory kind {t}"
  let cmds ← pList pCmd
  pure (ms, cmds)

/-! ### model side -/

inductive Built where
  | mem (m : Option Mem)
  | panic
  | overlap

def buildSparse : List Store → Sparse.Tree → Option Sparse.Tree
  | [], t => some t
  | s :: ss, t =>
    match Sparse.store t s.addr s.ex s.w with
    | .ok t' => buildSparse ss t'
    | .error _ => none

def buildBytes : List Store → List BytesMem.Block → Option (List BytesMem.Block)
  | [], b => some b
  | s :: ss, b =>
    match BytesMem.storeExpr b s.addr s.w s.ex with
    | .ok b' => buildBytes ss b'
    | .error _ => none

def build : MemSpec → Built
  | .nil => .mem none
  | .sparse sts =>
    match buildSparse sts [] with
    | some t => .mem (some (ofSparse t))
    | none => .panic
  | .bytes bl sts =>
    match BytesMem.newBytes bl with
    | .error _ => .overlap
    | .ok b =>
      match buildBytes sts b with
      | some b' => .mem (some (ofBytes b'))
      | none => .panic

def maxInt : Nat := 2 ^ 63 - 1

/-- run the commands on the model; answers as canonical strings -/
def addStore : MemSpec → Store → MemSpec
  | .nil, _ => .nil
  | .sparse sts, s => .sparse (sts ++ [s])
  | .bytes bl sts, s => .bytes bl (sts ++ [s])

def runModel (ms : MemSpec) (mem : Option Mem) : View → List Cmd → List String → List String
  | _, [], acc => acc
  | v, c :: cs, acc =>
    let step (r : Option View) : List String :=
      match r with
      | some v' => runModel ms mem v' cs (acc ++ [s!"ok {v'.cursor}"])
      | none => runModel ms mem v cs (acc ++ [s!"err {v.cursor}"])
    match c with
    | .st st =>
      -- the memory changes under the view: rebuild it, keep the rows and the cursor
      let ms' := addStore ms st
      match build ms' with
      | .mem m' => runModel ms' m' v cs (acc ++ [s!"st {v.cursor}"])
      | _ => acc ++ ["PANIC"]
    | .print n =>
      match MemView.print mem v n.toNat with
      | some out => runModel ms mem v cs (acc ++ [s!"out {v.cursor} {fmtHex out}"])
      | none => acc ++ ["PANIC"]
    | .addr s =>
      match NumParse.parseAddr s with
      | .ok a => step (cmdAddress v a)
      | .err => runModel ms mem v cs (acc ++ [s!"argerr {v.cursor}"])
      | .panic => acc ++ ["PANIC"]
    | .goto n => if n > maxInt then runModel ms mem v cs (acc ++ [s!"argerr {v.cursor}"]) else step (cmdGoto v n)
    | .up n => if n > maxInt then runModel ms mem v cs (acc ++ [s!"argerr {v.cursor}"]) else step (cmdUp v n)
    | .down n => if n > maxInt then runModel ms mem v cs (acc ++ [s!"argerr {v.cursor}"]) else step (cmdDown v n)

def modelAnswer (ms : MemSpec) (cmds : List Cmd) : String :=
  match build ms with
  | .panic => "PANIC"
  | .overlap => "err:overlap"
  | .mem m =>
    match newMemoryView m with
    | none => "PANIC"
    | some v =>
      let a := runModel ms m v cmds []
      if a.isEmpty then "-" else " | ".intercalate a

/-! ### oracle side -/

/-- the bytes a store of a constant writes: the `w` low bytes, zero extended -/
def storedBytes (s : Store) : Option (List UInt8) :=
  match s.ex with
  | .const bs => some ((bs ++ List.replicate s.w 0).take s.w)
  | _ => none

def replay (σ : Spec.MemView.ByteMap) : List Store → Option Spec.MemView.ByteMap
  | [] => some σ
  | s :: ss =>
    match storedBytes s with
    | some bs => replay (Spec.MemView.putBytes σ s.addr bs) ss
    | none => none

def byteMapOf : MemSpec → Option Spec.MemView.ByteMap
  | .nil => some []
  | .sparse sts => replay [] sts
  | .bytes bl sts => replay (bl.foldl (fun σ b => Spec.MemView.putBytes σ b.1 b.2) []) sts

def asciiString (bs : List UInt8) : String := String.ofList (bs.map fun b => Char.ofNat b.toNat)

def hexStr (upper : Bool) (width n : Nat) : String :=
  let ds := (Nat.toDigits 16 n).map fun c => if upper then c.toUpper else c
  String.ofList (List.replicate (width - ds.length) '0' ++ ds)

/-- expected text of the 16 cells -/
def cellsText (cs : List (Option UInt8)) : String :=
  let one : Option UInt8 → String
    | some b => hexStr true 2 b.toNat
    | none => ".."
  " ".intercalate ((cs.take 8).map one) ++ "   " ++ " ".intercalate ((cs.drop 8).map one)

/-- check one printed row against the expected layout; returns the row index -/
def checkRow (σ : Spec.MemView.ByteMap) (rows : List (Option Nat)) (cursor : Nat) (row : String) :
    Except String Nat := do
  let marker := row.take 1
  let rest := (row.drop 1).toString
  let parts := rest.splitOn "  | "
  let (idxField, content) ← match parts with
    | [a, b] => pure (a, b)
    | _ => throw s!"row `{row}` does not have the shape `<marker> <index>  | <content>`"
  if !idxField.startsWith " " then throw s!"row `{row}`: no blank after the marker"
  let idxStr := (idxField.drop 1).toString
  if idxStr.length != (toString rows.length).length then
    throw s!"row `{row}`: index field is not {(toString rows.length).length} wide"
  let some idx := idxStr.trimAsciiStart.toString.toNat? | throw s!"row `{row}`: bad index"
  if marker.toString != (if idx = cursor then ">" else " ") then
    throw s!"row {idx}: cursor marker `{marker}` with the cursor on {cursor}"
  match rows[idx]? with
  | none => throw s!"row {idx} is printed but the view has {rows.length} rows"
  | some none =>
    if content != "..." then throw s!"row {idx} must be an ellipsis row, shown `{content}`"
  | some (some w) =>
    let expected := "0x" ++ hexStr false 16 w ++ " - 0x" ++ hexStr false 16 ((w + 16) % 2 ^ 64) ++ " | " ++
      cellsText (Spec.MemView.cells σ w)
    if content != expected then
      throw s!"row {idx} (window {w}) must show `{expected}`, shown `{content}`"
  pure idx

/-- check the output of `print n` -/
def checkPrint (σ : Spec.MemView.ByteMap) (rows : List (Option Nat)) (cursor : Nat) (n : Int)
    (out : List UInt8) : Option String :=
  let text := asciiString out
  if rows.isEmpty then
    if text == "\n\n\tNO MEMORY TO SHOW\n\n\n" then none else some "an empty view must say NO MEMORY TO SHOW"
  else
    if !out.isEmpty && out.getLast? != some 0x0a then some "output does not end with a newline"
    else
      let lines := (text.splitOn "\n").dropLast
      match lines.mapM (checkRow σ rows cursor) with
      | .error e => some e
      | .ok idxs =>
        let contiguous := (idxs.zip (idxs.drop 1)).all fun (a, b) => b == a + 1
        if !contiguous then some s!"printed row indices {idxs} are not consecutive"
        else if n ≥ 1 && !idxs.contains cursor then some s!"the cursor row {cursor} is not shown"
        else none

structure OState where
  cursor : Nat
  fails : List String
  tags : List String

def setCur (len : Nat) (x : Int) : Option Nat := if 0 ≤ x ∧ x < len then some x.toNat else none

/-- judge the answers of the implementation one by one -/
def judge (σ : Spec.MemView.ByteMap) (rows : List (Option Nat)) :
    List Cmd → List (List String) → OState → OState
  | [], _, st => st
  | _ :: _, [], st => { st with fails := st.fails ++ ["missing answer"] }
  | c :: cs, ans :: rest, st =>
    if ans == ["PANIC"] then { st with fails := st.fails ++ ["the view crashed"], tags := st.tags ++ ["panic"] }
    else
      let expectMove (target : Option Nat) (what : String) : OState :=
        match target with
        | some i =>
          let want := ["ok", toString i]
          judge σ rows cs rest { st with cursor := i, fails := if ans == want then st.fails else st.fails ++ [s!"{what}: expected `ok {i}`"] }
        | none =>
          let want := ["err", toString st.cursor]
          judge σ rows cs rest { st with fails := if ans == want then st.fails else st.fails ++ [s!"{what}: expected `err {st.cursor}`"] }
      let argErr (what : String) : OState :=
        judge σ rows cs rest { st with fails := if ans == ["argerr", toString st.cursor] then st.fails
            else st.fails ++ [s!"{what}: expected `argerr {st.cursor}`"] }
      match c with
      | .st s =>
        let σ' := match storedBytes s with
          | some bs => Spec.MemView.putBytes σ s.addr bs
          | none => σ
        judge σ' rows cs rest { st with fails := if ans == ["st", toString st.cursor] then st.fails
            else st.fails ++ [s!"store into the viewed memory: expected `st {st.cursor}`"], tags := st.tags ++ ["live-store"] }
      | .print n =>
        match ans with
        | ["out", cur, h] =>
          let f := if cur == "none" then some s!"the view has no cursor/rows although {rows.length} rows are expected"
            else if cur != toString st.cursor then some s!"print moved the cursor to {cur}"
            else match parseHex h with
              | some out => checkPrint σ rows st.cursor n out
              | none => some "bad hex"
          judge σ rows cs rest { st with fails := st.fails ++ f.toList, tags := st.tags ++ ["print"] }
        | _ => { st with fails := st.fails ++ ["print: bad answer"] }
      | .addr s =>
        match Spec.NumParse.addrExpected s with
        | none => argErr "address with a malformed argument"
        | some a =>
          let stored := (Spec.MemView.get σ a).isSome
          let target := Spec.MemView.addrIndexStored stored rows a
          let tg := if stored then "addr-hit"
            else if (Spec.MemView.addrIndex rows a).isSome then "addr-absent-in-window" else "addr-miss"
          let st' := { st with tags := st.tags ++ [tg] }
          match target with
          | some i =>
            judge σ rows cs rest { st' with cursor := i, fails := if ans == ["ok", toString i] then st'.fails
                else st'.fails ++ [s!"address {a}: expected `ok {i}` (the row of window {Spec.MemView.windowOf a})"] }
          | none =>
            judge σ rows cs rest { st' with fails := if ans == ["err", toString st'.cursor] then st'.fails
                else st'.fails ++ [s!"address {a}: expected `err {st'.cursor}` (no stored range contains it)"] }
      | .goto n => if n > maxInt then argErr "goto" else expectMove (setCur rows.length n) s!"goto {n}"
      | .up n => if n > maxInt then argErr "up" else expectMove (setCur rows.length ((st.cursor : Int) - n)) s!"up {n}"
      | .down n =>
        if n > maxInt then argErr "down"
        else expectMove (if st.cursor + n > maxInt then none else setCur rows.length ((st.cursor : Int) + n)) s!"down {n}"

def splitBars (toks : List String) : List (List String) :=
  let (cur, acc) := toks.foldl (fun (p : List String × List (List String)) t =>
    if t == "|" then ([], p.2 ++ [p.1]) else (p.1 ++ [t], p.2)) ([], [])
  acc ++ [cur]

def hMemView : Handler := fun args res => do
  let (ms, cmds) ← runP pLine args
  let m := modelAnswer ms cmds
  let istr := " ".intercalate res
  let kindTag := match ms with | .nil => "nil" | .sparse _ => "sparse" | .bytes _ _ => "bytes"
  match byteMapOf ms with
  | none =>
    -- a non-constant expression was stored: outside the stated memory states, model = implementation only
    return { corr := corrOf m istr, oracleNA := true, tags := [kindTag, "nonconst"] }
  | some σ =>
    let ws := Spec.MemView.windows σ
    let rows := Spec.MemView.layout ws
    let shape :=
      (if ws.isEmpty then ["empty"] else []) ++
      (if ws.length ≥ 2 then ["multi"] else []) ++
      (if ws.contains 0 then ["window0"] else []) ++
      (if ws.contains (2 ^ 64 - 16) then ["topwindow"] else []) ++
      (if (ws.zip (ws.drop 1)).any (fun (a, b) => b == a + 16) then ["adjacent"] else []) ++
      (if (ws.zip (ws.drop 1)).any (fun (a, b) => b == a + 32) then ["gap1"] else []) ++
      (if (ws.zip (ws.drop 1)).any (fun (a, b) => b > a + 32) then ["gapN"] else []) ++
      (if ws.any (fun w =>
          let cs := Spec.MemView.cells σ w
          ((cs.zip (cs.drop 1)).filter (fun (a, b) => a.isSome && b.isNone)).length ≥ 2 ||
          (((cs.zip (cs.drop 1)).filter (fun (a, b) => a.isSome && b.isNone)).length ≥ 1 && (cs.getLast?.getD none).isSome))
        then ["sharedwindow"] else [])
    if res == ["PANIC"] then
      return { corr := corrOf m istr, oracle := some "building the view (or its first command) crashed", tags := [kindTag, "panic"] ++ shape }
    if res == ["err:overlap"] then
      return { corr := corrOf m istr, oracleNA := true, tags := [kindTag, "overlap"] }
    -- a view without rows may have no cursor at all (`none`): that is as good as a cursor on 0
    let answers0 := if res == ["-"] then [] else splitBars res
    let answers := if rows.isEmpty then answers0.map (fun a => a.map fun t => if t == "none" then "0" else t)
      else answers0
    let st := judge σ rows cmds answers ⟨0, [], []⟩
    let orc := match st.fails with
      | [] => none
      | f :: _ => some f
    return { corr := corrOf m istr, oracle := orc, tags := [kindTag] ++ shape ++ st.tags.eraseDups }

end Driver.MemView

namespace Driver
def memViewHandlers : List (String × Handler) := [("memview", MemView.hMemView)]
end Driver
