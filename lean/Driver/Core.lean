import Driver.IO
/-
Per-line verdicts.  For every line `<op> <args> => <impl result>` the driver prints

  C=ok | C=diff:<model result>     correspondence: model result vs implementation result
  O=pass | O=fail:<reason> | O=na  oracle: the property itself, checked on the implementation's result
  T=<tag,tag,…>                    classification of the case (for the coverage statistics)
-/
namespace Driver

structure Verdict where
  corr : Option String := none      -- none = ok, some m = diff (model result)
  oracle : Option String := none    -- none = pass, some r = fail
  oracleNA : Bool := false
  tags : List String := []

def Verdict.render (v : Verdict) : String :=
  let c := match v.corr with | none => "C=ok" | some m => "C=diff:" ++ m
  let o := match v.oracle with
    | some r => "O=fail:" ++ r
    | none => if v.oracleNA then "O=na" else "O=pass"
  c ++ " ;; " ++ o ++ " ;; T=" ++ ",".intercalate v.tags

/-- compare canonical strings -/
def corrOf (model impl : String) : Option String := if model == impl then none else some model

abbrev Handler := List String → List String → Except String Verdict

def firstFail (checks : List (Bool × String)) : Option String :=
  match checks.find? (fun c => !c.1) with
  | some (_, msg) => some msg
  | none => none

end Driver
