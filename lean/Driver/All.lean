import Driver.ExprOps
import Driver.IntervalOps
import Driver.RvOps
import Driver.OpcodeOps
import Driver.BasicBlockOps
import Driver.BytesMemOps
import Driver.FormatOps
import Driver.SparseOps
import Driver.OverlayOps
import Driver.StateOps
import Driver.RenderOps
import Driver.DepsOps
import Driver.ElfOps
import Driver.ParseOps
import Driver.StartupOps
import Driver.ListingOps
import Driver.NumParseOps
import Driver.MemViewOps
import Driver.UIOps
import Driver.EmuOps
import Driver.UIRealOps
/-
Registry of all operation handlers of the model driver.  One line per component.
-/
namespace Driver

def allHandlers : List (String × Handler) :=
  exprHandlers ++
  intervalHandlers ++
  rvHandlers ++
  opcodeHandlers ++
  basicBlockHandlers ++
  bytesMemHandlers ++
  formatHandlers ++
  sparseHandlers ++
  overlayHandlers ++
  stateHandlers ++
  renderHandlers ++
  depsHandlers ++
  elfHandlers ++
  parseHandlers ++
  startupHandlers ++
  listingHandlers ++
  numParseHandlers ++
  memViewHandlers ++
  uiHandlers ++
  emuHandlers ++
  uirealHandlers

end Driver
