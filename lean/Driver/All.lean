import Driver.ExprOps
import Driver.IntervalOps
/-
Registry of all operation handlers of the model driver.  One line per component.
-/
namespace Driver

def allHandlers : List (String × Handler) :=
  exprHandlers ++
  intervalHandlers

end Driver
