import Driver.All

open Driver


def splitArrow (toks : List String) : List String × List String :=
  (toks.takeWhile (· ≠ "=>"), (toks.dropWhile (· ≠ "=>")).drop 1)

def processLine (line : String) : String :=
  let toks := words line
  let (lhs, res) := splitArrow toks
  match lhs with
  | [] => "SKIP"
  | op :: args =>
    match allHandlers.lookup op with
    | none => s!"ERR unknown op {op}"
    | some h =>
      match res with
      | "BADLINE" :: _ => "ERR harness rejected the line"
      | _ =>
        -- aliasing monitor of the harness: an input expression printed differently after the operation
        let mutated := res.getLast? == some "!!input-mutated"
        let res' := if mutated then res.dropLast else res
        match h args res' with
        | .ok v =>
          (if mutated then { v with oracle := some "the operation modified a value it was given (aliasing)" } else v).render
        | .error e => s!"ERR {e}"

partial def loop (i o : IO.FS.Stream) : IO Unit := do
  let line ← i.getLine
  if line.isEmpty then return ()
  let l := (line.trimAsciiEnd).toString
  if l.isEmpty || l.startsWith "%" then
    loop i o
  else
    o.putStrLn (processLine l)
    loop i o

def main : IO Unit := do
  let i ← IO.getStdin
  let o ← IO.getStdout
  loop i o
  o.flush
