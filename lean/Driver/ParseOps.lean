import Driver.Core
import Driver.RvOps
import Mltwist.Spec.Parse
import Mltwist.Spec.Elf
/-
Handler for code parsing (C21): `tile`.
-/
namespace Driver.Parse
open Driver Mltwist Mltwist.Elf Mltwist.Parse

def pBlocks : P (List Block) := pList (do let b ← pNat; let h ← pHex; pure (b, h))

def fmtIns (addr typ : Nat) (name : String) (bytes : List UInt8) (efs : List Effect) : String :=
  s!" {addr} {typ} {fmtText name} {fmtHex bytes} {fmtEffects efs}"

def rvErrName : RvErr → String
  | .short => "short" | .unknown => "unknown"

/-- the model's result in the harness' notation -/
def modelTile (blocks : List Block) : String :=
  match newMemory blocks with
  | .error .overlap => "err:mem:overlap"
  | .error .wrap => "err:mem:wrap"
  | .error _ => "err:mem:other"
  | .ok bs =>
    match parseRv64 bs with
    | .error (.parse a e) => s!"err:{rvErrName e} {a}"
    | .error (.invalid a) => s!"err:invalid {a}"
    | .error .panic => "PANIC"
    | .error .slice => "PANIC"
    | .error .fuel => "FUEL"
    | .ok is =>
      is.foldl (fun acc i => acc ++ fmtIns i.addr i.typ i.details.1.name i.bytes i.effects) (toString is.length)

def fmtExpected : Spec.Expected → String
  | .fails a c => s!"err:{c} {a}"
  | .insns l => l.foldl (fun acc i => acc ++ fmtIns i.addr i.typ i.name i.bytes i.effects) (toString l.length)

def hTile : Handler := fun args res => do
  let blocks ← runP pBlocks args
  let istr := " ".intercalate res
  let corr := corrOf (modelTile blocks) istr
  let sorted := Elf.Spec.sortBlocks blocks
  let isImage := decide (Elf.Spec.Tidy sorted)
  let nonEmpty := (blocks.filter fun b => !b.2.isEmpty).length
  let tags0 := [if isImage then "image" else "noimage", s!"blocks{min nonEmpty 4}",
    if blocks.any (fun b => b.2.length % 4 != 0) then "ragged" else "aligned"]
  if res == ["PANIC"] then
    return { corr, oracle := some "panic", tags := tags0 ++ ["panic"] }
  if istr.startsWith "err:mem:" then
    -- an empty block that shares its begin with, or lies inside, another block may be reported as an
    -- overlap depending on the order of the blocks: no requirement
    let lenient := !isImage || blocks.any (fun b => b.2.isEmpty)
    return { corr, oracle := if lenient then none else some "a proper code image is rejected",
             oracleNA := lenient, tags := tags0 ++ ["memrej"] }
  if !isImage then
    return { corr, oracle := some "blocks that overlap or reach the end of the address space are accepted", tags := tags0 }
  -- equal begins only occur with empty blocks, which hold no instruction: the order does not matter
  let exp := Spec.expect rv64Table sorted
  let estr := fmtExpected exp
  let orc : Option String :=
    if estr == istr then none
    else match exp with
      | .fails a c =>
        if istr.startsWith "err:" then some s!"fails at the wrong position or for the wrong reason: expected {c} at {a}"
        else some s!"accepted although the word at {a} is {c}"
      | .insns _ =>
        if istr.startsWith "err:" then some "rejected although every instruction position holds a complete, defined word"
        else some "instructions do not tile the image with the bytes and folded effects of each word"
  let tags := tags0 ++ [match exp with | .fails _ c => "fails:" ++ c | .insns l => if l.length ≥ 2 then "tiles" else "tiles-small"]
  return { corr, oracle := orc, tags }

end Driver.Parse

namespace Driver
def parseHandlers : List (String × Handler) := [("tile", Parse.hTile)]
end Driver
