import Driver.Core
import Mltwist.Generated.Riscv32
import Mltwist.Generated.Riscv64
import Mltwist.Spec.Riscv
/-
Handlers for the RISC-V front end: C01 (semantics), C02 (decoding), C25 (text).
-/
namespace Driver
open Mltwist Mltwist.Riscv

/-- the same escaping as `fmtText` of the Go harness -/
def fmtText (s : String) : String :=
  let bs := s.toUTF8.toList
  if bs.isEmpty then "%" else
  String.ofList (bs.flatMap fun b =>
    if b > 0x20 && b < 0x7f && b != 0x25 then [Char.ofNat b.toNat]
    else ['%', hexChar (b.toNat / 16), hexChar (b.toNat % 16)])

def instructionSet (variant exts : String) : Except String (List Entry) := do
  let (i, m, a) ← match variant with
    | "32" => pure (Gen.integer32, Gen.mul32, Gen.atomic32)
    | "64" => pure (Gen.integer64, Gen.mul64, Gen.atomic64)
    | v => throw s!"bad variant {v}"
  let mut t := i
  for c in exts.toList do
    match c with
    | 'i' => pure ()
    | 'm' => t := t ++ m
    | 'a' => t := t ++ a
    | _ => throw "bad extension"
  pure t

def rvModel (tbl : List Entry) (addr : Nat) (bs : List UInt8) : String :=
  match parse tbl addr bs with
  | .short => "err:short"
  | .unknown => "err:unknown"
  | .ok e i =>
    s!"ok {fmtText e.name} {e.typ} 4 {fmtText (e.text i)} {fmtEffects (e.validEffects i)}"

/-! ### oracle: reference machine -/

open Spec.Rv in
def rvState (xlen seed addr : Nat) : St :=
  { x := fun r => rndNat (mix (mix seed 1000) r) (xlen / 8)
    csr := fun n => rndNat (mix (mix seed 2000) n) (xlen / 8)
    mem := fun a => mix (mix (mix seed 3000) a) 1 / 2 ^ 56
    pc := addr }

def keyNum (pre k : String) : Option Nat :=
  if k.startsWith pre then (k.drop pre.length).toString.toNat? else none

open Spec.Rv in
def envOfSt (s : St) : Env :=
  { reg := fun k =>
      match keyNum "x" k with
      | some n => s.get n
      | none => match keyNum "csr" k with
        | some n => s.csr (n % 4096)
        | none => 0
    mem := fun k a => if k == "memory" then s.mem a else 0 }

open Spec.Rv in
/-- apply lifted effects to a reference state: all evaluated in the pre-state, applied in order;
an instruction-pointer write is a jump, otherwise execution falls through.
Returns `none` if an effect writes something that is not a RISC-V register/CSR/memory. -/
def applyEffects (xlen : Nat) (s : St) (efs : List Effect) : Option St := do
  let ρ := envOfSt s
  let mut t := { s with pc := (s.pc + 4) % 2 ^ xlen }
  for ef in efs do
    match ef with
    | .regStore v k w =>
      let val := trunc w (v.eval ρ)
      if k == "#r:w:ip" then t := { t with pc := val }
      else match keyNum "x" k with
        | some n => if n = 0 ∨ n ≥ 32 then none else t := t.set n val
        | none => match keyNum "csr" k with
          | some n => t := t.setCsr (n % 4096) val
          | none => none
    | .memStore v k a w =>
      if k != "memory" then none
      else t := t.store (a.eval ρ % 2 ^ 64) (trunc w (v.eval ρ)) w
  pure t

open Spec.Rv in
/-- first difference between two states on the relevant locations -/
def stDiff (xlen : Nat) (word : Nat) (pre a b : St) : Option String :=
  let regs := (List.range 32).find? fun r => a.get r != b.get r
  let cn := csrNum word
  let base := pre.get (rs1 word)
  let cands := [base, wrap xlen ((base : Int) + immI word), wrap xlen ((base : Int) + immS word)]
  let addrs := cands.flatMap fun c => (List.range 8).map (c + ·)
  let mems := addrs.find? fun x => a.mem x % 256 != b.mem x % 256
  if a.pc % 2 ^ xlen != b.pc % 2 ^ xlen then some s!"pc {a.pc} vs reference {b.pc}"
  else match regs with
  | some r => some s!"x{r} = {a.get r} vs reference {b.get r}"
  | none =>
    if a.csr cn != b.csr cn then some s!"csr {cn} = {a.csr cn} vs reference {b.csr cn}"
    else match mems with
    | some x => some s!"memory[{x}] = {a.mem x % 256} vs reference {b.mem x % 256}"
    | none => none

def rvSeeds : List Nat := [11, 12, 13, 14, 15, 16, 17, 18]

/-- `rvparse <32|64> <exts> <addr> <hex>` -/
def hRvParse : Handler := fun args res => do
  let (variant, exts, addr, bs) ← runP (do
    let v ← next; let e ← next; let a ← pNat; let b ← pHex; pure (v, e, a, b)) args
  let tbl ← instructionSet variant exts
  let xlen := if variant == "32" then 32 else 64
  let hasM := exts.contains 'm'
  let hasA := exts.contains 'a'
  let model := rvModel tbl addr bs
  let istr := " ".intercalate res
  let word := leToNat (bs.take 4)
  let spec := if bs.length < 4 then none else Spec.Rv.decode xlen hasM hasA word
  let tags0 := [variant, exts, if bs.length < 4 then "short" else if bs.length > 4 then "long" else "exact"]
  match res with
  | ["PANIC"] =>
    return { corr := corrOf model istr, oracle := some "panic", tags := tags0 ++ ["panic"] }
  | ["err:short"] =>
    return { corr := corrOf model istr,
             oracle := if bs.length < 4 then none else some "rejected as too short although four bytes are present",
             tags := tags0 ++ ["rejected"] }
  | ["err:unknown"] =>
    return { corr := corrOf model istr,
             oracle := match spec with
               | none => if bs.length < 4 then some "short input not reported as short" else none
               | some n => some s!"rejected although the specification defines {n}",
             tags := tags0 ++ ["rejected"] }
  | "ok" :: nameTok :: _typ :: _len :: _text :: efToks =>
    let efs ← runP (pList pEffect) efToks
    let nameOk := match spec with
      | none => some "accepted although the specification defines no such instruction"
      | some n => if fmtText n == nameTok then none else some s!"named {nameTok}, the specification says {n}"
    let sem : Option String := match spec with
      | none => none
      | some n => rvSeeds.findSome? fun seed =>
          let pre := rvState xlen seed (addr % 2 ^ xlen)
          match Spec.Rv.exec xlen n word pre, applyEffects xlen pre efs with
          | some ref, some got => (stDiff xlen word pre got ref).map (s!"state seed {seed}: " ++ ·)
          | none, _ => some s!"reference has no semantics for {n}"
          | _, none => some "an effect writes something that is not a register, CSR or memory"
    return { corr := corrOf model istr, oracle := nameOk <|> sem,
             tags := tags0 ++ ["accepted", nameTok] }
  | _ => throw "bad rvparse result"

/-- `rvspec`: prints the reference encoding table (used by the case generator):
`<n> name match mask ext rv32 rv64 …` in the `C=diff:` field. -/
def hRvSpec : Handler := fun _ _ => do
  let rows := Spec.Rv.encodings
  let ext : Spec.Rv.Ext → String := fun e => match e with | .I => "i" | .M => "m" | .A => "a"
  let txt := rows.foldl (fun acc r =>
    acc ++ s!" {r.name} {r.mtch} {r.mask} {ext r.ext} {r.rv32} {r.rv64}") (toString rows.length)
  return { corr := some txt, oracleNA := true }

def rvHandlers : List (String × Handler) := [("rvparse", hRvParse), ("rvspec", hRvSpec)]

end Driver
