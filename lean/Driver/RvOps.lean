import Driver.Core
import Mltwist.Generated.Riscv32
import Mltwist.Generated.Riscv64
import Mltwist.Spec.Riscv
import Mltwist.Spec.RiscvLift
/-
Handlers for the RISC-V front end: C01 (semantics), C02 (decoding), C25 (text).
-/
namespace Driver
open Mltwist Mltwist.Riscv

/-- the same escaping as `fmtText` of the Go harness -/
def fmtText (s : String) : String :=
  let bs := s.toUTF8.toList
  if bs.isEmpty then "%" else
  String.ofList (bs.flatMap fun b =>
    if b > 0x20 && b < 0x7f && b != 0x25 then [Char.ofNat b.toNat]
    else ['%', hexChar (b.toNat / 16), hexChar (b.toNat % 16)])

def instructionSet (variant exts : String) : Except String (List Entry) := do
  let (i, m, a) ← match variant with
    | "32" => pure (Gen.integer32, Gen.mul32, Gen.atomic32)
    | "64" => pure (Gen.integer64, Gen.mul64, Gen.atomic64)
    | v => throw s!"bad variant {v}"
  let mut t := i
  for c in exts.toList do
    match c with
    | 'i' => pure ()
    | 'm' => t := t ++ m
    | 'a' => t := t ++ a
    | _ => throw "bad extension"
  pure t

def rvModel (tbl : List Entry) (addr : Nat) (bs : List UInt8) : String :=
  match parse tbl addr bs with
  | .short => "err:short"
  | .unknown => "err:unknown"
  | .ok e i =>
    s!"ok {fmtText e.name} {e.typ} 4 {fmtText (e.text i)} {fmtEffects (e.validEffects i)}"

/-! ### oracle: reference machine -/

open Spec.Rv in
def rvState (xlen seed addr : Nat) : St :=
  { x := fun r => rndNat (mix (mix seed 1000) r) (xlen / 8)
    csr := fun n => rndNat (mix (mix seed 2000) n) (xlen / 8)
    mem := fun a => mix (mix (mix seed 3000) a) 1 / 2 ^ 56
    pc := addr }

def keyNum (pre k : String) : Option Nat :=
  if k.startsWith pre then (k.drop pre.length).toString.toNat? else none

open Spec.Rv in
def envOfSt (s : St) : Env :=
  { reg := fun k =>
      match keyNum "x" k with
      | some n => s.get n
      | none => match keyNum "csr" k with
        | some n => s.csr (n % 4096)
        | none => 0
    mem := fun k a => if k == "memory" then s.mem a else 0 }

/-- is `k` the name of a general register x1..x31, of a CSR, or the instruction pointer? -/
def knownRegKey (k : String) : Bool :=
  k == Spec.Lift.ipKey ||
  (match keyNum "x" k with | some n => 1 ≤ n && n < 32 && Spec.Lift.xName n == k | none => false) ||
  (match keyNum "csr" k with | some n => Spec.Lift.csrName (n % 4096) == k | none => false)

def effectsWellTargeted (efs : List Effect) : Bool :=
  efs.all fun ef => match ef with
    | .regStore _ k _ => knownRegKey k
    | .memStore _ k _ _ => k == Spec.Lift.memKey

open Spec.Rv Spec.Lift in
/-- first difference between the valuation after the effects and the reference post-state -/
def postDiff (xlen word : Nat) (pre : St) (ρ' : Env) (ip : Nat) (ref : St) : Option String :=
  let regs := (List.range 32).find? fun r => r ≥ 1 && ρ'.reg (xName r) != ref.get r
  let cn := csrNum word
  let base := pre.get (rs1 word)
  let cands := [base, wrap xlen ((base : Int) + immI word), wrap xlen ((base : Int) + immS word)]
  let addrs := cands.flatMap fun c => (List.range 8).map (c + ·)
  let mems := addrs.find? fun x => x < 2 ^ 64 && ρ'.mem memKey x % 256 != ref.mem x % 256
  if ip % 2 ^ xlen != ref.pc % 2 ^ xlen then some s!"pc {ip} vs reference {ref.pc}"
  else match regs with
  | some r => some s!"x{r} = {ρ'.reg (xName r)} vs reference {ref.get r}"
  | none =>
    if ρ'.reg (csrName cn) != ref.csr cn then some s!"csr {cn} = {ρ'.reg (csrName cn)} vs reference {ref.csr cn}"
    else match mems with
    | some x => some s!"memory[{x}] = {ρ'.mem memKey x % 256} vs reference {ref.mem x % 256}"
    | none => none

def rvSeeds : List Nat := [11, 12, 13, 14, 15, 16, 17, 18]

/-- `rvparse <32|64> <exts> <addr> <hex>` -/
def hRvParse : Handler := fun args res => do
  let (variant, exts, addr, bs) ← runP (do
    let v ← next; let e ← next; let a ← pNat; let b ← pHex; pure (v, e, a, b)) args
  let tbl ← instructionSet variant exts
  let xlen := if variant == "32" then 32 else 64
  let hasM := exts.contains 'm'
  let hasA := exts.contains 'a'
  let model := rvModel tbl addr bs
  let istr := " ".intercalate res
  let word := leToNat (bs.take 4)
  let spec := if bs.length < 4 then none else Spec.Rv.decode xlen hasM hasA word
  let tags0 := [variant, exts, if bs.length < 4 then "short" else if bs.length > 4 then "long" else "exact"]
  match res with
  | ["PANIC"] =>
    return { corr := corrOf model istr, oracle := some "panic", tags := tags0 ++ ["panic"] }
  | ["err:short"] =>
    return { corr := corrOf model istr,
             oracle := if bs.length < 4 then none else some "rejected as too short although four bytes are present",
             tags := tags0 ++ ["rejected"] }
  | ["err:unknown"] =>
    return { corr := corrOf model istr,
             oracle := match spec with
               | none => if bs.length < 4 then some "short input not reported as short" else none
               | some n => some s!"rejected although the specification defines {n}",
             tags := tags0 ++ ["rejected"] }
  | "ok" :: nameTok :: _typ :: _len :: _text :: efToks =>
    let efs ← runP (pList pEffect) efToks
    let nameOk := match spec with
      | none => some "accepted although the specification defines no such instruction"
      | some n => if fmtText n == nameTok then none else some s!"named {nameTok}, the specification says {n}"
    let sem : Option String := match spec with
      | none => none
      | some n =>
        if !effectsWellTargeted efs then some "an effect writes something that is not a register, CSR or memory"
        else rvSeeds.findSome? fun seed =>
          let pre := rvState xlen seed (addr % 2 ^ xlen)
          if !Spec.Rv.noWrap xlen n word pre then none else
          match Spec.Rv.exec xlen n word pre with
          | none => some s!"reference has no semantics for {n}"
          | some ref =>
            let ρ := envOfSt pre
            let ρ' := Spec.Lift.Env.applyEffects ρ efs
            let ip := Spec.Lift.nextIp ρ efs ((pre.pc + 4) % 2 ^ xlen)
            (postDiff xlen word pre ρ' ip ref).map (s!"state seed {seed}: " ++ ·)
    return { corr := corrOf model istr, oracle := nameOk <|> sem,
             tags := tags0 ++ ["accepted", nameTok] }
  | _ => throw "bad rvparse result"

/-- `rvpair <32|64> <exts> <addr> <hex1> <hex2>`: C25 — two words at one address whose lifted
behaviour differs must not be shown with identical text; the text starts with the mnemonic. -/
def hRvPair : Handler := fun args res => do
  let (variant, exts, addr, b1, b2) ← runP (do
    let v ← next; let e ← next; let a ← pNat; let b1 ← pHex; let b2 ← pHex; pure (v, e, a, b1, b2)) args
  let tbl ← instructionSet variant exts
  let model := rvModel tbl addr b1 ++ " || " ++ rvModel tbl addr b2
  let istr := " ".intercalate res
  let r1 := res.takeWhile (· ≠ "||")
  let r2 := (res.dropWhile (· ≠ "||")).drop 1
  let tags0 := [variant, exts]
  match r1, r2 with
  | "ok" :: n1 :: _ :: _ :: t1 :: e1, "ok" :: n2 :: _ :: _ :: t2 :: e2 =>
    let orc := firstFail [
      (t1.startsWith (n1 ++ "%20") || t1 == n1 ++ "%20" || t1 == n1, "text does not start with the mnemonic"),
      (t2.startsWith (n2 ++ "%20") || t2 == n2, "text does not start with the mnemonic"),
      (t1 != t2 || e1 == e2, s!"identical text {t1} for words with different lifted effects")]
    return { corr := corrOf model istr, oracle := orc,
             tags := tags0 ++ ["bothok", n1, if t1 == t2 then "sametext" else "difftext",
                               if e1 == e2 then "sameeffects" else "diffeffects"] }
  | _, _ =>
    return { corr := corrOf model istr, oracle := if res.contains "PANIC" then some "panic" else none,
             oracleNA := !res.contains "PANIC", tags := tags0 ++ ["notboth"] }

/-- `rvsweep <32|64> <exts> <lo> <hi> <nrows> (name match mask)…`: exhaustive comparison done inside
the harness; here we check that the rows on the line ARE the reference rows of the configuration and
that the harness found no mismatch. -/
def hRvSweep : Handler := fun args res => do
  let (variant, exts, lo, hi, rows) ← runP (do
    let v ← next; let e ← next; let lo ← pNat; let hi ← pNat
    let rows ← pList (do let n ← next; let mt ← pNat; let mk ← pNat; pure (n, mt, mk))
    pure (v, e, lo, hi, rows)) args
  let xlen := if variant == "32" then 32 else 64
  let ref := (Spec.Rv.rows xlen (exts.contains 'm') (exts.contains 'a')).map fun r => (fmtText r.name, r.mtch, r.mask)
  let rowsOk := rows == ref
  let tags := [variant, exts, "sweep"]
  match res with
  | acc :: mism :: rest =>
    let orc := if !rowsOk then some "the rows on the line are not the reference rows of the configuration"
      else if mism != "0" then some s!"decoder differs from the reference on {mism} words of [{lo},{hi}), first: {" ".intercalate rest}"
      else none
    return { corr := none, oracle := orc, tags := tags ++ [s!"accepted{acc}"] }
  | _ => return { corr := some "sweep result", oracle := some "panic or malformed sweep result", tags }

/-- `rvspec`: prints the reference encoding table (used by the case generator):
`<n> name match mask ext rv32 rv64 …` in the `C=diff:` field. -/
def hRvSpec : Handler := fun _ _ => do
  let rows := Spec.Rv.encodings
  let ext : Spec.Rv.Ext → String := fun e => match e with | .I => "i" | .M => "m" | .A => "a"
  let txt := rows.foldl (fun acc r =>
    acc ++ s!" {r.name} {r.mtch} {r.mask} {ext r.ext} {r.rv32} {r.rv64}") (toString rows.length)
  return { corr := some txt, oracleNA := true }

def rvHandlers : List (String × Handler) := [("rvparse", hRvParse), ("rvpair", hRvPair), ("rvsweep", hRvSweep), ("rvspec", hRvSpec)]

end Driver
