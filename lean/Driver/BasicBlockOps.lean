import Driver.Core
import Mltwist.Spec.BasicBlock
/-
Handlers for basic-block identification (C08).

  bbparse <entry> <n> (<addr> <len> <neffects> EF…)… => <nblocks> (<k> (<addr> <len>)…)… | err:<stage>:<class>
  bbjumps <addr> <len> <neffects> EF…                 => <n> E…
-/
namespace Driver
open Mltwist Mltwist.BasicBlock

def pRawIns : P (Nat × Nat × List Effect) := do
  let a ← pNat
  let l ← pNat
  let efs ← pList pEffect
  pure (a, l, efs)

def fmtBBErrClass : ErrClass → String
  | .noBlock => "noblock" | .notContained => "notcontained" | .notFound => "notfound"
  | .notBoundary => "boundary"

def fmtParseFail : ParseFail → String
  | .panic => "PANIC"
  | .jumpTarget c => "err:jt:" ++ fmtBBErrClass c
  | .entry c => "err:entry:" ++ fmtBBErrClass c

def fmtBlocks (bs : List (List (Nat × Nat))) : String :=
  bs.foldl (fun acc b =>
    b.foldl (fun acc i => acc ++ s!" {i.1} {i.2}") (acc ++ s!" {b.length}")) (toString bs.length)

def pBlocks : P (List (List (Nat × Nat))) :=
  pList (pList (do let a ← pNat; let l ← pNat; pure (a, l)))

def hBBParse : Handler := fun args res => do
  let (entry, raw) ← runP (do let e ← pNat; let l ← pList pRawIns; pure (e, l)) args
  let m := newCode entry raw
  let mstr := match m with
    | .ok bs => fmtBlocks (bs.map (·.map fun i => (i.addr, i.len)))
    | .error f => fmtParseFail f
  let istr := " ".intercalate res
  -- the oracle sees the instructions with their real jump targets recomputed by the spec
  let ins : List Ins := raw.map fun (a, l, efs) => ⟨a, l, Spec.realTargets a l efs⟩
  let wf := Spec.wfB ins
  let fails := Spec.failsB entry ins
  let sorted := Spec.sortByAddr ins
  let cuts := Spec.cutPositions entry ins sorted
  let pairTag (name : String) (p : Ins → Ins → Bool) : List String :=
    if (sorted.zip (sorted.drop 1)).any (fun ab => p ab.1 ab.2) then [name] else []
  let allJ := ins.flatMap (·.jumps)
  let rawT := raw.flatMap fun (_, _, efs) => Spec.ipValues efs
  let tags := ["bbparse",
      if wf then "wf" else "nonwf",
      if fails then "fails" else "succeeds",
      if ins.isEmpty then "empty" else if ins.length ≥ 4 then "n4+" else "n1-3"] ++
    (if !fails && cuts.length ≥ 1 then ["cuts"] else []) ++
    (if !fails && cuts.length ≥ 3 then ["cuts3+"] else []) ++
    (if !fails && cuts.length + 1 < sorted.length then ["uncut"] else []) ++
    pairTag "cut-jump" (fun a _ => !a.jumps.isEmpty) ++
    pairTag "cut-gap" (fun a b => (a.addr + a.len) % 2 ^ 64 != b.addr) ++
    pairTag "cut-target" (fun _ b => (Spec.constTargets ins).contains b.addr) ++
    pairTag "cut-entry" (fun _ b => b.addr == entry) ++
    (if rawT.length > allJ.length then ["fallthrough-dropped"] else []) ++
    (if allJ.any (fun e => !e.isConst) then ["symbolic"] else []) ++
    (if allJ.any (fun e => e.isConst && (Spec.constAddr e).isNone) then ["wide"] else []) ++
    (if ins.any (fun i => i.jumps.length ≥ 2) then ["multi-target"] else []) ++
    (if ins.any (fun i => i.addr + i.len ≥ 2 ^ 64) then ["top"] else [])
  if res == ["PANIC"] || res == ["CRASH"] then
    return { corr := corrOf mstr istr, oracle := some "panic", tags }
  if !wf then
    return { corr := corrOf mstr istr, oracleNA := true, tags }
  let orc ←
    match res with
    | [r] =>
      if r.startsWith "err:" then
        pure (if fails then none else some "fails although the entry point and all constant targets are instruction starts")
      else if r == "0" then
        pure (if fails then some "succeeds although the entry point or a constant target is not an instruction start"
              else Spec.checkBlocks entry ins [])
      else throw s!"bad result {r}"
    | _ => do
      let bs ← runP pBlocks res
      pure (if fails then some "succeeds although the entry point or a constant target is not an instruction start"
            else Spec.checkBlocks entry ins bs)
  return { corr := corrOf mstr istr, oracle := orc, tags }

def hBBJumps : Handler := fun args res => do
  let (a, l, efs) ← runP pRawIns args
  let m := jumps a l efs
  let istr := " ".intercalate res
  let tags := ["bbjumps", if m.isEmpty then "nojump" else "jump",
    if (Spec.ipValues efs).length > m.length then "fallthrough-dropped" else "nodrop"]
  if res == ["PANIC"] then
    return { corr := corrOf (fmtExprs m) istr, oracle := some "panic", tags }
  let im ← runP pExprs res
  let orc := if im == Spec.realTargets a l efs then none else some "not the real jump targets"
  return { corr := corrOf (fmtExprs m) istr, oracle := orc, tags }

def basicBlockHandlers : List (String × Handler) := [
  ("bbparse", hBBParse),
  ("bbjumps", hBBJumps)]

end Driver
