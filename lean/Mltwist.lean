import Mltwist.Model.Expr
import Mltwist.Model.Expreval
import Mltwist.Model.Transform
import Mltwist.Model.Exprtools
import Mltwist.Spec.Checks
import Mltwist.Spec.Gadgets
import Mltwist.Model.Const
