import Mltwist.Model.BytesHeap
/-
Vocabulary of the aliasing theorems of C15 on the heap-level model: which arrays the memory may
write (`Owns`), which operations a caller can issue (`WfOp`), and the invariant of reachable states
(`Good`): everything the caller holds lives in arrays the memory does not own and still has the
contents it had at hand-over time.
-/
namespace Mltwist.BytesHeap

/-- a slice through which something can be written (a slice with `len = cap = 0` cannot) -/
def Live (s : Slice) : Prop := 0 < s.len ∨ 0 < s.cap

/-- the memory can write array `id`: a live slice of one of its blocks points into it -/
def Owns (bs : List HBlock) (id : Nat) : Prop := ∃ b ∈ bs, Live b.2 ∧ b.2.arr = id

/-- an operation of the caller is well formed: a constant that is not the result of a `Load` lives in
an array that existed before `NewBytes` (`base` = size of the initial heap) -/
def WfOp (base : Nat) : HOp → Prop
  | .st _ _ (.ext s) => s.arr < base
  | _ => True

structure Good (base : Nat) (st : HState) : Prop where
  base_le : base ≤ st.heap.length
  blocks : ∀ b ∈ st.blocks, Live b.2 → base ≤ b.2.arr ∧ b.2.arr < st.heap.length
  loaded : ∀ c ∈ st.loaded, c.arr < st.heap.length ∧ ¬ Owns st.blocks c.arr
  mon : ∀ m ∈ st.mon, read st.heap m.1 = m.2 ∧ m.1.arr < st.heap.length ∧
    ¬ Owns st.blocks m.1.arr

end Mltwist.BytesHeap
