import Mltwist.Model.Interval
/-
Abstract meaning of interval lists: sets of integers; and the normal form.
-/
namespace Mltwist.Interval

/-- `x` belongs to the set denoted by `m` -/
def Mem (x : Int) (m : List Intv) : Prop := ∃ i ∈ m, i.1 ≤ x ∧ x < i.2

/-- sorted, disjoint, non-adjacent, non-empty -/
def Normal : List Intv → Prop
  | [] => True
  | [i] => i.1 < i.2
  | i :: j :: rest => i.1 < i.2 ∧ i.2 < j.1 ∧ Normal (j :: rest)

/-- executable versions for the oracle -/
def memB (x : Int) (m : List Intv) : Bool := m.any fun i => i.1 ≤ x && x < i.2

def normalB : List Intv → Bool
  | [] => true
  | [i] => i.1 < i.2
  | i :: j :: rest => i.1 < i.2 && i.2 < j.1 && normalB (j :: rest)

end Mltwist.Interval
