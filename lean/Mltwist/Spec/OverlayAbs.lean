import Mltwist.Model.Overlay
import Mltwist.Spec.Overlay
import Mltwist.Spec.SparseAbs
import Mltwist.Spec.IntervalSet
/-
Vocabulary of the C16 theorems (core Lean only): the memory laws every `memory.Memory` is expected to
obey with respect to an abstract byte map, the representation invariant and the abstraction of the
memories of `Model/Overlay.lean`.
-/
namespace Mltwist.Overlay
open Mltwist Mltwist.Interval Mltwist.Spec.Overlay

/-- the ranges the laws speak about: `1 ≤ w ≤ 255` and `a + w < 2^64` (as for C14) -/
abbrev InDom (a w : Nat) : Prop := Sparse.InDom a w

/-- The memory laws that C14 and C15 establish for `Sparse` and `Bytes`, stated once for a `View`
(the three query methods of a memory in some state) against an abstract byte map `m`:

* `Load` does not panic, succeeds exactly when every byte of `[a, a+w)` is present, and then returns
  a `w`-byte expression whose value under every valuation is the little-endian sum of the bytes;
* `Missing` does not panic and returns, in normal form, exactly the absent part of `[a, a+w)`;
* `Blocks` does not panic and returns, in normal form, exactly the set of present addresses. -/
structure MemLaws (v : View) (m : AbsMem) : Prop where
  bytewise : Bytewise m
  load : ∀ a w, InDom a w → ∃ r, v.load a w = .ok r ∧
    (r ≠ none ↔ ∀ i, i < w → m (a + i) ≠ none) ∧
    ∀ e, r = some e → e.width = w ∧ ∀ ρ, e.eval ρ = loadVal ρ m a w
  missing : ∀ a w, InDom a w → ∃ l, v.missing a w = .ok l ∧ Normal l ∧
    ∀ x : Int, Interval.Mem x l ↔ ((a : Int) ≤ x ∧ x.toNat < a + w ∧ m x.toNat = none)
  blocks : ∃ l, v.blocks = .ok l ∧ Normal l ∧
    ∀ x : Int, Interval.Mem x l ↔ ((0 : Int) ≤ x ∧ m x.toNat ≠ none)

/-- representation invariant of a stack of memories: the invariants of C15 and C14 in every layer -/
def Mem.Inv : Mem → Prop
  | .bytes bs => BytesSpec.Inv bs
  | .sparse t => Sparse.Inv t
  | .overlay b o => b.Inv ∧ o.Inv

/-- the abstract byte map of a stack of memories -/
def Mem.abs : Mem → AbsMem
  | .bytes bs => ofBytes (BytesSpec.ofBlocks bs)
  | .sparse t => ofSparse (Sparse.abs t)
  | .overlay b o => layer o.abs b.abs

/-- `Store` of `e` is supported by the top-most layer (a byte memory takes constants only) -/
def Mem.Storable : Mem → Expr → Prop
  | .bytes _, e => e.isConst = true
  | .sparse _, _ => True
  | .overlay _ o, e => o.Storable e

/-- replay of a history of stores (oldest first) on a memory; `error` = some Go panic -/
def runStores : Mem → List Sparse.StoreReq → Except Fail Mem
  | m, [] => .ok m
  | m, r :: rs =>
    match m.store r.addr r.ex r.w with
    | .ok m' => runStores m' rs
    | .error f => .error f

/-- replay of a history of stores (oldest first) on a byte map: the most recent write wins -/
def absStores : AbsMem → List Sparse.StoreReq → AbsMem
  | A, [] => A
  | A, r :: rs => absStores (A.store r.addr r.ex r.w) rs

/-- the view of a `MemMap` at a key -/
def MemMap.view (m : MemMap) (key : String) : View where
  load := m.load key
  missing := m.missing key
  blocks := m.blocks key

def MemMap.Inv (m : MemMap) : Prop := ∀ key mem, assocGet key m = some mem → mem.Inv

/-- the abstract byte map of the address space `key` (empty for an unknown key) -/
def MemMap.abs (m : MemMap) (key : String) : AbsMem :=
  match assocGet key m with
  | some mem => mem.abs
  | none => AbsMem.empty

/-- every store to the address space `key` is supported (unknown keys get a fresh `Sparse`) -/
def MemMap.Storable (m : MemMap) (key : String) (e : Expr) : Prop :=
  match assocGet key m with
  | some mem => mem.Storable e
  | none => True

end Mltwist.Overlay
