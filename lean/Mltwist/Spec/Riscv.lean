/-
Reference for the RISC-V front end (C01, C02, C25): my transcription of "The RISC-V Instruction Set
Manual, Volume I: Unprivileged ISA" for RV32I/RV64I + Zicsr + Zifencei + M + A.  Independent of the
model of the Go code: it does not import it and shares no definition with it.

Encodings are (match, mask) pairs in the style of riscv-opcodes; semantics are functions on a
machine state over unbounded naturals with explicit `mod 2^xlen`.  The tool's documented
approximations are part of the reference: `sc` always succeeds (writes 0 to rd), `fence`, `fence.i`,
`ecall`, `ebreak` change no state, `lr` is a plain load, CSR accesses have no side effects.
-/
namespace Mltwist.Spec.Rv

inductive Ext where
  | I | M | A
  deriving DecidableEq, Repr

/-- one row of the encoding table; `rv32`/`rv64` say in which base the row is present -/
structure Enc where
  name : String
  mtch : Nat
  mask : Nat
  ext : Ext
  rv32 : Bool := true
  rv64 : Bool := true
  deriving Repr

def R (name : String) (mtch : Nat) (ext : Ext := .I) (rv32 := true) : Enc :=
  { name, mtch, mask := 0xfe00707f, ext, rv32 }
def I3 (name : String) (mtch : Nat) (rv32 := true) : Enc := { name, mtch, mask := 0x707f, ext := .I, rv32 }
def AMO (name : String) (mtch : Nat) (rv32 := true) : Enc :=
  { name, mtch, mask := 0xf800707f, ext := .A, rv32 }

def encodings : List Enc := [
  { name := "lui", mtch := 0x37, mask := 0x7f, ext := .I },
  { name := "auipc", mtch := 0x17, mask := 0x7f, ext := .I },
  { name := "jal", mtch := 0x6f, mask := 0x7f, ext := .I },
  I3 "jalr" 0x67,
  I3 "beq" 0x63, I3 "bne" 0x1063, I3 "blt" 0x4063, I3 "bge" 0x5063, I3 "bltu" 0x6063, I3 "bgeu" 0x7063,
  I3 "lb" 0x03, I3 "lh" 0x1003, I3 "lw" 0x2003, I3 "lbu" 0x4003, I3 "lhu" 0x5003,
  I3 "lwu" 0x6003 false, I3 "ld" 0x3003 false,
  I3 "sb" 0x23, I3 "sh" 0x1023, I3 "sw" 0x2023, I3 "sd" 0x3023 false,
  I3 "addi" 0x13, I3 "slti" 0x2013, I3 "sltiu" 0x3013, I3 "xori" 0x4013, I3 "ori" 0x6013, I3 "andi" 0x7013,
  -- shift immediates: shamt has 5 bits on RV32 (bit 25 reserved = 0), 6 bits on RV64
  { name := "slli", mtch := 0x1013, mask := 0xfe00707f, ext := .I, rv64 := false },
  { name := "srli", mtch := 0x5013, mask := 0xfe00707f, ext := .I, rv64 := false },
  { name := "srai", mtch := 0x40005013, mask := 0xfe00707f, ext := .I, rv64 := false },
  { name := "slli", mtch := 0x1013, mask := 0xfc00707f, ext := .I, rv32 := false },
  { name := "srli", mtch := 0x5013, mask := 0xfc00707f, ext := .I, rv32 := false },
  { name := "srai", mtch := 0x40005013, mask := 0xfc00707f, ext := .I, rv32 := false },
  R "add" 0x33, R "sub" 0x40000033, R "sll" 0x1033, R "slt" 0x2033, R "sltu" 0x3033, R "xor" 0x4033,
  R "srl" 0x5033, R "sra" 0x40005033, R "or" 0x6033, R "and" 0x7033,
  I3 "addiw" 0x1b false,
  R "slliw" 0x101b .I false, R "srliw" 0x501b .I false, R "sraiw" 0x4000501b .I false,
  R "addw" 0x3b .I false, R "subw" 0x4000003b .I false, R "sllw" 0x103b .I false,
  R "srlw" 0x503b .I false, R "sraw" 0x4000503b .I false,
  -- fence: rd, rs1 and fm are reserved and must be zero; pred/succ free
  { name := "fence", mtch := 0x0f, mask := 0xf00fffff, ext := .I },
  { name := "fence.i", mtch := 0x100f, mask := 0xffffffff, ext := .I },
  { name := "ecall", mtch := 0x73, mask := 0xffffffff, ext := .I },
  { name := "ebreak", mtch := 0x100073, mask := 0xffffffff, ext := .I },
  I3 "csrrw" 0x1073, I3 "csrrs" 0x2073, I3 "csrrc" 0x3073,
  I3 "csrrwi" 0x5073, I3 "csrrsi" 0x6073, I3 "csrrci" 0x7073,
  R "mul" 0x02000033 .M, R "mulh" 0x02001033 .M, R "mulhsu" 0x02002033 .M, R "mulhu" 0x02003033 .M,
  R "div" 0x02004033 .M, R "divu" 0x02005033 .M, R "rem" 0x02006033 .M, R "remu" 0x02007033 .M,
  R "mulw" 0x0200003b .M false, R "divw" 0x0200403b .M false, R "divuw" 0x0200503b .M false,
  R "remw" 0x0200603b .M false, R "remuw" 0x0200703b .M false,
  { name := "lr.w", mtch := 0x1000202f, mask := 0xf9f0707f, ext := .A },
  AMO "sc.w" 0x1800202f, AMO "amoswap.w" 0x0800202f, AMO "amoadd.w" 0x0000202f, AMO "amoxor.w" 0x2000202f,
  AMO "amoand.w" 0x6000202f, AMO "amoor.w" 0x4000202f, AMO "amomin.w" 0x8000202f, AMO "amomax.w" 0xa000202f,
  AMO "amominu.w" 0xc000202f, AMO "amomaxu.w" 0xe000202f,
  { name := "lr.d", mtch := 0x1000302f, mask := 0xf9f0707f, ext := .A, rv32 := false },
  AMO "sc.d" 0x1800302f false, AMO "amoswap.d" 0x0800302f false, AMO "amoadd.d" 0x0000302f false,
  AMO "amoxor.d" 0x2000302f false, AMO "amoand.d" 0x6000302f false, AMO "amoor.d" 0x4000302f false,
  AMO "amomin.d" 0x8000302f false, AMO "amomax.d" 0xa000302f false, AMO "amominu.d" 0xc000302f false,
  AMO "amomaxu.d" 0xe000302f false
]

/-- rows present in a configuration (`xlen` = 32 or 64; base I always present) -/
def rows (xlen : Nat) (m a : Bool) : List Enc :=
  encodings.filter fun e =>
    (if xlen = 32 then e.rv32 else e.rv64) &&
    (match e.ext with | .I => true | .M => m | .A => a)

/-- the instruction a 32-bit word denotes in a configuration, if any -/
def decode (xlen : Nat) (m a : Bool) (word : Nat) : Option String :=
  ((rows xlen m a).find? fun e => word &&& e.mask == e.mtch).map (·.name)

/-! ### Execution -/

structure St where
  x : Nat → Nat
  csr : Nat → Nat
  mem : Nat → Nat
  pc : Nat

def St.get (s : St) (r : Nat) : Nat := if r = 0 then 0 else s.x r
def St.set (s : St) (r v : Nat) : St :=
  if r = 0 then s else { s with x := fun k => if k = r then v else s.x k }
def St.setCsr (s : St) (n v : Nat) : St := { s with csr := fun k => if k = n then v else s.csr k }

/-- `n` bytes at `a`, little endian -/
def St.load (s : St) (a : Nat) : Nat → Nat
  | 0 => 0
  | n + 1 => s.mem a % 256 + 256 * s.load (a + 1) n

def storeBytes (mem : Nat → Nat) (a v : Nat) : Nat → (Nat → Nat)
  | 0 => mem
  | n + 1 => storeBytes (fun k => if k = a then v % 256 else mem k) (a + 1) (v / 256) n

def St.store (s : St) (a v n : Nat) : St := { s with mem := storeBytes s.mem a v n }

/-- signed reading of an `n`-bit value -/
def sx (n v : Nat) : Int := if v % 2 ^ n < 2 ^ (n - 1) then (v % 2 ^ n : Nat) else (v % 2 ^ n : Nat) - (2 ^ n : Nat)
/-- `n`-bit two's complement of an integer -/
def wrap (n : Nat) (i : Int) : Nat := (i % (2 ^ n : Nat)).toNat
/-- sign extension of the low `n` bits of `v` to `xlen` bits -/
def sext (xlen n v : Nat) : Nat := wrap xlen (sx n v)

def bits (w lo n : Nat) : Nat := (w / 2 ^ lo) % 2 ^ n
def rd (w : Nat) := bits w 7 5
def rs1 (w : Nat) := bits w 15 5
def rs2 (w : Nat) := bits w 20 5
def immI (w : Nat) : Int := sx 12 (bits w 20 12)
def immS (w : Nat) : Int := sx 12 (bits w 25 7 * 32 + bits w 7 5)
def immB (w : Nat) : Int :=
  sx 13 (bits w 31 1 * 4096 + bits w 7 1 * 2048 + bits w 25 6 * 32 + bits w 8 4 * 2)
def immU (w : Nat) : Int := sx 32 (bits w 12 20 * 4096)
def immJ (w : Nat) : Int :=
  sx 21 (bits w 31 1 * 1048576 + bits w 12 8 * 4096 + bits w 20 1 * 2048 + bits w 21 10 * 2)
def csrNum (w : Nat) : Nat := bits w 20 12
def zimm (w : Nat) : Nat := bits w 15 5

/-- truncating signed division / remainder with the RISC-V corner cases, on `n`-bit values -/
def sdiv (n a b : Nat) : Nat :=
  if b % 2 ^ n = 0 then 2 ^ n - 1
  else wrap n (Int.tdiv (sx n a) (sx n b))          -- overflow (-2^(n-1) / -1) wraps to the dividend
def srem (n a b : Nat) : Nat :=
  if b % 2 ^ n = 0 then a % 2 ^ n
  else wrap n (Int.tmod (sx n a) (sx n b))          -- sign of the dividend; overflow gives 0
def udiv (n a b : Nat) : Nat := if b % 2 ^ n = 0 then 2 ^ n - 1 else (a % 2 ^ n) / (b % 2 ^ n)
def urem (n a b : Nat) : Nat := if b % 2 ^ n = 0 then a % 2 ^ n else (a % 2 ^ n) % (b % 2 ^ n)

/-- arithmetic right shift of an `n`-bit value -/
def sra (n v sh : Nat) : Nat := wrap n (sx n v / (2 ^ sh : Nat))

/-- Execute the instruction `name` encoded by `w` at `s.pc` on an `xlen`-bit machine. -/
def exec (xlen : Nat) (name : String) (w : Nat) (s : St) : Option St :=
  let X := 2 ^ xlen
  let a := s.get (rs1 w)
  let b := s.get (rs2 w)
  let next := (s.pc + 4) % X
  let fall (t : St) : St := { t with pc := next }
  let wr (v : Nat) : Option St := some (fall (s.set (rd w) (v % X)))
  let addr (i : Int) : Nat := wrap xlen ((a : Int) + i)
  let shamt := if xlen = 32 then bits w 20 5 else bits w 20 6
  let br (c : Bool) : Option St := some (if c then { s with pc := wrap xlen ((s.pc : Int) + immB w) } else fall s)
  let ld (n : Nat) (signed : Bool) : Option St :=
    let v := s.load (addr (immI w)) n
    wr (if signed then sext xlen (8 * n) v else v)
  let st (n : Nat) : Option St := some (fall (s.store (addr (immS w)) b n))
  let amo (n : Nat) (f : Nat → Nat → Nat) : Option St :=
    let t := s.load a n
    some (fall ((s.store a (f t (b % 2 ^ (8 * n)) % 2 ^ (8 * n)) n).set (rd w) (sext xlen (8 * n) t)))
  let smin (n : Nat) (p q : Nat) := if sx n p < sx n q then p else q
  let smax (n : Nat) (p q : Nat) := if sx n p < sx n q then q else p
  let csrOp (f : Nat → Nat) : Option St :=
    let t := s.csr (csrNum w)
    some (fall ((s.setCsr (csrNum w) (f t % X)).set (rd w) t))
  let w32 (v : Nat) : Option St := wr (sext xlen 32 v)
  match name with
  | "lui" => wr (wrap xlen (immU w))
  | "auipc" => wr (wrap xlen ((s.pc : Int) + immU w))
  | "jal" => some { (s.set (rd w) next) with pc := wrap xlen ((s.pc : Int) + immJ w) }
  | "jalr" => some { (s.set (rd w) next) with pc := (addr (immI w)) / 2 * 2 }
  | "beq" => br (a == b) | "bne" => br (a != b)
  | "blt" => br (sx xlen a < sx xlen b) | "bge" => br (!(sx xlen a < sx xlen b))
  | "bltu" => br (a < b) | "bgeu" => br (!(a < b))
  | "lb" => ld 1 true | "lh" => ld 2 true | "lw" => ld 4 true | "ld" => ld 8 true
  | "lbu" => ld 1 false | "lhu" => ld 2 false | "lwu" => ld 4 false
  | "sb" => st 1 | "sh" => st 2 | "sw" => st 4 | "sd" => st 8
  | "addi" => wr (wrap xlen ((a : Int) + immI w))
  | "slti" => wr (if sx xlen a < immI w then 1 else 0)
  | "sltiu" => wr (if a < wrap xlen (immI w) then 1 else 0)
  | "xori" => wr (a ^^^ wrap xlen (immI w))
  | "ori" => wr (a ||| wrap xlen (immI w))
  | "andi" => wr (a &&& wrap xlen (immI w))
  | "slli" => wr (a * 2 ^ shamt)
  | "srli" => wr (a / 2 ^ shamt)
  | "srai" => wr (sra xlen a shamt)
  | "add" => wr (a + b) | "sub" => wr (wrap xlen ((a : Int) - b))
  | "sll" => wr (a * 2 ^ (b % xlen)) | "srl" => wr (a / 2 ^ (b % xlen)) | "sra" => wr (sra xlen a (b % xlen))
  | "slt" => wr (if sx xlen a < sx xlen b then 1 else 0)
  | "sltu" => wr (if a < b then 1 else 0)
  | "xor" => wr (a ^^^ b) | "or" => wr (a ||| b) | "and" => wr (a &&& b)
  | "addiw" => w32 (wrap 32 ((a : Int) + immI w))
  | "slliw" => w32 (a % 2 ^ 32 * 2 ^ bits w 20 5)
  | "srliw" => w32 (a % 2 ^ 32 / 2 ^ bits w 20 5)
  | "sraiw" => w32 (sra 32 a (bits w 20 5))
  | "addw" => w32 (a + b) | "subw" => w32 (wrap 32 ((a : Int) - b))
  | "sllw" => w32 (a % 2 ^ 32 * 2 ^ (b % 32)) | "srlw" => w32 (a % 2 ^ 32 / 2 ^ (b % 32))
  | "sraw" => w32 (sra 32 a (b % 32))
  | "fence" | "fence.i" | "ecall" | "ebreak" => some (fall s)
  | "csrrw" => csrOp (fun _ => a) | "csrrs" => csrOp (fun t => t ||| a)
  | "csrrc" => csrOp (fun t => t &&& (X - 1 - a))
  | "csrrwi" => csrOp (fun _ => zimm w) | "csrrsi" => csrOp (fun t => t ||| zimm w)
  | "csrrci" => csrOp (fun t => t &&& (X - 1 - zimm w))
  | "mul" => wr (a * b)
  | "mulh" => wr (wrap xlen (sx xlen a * sx xlen b / (X : Int)))
  | "mulhsu" => wr (wrap xlen (sx xlen a * (b : Int) / (X : Int)))
  | "mulhu" => wr (a * b / X)
  | "div" => wr (sdiv xlen a b) | "divu" => wr (udiv xlen a b)
  | "rem" => wr (srem xlen a b) | "remu" => wr (urem xlen a b)
  | "mulw" => w32 (a * b) | "divw" => w32 (sdiv 32 a b) | "divuw" => w32 (udiv 32 a b)
  | "remw" => w32 (srem 32 a b) | "remuw" => w32 (urem 32 a b)
  | "lr.w" => wr (sext xlen 32 (s.load a 4)) | "lr.d" => wr (s.load a 8)
  | "sc.w" => some (fall ((s.store a b 4).set (rd w) 0))
  | "sc.d" => some (fall ((s.store a b 8).set (rd w) 0))
  | "amoswap.w" => amo 4 (fun _ q => q) | "amoadd.w" => amo 4 (· + ·) | "amoxor.w" => amo 4 (· ^^^ ·)
  | "amoand.w" => amo 4 (· &&& ·) | "amoor.w" => amo 4 (· ||| ·)
  | "amomin.w" => amo 4 (smin 32) | "amomax.w" => amo 4 (smax 32)
  | "amominu.w" => amo 4 min | "amomaxu.w" => amo 4 max
  | "amoswap.d" => amo 8 (fun _ q => q) | "amoadd.d" => amo 8 (· + ·) | "amoxor.d" => amo 8 (· ^^^ ·)
  | "amoand.d" => amo 8 (· &&& ·) | "amoor.d" => amo 8 (· ||| ·)
  | "amomin.d" => amo 8 (smin 64) | "amomax.d" => amo 8 (smax 64)
  | "amominu.d" => amo 8 min | "amomaxu.d" => amo 8 max
  | _ => none

/-- the memory range `(address, bytes)` an instruction accesses, if any -/
def accessRange (xlen : Nat) (name : String) (w : Nat) (s : St) : Option (Nat × Nat) :=
  let a := s.get (rs1 w)
  let ld := wrap xlen ((a : Int) + immI w)
  let st := wrap xlen ((a : Int) + immS w)
  match name with
  | "lb" | "lbu" => some (ld, 1) | "lh" | "lhu" => some (ld, 2) | "lw" | "lwu" => some (ld, 4) | "ld" => some (ld, 8)
  | "sb" => some (st, 1) | "sh" => some (st, 2) | "sw" => some (st, 4) | "sd" => some (st, 8)
  | "lr.w" | "sc.w" | "amoswap.w" | "amoadd.w" | "amoxor.w" | "amoand.w" | "amoor.w"
  | "amomin.w" | "amomax.w" | "amominu.w" | "amomaxu.w" => some (a, 4)
  | "lr.d" | "sc.d" | "amoswap.d" | "amoadd.d" | "amoxor.d" | "amoand.d" | "amoor.d"
  | "amomin.d" | "amomax.d" | "amominu.d" | "amomaxu.d" => some (a, 8)
  | _ => none

/-- Reference scope: a memory access that wraps around the end of the variant's address space is
left to the execution environment by the ISA and is excluded from the reference. -/
def noWrap (xlen : Nat) (name : String) (w : Nat) (s : St) : Bool :=
  match accessRange xlen name w s with
  | some (a, n) => a + n ≤ 2 ^ xlen
  | none => true

end Mltwist.Spec.Rv
