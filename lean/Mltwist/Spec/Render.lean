/-
Specification and executable oracle for property C24 (screen rendering fits the granted space).
Independent of `Mltwist.Model.Render`: nothing of the model is imported.

The property, on one observed `Print(n)` call of a view with declared bounds `min`, `max`
(`max < 0` = unbounded):

  * if `n ≥ min`: the call does not panic and the rows used are at most `n`;
  * if moreover `min = max = n` (the view declares a fixed height and is granted exactly that) and the
    call returned without error: the rows used are exactly `n`.

"Rows used" (`used`) = the number of `\n` bytes written, plus 2 if the output ends with an unterminated
row.  The only view that ends without `\n` is the command prompt (always the last element of the
screen): it declares 2 lines and writes `"Enter command: "` — the prompt row and the row the cursor
moves to when the user finishes the command with Enter.  With this accounting a screen whose `used`
is at most the terminal height never scrolls.
-/
namespace Mltwist.Spec.Render

/-- rows used by an output with `nl` newlines, ending in an unterminated row iff `op` -/
def used (nl : Nat) (op : Bool) : Nat := nl + (if op then 2 else 0)

/-- outcome classes of a `Print` call -/
inductive Outcome where
  | ok | err | panic
deriving DecidableEq, Repr

/-- The property on one observation.  `none` = holds, `some reason` = violated. -/
def check (min max n : Int) (o : Outcome) (nl : Nat) (op : Bool) : Option String :=
  if n < min then none
  else if o = .panic then some "panic"
  else if (used nl op : Int) > n then some s!"{used nl op} rows used, {n} granted"
  else if min = max ∧ n = min ∧ o = .ok ∧ (used nl op : Int) ≠ n then
    some s!"fixed height {n} but {used nl op} rows used"
  else none

/-- the property as a proposition (what `check = none` means) -/
def Fits (min max n : Int) (o : Outcome) (nl : Nat) (op : Bool) : Prop :=
  (min ≤ n → o ≠ .panic ∧ (used nl op : Int) ≤ n) ∧
  (min = max → n = min → o = .ok → (used nl op : Int) = n)

/-! ## The golden-ratio cut

`k = ⌊n/φ²⌋` with `φ² = (3+√5)/2`:  `k·(3+√5) ≤ 2n < (k+1)·(3+√5)`.
`x·(3+√5) ≤ 2n ⟺ √5·x ≤ 2n − 3x ⟺ 0 ≤ 2n − 3x ∧ 5x² ≤ (2n − 3x)²`. -/

def leDivPhiSq (n x : Int) : Bool := decide (0 ≤ 2 * n - 3 * x) && decide (5 * x * x ≤ (2 * n - 3 * x) * (2 * n - 3 * x))

/-- `k` is the integer part of `n/φ²` -/
def isPhiCut (n k : Nat) : Bool := leDivPhiSq n k && !leDivPhiSq n (k + 1)

/-! ## Distribution of the lines of a composite

Bounds of the elements are pairs `(min, max)`; `effMin = max min 0`, and a non-negative `max` below the
minimum means the minimum (view.go).  A grant vector for height `n` is *valid* if every grant lies within
the bounds of its element and the grants plus the `k − 1` separator rows are at most `n`; it is *maximal*
if it uses `n` rows or every element has its maximum; it is *fair* if an element that got at least two
rows less above its minimum than another one is at its maximum. -/

def effMin (b : Int × Int) : Int := if b.1 < 0 then 0 else b.1

/-- `none` = unbounded -/
def effMax (b : Int × Int) : Option Int :=
  if b.2 < 0 then none else some (if b.2 < effMin b then effMin b else b.2)

def sumI : List Int → Int
  | [] => 0
  | x :: xs => x + sumI xs

def within (b : Int × Int) (g : Int) : Bool :=
  decide (effMin b ≤ g) && (match effMax b with | none => true | some m => decide (g ≤ m))

def atMax (b : Int × Int) (g : Int) : Bool :=
  match effMax b with | none => false | some m => decide (g = m)

def checkGrants (bounds : List (Int × Int)) (n : Int) (gs : List Int) : Option String :=
  let k : Int := bounds.length
  let total := sumI gs + (k - 1)
  let bg := bounds.zip gs
  if gs.length ≠ bounds.length then some "number of grants"
  else if !(bg.all fun p => within p.1 p.2) then some "grant outside the bounds of its element"
  else if total > n then some s!"grants and separators need {total} rows, {n} granted"
  else if total < n ∧ !(bg.all fun p => atMax p.1 p.2) then some "rows left although an element could take more"
  else if bg.any (fun p => bg.any fun q =>
      decide (p.2 - effMin p.1 + 1 < q.2 - effMin q.1) && !atMax p.1 p.2) then some "unfair distribution"
  else none

/-! ## Closed forms of what the (repaired) views write -/

/-- rows the listing of `L` lines writes for height `n`: all of the window, the window is full
whenever the listing has `n` lines -/
def linesRows (L n : Nat) : Nat := if n ≤ L then n else L

/-- rows the memory view of `R > 0` rows writes with the window starting at `begin` -/
def memRows (R begin n : Nat) : Nat := if begin + n ≤ R then n else R - begin

/-- rows of the register table: two registers per row, the instruction pointer not shown -/
def regRows (nonIP : Nat) : Nat := (nonIP + 1) / 2

end Mltwist.Spec.Render
