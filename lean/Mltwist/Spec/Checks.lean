import Mltwist.Model.Transform
/-
Decidable syntactic predicates used in property statements and by the oracle.
-/
namespace Mltwist
open Expr

/-- no register or memory load occurs -/
def Expr.closed : Expr → Bool
  | .const _ => true
  | .binary _ a b _ => a.closed && b.closed
  | .less a b t f _ => a.closed && b.closed && t.closed && f.closed
  | .memLoad .. => false
  | .regLoad .. => false

/-- no `Binary` with two constant operands and no `Less` whose compared operands are both
constants -/
def Expr.noConstOp : Expr → Bool
  | .const _ => true
  | .binary _ a b _ => !(a.isConst && b.isConst) && a.noConstOp && b.noConstOp
  | .less a b t f _ =>
    !(a.isConst && b.isConst) && a.noConstOp && b.noConstOp && t.noConstOp && f.noConstOp
  | .memLoad _ a _ => a.noConstOp
  | .regLoad .. => true

/-- no conditional occurs -/
def Expr.noLess : Expr → Bool
  | .const _ => true
  | .binary _ a b _ => a.noLess && b.noLess
  | .less .. => false
  | .memLoad _ a _ => a.noLess
  | .regLoad .. => true

/-- all widths are in the range of Go's `expr.Width` and at least one -/
def Expr.wf : Expr → Bool
  | .const bs => 1 ≤ bs.length && bs.length ≤ 255
  | .binary _ a b w => 1 ≤ w && w ≤ 255 && a.wf && b.wf
  | .less a b t f w => 1 ≤ w && w ≤ 255 && a.wf && b.wf && t.wf && f.wf
  | .memLoad _ a w => 1 ≤ w && w ≤ 255 && a.wf
  | .regLoad _ w => 1 ≤ w && w ≤ 255

end Mltwist
