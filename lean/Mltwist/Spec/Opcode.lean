import Mltwist.Model.Opcode
/-
Abstract meaning of opcode patterns (C19): well-formedness, "the byte string matches the
pattern", "two patterns conflict" (some byte string matches both), and executable checkers
for the oracle.  Only the type `Pat` is taken from the model.
-/
namespace Mltwist.Opcode

/-- a valid pattern: non-empty, bytes and mask of equal length, last mask byte non-zero -/
def WellFormed (p : Pat) : Prop :=
  p.bytes ≠ [] ∧ p.bytes.length = p.mask.length ∧ p.mask.getLast? ≠ some 0

/-- the prefix of `bs` of the pattern's length agrees with the pattern on all masked bits -/
def Matches (p : Pat) (bs : List UInt8) : Prop :=
  p.mask.length ≤ bs.length ∧
    ∀ i, i < p.mask.length → bs.getD i 0 &&& p.mask.getD i 0 = p.bytes.getD i 0 &&& p.mask.getD i 0

/-- some byte string matches both patterns -/
def Conflict (p q : Pat) : Prop := ∃ bs, Matches p bs ∧ Matches q bs

/-! executable versions -/

def wellFormedB (p : Pat) : Bool :=
  !p.bytes.isEmpty && p.bytes.length == p.mask.length && p.mask.getLast? != some 0

def matchesB (p : Pat) (bs : List UInt8) : Bool :=
  p.mask.length ≤ bs.length &&
    (List.range p.mask.length).all fun i =>
      bs.getD i 0 &&& p.mask.getD i 0 == p.bytes.getD i 0 &&& p.mask.getD i 0

/-- the decidable conflict criterion: agreement on the common mask over the common prefix -/
def conflictB (p q : Pat) : Bool :=
  (List.range (min p.mask.length q.mask.length)).all fun k =>
    (p.bytes.getD k 0 ^^^ q.bytes.getD k 0) &&& p.mask.getD k 0 &&& q.mask.getD k 0 == 0

/-- positions `(i, j)`, `i < j`, of conflicting patterns -/
def conflictPairs (ps : List Pat) : List (Nat × Nat) :=
  (List.range ps.length).flatMap fun i =>
    ((List.range ps.length).filter fun j =>
      i < j && conflictB (ps.getD i ⟨[], []⟩) (ps.getD j ⟨[], []⟩)).map fun j => (i, j)

/-- positions of the patterns matched by `bs` -/
def matching (ps : List Pat) (bs : List UInt8) : List Nat :=
  (List.range ps.length).filter fun i => matchesB (ps.getD i ⟨[], []⟩) bs

end Mltwist.Opcode
