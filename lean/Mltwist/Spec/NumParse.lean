import Mltwist.Spec.Gadgets
/-
Specification of numeric user input (C30), independent of `Model/NumParse.lean`.

A *numeral* of base 2, 8, 10 or 16 is a non-empty byte string all of whose bytes are digits of
that base; its value is the positional value `Σ dᵢ · base^(n-1-i)`.

* memory-view addresses (`AddrDenotes`): `0x`/`0X` + hexadecimal numeral, `0b`/`0B` + binary
  numeral, `0` + octal numeral, or a decimal numeral that does not begin with `0` unless it is the
  single digit `0`.  The address is accepted iff its value is below `2^64`.
* values at an emulator prompt (`ValueDenotes`): optional sign `+`/`-`, then `0x`/`0X` hex,
  `0b`/`0B` binary, `0o`/`0O` octal, `0` + octal numeral, or decimal as above.  No underscores,
  no spaces, never empty.  The typed integer `n` becomes `natToLE w (ofInt w n)`: the `w`-byte
  little-endian two's-complement residue of `n` modulo `2^(8w)`.
-/
namespace Mltwist.Spec.NumParse
open Mltwist

abbrev Str := List UInt8

def binDigit (c : UInt8) : Option Nat :=
  if c.toNat = 0x30 then some 0 else if c.toNat = 0x31 then some 1 else none

def octDigit (c : UInt8) : Option Nat :=
  if 0x30 ≤ c.toNat ∧ c.toNat ≤ 0x37 then some (c.toNat - 0x30) else none

def decDigit (c : UInt8) : Option Nat :=
  if 0x30 ≤ c.toNat ∧ c.toNat ≤ 0x39 then some (c.toNat - 0x30) else none

def hexDigit (c : UInt8) : Option Nat :=
  if 0x30 ≤ c.toNat ∧ c.toNat ≤ 0x39 then some (c.toNat - 0x30)
  else if 0x61 ≤ c.toNat ∧ c.toNat ≤ 0x66 then some (c.toNat - 0x61 + 10)
  else if 0x41 ≤ c.toNat ∧ c.toNat ≤ 0x46 then some (c.toNat - 0x41 + 10)
  else none

/-- the digits of the four bases of the grammar (no digit in any other base) -/
def digitOf (base : Nat) (c : UInt8) : Option Nat :=
  if base = 2 then binDigit c
  else if base = 8 then octDigit c
  else if base = 10 then decDigit c
  else if base = 16 then hexDigit c
  else none

/-- all bytes are digits of the base -/
def digits (base : Nat) : Str → Option (List Nat)
  | [] => some []
  | c :: cs =>
    match digitOf base c, digits base cs with
    | some d, some ds => some (d :: ds)
    | _, _ => none

/-- positional value, most significant digit first -/
def valueOf (base : Nat) : List Nat → Nat
  | [] => 0
  | d :: ds => d * base ^ ds.length + valueOf base ds

/-- value of a numeral of the base; `none` = not a numeral -/
def numeral (base : Nat) (s : Str) : Option Nat :=
  if s.isEmpty then none else (digits base s).map (valueOf base)

/-- `s` is a numeral of the base with value `v` -/
def Numeral (base : Nat) (s : Str) (v : Nat) : Prop :=
  s ≠ [] ∧ ∃ ds, digits base s = some ds ∧ valueOf base ds = v

/-- a decimal numeral does not begin with `0` unless it is `0` -/
def DecShape (s : Str) : Prop := s.head? ≠ some 0x30 ∨ s = [0x30]

/-- the address grammar -/
inductive AddrDenotes : Str → Nat → Prop
  | hex {p : UInt8} {r : Str} {v : Nat} :
      p = 0x78 ∨ p = 0x58 → Numeral 16 r v → AddrDenotes (0x30 :: p :: r) v
  | bin {p : UInt8} {r : Str} {v : Nat} :
      p = 0x62 ∨ p = 0x42 → Numeral 2 r v → AddrDenotes (0x30 :: p :: r) v
  | oct {r : Str} {v : Nat} : Numeral 8 r v → AddrDenotes (0x30 :: r) v
  | dec {s : Str} {v : Nat} : Numeral 10 s v → DecShape s → AddrDenotes s v

/-- executable oracle of the address grammar -/
def addrValue (s : Str) : Option Nat :=
  match s with
  | c0 :: c :: r =>
    if c0 = 0x30 then
      if c = 0x78 ∨ c = 0x58 then numeral 16 r
      else if c = 0x62 ∨ c = 0x42 then numeral 2 r
      else numeral 8 (c :: r)
    else numeral 10 s
  | _ => numeral 10 s

/-- what the `address` argument parser must answer: `some (some a)` = the address, `some none` =
an error message; there is no third outcome (no crash) -/
def addrExpected (s : Str) : Option Nat :=
  match addrValue s with
  | some v => if v < 2 ^ 64 then some v else none
  | none => none

/-- magnitudes at a value prompt -/
inductive MagDenotes : Str → Nat → Prop
  | hex {p : UInt8} {r : Str} {v : Nat} :
      p = 0x78 ∨ p = 0x58 → Numeral 16 r v → MagDenotes (0x30 :: p :: r) v
  | bin {p : UInt8} {r : Str} {v : Nat} :
      p = 0x62 ∨ p = 0x42 → Numeral 2 r v → MagDenotes (0x30 :: p :: r) v
  | octO {p : UInt8} {r : Str} {v : Nat} :
      p = 0x6f ∨ p = 0x4f → Numeral 8 r v → MagDenotes (0x30 :: p :: r) v
  | oct {r : Str} {v : Nat} : Numeral 8 r v → MagDenotes (0x30 :: r) v
  | dec {s : Str} {v : Nat} : Numeral 10 s v → DecShape s → MagDenotes s v

/-- integers at a value prompt -/
inductive ValueDenotes : Str → Int → Prop
  | plain {s : Str} {v : Nat} : MagDenotes s v → ValueDenotes s v
  | plus {s : Str} {v : Nat} : MagDenotes s v → ValueDenotes (0x2b :: s) v
  | minus {s : Str} {v : Nat} : MagDenotes s v → ValueDenotes (0x2d :: s) (-(v : Int))

def magValue (s : Str) : Option Nat :=
  match s with
  | c0 :: c :: r =>
    if c0 = 0x30 then
      if c = 0x78 ∨ c = 0x58 then numeral 16 r
      else if c = 0x62 ∨ c = 0x42 then numeral 2 r
      else if c = 0x6f ∨ c = 0x4f then numeral 8 r
      else numeral 8 (c :: r)
    else numeral 10 s
  | _ => numeral 10 s

/-- executable oracle of the value grammar -/
def lineValue (s : Str) : Option Int :=
  match s with
  | c :: r =>
    if c = 0x2b then (magValue r).map fun (v : Nat) => (v : Int)
    else if c = 0x2d then (magValue r).map fun (v : Nat) => -(v : Int)
    else (magValue s).map fun (v : Nat) => (v : Int)
  | [] => none

/-- what the prompt must answer for width `w`: the constant bytes, or `none` = rejected -/
def valueExpected (w : Nat) (line : Str) : Option (List UInt8) :=
  (lineValue line).map fun n => natToLE w (Spec.ofInt w n)

end Mltwist.Spec.NumParse
