import Mltwist.Model.Sparse
import Mltwist.Spec.Sparse
/-
The representation invariant of the sparse memory model and its abstraction to the byte map
of `Spec/Sparse.lean`.  (Vocabulary of the C14 theorems; core Lean only.)
-/
namespace Mltwist.Sparse
open Mltwist Mltwist.Spec.Sparse

/-- one stored interval: non-empty, below `2^64`, as long as the bytes `[begin, end)` it keeps of its
expression, and `end` is a `uint8` (so `1 ≤ high - low ≤ 255`) -/
def KV.Good (kv : KV) : Prop :=
  kv.low < kv.high ∧ kv.high < 2 ^ 64 ∧ kv.val.begin < kv.val.end_ ∧ kv.val.end_ ≤ 255 ∧
  kv.high - kv.low = kv.val.end_ - kv.val.begin

/-- the tree list is sorted by `low`, its intervals are pairwise disjoint, and every interval is `Good` -/
def Inv (t : Tree) : Prop :=
  t.Pairwise (fun x y => x.high ≤ y.low) ∧ ∀ kv ∈ t, kv.Good

/-- byte `x` of the interval `kv`: byte `begin + (x - low)` of its expression -/
def KV.cell (kv : KV) (x : Nat) : Cell := (kv.val.ex, kv.val.begin + (x - kv.low), kv.val.end_)

/-- the byte map denoted by a tree -/
def abs (t : Tree) : SpecMem := fun x =>
  match t.find? (fun kv => decide (kv.low ≤ x) && decide (x < kv.high)) with
  | some kv => some (kv.cell x)
  | none => none

/-- Two cells denote the same byte: same expression, same byte index, and the index lies inside
both widths (a cut interval no longer knows the width of the store that created it; the value of
byte `i < w` of `trunc w v` does not depend on `w`). -/
def CellEq : Option Cell → Option Cell → Prop
  | none, none => True
  | some c, some d => c.1 = d.1 ∧ c.2.1 = d.2.1 ∧ c.2.1 < c.2.2 ∧ d.2.1 < d.2.2
  | _, _ => False

/-- pointwise `CellEq` -/
def SpecEq (s s' : SpecMem) : Prop := ∀ x, CellEq (s x) (s' x)

/-- the ranges the property speaks about: `1 ≤ w ≤ 255` (a Go `expr.Width`) and the exclusive end
`a + w` is representable as a `uint64` address -/
def InDom (a w : Nat) : Prop := 1 ≤ w ∧ w ≤ 255 ∧ a + w < 2 ^ 64

/-- a store request -/
structure StoreReq where
  addr : Nat
  ex : Expr
  w : Nat

/-- replay of a history of stores on the model; `error` = some Go panic -/
def implOf : List StoreReq → Except Panic Tree
  | [] => .ok []
  | r :: rs => do
    let t ← implOf rs
    store t r.addr r.ex r.w

/-- replay of a history of stores on the byte map (most recent store first in the list) -/
def specOf : List StoreReq → SpecMem
  | [] => SpecMem.empty
  | r :: rs => (specOf rs).store r.addr r.ex r.w

end Mltwist.Sparse
