import Mltwist.Spec.Sparse
import Mltwist.Spec.BytesMem
/-
Abstract meaning of a layered memory (C16) and the vocabulary of the generic memory laws.
Independent of `Model/Overlay.lean`.

An abstract memory maps an address to an optional *byte*: the value of that byte under every
valuation of the free symbols (`Env → Nat`).  The byte maps of C14 (`Spec.Sparse.SpecMem`) and of C15
(`BytesSpec.ByteMap`) embed into it.  The layered memory is "upper byte if present, else base byte".
-/
namespace Mltwist.Spec.Overlay
open Mltwist Mltwist.Spec.Sparse

/-- address ↦ optional byte (its value under a valuation) -/
abbrev AbsMem := Nat → Option (Env → Nat)

def AbsMem.empty : AbsMem := fun _ => none

/-- the layered byte map: the upper byte if present, otherwise the base byte -/
def layer (upper base : AbsMem) : AbsMem := fun x =>
  match upper x with
  | some v => some v
  | none => base x

/-- a store of `ex`, `w` bytes wide, at `a`: byte `i < w` is byte `i` of the value of `ex`
zero-extended or truncated to `w` bytes -/
def AbsMem.store (m : AbsMem) (a : Nat) (ex : Expr) (w : Nat) : AbsMem := fun x =>
  if a ≤ x ∧ x < a + w then some (fun ρ => (trunc w (ex.eval ρ) / 256 ^ (x - a)) % 256) else m x

/-- the byte map of a sparse memory (C14) as an abstract memory -/
def ofSparse (s : SpecMem) : AbsMem := fun x =>
  match s x with
  | some c => some (fun ρ => byteVal ρ c)
  | none => none

/-- the byte map of a byte memory (C15) as an abstract memory -/
def ofBytes (m : BytesSpec.ByteMap) : AbsMem := fun x =>
  match m x with
  | some b => some (fun _ => b.toNat)
  | none => none

/-- value of an optional byte (`0` for an absent one; only used for present ones) -/
def byteOf (ρ : Env) : Option (Env → Nat) → Nat
  | none => 0
  | some v => v ρ

/-- the little-endian value of the `w` bytes at `a` -/
def loadVal (ρ : Env) (m : AbsMem) (a w : Nat) : Nat := sumBytes (fun i => byteOf ρ (m (a + i))) w

/-- every present byte is a byte -/
def Bytewise (m : AbsMem) : Prop := ∀ x v, m x = some v → ∀ ρ, v ρ < 256

/-! ### executable oracle: a stack of replayed byte maps, top layer first -/

/-- one layer of the oracle: the replayed history of a sparse memory, or the byte map of a byte
memory together with the ranges that were ever written (candidates for `Blocks`) -/
inductive OLayer where
  | sparse (h : Hist)
  | bytes (m : BytesSpec.ByteMap) (ranges : List (Nat × Nat))

/-- a stack of layers, top-most first; `NewOverlay(base, over)` is `over ++ base` -/
abbrev OStack := List OLayer

def OLayer.ofBlocks (l : List BytesSpec.RawBlock) : OLayer :=
  .bytes (BytesSpec.ofBlocks l) (l.map fun b => (b.1, b.2.length))

def OLayer.present : OLayer → Nat → Bool
  | .sparse h, x => (h.get x).isSome
  | .bytes m _, x => (m x).isSome

def OLayer.byte (ρ : Env) : OLayer → Nat → Nat
  | .sparse h, x => byteAt ρ (h.get x)
  | .bytes m _, x => match m x with
    | some b => b.toNat
    | none => 0

def OLayer.candidates : OLayer → List Nat
  | .sparse h => h.written
  | .bytes _ rs => rs.flatMap fun r => (List.range r.2).map (r.1 + ·)

/-- a store goes to the top layer only (a byte layer accepts constants only: `none` otherwise) -/
def OStack.store (s : OStack) (a : Nat) (ex : Expr) (w : Nat) : Option OStack :=
  match s with
  | [] => none
  | .sparse h :: rest => some (.sparse (h.store a ex w) :: rest)
  | .bytes m rs :: rest =>
    match ex with
    | .const c => some (.bytes (BytesSpec.write m a (BytesSpec.storeBytes c w)) ((a, w) :: rs) :: rest)
    | _ => none

/-- is the byte at `x` present in some layer -/
def OStack.present (s : OStack) (x : Nat) : Bool := s.any fun l => l.present x

/-- the value of the byte at `x`: the top-most layer that has it -/
def OStack.byte (ρ : Env) : OStack → Nat → Nat
  | [], _ => 0
  | l :: rest, x => if l.present x then l.byte ρ x else OStack.byte ρ rest x

def OStack.allPresent (s : OStack) (a w : Nat) : Bool := (List.range w).all fun i => s.present (a + i)

def OStack.loadVal (s : OStack) (ρ : Env) (a w : Nat) : Nat :=
  (List.range w).foldl (fun acc i => acc + s.byte ρ (a + i) * 256 ^ i) 0

/-- candidate addresses of `Blocks` -/
def OStack.candidates (s : OStack) : List Nat := s.flatMap fun l => l.candidates

end Mltwist.Spec.Overlay
