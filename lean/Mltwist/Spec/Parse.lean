import Mltwist.Model.Parse
import Mltwist.Spec.Riscv
/-
Specification of code parsing (C21).  Only the data types of `Model/Parse.lean` (`RawIns`, `Ins`,
`Decoder`), `constFold`/`Effect.apply` (C09/C13) and the model of the RISC-V front end (C01/C02, whose
lifting is exactly what "effects equivalent to the front end's lifting" refers to) are shared; the
walk over the image — which is what C21 is about — is stated here on its own.

Part 1 — generic over the platform decoder: `Tiling dec a bytes is` says that the instructions `is`
tile the bytes `bytes` located at address `a`; `Stuck dec a bytes pos` says that the walk from `a`
reaches the instruction position `pos`, which holds no valid instruction.

Part 2 — the RISC-V front end: instruction positions are `begin + 4k`; `rvTile` is the tiling of a
block in closed form.

Part 3 — the executable oracle for the driver, which decides acceptance with the reference decoder
`Spec.Rv.decode` (C02) at every fourth byte.
-/
namespace Mltwist.Parse.Spec
open Mltwist Mltwist.Elf Mltwist.Parse

/-! ### Part 1: tiling, generic -/

/-- the decoder's answer is a proper `model.Instruction` (`Validate`) -/
def Valid {δ : Type} (r : RawIns δ) : Prop :=
  r.typ < 8 ∧ r.byteLen ≠ 0 ∧ (∀ e ∈ r.effects, e ≠ none) ∧ r.details ≠ none

/-- `ins` is the instruction made of the decoder's answer `r` for the bytes `bytes` at `a`: its own
bytes, constant-folded effects -/
def IsIns {δ : Type} (r : RawIns δ) (a : Nat) (bytes : List UInt8) (ins : Ins δ) : Prop :=
  ins.typ = r.typ ∧ ins.addr = a ∧ ins.bytes = bytes.take r.byteLen ∧
  ins.effects = (r.effects.filterMap id).map (Effect.apply constFold) ∧ r.details = some ins.details

/-- the instructions tile the bytes `bytes` that start at address `a`: the first instruction starts
at `a`, each one is what the decoder makes of the bytes from its address on, the next one starts
where it ends, the last one ends with the bytes -/
inductive Tiling {ε δ : Type} (dec : Decoder ε δ) : Nat → List UInt8 → List (Ins δ) → Prop
  | done (a : Nat) : Tiling dec a [] []
  | step (a : Nat) (bytes : List UInt8) (r : RawIns δ) (ins : Ins δ) (rest : List (Ins δ)) :
      bytes ≠ [] → dec a bytes = .ok r → Valid r → r.byteLen ≤ bytes.length → IsIns r a bytes ins →
      Tiling dec (a + r.byteLen) (bytes.drop r.byteLen) rest → Tiling dec a bytes (ins :: rest)

/-- the position `a` (with the bytes `bytes` from there on) holds no valid instruction -/
def Bad {ε δ : Type} (dec : Decoder ε δ) (a : Nat) (bytes : List UInt8) : Prop :=
  match dec a bytes with
  | .error _ => True
  | .ok r => ¬ Valid r

/-- the walk over `bytes` from address `a` reaches the instruction position `pos`, which is bad -/
inductive Stuck {ε δ : Type} (dec : Decoder ε δ) : Nat → List UInt8 → Nat → Prop
  | here (a : Nat) (bytes : List UInt8) : bytes ≠ [] → Bad dec a bytes → Stuck dec a bytes a
  | later (a : Nat) (bytes : List UInt8) (r : RawIns δ) (pos : Nat) :
      bytes ≠ [] → dec a bytes = .ok r → Valid r → r.byteLen ≤ bytes.length →
      Stuck dec (a + r.byteLen) (bytes.drop r.byteLen) pos → Stuck dec a bytes pos

/-- a decoder that honours the contract of `parser.Parser`: the instruction it reports lies within
the bytes it was given -/
def Honest {ε δ : Type} (dec : Decoder ε δ) : Prop :=
  ∀ a bytes r, dec a bytes = .ok r → r.byteLen ≤ bytes.length

/-- block by block, in the order of the memory -/
inductive TilingAll {ε δ : Type} (dec : Decoder ε δ) : List Block → List (Ins δ) → Prop
  | nil : TilingAll dec [] []
  | cons (b : Block) (bs : List Block) (is rest : List (Ins δ)) :
      Tiling dec b.1 b.2 is → TilingAll dec bs rest → TilingAll dec (b :: bs) (is ++ rest)

/-! ### Part 2: RISC-V -/

/-- the instruction the front end makes of the four bytes `w` at address `a` (if it accepts them) -/
def rvIns (tbl : List Riscv.Entry) (a : Nat) (w : List UInt8) : Option (Ins (Riscv.Entry × Riscv.Ins)) :=
  match Riscv.parse tbl a w with
  | .ok e i => some ⟨e.typ, a, w, (e.validEffects i).map (Effect.apply constFold), (e, i)⟩
  | _ => none

/-- the tiling of a block in closed form: one instruction per complete four-byte word -/
def rvTile (tbl : List Riscv.Entry) : Nat → List UInt8 → List (Ins (Riscv.Entry × Riscv.Ins))
  | a, b0 :: b1 :: b2 :: b3 :: rest =>
    (rvIns tbl a [b0, b1, b2, b3]).toList ++ rvTile tbl (a + 4) rest
  | _, _ => []

/-- the `k`-th instruction position of a block of `len` bytes is bad for RV64IMA: the word is
truncated or the reference decoder knows no such instruction -/
def RvBadAt (bytes : List UInt8) (k : Nat) : Prop :=
  4 * k < bytes.length ∧
    (bytes.length < 4 * k + 4 ∨ Spec.Rv.decode 64 true true (Riscv.wordOf (bytes.drop (4 * k))) = none)

instance (bytes : List UInt8) (k : Nat) : Decidable (RvBadAt bytes k) := by unfold RvBadAt; infer_instance

/-! ### Part 3: oracle -/

/-- the words of a block with their addresses; the last one may be truncated -/
def chunks : Nat → List UInt8 → List (Nat × List UInt8)
  | a, b0 :: b1 :: b2 :: b3 :: rest => (a, [b0, b1, b2, b3]) :: chunks (a + 4) rest
  | _, [] => []
  | a, l => [(a, l)]

/-- what the driver compares: address, type, mnemonic, bytes, effects -/
structure OIns where
  addr : Nat
  typ : Nat
  name : String
  bytes : List UInt8
  effects : List Effect
  deriving DecidableEq

inductive Expected where
  | fails (addr : Nat) (cls : String)
  | insns (l : List OIns)

/-- expected result for the blocks of a memory (in memory order): the first bad position in walk
order, or one instruction per word.  Acceptance and the mnemonic come from the reference decoder,
type and effects from the model of the front end. -/
def expect (tbl : List Riscv.Entry) (blocks : List Block) : Expected :=
  let words := blocks.flatMap fun b => chunks b.1 b.2
  let rec go : List (Nat × List UInt8) → List OIns → Expected
    | [], acc => .insns acc.reverse
    | (a, w) :: rest, acc =>
      if w.length < 4 then .fails a "short"
      else match Spec.Rv.decode 64 true true (Riscv.wordOf w) with
        | none => .fails a "unknown"
        | some name =>
          match Riscv.parse tbl a w with
          | .ok e i => go rest (⟨a, e.typ, name, w, (e.validEffects i).map (Effect.apply constFold)⟩ :: acc)
          | _ => .fails a "front-end-model-rejects"
  go words []

end Mltwist.Parse.Spec
