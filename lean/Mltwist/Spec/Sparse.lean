import Mltwist.Model.Expr
/-
Abstract meaning of a sparse memory: a partial map from addresses to "byte `i` of the value `ex`
stored `w` bytes wide", and the executable oracle (an association list replayed from the history).
Independent of the model in `Model/Sparse.lean`.
-/
namespace Mltwist.Spec.Sparse
open Mltwist

/-- expression, byte index, store width -/
abbrev Cell := Expr × Nat × Nat

abbrev SpecMem := Nat → Option Cell

def SpecMem.empty : SpecMem := fun _ => none

/-- a store of `(ex, w)` at `a`: `a + i ↦ (ex, i, w)` for `i < w` -/
def SpecMem.store (s : SpecMem) (a : Nat) (ex : Expr) (w : Nat) : SpecMem :=
  fun x => if a ≤ x ∧ x < a + w then some (ex, x - a, w) else s x

/-- the value of a byte: byte `i` of the stored value zero-extended or truncated to `w` bytes -/
def byteVal (ρ : Env) (c : Cell) : Nat := (trunc c.2.2 (c.1.eval ρ) / 256 ^ c.2.1) % 256

/-- value of an optional byte (`0` for an unwritten one; only used for written ones) -/
def byteAt (ρ : Env) : Option Cell → Nat
  | none => 0
  | some c => byteVal ρ c

/-- `Σ_{i<n} f i · 256^i` -/
def sumBytes (f : Nat → Nat) : Nat → Nat
  | 0 => 0
  | n + 1 => sumBytes f n + f n * 256 ^ n

/-- the little-endian value of the `w` bytes at `a` -/
def loadVal (ρ : Env) (s : SpecMem) (a w : Nat) : Nat := sumBytes (fun i => byteAt ρ (s (a + i))) w

/-! ### executable oracle -/

/-- association list, most recent first -/
abbrev Hist := List (Nat × Cell)

def Hist.get (h : Hist) (x : Nat) : Option Cell :=
  match h.find? (fun p => p.1 == x) with
  | some p => some p.2
  | none => none

def Hist.store (h : Hist) (a : Nat) (ex : Expr) (w : Nat) : Hist :=
  (List.range w).map (fun i => (a + i, (ex, i, w))) ++ h

def Hist.allPresent (h : Hist) (a w : Nat) : Bool := (List.range w).all fun i => (h.get (a + i)).isSome

def Hist.loadVal (ρ : Env) (h : Hist) (a w : Nat) : Nat :=
  (List.range w).foldl (fun acc i => acc + byteAt ρ (h.get (a + i)) * 256 ^ i) 0

/-- all written addresses (with repetitions) -/
def Hist.written (h : Hist) : List Nat := h.map (·.1)

end Mltwist.Spec.Sparse
