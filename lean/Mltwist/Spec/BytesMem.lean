import Mltwist.Model.Expr
import Mltwist.Spec.IntervalSet
/-
Abstract meaning of the byte memory (C15): a partial map from addresses to bytes, and an
executable oracle that replays a history on such a map.  Independent of `Model/BytesMem`.

Conventions fixed here:
* a block `(begin, bytes)` covers the addresses `begin ≤ a < begin + len(bytes)`; an EMPTY block
  covers nothing, so it overlaps nothing and contributes nothing;
* two blocks overlap iff some address is covered by both;
* a store of the constant `c` with width `w` at `a` writes byte `i` of `natToLE w (leToNat c)`
  (`c` truncated or zero-extended to `w` bytes) to `a + i`, for `i < w`.
-/
namespace Mltwist.BytesSpec

abbrev ByteMap := Nat → Option UInt8

abbrev RawBlock := Nat × List UInt8

/-- the block covers address `a` -/
def Covers (b : RawBlock) (a : Nat) : Prop := b.1 ≤ a ∧ a < b.1 + b.2.length

instance (b : RawBlock) (a : Nat) : Decidable (Covers b a) := by unfold Covers; infer_instance

/-- two blocks at different positions of the list cover a common address -/
def Overlap (l : List RawBlock) : Prop :=
  ∃ i j : Nat, i < j ∧ ∃ bi bj, l[i]? = some bi ∧ l[j]? = some bj ∧ ∃ a, Covers bi a ∧ Covers bj a

/-- block invariant: sorted, disjoint, non-adjacent (every earlier block ends strictly before every
later block begins) and non-empty -/
def Inv (l : List RawBlock) : Prop :=
  l.Pairwise (fun x y => x.1 + x.2.length < y.1) ∧ ∀ x ∈ l, x.2 ≠ []

/-- the byte map defined by a list of blocks (first covering block wins; irrelevant without overlap) -/
def ofBlocks : List RawBlock → ByteMap
  | [] => fun _ => none
  | b :: rest => fun a => if Covers b a then b.2[a - b.1]? else ofBlocks rest a

/-- writing the bytes `data` at `a` -/
def write (m : ByteMap) (a : Nat) (data : List UInt8) : ByteMap :=
  fun x => if a ≤ x ∧ x < a + data.length then data[x - a]? else m x

/-- the bytes a store of constant `c` with width `w` writes -/
def storeBytes (c : List UInt8) (w : Nat) : List UInt8 := natToLE w (leToNat c)

/-- all bytes of `[a, a+w)` are present -/
def Present (m : ByteMap) (a w : Nat) : Prop := ∀ i, i < w → m (a + i) ≠ none

/-- a history of constant stores `(addr, w, constant bytes)` applied to a byte map -/
def runStores (m : ByteMap) : List (Nat × Nat × List UInt8) → ByteMap
  | [] => m
  | (a, w, c) :: rest => runStores (write m a (storeBytes c w)) rest

/-! ### executable oracle -/

/-- oracle state: the byte map and the ranges `(begin, length)` that were ever written -/
structure OState where
  map : ByteMap
  ranges : List (Nat × Nat)

def overlapB : List RawBlock → Bool
  | [] => false
  | b :: rest =>
    rest.any (fun c => decide (max b.1 c.1 < min (b.1 + b.2.length) (c.1 + c.2.length))) || overlapB rest

def initState (l : List RawBlock) : OState :=
  { map := ofBlocks l, ranges := l.map fun b => (b.1, b.2.length) }

def OState.store (s : OState) (a w : Nat) (c : List UInt8) : OState :=
  { map := write s.map a (storeBytes c w), ranges := (a, w) :: s.ranges }

/-- expected answer of `Load` -/
def OState.load (s : OState) (a w : Nat) : Option (List UInt8) :=
  (List.range w).mapM fun i => s.map (a + i)

/-- maximal runs of consecutive numbers of a strictly increasing list, as half-open intervals -/
def runs : List Nat → List Interval.Intv
  | [] => []
  | x :: xs =>
    match runs xs with
    | (b, e) :: rest => if b = (x : Int) + 1 then ((x : Int), e) :: rest
                        else ((x : Int), (x : Int) + 1) :: (b, e) :: rest
    | [] => [((x : Int), (x : Int) + 1)]

/-- expected answer of `Missing` -/
def OState.missing (s : OState) (a w : Nat) : List Interval.Intv :=
  runs (((List.range w).map (a + ·)).filter fun x => (s.map x).isNone)

def insertNat (x : Nat) : List Nat → List Nat
  | [] => [x]
  | y :: ys => if x < y then x :: y :: ys else if x = y then y :: ys else y :: insertNat x ys

/-- expected answer of `Blocks` -/
def OState.blocks (s : OState) : List Interval.Intv :=
  let cand := s.ranges.flatMap fun r => (List.range r.2).map (r.1 + ·)
  runs ((cand.foldl (fun acc x => insertNat x acc) []).filter fun x => (s.map x).isSome)

end Mltwist.BytesSpec
