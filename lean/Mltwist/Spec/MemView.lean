/-
Specification of the memory view (C32), from the byte map of the memory only.  Independent of
`Model/MemView.lean` and of the memory models.

A memory state is a partial byte map `σ : address → byte`; executable form: an association list
`List (Nat × UInt8)` filled by replaying the stores (`put`, last write wins).

* rows: one per 16-byte aligned window `W` (a multiple of 16) with a stored address in
  `[W, W+16)`, in ascending order (`Rows`/`windows`);
* cells of the row of `W`: for `j < 16` the stored byte `σ (W+j)` or the absent mark (`cells`);
* layout: an ellipsis row between two rows whose windows are not consecutive; in addition the view
  shows an ellipsis row before the first row unless its window is 0, and one after the last row
  (`layout`; `none` = ellipsis row).  The two outer ellipsis rows stand for the unmapped memory
  before and after: the statement only demands the inner ones and does not forbid the outer ones;
* `address a` (`addrIndexStored`): if `a` is stored, the index of the row of its window
  (`addrIndex`: the row one of whose stored ranges contains `a`); otherwise "none does".  This is
  the reading of the statement fixed in DESIGN §6.  Observation F81: under the wider reading "a row
  is its window" an absent address inside a shown window would select that row (`addrIndex` alone);
  the code does not do that and the check does not demand it.
-/
namespace Mltwist.Spec.MemView

/-- the window of an address -/
def windowOf (a : Nat) : Nat := a / 16 * 16

/-! ### abstract statement level -/

/-- `ws` lists exactly the windows that meet the stored set, ascending, no duplicates -/
def Rows (stored : Nat → Prop) (ws : List Nat) : Prop :=
  ws.Pairwise (· < ·) ∧ ∀ w, w ∈ ws ↔ (w % 16 = 0 ∧ ∃ a, stored a ∧ w ≤ a ∧ a < w + 16)

/-- layout of the rows of the windows `ws`: `none` is an ellipsis row -/
def layoutFrom : Nat → List Nat → List (Option Nat)
  | _, [] => []
  | p, w :: ws => (if p + 16 < w then [none] else []) ++ some w :: layoutFrom w ws

def layout : List Nat → List (Option Nat)
  | [] => []
  | w :: ws => (if w ≠ 0 then [none] else []) ++ some w :: (layoutFrom w ws ++ [none])

/-- index of the row of the window containing `a` -/
def addrIndex (rows : List (Option Nat)) (a : Nat) : Option Nat :=
  let i := rows.findIdx (· == some (windowOf a))
  if i < rows.length then some i else none

/-- the `address` command: the row of the window of `a` if `a` is stored, otherwise none -/
def addrIndexStored (isStored : Bool) (rows : List (Option Nat)) (a : Nat) : Option Nat :=
  if isStored then addrIndex rows a else none

/-! ### text of a row -/

def hexUpper (n : Nat) : UInt8 := UInt8.ofNat (if n < 10 then 0x30 + n else 0x41 + n - 10)

/-- a cell: two upper-case hexadecimal digits of the stored byte, or `..` -/
def cellText : Option UInt8 → List UInt8
  | some b => [hexUpper (b.toNat / 16), hexUpper (b.toNat % 16)]
  | none => [0x2e, 0x2e]

/-- cells `j, j+1, …` of the row of window `w`: one blank between cells, two more before cell 8 -/
def cellsText (σ : Nat → Option UInt8) (w : Nat) : Nat → Nat → List UInt8
  | 0, _ => []
  | f + 1, j =>
    (if j ≠ 0 then [0x20] else []) ++ (if j ≠ 0 ∧ j % 8 = 0 then [0x20, 0x20] else []) ++
      cellText (σ (w + j)) ++ cellsText σ w f (j + 1)

/-- the 16 cells of a row -/
def rowCells (σ : Nat → Option UInt8) (w : Nat) : List UInt8 := cellsText σ w 16 0

/-! ### executable byte map -/

abbrev ByteMap := List (Nat × UInt8)

def get (σ : ByteMap) (a : Nat) : Option UInt8 := (σ.find? (·.1 == a)).map (·.2)

def put (σ : ByteMap) (a : Nat) (b : UInt8) : ByteMap := (a, b) :: σ.filter (·.1 != a)

/-- store `bs` at `a, a+1, …` -/
def putBytes (σ : ByteMap) (a : Nat) : List UInt8 → ByteMap
  | [] => σ
  | b :: bs => putBytes (put σ a b) (a + 1) bs

def insertSorted (x : Nat) : List Nat → List Nat
  | [] => [x]
  | y :: ys => if x < y then x :: y :: ys else if x = y then y :: ys else y :: insertSorted x ys

/-- the windows meeting the stored set, ascending without duplicates -/
def windows (σ : ByteMap) : List Nat := σ.foldl (fun acc p => insertSorted (windowOf p.1) acc) []

/-- the 16 cells of the row of window `w` -/
def cells (σ : ByteMap) (w : Nat) : List (Option UInt8) := (List.range 16).map fun j => get σ (w + j)


end Mltwist.Spec.MemView
