/-
Specification of a console UI session (C22) and the executable oracle that judges what the real
program did — independent of `Model/UI.lean` (no import of it).

What is observed of one call of `UI.processCommand` (`StepObs`): the script line it started with,
how it ended (`Status`), how many script lines it consumed, the names of the modes on the mode stack
before and after, and how the view of the current mode printed afterwards.

The property (`StepOK`, decided by `checkStep`):

1. no call panics and no call keeps reading at the end of the input;
2. the empty line is ignored (`skip`), every other line is answered: executed (`ok`), answered with
   an error message (`error`), or it left a mode (`left`, `quit`);
3. the end of the input is reported (`eof`) only when the script is exhausted; every other call
   consumes at least the command line;
4. the mode stack evolves as the command words dictate: `quit`/`q` pops (the first mode: the session
   ends with `quit`), a successful `emulate`/`emul`/`e` in the disassembler pushes `emulate`, a successful
   `memory`/`mem`/`m <key>` in the emulator pushes `memview(<key>)`, nothing else changes the stack;
5. the view of the current mode prints without a panic after every call.

Words are maximal runs of bytes other than the space (0x20); a tab is an ordinary byte.
-/
namespace Mltwist.UI.Spec

abbrev Str := List UInt8

def b (s : String) : Str := s.toList.map fun c => UInt8.ofNat c.toNat

/-- the words of a line: maximal runs of non-space bytes -/
def wordsAux : Str → Str → List Str
  | [], cur => if cur.isEmpty then [] else [cur.reverse]
  | c :: r, cur =>
    if c = 0x20 then (if cur.isEmpty then wordsAux r [] else cur.reverse :: wordsAux r [])
    else wordsAux r (c :: cur)

def words (s : Str) : List Str := wordsAux s []

inductive Status where
  | skip | ok | error | left | quit | eof | panic | hang
  deriving DecidableEq, Repr

inductive Kind where
  | dis | emu | mem | other
  deriving DecidableEq, Repr

/-- the kind of a mode by its name: `app`, `emulate`, `memview(<key>)` -/
def kindOf (name : Str) : Kind :=
  if name = b "app" then .dis
  else if name = b "emulate" then .emu
  else if (b "memview(").isPrefixOf name then .mem
  else .other

structure StepObs where
  /-- the script line the call read as its command (`none`: the script was exhausted) -/
  line : Option Str
  status : Status
  consumed : Nat
  /-- script lines left before the call -/
  remaining : Nat
  /-- mode names, the first mode first -/
  before : List Str
  /-- `none` after a call that ended the session -/
  after : Option (List Str)
  /-- `Print` of the current view after the call panicked -/
  renderPanic : Bool
  deriving Repr

def isQuitWord (w : Str) : Bool := w == b "quit" || w == b "q"
def isEmulateWord (w : Str) : Bool := w == b "emulate" || w == b "emul" || w == b "e"
def isMemoryWord (w : Str) : Bool := w == b "memory" || w == b "mem" || w == b "m"

/-- the mode stack a successfully executed command must leave behind -/
def stackAfterOk (before : List Str) (ws : List Str) : List Str :=
  match before.getLast?.map kindOf, ws with
  | some .dis, [w] => if isEmulateWord w then before ++ [b "emulate"] else before
  | some .emu, [w, key] => if isMemoryWord w then before ++ [b "memview(" ++ key ++ b ")"] else before
  | _, _ => before

/-- first violated clause, `none` = the call is fine -/
def checkStep (o : StepObs) : Option String :=
  let ws := match o.line with | some l => words l | none => []
  let first := ws.head?
  let quitLine := ws.length == 1 && (first.map isQuitWord).getD false
  if o.status = .panic then some "the call panics"
  else if o.status = .hang then some "the call keeps reading at the end of the input"
  else if o.renderPanic then some "printing the view panics"
  else if o.before.isEmpty then some "no mode on the stack"
  else if o.status = .eof then
    (if o.consumed = o.remaining then none else some "end of input reported although script lines are left")
  else if o.consumed = 0 then some "no line consumed"
  else if o.consumed > o.remaining then some "more lines consumed than the script holds"
  else
    match o.line with
    | none => some "a command was read from an exhausted script"
    | some l =>
      if l.isEmpty then
        (if o.status = .skip ∧ o.consumed = 1 ∧ o.after = some o.before then none
         else some "the empty line is not ignored")
      else
        match o.status with
        | .skip => some "a non-empty line is ignored"
        | .error =>
          if o.after = some o.before then none else some "an error answer changes the mode stack"
        | .left =>
          if !quitLine then some "a mode is left without a quit command"
          else if o.before.length < 2 then some "the first mode is left without ending the session"
          else if o.after = some o.before.dropLast then none else some "quit does not pop exactly one mode"
        | .quit =>
          if !quitLine then some "the session ends without a quit command"
          else if o.before.length ≠ 1 then some "the session ends although modes are left on the stack"
          else if o.after.isSome then some "the session goes on after quit in the first mode"
          else none
        | .ok =>
          if quitLine then some "quit is executed without leaving a mode"
          else if o.after = some (stackAfterOk o.before ws) then none
          else some "the mode stack does not evolve as the command dictates"
        | _ => none

/-- the property for one call -/
def StepOK (o : StepObs) : Prop := checkStep o = none

instance (o : StepObs) : Decidable (StepOK o) := inferInstanceAs (Decidable (_ = _))

/-- a session: the calls in order; the last call, and only the last, ends it -/
def checkSession : List StepObs → Option String
  | [] => none
  | [o] =>
    match checkStep o with
    | some e => some e
    | none => if o.after.isNone then none else some "the session does not end although the script is exhausted"
  | o :: rest =>
    match checkStep o with
    | some e => some e
    | none => if o.after.isNone then some "calls after the end of the session" else checkSession rest

end Mltwist.UI.Spec
