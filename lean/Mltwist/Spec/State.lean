import Mltwist.Model.Expr
/-
Abstract meaning of the register file (C18): a history of register writes `(key, value, write width)`
and what a read must return.  Independent of `Model/State.lean`.
-/
namespace Mltwist.Spec.State
open Mltwist

/-- one register write -/
structure RegWrite where
  key : String
  value : Expr
  w : Nat
  deriving Repr, Inhabited

/-- a history of writes, oldest first -/
abbrev RegHist := List RegWrite

/-- the last write to `k`, if any -/
def lastWrite (k : String) : RegHist → Option RegWrite
  | [] => none
  | r :: rest =>
    match lastWrite k rest with
    | some r' => some r'
    | none => if r.key = k then some r else none

/-- the value a read of width `w'` must have after the last write `(e, w)`: the written value
adjusted to its write width, then zero-extended or truncated to `w'` -/
def readVal (ρ : Env) (r : RegWrite) (w' : Nat) : Nat := trunc w' (trunc r.w (r.value.eval ρ))

/-- the registers that were ever written (duplicate free) -/
def writtenKeys : RegHist → List String
  | [] => []
  | r :: rest => if (writtenKeys rest).contains r.key then writtenKeys rest else r.key :: writtenKeys rest

end Mltwist.Spec.State
