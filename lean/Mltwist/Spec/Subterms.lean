import Mltwist.Model.Transform
namespace Mltwist
/-- all sub-expressions in pre-order -/
def Expr.subterms : Expr → List Expr
  | e@(.binary _ a b _) => e :: (a.subterms ++ b.subterms)
  | e@(.less a b t f _) => e :: (a.subterms ++ b.subterms ++ t.subterms ++ f.subterms)
  | e@(.memLoad _ a _) => e :: a.subterms
  | e => [e]

/-- the abstract bottom-up substitution: children first, then the node itself -/
def Expr.mapBottomUp (g : Expr → Expr) : Expr → Expr
  | .binary op a b w => g (.binary op (a.mapBottomUp g) (b.mapBottomUp g) w)
  | .less a b t f w => g (.less (a.mapBottomUp g) (b.mapBottomUp g) (t.mapBottomUp g) (f.mapBottomUp g) w)
  | .memLoad k a w => g (.memLoad k (a.mapBottomUp g) w)
  | e => g e
end Mltwist
