import Mltwist.Model.Expr
/-
The documented functions of the `exprtools` gadgets, as plain arithmetic on naturals
(values) and integers (signed readings).  Independent of the gadget constructions.
-/
namespace Mltwist.Spec

def M (w : Nat) : Nat := 2 ^ (8 * w)

/-- `w`-byte two's complement encoding of an integer -/
def ofInt (w : Nat) (i : Int) : Nat := (i % (M w : Int)).toNat

def neg (w x : Nat) : Nat := ofInt w (-(x : Int))
def sub (w x y : Nat) : Nat := ofInt w ((x : Int) - (y : Int))
def abs (w x : Nat) : Nat := ofInt w (Int.natAbs (toInt w (trunc w x)))
def ones (w : Nat) : Nat := M w - 1
def umod (w x y : Nat) : Nat :=
  let x := trunc w x; let y := trunc w y
  if y = 0 then x else x % y
/-- `w1`, `w2`: operand widths; result has `2*w` bytes -/
def smul (w w1 w2 x y : Nat) : Nat := ofInt (2 * w) (toInt w1 (trunc w1 x) * toInt w2 (trunc w2 y))
/-- truncating signed division; all ones on zero divisor; dividend on overflow
(falls out of the modular encoding) -/
def sdiv (w x y : Nat) : Nat :=
  let a := toInt w (trunc w x); let b := toInt w (trunc w y)
  if b = 0 then ones w else ofInt w (Int.tdiv a b)
/-- signed remainder in the suite's convention: `|a| mod |b|`, negated iff the signs of
`a` and `b` differ; `|a|` on zero divisor -/
def smod (w x y : Nat) : Nat :=
  let a := toInt w (trunc w x); let b := toInt w (trunc w y)
  let m : Int := if b = 0 then a.natAbs else (a.natAbs % b.natAbs : Nat)
  ofInt w (if (a < 0) != (b < 0) then -m else m)
/-- sign extension of `x` at bit `bit` to `w` bytes (`bit < 8*w`) -/
def sext (w x bit : Nat) : Nat :=
  let lo := x % 2 ^ bit
  if x.testBit bit then (M w - 2 ^ bit + lo) % M w else lo
def rsha (w x s : Nat) : Nat :=
  let x := trunc w x
  ofInt w (if s ≥ 8 * w then (if toInt w x < 0 then -1 else 0) else toInt w x / (2 ^ s : Nat))
def bnot (w x : Nat) : Nat := M w - 1 - trunc w x
def band (w x y : Nat) : Nat := trunc w x &&& trunc w y
def bor (w x y : Nat) : Nat := trunc w x ||| trunc w y
def bxor (w x y : Nat) : Nat := trunc w x ^^^ trunc w y
def mask (w x cnt : Nat) : Nat := trunc w x % 2 ^ cnt

end Mltwist.Spec
