import Mltwist.Spec.RiscvLift
/-
Specification side of C05 / C06 / C07 (dependency analysis and move bookkeeping of
`internal/deps`).  Independent of `Model/Deps.lean`: it shares only the expression IR
(`Expr`, `Effect`, `Expr.eval`) and the IR-level meaning of an effect list
(`Spec.Lift.applyEffect`, `Env.applyEffects`, `nextIp`).

* footprints of an instruction, by structural recursion over its effects;
* `Conflict x y` for an instruction `x` that stands before `y` in a block: the clause list of
  property C06 (after the F08 repair also: one of them writes the instruction pointer — every
  instruction implicitly reads and advances the instruction pointer, so an explicit writer
  shares it with everybody); `Independent` is its negation;
* execution of a block in its current order at its current addresses (`runSeq`);
* the bookkeeping invariant `VBlock.Inv` / `VCode.Inv` on a *view* of the state (what the public
  API and the edge export show), the expected answers of lookups and bounds, and the effect of
  moves on views (`rotate`);
* executable checkers used as oracle by `Driver/DepsOps.lean`.
-/
namespace Mltwist.Deps.Spec
open Mltwist Mltwist.Spec.Lift

/-! ### footprints -/

/-- keys of the registers read by an expression -/
def regReads : Expr → List String
  | .const _ => []
  | .binary _ a b _ => regReads a ++ regReads b
  | .less a b t f _ => regReads a ++ regReads b ++ regReads t ++ regReads f
  | .memLoad _ a _ => regReads a
  | .regLoad k _ => [k]

/-- keys of the memories read by an expression -/
def memReads : Expr → List String
  | .const _ => []
  | .binary _ a b _ => memReads a ++ memReads b
  | .less a b t f _ => memReads a ++ memReads b ++ memReads t ++ memReads f
  | .memLoad k a _ => k :: memReads a
  | .regLoad _ _ => []

def effRegReads : Effect → List String
  | .regStore v _ _ => regReads v
  | .memStore v _ a _ => regReads a ++ regReads v

def effMemReads : Effect → List String
  | .regStore v _ _ => memReads v
  | .memStore v _ a _ => memReads a ++ memReads v

def effRegWrites : Effect → List String
  | .regStore _ k _ => [k]
  | .memStore .. => []

def effMemWrites : Effect → List String
  | .regStore .. => []
  | .memStore _ k _ _ => [k]

/-- an instruction at its current place, as the specification sees it -/
structure SIns where
  /-- `model.Type` bits: 1 memory ordering, 2 CPU-state change, 4 system call -/
  typ : Nat
  /-- current address -/
  addr : Nat
  len : Nat
  effects : List Effect
  /-- it is the terminating jump of its block (the last instruction, with a real jump target) -/
  term : Bool
  deriving Repr, Inhabited

namespace SIns
def regIn (i : SIns) : List String := i.effects.flatMap effRegReads
def regOut (i : SIns) : List String := i.effects.flatMap effRegWrites
def memIn (i : SIns) : List String := i.effects.flatMap effMemReads
def memOut (i : SIns) : List String := i.effects.flatMap effMemWrites
def memOrder (i : SIns) : Bool := i.typ % 2 == 1
def special (i : SIns) : Bool := i.typ / 2 % 2 == 1 || i.typ / 4 % 2 == 1
def memAccess (i : SIns) : Bool := !i.memIn.isEmpty || !i.memOut.isEmpty
def writesIp (i : SIns) : Bool := i.regOut.contains ipKey
end SIns

/-! ### conflicts (C06) -/

/-- the lists share an element -/
def Meets (a b : List String) : Prop := ∃ k, k ∈ a ∧ k ∈ b

instance (a b : List String) : Decidable (Meets a b) :=
  decidable_of_iff (∃ k ∈ a, k ∈ b) ⟨fun ⟨k, h1, h2⟩ => ⟨k, h1, h2⟩, fun ⟨k, h1, h2⟩ => ⟨k, h1, h2⟩⟩

/-- `x` (earlier) and `y` (later) must keep their order -/
def Conflict (x y : SIns) : Prop :=
  -- they share a register and at least one of them writes it (RAW, WAW, WAR)
  Meets x.regOut y.regIn ∨ Meets x.regOut y.regOut ∨ Meets x.regIn y.regOut ∨
  -- both access one memory space and at least one of them writes it
  Meets x.memOut y.memIn ∨ Meets x.memOut y.memOut ∨ Meets x.memIn y.memOut ∨
  -- a system call or CPU-state change
  x.special = true ∨ y.special = true ∨
  -- a memory-ordering instruction paired with a memory access or a memory-ordering instruction
  (x.memOrder = true ∧ (y.memAccess = true ∨ y.memOrder = true)) ∨
  (y.memOrder = true ∧ x.memAccess = true) ∨
  -- the later one is the terminating jump of the block
  y.term = true ∨
  -- one of them writes the instruction pointer (F08 repair)
  x.writesIp = true ∨ y.writesIp = true

instance (x y : SIns) : Decidable (Conflict x y) := by unfold Conflict; infer_instance

def Independent (x y : SIns) : Prop := ¬ Conflict x y

instance (x y : SIns) : Decidable (Independent x y) := by unfold Independent; infer_instance

/-! ### execution (C05) -/

/-- one instruction: all effects are evaluated in the pre-state; a write of the instruction
pointer is a jump, otherwise execution falls through to `addr + len` (in `uint64`) -/
def step (i : SIns) (ρ : Env) : Env × Nat :=
  (Env.applyEffects ρ i.effects, nextIp ρ i.effects ((i.addr + i.len) % 2 ^ 64))

/-- run the instructions in list order while the instruction pointer follows the list -/
def runFrom : List SIns → Env → Nat → Env × Nat
  | [], ρ, ip => (ρ, ip)
  | i :: rest, ρ, ip =>
    if ip = i.addr then
      let r := step i ρ
      runFrom rest r.1 r.2
    else (ρ, ip)

/-- behaviour of a block: final valuation and final instruction pointer when entered at its
first instruction -/
def runSeq (l : List SIns) (ρ : Env) : Env × Nat :=
  match l with
  | [] => (ρ, 0)
  | i :: _ => runFrom l ρ i.addr

/-- the same observable behaviour: all registers, all memory bytes, the control transfer -/
def SameBehaviour (r s : Env × Nat) : Prop :=
  (∀ k, r.1.reg k = s.1.reg k) ∧ (∀ k a, r.1.mem k a = s.1.mem k a) ∧ r.2 = s.2

/-! ### views of the bookkeeping state (C07) -/

/-- an instruction as the public API shows it; `id` = position in the original order -/
structure VIns where
  id : Nat
  orig : Nat
  curr : Nat
  len : Nat
  idx : Nat
  deriving DecidableEq, Repr, Inhabited

structure VBlock where
  begin : Nat
  end_ : Nat
  idx : Nat
  seq : List VIns
  /-- dependency edges `(id, id)`: the first has to stay before the second -/
  edges : List (Nat × Nat)
  deriving DecidableEq, Repr, Inhabited

/-- current position of the instruction with the given id -/
def VBlock.pos (b : VBlock) (id : Nat) : Option Nat :=
  let k := b.seq.findIdx (·.id == id)
  if k < b.seq.length then some k else none

/-- the addresses tile `[a, e)` contiguously in list order (`e ≤ 2^64`) -/
def Tiles : Nat → List VIns → Nat → Prop
  | a, [], e => a = e
  | a, i :: rest, e => i.curr = a ∧ 0 < i.len ∧ Tiles (a + i.len) rest e

def decTiles : (a : Nat) → (l : List VIns) → (e : Nat) → Decidable (Tiles a l e)
  | a, [], e => by unfold Tiles; infer_instance
  | a, i :: rest, e => by
    unfold Tiles
    have := decTiles (a + i.len) rest e
    infer_instance

instance (a : Nat) (l : List VIns) (e : Nat) : Decidable (Tiles a l e) := decTiles a l e

/-- total length in bytes -/
def VBlock.bytes (b : VBlock) : Nat := (b.seq.map (·.len)).sum

/-- the invariant of one block -/
structure VBlock.Inv (b : VBlock) : Prop where
  nonempty : b.seq ≠ []
  /-- indices are positions -/
  idx : ∀ k (h : k < b.seq.length), b.seq[k].idx = k
  /-- the ids are a permutation of `0 … n-1` -/
  ids : (b.seq.map (·.id)).Perm (List.range b.seq.length)
  /-- the instructions tile the block in their current order -/
  tiles : Tiles b.begin b.seq (b.begin + b.bytes)
  top : b.begin + b.bytes ≤ 2 ^ 64
  end_ : b.end_ = (b.begin + b.bytes) % 2 ^ 64
  /-- every edge points forward -/
  fwd : ∀ e ∈ b.edges, ∃ p q, b.pos e.1 = some p ∧ b.pos e.2 = some q ∧ p < q

/-- `Block.Address a` has to find exactly the instruction whose current address is `a` -/
def VBlock.lookup (b : VBlock) (a : Nat) : Option VIns := b.seq.find? (·.curr == a)

/-- the lowest position the instruction at position `k` may take: one behind the last
instruction it depends on -/
def VBlock.lower (b : VBlock) (k : Nat) : Nat :=
  match b.seq[k]? with
  | none => 0
  | some i =>
    (b.edges.filterMap fun e => if e.2 = i.id then b.pos e.1 else none).foldl
      (fun m p => max m (p + 1)) 0

/-- the highest position the instruction at position `k` may take: one before the first
instruction that depends on it -/
def VBlock.upper (b : VBlock) (k : Nat) : Nat :=
  match b.seq[k]? with
  | none => 0
  | some i =>
    (b.edges.filterMap fun e => if e.1 = i.id then b.pos e.2 else none).foldl
      (fun m p => min m (p - 1)) (b.seq.length - 1)

/-- the instruction at `from` is taken out and put back at `to`; the others are shifted by one -/
def rotate {α} (l : List α) (from_ to : Nat) : List α :=
  match l[from_]? with
  | none => l
  | some x => (l.eraseIdx from_).insertIdx to x

/-- a move is admissible: both positions valid and the target within the bounds -/
def VBlock.Admissible (b : VBlock) (from_ to : Int) : Prop :=
  0 ≤ from_ ∧ from_ < b.seq.length ∧ 0 ≤ to ∧ to < b.seq.length ∧
  (b.lower from_.toNat : Int) ≤ to ∧ to ≤ (b.upper from_.toNat : Int)

instance (b : VBlock) (from_ to : Int) : Decidable (b.Admissible from_ to) := by
  unfold VBlock.Admissible; infer_instance

/-- the code: blocks in their current order; `Code.Address a` has to find the block whose
original range contains `a` -/
structure VCode where
  blocks : List VBlock
  deriving DecidableEq, Repr, Inhabited

def VCode.lookup (c : VCode) (a : Nat) : Option VBlock :=
  c.blocks.find? fun b => decide (b.begin ≤ a ∧ a < b.begin + b.bytes)

structure VCode.Inv (c : VCode) : Prop where
  blocks : ∀ b ∈ c.blocks, b.Inv
  idx : ∀ k (h : k < c.blocks.length), c.blocks[k].idx = k
  /-- the original ranges are pairwise disjoint -/
  disjoint : c.blocks.Pairwise fun a b => a.begin + a.bytes ≤ b.begin ∨ b.begin + b.bytes ≤ a.begin

/-! ### executable checkers (oracle) -/

def tilesB (a : Nat) (l : List VIns) (e : Nat) : Bool := decide (Tiles a l e)

/-- first violated clause of the block invariant -/
def VBlock.check (b : VBlock) : Option String :=
  if b.seq.isEmpty then some "empty block"
  else if !(List.range b.seq.length).all (fun k => (b.seq[k]?.map (·.idx)) == some k) then
    some "an instruction index is not its position"
  else if !((b.seq.map (·.id)).mergeSort (· ≤ ·) == List.range b.seq.length) then
    some "the instructions of the block changed"
  else if !tilesB b.begin b.seq (b.begin + b.bytes) then
    some "the addresses are not contiguous from the block start in the current order"
  else if b.begin + b.bytes > 2 ^ 64 || b.end_ != (b.begin + b.bytes) % 2 ^ 64 then
    some "block end"
  else if !b.edges.all (fun e => match b.pos e.1, b.pos e.2 with
      | some p, some q => p < q
      | _, _ => false) then
    some "an instruction stands before an instruction it depends on"
  else none

/-- the bounds the tool reports have to contain the position and to agree with the edges -/
def VBlock.checkBounds (b : VBlock) (reported : List (Int × Int)) : Option String :=
  if reported.length != b.seq.length then some "bounds missing"
  else
    (List.range b.seq.length).findSome? fun (k : Nat) =>
      match reported[k]? with
      | none => some "bounds missing"
      | some (lo, hi) =>
        if !(decide (lo ≤ (k : Int)) && decide ((k : Int) ≤ hi)) then
          some s!"instruction {k} outside its reported bounds"
        else if lo != (b.lower k : Int) || hi != (b.upper k : Int) then
          some s!"bounds of instruction {k} are not given by its dependencies"
        else none

def VCode.check (c : VCode) : Option String :=
  match c.blocks.findSome? (·.check) with
  | some r => some r
  | none =>
    if !(List.range c.blocks.length).all (fun k => (c.blocks[k]?.map (·.idx)) == some k) then
      some "a block index is not its position"
    else none

/-- the static part of a block: everything a block move must not change -/
def VBlock.frozen (b : VBlock) : Nat × Nat × List (Nat × Nat × Nat × Nat) × List (Nat × Nat) :=
  (b.begin, b.end_, b.seq.map (fun i => (i.id, i.orig, i.curr, i.len)), b.edges)

/-! ### executable execution oracle

`runFrom` on closures re-evaluates the whole history at every lookup; the oracle therefore keeps
the writes as finite maps on top of the initial valuation and computes every value once. -/

/-- finite updates on top of a base valuation -/
structure FState where
  regs : List (String × Nat)
  cells : List ((String × Nat) × Nat)

def FState.env (base : Env) (s : FState) : Env where
  reg k := match s.regs.lookup k with
    | some v => v
    | none => base.reg k
  mem k a := match s.cells.lookup (k, a) with
    | some v => v
    | none => base.mem k a

/-- the writes of one effect evaluated in `pre` -/
def effectWrites (pre : Env) : Effect → List (String × Nat) × List ((String × Nat) × Nat)
  | .regStore v k w => ([(k, trunc w (v.eval pre))], [])
  | .memStore v k a w =>
    let a0 := a.eval pre % 2 ^ 64
    let x := trunc w (v.eval pre)
    ([], (List.range w).map fun j => ((k, (a0 + j) % 2 ^ 64), x / 256 ^ j % 256))

/-- one instruction on the finite state: new state, next instruction pointer, written cells -/
def stepF (base : Env) (s : FState) (i : SIns) : FState × Nat × List (String × Nat) :=
  let pre := s.env base
  let ws := i.effects.map (effectWrites pre)
  let s' := ws.foldl (fun (s : FState) w =>
    { regs := w.1.reverse ++ s.regs, cells := w.2.reverse ++ s.cells }) s
  (s', nextIp pre i.effects ((i.addr + i.len) % 2 ^ 64), ws.flatMap fun w => w.2.map (·.1))

/-- `runFrom` on the finite state, collecting the written memory cells -/
def runLog (base : Env) : List SIns → FState → Nat → List (String × Nat) → FState × Nat × List (String × Nat)
  | [], s, ip, log => (s, ip, log)
  | i :: rest, s, ip, log =>
    if ip = i.addr then
      let r := stepF base s i
      runLog base rest r.1 r.2.1 (log ++ r.2.2)
    else (s, ip, log)

/-- compare the behaviour of two orders of a block from the valuation `ρ`: values of all given
registers, memory at all written cells, final instruction pointer -/
def compareRuns (l l' : List SIns) (regs : List String) (ρ : Env) : Option String :=
  match l, l' with
  | i :: _, i' :: _ =>
    let r := runLog ρ l ⟨[], []⟩ i.addr []
    let r' := runLog ρ l' ⟨[], []⟩ i'.addr []
    let e := r.1.env ρ
    let e' := r'.1.env ρ
    if r.2.1 != r'.2.1 then some s!"final instruction pointer {r.2.1} became {r'.2.1}"
    else
      match regs.find? (fun k => e.reg k != e'.reg k) with
      | some k => some s!"register {k} differs"
      | none =>
        match (r.2.2 ++ r'.2.2).find? (fun c => e.mem c.1 c.2 % 256 != e'.mem c.1 c.2 % 256) with
        | some c => some s!"memory {c.1} at {c.2} differs"
        | none => none
  | _, _ => none

end Mltwist.Deps.Spec
