import Mltwist.Model.Elf
/-
Specification of ELF loading (C20), independent of the model's functions (only the data types
`View`, `Section`, `Prog`, `Block` of `Model/Elf.lean` are shared).

Part 1 — abstract meaning, starting from the `debug/elf` view:
* a block `(begin, bytes)` covers the addresses `begin ≤ a < begin + len(bytes)` (in `Nat`, no
  wrap-around; an empty block covers nothing);
* `Tidy bs`: the block store invariant — every block ends below `2^64`, and every earlier block
  ends at or before the begin of every later block (sorted, non-overlapping);
* `lookup bs a`: the bytes from `a` to the end of the block covering `a`, or nothing;
* `codeImages v`: the `(addr, data)` of the qualifying sections (PROGBITS, size ≠ 0, addr ≠ 0,
  executable), `loadImages v`: `(vaddr, data ++ zeros up to memsz)` of the PT_LOAD headers.

Part 2 — an independent reader of ELF32/ELF64 little/big-endian files (header, section header
table, program header table) that computes the expected code image and program memory straight from
the file bytes.  It accepts only plainly well-formed files (`readElf` returns `none` otherwise); for
everything else the oracle only demands "an error, or a result consistent with the view".

Part 3 — executable checkers used by the driver.
-/
namespace Mltwist.Elf.Spec
open Mltwist.Elf

/-! ### Part 1: abstract meaning -/

/-- the block covers address `a` -/
def Covers (b : Block) (a : Nat) : Prop := b.1 ≤ a ∧ a < b.1 + b.2.length

instance (b : Block) (a : Nat) : Decidable (Covers b a) := by unfold Covers; infer_instance

/-- two blocks cover a common address -/
def Meet (x y : Block) : Prop := ∃ a, Covers x a ∧ Covers y a

/-- `Meet` is decidable: two non-empty ranges intersect -/
def meetB (x y : Block) : Bool :=
  decide (x.2.length ≠ 0 ∧ y.2.length ≠ 0 ∧ x.1 < y.1 + y.2.length ∧ y.1 < x.1 + x.2.length)

/-- no two blocks (at different positions of the list) cover a common address -/
def NoOverlap (l : List Block) : Prop := l.Pairwise fun x y => ¬ Meet x y

/-- the exclusive end of every block is a representable address -/
def Fits (l : List Block) : Prop := ∀ b ∈ l, b.1 + b.2.length < 2 ^ 64

/-- block store invariant: ends representable, sorted and non-overlapping -/
def Tidy (l : List Block) : Prop :=
  Fits l ∧ l.Pairwise fun x y => x.1 + x.2.length ≤ y.1

instance (l : List Block) : Decidable (Fits l) := by unfold Fits; infer_instance
instance (l : List Block) : Decidable (Tidy l) := by unfold Tidy; infer_instance

/-- the bytes from `a` to the end of the (first) block covering `a` -/
def lookup : List Block → Nat → Option (List UInt8)
  | [], _ => none
  | b :: rest, a => if Covers b a then some (b.2.drop (a - b.1)) else lookup rest a

/-- the section contributes to the code image -/
def Qualifies (s : Section) : Prop :=
  s.typ = 1 ∧ s.size ≠ 0 ∧ s.addr ≠ 0 ∧ s.flags / 4 % 2 = 1

instance (s : Section) : Decidable (Qualifies s) := by unfold Qualifies; infer_instance

/-- the code image of a view whose qualifying sections could all be read -/
def codeImages (v : View) : List Block :=
  (v.sections.filter fun s => decide (Qualifies s)).map fun s => (s.addr, s.data.getD [])

/-- the image of a loadable segment: the file bytes, then zeros up to the in-memory size -/
def segImage (p : Prog) : Block :=
  let d := p.data.getD []
  (p.vaddr, d ++ List.replicate (p.memsz - d.length) 0)

/-- the program memory of a view whose loadable segments could all be read -/
def loadImages (v : View) : List Block :=
  (v.progs.filter fun p => decide (p.typ = 1)).map segImage

/-- what is taken for granted about a view: addresses and sizes are `uint64` values, slice lengths are
machine integers, and the reader of a program header delivers at most `Filesz` bytes -/
structure ViewOK (v : View) : Prop where
  secAddr : ∀ s ∈ v.sections, s.addr < 2 ^ 64
  secData : ∀ s ∈ v.sections, ∀ d, s.data = some d → d.length < 2 ^ 64
  progAddr : ∀ p ∈ v.progs, p.vaddr < 2 ^ 64 ∧ p.memsz < 2 ^ 64
  progData : ∀ p ∈ v.progs, ∀ d, p.data = some d → d.length ≤ p.filesz

/-- every qualifying section was read, with the length its header announces -/
def Readable (ss : List Section) : Prop :=
  ∀ s ∈ ss, Qualifies s → ∃ d, s.data = some d ∧ d.length = s.sizeAfter

/-- every loadable segment is at least as large in memory as in the file, was read, and its zero
fill does not exceed `lim` bytes -/
def Loadable (lim : Nat) (ps : List Prog) : Prop :=
  ∀ p ∈ ps, p.typ = 1 → p.filesz ≤ p.memsz ∧ ∃ d, p.data = some d ∧ p.memsz - d.length ≤ lim

/-! ### Part 2: an independent ELF reader -/

structure RawSec where
  typ : Nat
  flags : Nat
  addr : Nat
  off : Nat
  size : Nat
  deriving Repr

structure RawSeg where
  typ : Nat
  off : Nat
  vaddr : Nat
  filesz : Nat
  memsz : Nat
  deriving Repr

structure Raw where
  bits : Nat
  etype : Nat
  entry : Nat
  secs : List RawSec
  segs : List RawSeg
  deriving Repr

/-- unsigned integer of `n` bytes at offset `off` -/
def rd (f : Array UInt8) (big : Bool) (off n : Nat) : Option Nat :=
  if off + n ≤ f.size then
    let bs := (List.range n).map fun i => (f.getD (off + i) 0).toNat
    let bs := if big then bs else bs.reverse
    some (bs.foldl (fun acc b => acc * 256 + b) 0)
  else none

def slice (f : Array UInt8) (off n : Nat) : Option (List UInt8) :=
  if off + n ≤ f.size then some ((List.range n).map fun i => f.getD (off + i) 0) else none

def readSec (f : Array UInt8) (big : Bool) (bits off : Nat) : Option RawSec := do
  if bits = 32 then
    pure ⟨← rd f big (off + 4) 4, ← rd f big (off + 8) 4, ← rd f big (off + 12) 4,
      ← rd f big (off + 16) 4, ← rd f big (off + 20) 4⟩
  else
    pure ⟨← rd f big (off + 4) 4, ← rd f big (off + 8) 8, ← rd f big (off + 16) 8,
      ← rd f big (off + 24) 8, ← rd f big (off + 32) 8⟩

def readSeg (f : Array UInt8) (big : Bool) (bits off : Nat) : Option RawSeg := do
  if bits = 32 then
    pure ⟨← rd f big off 4, ← rd f big (off + 4) 4, ← rd f big (off + 8) 4,
      ← rd f big (off + 16) 4, ← rd f big (off + 20) 4⟩
  else
    pure ⟨← rd f big off 4, ← rd f big (off + 8) 8, ← rd f big (off + 16) 8,
      ← rd f big (off + 32) 8, ← rd f big (off + 40) 8⟩

/-- header and tables of a plainly well-formed file: magic, class 1/2, data 1/2, version 1, table
entry sizes exactly those of the class, ordinary section/segment counts, all tables inside the file -/
def readElf (f : Array UInt8) : Option Raw := do
  let magic ← slice f 0 4
  if magic ≠ [0x7f, 0x45, 0x4c, 0x46] then none
  let cls ← rd f false 4 1
  let dat ← rd f false 5 1
  let ver ← rd f false 6 1
  if (cls ≠ 1 ∧ cls ≠ 2) ∨ (dat ≠ 1 ∧ dat ≠ 2) ∨ ver ≠ 1 then none
  let bits := if cls = 1 then 32 else 64
  let big := dat = 2
  let etype ← rd f big 16 2
  let ever ← rd f big 20 4
  if ever ≠ 1 then none
  let w := bits / 8
  let entry ← rd f big 24 w
  let phoff ← rd f big (24 + w) w
  let shoff ← rd f big (24 + 2 * w) w
  let o := 24 + 3 * w + 4            -- after e_flags
  let phentsize ← rd f big (o + 2) 2
  let phnum ← rd f big (o + 4) 2
  let shentsize ← rd f big (o + 6) 2
  let shnum ← rd f big (o + 8) 2
  let shstrndx ← rd f big (o + 10) 2
  let wantPh := if bits = 32 then 32 else 56
  let wantSh := if bits = 32 then 40 else 64
  if phnum > 0 ∧ phentsize ≠ wantPh then none
  if shnum > 0 ∧ shentsize ≠ wantSh then none
  if phnum ≥ 0xffff ∨ shnum ≥ 0xff00 then none
  if shnum > 0 ∧ (shoff = 0 ∨ shstrndx ≥ shnum) then none
  if shnum = 0 ∧ shoff ≠ 0 then none
  let secs ← (List.range shnum).mapM fun i => readSec f big bits (shoff + i * shentsize)
  let segs ← (List.range phnum).mapM fun i => readSeg f big bits (phoff + i * phentsize)
  pure ⟨bits, etype, entry, secs, segs⟩

/-- a section that contributes to the code image: non-empty, executable, address-bearing PROGBITS -/
def RawSec.qualifies (s : RawSec) : Bool :=
  s.typ == 1 && s.size != 0 && s.addr != 0 && s.flags / 4 % 2 == 1

/-- what the loader has to produce for one of the two memories -/
inductive Expect where
  | reject (why : String)              -- an error is the only acceptable outcome
  | image (bs : List Block)            -- these blocks exactly
  | either (bs : List Block)           -- an error is tolerated, otherwise these blocks exactly
  | unknown                            -- the reader cannot tell (contents outside the file, compression…)

def sortBlocks (l : List Block) : List Block :=
  l.mergeSort fun x y => x.1 < y.1 || (x.1 == y.1 && x.2.length ≤ y.2.length)

/-- some pair of non-empty images shares an address -/
def anyMeet : List Block → Bool
  | [] => false
  | b :: rest => rest.any (fun c => meetB b c) || anyMeet rest

def expectOf (imgs : List Block) : Expect :=
  if imgs.isEmpty then .reject "no block"
  else if imgs.any fun b => decide (b.1 + b.2.length ≥ 2 ^ 64) then .reject "a block reaches the end of the address space"
  else if anyMeet imgs then .reject "blocks overlap"
  else if imgs.any fun b => b.2.isEmpty then .either (sortBlocks imgs)
  else .image (sortBlocks imgs)

/-- expected code image, from the file bytes -/
def expectCode (f : Array UInt8) (r : Raw) : Expect :=
  let q := r.secs.filter (·.qualifies)
  -- compressed sections and `.zdebug` style contents are outside the reader
  if q.any fun s => s.flags / 0x800 % 2 == 1 then .unknown else
  match q.mapM fun s => (slice f s.off s.size).map fun d => (s.addr, d) with
  | none => .unknown
  | some imgs =>
    if imgs.any fun b => b.2.take 4 == [0x5a, 0x4c, 0x49, 0x42] then .unknown else expectOf imgs

/-- expected program memory, from the file bytes -/
def expectMem (f : Array UInt8) (r : Raw) : Expect :=
  let q := r.segs.filter (·.typ == 1)
  if q.any fun g => decide (g.memsz < g.filesz) then .reject "memsz < filesz" else
  if q.any fun g => decide (g.memsz - g.filesz > 2 ^ 26) then .unknown else
  match q.mapM fun g => (slice f g.off g.filesz).map fun d =>
      (g.vaddr, d ++ List.replicate (g.memsz - g.filesz) (0 : UInt8)) with
  | none => .unknown
  | some imgs => expectOf imgs

/-- file types the property names: `some true` must be accepted by `NewParser`, `some false` rejected -/
def expectType (etype : Nat) : Option Bool :=
  if etype = 2 ∨ etype = 3 then some true
  else if etype = 0 ∨ etype = 1 ∨ etype = 4 then some false
  else none

/-! ### Part 3: checkers -/

/-- the result blocks are tidy and are, as a multiset, the given images -/
def blocksAre (bs imgs : List Block) : Bool :=
  decide (Tidy bs) && sortBlocks bs == sortBlocks imgs

/-- consistency of a successful `MachineCode` with the view -/
def codeConsistent (v : View) (bs : List Block) : Bool :=
  let q := v.sections.filter fun s => decide (Qualifies s)
  q.all (fun s => match s.data with | some d => d.length == s.sizeAfter | none => false) &&
  !bs.isEmpty && blocksAre bs (codeImages v)

/-- consistency of a successful `Memory` with the view -/
def memConsistent (v : View) (bs : List Block) : Bool :=
  let q := v.progs.filter fun p => decide (p.typ = 1)
  q.all (fun p => p.memsz ≥ p.filesz && p.data.isSome && (p.data.getD []).length ≤ p.memsz) &&
  !bs.isEmpty && blocksAre bs (loadImages v)

/-- answer of an address lookup against the blocks -/
def lookupOk (bs : List Block) (a : Nat) (ans : Option (List UInt8)) : Bool := lookup bs a == ans

end Mltwist.Elf.Spec
