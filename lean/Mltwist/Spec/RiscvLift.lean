import Mltwist.Model.Expr
import Mltwist.Spec.Riscv
/-
What it means for lifted effects to implement a RISC-V instruction (statement side of C01).

* `Env.applyEffects`: the IR-level meaning of an effect list — every effect is evaluated in the
  pre-state, then they are applied in order (registers hold whole values: a write of width `w`
  stores the value truncated to `w`; memory is byte addressed, little endian, addresses mod 2^64).
* `nextIp`: an instruction-pointer write is a jump, otherwise execution falls through.
* `Rel`: a valuation of the IR's named registers and memories represents a reference machine state.
  Naming: general registers `x1 … x31`, one register per unsigned 12-bit CSR number (`csrName`),
  memory key `memory`, instruction pointer key `#r:w:ip`.
-/
namespace Mltwist.Spec.Lift
open Mltwist Mltwist.Spec.Rv

def ipKey : String := "#r:w:ip"
def memKey : String := "memory"
def xName (n : Nat) : String := "x" ++ toString n
/-- the register that stands for CSR number `n < 4096` (the 12-bit number read as a signed
immediate and converted to `uint16`, as the front end names it) -/
def csrName (n : Nat) : String := "csr" ++ toString (if n < 2048 then n else n + 61440)

/-- store the `w` low bytes of `v` at `a` (addresses mod 2^64) -/
def storeMem (mem : Nat → Nat) (a v : Nat) : Nat → (Nat → Nat)
  | 0 => mem
  | w + 1 => storeMem (fun k => if k = a % 2 ^ 64 then v % 256 else mem k) (a + 1) (v / 256) w

/-- one effect, evaluated under `pre`, applied to `cur` -/
def applyEffect (pre cur : Env) : Effect → Env
  | .regStore v k w =>
    { cur with reg := fun k' => if k' = k then trunc w (v.eval pre) else cur.reg k' }
  | .memStore v k a w =>
    { cur with mem := fun k' => if k' = k then storeMem (cur.mem k) (a.eval pre % 2 ^ 64) (trunc w (v.eval pre)) w
                                 else cur.mem k' }

def Env.applyEffects (ρ : Env) (efs : List Effect) : Env := efs.foldl (applyEffect ρ) ρ

/-- the next instruction pointer: the last write to the IP key if there is one, else `fall` -/
def nextIp (ρ : Env) (efs : List Effect) (fall : Nat) : Nat :=
  efs.foldl (fun ip ef => match ef with
    | .regStore v k w => if k = ipKey then trunc w (v.eval ρ) else ip
    | _ => ip) fall

/-- the valuation `ρ` represents the machine state `s` -/
structure Rel (ρ : Env) (s : St) : Prop where
  x : ∀ n, 1 ≤ n → n < 32 → ρ.reg (xName n) = s.x n
  csr : ∀ n, n < 4096 → ρ.reg (csrName n) = s.csr n
  mem : ∀ a, a < 2 ^ 64 → ρ.mem memKey a % 256 = s.mem a % 256

/-- all components of a state are `xlen`-bit values -/
structure St.WF (xlen : Nat) (s : St) : Prop where
  x : ∀ n, s.x n < 2 ^ xlen
  csr : ∀ n, s.csr n < 2 ^ xlen
  pc : s.pc < 2 ^ xlen

/-- two states agree on everything observable -/
structure St.Equiv (s t : St) : Prop where
  x : ∀ n, 1 ≤ n → n < 32 → s.x n = t.x n
  csr : ∀ n, n < 4096 → s.csr n = t.csr n
  mem : ∀ a, a < 2 ^ 64 → s.mem a % 256 = t.mem a % 256
  pc : s.pc = t.pc

end Mltwist.Spec.Lift
