import Mltwist.Model.Listing
/-
Specification of the disassembly listing (C23) and of the navigation commands (C31),
independent of the model's functions (only the data types `Ins`, `Block`, `Code`, `CodeOps` of
`Model/Listing.lean` are shared).

* `rows code`: what a fresh rendering of the code shows — for every block, in current order, a
  header `Block <position+1>: 0x<start address, lower-case hex>`, then one row per instruction in
  current order `<5 spaces><text padded to 24 columns> | <bytes as upper-case hex pairs>`, a single
  blank row between two blocks and one blank row at the end; every row knows which block position /
  instruction position it shows.
* `lineOf code b i`: the row number of the `i`-th instruction of the `b`-th block.
* `WF`, `Lawful`: what the listing assumes about the code model underneath.
* `expectUp/Down/Goto/Entry/Find`: where a navigation command has to put the cursor, and the
  executable checkers used by the model driver on the implementation's answers.
-/
namespace Mltwist.Listing.Spec
open Mltwist.Listing

/-! ### fresh rendering -/

def hexDigitChar (upper : Bool) (d : Nat) : Char :=
  if d < 10 then Char.ofNat ('0'.toNat + d)
  else Char.ofNat ((if upper then 'A'.toNat else 'a'.toNat) + (d - 10))

/-- hexadecimal digits of `n`, most significant first, no leading zeros (`0` for zero) -/
def hexDigits (upper : Bool) : (fuel : Nat) → Nat → List Char → List Char
  | 0, _, acc => acc
  | fuel + 1, n, acc =>
    let acc' := hexDigitChar upper (n % 16) :: acc
    if n / 16 = 0 then acc' else hexDigits upper fuel (n / 16) acc'

def hexOf (upper : Bool) (n : Nat) : String := String.ofList (hexDigits upper (n + 1) n [])

/-- two upper-case hex digits -/
def byteText (b : UInt8) : String :=
  String.ofList [hexDigitChar true (b.toNat / 16), hexDigitChar true (b.toNat % 16)]

def bytesText : List UInt8 → String
  | [] => ""
  | [b] => byteText b
  | b :: bs => byteText b ++ " " ++ bytesText bs

def headerText (pos begin : Nat) : String :=
  "Block " ++ Nat.repr (pos + 1) ++ ": 0x" ++ hexOf false begin

def insText (i : Ins) : String :=
  "     " ++ (i.text ++ String.ofList (List.replicate (24 - i.text.length) ' ')) ++ " | " ++ bytesText i.bytes

/-- an expected row of the listing -/
structure Row where
  text : String
  /-- position of the block the row belongs to -/
  block : Option Nat
  /-- position of the instruction the row shows -/
  instr : Option Nat
  deriving DecidableEq, Repr

def blank : Row := ⟨"", none, none⟩

/-- a line of the listing apart from its mark -/
def rowOf (l : Line) : Row := ⟨l.value, l.block, l.instr⟩

/-- the listing apart from the marks -/
def shown (l : Lines) : List Row := l.lines.map rowOf

def insRows (pos : Nat) : (ipos : Nat) → List Ins → List Row
  | _, [] => []
  | ipos, i :: is => ⟨insText i, some pos, some ipos⟩ :: insRows pos (ipos + 1) is

def blockRows (pos : Nat) (b : Block) : List Row :=
  ⟨headerText pos b.begin, some pos, none⟩ :: insRows pos 0 b.ins

/-- rows of the blocks from position `pos` on, a blank row before every block but the first -/
def blocksRows : (pos : Nat) → List Block → List Row
  | _, [] => []
  | pos, b :: bs => (if pos = 0 then [] else [blank]) ++ blockRows pos b ++ blocksRows (pos + 1) bs

/-- the fresh rendering of a code -/
def rows (c : Code) : List Row := blocksRows 0 c.blocks ++ [blank]

/-- row number of the header of the block at position `b` -/
def headerLine (c : Code) (b : Nat) : Nat :=
  ((c.blocks.take b).map fun x => x.ins.length + 2).sum

/-- row number of the `i`-th instruction of the block at position `b` -/
def lineOf (c : Code) (b i : Nat) : Nat := headerLine c b + 1 + i

/-! ### assumptions on the code model -/

/-- `Idx()` is the position, for blocks and instructions; the bounds are instruction positions -/
structure WF (c : Code) : Prop where
  blockIdx : ∀ (i : Nat) (b : Block), c.blocks[i]? = some b → b.idx = i
  insIdx : ∀ b ∈ c.blocks, ∀ (i : Nat) (x : Ins), b.ins[i]? = some x → x.idx = i
  bounds : ∀ b ∈ c.blocks, ∀ x ∈ b.ins, x.lower < b.ins.length ∧ x.upper < b.ins.length

def wfB (c : Code) : Bool :=
  (c.blocks.zipIdx.all fun (p : Block × Nat) => p.1.idx == p.2) &&
  (c.blocks.all fun b => b.ins.zipIdx.all fun (p : Ins × Nat) => p.1.idx == p.2) &&
  (c.blocks.all fun b => b.ins.all fun x => x.lower < b.ins.length && x.upper < b.ins.length)

/-- an instruction without its position dependent attributes -/
def content (i : Ins) : String × List UInt8 := (i.text, i.bytes)

/-- a block without its position: start, end and the multiset of its instructions -/
def sameBlock (b b' : Block) : Prop :=
  b'.begin = b.begin ∧ b'.stop = b.stop ∧ (b'.ins.map content).Perm (b.ins.map content)

/-- What the listing needs from the code operations: an accepted instruction move keeps all other
blocks, and permutes the instructions of that block (renumbering them — part of `WF`); an accepted
block move permutes the blocks (renumbering them); the entry point never changes; well-formedness
is kept.  (A rejected move changes nothing by construction: there is no new state.) -/
structure Lawful (ops : CodeOps) : Prop where
  moveIns_wf : ∀ c k s d c', WF c → ops.moveIns c k s d = some c' → WF c'
  moveIns_entry : ∀ c k s d c', ops.moveIns c k s d = some c' → c'.entry = c.entry
  moveIns_length : ∀ c k s d c', ops.moveIns c k s d = some c' → c'.blocks.length = c.blocks.length
  moveIns_other : ∀ c k s d c', ops.moveIns c k s d = some c' →
    ∀ j, j ≠ k → c'.blocks[j]? = c.blocks[j]?
  moveIns_block : ∀ c k s d c', ops.moveIns c k s d = some c' →
    ∀ b b', c.blocks[k]? = some b → c'.blocks[k]? = some b' → b'.idx = b.idx ∧ sameBlock b b'
  moveBlock_wf : ∀ c s d c', WF c → ops.moveBlock c s d = some c' → WF c'
  moveBlock_entry : ∀ c s d c', ops.moveBlock c s d = some c' → c'.entry = c.entry
  moveBlock_perm : ∀ c s d c', ops.moveBlock c s d = some c' →
    (c'.blocks.map fun b => (b.begin, b.stop, b.ins)).Perm (c.blocks.map fun b => (b.begin, b.stop, b.ins))

/-! ### executable checks of the same assumptions on two consecutive dumps -/

def permB {α} [BEq α] : List α → List α → Bool
  | [], l => l.isEmpty
  | a :: as, l => l.contains a && permB as (l.erase a)

/-- dump after an accepted move of an instruction of block `k` -/
def checkInsMove (c c' : Code) (k : Nat) : Option String :=
  if c'.entry != c.entry then some "entry point changed"
  else if c'.blocks.length != c.blocks.length then some "number of blocks changed"
  else if (List.range c.blocks.length).any (fun j => j != k && c'.blocks[j]? != c.blocks[j]?) then
    some "another block changed"
  else match c.blocks[k]?, c'.blocks[k]? with
    | some b, some b' =>
      if b'.idx != b.idx || b'.begin != b.begin || b'.stop != b.stop then some "block attributes changed"
      else if !permB (b'.ins.map content) (b.ins.map content) then
        some "instructions are not a permutation"
      else none
    | _, _ => some "no such block"

/-- dump after an accepted move of a block -/
def checkBlockMove (c c' : Code) : Option String :=
  if c'.entry != c.entry then some "entry point changed"
  else if !permB (c'.blocks.map fun b => (b.begin, b.stop, b.ins)) (c.blocks.map fun b => (b.begin, b.stop, b.ins)) then
    some "blocks are not a permutation"
  else none

/-! ### navigation -/

/-- what a navigation command has to do: put the cursor on a line, or fail -/
inductive Expect where
  | moved (line : Nat)
  | failed
  deriving DecidableEq, Repr

def expectUp (cur n : Nat) : Expect := if n ≤ cur then .moved (cur - n) else .failed

def expectDown (len cur n : Nat) : Expect := if cur + n < len then .moved (cur + n) else .failed

def expectGoto (len n : Nat) : Expect := if n < len then .moved n else .failed

/-- position of the first instruction with current address `a` in a block -/
def findIns (a : Nat) : (ipos : Nat) → List Ins → Option Nat
  | _, [] => none
  | ipos, i :: is => if i.addr = a then some ipos else findIns a (ipos + 1) is

/-- block and instruction position of the instruction at address `a` -/
def findAddr (a : Nat) : (pos : Nat) → List Block → Option (Nat × Nat)
  | _, [] => none
  | pos, b :: bs =>
    match findIns a 0 b.ins with
    | some i => some (pos, i)
    | none => findAddr a (pos + 1) bs

/-- the row of the entry instruction: the instruction whose current address is the entry point -/
def expectEntry (c : Code) : Expect :=
  match findAddr c.entry 0 c.blocks with
  | some (b, i) => .moved (lineOf c b i)
  | none => .failed

/-- what `entrypoint` assumes about addresses: the current addresses of the instructions of a block
ascend strictly and lie inside the block, and the address ranges of the blocks are pairwise disjoint -/
structure AddrWF (c : Code) : Prop where
  inside : ∀ b ∈ c.blocks, ∀ x ∈ b.ins, b.begin ≤ x.addr ∧ x.addr < b.stop
  ascending : ∀ b ∈ c.blocks, b.ins.Pairwise (fun x y => x.addr < y.addr)
  disjoint : c.blocks.Pairwise (fun b b' => b.stop ≤ b'.begin ∨ b'.stop ≤ b.begin)

def pairwiseB {α} (r : α → α → Bool) : List α → Bool
  | [] => true
  | a :: as => as.all (r a) && pairwiseB r as

def addrWfB (c : Code) : Bool :=
  (c.blocks.all fun b => b.ins.all fun x => b.begin ≤ x.addr && x.addr < b.stop) &&
  (c.blocks.all fun b => pairwiseB (fun x y => x.addr < y.addr) b.ins) &&
  pairwiseB (fun b b' => b.stop ≤ b'.begin || b'.stop ≤ b.begin) c.blocks

/-- the lines after the cursor, cyclically, excluding the cursor line -/
def cyclicAfter (len cur : Nat) : List Nat := (List.range (len - 1)).map fun k => (cur + 1 + k) % len

/-- `ms = none`: the pattern is no regular expression; otherwise `ms[i]` tells whether line `i` matches -/
def expectFind (ms : Option (List Bool)) (len cur : Nat) : Expect :=
  match ms with
  | none => .failed
  | some v =>
    match (cyclicAfter len cur).find? (fun i => v.getD i false) with
    | some i => .moved i
    | none => .failed

/-- the property of a navigation command: it reports success and the cursor is on the expected line, or
it does not report success and the cursor stays where it was -/
def Lands (e : Expect) (ok : Prop) (before after : Nat) : Prop :=
  match e with
  | .moved line => ok ∧ after = line
  | .failed => ¬ ok ∧ after = before

/-- the match vector of a `find` has one entry per line of the listing (it is computed from the lines) -/
def ValidCmd (len : Nat) : Cmd → Prop
  | .find (some v) => v.length = len
  | _ => True

/-- judge the answer of a navigation command: `ok` = it reported success -/
def checkNav (e : Expect) (ok : Bool) (before after : Nat) : Option String :=
  match e with
  | .moved line =>
    if !ok then some s!"fails although line {line} is the target"
    else if after != line then some s!"cursor on {after}, expected {line}"
    else none
  | .failed =>
    if ok then some s!"succeeds (cursor {after}) although it must fail"
    else if after != before then some s!"fails and moves the cursor from {before} to {after}"
    else none

end Mltwist.Listing.Spec
