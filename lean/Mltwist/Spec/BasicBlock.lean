import Mltwist.Model.BasicBlock
/-
Specification of basic-block identification (C08), independent of the model's functions
(only the data type `Ins`, `possibilities` and `constFold` of `Model/Transform.lean` — which are
the subject of C09/C13 — and `leToNat` are shared).

* the *real jump targets* of an instruction: all possibilities of every value stored to the
  instruction pointer, constant folded, without the constants that denote the address of the
  next instruction (`End()`, modulo `2^64`: the instruction pointer is a 64-bit register);
* `Fails`: the entry point or a constant 64-bit real jump target is not an instruction start;
* `Cut`: where a block boundary has to be;
* `groups`: the partition of a list into maximal runs without a cut, and the oracle.
-/
namespace Mltwist.BasicBlock.Spec
open Mltwist

/-! ### real jump targets of an instruction -/

/-- values the instruction may store to the instruction pointer -/
def ipValues : List Effect → List Expr
  | [] => []
  | .regStore v k _ :: efs => (if k = "#r:w:ip" then (possibilities v).map constFold else []) ++ ipValues efs
  | .memStore .. :: efs => ipValues efs

/-- a constant denoting the 64-bit address `a` -/
def isAddr (a : Nat) : Expr → Bool
  | .const bs => leToNat bs % 2 ^ 64 == a
  | _ => false

/-- possible targets other than the next instruction -/
def realTargets (addr len : Nat) (effects : List Effect) : List Expr :=
  (ipValues effects).filter fun e => !isAddr ((addr + len) % 2 ^ 64) e

/-! ### failure and cut conditions -/

def starts (l : List Ins) : List Nat := l.map (·.addr)

/-- the address of a constant target that fits 64 bits -/
def constAddr : Expr → Option Nat
  | .const bs => if leToNat bs < 2 ^ 64 then some (leToNat bs) else none
  | _ => none

/-- all constant 64-bit real jump targets of the program -/
def constTargets (l : List Ins) : List Nat := l.flatMap fun i => i.jumps.filterMap constAddr

/-- well-formed code: positive lengths, nothing reaches beyond `2^64`, no two instructions overlap
(in particular the addresses are pairwise distinct) -/
def WF (l : List Ins) : Prop :=
  (∀ i ∈ l, 0 < i.len ∧ i.addr + i.len ≤ 2 ^ 64) ∧
  l.Pairwise fun a b => a.addr + a.len ≤ b.addr ∨ b.addr + b.len ≤ a.addr

instance (l : List Ins) : Decidable (WF l) := by unfold WF; infer_instance

/-- building the code has to fail -/
def Fails (entry : Nat) (l : List Ins) : Prop :=
  entry ∉ starts l ∨ ∃ t ∈ constTargets l, t ∉ starts l

instance (entry : Nat) (l : List Ins) : Decidable (Fails entry l) := by unfold Fails; infer_instance

/-- a block boundary has to be between the adjacent instructions `a` and `b` (in address order) -/
def Cut (entry : Nat) (l : List Ins) (a b : Ins) : Prop :=
  a.jumps ≠ [] ∨ (a.addr + a.len) % 2 ^ 64 ≠ b.addr ∨ b.addr ∈ constTargets l ∨ b.addr = entry

instance (entry : Nat) (l : List Ins) (a b : Ins) : Decidable (Cut entry l a b) := by
  unfold Cut; infer_instance

/-! ### partitions -/

/-- the partition of `l` into maximal runs such that a run ends between adjacent `a`, `b`
iff `cut a b` -/
def groups (cut : Ins → Ins → Bool) : List Ins → List (List Ins)
  | [] => []
  | [a] => [[a]]
  | a :: b :: rest =>
    if cut a b then [a] :: groups cut (b :: rest)
    else
      match groups cut (b :: rest) with
      | [] => [[a]]
      | g :: gs => (a :: g) :: gs

/-- sorted by address (merge sort of core Lean) -/
def sortByAddr (l : List Ins) : List Ins := l.mergeSort fun a b => a.addr ≤ b.addr

/-- the blocks demanded by the property -/
def blocks (entry : Nat) (l : List Ins) : List (List Ins) :=
  groups (fun a b => decide (Cut entry l a b)) (sortByAddr l)

/-- every instruction of the run ends where the next one begins -/
def Contiguous : List Ins → Prop
  | a :: b :: rest => a.addr + a.len = b.addr ∧ Contiguous (b :: rest)
  | _ => True

/-- there is a block boundary after the first `n` instructions -/
def BoundaryAt (bs : List (List Ins)) (n : Nat) : Prop :=
  ∃ m, ((bs.take m).map List.length).sum = n

/-- `bs` is the partition of `sorted` with exactly the cuts of `cut` -/
def IsPartition (cut : Ins → Ins → Prop) (sorted : List Ins) (bs : List (List Ins)) : Prop :=
  bs.flatten = sorted ∧ (∀ b ∈ bs, b ≠ []) ∧
  ∀ k a b, sorted[k]? = some a → sorted[k + 1]? = some b → (BoundaryAt bs (k + 1) ↔ cut a b)

/-! ### executable oracle (works on what the implementation printed) -/

def wfB (l : List Ins) : Bool := decide (WF l)
def failsB (entry : Nat) (l : List Ins) : Bool := decide (Fails entry l)

/-- prefix lengths at which `bs` has a boundary -/
def boundaries (bs : List (List Ins)) : List Nat :=
  (bs.foldl (fun (acc : List Nat × Nat) b => (acc.1 ++ [acc.2 + b.length], acc.2 + b.length)) ([], 0)).1

/-- positions `k + 1` such that a cut is demanded between `sorted[k]` and `sorted[k+1]` -/
def cutPositions (entry : Nat) (l sorted : List Ins) : List Nat :=
  (List.range (sorted.length - 1)).filter fun k =>
    match sorted[k]?, sorted[k + 1]? with
    | some a, some b => decide (Cut entry l a b)
    | _, _ => false

/-- oracle for a successful result: `impl` are the blocks as `(addr, len)` lists -/
def checkBlocks (entry : Nat) (l : List Ins) (impl : List (List (Nat × Nat))) : Option String :=
  let sorted := sortByAddr l
  let flat := impl.flatten
  if flat ≠ sorted.map (fun i => (i.addr, i.len)) then some "blocks do not concatenate to the sorted instructions"
  else if impl.any (·.isEmpty) then some "empty block"
  else
    let implB := (boundaries (impl.map (·.map fun p => (⟨p.1, p.2, []⟩ : Ins)))).filter (· < sorted.length)
    let want := (cutPositions entry l sorted).map (· + 1)
    match want.find? (fun k => !implB.contains k), implB.find? (fun k => !want.contains k) with
    | some k, _ => some s!"missing block boundary before instruction {k}"
    | _, some k => some s!"block boundary before instruction {k} is not required"
    | none, none => none

end Mltwist.BasicBlock.Spec
