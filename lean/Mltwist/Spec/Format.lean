/-
Specification of help-text wrapping (C29), independent of the model.

Given the text `s`, the number of indentation tabs `indent`, the remaining width `chars`
(`= width − 8·indent ≥ 1`) and the produced output `out`:

* `out` is a sequence of `\n`-terminated lines (`splitLines`); with the content clause below it is
  empty only if `s` has no non-space byte, i.e. (under the precondition) only if `s` is empty;
* every line is exactly `indent` tabs followed by a body of `1 … chars` bytes (`LineOK`);
  a body may *end* with spaces (they still fit the width — the property asks for nothing more);
* the bodies, spaces removed, concatenate to `s`, spaces removed (`noSpace`);
* a word of `s` (maximal run of non-space bytes) is spread over several word pieces of the bodies
  only if it is longer than `chars` (`WordsKept`, executable: `wordsKeptB`).

Bytes, not runes, as in the Go code.  Core Lean only.
-/
namespace Mltwist.Spec.Format

abbrev Str := List UInt8

def space : UInt8 := 32
def tab : UInt8 := 9
def nl : UInt8 := 10

/-- precondition of the property on the text: a single line without leading space -/
def Pre (s : Str) : Prop := s.head? ≠ some space ∧ nl ∉ s

instance (s : Str) : Decidable (Pre s) := by unfold Pre; exact inferInstance

/-- `splitLinesAux rest cur`: `cur` = bytes of the current line seen so far -/
def splitLinesAux : Str → Str → Option (List Str)
  | [], cur => if cur = [] then some [] else none
  | c :: cs, cur =>
    if c = nl then (splitLinesAux cs []).map (cur :: ·) else splitLinesAux cs (cur ++ [c])

/-- the `\n`-terminated lines of a text (without the terminators); `none` when the last line is not
terminated; the empty text has no lines -/
def splitLines (out : Str) : Option (List Str) := splitLinesAux out []

/-- all bytes except spaces, in order -/
def noSpace (s : Str) : Str := s.filter (· != space)

/-- `wordsAux rest cur`: `cur` = bytes of the current word seen so far -/
def wordsAux : Str → Str → List Str
  | [], cur => if cur = [] then [] else [cur]
  | c :: cs, cur =>
    if c = space then (if cur = [] then wordsAux cs [] else cur :: wordsAux cs [])
    else wordsAux cs (cur ++ [c])

/-- the words of a text: its maximal runs of non-space bytes, in order -/
def words (s : Str) : List Str := wordsAux s []

/-- a line is exactly `indent` tabs followed by `1 … chars` bytes -/
def LineOK (indent chars : Nat) (l : Str) : Prop :=
  l.take indent = List.replicate indent tab ∧ 1 ≤ (l.drop indent).length ∧ (l.drop indent).length ≤ chars

instance (indent chars : Nat) (l : Str) : Decidable (LineOK indent chars l) := by
  unfold LineOK; exact inferInstance

/-- the part of a line after the indentation -/
def body (indent : Nat) (l : Str) : Str := l.drop indent

/-- Word pieces of all line bodies, in order. -/
def pieces (bodies : List Str) : List Str := bodies.flatMap words

/-- A word of the text is the concatenation of a group of consecutive word pieces of the lines; a
group of more than one piece (a split word) is allowed only for a word longer than `chars`. -/
def WordsKept (chars : Nat) (s : Str) (bodies : List Str) : Prop :=
  ∃ groups : List (List Str),
    groups.flatten = pieces bodies ∧
    groups.map List.flatten = words s ∧
    ∀ g ∈ groups, g.length = 1 ∨ chars < g.flatten.length

/-- `takeWord w ps`: take pieces from the front of `ps` until they concatenate to `w`;
answers the number of pieces used and the remaining pieces -/
def takeWord (w : Str) : List Str → Option (Nat × List Str)
  | [] => none
  | p :: ps =>
    if p = w then some (1, ps)
    else if p ≠ [] ∧ p.length < w.length ∧ w.take p.length = p then
      (takeWord (w.drop p.length) ps).map fun (n, r) => (n + 1, r)
    else none

/-- executable form of `WordsKept` on the word list of the text and the piece list of the lines
(pieces are non-empty, so the grouping is unique and found greedily) -/
def splitOK (chars : Nat) : List Str → List Str → Bool
  | [], ps => ps.isEmpty
  | w :: ws, ps =>
    match takeWord w ps with
    | none => false
    | some (n, r) => (n == 1 || decide (chars < w.length)) && splitOK chars ws r

def wordsKeptB (chars : Nat) (s : Str) (bodies : List Str) : Bool :=
  splitOK chars (words s) (pieces bodies)

/-- The whole property for one call (`indent`, `chars` as naturals; `chars ≥ 1` is the caller's
precondition). -/
def Wrapped (s : Str) (indent chars : Nat) (out : Str) : Prop :=
  ∃ ls, splitLines out = some ls ∧
    (∀ l ∈ ls, LineOK indent chars l) ∧
    noSpace (ls.map (body indent)).flatten = noSpace s ∧
    WordsKept chars s (ls.map (body indent))

/-- Executable oracle: first reason why `out` is not a correct wrapping of `s`, `none` = correct. -/
def check (s : Str) (indent chars : Nat) (out : Str) : Option String :=
  match splitLines out with
  | none => some "output does not end with a newline"
  | some ls =>
    let bodies := ls.map (body indent)
    if ¬ (∀ l ∈ ls, l.take indent = List.replicate indent tab) then
      some "a line does not start with the indentation"
    else if ¬ (∀ b ∈ bodies, 1 ≤ b.length) then some "an empty line"
    else if ¬ (∀ b ∈ bodies, b.length ≤ chars) then some "a line exceeds the remaining width"
    else if noSpace bodies.flatten ≠ noSpace s then some "non-space characters lost or reordered"
    else if ¬ wordsKeptB chars s bodies then some "a word that fits the width is split"
    else none

end Mltwist.Spec.Format
