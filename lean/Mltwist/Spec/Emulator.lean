import Mltwist.Model.Expr
import Mltwist.Spec.Riscv
import Mltwist.Spec.RiscvLift
/-
Reference and executable oracle for the emulator (C03, C04).  Independent of `Model/Emulator.lean`:
it imports neither the model nor the front end, only the reference RISC-V machine (`Spec/Riscv.lean`)
and the naming of registers (`Spec/RiscvLift.lean`).

* The state provider of the harness is a deterministic function of (seed, key, address)
  (`provReg`, `provByte`); it is an INPUT of a run, shared by the harness, the model driver and the
  oracle.
* The reference run: `Spec.Rv.exec 64` + `decode` on the program image, initial registers and memory
  bytes = the pre-set value / the image byte if there is one, otherwise what the provider would answer.
* `judgeStep03`: what C03 demands of one observed step (outcome, instruction pointer, every register the
  emulator holds, every byte either side wrote, the access report with its values).
* `judgeStep04`: what C04 demands of the provider log of one step (only unknown state, at most once,
  later reads return the supplied value until the program overwrites it).
-/
namespace Mltwist.Spec.Emu
open Mltwist Mltwist.Spec.Rv Mltwist.Spec.Lift

/-! ### the provider of the harness -/

def mix (h x : Nat) : Nat := ((h ^^^ x) * 1099511628211 + 0x9e3779b97f4a7c15) % 2 ^ 64

def hashStr (seed : Nat) (s : String) : Nat := s.foldl (fun h c => mix h c.toNat) (mix seed 77)

/-- the 64-bit value of register `key` -/
def provReg (seed : Nat) (key : String) : Nat :=
  let h := hashStr seed key
  match h % 8 with
  | 0 => 0
  | 1 => 2 ^ 64 - 1
  | 2 => 2 ^ 63
  | 3 => 2 ^ 63 - 1
  | 4 => mix h 5 % 256
  | 5 => 2 ^ 64 - 1 - mix h 5 % 256
  | _ => mix h 1

/-- the byte at `a` of the address space `key` -/
def provByte (seed : Nat) (key : String) (a : Nat) : Nat :=
  let x := mix (mix (hashStr (seed + 1) key) a) 1
  (x ^^^ (x / 2 ^ 29)) * 0xbf58476d1ce4e5b9 % 2 ^ 64 / 2 ^ 56

/-! ### the program image -/

abbrev Blocks := List (Nat × List UInt8)

def blockByte? (bs : Blocks) (a : Nat) : Option Nat :=
  match bs.find? (fun b => b.1 ≤ a && a < b.1 + b.2.length) with
  | some b => (b.2[a - b.1]?).map (·.toNat)
  | none => none

def inBlocks (bs : Blocks) (a : Nat) : Bool := bs.any fun b => b.1 ≤ a && a < b.1 + b.2.length

/-- `pc` is the start of a decoded instruction: instructions tile every code block from its begin -/
def insStart (code : Blocks) (pc : Nat) : Bool :=
  code.any fun b => b.1 ≤ pc && pc + 4 ≤ b.1 + b.2.length && (pc - b.1) % 4 == 0

def rangesMeet (a n : Nat) (bs : Blocks) : Bool :=
  bs.any fun b => a < b.1 + b.2.length && b.1 < a + n

/-! ### access sets of an instruction (my reading of the ISA manual, by instruction format) -/

def rs1Only : List String :=
  ["jalr", "lb", "lh", "lw", "ld", "lbu", "lhu", "lwu", "addi", "slti", "sltiu", "xori", "ori", "andi",
   "slli", "srli", "srai", "addiw", "slliw", "srliw", "sraiw", "lr.w", "lr.d"]

def noSrc : List String := ["lui", "auipc", "jal", "fence", "fence.i", "ecall", "ebreak"]

def isCsr (n : String) : Bool := n.startsWith "csrr"
def isBranch (n : String) : Bool := ["beq", "bne", "blt", "bge", "bltu", "bgeu"].contains n
def isStore (n : String) : Bool := ["sb", "sh", "sw", "sd"].contains n
def isAmo (n : String) : Bool := n.startsWith "amo"
def isSc (n : String) : Bool := n == "sc.w" || n == "sc.d"

/-- registers an instruction reads (x0 is not a register) -/
def srcRegs (name : String) (w : Nat) : List String :=
  let x (n : Nat) : List String := if n = 0 then [] else [xName n]
  let c := [csrName (csrNum w)]
  (if noSrc.contains name then []
  else if rs1Only.contains name then x (rs1 w)
  else if name == "csrrw" then x (rs1 w) ++ (if rd w = 0 then [] else c)
  else if name == "csrrs" || name == "csrrc" then x (rs1 w) ++ c
  else if name == "csrrwi" then (if rd w = 0 then [] else c)
  else if name == "csrrsi" || name == "csrrci" then c
  else x (rs1 w) ++ x (rs2 w)).eraseDups

/-- registers an instruction writes; the instruction pointer counts for control-flow instructions -/
def dstRegs (name : String) (w : Nat) : List String :=
  let d : List String := if rd w = 0 then [] else [xName (rd w)]
  if isBranch name then [ipKey]
  else if name == "jal" || name == "jalr" then d ++ [ipKey]
  else if isStore name || ["fence", "fence.i", "ecall", "ebreak"].contains name then []
  else if isCsr name then d ++ [csrName (csrNum w)]
  else d

/-- does the instruction read / write the memory range of `accessRange`? -/
def readsMem (name : String) : Bool := !isStore name && !isSc name
def writesMem (name : String) : Bool := isStore name || isSc name || isAmo name

/-! ### the reference run -/

def keyNum (pre k : String) : Option Nat :=
  if k.startsWith pre then (k.drop pre.length).toString.toNat? else none

/-- the value of a register key in a reference state -/
def regOf (s : St) (k : String) : Option Nat :=
  if k == ipKey then some s.pc
  else match keyNum "x" k with
    | some n => if 1 ≤ n && n < 32 && xName n == k then some (s.x n) else none
    | none => match keyNum "csr" k with
      | some n => if csrName (n % 4096) == k then some (s.csr (n % 4096)) else none
      | none => none

structure Setup where
  seed : Nat
  entry : Nat
  code : Blocks
  data : Blocks
  pre : List (String × List UInt8)

def Setup.image (u : Setup) : Blocks := u.code ++ u.data

def Setup.preset (u : Setup) (k : String) : Option Nat := (u.pre.lookup k).map leToNat

/-- initial reference state: pre-set value / image byte, otherwise the provider's answer -/
def Setup.init (u : Setup) : St where
  x n := (u.preset (xName n)).getD (provReg u.seed (xName n))
  csr n := (u.preset (csrName n)).getD (provReg u.seed (csrName n))
  mem a := (blockByte? u.image a).getD (provByte u.seed memKey a)
  pc := u.entry

/-- is the initial state a state of an RV64 machine (pre-set values fit 64 bits)? -/
def Setup.wf (u : Setup) : Bool := u.pre.all fun p => leToNat p.2 < 2 ^ 64

inductive RefStep where
  /-- `pc` is not the start of a decoded instruction -/
  | noIns
  /-- the word at `pc` is no instruction of RV64IMA (cannot happen after a successful parse) -/
  | undefined
  /-- outside the scope of the property: an access that touches the end of the address space, or a
  store into the code -/
  | outOfScope (why : String)
  | exec (name : String) (word : Nat) (post : St)

def Setup.refStep (u : Setup) (s : St) : RefStep :=
  if !insStart u.code s.pc then .noIns else
  let word := (List.range 4).foldl (fun acc i => acc + (blockByte? u.code (s.pc + i)).getD 0 * 256 ^ i) 0
  match decode 64 true true word with
  | none => .undefined
  | some name =>
    match accessRange 64 name word s with
    | some (a, n) =>
      if a + n ≥ 2 ^ 64 then .outOfScope "wrap"
      else if writesMem name && rangesMeet a n u.code then .outOfScope "selfmod"
      else match exec 64 name word s with
        | some t => .exec name word t
        | none => .undefined
    | none =>
      match exec 64 name word s with
      | some t => .exec name word t
      | none => .undefined

/-- for a step that `refStep` puts out of scope as "wrap": the instruction and its access `[a, a+n)`, `a + n ≥ 2^64` -/
def Setup.wrapAccess (u : Setup) (s : St) : String × Nat × Nat :=
  let word := (List.range 4).foldl (fun acc i => acc + (blockByte? u.code (s.pc + i)).getD 0 * 256 ^ i) 0
  match decode 64 true true word with
  | none => ("?", 0, 0)
  | some name =>
    match accessRange 64 name word s with
    | some (a, n) => (name, a, n)
    | none => (name, 0, 0)

/-! ### what was observed of one step of the implementation -/

inductive Req where
  | reg (key : String) (w : Nat)
  | mem (key : String) (addr w : Nat)
  deriving DecidableEq, Repr

structure Access where
  key : String
  addr : Nat
  bytes : List UInt8
  deriving Repr

/-- a value held by the state: its width and numeric value; `none` = not a constant expression -/
abbrev Held := Option (Nat × Nat)

structure Obs where
  regLoads : List (String × List UInt8)
  regStores : List (String × List UInt8)
  memLoads : List Access
  memStores : List Access
  reqs : List Req
  /-- the register map after the step -/
  regs : List (String × Held)
  /-- the bytes of the writable layer after the step: address ↦ value, `none` = not constant -/
  wbytes : List (Nat × Option Nat)

def sameSet (a b : List String) : Bool := a.all b.contains && b.all a.contains

/-- a reference state with the register `k` changed -/
def setReg (s : St) (k : String) (v : Nat) : St :=
  match keyNum "x" k with
  | some n => { s with x := fun m => if m = n then v else s.x m }
  | none => match keyNum "csr" k with
    | some n => { s with csr := fun m => if m = n % 4096 then v else s.csr m }
    | none => s

/-- everything observable of the execution of one instruction: next pc, the written registers, the
accessed range and the stored bytes -/
def signature (name : String) (word : Nat) (s : St) : List Nat :=
  match exec 64 name word s with
  | none => []
  | some t =>
    [t.pc] ++ (dstRegs name word).map (fun k => (regOf t k).getD 0) ++
    (match accessRange 64 name word s with
     | some (a, n) => a :: n :: (if writesMem name then (List.range n).map (fun i => t.mem (a + i) % 256) else [])
     | none => [])

/-- the execution does not depend on the value of register `k` (three perturbations) -/
def regIrrelevant (name : String) (word : Nat) (s : St) (k : String) : Bool :=
  [0, 2 ^ 64 - 1, ((regOf s k).getD 0) ^^^ 0x5555555555555555].all fun v =>
    signature name word (setReg s k v) == signature name word s

/-- the execution does not depend on the content of the accessed memory range -/
def memIrrelevant (name : String) (word : Nat) (s : St) (a n : Nat) : Bool :=
  [0, 255, 1].all fun d =>
    let s' : St := { s with mem := fun x => if a ≤ x ∧ x < a + n then (s.mem x + d + 1) % 256 else s.mem x }
    signature name word s' == signature name word s

def bytesAt (s : St) (a n : Nat) : List Nat := (List.range n).map fun i => s.mem (a + i) % 256

/-- C03 on one step that the reference executes: `pre`/`post` reference states, `refWritten` all
addresses the reference has written so far (including this step). -/
def judgeStep03 (i : Nat) (name : String) (word : Nat) (pre post : St) (refWritten : List Nat) (o : Obs) :
    Option String :=
  let at_ := s!"step {i} ({name}): "
  -- instruction pointer and registers
  let regBad := o.regs.findSome? fun (k, h) =>
    match h, regOf post k with
    | _, none => some s!"the state holds the unknown register {k}"
    | none, _ => some s!"register {k} does not hold a constant"
    | some (cw, v), some r =>
      if cw ≥ 8 then (if v == r then none else some s!"register {k} = {v}, reference {r}")
      else if v == r % 2 ^ (8 * cw) then none
      else some s!"register {k} = {v} ({cw} bytes), reference {r}"
  let ipBad := match o.regs.lookup ipKey with
    | some (some (_, v)) => if v == post.pc then none else some s!"instruction pointer {v}, reference {post.pc}"
    | _ => some "no instruction pointer in the state"
  -- memory: every byte of the writable layer, and every byte the reference wrote
  let memBad := o.wbytes.findSome? fun (a, v) =>
    match v with
    | none => some s!"memory byte {a} is not a constant"
    | some b => if b == post.mem a % 256 then none else some s!"memory[{a}] = {b}, reference {post.mem a % 256}"
  let missBad := refWritten.findSome? fun a =>
    if o.wbytes.any (·.1 == a) then none else some s!"memory[{a}] was written by the reference but is not in the state"
  -- report: registers read
  let src := srcRegs name word
  let rlKeys := o.regLoads.map (·.1)
  let rlBad :=
    if !rlKeys.all src.contains then some s!"registers reported read {rlKeys}, reference {src}"
    else match src.find? (fun k => !rlKeys.contains k && !regIrrelevant name word pre k) with
    | some k => some s!"register {k} is not reported read although the instruction depends on it"
    | none => o.regLoads.findSome? fun (k, c) =>
      match regOf pre k with
      | none => some s!"unknown register {k} reported read"
      | some r =>
        if c.length < 4 then some s!"register {k} reported read with {c.length} bytes"
        else if leToNat c == r % 2 ^ (8 * c.length) then none
        else some s!"register {k} reported read as {leToNat c}, reference {r}"
  -- report: registers written
  let dst := dstRegs name word
  let rsKeys := o.regStores.map (·.1)
  let rsBad :=
    if !sameSet rsKeys dst then some s!"registers reported written {rsKeys}, reference {dst}"
    else o.regStores.findSome? fun (k, c) =>
      match regOf post k with
      | none => some s!"unknown register {k} reported written"
      | some r => if leToNat c == r then none else some s!"register {k} reported written as {leToNat c}, reference {r}"
  -- report: memory
  let range := accessRange 64 name word pre
  let mlBad := match range with
    | none => if o.memLoads.isEmpty then none else some "memory reads reported for an instruction without memory access"
    | some (a, n) =>
      if !readsMem name then (if o.memLoads.isEmpty then none else some "memory reads reported for a store")
      else if o.memLoads.isEmpty then
        (if memIrrelevant name word pre a n then none else some "no memory read reported although the instruction depends on memory")
      else o.memLoads.findSome? fun m =>
        if m.key != memKey then some s!"memory read of address space {m.key}"
        else if m.addr != a || m.bytes.length != n then
          some s!"memory read of [{m.addr},+{m.bytes.length}) reported, reference [{a},+{n})"
        else if m.bytes.map (·.toNat) == bytesAt pre a n then none
        else some s!"memory read at {m.addr} reported as {m.bytes.map (·.toNat)}, reference {bytesAt pre a n}"
  let msBad := match range with
    | none => if o.memStores.isEmpty then none else some "memory writes reported for an instruction without memory access"
    | some (a, n) =>
      if !writesMem name then (if o.memStores.isEmpty then none else some "memory writes reported for a load")
      else match o.memStores with
        | [m] =>
          if m.key != memKey then some s!"memory write of address space {m.key}"
          else if m.addr != a || m.bytes.length != n then
            some s!"memory write of [{m.addr},+{m.bytes.length}) reported, reference [{a},+{n})"
          else if m.bytes.map (·.toNat) == bytesAt post a n then none
          else some s!"memory write at {m.addr} reported as {m.bytes.map (·.toNat)}, reference {bytesAt post a n}"
        | l => some s!"{l.length} memory writes reported, reference 1"
  (ipBad <|> regBad <|> memBad <|> missBad <|> rlBad <|> rsBad <|> mlBad <|> msBad).map (at_ ++ ·)

/-- what was observed of a step that failed with the error of an access leaving the address space (F45) -/
structure ErrObs where
  addr : Nat
  w : Nat
  reqs : List Req
  /-- the register map after the failed step -/
  regs : List (String × Held)
  /-- the bytes of the writable layer after the failed step -/
  wbytes : List (Nat × Option Nat)

/-- C03 on a step whose access `[a, a+n)` does not fit the address space (`a + n ≥ 2^64`): `Step` must fail with
the error naming that access, and the ARCHITECTURAL state must be the reference's state BEFORE the step: the
instruction pointer is not advanced, every register the state holds has the reference's value (a register the
provider supplied during the failed step has the value the reference machine holds for it, by construction of
the reference's initial state), every byte of the writable layer — written earlier by the program or supplied —
has the reference's value, and everything the reference wrote earlier is still there. -/
def judgeAccessErr03 (i : Nat) (name : String) (a n : Nat) (pre : St) (refWritten : List Nat) (o : ErrObs) :
    Option String :=
  let at_ := s!"step {i} ({name}, access [{a},+{n}) outside the address space): "
  let accBad := if o.addr == a && o.w == n then none
    else some s!"the error names the access [{o.addr},+{o.w})"
  let ipBad := match o.regs.lookup ipKey with
    | some (some (_, v)) => if v == pre.pc then none else some s!"instruction pointer {v} after the failed step, before it {pre.pc}"
    | _ => some "no instruction pointer in the state"
  let regBad := o.regs.findSome? fun (k, h) =>
    match h, regOf pre k with
    | _, none => some s!"the state holds the unknown register {k}"
    | none, _ => some s!"register {k} does not hold a constant"
    | some (cw, v), some r =>
      if cw ≥ 8 then (if v == r then none else some s!"register {k} = {v} after the failed step, reference {r}")
      else if v == r % 2 ^ (8 * cw) then none
      else some s!"register {k} = {v} ({cw} bytes) after the failed step, reference {r}"
  let memBad := o.wbytes.findSome? fun (x, v) =>
    match v with
    | none => some s!"memory byte {x} is not a constant"
    | some b => if b == pre.mem x % 256 then none else some s!"memory[{x}] = {b} after the failed step, reference {pre.mem x % 256}"
  let missBad := refWritten.findSome? fun x =>
    if o.wbytes.any (·.1 == x) then none else some s!"memory[{x}] was written by the reference but is not in the state"
  (accBad <|> ipBad <|> regBad <|> memBad <|> missBad).map (at_ ++ ·)

/-! ### C04: the provider log -/

/-- what the emulator knows / was supplied, tracked along the run -/
structure Know where
  /-- registers the emulator knows (pre-set, instruction pointer, written by the program, supplied) -/
  regs : List String
  /-- bytes known besides the image: written by the program or supplied (address space, address) -/
  bytes : List (String × Nat)
  /-- supplied and not yet overwritten: register ↦ (width, value) -/
  supRegs : List (String × Nat × Nat)
  /-- supplied and not yet overwritten: byte ↦ value -/
  supBytes : List ((String × Nat) × Nat)

def Setup.know0 (u : Setup) : Know :=
  { regs := ipKey :: u.pre.map (·.1), bytes := [], supRegs := [], supBytes := [] }

/-- judge the requests of one step, in order; returns the updated knowledge -/
def judgeReqs (u : Setup) (i : Nat) : List Req → Know → Except String Know
  | [], k => .ok k
  | .reg key w :: rest, k =>
    if k.regs.contains key then .error s!"step {i}: register {key} requested although the emulator knows it"
    else if w == 0 then .error s!"step {i}: register {key} requested with width 0"
    else judgeReqs u i rest { k with regs := key :: k.regs,
                                     supRegs := (key, w, provReg u.seed key % 2 ^ (8 * w)) :: k.supRegs }
  | .mem key a w :: rest, k =>
    if w == 0 then .error s!"step {i}: memory requested with width 0" else
    match (List.range w).find? fun j =>
        (key == memKey && inBlocks u.image (a + j)) || k.bytes.contains (key, a + j) with
    | some j => .error s!"step {i}: byte {a + j} of {key} requested although the emulator knows it"
    | none =>
      let news := (List.range w).map fun j => (key, a + j)
      judgeReqs u i rest { k with bytes := news ++ k.bytes,
                                  supBytes := news.map (fun p => (p, provByte u.seed key p.2)) ++ k.supBytes }

/-- C04 on one step: the requests, then the reads against the supplied values, then the program's
writes (by the reference's `dst`/store range) end the obligation for what they overwrite -/
def judgeStep04 (u : Setup) (i : Nat) (dst : List String) (store : Option (Nat × Nat)) (o : Obs) (k : Know) :
    Except String Know := do
  let k ← judgeReqs u i o.reqs k
  -- reads return the supplied values
  for (key, c) in o.regLoads do
    match k.supRegs.find? (·.1 == key) with
    | some (_, w, v) =>
      let n := min w c.length
      if leToNat (c.take n) != v % 2 ^ (8 * n) then
        throw s!"step {i}: register {key} was supplied as {v} but read as {leToNat c}"
      if c.length > w && leToNat c != v then
        throw s!"step {i}: register {key} was supplied {w} bytes wide ({v}) but read {c.length} bytes wide as {leToNat c}"
    | none => pure ()
  for m in o.memLoads do
    for (b, j) in m.bytes.zipIdx do
      match k.supBytes.lookup (m.key, m.addr + j) with
      | some v =>
        if b.toNat != v then
          throw s!"step {i}: byte {m.addr + j} was supplied as {v} but read as {b.toNat}"
      | none => pure ()
  -- the program's writes
  let wb : List (String × Nat) := match store with
    | some (a, n) => (List.range n).map fun j => (memKey, a + j)
    | none => []
  pure { regs := dst ++ k.regs, bytes := wb ++ k.bytes,
         supRegs := k.supRegs.filter (fun p => !dst.contains p.1),
         supBytes := k.supBytes.filter (fun p => !wb.contains p.1) }

end Mltwist.Spec.Emu
