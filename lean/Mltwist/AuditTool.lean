import Lean
/-
`#audit_module M` prints, for every theorem declared in module `M`, the axioms it depends on:
  THEOREM <name> AXIOMS [a, b, …]
Used by `bin/check` on every run (the "audit" proof obligation).
-/
open Lean Elab Command

elab "#audit_module " id:ident : command => do
  let env ← getEnv
  let modName := id.getId
  let some modIdx := env.getModuleIdx? modName
    | throwError "unknown module {modName}"
  let mut names : Array Name := #[]
  for (n, ci) in env.constants.map₁.toList do
    if env.getModuleIdxFor? n == some modIdx then
      match ci with
      | .thmInfo _ =>
        if !n.isInternal then names := names.push n
      | _ => pure ()
  let sorted := names.qsort (fun a b => a.toString < b.toString)
  for n in sorted do
    let axs ← Lean.collectAxioms n
    let axs := axs.qsort (fun a b => a.toString < b.toString)
    logInfo m!"THEOREM {n} AXIOMS {axs.toList}"
