import Mltwist.Lemmas.RiscvLiftBasic
/-
C01 library, part 6: register `x0` is never written (`x0_never_written`), independent of the
semantic part.  `NoX0 o`: the optional effect `o` is not a register write to `x0`; simp lemmas for
every effect constructor of the model; one theorem per generated table.
-/
namespace Mltwist.Lemmas.RiscvLift
open Mltwist Mltwist.Riscv Mltwist.Spec.Rv Mltwist.Spec.Lift
set_option linter.unusedSimpArgs false


/-- an optional effect does not write `x0` -/
def NoX0 (o : Option Effect) : Prop := ∀ v k w, o = some (Effect.regStore v k w) → k ≠ xName 0

theorem ipKey_ne_x0 : Riscv.ipKey ≠ xName 0 := fun h => xName_ne_ipKey 0 h.symm
theorem csrKey_ne_x0 (i : Ins) : csrKey i ≠ xName 0 := by
  intro h
  have := congrArg String.toList h
  simp [csrKey, xName, String.toList_append] at this

@[simp] theorem noX0_none : NoX0 none := fun _ _ _ h => nomatch h
@[simp] theorem noX0_regStore (e : Expr) (i : Ins) (W : Nat) : NoX0 (Riscv.regStore e i W) := by
  intro v k w h
  unfold Riscv.regStore at h
  by_cases h0 : regNum .rd i.value = 0
  · simp [h0] at h
  · simp only [h0, if_false, Option.some.injEq, Effect.regStore.injEq] at h
    rw [← h.2.1, regName_eq]
    exact fun hh => h0 (xName_inj hh)
@[simp] theorem noX0_memStore (v a : Expr) (n : Nat) : NoX0 (some (Riscv.memStore v a n)) :=
  fun _ _ _ h => by simp [Riscv.memStore] at h
@[simp] theorem noX0_ip (v : Expr) (W : Nat) : NoX0 (some (Effect.regStore v Riscv.ipKey W)) := by
  intro v' k w h
  simp only [Option.some.injEq, Effect.regStore.injEq] at h
  rw [← h.2.1]; exact ipKey_ne_x0
@[simp] theorem noX0_csr (v : Expr) (i : Ins) (W : Nat) :
    NoX0 (some (Effect.regStore v (csrKey i) W)) := by
  intro v' k w h
  simp only [Option.some.injEq, Effect.regStore.injEq] at h
  rw [← h.2.1]; exact csrKey_ne_x0 i
@[simp] theorem noX0_branchCmp (f : CondF) (b : Bool) (i : Ins) (W : Nat) :
    NoX0 (some (branchCmp f b i W)) := by
  unfold branchCmp; exact noX0_ip _ _

/-- no effect of the entry writes `x0` -/
def EntryNoX0 (e : Entry) : Prop := ∀ i, ∀ o ∈ e.effects i, NoX0 o

theorem noX0_integer32 : ∀ e ∈ Gen.integer32, EntryNoX0 e := by
  unfold Gen.integer32
  simp only [List.forall_mem_cons, List.not_mem_nil, false_imp_iff, implies_true, and_true]
  simp [EntryNoX0, atomicOp, atomicOpWidth]

theorem noX0_mul32 : ∀ e ∈ Gen.mul32, EntryNoX0 e := by
  unfold Gen.mul32
  simp only [List.forall_mem_cons, List.not_mem_nil, false_imp_iff, implies_true, and_true]
  simp [EntryNoX0, atomicOp, atomicOpWidth]

theorem noX0_atomic32 : ∀ e ∈ Gen.atomic32, EntryNoX0 e := by
  unfold Gen.atomic32
  simp only [List.forall_mem_cons, List.not_mem_nil, false_imp_iff, implies_true, and_true]
  simp [EntryNoX0, atomicOp, atomicOpWidth]

theorem noX0_integer64 : ∀ e ∈ Gen.integer64, EntryNoX0 e := by
  unfold Gen.integer64
  simp only [List.forall_mem_cons, List.not_mem_nil, false_imp_iff, implies_true, and_true]
  simp [EntryNoX0, atomicOp, atomicOpWidth]

theorem noX0_mul64 : ∀ e ∈ Gen.mul64, EntryNoX0 e := by
  unfold Gen.mul64
  simp only [List.forall_mem_cons, List.not_mem_nil, false_imp_iff, implies_true, and_true]
  simp [EntryNoX0, atomicOp, atomicOpWidth]

theorem noX0_atomic64 : ∀ e ∈ Gen.atomic64, EntryNoX0 e := by
  unfold Gen.atomic64
  simp only [List.forall_mem_cons, List.not_mem_nil, false_imp_iff, implies_true, and_true]
  simp [EntryNoX0, atomicOp, atomicOpWidth]

/-- membership in an instruction set, by table -/
theorem mem_instructionSet {xlen : Nat} {m a : Bool} {e : Entry}
    (hx : xlen = 32 ∨ xlen = 64) (he : e ∈ instructionSet xlen m a) :
    (xlen = 32 ∧ (e ∈ Gen.integer32 ∨ e ∈ Gen.mul32 ∨ e ∈ Gen.atomic32)) ∨
    (xlen = 64 ∧ (e ∈ Gen.integer64 ∨ e ∈ Gen.mul64 ∨ e ∈ Gen.atomic64)) := by
  rcases hx with rfl | rfl
  · left
    refine ⟨rfl, ?_⟩
    simp only [instructionSet, if_true, List.mem_append] at he
    rcases he with (h | h) | h
    · exact Or.inl h
    · cases m with
      | false => simp at h
      | true => exact Or.inr (Or.inl (by simpa using h))
    · cases a with
      | false => simp at h
      | true => exact Or.inr (Or.inr (by simpa using h))
  · right
    refine ⟨rfl, ?_⟩
    have h6432 : ¬ (64 = 32) := by decide
    simp only [instructionSet, h6432, if_false, List.mem_append] at he
    rcases he with (h | h) | h
    · exact Or.inl h
    · cases m with
      | false => simp at h
      | true => exact Or.inr (Or.inl (by simpa using h))
    · cases a with
      | false => simp at h
      | true => exact Or.inr (Or.inr (by simpa using h))

theorem entryNoX0_of_mem {xlen : Nat} {m a : Bool} {e : Entry}
    (hx : xlen = 32 ∨ xlen = 64) (he : e ∈ instructionSet xlen m a) : EntryNoX0 e := by
  rcases mem_instructionSet hx he with ⟨_, h | h | h⟩ | ⟨_, h | h | h⟩
  · exact noX0_integer32 e h
  · exact noX0_mul32 e h
  · exact noX0_atomic32 e h
  · exact noX0_integer64 e h
  · exact noX0_mul64 e h
  · exact noX0_atomic64 e h

theorem EntryNoX0.validEffects {e : Entry} (h : EntryNoX0 e) (i : Ins) (v : Expr) (k : String)
    (w : Nat) (hm : Effect.regStore v k w ∈ e.validEffects i) : k ≠ xName 0 := by
  unfold Entry.validEffects at hm
  rw [List.mem_filterMap] at hm
  obtain ⟨o, ho, hid⟩ := hm
  exact h i o ho v k w hid

end Mltwist.Lemmas.RiscvLift
