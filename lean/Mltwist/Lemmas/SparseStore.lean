import Mltwist.Lemmas.SparseTree
/-
C14, part 4: `Store` preserves the invariant and commutes with the abstraction.
-/
namespace Mltwist.Lemmas.Sparse
open Mltwist Mltwist.Sparse Mltwist.Spec.Sparse

theorem sub64_eq {x y : Nat} (h : y ≤ x) (hx : x < 2 ^ 64) : sub64 x y = x - y := by
  unfold sub64; omega

theorem endAddr_eq {a w : Nat} (h : a + w < 2 ^ 64) : endAddr a w = a + w := by
  unfold endAddr; omega

/-- what `Store` leaves of an interval `o` that begins before the stored range -/
def leftPiece (a : Nat) (o : KV) : KV :=
  ⟨o.low, a, { ex := o.val.ex, begin := o.val.begin, end_ := o.val.begin + (a - o.low) }⟩

/-- what `Store` leaves of an interval `o` that ends after the stored range -/
def rightPiece (e : Nat) (o : KV) : KV :=
  ⟨e, o.high, { ex := o.val.ex, begin := o.val.end_ - (o.high - e), end_ := o.val.end_ }⟩

theorem leftPiece_good {a : Nat} {o : KV} (ho : o.Good) (h1 : o.low < a) (h2 : a < o.high) :
    (leftPiece a o).Good := by
  unfold KV.Good leftPiece at *
  simp only
  omega

theorem rightPiece_good {e : Nat} {o : KV} (ho : o.Good) (h1 : o.low < e) (h2 : e < o.high) :
    (rightPiece e o).Good := by
  unfold KV.Good rightPiece at *
  simp only
  omega

theorem step_left (a : Nat) (ha : a < 2 ^ 64) (o : KV) (ho : o.Good) (h2 : a < o.high) (t : Tree) :
    storeLeft a o t = .ok (if o.low < a then Sparse.insert false (leftPiece a o) t else t) := by
  unfold KV.Good at ho
  unfold storeLeft
  split
  · rename_i h1
    rw [sub64_eq (by omega) ha, cutEnd_ok _ (by omega) (by omega) _ (by omega)]
    simp only [bind, Except.bind, add]
    rw [if_neg (by omega)]
    rfl
  · rfl

theorem step_right (e : Nat) (o : KV) (ho : o.Good) (h1 : o.low < e) (t : Tree) :
    storeRight e o t = .ok (if e < o.high then Sparse.insert true (rightPiece e o) t else t) := by
  unfold KV.Good at ho
  unfold storeRight
  split
  · rename_i h2
    rw [sub64_eq (by omega) (by omega), cutBegin_ok _ (by omega) (by omega) _ (by omega)]
    simp only [bind, Except.bind, put]
    rw [if_neg (by omega)]
    rfl
  · rfl

/-- the state of the second loop of `Store` -/
structure LoopInv (a e : Nat) (os : List KV) (t : Tree) : Prop where
  ord : Ordered t
  good : ∀ y ∈ t, y.Good
  out : ∀ y ∈ t, y.high ≤ a ∨ e ≤ y.low
  disj : ∀ y ∈ t, ∀ o ∈ os, y.high ≤ o.low ∨ o.high ≤ y.low

/-- inserting a piece `p` that lies before the rest of the work list keeps the loop state -/
theorem LoopInv.insert {a e : Nat} {os : List KV} {t : Tree} (h : LoopInv a e os t)
    (ow : Bool) (p : KV) (hp : p.Good) (hos : ∀ o' ∈ os, p.high ≤ o'.low)
    (hout : p.high ≤ a ∨ e ≤ p.low) (hnew : ∀ y ∈ t, p.high ≤ y.low ∨ y.high ≤ p.low) :
    LoopInv a e os (Sparse.insert ow p t) ∧ ∀ y, y ∈ Sparse.insert ow p t ↔ y = p ∨ y ∈ t := by
  have hm := mem_insert ow p t h.ord (fun y hy => (h.good y hy).1) hp.1 hnew
  refine ⟨⟨hm.1, ?_, ?_, ?_⟩, hm.2⟩
  · intro y hy
    rcases (hm.2 y).1 hy with rfl | hy
    · exact hp
    · exact h.good y hy
  · intro y hy
    rcases (hm.2 y).1 hy with rfl | hy
    · exact hout
    · exact h.out y hy
  · intro y hy o' ho'
    rcases (hm.2 y).1 hy with rfl | hy
    · exact .inl (hos o' ho')
    · exact h.disj y hy o' ho'

theorem LoopInv.tail {a e : Nat} {o : KV} {os : List KV} {t : Tree} (h : LoopInv a e (o :: os) t) :
    LoopInv a e os t :=
  ⟨h.ord, h.good, h.out, fun y hy o' ho' => h.disj y hy o' (List.mem_cons_of_mem _ ho')⟩

/-- the pieces `Store` keeps of the overlapped intervals `os` -/
def IsPiece (a e : Nat) (os : List KV) (y : KV) : Prop :=
  ∃ o ∈ os, (o.low < a ∧ y = leftPiece a o) ∨ (e < o.high ∧ y = rightPiece e o)

theorem storeLoop_ok (a e : Nat) (hae : a < e) (he : e < 2 ^ 64) :
    ∀ (os : List KV) (t : Tree), Ordered os → (∀ o ∈ os, o.Good) →
      (∀ o ∈ os, o.low < e ∧ a < o.high) → LoopInv a e os t →
      ∃ t', storeLoop a e os t = .ok t' ∧ LoopInv a e [] t' ∧
        ∀ y, y ∈ t' ↔ y ∈ t ∨ IsPiece a e os y
  | [], t, _, _, _, hinv => ⟨t, rfl, hinv, fun y => by simp [IsPiece]⟩
  | o :: os, t, hord, hgood, hov, hinv => by
    rw [Ordered, List.pairwise_cons] at hord
    have hgo := hgood o List.mem_cons_self
    have hovo := hov o List.mem_cons_self
    have hgood' : ∀ o ∈ os, o.Good := fun o' h => hgood o' (List.mem_cons_of_mem _ h)
    have hov' : ∀ o ∈ os, o.low < e ∧ a < o.high := fun o' h => hov o' (List.mem_cons_of_mem _ h)
    unfold storeLoop
    by_cases hfull : a ≤ o.low ∧ o.high ≤ e
    · rw [if_pos hfull]
      obtain ⟨t', h1, h2, h3⟩ := storeLoop_ok a e hae he os t hord.2 hgood' hov' hinv.tail
      refine ⟨t', h1, h2, fun y => ?_⟩
      rw [h3 y]
      unfold IsPiece
      constructor
      · rintro (h | ⟨o', ho', h⟩)
        · exact .inl h
        · exact .inr ⟨o', List.mem_cons_of_mem _ ho', h⟩
      · rintro (h | ⟨o', ho', h⟩)
        · exact .inl h
        · rcases List.mem_cons.1 ho' with rfl | ho'
          · omega
          · exact .inr ⟨o', ho', h⟩
    · rw [if_neg hfull, step_left a (by omega) o hgo hovo.2 t]
      simp only [bind, Except.bind]
      rw [step_right e o hgo hovo.1]
      simp only
      have hd_t : ∀ y ∈ t, y.high ≤ o.low ∨ o.high ≤ y.low :=
        fun y hy => hinv.disj y hy o List.mem_cons_self
      have hgo' := hgo
      unfold KV.Good at hgo'
      -- first piece
      have h1 : (LoopInv a e os (if o.low < a then Sparse.insert false (leftPiece a o) t else t) ∧
          ∀ y, y ∈ (if o.low < a then Sparse.insert false (leftPiece a o) t else t) ↔
            (o.low < a ∧ y = leftPiece a o) ∨ y ∈ t) := by
        split
        · rename_i hl
          have := hinv.tail.insert false (leftPiece a o) (leftPiece_good hgo hl hovo.2)
            (fun o' ho' => by have := hord.1 o' ho'; simp only [leftPiece]; omega)
            (by simp only [leftPiece]; omega)
            (fun y hy => by have := hd_t y hy; simp only [leftPiece]; omega)
          refine ⟨this.1, fun y => ?_⟩
          rw [this.2 y]
          simp [hl]
        · rename_i hl
          exact ⟨hinv.tail, fun y => by simp [hl]⟩
      generalize (if o.low < a then Sparse.insert false (leftPiece a o) t else t) = t1 at h1
      have h2 : (LoopInv a e os (if e < o.high then Sparse.insert true (rightPiece e o) t1 else t1) ∧
          ∀ y, y ∈ (if e < o.high then Sparse.insert true (rightPiece e o) t1 else t1) ↔
            (e < o.high ∧ y = rightPiece e o) ∨ y ∈ t1) := by
        split
        · rename_i hr
          have := h1.1.insert true (rightPiece e o) (rightPiece_good hgo hovo.1 hr)
            (fun o' ho' => by have := hord.1 o' ho'; simp only [rightPiece]; omega)
            (by simp only [rightPiece]; omega)
            (fun y hy => by
              rcases (h1.2 y).1 hy with ⟨_, rfl⟩ | hy
              · simp only [rightPiece, leftPiece]; omega
              · have := hd_t y hy; simp only [rightPiece]; omega)
          refine ⟨this.1, fun y => ?_⟩
          rw [this.2 y]
          simp [hr]
        · rename_i hr
          exact ⟨h1.1, fun y => by simp [hr]⟩
      generalize (if e < o.high then Sparse.insert true (rightPiece e o) t1 else t1) = t2 at h2
      obtain ⟨t', h3, h4, h5⟩ := storeLoop_ok a e hae he os t2 hord.2 hgood' hov' h2.1
      refine ⟨t', h3, h4, fun y => ?_⟩
      rw [h5 y, h2.2 y, h1.2 y]
      unfold IsPiece
      constructor
      · rintro ((h | h | h) | ⟨o', ho', h⟩)
        · exact .inr ⟨o, List.mem_cons_self, .inr h⟩
        · exact .inr ⟨o, List.mem_cons_self, .inl h⟩
        · exact .inl h
        · exact .inr ⟨o', List.mem_cons_of_mem _ ho', h⟩
      · rintro (h | ⟨o', ho', h⟩)
        · exact .inl (.inr (.inr h))
        · rcases List.mem_cons.1 ho' with rfl | ho'
          · rcases h with h | h
            · exact .inl (.inr (.inl h))
            · exact .inl (.inl h)
          · exact .inr ⟨o', ho', h⟩

/-- the interval created by `Store` -/
def newKV (a : Nat) (ex : Expr) (w : Nat) : KV := ⟨a, a + w, { ex := ex, begin := 0, end_ := w }⟩

/-- `Store` succeeds; the new tree consists of the new interval, the untouched intervals and the
pieces of the overlapped ones -/
theorem store_shape (t : Tree) (hinv : Inv t) (a : Nat) (ex : Expr) (w : Nat) (hd : InDom a w) :
    ∃ t', store t a ex w = .ok t' ∧ Inv t' ∧
      ∀ y, y ∈ t' ↔ y = newKV a ex w ∨ (y ∈ t ∧ (y.high ≤ a ∨ a + w ≤ y.low)) ∨
        IsPiece a (a + w) (ovl t a (a + w)) y := by
  obtain ⟨hw1, hw2, hlt⟩ := hd
  obtain ⟨hord, hgood⟩ := hinv
  have hmem0 : ∀ y, y ∈ (ovl t a (a + w)).foldl (fun t o => remove t o.low) t ↔
      y ∈ t ∧ (y.high ≤ a ∨ a + w ≤ y.low) := by
    intro y
    rw [mem_foldl_remove]
    constructor
    · rintro ⟨hy, h⟩
      refine ⟨hy, ?_⟩
      by_cases hc : y.low < a + w ∧ a < y.high
      · exact absurd rfl (h y (mem_ovl.2 ⟨hy, hc⟩))
      · omega
    · rintro ⟨hy, h⟩
      refine ⟨hy, fun o ho hlow => ?_⟩
      have ho' := mem_ovl.1 ho
      have hgy := (hgood y hy).1
      have hgo := (hgood o ho'.1).1
      rcases ordered_mem hord hy ho'.1 with rfl | h' | h' <;> omega
  have hinv0 : LoopInv a (a + w) (ovl t a (a + w))
      ((ovl t a (a + w)).foldl (fun t o => remove t o.low) t) := by
    refine ⟨foldl_remove_ordered _ _ hord, fun y hy => hgood y ((hmem0 y).1 hy).1,
      fun y hy => ((hmem0 y).1 hy).2, fun y hy o ho => ?_⟩
    have hy' := (hmem0 y).1 hy
    have ho' := mem_ovl.1 ho
    rcases ordered_mem hord hy'.1 ho'.1 with rfl | h' | h'
    · omega
    · exact .inl h'
    · exact .inr h'
  obtain ⟨t1, h1, h2, h3⟩ := storeLoop_ok a (a + w) (by omega) hlt (ovl t a (a + w)) _
    (ovl_ordered hord _ _) (fun o ho => hgood o (mem_ovl.1 ho).1) (fun o ho => (mem_ovl.1 ho).2) hinv0
  have hnew : (newKV a ex w).Good := by
    unfold KV.Good newKV; simp only; omega
  have hm := mem_insert false (newKV a ex w) t1 h2.ord (fun y hy => (h2.good y hy).1) hnew.1
    (fun y hy => by have := h2.out y hy; simp only [newKV]; omega)
  refine ⟨Sparse.insert false (newKV a ex w) t1, ?_, ⟨hm.1, ?_⟩, ?_⟩
  · unfold store
    rw [endAddr_eq hlt]
    dsimp only
    rw [overlaps_eq t (by omega)]
    simp only [bind, Except.bind]
    rw [h1]
    simp only [add]
    rw [if_neg (by omega)]
    rfl
  · intro y hy
    rcases (hm.2 y).1 hy with rfl | hy
    · exact hnew
    · exact h2.good y hy
  · intro y
    rw [hm.2 y, h3 y, hmem0 y]

theorem cellEq_mk {c d : Cell} (h1 : c.1 = d.1) (h2 : c.2.1 = d.2.1) (h3 : c.2.1 < c.2.2)
    (h4 : d.2.1 < d.2.2) : CellEq (some c) (some d) := ⟨h1, h2, h3, h4⟩

theorem cellEq_refl_of_lt {c : Cell} (h : c.2.1 < c.2.2) : CellEq (some c) (some c) :=
  ⟨rfl, rfl, h, h⟩

theorem cell_lt {kv : KV} (hg : kv.Good) {x : Nat} (hx : Contains kv x) :
    (kv.cell x).2.1 < (kv.cell x).2.2 := by
  unfold KV.Good at hg; unfold Contains at hx; unfold KV.cell
  simp only
  omega

/-- `Store` commutes with the abstraction -/
theorem store_ok (t : Tree) (hinv : Inv t) (a : Nat) (ex : Expr) (w : Nat) (hd : InDom a w) :
    ∃ t', store t a ex w = .ok t' ∧ Inv t' ∧ SpecEq (abs t') ((abs t).store a ex w) := by
  obtain ⟨t', h1, h2, h3⟩ := store_shape t hinv a ex w hd
  refine ⟨t', h1, h2, fun x => ?_⟩
  obtain ⟨hw1, hw2, hlt⟩ := hd
  unfold SpecMem.store
  by_cases hx : a ≤ x ∧ x < a + w
  · rw [if_pos hx]
    have : abs t' x = some ((newKV a ex w).cell x) :=
      abs_eq_some_of_mem h2.1 ((h3 _).2 (.inl rfl)) (by unfold Contains newKV; simp only; omega)
    rw [this]
    apply cellEq_mk <;> simp only [KV.cell, newKV] <;> omega
  · rw [if_neg hx]
    rcases abs_cases t x with ⟨hn, hall⟩ | ⟨kv, hkv, hc, hs⟩
    · rw [hn]
      have : abs t' x = none := by
        rw [abs_eq_none_iff]
        intro y hy hcy
        rcases (h3 y).1 hy with rfl | ⟨hy', _⟩ | ⟨o, ho, hp⟩
        · unfold Contains newKV at hcy; simp only at hcy; omega
        · exact hall y hy' hcy
        · have ho' := mem_ovl.1 ho
          apply hall o ho'.1
          unfold Contains at *
          rcases hp with ⟨hl, rfl⟩ | ⟨hr, rfl⟩
          · simp only [leftPiece] at hcy; omega
          · simp only [rightPiece] at hcy; omega
      rw [this]
      trivial
    · rw [hs]
      have hg := hinv.2 kv hkv
      by_cases hov : kv.low < a + w ∧ a < kv.high
      · have hko : kv ∈ ovl t a (a + w) := mem_ovl.2 ⟨hkv, hov⟩
        unfold Contains at hc
        unfold KV.Good at hg
        by_cases hxa : x < a
        · have hm : leftPiece a kv ∈ t' := (h3 _).2 (.inr (.inr ⟨kv, hko, .inl ⟨by omega, rfl⟩⟩))
          have : abs t' x = some ((leftPiece a kv).cell x) :=
            abs_eq_some_of_mem h2.1 hm (by unfold Contains leftPiece; simp only; omega)
          rw [this]
          apply cellEq_mk <;> simp only [KV.cell, leftPiece] <;> omega
        · have hm : rightPiece (a + w) kv ∈ t' :=
            (h3 _).2 (.inr (.inr ⟨kv, hko, .inr ⟨by omega, rfl⟩⟩))
          have : abs t' x = some ((rightPiece (a + w) kv).cell x) :=
            abs_eq_some_of_mem h2.1 hm (by unfold Contains rightPiece; simp only; omega)
          rw [this]
          apply cellEq_mk <;> simp only [KV.cell, rightPiece] <;> omega
      · have hm : kv ∈ t' := (h3 _).2 (.inr (.inl ⟨hkv, by omega⟩))
        rw [abs_eq_some_of_mem h2.1 hm hc]
        exact cellEq_refl_of_lt (cell_lt hg hc)

end Mltwist.Lemmas.Sparse
