import Mltwist.Model.Expreval
/-
General lemmas about little-endian byte strings: `leToNat`, `natToLE`, `trunc`,
`Expreval.setWidth`.  Shared by the proofs of several properties.
-/
namespace Mltwist.Lemmas.Bytes
open Mltwist

/-! ### powers -/

theorem two_pow_eight_mul (n : Nat) : 2 ^ (8 * n) = 256 ^ n := by
  rw [Nat.pow_mul]

theorem pow256_pos (n : Nat) : 0 < 256 ^ n := Nat.pow_pos (by decide)

theorem pow256_succ (n : Nat) : 256 ^ (n + 1) = 256 * 256 ^ n := by
  rw [Nat.pow_succ, Nat.mul_comm]

theorem pow256_add (a b : Nat) : 256 ^ (a + b) = 256 ^ a * 256 ^ b := Nat.pow_add 256 a b

theorem trunc_eq (w x : Nat) : trunc w x = x % 256 ^ w := by
  rw [trunc, two_pow_eight_mul]

theorem trunc_lt (w x : Nat) : trunc w x < 256 ^ w := by
  rw [trunc_eq]; exact Nat.mod_lt _ (pow256_pos w)

theorem trunc_lt' (w x : Nat) : trunc w x < 2 ^ (8 * w) := by
  rw [two_pow_eight_mul]; exact trunc_lt w x

theorem trunc_of_lt {w x : Nat} (h : x < 256 ^ w) : trunc w x = x := by
  rw [trunc_eq]; exact Nat.mod_eq_of_lt h

/-! ### `leToNat` -/

@[simp] theorem leToNat_nil : leToNat [] = 0 := rfl

@[simp] theorem leToNat_cons (b : UInt8) (bs : List UInt8) :
    leToNat (b :: bs) = b.toNat + 256 * leToNat bs := rfl

theorem toNat_lt_256 (b : UInt8) : b.toNat < 256 := b.toNat_lt

/-- a byte string of length `n` is below `256^n` -/
theorem leToNat_lt_pow256 (bs : List UInt8) : leToNat bs < 256 ^ bs.length := by
  induction bs with
  | nil => simp
  | cons b bs ih =>
    have := toNat_lt_256 b
    rw [leToNat_cons, List.length_cons, pow256_succ]
    omega

theorem leToNat_lt (bs : List UInt8) : leToNat bs < 2 ^ (8 * bs.length) := by
  rw [two_pow_eight_mul]; exact leToNat_lt_pow256 bs

theorem leToNat_append (a b : List UInt8) :
    leToNat (a ++ b) = leToNat a + 256 ^ a.length * leToNat b := by
  induction a with
  | nil => simp
  | cons x a ih =>
    rw [List.cons_append, leToNat_cons, ih, leToNat_cons, List.length_cons, pow256_succ,
      Nat.mul_add, Nat.mul_assoc, Nat.add_assoc]

@[simp] theorem leToNat_replicate_zero (n : Nat) : leToNat (List.replicate n 0) = 0 := by
  induction n with
  | zero => rfl
  | succ n ih => rw [List.replicate_succ, leToNat_cons, ih]; rfl

theorem leToNat_replicate_255 (n : Nat) : leToNat (List.replicate n 255) = 256 ^ n - 1 := by
  induction n with
  | zero => rfl
  | succ n ih =>
    have := pow256_pos n
    rw [List.replicate_succ, leToNat_cons, ih, pow256_succ]
    show 255 + _ = _
    omega

/-- the low `n` bytes are the value modulo `256^n` -/
theorem leToNat_take (n : Nat) (l : List UInt8) :
    leToNat (l.take n) = leToNat l % 256 ^ n := by
  induction n generalizing l with
  | zero => simp [Nat.mod_one]
  | succ n ih =>
    cases l with
    | nil => simp
    | cons b l =>
      have := toNat_lt_256 b
      have h1 : (b.toNat + 256 * leToNat l) / 256 = leToNat l := by omega
      have h2 : (b.toNat + 256 * leToNat l) % 256 = b.toNat := by omega
      rw [List.take_succ_cons, leToNat_cons, ih, leToNat_cons, pow256_succ, Nat.mod_mul, h1, h2]

/-- dropping `n` bytes divides by `256^n` -/
theorem leToNat_drop (n : Nat) (l : List UInt8) :
    leToNat (l.drop n) = leToNat l / 256 ^ n := by
  induction n generalizing l with
  | zero => simp
  | succ n ih =>
    cases l with
    | nil => simp
    | cons b l =>
      have := toNat_lt_256 b
      rw [List.drop_succ_cons, ih, leToNat_cons, pow256_succ, ← Nat.div_div_eq_div_mul]
      congr 1
      omega

/-! ### `natToLE` -/

@[simp] theorem natToLE_length (w x : Nat) : (natToLE w x).length = w := by
  induction w generalizing x with
  | zero => rfl
  | succ w ih => simp [natToLE, ih]

theorem leToNat_natToLE_pow256 (w x : Nat) : leToNat (natToLE w x) = x % 256 ^ w := by
  induction w generalizing x with
  | zero => simp [natToLE, Nat.mod_one]
  | succ w ih =>
    rw [natToLE, leToNat_cons, ih, UInt8.toNat_ofNat', pow256_succ, Nat.mod_mul]
    omega

theorem leToNat_natToLE (w x : Nat) : leToNat (natToLE w x) = x % 2 ^ (8 * w) := by
  rw [two_pow_eight_mul]; exact leToNat_natToLE_pow256 w x

theorem leToNat_natToLE_trunc (w x : Nat) : leToNat (natToLE w x) = trunc w x :=
  leToNat_natToLE w x

/-! ### `setWidth` and `bigInt` -/

@[simp] theorem setWidth_length (v : List UInt8) (w : Nat) :
    (Expreval.setWidth v w).length = w := by
  unfold Expreval.setWidth
  split
  · rw [List.length_take]; omega
  · rw [List.length_append, List.length_replicate]; omega

/-- `setWidth` truncates or zero-extends: its value is the value cut to `w` bytes -/
theorem leToNat_setWidth (v : List UInt8) (w : Nat) :
    leToNat (Expreval.setWidth v w) = trunc w (leToNat v) := by
  unfold Expreval.setWidth
  split
  · rw [leToNat_take, trunc_eq]
  · rename_i h
    rw [leToNat_append, leToNat_replicate_zero, Nat.mul_zero, Nat.add_zero, trunc_of_lt]
    exact Nat.lt_of_lt_of_le (leToNat_lt_pow256 v)
      (Nat.pow_le_pow_right (by decide) (by omega))

theorem bigInt_eq (v : List UInt8) (w : Nat) :
    Expreval.bigInt v w = trunc w (leToNat v) := by
  unfold Expreval.bigInt
  split
  · exact leToNat_setWidth v w
  · rename_i h
    rw [trunc_of_lt]
    exact Nat.lt_of_lt_of_le (leToNat_lt_pow256 v)
      (Nat.pow_le_pow_right (by decide) (by omega))

end Mltwist.Lemmas.Bytes
