import Mltwist.Spec.Listing
/-
Structure of the listing built by `newLines`, and its agreement with the specification's
fresh rendering `Spec.rows` / `Spec.lineOf` (used by C23 and C31).
-/
namespace Mltwist.Lemmas.Listing
open Mltwist.Listing Mltwist.Listing.Spec

/-! ### texts -/

theorem digitChar_eq (d : Nat) (h : d < 16) : Nat.digitChar d = hexDigitChar false d := by
  have : d = 0 ∨ d = 1 ∨ d = 2 ∨ d = 3 ∨ d = 4 ∨ d = 5 ∨ d = 6 ∨ d = 7 ∨ d = 8 ∨ d = 9 ∨ d = 10 ∨
      d = 11 ∨ d = 12 ∨ d = 13 ∨ d = 14 ∨ d = 15 := by omega
  rcases this with h | h | h | h | h | h | h | h | h | h | h | h | h | h | h | h <;> subst h <;> decide

theorem toDigitsCore_eq (fuel n : Nat) (acc : List Char) :
    Nat.toDigitsCore 16 fuel n acc = hexDigits false fuel n acc := by
  induction fuel generalizing n acc with
  | zero => simp [Nat.toDigitsCore, hexDigits]
  | succ f ih =>
    simp only [Nat.toDigitsCore, hexDigits]
    rw [digitChar_eq _ (Nat.mod_lt _ (by decide))]
    split
    · rfl
    · exact ih _ _

theorem hexLower_eq (n : Nat) : hexLower n = hexOf false n := by
  simp [hexLower, hexOf, Nat.toDigits, toDigitsCore_eq]

theorem upperHexDigit_eq (d : Nat) : upperHexDigit d = hexDigitChar true d := by
  unfold upperHexDigit hexDigitChar
  have h0 : '0'.toNat = 48 := by decide
  have hA : 'A'.toNat = 65 := by decide
  split
  · rw [h0]
  · simp only [if_true, hA]; congr 1; omega

theorem byteHex_eq (b : UInt8) : byteHex b = byteText b := by
  simp [byteHex, byteText, upperHexDigit_eq]

/-- the bytes after the first one, each preceded by a space -/
def sepText : List UInt8 → String
  | [] => ""
  | b :: bs => " " ++ byteText b ++ sepText bs

theorem byteStrLoop_false (bs : List UInt8) (sb : String) :
    byteStrLoop bs false sb = sb ++ sepText bs := by
  induction bs generalizing sb with
  | nil => simp [byteStrLoop, sepText]
  | cons b bs ih =>
    simp only [byteStrLoop, sepText, ih, byteHex_eq, Bool.false_eq_true, if_false, String.append_assoc]

theorem bytesText_cons (b : UInt8) (bs : List UInt8) : bytesText (b :: bs) = byteText b ++ sepText bs := by
  induction bs generalizing b with
  | nil => simp [bytesText, sepText]
  | cons c cs ih =>
    rw [bytesText, ih, sepText]
    · simp [String.append_assoc]
    · simp

theorem byteStr_eq (bs : List UInt8) : byteStr bs = bytesText bs := by
  cases bs with
  | nil => simp [byteStr, byteStrLoop, bytesText]
  | cons b bs =>
    rw [bytesText_cons, byteStr, byteStrLoop, byteStrLoop_false, byteHex_eq]; simp

theorem blockLineText_eq (b : Block) : blockLineText b = headerText b.idx b.begin := by
  simp [blockLineText, headerText, hexLower_eq]

theorem instrLineText_eq (i : Ins) : instrLineText i.text i.bytes = insText i := by
  have h : ("    " ++ " " : String) = "     " := by decide
  simp [instrLineText, insText, padRight, instrMaxLen, byteStr_eq, h]

/-! ### `buildLines` as two separate functions -/

def linesOf : List Block → Bool → List Line
  | [], _ => []
  | b :: bs, first => (if first then [] else [newEmptyLine]) ++ blockToLines b ++ linesOf bs false

def startsOf : List Block → Nat → Bool → List Nat
  | [], _, _ => []
  | b :: bs, off, first =>
    (off + (if first then 0 else 1)) ::
      startsOf bs (off + (if first then 0 else 1) + (b.ins.length + 1)) false

theorem blockToLines_length (b : Block) : (blockToLines b).length = b.ins.length + 1 := by
  simp [blockToLines]

theorem buildLines_eq (bs : List Block) (off : Nat) (first : Bool) :
    buildLines bs off first = (linesOf bs first, startsOf bs off first) := by
  induction bs generalizing off first with
  | nil => rfl
  | cons b bs ih =>
    simp only [buildLines, ih, linesOf, startsOf, blockToLines_length]
    cases first <;> simp

theorem newLines_lines (c : Code) : (newLines c).lines = linesOf c.blocks true ++ [newEmptyLine] := by
  simp [newLines, buildLines_eq]

theorem newLines_starts (c : Code) : (newLines c).blockStarts = startsOf c.blocks 0 true := by
  simp [newLines, buildLines_eq]

theorem newLines_marks (c : Code) : (newLines c).marks = [] := rfl

/-- number of lines of the blocks: every block takes `n + 2` lines, except that the first one has
no blank line in front of it -/
def sizeSum (bs : List Block) : Nat := (bs.map fun b => b.ins.length + 2).sum

theorem linesOf_length (bs : List Block) (first : Bool) :
    (linesOf bs first).length + (if first && !bs.isEmpty then 1 else 0) = sizeSum bs := by
  induction bs generalizing first with
  | nil => cases first <;> simp [linesOf, sizeSum]
  | cons b bs ih =>
    have := ih false
    simp only [Bool.false_and, Bool.false_eq_true, if_false, Nat.add_zero] at this
    cases first <;> simp [linesOf, sizeSum, blockToLines_length] at * <;> omega

theorem startsOf_length (bs : List Block) (off : Nat) (first : Bool) :
    (startsOf bs off first).length = bs.length := by
  induction bs generalizing off first with
  | nil => rfl
  | cons b bs ih => simp [startsOf, ih]

theorem startsOf_getElem? (bs : List Block) (off : Nat) (first : Bool) (k : Nat) (hk : k < bs.length) :
    (startsOf bs off first)[k]? = some (off + (if first then 0 else 1) + sizeSum (bs.take k)) := by
  induction bs generalizing off first k with
  | nil => simp at hk
  | cons b bs ih =>
    cases k with
    | zero => simp [startsOf, sizeSum]
    | succ k =>
      simp only [startsOf, List.getElem?_cons_succ, List.take_succ_cons]
      rw [ih _ _ _ (by simpa using hk)]
      simp [sizeSum]; omega

/-! ### decomposition around the block at position `k` -/

theorem linesOf_append (xs ys : List Block) (first : Bool) :
    linesOf (xs ++ ys) first = linesOf xs first ++ linesOf ys (first && xs.isEmpty) := by
  induction xs generalizing first with
  | nil => simp [linesOf]
  | cons x xs ih => simp [linesOf, ih]

/-- the lines in front of the block at position `k`, including the blank line before it -/
def prefixLines (bs : List Block) (k : Nat) : List Line :=
  linesOf (bs.take k) true ++ (if k = 0 then [] else [newEmptyLine])

theorem getElem?_lt {α} {l : List α} {k : Nat} {a : α} (h : l[k]? = some a) : k < l.length := by
  rcases Nat.lt_or_ge k l.length with h' | h'
  · exact h'
  · rw [List.getElem?_eq_none h'] at h; cases h

theorem split_at {α} {l : List α} {k : Nat} {a : α} (h : l[k]? = some a) :
    l = l.take k ++ a :: l.drop (k + 1) := by
  have hk := getElem?_lt h
  have ha : l[k] = a := by rw [List.getElem?_eq_getElem hk] at h; exact Option.some.inj h
  rw [← ha, ← List.drop_eq_getElem_cons hk, List.take_append_drop]

theorem linesOf_split (bs : List Block) (k : Nat) (b : Block) (h : bs[k]? = some b) :
    linesOf bs true = prefixLines bs k ++ blockToLines b ++ linesOf (bs.drop (k + 1)) false := by
  have hk := getElem?_lt h
  conv => lhs; rw [split_at h]
  rw [linesOf_append, linesOf, prefixLines]
  cases k with
  | zero => simp [linesOf]
  | succ k =>
    have : (List.take (k + 1) bs).isEmpty = false := by
      cases bs with
      | nil => simp at hk
      | cons x xs => simp
    simp [this]

theorem prefixLines_length (bs : List Block) (k : Nat) (hk : k < bs.length) :
    (startsOf bs 0 true)[k]? = some (prefixLines bs k).length := by
  rw [startsOf_getElem? _ _ _ _ hk, prefixLines]
  have := linesOf_length (bs.take k) true
  cases k with
  | zero => simp [linesOf, sizeSum]
  | succ k =>
    have hne : (List.take (k + 1) bs).isEmpty = false := by
      cases bs with
      | nil => simp at hk
      | cons x xs => simp
    simp [hne] at this
    simp; omega

/-! ### what the lines are -/

theorem mem_blockToLines {b : Block} {ln : Line} (h : ln ∈ blockToLines b) :
    (ln.block = some b.idx ∧ ln.instr = none) ∨
    (∃ x ∈ b.ins, ln.block = some b.idx ∧ ln.instr = some x.idx) := by
  simp only [blockToLines, List.mem_cons, List.mem_map] at h
  rcases h with h | ⟨x, hx, h⟩
  · subst h; left; simp [newBlockLine]
  · subst h; right; exact ⟨x, hx, by simp [newInstrLine]⟩

theorem mem_linesOf {bs : List Block} {first : Bool} {ln : Line} (h : ln ∈ linesOf bs first) :
    ln = newEmptyLine ∨ ∃ b ∈ bs, ln ∈ blockToLines b := by
  induction bs generalizing first with
  | nil => simp [linesOf] at h
  | cons b bs ih =>
    simp only [linesOf, List.mem_append] at h
    rcases h with (h | h) | h
    · left; cases first <;> simp at h; exact h
    · right; exact ⟨b, by simp, h⟩
    · rcases ih h with h | ⟨b', hb', h⟩
      · left; exact h
      · right; exact ⟨b', by simp [hb'], h⟩

/-- every line of a fresh listing is blank, a block header, or an instruction line -/
theorem mem_newLines {c : Code} {ln : Line} (h : ln ∈ (newLines c).lines) :
    (ln.block = none ∧ ln.instr = none) ∨
    ∃ b ∈ c.blocks, (ln.block = some b.idx ∧ ln.instr = none) ∨
      (∃ x ∈ b.ins, ln.block = some b.idx ∧ ln.instr = some x.idx) := by
  rw [newLines_lines, List.mem_append] at h
  rcases h with h | h
  · rcases mem_linesOf h with h | ⟨b, hb, h⟩
    · left; subst h; simp [newEmptyLine]
    · right; exact ⟨b, hb, mem_blockToLines h⟩
  · left; simp at h; subst h; simp [newEmptyLine]

/-! ### agreement with the specification -/

theorem insRows_eq (b : Block) (pos ipos : Nat) (ins : List Ins) (hb : b.idx = pos)
    (h : ∀ (i : Nat) (x : Ins), ins[i]? = some x → x.idx = ipos + i) :
    (ins.map (newInstrLine b)).map rowOf = insRows pos ipos ins := by
  induction ins generalizing ipos with
  | nil => rfl
  | cons x xs ih =>
    have hx : x.idx = ipos := by simpa using h 0 x (by simp)
    simp only [List.map_cons, insRows]
    rw [ih (ipos + 1) (fun i y hy => by have := h (i + 1) y (by simpa using hy); omega)]
    simp [rowOf, newInstrLine, instrLineText_eq, hb, hx]

theorem blockRows_eq (b : Block) (pos : Nat) (hb : b.idx = pos)
    (h : ∀ (i : Nat) (x : Ins), b.ins[i]? = some x → x.idx = i) :
    (blockToLines b).map rowOf = blockRows pos b := by
  simp only [blockToLines, List.map_cons, blockRows]
  rw [insRows_eq b pos 0 b.ins hb (by simpa using h)]
  simp [rowOf, newBlockLine, blockLineText_eq, hb]

theorem blocksRows_eq (bs : List Block) (pos : Nat) (first : Bool) (hf : first = true ↔ pos = 0)
    (hb : ∀ (i : Nat) (b : Block), bs[i]? = some b → b.idx = pos + i)
    (hi : ∀ b ∈ bs, ∀ (i : Nat) (x : Ins), b.ins[i]? = some x → x.idx = i) :
    (linesOf bs first).map rowOf = blocksRows pos bs := by
  induction bs generalizing pos first with
  | nil => rfl
  | cons b bs ih =>
    simp only [linesOf, blocksRows, List.map_append]
    rw [blockRows_eq b pos (by simpa using hb 0 b (by simp)) (hi b (by simp)),
      ih (pos + 1) false (by simp)
        (fun i x hx => by have := hb (i + 1) x (by simpa using hx); omega)
        (fun x hx => hi x (by simp [hx]))]
    congr 2
    cases first with
    | true => simp [hf.mp rfl]
    | false =>
      have : pos ≠ 0 := fun h => by simpa using hf.mpr h
      simp [this, rowOf, newEmptyLine, blank]

/-- a fresh listing shows exactly the rows of the specification -/
theorem shown_newLines (c : Code) (hwf : WF c) : shown (newLines c) = rows c := by
  simp only [shown, newLines_lines, rows, List.map_append]
  rw [blocksRows_eq c.blocks 0 true (by simp) (by simpa using hwf.blockIdx) hwf.insIdx]
  simp [rowOf, newEmptyLine, blank]

theorem sizeSum_eq (c : Code) (k : Nat) : sizeSum (c.blocks.take k) = headerLine c k := rfl

/-- `Lines.Line` of a fresh listing is the row of the instruction -/
theorem line_newLines (c : Code) (k : Nat) (b : Block) (hb : c.blocks[k]? = some b) (hidx : b.idx = k)
    (i : Nat) : (newLines c).line b i = some (lineOf c k i) := by
  simp only [Lines.line, newLines_starts, hidx]
  rw [startsOf_getElem? _ _ _ _ (getElem?_lt hb)]
  simp [lineOf, sizeSum_eq]

theorem newLines_length (c : Code) :
    (newLines c).lines.length + (if c.blocks.isEmpty then 0 else 1) = sizeSum c.blocks + 1 := by
  have := linesOf_length c.blocks true
  rw [newLines_lines]
  cases h : c.blocks.isEmpty <;> simp [h] at this ⊢ <;> omega

end Mltwist.Lemmas.Listing
