import Mltwist.Lemmas.OpcodeSort
/-
Proofs for C19: `newOpcodes`, `newMaskGroup`, the `group` loop, `checkConflicts`,
`matchInstruction`, `Match`, and the characterisation of `newMatcher`.
-/
namespace Mltwist.Lemmas.Opcode
open Mltwist.Opcode

/-! ### `newOpcodes` -/

theorem mem_newOpcodesFrom (i : Nat) (ps : List Pat) (o : Opc) :
    o ∈ newOpcodesFrom i ps ↔
      ∃ k, ps[k]? = some o.pat ∧ o.id = i + k ∧ o.masked = applyMask o.pat.bytes o.pat.mask := by
  induction ps generalizing i with
  | nil => simp [newOpcodesFrom]
  | cons p ps ih =>
    simp only [newOpcodesFrom, List.mem_cons, ih]
    constructor
    · rintro (h | ⟨k, h1, h2, h3⟩)
      · subst h; exact ⟨0, by simp, by simp, rfl⟩
      · exact ⟨k + 1, by simpa using h1, by omega, h3⟩
    · rintro ⟨k, h1, h2, h3⟩
      cases k with
      | zero =>
        left
        cases o
        simp_all
      | succ k => right; exact ⟨k, by simpa using h1, by omega, h3⟩

theorem mem_newOpcodes (ps : List Pat) (o : Opc) :
    o ∈ newOpcodes ps ↔
      ps[o.id]? = some o.pat ∧ o.masked = applyMask o.pat.bytes o.pat.mask := by
  unfold newOpcodes
  rw [mem_newOpcodesFrom]
  constructor
  · rintro ⟨k, h1, h2, h3⟩
    have : o.id = k := by omega
    subst this; exact ⟨h1, h3⟩
  · rintro ⟨h1, h3⟩
    exact ⟨o.id, h1, by omega, h3⟩

theorem newOpcodesFrom_nodup (i : Nat) (ps : List Pat) : (newOpcodesFrom i ps).Nodup := by
  induction ps generalizing i with
  | nil => simp [newOpcodesFrom]
  | cons p ps ih =>
    simp only [newOpcodesFrom, List.nodup_cons]
    refine ⟨?_, ih (i + 1)⟩
    intro h
    obtain ⟨k, _, h2, _⟩ := (mem_newOpcodesFrom _ _ _).1 h
    simp at h2; omega

theorem newOpcodes_nodup (ps : List Pat) : (newOpcodes ps).Nodup := newOpcodesFrom_nodup 0 ps

/-- an entry of `newOpcodes ps` is determined by its id -/
theorem newOpcodes_id_inj (ps : List Pat) (a b : Opc) (ha : a ∈ newOpcodes ps)
    (hb : b ∈ newOpcodes ps) (h : a.id = b.id) : a = b := by
  obtain ⟨a1, a2⟩ := (mem_newOpcodes ps a).1 ha
  obtain ⟨b1, b2⟩ := (mem_newOpcodes ps b).1 hb
  cases a; cases b
  simp only at h a1 a2 b1 b2
  subst h
  rw [a1] at b1
  cases b1
  rw [a2, b2]

/-- the entry for position `i` -/
def entry (i : Nat) (p : Pat) : Opc := { id := i, pat := p, masked := applyMask p.bytes p.mask }

theorem entry_mem (ps : List Pat) (i : Nat) (p : Pat) (h : ps[i]? = some p) :
    entry i p ∈ newOpcodes ps := (mem_newOpcodes ps _).2 ⟨h, rfl⟩

/-! ### `newMaskGroup` -/

/-- all members carry the group's mask, and the members are strictly sorted by `masked` -/
def GroupOK (g : Group) : Prop :=
  (∀ o ∈ g.opcodes, o.pat.mask = g.mask) ∧ StrictSorted g.opcodes

theorem newMaskGroup_ok (run : List Opc) (mk : List UInt8) (hmk : ∀ o ∈ run, o.pat.mask = mk)
    (g : Group) (h : newMaskGroup run = .ok g) : g.opcodes.Perm run ∧ GroupOK g := by
  unfold newMaskGroup at h
  have hp := sortBy_perm (fun a b : Opc => byteLT a.masked b.masked) run
  have hsd := sortBy_sorted byteLT_strictTotal (fun o : Opc => o.masked) run
  simp only [] at h
  generalize sortBy (fun a b : Opc => byteLT a.masked b.masked) run = sorted at h hp hsd
  cases sorted with
  | nil => simp at h
  | cons o rest =>
    simp only at h
    by_cases hd : hasAdjDup (o :: rest) = true
    · simp [hd] at h
    · have hd' : hasAdjDup (o :: rest) = false := by simpa using hd
      simp only [hd', Bool.false_eq_true, if_false, Except.ok.injEq] at h
      subst h
      refine ⟨hp, ?_, strictSorted_of_noAdjDup _ hsd hd'⟩
      intro o' ho'
      simp only at ho' ⊢
      rw [hmk o' (hp.mem_iff.1 ho'), hmk o (hp.mem_iff.1 (List.mem_cons_self ..))]

theorem newMaskGroup_err (run : List Opc) (hne : run ≠ []) (hn : run.Nodup) (e : ErrClass)
    (h : newMaskGroup run = .error e) :
    e = .ambiguous ∧ ∃ a ∈ run, ∃ b ∈ run, a ≠ b ∧ a.masked = b.masked := by
  unfold newMaskGroup at h
  have hp := sortBy_perm (fun a b : Opc => byteLT a.masked b.masked) run
  simp only [] at h
  generalize sortBy (fun a b : Opc => byteLT a.masked b.masked) run = sorted at h hp
  cases sorted with
  | nil => exact absurd hp.symm.eq_nil hne
  | cons o rest =>
    simp only at h
    by_cases hd : hasAdjDup (o :: rest) = true
    · simp only [hd, if_true, Except.error.injEq] at h
      obtain ⟨a, b, hsub, hab⟩ := adjDup_witness _ hd
      obtain ⟨ha, hb, hne'⟩ := pair_sublist_nodup hsub (hp.nodup_iff.2 hn)
      exact ⟨h.symm, a, hp.mem_iff.1 ha, b, hp.mem_iff.1 hb, hne', hab⟩
    · simp [hd] at h

/-! ### the loop of `group` -/

theorem groupLoop_ok (fuel : Nat) (l : List Opc) (hf : l.length ≤ fuel) (gs : List Group)
    (h : groupLoop fuel l = .ok gs) :
    (gs.flatMap (·.opcodes)).Perm l ∧ ∀ g ∈ gs, GroupOK g := by
  induction fuel generalizing l gs with
  | zero =>
    cases l with
    | nil => simp [groupLoop] at h; subst h; simp
    | cons _ _ => simp at hf
  | succ fuel ih =>
    cases l with
    | nil => simp [groupLoop] at h; subst h; simp
    | cons o os =>
      rw [groupLoop] at h
      have hend := searchFirst_pos (fun x : Opc => !byteEQ x.pat.mask o.pat.mask) o os
        (by simp [byteEQ_refl])
      have hmem := mem_take_searchFirst (fun x : Opc => !byteEQ x.pat.mask o.pat.mask) (o :: os)
      generalize searchFirst (fun x : Opc => !byteEQ x.pat.mask o.pat.mask) (o :: os) = n
        at h hend hmem
      cases hg : newMaskGroup ((o :: os).take n) with
      | error e => rw [hg] at h; simp at h
      | ok g =>
        rw [hg] at h
        simp only at h
        cases hr : groupLoop fuel ((o :: os).drop n) with
        | error e => rw [hr] at h; simp at h
        | ok gs' =>
          rw [hr] at h
          simp only [Except.ok.injEq] at h
          subst h
          have hmk : ∀ x ∈ (o :: os).take n, x.pat.mask = o.pat.mask := by
            intro x hx
            have := hmem x hx
            simp only [Bool.not_eq_false'] at this
            exact (byteEQ_iff _ _).1 this
          obtain ⟨hp1, hok1⟩ := newMaskGroup_ok _ _ hmk g hg
          obtain ⟨hp2, hok2⟩ := ih ((o :: os).drop n)
            (by simp only [List.length_drop, List.length_cons] at hf ⊢; omega) gs' hr
          constructor
          · simp only [List.flatMap_cons]
            have := List.Perm.append hp1 hp2
            rwa [List.take_append_drop] at this
          · intro g' hg'
            rcases List.mem_cons.1 hg' with hg' | hg'
            · subst hg'; exact hok1
            · exact hok2 g' hg'

theorem groupLoop_err (fuel : Nat) (l : List Opc) (hf : l.length ≤ fuel) (hn : l.Nodup)
    (e : ErrClass) (h : groupLoop fuel l = .error e) :
    e = .ambiguous ∧
      ∃ a ∈ l, ∃ b ∈ l, a ≠ b ∧ a.pat.mask = b.pat.mask ∧ a.masked = b.masked := by
  induction fuel generalizing l with
  | zero =>
    cases l with
    | nil => simp [groupLoop] at h
    | cons _ _ => simp at hf
  | succ fuel ih =>
    cases l with
    | nil => simp [groupLoop] at h
    | cons o os =>
      rw [groupLoop] at h
      have hend := searchFirst_pos (fun x : Opc => !byteEQ x.pat.mask o.pat.mask) o os
        (by simp [byteEQ_refl])
      have hmem := mem_take_searchFirst (fun x : Opc => !byteEQ x.pat.mask o.pat.mask) (o :: os)
      generalize searchFirst (fun x : Opc => !byteEQ x.pat.mask o.pat.mask) (o :: os) = n
        at h hend hmem
      have hmk : ∀ x ∈ (o :: os).take n, x.pat.mask = o.pat.mask := by
        intro x hx
        have := hmem x hx
        simp only [Bool.not_eq_false'] at this
        exact (byteEQ_iff _ _).1 this
      cases hg : newMaskGroup ((o :: os).take n) with
      | error e' =>
        rw [hg] at h
        simp only [Except.error.injEq] at h
        subst h
        have hne : (o :: os).take n ≠ [] := by
          cases n with
          | zero => omega
          | succ n => simp
        obtain ⟨he, a, ha, b, hb, hab, hm⟩ :=
          newMaskGroup_err _ hne ((List.take_sublist n _).nodup hn) _ hg
        exact ⟨he, a, List.mem_of_mem_take ha, b, List.mem_of_mem_take hb, hab,
          by rw [hmk a ha, hmk b hb], hm⟩
      | ok g =>
        rw [hg] at h
        simp only at h
        cases hr : groupLoop fuel ((o :: os).drop n) with
        | ok gs' => rw [hr] at h; simp at h
        | error e' =>
          rw [hr] at h
          simp only [Except.error.injEq] at h
          subst h
          obtain ⟨he, a, ha, b, hb, hrest⟩ := ih ((o :: os).drop n)
            (by simp only [List.length_drop, List.length_cons] at hf ⊢; omega)
            ((List.drop_sublist n _).nodup hn) hr
          exact ⟨he, a, List.mem_of_mem_drop ha, b, List.mem_of_mem_drop hb, hrest⟩

/-! ### `checkConflicts` -/

theorem checkConflicts_iff (gs : List Group) : checkConflicts gs = true ↔
    ∀ (i j : Nat) (gi gj : Group), gs[i]? = some gi → gs[j]? = some gj → i ≠ j →
      ∀ o ∈ gj.opcodes, ∀ opc ∈ gi.opcodes, conflictPat o.pat opc.pat = false := by
  unfold checkConflicts
  simp only [List.all_eq_true, List.mem_zipIdx_iff_getElem?, Prod.forall, Bool.or_eq_true,
    beq_iff_eq, Bool.not_eq_true']
  constructor
  · intro h i j gi gj hi hj hij o ho opc hopc
    rcases h gi i hi gj j hj with h' | h'
    · exact absurd h' hij
    · exact h' o ho opc hopc
  · intro h gi i hi gj j hj
    by_cases hij : i = j
    · exact Or.inl hij
    · exact Or.inr (fun o ho opc hopc => h i j gi gj hi hj hij o ho opc hopc)

/-- members of groups at different positions are different when the flattened list has no
duplicates -/
theorem flat_disjoint (gs : List Group) (hn : (gs.flatMap (·.opcodes)).Nodup) (a b : Nat)
    (g1 g2 : Group) (h1 : gs[a]? = some g1) (h2 : gs[b]? = some g2) (hab : a ≠ b) (x : Opc)
    (hx : x ∈ g1.opcodes) (hy : x ∈ g2.opcodes) : False := by
  induction gs generalizing a b with
  | nil => simp at h1
  | cons g rest ih =>
    simp only [List.flatMap_cons] at hn
    obtain ⟨_, hn2, hd⟩ := List.nodup_append.1 hn
    cases a with
    | zero =>
      cases b with
      | zero => exact hab rfl
      | succ b =>
        simp only [List.getElem?_cons_zero, Option.some.injEq] at h1
        simp only [List.getElem?_cons_succ] at h2
        subst h1
        exact hd x hx x (List.mem_flatMap.2 ⟨g2, List.mem_of_getElem? h2, hy⟩) rfl
    | succ a =>
      cases b with
      | zero =>
        simp only [List.getElem?_cons_zero, Option.some.injEq] at h2
        simp only [List.getElem?_cons_succ] at h1
        subst h2
        exact hd x hy x (List.mem_flatMap.2 ⟨g1, List.mem_of_getElem? h1, hx⟩) rfl
      | succ b =>
        simp only [List.getElem?_cons_succ] at h1 h2
        exact ih hn2 a b h1 h2 (by omega)

theorem pairwise_forall_of_symm {α} {R : α → α → Prop} {l : List α} (h : l.Pairwise R)
    (hs : ∀ a b, R a b → R b a) {a b : α} (ha : a ∈ l) (hb : b ∈ l) (hab : a ≠ b) : R a b := by
  induction l with
  | nil => simp at ha
  | cons x xs ih =>
    rw [List.pairwise_cons] at h
    rcases List.mem_cons.1 ha with ha' | ha' <;> rcases List.mem_cons.1 hb with hb' | hb'
    · exact absurd (ha'.trans hb'.symm) hab
    · rw [ha']; exact h.1 b hb'
    · rw [hb']; exact hs _ _ (h.1 a ha')
    · exact ih h.2 ha' hb'

/-! ### what a successful `newMatcher` establishes -/

structure Built (ps : List Pat) (gs : List Group) : Prop where
  wf : ∀ p ∈ ps, WellFormed p
  perm : (gs.flatMap (·.opcodes)).Perm (newOpcodes ps)
  ok : ∀ g ∈ gs, GroupOK g
  cc : checkConflicts gs = true

theorem all_validate_iff (ps : List Pat) : ps.all validate = true ↔ ∀ p ∈ ps, WellFormed p := by
  simp only [List.all_eq_true, validate_iff]

theorem built_of_ok (ps : List Pat) (m : Matcher) (h : newMatcher ps = .ok m) :
    Built ps m.groups := by
  unfold newMatcher at h
  by_cases hv : ps.all validate = true
  · simp only [hv, Bool.not_true, Bool.false_eq_true, if_false] at h
    unfold group at h
    simp only [] at h
    have hp := sortBy_perm (fun a b : Opc => byteLT a.pat.mask b.pat.mask) (newOpcodes ps)
    generalize sortBy (fun a b : Opc => byteLT a.pat.mask b.pat.mask) (newOpcodes ps) = sorted
      at h hp
    cases hg : groupLoop sorted.length sorted with
    | error e => rw [hg] at h; simp at h
    | ok gs =>
      rw [hg] at h
      simp only at h
      by_cases hc : checkConflicts gs = true
      · simp only [hc, if_true, Except.ok.injEq] at h
        subst h
        obtain ⟨hp1, hok⟩ := groupLoop_ok _ _ (Nat.le_refl _) gs hg
        exact ⟨(all_validate_iff ps).1 hv, hp1.trans hp, hok, hc⟩
      · simp [hc] at h
  · simp [hv] at h

/-! ### `matchInstruction` and `Match` -/

theorem matchInstruction_eq (g : Group) (bs : List UInt8) :
    matchInstruction g bs =
      if g.mask.length > bs.length then none
      else lookup (applyMask (bs.take g.mask.length) g.mask) g.opcodes := rfl

/-- facts about the members of a group needed to relate `masked` to `Matches` -/
def MembersOK (g : Group) : Prop :=
  ∀ o ∈ g.opcodes, o.pat.bytes.length = o.pat.mask.length ∧
    o.masked = applyMask o.pat.bytes o.pat.mask

theorem matchInstruction_sound (g : Group) (hg : GroupOK g) (hm : MembersOK g) (bs : List UInt8)
    (o : Opc) (h : matchInstruction g bs = some o) : o ∈ g.opcodes ∧ Matches o.pat bs := by
  rw [matchInstruction_eq] at h
  by_cases hl : g.mask.length > bs.length
  · simp [hl] at h
  · simp only [hl, if_false] at h
    obtain ⟨ho, hmk⟩ := lookup_sound _ _ _ h
    refine ⟨ho, ?_⟩
    obtain ⟨hlen, hmasked⟩ := hm o ho
    rw [matches_iff_masked _ _ hlen, hg.1 o ho, ← hmk, hmasked, hg.1 o ho]
    exact ⟨by omega, rfl⟩

theorem matchInstruction_complete (g : Group) (hg : GroupOK g) (hm : MembersOK g)
    (bs : List UInt8) (o : Opc) (ho : o ∈ g.opcodes) (hmt : Matches o.pat bs) :
    matchInstruction g bs = some o := by
  obtain ⟨hlen, hmasked⟩ := hm o ho
  rw [matches_iff_masked _ _ hlen, hg.1 o ho] at hmt
  rw [matchInstruction_eq]
  have hl : ¬ g.mask.length > bs.length := by omega
  simp only [hl, if_false]
  apply lookup_complete _ _ hg.2 o ho
  rw [hmasked, hg.1 o ho, hmt.2]

theorem matchGroups_sound (gs : List Group) (hg : ∀ g ∈ gs, GroupOK g)
    (hm : ∀ g ∈ gs, MembersOK g) (bs : List UInt8) (i : Nat) (h : matchGroups gs bs = some i) :
    ∃ g ∈ gs, ∃ o ∈ g.opcodes, o.id = i ∧ Matches o.pat bs := by
  induction gs with
  | nil => simp [matchGroups] at h
  | cons g rest ih =>
    unfold matchGroups at h
    cases hmi : matchInstruction g bs with
    | some o =>
      rw [hmi] at h
      simp only [Option.some.injEq] at h
      obtain ⟨ho, hmt⟩ := matchInstruction_sound g (hg g (List.mem_cons_self ..))
        (hm g (List.mem_cons_self ..)) bs o hmi
      exact ⟨g, List.mem_cons_self .., o, ho, h, hmt⟩
    | none =>
      rw [hmi] at h
      simp only at h
      obtain ⟨g', hg', rest'⟩ := ih (fun g hg' => hg g (List.mem_cons_of_mem _ hg'))
        (fun g hg' => hm g (List.mem_cons_of_mem _ hg')) h
      exact ⟨g', List.mem_cons_of_mem _ hg', rest'⟩

theorem matchGroups_nonempty (gs : List Group) (hg : ∀ g ∈ gs, GroupOK g)
    (hm : ∀ g ∈ gs, MembersOK g) (bs : List UInt8) (g : Group) (hgm : g ∈ gs) (o : Opc)
    (ho : o ∈ g.opcodes) (hmt : Matches o.pat bs) : ∃ i, matchGroups gs bs = some i := by
  induction gs with
  | nil => simp at hgm
  | cons g' rest ih =>
    unfold matchGroups
    cases hmi : matchInstruction g' bs with
    | some o' => exact ⟨o'.id, rfl⟩
    | none =>
      simp only
      rcases List.mem_cons.1 hgm with hgm | hgm
      · subst hgm
        rw [matchInstruction_complete g (hg g (List.mem_cons_self ..))
          (hm g (List.mem_cons_self ..)) bs o ho hmt] at hmi
        cases hmi
      · exact ih (fun g hg' => hg g (List.mem_cons_of_mem _ hg'))
          (fun g hg' => hm g (List.mem_cons_of_mem _ hg')) hgm

/-! ### consequences of `Built` -/

theorem Built.mem_flat {ps gs} (hb : Built ps gs) (o : Opc) :
    (∃ g ∈ gs, o ∈ g.opcodes) ↔ o ∈ newOpcodes ps := by
  rw [← hb.perm.mem_iff, List.mem_flatMap]

theorem Built.membersOK {ps gs} (hb : Built ps gs) : ∀ g ∈ gs, MembersOK g := by
  intro g hg o ho
  have hmem := (hb.mem_flat o).1 ⟨g, hg, ho⟩
  obtain ⟨h1, h2⟩ := (mem_newOpcodes ps o).1 hmem
  exact ⟨wellFormed_len (hb.wf _ (List.mem_of_getElem? h1)), h2⟩

/-- **No two patterns at different positions of an accepted list conflict.** -/
theorem Built.no_conflict {ps gs} (hb : Built ps gs) (i j : Nat) (p q : Pat) (hij : i ≠ j)
    (hp : ps[i]? = some p) (hq : ps[j]? = some q) : ¬ Conflict p q := by
  intro hc
  have hcb : conflictB p q = true := (conflict_iff p q).1 hc
  have hpl := wellFormed_len (hb.wf p (List.mem_of_getElem? hp))
  have hql := wellFormed_len (hb.wf q (List.mem_of_getElem? hq))
  obtain ⟨g1, hg1, ho1⟩ := (hb.mem_flat _).2 (entry_mem ps i p hp)
  obtain ⟨g2, hg2, ho2⟩ := (hb.mem_flat _).2 (entry_mem ps j q hq)
  obtain ⟨a, ha⟩ := List.mem_iff_getElem?.1 hg1
  obtain ⟨b, hb'⟩ := List.mem_iff_getElem?.1 hg2
  by_cases hab : a = b
  · subst hab
    rw [ha] at hb'
    cases hb'
    obtain ⟨hmask, hsorted⟩ := hb.ok g1 hg1
    have hne : entry i p ≠ entry j q := by
      intro e
      exact hij (congrArg Opc.id e)
    have : (entry i p).masked ≠ (entry j q).masked :=
      pairwise_forall_of_symm (R := fun a b : Opc => a.masked ≠ b.masked)
        (hsorted.imp (fun h => byteLT_ne h)) (fun _ _ h => Ne.symm h) ho1 ho2 hne
    apply this
    have hm : p.mask = q.mask := by
      have h1 := hmask _ ho1
      have h2 := hmask _ ho2
      simp only [entry] at h1 h2
      rw [h1, h2]
    exact (conflictB_same_mask p q hpl hql hm).1 hcb
  · have := (checkConflicts_iff gs).1 hb.cc b a g2 g1 hb' ha (Ne.symm hab) _ ho1 _ ho2
    simp only [entry] at this
    rw [conflictPat_eq p q hpl hql, hcb] at this
    cases this

theorem Built.match_sound {ps gs} (hb : Built ps gs) (bs : List UInt8) (i : Nat)
    (h : matchGroups gs bs = some i) : ∃ p, ps[i]? = some p ∧ Matches p bs := by
  obtain ⟨g, hg, o, ho, hid, hmt⟩ := matchGroups_sound gs hb.ok hb.membersOK bs i h
  have hmem := (hb.mem_flat o).1 ⟨g, hg, ho⟩
  obtain ⟨h1, _⟩ := (mem_newOpcodes ps o).1 hmem
  exact ⟨o.pat, hid ▸ h1, hmt⟩

theorem Built.match_complete {ps gs} (hb : Built ps gs) (bs : List UInt8) (i : Nat) (p : Pat)
    (hp : ps[i]? = some p) (hmt : Matches p bs) : matchGroups gs bs = some i := by
  obtain ⟨g, hg, ho⟩ := (hb.mem_flat _).2 (entry_mem ps i p hp)
  obtain ⟨j, hj⟩ := matchGroups_nonempty gs hb.ok hb.membersOK bs g hg _ ho hmt
  obtain ⟨q, hq, hmq⟩ := hb.match_sound bs j hj
  by_cases hij : i = j
  · rw [hij]; exact hj
  · exact absurd ⟨bs, hmt, hmq⟩ (hb.no_conflict i j p q hij hp hq)

/-! ### `newMatcher` succeeds on well-formed, conflict-free lists -/

/-- no two patterns at different positions conflict -/
def NoConflict (ps : List Pat) : Prop :=
  ∀ (i j : Nat) (p q : Pat), i ≠ j → ps[i]? = some p → ps[j]? = some q → ¬ Conflict p q

theorem newMatcher_ok_of (ps : List Pat) (hwf : ∀ p ∈ ps, WellFormed p) (hnc : NoConflict ps) :
    ∃ m, newMatcher ps = .ok m := by
  unfold newMatcher
  have hv := (all_validate_iff ps).2 hwf
  simp only [hv, Bool.not_true, Bool.false_eq_true, if_false]
  unfold group
  simp only []
  have hp := sortBy_perm (fun a b : Opc => byteLT a.pat.mask b.pat.mask) (newOpcodes ps)
  generalize sortBy (fun a b : Opc => byteLT a.pat.mask b.pat.mask) (newOpcodes ps) = sorted
    at hp
  have hnd : sorted.Nodup := hp.nodup_iff.2 (newOpcodes_nodup ps)
  -- two different entries never conflict
  have key : ∀ a ∈ newOpcodes ps, ∀ b ∈ newOpcodes ps, a ≠ b → conflictB a.pat b.pat = false := by
    intro a ha b hb hab
    cases hc : conflictB a.pat b.pat with
    | false => rfl
    | true =>
      have hid : a.id ≠ b.id := fun e => hab (newOpcodes_id_inj ps a b ha hb e)
      exact absurd ((conflict_iff _ _).2 hc)
        (hnc a.id b.id a.pat b.pat hid ((mem_newOpcodes ps a).1 ha).1 ((mem_newOpcodes ps b).1 hb).1)
  have len : ∀ a ∈ newOpcodes ps, a.pat.bytes.length = a.pat.mask.length := by
    intro a ha
    exact wellFormed_len (hwf _ (List.mem_of_getElem? ((mem_newOpcodes ps a).1 ha).1))
  cases hg : groupLoop sorted.length sorted with
  | error e =>
    exfalso
    obtain ⟨_, a, ha, b, hb, hab, hmask, hmasked⟩ := groupLoop_err _ _ (Nat.le_refl _) hnd e hg
    have ha' := hp.mem_iff.1 ha
    have hb' := hp.mem_iff.1 hb
    have := key a ha' b hb' hab
    rw [Bool.eq_false_iff] at this
    apply this
    apply (conflictB_same_mask a.pat b.pat (len a ha') (len b hb') hmask).2
    rw [← ((mem_newOpcodes ps a).1 ha').2, ← ((mem_newOpcodes ps b).1 hb').2, hmasked]
  | ok gs =>
    simp only
    obtain ⟨hp1, hok⟩ := groupLoop_ok _ _ (Nat.le_refl _) gs hg
    have hflat : (gs.flatMap (·.opcodes)).Nodup := (hp1.trans hp).nodup_iff.2 (newOpcodes_nodup ps)
    have hcc : checkConflicts gs = true := by
      rw [checkConflicts_iff]
      intro i j gi gj hi hj hij o ho opc hopc
      have ho' : o ∈ newOpcodes ps :=
        (hp1.trans hp).mem_iff.1 (List.mem_flatMap.2 ⟨gj, List.mem_of_getElem? hj, ho⟩)
      have hopc' : opc ∈ newOpcodes ps :=
        (hp1.trans hp).mem_iff.1 (List.mem_flatMap.2 ⟨gi, List.mem_of_getElem? hi, hopc⟩)
      have hne : o ≠ opc := by
        intro e
        subst e
        exact flat_disjoint gs hflat j i gj gi hj hi (Ne.symm hij) o ho hopc
      rw [conflictPat_eq _ _ (len o ho') (len opc hopc')]
      exact key o ho' opc hopc' hne
    simp only [hcc, if_true]
    exact ⟨_, rfl⟩

/-! ### error classes -/

theorem newMatcher_invalid_iff (ps : List Pat) :
    newMatcher ps = .error .invalid ↔ ¬ ∀ p ∈ ps, WellFormed p := by
  rw [← all_validate_iff]
  unfold newMatcher
  by_cases hv : ps.all validate = true
  · simp only [hv, Bool.not_true, Bool.false_eq_true, if_false, not_true_eq_false, iff_false]
    unfold group
    simp only []
    have hp := sortBy_perm (fun a b : Opc => byteLT a.pat.mask b.pat.mask) (newOpcodes ps)
    generalize sortBy (fun a b : Opc => byteLT a.pat.mask b.pat.mask) (newOpcodes ps) = sorted
      at hp
    have hnd : sorted.Nodup := hp.nodup_iff.2 (newOpcodes_nodup ps)
    cases hg : groupLoop sorted.length sorted with
    | error e =>
      have := (groupLoop_err _ _ (Nat.le_refl _) hnd e hg).1
      subst this
      simp
    | ok gs =>
      simp only
      by_cases hc : checkConflicts gs = true <;> simp [hc]
  · simp [hv]

theorem newMatcher_ne_panic (ps : List Pat) : newMatcher ps ≠ .error .panic := by
  unfold newMatcher
  by_cases hv : ps.all validate = true
  · simp only [hv, Bool.not_true, Bool.false_eq_true, if_false]
    unfold group
    simp only []
    have hp := sortBy_perm (fun a b : Opc => byteLT a.pat.mask b.pat.mask) (newOpcodes ps)
    generalize sortBy (fun a b : Opc => byteLT a.pat.mask b.pat.mask) (newOpcodes ps) = sorted
      at hp
    have hnd : sorted.Nodup := hp.nodup_iff.2 (newOpcodes_nodup ps)
    cases hg : groupLoop sorted.length sorted with
    | error e =>
      have := (groupLoop_err _ _ (Nat.le_refl _) hnd e hg).1
      subst this
      simp
    | ok gs =>
      simp only
      by_cases hc : checkConflicts gs = true <;> simp [hc]
  · simp [hv]

end Mltwist.Lemmas.Opcode
