import Mltwist.Lemmas.ElfMemory
/-
C20, part 2: `NewParser`, `skipMachineCodeSection`, `MachineCode`, `Memory`.
-/
namespace Mltwist.Lemmas.Elf
open Mltwist Mltwist.Elf Mltwist.Elf.Spec

theorem land4 (n : Nat) : n &&& 4 = 0 ↔ n / 4 % 2 = 0 := by
  have h4 : (4 : Nat) = 2 ^ 2 := rfl
  have hb : n.testBit 2 = decide (n / 4 % 2 = 1) := by
    rw [Nat.testBit_eq_decide_div_mod_eq]
  constructor
  · intro h
    have : (n &&& 4).testBit 2 = false := by rw [h]; simp
    rw [Nat.testBit_and, h4, Nat.testBit_two_pow_self, Bool.and_true, hb] at this
    have := of_decide_eq_false this
    omega
  · intro h
    apply Nat.eq_of_testBit_eq
    intro i
    rw [Nat.testBit_and, h4, Nat.testBit_two_pow, Nat.zero_testBit]
    by_cases hi : 2 = i
    · subst hi
      rw [hb]; simp; omega
    · simp [hi]

/-! ### `skipMachineCodeSection` -/

theorem skip_false_iff (s : Section) : skipMachineCodeSection s = false ↔ Qualifies s := by
  unfold skipMachineCodeSection Qualifies shtProgbits shfExecinstr
  have h4 := land4 s.flags
  by_cases h1 : s.typ ≠ 1 ∨ s.size = 0
  · rw [if_pos h1]
    constructor
    · intro h; cases h
    · rintro ⟨a, b, _, _⟩
      rcases h1 with h1 | h1
      · exact absurd a h1
      · exact absurd h1 b
  · rw [if_neg h1]
    have h1' : s.typ = 1 ∧ s.size ≠ 0 := by omega
    by_cases h2 : s.addr = 0
    · rw [if_pos h2]
      constructor
      · intro h; cases h
      · rintro ⟨_, _, c, _⟩; exact absurd h2 c
    · rw [if_neg h2]
      by_cases h3 : s.flags &&& 4 = 0
      · rw [if_pos h3]
        constructor
        · intro h; cases h
        · rintro ⟨_, _, _, d⟩
          have := h4.1 h3
          omega
      · rw [if_neg h3]
        constructor
        · intro _
          refine ⟨h1'.1, h1'.2, h2, ?_⟩
          have : ¬ s.flags / 4 % 2 = 0 := fun h => h3 (h4.2 h)
          omega
        · intro _; rfl

theorem skip_true_iff (s : Section) : skipMachineCodeSection s = true ↔ ¬ Qualifies s := by
  rw [← skip_false_iff]
  cases skipMachineCodeSection s <;> simp

/-! ### the loop of `MachineCode` -/

def imagesOf (ss : List Section) : List Block :=
  (ss.filter fun s => decide (Qualifies s)).map fun s => (s.addr, s.data.getD [])

theorem codeBlocks_spec : ∀ ss : List Section,
    (Readable ss ∧ codeBlocks ss = .ok (imagesOf ss)) ∨
    (¬ Readable ss ∧ (codeBlocks ss = .error .read ∨ codeBlocks ss = .error .size))
  | [] => Or.inl ⟨fun s hs => (by cases hs), rfl⟩
  | s :: ss => by
    have ih := codeBlocks_spec ss
    unfold codeBlocks
    by_cases hq : Qualifies s
    · have hsk : skipMachineCodeSection s = false := (skip_false_iff s).2 hq
      rw [hsk]
      simp only [Bool.false_eq_true, if_false]
      cases hd : s.data with
      | none =>
        right
        refine ⟨fun hr => ?_, Or.inl rfl⟩
        obtain ⟨d, h, _⟩ := hr s (by simp) hq
        rw [hd] at h; cases h
      | some d =>
        simp only
        by_cases hl : d.length ≠ s.sizeAfter
        · rw [if_pos hl]
          right
          refine ⟨fun hr => ?_, Or.inr rfl⟩
          obtain ⟨d', h, h'⟩ := hr s (by simp) hq
          rw [hd] at h; cases h; exact hl h'
        · rw [if_neg hl]
          rcases ih with ⟨hr, hok⟩ | ⟨hnr, he⟩
          · left
            refine ⟨?_, ?_⟩
            · intro x hx hxq
              rcases List.mem_cons.1 hx with rfl | hx
              · exact ⟨d, hd, by omega⟩
              · exact hr x hx hxq
            · rw [hok]
              simp [imagesOf, hq, hd]
          · right
            refine ⟨fun hr => hnr fun x hx => hr x (List.mem_cons_of_mem _ hx), ?_⟩
            rcases he with he | he <;> rw [he] <;> simp
    · have hsk : skipMachineCodeSection s = true := (skip_true_iff s).2 hq
      rw [hsk]
      simp only [if_true]
      rcases ih with ⟨hr, hok⟩ | ⟨hnr, he⟩
      · left
        refine ⟨?_, ?_⟩
        · intro x hx hxq
          rcases List.mem_cons.1 hx with rfl | hx
          · exact absurd hxq hq
          · exact hr x hx hxq
        · rw [hok]; simp [imagesOf, hq]
      · right
        exact ⟨fun hr => hnr fun x hx => hr x (List.mem_cons_of_mem _ hx), he⟩

/-! ### the loop of `Memory` -/

/-- every loadable segment passes the checks of `Memory()` and its zero fill is granted (`uint64`
arithmetic as in the code) -/
def RawLoadable (lim : Nat) (ps : List Prog) : Prop :=
  ∀ p ∈ ps, p.typ = 1 → p.filesz ≤ p.memsz ∧ ∃ d, p.data = some d ∧ missingOf p.memsz d.length ≤ lim

/-- the image as the code builds it (with `uint64` subtraction) -/
def rawImage (p : Prog) : Block :=
  let d := p.data.getD []
  (p.vaddr, d ++ List.replicate (missingOf p.memsz d.length) 0)

def rawImagesOf (ps : List Prog) : List Block :=
  (ps.filter fun p => decide (p.typ = 1)).map rawImage

theorem fill_eq (d : List UInt8) (n : Nat) :
    (if n > 0 then d ++ List.replicate n (0 : UInt8) else d) = d ++ List.replicate n 0 := by
  by_cases h : n > 0
  · rw [if_pos h]
  · rw [if_neg h]
    have : n = 0 := by omega
    subst this; simp

theorem memBlocks_spec (lim : Nat) : ∀ ps : List Prog,
    (RawLoadable lim ps ∧ memBlocks lim ps = .ok (rawImagesOf ps)) ∨
    (¬ RawLoadable lim ps ∧ (memBlocks lim ps = .error .memsz ∨ memBlocks lim ps = .error .read ∨
      (memBlocks lim ps = .error .alloc ∧
        ∃ p ∈ ps, p.typ = 1 ∧ p.filesz ≤ p.memsz ∧ ∃ d, p.data = some d ∧ missingOf p.memsz d.length > lim)))
  | [] => Or.inl ⟨fun p hp => (by cases hp), rfl⟩
  | p :: ps => by
    have ih := memBlocks_spec lim ps
    unfold memBlocks ptLoad
    by_cases ht : p.typ ≠ 1
    · rw [if_pos ht]
      rcases ih with ⟨hl, hok⟩ | ⟨hnl, he⟩
      · left
        refine ⟨?_, ?_⟩
        · intro x hx hx1
          rcases List.mem_cons.1 hx with rfl | hx
          · exact absurd hx1 ht
          · exact hl x hx hx1
        · rw [hok]; simp [rawImagesOf, ht]
      · right
        refine ⟨fun hl => hnl fun x hx => hl x (List.mem_cons_of_mem _ hx), ?_⟩
        rcases he with he | he | ⟨he, q, hq, h⟩
        · exact Or.inl he
        · exact Or.inr (Or.inl he)
        · exact Or.inr (Or.inr ⟨he, q, List.mem_cons_of_mem _ hq, h⟩)
    · rw [if_neg ht]
      have ht1 : p.typ = 1 := by omega
      by_cases hm : p.memsz < p.filesz
      · rw [if_pos hm]
        right
        refine ⟨fun hl => ?_, Or.inl rfl⟩
        have := (hl p (by simp) ht1).1
        omega
      · rw [if_neg hm]
        cases hd : p.data with
        | none =>
          right
          refine ⟨fun hl => ?_, Or.inr (Or.inl rfl)⟩
          obtain ⟨_, d, h, _⟩ := hl p (by simp) ht1
          rw [hd] at h; cases h
        | some d =>
          dsimp only
          by_cases ha : missingOf p.memsz d.length > lim
          · rw [if_pos ha]
            right
            refine ⟨fun hl => ?_, Or.inr (Or.inr ⟨rfl, p, by simp, ht1, by omega, d, hd, ha⟩)⟩
            obtain ⟨_, d', h, h'⟩ := hl p (by simp) ht1
            rw [hd] at h; cases h; omega
          · rw [if_neg ha]
            rcases ih with ⟨hl, hok⟩ | ⟨hnl, he⟩
            · left
              refine ⟨?_, ?_⟩
              · intro x hx hx1
                rcases List.mem_cons.1 hx with rfl | hx
                · exact ⟨by omega, d, hd, by omega⟩
                · exact hl x hx hx1
              · rw [hok, fill_eq]
                simp [rawImagesOf, ht1, rawImage, hd]
            · right
              refine ⟨fun hl => hnl fun x hx => hl x (List.mem_cons_of_mem _ hx), ?_⟩
              rcases he with he | he | ⟨he, q, hq, h⟩
              · rw [he]; exact Or.inl rfl
              · rw [he]; exact Or.inr (Or.inl rfl)
              · rw [he]; exact Or.inr (Or.inr ⟨rfl, q, List.mem_cons_of_mem _ hq, h⟩)

/-! ### `nonEmptyMemory` -/

theorem nonEmptyMemory_spec (l : List Block) (hs : Sane l) :
    (l = [] ∧ nonEmptyMemory l = .error .empty) ∨
    (l ≠ [] ∧ nonEmptyMemory l = .ok (sortByBegin l) ∧ Tidy (sortByBegin l)) ∨
    (l ≠ [] ∧ nonEmptyMemory l = .error .wrap ∧ ¬ Fits l) ∨
    (l ≠ [] ∧ nonEmptyMemory l = .error .overlap ∧ Fits l ∧ ¬ Tidy (sortByBegin l)) := by
  unfold nonEmptyMemory
  by_cases h : l.length = 0
  · rw [if_pos h]
    left; exact ⟨List.length_eq_zero_iff.1 h, rfl⟩
  · rw [if_neg h]
    have hne : l ≠ [] := fun he => h (by rw [he]; rfl)
    right
    rcases newMemory_spec l hs with h | h | h
    · exact Or.inl ⟨hne, h⟩
    · exact Or.inr (Or.inl ⟨hne, h⟩)
    · exact Or.inr (Or.inr ⟨hne, h⟩)

/-! ### `MachineCode` -/

theorem sane_codeImages (v : View) (hv : ViewOK v) : Sane (codeImages v) := by
  intro b hb
  unfold codeImages at hb
  obtain ⟨s, hs, rfl⟩ := List.mem_map.1 hb
  have hs' := (List.mem_filter.1 hs).1
  refine ⟨hv.secAddr s hs', ?_⟩
  cases hd : s.data with
  | none => simp [M]
  | some d => simpa [M] using hv.secData s hs' d hd

theorem machineCode_cases (v : View) (hv : ViewOK v) :
    (¬ Readable v.sections ∧ (machineCode v = .error .read ∨ machineCode v = .error .size)) ∨
    (Readable v.sections ∧
      ((codeImages v = [] ∧ machineCode v = .error .empty) ∨
       (codeImages v ≠ [] ∧ machineCode v = .ok (sortByBegin (codeImages v)) ∧
          Tidy (sortByBegin (codeImages v))) ∨
       (codeImages v ≠ [] ∧ machineCode v = .error .wrap ∧ ¬ Fits (codeImages v)) ∨
       (codeImages v ≠ [] ∧ machineCode v = .error .overlap ∧ Fits (codeImages v) ∧
          ¬ Tidy (sortByBegin (codeImages v))))) := by
  unfold machineCode
  rcases codeBlocks_spec v.sections with ⟨hr, hok⟩ | ⟨hnr, he⟩
  · right
    refine ⟨hr, ?_⟩
    rw [hok]
    exact nonEmptyMemory_spec (codeImages v) (sane_codeImages v hv)
  · left
    refine ⟨hnr, ?_⟩
    rcases he with he | he <;> rw [he] <;> simp

/-! ### `Memory` -/

theorem missingOf_eq {memsz len : Nat} (h1 : memsz < 2 ^ 64) (h2 : len ≤ memsz) :
    missingOf memsz len = memsz - len := by
  unfold missingOf M
  have hl : len % 2 ^ 64 = len := Nat.mod_eq_of_lt (by omega)
  rw [Nat.mod_eq_of_lt h1, hl]
  have : memsz + 2 ^ 64 - len = (memsz - len) + 2 ^ 64 := by omega
  rw [this, Nat.add_mod_right]
  exact Nat.mod_eq_of_lt (by omega)

theorem rawLoadable_iff (lim : Nat) (v : View) (hv : ViewOK v) :
    RawLoadable lim v.progs ↔ Loadable lim v.progs := by
  constructor
  · intro h p hp h1
    obtain ⟨hm, d, hd, hl⟩ := h p hp h1
    refine ⟨hm, d, hd, ?_⟩
    rw [missingOf_eq (hv.progAddr p hp).2 (Nat.le_trans (hv.progData p hp d hd) hm)] at hl
    exact hl
  · intro h p hp h1
    obtain ⟨hm, d, hd, hl⟩ := h p hp h1
    refine ⟨hm, d, hd, ?_⟩
    rw [missingOf_eq (hv.progAddr p hp).2 (Nat.le_trans (hv.progData p hp d hd) hm)]
    exact hl

theorem rawImagesOf_eq (lim : Nat) (v : View) (hv : ViewOK v) (hl : Loadable lim v.progs) :
    rawImagesOf v.progs = loadImages v := by
  unfold rawImagesOf loadImages
  apply List.map_congr_left
  intro p hp
  obtain ⟨hp', h1⟩ := List.mem_filter.1 hp
  have h1' : p.typ = 1 := by simpa using h1
  obtain ⟨hm, d, hd, _⟩ := hl p hp' h1'
  unfold rawImage segImage
  simp only [hd, Option.getD_some]
  rw [missingOf_eq (hv.progAddr p hp').2 (Nat.le_trans (hv.progData p hp' d hd) hm)]

theorem sane_loadImages (lim : Nat) (v : View) (hv : ViewOK v) (hl : Loadable lim v.progs) :
    Sane (loadImages v) := by
  intro b hb
  unfold loadImages at hb
  obtain ⟨p, hp, rfl⟩ := List.mem_map.1 hb
  obtain ⟨hp', h1⟩ := List.mem_filter.1 hp
  have h1' : p.typ = 1 := by simpa using h1
  obtain ⟨hm, d, hd, _⟩ := hl p hp' h1'
  have hle := Nat.le_trans (hv.progData p hp' d hd) hm
  unfold segImage
  simp only [hd, Option.getD_some, List.length_append, List.length_replicate]
  refine ⟨(hv.progAddr p hp').1, ?_⟩
  have := (hv.progAddr p hp').2
  unfold M; omega

theorem memory_cases (lim : Nat) (v : View) (hv : ViewOK v) :
    (¬ Loadable lim v.progs ∧ (memory lim v = .error .memsz ∨ memory lim v = .error .read ∨
        (memory lim v = .error .alloc ∧
          ∃ p ∈ v.progs, p.typ = 1 ∧ ∃ d, p.data = some d ∧ p.memsz - d.length > lim))) ∨
    (Loadable lim v.progs ∧
      ((loadImages v = [] ∧ memory lim v = .error .empty) ∨
       (loadImages v ≠ [] ∧ memory lim v = .ok (sortByBegin (loadImages v)) ∧
          Tidy (sortByBegin (loadImages v))) ∨
       (loadImages v ≠ [] ∧ memory lim v = .error .wrap ∧ ¬ Fits (loadImages v)) ∨
       (loadImages v ≠ [] ∧ memory lim v = .error .overlap ∧ Fits (loadImages v) ∧
          ¬ Tidy (sortByBegin (loadImages v))))) := by
  unfold memory
  rcases memBlocks_spec lim v.progs with ⟨hr, hok⟩ | ⟨hnr, he⟩
  · right
    have hl := (rawLoadable_iff lim v hv).1 hr
    refine ⟨hl, ?_⟩
    rw [hok, rawImagesOf_eq lim v hv hl]
    exact nonEmptyMemory_spec (loadImages v) (sane_loadImages lim v hv hl)
  · left
    refine ⟨fun hl => hnr ((rawLoadable_iff lim v hv).2 hl), ?_⟩
    rcases he with he | he | ⟨he, p, hp, h1, hm, d, hd, ha⟩
    · rw [he]; exact Or.inl rfl
    · rw [he]; exact Or.inr (Or.inl rfl)
    · rw [he]
      refine Or.inr (Or.inr ⟨rfl, p, hp, h1, d, hd, ?_⟩)
      rw [missingOf_eq (hv.progAddr p hp).2 (Nat.le_trans (hv.progData p hp d hd) hm)] at ha
      exact ha

end Mltwist.Lemmas.Elf
