import Mltwist.Spec.Riscv
/-
C01 library, part 2: the reference `Spec.Rv.exec` / `Spec.Rv.noWrap` in closed form, one equation
per mnemonic, all by `rfl`.

Why: `exec` is one big `match` on the mnemonic string.  `simp [exec]` has to decide ~100 string
equalities and takes ~20 s PER USE; `rfl` against a stated right-hand side takes ~0.1 s.  So never
unfold `exec`/`accessRange`/`noWrap` in a proof: rewrite with `exec_<mnemonic>` / `noWrap_<mnemonic>`
(dots in mnemonics become underscores: `exec_fence_i`, `exec_amoadd_w`).

The right-hand sides use the helper shapes below, which are the local definitions of `exec`
(`fall`, `wr`, `br`, `csrOp`, `amo`, `w32`) made global.  This file imports only the reference.

Pitfall (why the loads are proved in two steps): a `rfl` whose two sides differ under a `sext`/`%`
makes the unifier evaluate `St.load … 8` symbolically, which is exponential.  Keep both sides
syntactically parallel and finish with `rw`.
-/
namespace Mltwist.Lemmas.RiscvLift
open Mltwist Mltwist.Spec.Rv

/-- `t` with the program counter of the instruction following the one at `s.pc` -/
def fall (xlen : Nat) (s t : St) : St := { t with pc := (s.pc + 4) % 2 ^ xlen }
/-- write `v mod 2^xlen` to `rd`, fall through -/
def wr (xlen w : Nat) (s : St) (v : Nat) : Option St := some (fall xlen s (s.set (rd w) (v % 2 ^ xlen)))
/-- write the sign extension of the low 32 bits of `v` to `rd`, fall through (the `…w` forms) -/
def w32 (xlen w : Nat) (s : St) (v : Nat) : Option St := wr xlen w s (Spec.Rv.sext xlen 32 v)
/-- conditional branch -/
def br (xlen w : Nat) (s : St) (c : Bool) : Option St :=
  some (if c then { s with pc := wrap xlen ((s.pc : Int) + immB w) } else fall xlen s s)
/-- effective address of a load / `jalr` (`rs1 + immI`) and of a store (`rs1 + immS`) -/
def ldAddr (xlen w : Nat) (s : St) : Nat := wrap xlen ((s.get (rs1 w) : Int) + immI w)
def stAddr (xlen w : Nat) (s : St) : Nat := wrap xlen ((s.get (rs1 w) : Int) + immS w)
/-- shift amount of `slli/srli/srai` -/
def shamt (xlen w : Nat) : Nat := if xlen = 32 then bits w 20 5 else bits w 20 6
/-- CSR read-modify-write: `t` = old CSR value goes to `rd`, `f t` to the CSR -/
def csrOp (xlen w : Nat) (s : St) (f : Nat → Nat) : Option St :=
  some (fall xlen s ((s.setCsr (csrNum w) (f (s.csr (csrNum w)) % 2 ^ xlen)).set (rd w) (s.csr (csrNum w))))
/-- AMO on `n` bytes at `x[rs1]` -/
def amo (xlen w : Nat) (s : St) (n : Nat) (f : Nat → Nat → Nat) : Option St :=
  some (fall xlen s ((s.store (s.get (rs1 w))
      (f (s.load (s.get (rs1 w)) n) (s.get (rs2 w) % 2 ^ (8 * n)) % 2 ^ (8 * n)) n).set (rd w)
    (Spec.Rv.sext xlen (8 * n) (s.load (s.get (rs1 w)) n))))
def smin (n : Nat) (p q : Nat) : Nat := if sx n p < sx n q then p else q
def smax (n : Nat) (p q : Nat) : Nat := if sx n p < sx n q then q else p

@[simp] theorem shamt_32 (w : Nat) : shamt 32 w = bits w 20 5 := rfl
@[simp] theorem shamt_64 (w : Nat) : shamt 64 w = bits w 20 6 := rfl
@[simp] theorem fall_pc (xlen : Nat) (s t : St) : (fall xlen s t).pc = (s.pc + 4) % 2 ^ xlen := rfl
@[simp] theorem fall_x (xlen : Nat) (s t : St) : (fall xlen s t).x = t.x := rfl
@[simp] theorem fall_csr (xlen : Nat) (s t : St) : (fall xlen s t).csr = t.csr := rfl
@[simp] theorem fall_mem (xlen : Nat) (s t : St) : (fall xlen s t).mem = t.mem := rfl

section
variable (xlen w : Nat) (s : St)

/-! ### `exec`, one equation per mnemonic -/

theorem exec_lui : exec xlen "lui" w s = wr xlen w s (wrap xlen (immU w)) := rfl
theorem exec_auipc : exec xlen "auipc" w s = wr xlen w s (wrap xlen ((s.pc : Int) + immU w)) := rfl
theorem exec_jal : exec xlen "jal" w s = some { (s.set (rd w) ((s.pc + 4) % 2 ^ xlen)) with pc := wrap xlen ((s.pc : Int) + immJ w) } := rfl
theorem exec_jalr : exec xlen "jalr" w s = some { (s.set (rd w) ((s.pc + 4) % 2 ^ xlen)) with pc := ldAddr xlen w s / 2 * 2 } := rfl
theorem exec_beq : exec xlen "beq" w s = br xlen w s (s.get (rs1 w) == s.get (rs2 w)) := rfl
theorem exec_bne : exec xlen "bne" w s = br xlen w s (s.get (rs1 w) != s.get (rs2 w)) := rfl
theorem exec_blt : exec xlen "blt" w s = br xlen w s (decide (sx xlen (s.get (rs1 w)) < sx xlen (s.get (rs2 w)))) := rfl
theorem exec_bge : exec xlen "bge" w s = br xlen w s (!decide (sx xlen (s.get (rs1 w)) < sx xlen (s.get (rs2 w)))) := rfl
theorem exec_bltu : exec xlen "bltu" w s = br xlen w s (decide (s.get (rs1 w) < s.get (rs2 w))) := rfl
theorem exec_bgeu : exec xlen "bgeu" w s = br xlen w s (!decide (s.get (rs1 w) < s.get (rs2 w))) := rfl
theorem exec_lb : exec xlen "lb" w s = wr xlen w s (Spec.Rv.sext xlen 8 (s.load (ldAddr xlen w s) 1)) := by
  have h : exec xlen "lb" w s = wr xlen w s
      (if true = true then Spec.Rv.sext xlen (8 * 1) (s.load (ldAddr xlen w s) 1) else (s.load (ldAddr xlen w s) 1)) := rfl
  rw [h, if_pos rfl]
theorem exec_lh : exec xlen "lh" w s = wr xlen w s (Spec.Rv.sext xlen 16 (s.load (ldAddr xlen w s) 2)) := by
  have h : exec xlen "lh" w s = wr xlen w s
      (if true = true then Spec.Rv.sext xlen (8 * 2) (s.load (ldAddr xlen w s) 2) else (s.load (ldAddr xlen w s) 2)) := rfl
  rw [h, if_pos rfl]
theorem exec_lw : exec xlen "lw" w s = wr xlen w s (Spec.Rv.sext xlen 32 (s.load (ldAddr xlen w s) 4)) := by
  have h : exec xlen "lw" w s = wr xlen w s
      (if true = true then Spec.Rv.sext xlen (8 * 4) (s.load (ldAddr xlen w s) 4) else (s.load (ldAddr xlen w s) 4)) := rfl
  rw [h, if_pos rfl]
theorem exec_ld : exec xlen "ld" w s = wr xlen w s (Spec.Rv.sext xlen 64 (s.load (ldAddr xlen w s) 8)) := by
  have h : exec xlen "ld" w s = wr xlen w s
      (if true = true then Spec.Rv.sext xlen (8 * 8) (s.load (ldAddr xlen w s) 8) else (s.load (ldAddr xlen w s) 8)) := rfl
  rw [h, if_pos rfl]
theorem exec_lbu : exec xlen "lbu" w s = wr xlen w s ((s.load (ldAddr xlen w s) 1)) := by
  have h : exec xlen "lbu" w s = wr xlen w s
      (if false = true then Spec.Rv.sext xlen (8 * 1) (s.load (ldAddr xlen w s) 1) else (s.load (ldAddr xlen w s) 1)) := rfl
  rw [h, if_neg (by decide)]
theorem exec_lhu : exec xlen "lhu" w s = wr xlen w s ((s.load (ldAddr xlen w s) 2)) := by
  have h : exec xlen "lhu" w s = wr xlen w s
      (if false = true then Spec.Rv.sext xlen (8 * 2) (s.load (ldAddr xlen w s) 2) else (s.load (ldAddr xlen w s) 2)) := rfl
  rw [h, if_neg (by decide)]
theorem exec_lwu : exec xlen "lwu" w s = wr xlen w s ((s.load (ldAddr xlen w s) 4)) := by
  have h : exec xlen "lwu" w s = wr xlen w s
      (if false = true then Spec.Rv.sext xlen (8 * 4) (s.load (ldAddr xlen w s) 4) else (s.load (ldAddr xlen w s) 4)) := rfl
  rw [h, if_neg (by decide)]
theorem exec_sb : exec xlen "sb" w s = some (fall xlen s (s.store (stAddr xlen w s) (s.get (rs2 w)) 1)) := rfl
theorem exec_sh : exec xlen "sh" w s = some (fall xlen s (s.store (stAddr xlen w s) (s.get (rs2 w)) 2)) := rfl
theorem exec_sw : exec xlen "sw" w s = some (fall xlen s (s.store (stAddr xlen w s) (s.get (rs2 w)) 4)) := rfl
theorem exec_sd : exec xlen "sd" w s = some (fall xlen s (s.store (stAddr xlen w s) (s.get (rs2 w)) 8)) := rfl
theorem exec_addi : exec xlen "addi" w s = wr xlen w s (wrap xlen ((s.get (rs1 w) : Int) + immI w)) := rfl
theorem exec_slti : exec xlen "slti" w s = wr xlen w s (if sx xlen (s.get (rs1 w)) < immI w then 1 else 0) := rfl
theorem exec_sltiu : exec xlen "sltiu" w s = wr xlen w s (if s.get (rs1 w) < wrap xlen (immI w) then 1 else 0) := rfl
theorem exec_xori : exec xlen "xori" w s = wr xlen w s (s.get (rs1 w) ^^^ wrap xlen (immI w)) := rfl
theorem exec_ori : exec xlen "ori" w s = wr xlen w s (s.get (rs1 w) ||| wrap xlen (immI w)) := rfl
theorem exec_andi : exec xlen "andi" w s = wr xlen w s (s.get (rs1 w) &&& wrap xlen (immI w)) := rfl
theorem exec_slli : exec xlen "slli" w s = wr xlen w s (s.get (rs1 w) * 2 ^ shamt xlen w) := rfl
theorem exec_srli : exec xlen "srli" w s = wr xlen w s (s.get (rs1 w) / 2 ^ shamt xlen w) := rfl
theorem exec_srai : exec xlen "srai" w s = wr xlen w s (sra xlen (s.get (rs1 w)) (shamt xlen w)) := rfl
theorem exec_add : exec xlen "add" w s = wr xlen w s (s.get (rs1 w) + s.get (rs2 w)) := rfl
theorem exec_sub : exec xlen "sub" w s = wr xlen w s (wrap xlen ((s.get (rs1 w) : Int) - s.get (rs2 w))) := rfl
theorem exec_sll : exec xlen "sll" w s = wr xlen w s (s.get (rs1 w) * 2 ^ (s.get (rs2 w) % xlen)) := rfl
theorem exec_srl : exec xlen "srl" w s = wr xlen w s (s.get (rs1 w) / 2 ^ (s.get (rs2 w) % xlen)) := rfl
theorem exec_sra : exec xlen "sra" w s = wr xlen w s (sra xlen (s.get (rs1 w)) (s.get (rs2 w) % xlen)) := rfl
theorem exec_slt : exec xlen "slt" w s = wr xlen w s (if sx xlen (s.get (rs1 w)) < sx xlen (s.get (rs2 w)) then 1 else 0) := rfl
theorem exec_sltu : exec xlen "sltu" w s = wr xlen w s (if s.get (rs1 w) < s.get (rs2 w) then 1 else 0) := rfl
theorem exec_xor : exec xlen "xor" w s = wr xlen w s (s.get (rs1 w) ^^^ s.get (rs2 w)) := rfl
theorem exec_or : exec xlen "or" w s = wr xlen w s (s.get (rs1 w) ||| s.get (rs2 w)) := rfl
theorem exec_and : exec xlen "and" w s = wr xlen w s (s.get (rs1 w) &&& s.get (rs2 w)) := rfl
theorem exec_addiw : exec xlen "addiw" w s = w32 xlen w s (wrap 32 ((s.get (rs1 w) : Int) + immI w)) := rfl
theorem exec_slliw : exec xlen "slliw" w s = w32 xlen w s (s.get (rs1 w) % 2 ^ 32 * 2 ^ bits w 20 5) := rfl
theorem exec_srliw : exec xlen "srliw" w s = w32 xlen w s (s.get (rs1 w) % 2 ^ 32 / 2 ^ bits w 20 5) := rfl
theorem exec_sraiw : exec xlen "sraiw" w s = w32 xlen w s (sra 32 (s.get (rs1 w)) (bits w 20 5)) := rfl
theorem exec_addw : exec xlen "addw" w s = w32 xlen w s (s.get (rs1 w) + s.get (rs2 w)) := rfl
theorem exec_subw : exec xlen "subw" w s = w32 xlen w s (wrap 32 ((s.get (rs1 w) : Int) - s.get (rs2 w))) := rfl
theorem exec_sllw : exec xlen "sllw" w s = w32 xlen w s (s.get (rs1 w) % 2 ^ 32 * 2 ^ (s.get (rs2 w) % 32)) := rfl
theorem exec_srlw : exec xlen "srlw" w s = w32 xlen w s (s.get (rs1 w) % 2 ^ 32 / 2 ^ (s.get (rs2 w) % 32)) := rfl
theorem exec_sraw : exec xlen "sraw" w s = w32 xlen w s (sra 32 (s.get (rs1 w)) (s.get (rs2 w) % 32)) := rfl
theorem exec_fence : exec xlen "fence" w s = some (fall xlen s s) := rfl
theorem exec_fence_i : exec xlen "fence.i" w s = some (fall xlen s s) := rfl
theorem exec_ecall : exec xlen "ecall" w s = some (fall xlen s s) := rfl
theorem exec_ebreak : exec xlen "ebreak" w s = some (fall xlen s s) := rfl
theorem exec_csrrw : exec xlen "csrrw" w s = csrOp xlen w s (fun _ => s.get (rs1 w)) := rfl
theorem exec_csrrs : exec xlen "csrrs" w s = csrOp xlen w s (fun t => t ||| s.get (rs1 w)) := rfl
theorem exec_csrrc : exec xlen "csrrc" w s = csrOp xlen w s (fun t => t &&& (2 ^ xlen - 1 - s.get (rs1 w))) := rfl
theorem exec_csrrwi : exec xlen "csrrwi" w s = csrOp xlen w s (fun _ => zimm w) := rfl
theorem exec_csrrsi : exec xlen "csrrsi" w s = csrOp xlen w s (fun t => t ||| zimm w) := rfl
theorem exec_csrrci : exec xlen "csrrci" w s = csrOp xlen w s (fun t => t &&& (2 ^ xlen - 1 - zimm w)) := rfl
theorem exec_mul : exec xlen "mul" w s = wr xlen w s (s.get (rs1 w) * s.get (rs2 w)) := rfl
theorem exec_mulh : exec xlen "mulh" w s = wr xlen w s (wrap xlen (sx xlen (s.get (rs1 w)) * sx xlen (s.get (rs2 w)) / ((2 ^ xlen : Nat) : Int))) := rfl
theorem exec_mulhsu : exec xlen "mulhsu" w s = wr xlen w s (wrap xlen (sx xlen (s.get (rs1 w)) * (s.get (rs2 w) : Int) / ((2 ^ xlen : Nat) : Int))) := rfl
theorem exec_mulhu : exec xlen "mulhu" w s = wr xlen w s (s.get (rs1 w) * s.get (rs2 w) / 2 ^ xlen) := rfl
theorem exec_div : exec xlen "div" w s = wr xlen w s (sdiv xlen (s.get (rs1 w)) (s.get (rs2 w))) := rfl
theorem exec_divu : exec xlen "divu" w s = wr xlen w s (udiv xlen (s.get (rs1 w)) (s.get (rs2 w))) := rfl
theorem exec_rem : exec xlen "rem" w s = wr xlen w s (srem xlen (s.get (rs1 w)) (s.get (rs2 w))) := rfl
theorem exec_remu : exec xlen "remu" w s = wr xlen w s (urem xlen (s.get (rs1 w)) (s.get (rs2 w))) := rfl
theorem exec_mulw : exec xlen "mulw" w s = w32 xlen w s (s.get (rs1 w) * s.get (rs2 w)) := rfl
theorem exec_divw : exec xlen "divw" w s = w32 xlen w s (sdiv 32 (s.get (rs1 w)) (s.get (rs2 w))) := rfl
theorem exec_divuw : exec xlen "divuw" w s = w32 xlen w s (udiv 32 (s.get (rs1 w)) (s.get (rs2 w))) := rfl
theorem exec_remw : exec xlen "remw" w s = w32 xlen w s (srem 32 (s.get (rs1 w)) (s.get (rs2 w))) := rfl
theorem exec_remuw : exec xlen "remuw" w s = w32 xlen w s (urem 32 (s.get (rs1 w)) (s.get (rs2 w))) := rfl
theorem exec_lr_w : exec xlen "lr.w" w s = wr xlen w s (Spec.Rv.sext xlen 32 (s.load (s.get (rs1 w)) 4)) := rfl
theorem exec_lr_d : exec xlen "lr.d" w s = wr xlen w s (s.load (s.get (rs1 w)) 8) := rfl
theorem exec_sc_w : exec xlen "sc.w" w s = some (fall xlen s ((s.store (s.get (rs1 w)) (s.get (rs2 w)) 4).set (rd w) 0)) := rfl
theorem exec_sc_d : exec xlen "sc.d" w s = some (fall xlen s ((s.store (s.get (rs1 w)) (s.get (rs2 w)) 8).set (rd w) 0)) := rfl
theorem exec_amoswap_w : exec xlen "amoswap.w" w s = amo xlen w s 4 (fun _ q => q) := rfl
theorem exec_amoadd_w : exec xlen "amoadd.w" w s = amo xlen w s 4 (· + ·) := rfl
theorem exec_amoxor_w : exec xlen "amoxor.w" w s = amo xlen w s 4 (· ^^^ ·) := rfl
theorem exec_amoand_w : exec xlen "amoand.w" w s = amo xlen w s 4 (· &&& ·) := rfl
theorem exec_amoor_w : exec xlen "amoor.w" w s = amo xlen w s 4 (· ||| ·) := rfl
theorem exec_amomin_w : exec xlen "amomin.w" w s = amo xlen w s 4 (smin 32) := rfl
theorem exec_amomax_w : exec xlen "amomax.w" w s = amo xlen w s 4 (smax 32) := rfl
theorem exec_amominu_w : exec xlen "amominu.w" w s = amo xlen w s 4 min := rfl
theorem exec_amomaxu_w : exec xlen "amomaxu.w" w s = amo xlen w s 4 max := rfl
theorem exec_amoswap_d : exec xlen "amoswap.d" w s = amo xlen w s 8 (fun _ q => q) := rfl
theorem exec_amoadd_d : exec xlen "amoadd.d" w s = amo xlen w s 8 (· + ·) := rfl
theorem exec_amoxor_d : exec xlen "amoxor.d" w s = amo xlen w s 8 (· ^^^ ·) := rfl
theorem exec_amoand_d : exec xlen "amoand.d" w s = amo xlen w s 8 (· &&& ·) := rfl
theorem exec_amoor_d : exec xlen "amoor.d" w s = amo xlen w s 8 (· ||| ·) := rfl
theorem exec_amomin_d : exec xlen "amomin.d" w s = amo xlen w s 8 (smin 64) := rfl
theorem exec_amomax_d : exec xlen "amomax.d" w s = amo xlen w s 8 (smax 64) := rfl
theorem exec_amominu_d : exec xlen "amominu.d" w s = amo xlen w s 8 min := rfl
theorem exec_amomaxu_d : exec xlen "amomaxu.d" w s = amo xlen w s 8 max := rfl

/-- the shift-immediate instructions with `shamt` resolved (`shamt 32 w = bits w 20 5` by `rfl`) -/
theorem exec_slli32 : exec 32 "slli" w s = wr 32 w s (s.get (rs1 w) * 2 ^ bits w 20 5) := rfl
theorem exec_srli32 : exec 32 "srli" w s = wr 32 w s (s.get (rs1 w) / 2 ^ bits w 20 5) := rfl
theorem exec_srai32 : exec 32 "srai" w s = wr 32 w s (sra 32 (s.get (rs1 w)) (bits w 20 5)) := rfl
theorem exec_slli64 : exec 64 "slli" w s = wr 64 w s (s.get (rs1 w) * 2 ^ bits w 20 6) := rfl
theorem exec_srli64 : exec 64 "srli" w s = wr 64 w s (s.get (rs1 w) / 2 ^ bits w 20 6) := rfl
theorem exec_srai64 : exec 64 "srai" w s = wr 64 w s (sra 64 (s.get (rs1 w)) (bits w 20 6)) := rfl

/-! ### `noWrap`, one equation per memory-accessing mnemonic (`true` for all others), and its
consequence `le_of_noWrap_<mnemonic>` in the form the evaluation lemmas want -/

theorem noWrap_lb : noWrap xlen "lb" w s = decide (ldAddr xlen w s + 1 ≤ 2 ^ xlen) := rfl
theorem le_of_noWrap_lb (h : noWrap xlen "lb" w s = true) : ldAddr xlen w s + 1 ≤ 2 ^ xlen :=
  of_decide_eq_true ((noWrap_lb xlen w s).symm.trans h)
theorem noWrap_lbu : noWrap xlen "lbu" w s = decide (ldAddr xlen w s + 1 ≤ 2 ^ xlen) := rfl
theorem le_of_noWrap_lbu (h : noWrap xlen "lbu" w s = true) : ldAddr xlen w s + 1 ≤ 2 ^ xlen :=
  of_decide_eq_true ((noWrap_lbu xlen w s).symm.trans h)
theorem noWrap_lh : noWrap xlen "lh" w s = decide (ldAddr xlen w s + 2 ≤ 2 ^ xlen) := rfl
theorem le_of_noWrap_lh (h : noWrap xlen "lh" w s = true) : ldAddr xlen w s + 2 ≤ 2 ^ xlen :=
  of_decide_eq_true ((noWrap_lh xlen w s).symm.trans h)
theorem noWrap_lhu : noWrap xlen "lhu" w s = decide (ldAddr xlen w s + 2 ≤ 2 ^ xlen) := rfl
theorem le_of_noWrap_lhu (h : noWrap xlen "lhu" w s = true) : ldAddr xlen w s + 2 ≤ 2 ^ xlen :=
  of_decide_eq_true ((noWrap_lhu xlen w s).symm.trans h)
theorem noWrap_lw : noWrap xlen "lw" w s = decide (ldAddr xlen w s + 4 ≤ 2 ^ xlen) := rfl
theorem le_of_noWrap_lw (h : noWrap xlen "lw" w s = true) : ldAddr xlen w s + 4 ≤ 2 ^ xlen :=
  of_decide_eq_true ((noWrap_lw xlen w s).symm.trans h)
theorem noWrap_lwu : noWrap xlen "lwu" w s = decide (ldAddr xlen w s + 4 ≤ 2 ^ xlen) := rfl
theorem le_of_noWrap_lwu (h : noWrap xlen "lwu" w s = true) : ldAddr xlen w s + 4 ≤ 2 ^ xlen :=
  of_decide_eq_true ((noWrap_lwu xlen w s).symm.trans h)
theorem noWrap_ld : noWrap xlen "ld" w s = decide (ldAddr xlen w s + 8 ≤ 2 ^ xlen) := rfl
theorem le_of_noWrap_ld (h : noWrap xlen "ld" w s = true) : ldAddr xlen w s + 8 ≤ 2 ^ xlen :=
  of_decide_eq_true ((noWrap_ld xlen w s).symm.trans h)
theorem noWrap_sb : noWrap xlen "sb" w s = decide (stAddr xlen w s + 1 ≤ 2 ^ xlen) := rfl
theorem le_of_noWrap_sb (h : noWrap xlen "sb" w s = true) : stAddr xlen w s + 1 ≤ 2 ^ xlen :=
  of_decide_eq_true ((noWrap_sb xlen w s).symm.trans h)
theorem noWrap_sh : noWrap xlen "sh" w s = decide (stAddr xlen w s + 2 ≤ 2 ^ xlen) := rfl
theorem le_of_noWrap_sh (h : noWrap xlen "sh" w s = true) : stAddr xlen w s + 2 ≤ 2 ^ xlen :=
  of_decide_eq_true ((noWrap_sh xlen w s).symm.trans h)
theorem noWrap_sw : noWrap xlen "sw" w s = decide (stAddr xlen w s + 4 ≤ 2 ^ xlen) := rfl
theorem le_of_noWrap_sw (h : noWrap xlen "sw" w s = true) : stAddr xlen w s + 4 ≤ 2 ^ xlen :=
  of_decide_eq_true ((noWrap_sw xlen w s).symm.trans h)
theorem noWrap_sd : noWrap xlen "sd" w s = decide (stAddr xlen w s + 8 ≤ 2 ^ xlen) := rfl
theorem le_of_noWrap_sd (h : noWrap xlen "sd" w s = true) : stAddr xlen w s + 8 ≤ 2 ^ xlen :=
  of_decide_eq_true ((noWrap_sd xlen w s).symm.trans h)
theorem noWrap_lr_w : noWrap xlen "lr.w" w s = decide (s.get (rs1 w) + 4 ≤ 2 ^ xlen) := rfl
theorem le_of_noWrap_lr_w (h : noWrap xlen "lr.w" w s = true) : s.get (rs1 w) + 4 ≤ 2 ^ xlen :=
  of_decide_eq_true ((noWrap_lr_w xlen w s).symm.trans h)
theorem noWrap_sc_w : noWrap xlen "sc.w" w s = decide (s.get (rs1 w) + 4 ≤ 2 ^ xlen) := rfl
theorem le_of_noWrap_sc_w (h : noWrap xlen "sc.w" w s = true) : s.get (rs1 w) + 4 ≤ 2 ^ xlen :=
  of_decide_eq_true ((noWrap_sc_w xlen w s).symm.trans h)
theorem noWrap_amoswap_w : noWrap xlen "amoswap.w" w s = decide (s.get (rs1 w) + 4 ≤ 2 ^ xlen) := rfl
theorem le_of_noWrap_amoswap_w (h : noWrap xlen "amoswap.w" w s = true) : s.get (rs1 w) + 4 ≤ 2 ^ xlen :=
  of_decide_eq_true ((noWrap_amoswap_w xlen w s).symm.trans h)
theorem noWrap_amoadd_w : noWrap xlen "amoadd.w" w s = decide (s.get (rs1 w) + 4 ≤ 2 ^ xlen) := rfl
theorem le_of_noWrap_amoadd_w (h : noWrap xlen "amoadd.w" w s = true) : s.get (rs1 w) + 4 ≤ 2 ^ xlen :=
  of_decide_eq_true ((noWrap_amoadd_w xlen w s).symm.trans h)
theorem noWrap_amoxor_w : noWrap xlen "amoxor.w" w s = decide (s.get (rs1 w) + 4 ≤ 2 ^ xlen) := rfl
theorem le_of_noWrap_amoxor_w (h : noWrap xlen "amoxor.w" w s = true) : s.get (rs1 w) + 4 ≤ 2 ^ xlen :=
  of_decide_eq_true ((noWrap_amoxor_w xlen w s).symm.trans h)
theorem noWrap_amoand_w : noWrap xlen "amoand.w" w s = decide (s.get (rs1 w) + 4 ≤ 2 ^ xlen) := rfl
theorem le_of_noWrap_amoand_w (h : noWrap xlen "amoand.w" w s = true) : s.get (rs1 w) + 4 ≤ 2 ^ xlen :=
  of_decide_eq_true ((noWrap_amoand_w xlen w s).symm.trans h)
theorem noWrap_amoor_w : noWrap xlen "amoor.w" w s = decide (s.get (rs1 w) + 4 ≤ 2 ^ xlen) := rfl
theorem le_of_noWrap_amoor_w (h : noWrap xlen "amoor.w" w s = true) : s.get (rs1 w) + 4 ≤ 2 ^ xlen :=
  of_decide_eq_true ((noWrap_amoor_w xlen w s).symm.trans h)
theorem noWrap_amomin_w : noWrap xlen "amomin.w" w s = decide (s.get (rs1 w) + 4 ≤ 2 ^ xlen) := rfl
theorem le_of_noWrap_amomin_w (h : noWrap xlen "amomin.w" w s = true) : s.get (rs1 w) + 4 ≤ 2 ^ xlen :=
  of_decide_eq_true ((noWrap_amomin_w xlen w s).symm.trans h)
theorem noWrap_amomax_w : noWrap xlen "amomax.w" w s = decide (s.get (rs1 w) + 4 ≤ 2 ^ xlen) := rfl
theorem le_of_noWrap_amomax_w (h : noWrap xlen "amomax.w" w s = true) : s.get (rs1 w) + 4 ≤ 2 ^ xlen :=
  of_decide_eq_true ((noWrap_amomax_w xlen w s).symm.trans h)
theorem noWrap_amominu_w : noWrap xlen "amominu.w" w s = decide (s.get (rs1 w) + 4 ≤ 2 ^ xlen) := rfl
theorem le_of_noWrap_amominu_w (h : noWrap xlen "amominu.w" w s = true) : s.get (rs1 w) + 4 ≤ 2 ^ xlen :=
  of_decide_eq_true ((noWrap_amominu_w xlen w s).symm.trans h)
theorem noWrap_amomaxu_w : noWrap xlen "amomaxu.w" w s = decide (s.get (rs1 w) + 4 ≤ 2 ^ xlen) := rfl
theorem le_of_noWrap_amomaxu_w (h : noWrap xlen "amomaxu.w" w s = true) : s.get (rs1 w) + 4 ≤ 2 ^ xlen :=
  of_decide_eq_true ((noWrap_amomaxu_w xlen w s).symm.trans h)
theorem noWrap_lr_d : noWrap xlen "lr.d" w s = decide (s.get (rs1 w) + 8 ≤ 2 ^ xlen) := rfl
theorem le_of_noWrap_lr_d (h : noWrap xlen "lr.d" w s = true) : s.get (rs1 w) + 8 ≤ 2 ^ xlen :=
  of_decide_eq_true ((noWrap_lr_d xlen w s).symm.trans h)
theorem noWrap_sc_d : noWrap xlen "sc.d" w s = decide (s.get (rs1 w) + 8 ≤ 2 ^ xlen) := rfl
theorem le_of_noWrap_sc_d (h : noWrap xlen "sc.d" w s = true) : s.get (rs1 w) + 8 ≤ 2 ^ xlen :=
  of_decide_eq_true ((noWrap_sc_d xlen w s).symm.trans h)
theorem noWrap_amoswap_d : noWrap xlen "amoswap.d" w s = decide (s.get (rs1 w) + 8 ≤ 2 ^ xlen) := rfl
theorem le_of_noWrap_amoswap_d (h : noWrap xlen "amoswap.d" w s = true) : s.get (rs1 w) + 8 ≤ 2 ^ xlen :=
  of_decide_eq_true ((noWrap_amoswap_d xlen w s).symm.trans h)
theorem noWrap_amoadd_d : noWrap xlen "amoadd.d" w s = decide (s.get (rs1 w) + 8 ≤ 2 ^ xlen) := rfl
theorem le_of_noWrap_amoadd_d (h : noWrap xlen "amoadd.d" w s = true) : s.get (rs1 w) + 8 ≤ 2 ^ xlen :=
  of_decide_eq_true ((noWrap_amoadd_d xlen w s).symm.trans h)
theorem noWrap_amoxor_d : noWrap xlen "amoxor.d" w s = decide (s.get (rs1 w) + 8 ≤ 2 ^ xlen) := rfl
theorem le_of_noWrap_amoxor_d (h : noWrap xlen "amoxor.d" w s = true) : s.get (rs1 w) + 8 ≤ 2 ^ xlen :=
  of_decide_eq_true ((noWrap_amoxor_d xlen w s).symm.trans h)
theorem noWrap_amoand_d : noWrap xlen "amoand.d" w s = decide (s.get (rs1 w) + 8 ≤ 2 ^ xlen) := rfl
theorem le_of_noWrap_amoand_d (h : noWrap xlen "amoand.d" w s = true) : s.get (rs1 w) + 8 ≤ 2 ^ xlen :=
  of_decide_eq_true ((noWrap_amoand_d xlen w s).symm.trans h)
theorem noWrap_amoor_d : noWrap xlen "amoor.d" w s = decide (s.get (rs1 w) + 8 ≤ 2 ^ xlen) := rfl
theorem le_of_noWrap_amoor_d (h : noWrap xlen "amoor.d" w s = true) : s.get (rs1 w) + 8 ≤ 2 ^ xlen :=
  of_decide_eq_true ((noWrap_amoor_d xlen w s).symm.trans h)
theorem noWrap_amomin_d : noWrap xlen "amomin.d" w s = decide (s.get (rs1 w) + 8 ≤ 2 ^ xlen) := rfl
theorem le_of_noWrap_amomin_d (h : noWrap xlen "amomin.d" w s = true) : s.get (rs1 w) + 8 ≤ 2 ^ xlen :=
  of_decide_eq_true ((noWrap_amomin_d xlen w s).symm.trans h)
theorem noWrap_amomax_d : noWrap xlen "amomax.d" w s = decide (s.get (rs1 w) + 8 ≤ 2 ^ xlen) := rfl
theorem le_of_noWrap_amomax_d (h : noWrap xlen "amomax.d" w s = true) : s.get (rs1 w) + 8 ≤ 2 ^ xlen :=
  of_decide_eq_true ((noWrap_amomax_d xlen w s).symm.trans h)
theorem noWrap_amominu_d : noWrap xlen "amominu.d" w s = decide (s.get (rs1 w) + 8 ≤ 2 ^ xlen) := rfl
theorem le_of_noWrap_amominu_d (h : noWrap xlen "amominu.d" w s = true) : s.get (rs1 w) + 8 ≤ 2 ^ xlen :=
  of_decide_eq_true ((noWrap_amominu_d xlen w s).symm.trans h)
theorem noWrap_amomaxu_d : noWrap xlen "amomaxu.d" w s = decide (s.get (rs1 w) + 8 ≤ 2 ^ xlen) := rfl
theorem le_of_noWrap_amomaxu_d (h : noWrap xlen "amomaxu.d" w s = true) : s.get (rs1 w) + 8 ≤ 2 ^ xlen :=
  of_decide_eq_true ((noWrap_amomaxu_d xlen w s).symm.trans h)

end

end Mltwist.Lemmas.RiscvLift
