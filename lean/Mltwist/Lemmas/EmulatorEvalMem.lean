import Mltwist.Lemmas.EmulatorMem
/-
Emulator (C03, C04), part 6: the memory phase of evaluation (`evalMemoryFully`).  On an expression
without register loads it never panics: it succeeds when every load it performs lies in the domain of C14, and is
stopped by `checkAccess` (REPAIR F45) at the first load that does not (`evalMem_total`); on success its
result is the expression with every memory load replaced, bottom-up, by the constant the FINAL byte maps
hold for it; the state evolves by memory fills only; the report notes exactly the loads performed.
-/
namespace Mltwist.Lemmas.Emulator
open Mltwist Mltwist.State Mltwist.Overlay Mltwist.Emulator Mltwist.Spec.Overlay Mltwist.Interval
open Mltwist.Lemmas.State (Good)

/-- a fixed valuation for evaluating closed expressions and constant bytes -/
def ρ0 : Env := ⟨fun _ => 0, fun _ _ => 0⟩

/-- one byte map per address space -/
abbrev AMap := String → AbsMem

/-- the byte maps of a state -/
def absOf (s : State) : AMap := fun key => s.mems.abs key

/-- extension of byte maps: what was present stays, with the same value -/
def AExt (A A' : AMap) : Prop := ∀ key x b, A key x = some b → A' key x = some b

theorem AExt.refl (A : AMap) : AExt A A := fun _ _ _ h => h
theorem AExt.trans {A B C : AMap} (h1 : AExt A B) (h2 : AExt B C) : AExt A C :=
  fun k x b h => h2 k x b (h1 k x b h)

theorem aext_of_fill {p : Provider} {s s' : State} {l : List Req} (hf : Fill p s l s') (h : Inv s) :
    AExt (absOf s) (absOf s') := hf.mext h

/-- the constant a load of `w` bytes at `addr` yields -/
def loadConst (A : AMap) (key : String) (addr w : Nat) : List UInt8 := natToLE w (loadVal ρ0 (A key) addr w)

/-- every memory load replaced, bottom-up, by the constant the byte maps hold -/
def substMem (A : AMap) : Expr → Expr
  | .const bs => .const bs
  | .regLoad k w => .regLoad k w
  | .binary op a b w => .binary op (substMem A a) (substMem A b) w
  | .less a b t f w => .less (substMem A a) (substMem A b) (substMem A t) (substMem A f) w
  | .memLoad key a w => .const (loadConst A key ((substMem A a).eval ρ0 % 2 ^ 64) w)

/-- the address a memory load reads from -/
def loadAddr (A : AMap) (a : Expr) : Nat := (substMem A a).eval ρ0 % 2 ^ 64

/-- every load of the expression lies in the domain of C14 and every byte it reads is present -/
def MemsIn (A : AMap) : Expr → Prop
  | .const _ => True
  | .regLoad _ _ => True
  | .binary _ a b _ => MemsIn A a ∧ MemsIn A b
  | .less a b t f _ => MemsIn A a ∧ MemsIn A b ∧ MemsIn A t ∧ MemsIn A f
  | .memLoad key a w => MemsIn A a ∧ InDom (loadAddr A a) w ∧ ∀ i, i < w → A key (loadAddr A a + i) ≠ none

/-- the loads performed, in the order `ReplaceAll` visits them, with the values read -/
def memReads (A : AMap) : Expr → List MemAccess
  | .const _ => []
  | .regLoad _ _ => []
  | .binary _ a b _ => memReads A a ++ memReads A b
  | .less a b t f _ => memReads A a ++ memReads A b ++ memReads A t ++ memReads A f
  | .memLoad key a w => memReads A a ++ [⟨key, loadAddr A a, loadConst A key (loadAddr A a) w⟩]

def noteLoads (r : Report) (l : List MemAccess) : Report := { r with memLoads := r.memLoads ++ l }

theorem noteLoads_append (r : Report) (l1 l2 : List MemAccess) :
    noteLoads r (l1 ++ l2) = noteLoads (noteLoads r l1) l2 := by
  simp [noteLoads, List.append_assoc]

theorem noteLoads_nil (r : Report) : noteLoads r [] = r := by simp [noteLoads]

theorem loadConst_ext {A A' : AMap} (he : AExt A A') {key : String} {addr w : Nat}
    (h : ∀ i, i < w → A key (addr + i) ≠ none) : loadConst A' key addr w = loadConst A key addr w := by
  unfold loadConst
  congr 1
  apply Lemmas.Overlay.loadVal_congr
  intro i hi
  cases hx : A key (addr + i) with
  | none => exact absurd hx (h i hi)
  | some b => exact he key _ b hx

theorem substMem_ext {A A' : AMap} (he : AExt A A') : ∀ e : Expr, MemsIn A e →
    substMem A' e = substMem A e ∧ MemsIn A' e ∧ memReads A' e = memReads A e
  | .const _, _ => ⟨rfl, trivial, rfl⟩
  | .regLoad _ _, _ => ⟨rfl, trivial, rfl⟩
  | .binary op a b w, h => by
    obtain ⟨a1, a2, a3⟩ := substMem_ext he a h.1
    obtain ⟨b1, b2, b3⟩ := substMem_ext he b h.2
    exact ⟨by simp only [substMem, a1, b1], ⟨a2, b2⟩, by simp only [memReads, a3, b3]⟩
  | .less a b t f w, h => by
    obtain ⟨a1, a2, a3⟩ := substMem_ext he a h.1
    obtain ⟨b1, b2, b3⟩ := substMem_ext he b h.2.1
    obtain ⟨t1, t2, t3⟩ := substMem_ext he t h.2.2.1
    obtain ⟨f1, f2, f3⟩ := substMem_ext he f h.2.2.2
    exact ⟨by simp only [substMem, a1, b1, t1, f1], ⟨a2, b2, t2, f2⟩, by simp only [memReads, a3, b3, t3, f3]⟩
  | .memLoad key a w, h => by
    obtain ⟨a1, a2, a3⟩ := substMem_ext he a h.1
    have haddr : loadAddr A' a = loadAddr A a := by unfold loadAddr; rw [a1]
    have hlc := loadConst_ext he h.2.2
    refine ⟨?_, ⟨a2, by rw [haddr]; exact h.2.1, ?_⟩, ?_⟩
    · simp only [substMem]
      have : (substMem A' a).eval ρ0 % 2 ^ 64 = loadAddr A a := haddr
      rw [this]
      exact congrArg Expr.const hlc
    · intro i hi
      rw [haddr]
      cases hx : A key (loadAddr A a + i) with
      | none => exact absurd hx (h.2.2 i hi)
      | some b => rw [he key _ b hx]; simp
    · simp only [memReads, a3, haddr, hlc]

/-! ### shapes -/

theorem regLoads_binary {op : BinOp} {a b : Expr} {w : Nat} (h : regLoads (.binary op a b w) = []) :
    regLoads a = [] ∧ regLoads b = [] := by
  simpa [regLoads] using h

theorem substMem_shape (A : AMap) : ∀ e : Expr, regLoads e = [] → e.wf = true → Shape (substMem A e)
  | .const bs, _, hw => ⟨rfl, hw⟩
  | .regLoad k w, hr, _ => by simp [regLoads] at hr
  | .binary op a b w, hr, hw => by
    simp only [regLoads, List.append_eq_nil_iff] at hr
    simp only [Expr.wf, Bool.and_eq_true, decide_eq_true_eq] at hw
    exact shape_binary (substMem_shape A a hr.1 hw.1.2) (substMem_shape A b hr.2 hw.2) op hw.1.1.1 hw.1.1.2
  | .less a b t f w, hr, hw => by
    simp only [regLoads, List.append_eq_nil_iff] at hr
    simp only [Expr.wf, Bool.and_eq_true, decide_eq_true_eq] at hw
    have sa := substMem_shape A a hr.1.1.1 hw.1.1.1.2
    have sb := substMem_shape A b hr.1.1.2 hw.1.1.2
    have st := substMem_shape A t hr.1.2 hw.1.2
    have sf := substMem_shape A f hr.2 hw.2
    simp [Shape, substMem, Expr.closed, Expr.wf, sa.1, sa.2, sb.1, sb.2, st.1, st.2, sf.1, sf.2,
      hw.1.1.1.1.1, hw.1.1.1.1.2]
  | .memLoad key a w, _, hw => by
    simp only [Expr.wf, Bool.and_eq_true, decide_eq_true_eq] at hw
    simp only [substMem, loadConst]
    exact shape_const (by rw [Lemmas.Const.natToLE_length]; exact hw.1.1)
      (by rw [Lemmas.Const.natToLE_length]; exact hw.1.2)

/-! ### the domain condition -/

/-- every load the memory phase performs on `e` from the context `c` lies in the domain of C14 -/
def EvalMemDom (p : Provider) : Expr → Ctx → Prop
  | .const _, _ => True
  | .regLoad _ _, _ => True
  | .binary _ a b _, c => EvalMemDom p a c ∧ ∀ a' c1, evalMem p a c = .ok (a', c1) → EvalMemDom p b c1
  | .less a b t f _, c => EvalMemDom p a c ∧ ∀ a' c1, evalMem p a c = .ok (a', c1) →
      (EvalMemDom p b c1 ∧ ∀ b' c2, evalMem p b c1 = .ok (b', c2) →
        (EvalMemDom p t c2 ∧ ∀ t' c3, evalMem p t c2 = .ok (t', c3) → EvalMemDom p f c3))
  | .memLoad _ a w, c => EvalMemDom p a c ∧ ∀ a' c1, evalMem p a c = .ok (a', c1) →
      ∀ ab, constFold a' = .const ab → InDom (Const.constUint 8 ab).1 w

/-- what the memory phase guarantees -/
structure MemOut (p : Provider) (e : Expr) (c c' : Ctx) : Prop where
  log : ∃ l, c'.log = c.log ++ l ∧ Fill p c.st l c'.st ∧ ∀ r ∈ l, ∃ k a w, r = Req.mem k a w
  regs : c'.st.regs = c.st.regs
  inv : Inv c'.st
  memsIn : MemsIn (absOf c'.st) e
  rep : c'.rep = noteLoads c.rep (memReads (absOf c'.st) e)

/-- what an evaluation stopped by `checkAccess` (REPAIR F45) guarantees: the context at that moment results from the
context at the begin by provider fills only (each for state unknown at its moment), the invariant holds, and the
access `[a, a+w)` that stopped it does not fit the address space -/
structure AccStop (p : Provider) (c c' : Ctx) (a w : Nat) : Prop where
  log : ∃ l, c'.log = c.log ++ l ∧ Fill p c.st l c'.st
  inv : Inv c'.st
  bad : 2 ^ 64 ≤ a + w

theorem AccStop.here {p : Provider} {c : Ctx} {a w : Nat} (hi : Inv c.st) (h : 2 ^ 64 ≤ a + w) :
    AccStop p c c a w := ⟨⟨[], by simp, Fill.nil _⟩, hi, h⟩

theorem AccStop.after {p : Provider} {c c1 c' : Ctx} {a w : Nat} {l1 : List Req} (hl : c1.log = c.log ++ l1)
    (hf : Fill p c.st l1 c1.st) (h : AccStop p c1 c' a w) : AccStop p c c' a w := by
  obtain ⟨l2, h1, h2⟩ := h.log
  exact ⟨⟨l1 ++ l2, by rw [h1, hl, List.append_assoc], hf.append h2⟩, h.inv, h.bad⟩

/-- the memory phase on ANY well-formed expression without register loads never panics: it succeeds (with
everything `MemOut` says), or `checkAccess` stops it at a load whose range does not fit the address space — which
is exactly what the domain condition `EvalMemDom` excludes -/
theorem evalMem_total (p : Provider) : ∀ (e : Expr) (c : Ctx), Inv c.st → regLoads e = [] → e.wf = true →
    (∃ c', evalMem p e c = .ok (substMem (absOf c'.st) e, c') ∧ MemOut p e c c') ∨
    (∃ c' a w, evalMem p e c = .error (.access c' a w) ∧ AccStop p c c' a w ∧ ¬ EvalMemDom p e c)
  | .const bs, c, hi, _, _ =>
    Or.inl ⟨c, rfl, ⟨⟨[], by simp, Fill.nil _, fun _ h => (nomatch h)⟩, rfl, hi, trivial, by simp [memReads, noteLoads]⟩⟩
  | .regLoad k w, c, _, hr, _ => by simp [regLoads] at hr
  | .memLoad key a w, c, hi, hr, hw => by
    simp only [Expr.wf, Bool.and_eq_true, decide_eq_true_eq] at hw
    rcases evalMem_total p a c hi hr hw.2 with ⟨c1, h1, o1⟩ | ⟨c1, a0, w0, h1, s1, hnd⟩
    rotate_left
    · exact Or.inr ⟨c1, a0, w0, by simp only [evalMem, h1], s1, fun hd => hnd hd.1⟩
    -- the address
    have hsh := substMem_shape (absOf c1.st) a hr hw.2
    obtain ⟨ab, _, hcf, _, hval⟩ := foldConst_shape hsh
    have haddr : (Const.constUint 8 ab).1 = loadAddr (absOf c1.st) a := by
      rw [Lemmas.State.constUint8, hval ρ0]; rfl
    have hlt : loadAddr (absOf c1.st) a < 2 ^ 64 := Nat.mod_lt _ (by decide)
    obtain ⟨l1, hl1, hf1, hq1⟩ := o1.log
    rcases memValue_total p c1 key (loadAddr (absOf c1.st) a) w o1.inv hlt hw.1 with
      ⟨hdom, v, c2, h2, o2⟩ | ⟨hbad, h2⟩
    rotate_left
    · refine Or.inr ⟨c1, loadAddr (absOf c1.st) a, w, by simp only [evalMem, h1, hcf, haddr, h2],
        AccStop.after hl1 hf1 (AccStop.here o1.inv hbad), fun hd => ?_⟩
      have := hd.2 _ c1 h1 ab hcf
      rw [haddr] at this
      have := this.2.2
      omega
    obtain ⟨l2, hl2, hf2, hq2⟩ := o2.log
    have he : AExt (absOf c1.st) (absOf c2.st) := aext_of_fill hf2 o1.inv
    obtain ⟨e1, e2, e3⟩ := substMem_ext he a o1.memsIn
    have haddr2 : loadAddr (absOf c2.st) a = loadAddr (absOf c1.st) a := by unfold loadAddr; rw [e1]
    have hv : v = loadConst (absOf c2.st) key (loadAddr (absOf c1.st) a) w := by
      unfold loadConst
      have := o2.value ρ0
      show v = natToLE w (loadVal ρ0 (c2.st.mems.abs key) _ w)
      rw [← this, ← o2.len, Lemmas.Const.natToLE_leToNat]
    refine Or.inl ⟨{ c2 with rep := c2.rep.memRead key (loadAddr (absOf c1.st) a) v }, ?_, ?_⟩
    · simp only [evalMem, h1, hcf, haddr, h2, substMem]
      rw [e1, hv]
      rfl
    · refine ⟨⟨l1 ++ l2, by rw [hl2, hl1, List.append_assoc], hf1.append hf2, ?_⟩, o2.regs.trans o1.regs,
        o2.inv, ⟨e2, by rw [haddr2]; exact hdom, ?_⟩, ?_⟩
      · intro r hr'
        rcases List.mem_append.1 hr' with h | h
        · exact hq1 r h
        · obtain ⟨a', w', e, _⟩ := hq2 r h
          exact ⟨key, a', w', e⟩
      · intro i hi'
        show c2.st.mems.abs key (loadAddr (absOf c2.st) a + i) ≠ none
        rw [haddr2]
        exact o2.present i hi'
      · show Report.memRead c2.rep key _ v = noteLoads c.rep (memReads (absOf c2.st) (.memLoad key a w))
        rw [o2.rep, o1.rep]
        simp only [memReads, noteLoads_append, e3, haddr2, ← hv]
        rfl
  | .binary op a b w, c, hi, hr, hw => by
    simp only [regLoads, List.append_eq_nil_iff] at hr
    simp only [Expr.wf, Bool.and_eq_true, decide_eq_true_eq] at hw
    rcases evalMem_total p a c hi hr.1 hw.1.2 with ⟨c1, h1, o1⟩ | ⟨c1, a0, w0, h1, s1, hnd⟩
    rotate_left
    · exact Or.inr ⟨c1, a0, w0, by simp only [evalMem, h1], s1, fun hd => hnd hd.1⟩
    obtain ⟨l1, hl1, hf1, hq1⟩ := o1.log
    rcases evalMem_total p b c1 o1.inv hr.2 hw.2 with ⟨c2, h2, o2⟩ | ⟨c2, a0, w0, h2, s2, hnd⟩
    rotate_left
    · exact Or.inr ⟨c2, a0, w0, by simp only [evalMem, h1, h2], AccStop.after hl1 hf1 s2,
        fun hd => hnd (hd.2 _ c1 h1)⟩
    obtain ⟨l2, hl2, hf2, hq2⟩ := o2.log
    have he : AExt (absOf c1.st) (absOf c2.st) := aext_of_fill hf2 o1.inv
    obtain ⟨e1, e2, e3⟩ := substMem_ext he a o1.memsIn
    refine Or.inl ⟨c2, ?_, ?_⟩
    · simp only [evalMem, h1, h2, substMem, e1]
    · refine ⟨⟨l1 ++ l2, by rw [hl2, hl1, List.append_assoc], hf1.append hf2, ?_⟩, o2.regs.trans o1.regs,
        o2.inv, ⟨e2, o2.memsIn⟩, ?_⟩
      · intro r hr'
        rcases List.mem_append.1 hr' with h | h
        · exact hq1 r h
        · exact hq2 r h
      · rw [o2.rep, o1.rep]
        simp only [memReads, noteLoads_append, e3]
  | .less a b t f w, c, hi, hr, hw => by
    simp only [regLoads, List.append_eq_nil_iff] at hr
    simp only [Expr.wf, Bool.and_eq_true, decide_eq_true_eq] at hw
    rcases evalMem_total p a c hi hr.1.1.1 hw.1.1.1.2 with ⟨c1, h1, o1⟩ | ⟨c1, a0, w0, h1, s1, hnd⟩
    rotate_left
    · exact Or.inr ⟨c1, a0, w0, by simp only [evalMem, h1], s1, fun hd => hnd hd.1⟩
    obtain ⟨l1, hl1, hf1, hq1⟩ := o1.log
    rcases evalMem_total p b c1 o1.inv hr.1.1.2 hw.1.1.2 with ⟨c2, h2, o2⟩ | ⟨c2, a0, w0, h2, s2, hnd⟩
    rotate_left
    · exact Or.inr ⟨c2, a0, w0, by simp only [evalMem, h1, h2], AccStop.after hl1 hf1 s2,
        fun hd => hnd (hd.2 _ c1 h1).1⟩
    obtain ⟨l2, hl2, hf2, hq2⟩ := o2.log
    have hl12 : c2.log = c.log ++ (l1 ++ l2) := by rw [hl2, hl1, List.append_assoc]
    rcases evalMem_total p t c2 o2.inv hr.1.2 hw.1.2 with ⟨c3, h3, o3⟩ | ⟨c3, a0, w0, h3, s3, hnd⟩
    rotate_left
    · exact Or.inr ⟨c3, a0, w0, by simp only [evalMem, h1, h2, h3], AccStop.after hl12 (hf1.append hf2) s3,
        fun hd => hnd ((hd.2 _ c1 h1).2 _ c2 h2).1⟩
    obtain ⟨l3, hl3, hf3, hq3⟩ := o3.log
    have hl123 : c3.log = c.log ++ (l1 ++ l2 ++ l3) := by rw [hl3, hl12, List.append_assoc]
    rcases evalMem_total p f c3 o3.inv hr.2 hw.2 with ⟨c4, h4, o4⟩ | ⟨c4, a0, w0, h4, s4, hnd⟩
    rotate_left
    · exact Or.inr ⟨c4, a0, w0, by simp only [evalMem, h1, h2, h3, h4],
        AccStop.after hl123 ((hf1.append hf2).append hf3) s4,
        fun hd => hnd (((hd.2 _ c1 h1).2 _ c2 h2).2 _ c3 h3)⟩
    obtain ⟨l4, hl4, hf4, hq4⟩ := o4.log
    have e12 : AExt (absOf c1.st) (absOf c2.st) := aext_of_fill hf2 o1.inv
    have e23 : AExt (absOf c2.st) (absOf c3.st) := aext_of_fill hf3 o2.inv
    have e34 : AExt (absOf c3.st) (absOf c4.st) := aext_of_fill hf4 o3.inv
    obtain ⟨a1, a2, a3⟩ := substMem_ext ((e12.trans e23).trans e34) a o1.memsIn
    obtain ⟨b1, b2, b3⟩ := substMem_ext (e23.trans e34) b o2.memsIn
    obtain ⟨t1, t2, t3⟩ := substMem_ext e34 t o3.memsIn
    refine Or.inl ⟨c4, ?_, ?_⟩
    · simp only [evalMem, h1, h2, h3, h4, substMem, a1, b1, t1]
    · refine ⟨⟨l1 ++ l2 ++ l3 ++ l4, by rw [hl4, hl3, hl2, hl1]; simp [List.append_assoc],
          ((hf1.append hf2).append hf3).append hf4, ?_⟩,
        ((o4.regs.trans o3.regs).trans o2.regs).trans o1.regs, o4.inv, ⟨a2, b2, t2, o4.memsIn⟩, ?_⟩
      · intro r hr'
        simp only [List.mem_append] at hr'
        rcases hr' with ((h | h) | h) | h
        · exact hq1 r h
        · exact hq2 r h
        · exact hq3 r h
        · exact hq4 r h
      · rw [o4.rep, o3.rep, o2.rep, o1.rep]
        simp only [memReads, noteLoads_append, a3, b3, t3]

/-- … in particular, when every load lies in the domain of C14, it succeeds -/
theorem evalMem_spec (p : Provider) (e : Expr) (c : Ctx) (hi : Inv c.st) (hr : regLoads e = []) (hw : e.wf = true)
    (hd : EvalMemDom p e c) : ∃ c', evalMem p e c = .ok (substMem (absOf c'.st) e, c') ∧ MemOut p e c c' := by
  rcases evalMem_total p e c hi hr hw with h | ⟨_, _, _, _, _, hnd⟩
  · exact h
  · exact absurd hd hnd

end Mltwist.Lemmas.Emulator
