import Mltwist.Lemmas.DepsView
import Mltwist.Lemmas.DepsFootprintP
import Mltwist.Lemmas.DepsChains
/-
Edge soundness of the dependency finders of `internal/deps` (C05 (a)): two instructions of a
block that conflict (`Spec/Deps.lean`: `Conflict`) are connected by a dependency path in the edge
set computed by `findAllDeps` (`Model/Deps.lean`).
-/
namespace Mltwist.Lemmas.Deps.Paths
open Mltwist Mltwist.Deps Mltwist.Deps.Spec

/-- the five stages of `findAllDeps` and their inclusions -/
theorem allDeps_incl (seq : List Ins) (E : Edges) (h : findAllDeps seq = some E) :
    ∃ E4, findControlDeps seq (findOutputDeps seq (findAntiDeps seq (findTrueDeps seq []))) = some E4 ∧
      E = findSpecialDeps seq E4 ∧ (∀ ed ∈ E4, ed ∈ E) ∧
      (∀ ed ∈ findOutputDeps seq (findAntiDeps seq (findTrueDeps seq [])), ed ∈ E) ∧
      (∀ ed ∈ findAntiDeps seq (findTrueDeps seq []), ed ∈ E) ∧
      (∀ ed ∈ findTrueDeps seq [], ed ∈ E) := by
  unfold findAllDeps at h
  rw [Option.map_eq_some_iff] at h
  obtain ⟨E4, h4, rfl⟩ := h
  have i4 : ∀ ed ∈ E4, ed ∈ findSpecialDeps seq E4 := fun ed h => special_mono seq E4 ed h
  have i3 : ∀ ed ∈ findOutputDeps seq (findAntiDeps seq (findTrueDeps seq [])),
      ed ∈ findSpecialDeps seq E4 := fun ed h => i4 ed (ctrl_mono _ _ _ h4 ed h)
  have i2 : ∀ ed ∈ findAntiDeps seq (findTrueDeps seq []), ed ∈ findSpecialDeps seq E4 :=
    fun ed h => i3 ed (findOutputDeps_mono _ _ _ h)
  have i1 : ∀ ed ∈ findTrueDeps seq [], ed ∈ findSpecialDeps seq E4 :=
    fun ed h => i2 ed (findAntiDeps_mono _ _ _ h)
  exact ⟨E4, h4, rfl, i4, i3, i2, i1⟩

/-! ### registers -/

theorem reg_paths (seq : List Ins) (hid : IdsArePositions seq) (E : Edges)
    (h : findAllDeps seq = some E) (r : String) (i j : Nat) (hij : i < j) (hj : j < seq.length)
    (hc : (r ∈ seq[i].outRegs ∧ r ∈ seq[j].inRegs) ∨ (r ∈ seq[i].outRegs ∧ r ∈ seq[j].outRegs) ∨
      (r ∈ seq[i].inRegs ∧ r ∈ seq[j].outRegs)) : Path E i j := by
  obtain ⟨E4, _, _, _, i3, i2, i1⟩ := allDeps_incl seq E h
  refine rw_paths seq E Ins.inRegs Ins.outRegs ?_ ?_ ?_ r i j hij hj hc
  · intro r i j hij hj hx hy hB
    refine of_split seq hid i j hij hj E (fun a => r ∈ a.outRegs) (fun a => r ∈ a.inRegs)
      (fun a => r ∉ a.outRegs) ?_ hx hy (fun k hk h1 h2 hw => hB k h1 h2 ⟨hk, hw⟩)
    intro A B C x y hseq _ hx hy hB
    have := true_reg_split A B C x y [] r hx hy hB
    rw [← hseq] at this
    exact i1 _ this
  · intro r i j hij hj hx hx' hy hB
    refine of_split seq hid i j hij hj E (fun a => r ∈ a.inRegs ∧ r ∉ a.outRegs)
      (fun a => r ∈ a.outRegs) (fun a => r ∉ a.outRegs) ?_ ⟨hx, hx'⟩ hy
      (fun k hk h1 h2 hw => hB k h1 h2 ⟨hk, hw⟩)
    intro A B C x y hseq hne hx hy hB
    have := anti_reg_split A B C x y (findTrueDeps seq []) r hne hx.1 hx.2 hy hB
    rw [← hseq] at this
    exact i2 _ this
  · intro r i j hij hj hx hy hB
    refine of_split seq hid i j hij hj E (fun a => r ∈ a.outRegs) (fun a => r ∈ a.outRegs)
      (fun a => r ∉ a.outRegs) ?_ hx hy (fun k hk h1 h2 hw => hB k h1 h2 ⟨hk, hw⟩)
    intro A B C x y hseq _ hx hy hB
    have := out_reg_split A B C x y (findAntiDeps seq (findTrueDeps seq [])) r hx hy hB
    rw [← hseq] at this
    exact i3 _ this

/-! ### memory -/

theorem mem_paths (seq : List Ins) (hid : IdsArePositions seq) (E : Edges)
    (h : findAllDeps seq = some E) (r : String) (i j : Nat) (hij : i < j) (hj : j < seq.length)
    (hc : (r ∈ seq[i].stores ∧ r ∈ seq[j].loads) ∨ (r ∈ seq[i].stores ∧ r ∈ seq[j].stores) ∨
      (r ∈ seq[i].loads ∧ r ∈ seq[j].stores)) : Path E i j := by
  obtain ⟨E4, _, _, _, i3, i2, i1⟩ := allDeps_incl seq E h
  refine rw_paths seq E Ins.loads Ins.stores ?_ ?_ ?_ r i j hij hj hc
  · intro r i j hij hj hx hy hB
    refine of_split seq hid i j hij hj E (fun a => r ∈ a.stores) (fun a => r ∈ a.loads)
      (fun a => r ∉ a.stores) ?_ hx hy (fun k hk h1 h2 hw => hB k h1 h2 ⟨hk, hw⟩)
    intro A B C x y hseq _ hx hy hB
    have := true_mem_split A B C x y [] r hx hy hB
    rw [← hseq] at this
    exact i1 _ this
  · intro r i j hij hj hx hx' hy hB
    refine of_split seq hid i j hij hj E (fun a => r ∈ a.loads ∧ r ∉ a.stores)
      (fun a => r ∈ a.stores) (fun a => r ∉ a.stores) ?_ ⟨hx, hx'⟩ hy
      (fun k hk h1 h2 hw => hB k h1 h2 ⟨hk, hw⟩)
    intro A B C x y hseq hne hx hy hB
    have := anti_mem_split A B C x y (findTrueDeps seq []) r hne hx.1 hx.2 hy hB
    rw [← hseq] at this
    exact i2 _ this
  · intro r i j hij hj hx hy hB
    refine of_split seq hid i j hij hj E (fun a => r ∈ a.stores) (fun a => r ∈ a.stores)
      (fun a => r ∉ a.stores) ?_ hx hy (fun k hk h1 h2 hw => hB k h1 h2 ⟨hk, hw⟩)
    intro A B C x y hseq _ hx hy hB
    have := out_mem_split A B C x y (findAntiDeps seq (findTrueDeps seq [])) r hx hy hB
    rw [← hseq] at this
    exact i3 _ this

/-! ### special instructions and memory ordering -/

theorem sp_paths (seq : List Ins) (hid : IdsArePositions seq) (E : Edges)
    (h : findAllDeps seq = some E) (i j : Nat) (hij : i < j) (hj : j < seq.length)
    (hc : insSpecial seq[i] = true ∨ insSpecial seq[j] = true) : Path E i j := by
  obtain ⟨E4, _, hE, _, _, _, _⟩ := allDeps_incl seq E h
  have nf : ∀ b : Ins, ¬ insSpecial b = true → insSpecial b = false := fun b hb => by
    simpa using hb
  refine special_paths seq E ?_ ?_ i j hij hj hc
  · intro i j hij hj hx hB
    refine of_split seq hid i j hij hj E (fun a => insSpecial a = true) (fun _ => True)
      (fun a => insSpecial a = false) ?_ hx trivial
      (fun k hk h1 h2 => nf _ (fun hw => hB k h1 h2 ⟨hk, hw⟩))
    intro A B C x y hseq _ hx _ hB
    have := special_fwd_split A B C x y E4 hx hB
    rw [← hseq, ← hE] at this
    exact this
  · intro i j hij hj hy hB
    refine of_split seq hid i j hij hj E (fun _ => True) (fun a => insSpecial a = true)
      (fun a => insSpecial a = false) ?_ trivial hy
      (fun k hk h1 h2 => nf _ (fun hw => hB k h1 h2 ⟨hk, hw⟩))
    intro A B C x y hseq _ _ hy hB
    have := special_back_split A B C x y E4 hy hB
    rw [← hseq, ← hE] at this
    exact this

theorem memorder_paths (seq : List Ins) (hid : IdsArePositions seq) (E : Edges)
    (h : findAllDeps seq = some E) (i j : Nat) (hij : i < j) (hj : j < seq.length)
    (hc : (insMemOrder seq[i] = true ∧ (isMemAccess seq[j] = true ∨ insMemOrder seq[j] = true)) ∨
      (insMemOrder seq[j] = true ∧ isMemAccess seq[i] = true)) : Path E i j := by
  obtain ⟨E4, _, hE, _, _, _, _⟩ := allDeps_incl seq E h
  have nf : ∀ b : Ins, ¬ (insSpecial b = true ∨ insMemOrder b = true) →
      insSpecial b = false ∧ insMemOrder b = false := fun b hb => by
    simpa using hb
  refine mo_paths seq E (sp_paths seq hid E h) ?_ ?_ i j hij hj hc
  · intro i j hij hj hx hx' hy hB
    refine of_split seq hid i j hij hj E (fun a => insMemOrder a = true ∧ insSpecial a = false)
      (fun a => isMemAccess a = true) (fun a => insSpecial a = false ∧ insMemOrder a = false) ?_
      ⟨hx, hx'⟩ hy (fun k hk h1 h2 => nf _ (fun hw => hB k h1 h2 ⟨hk, hw⟩))
    intro A B C x y hseq _ hx hy hB
    have := mo_fwd_split A B C x y E4 hx.1 hx.2 hy hB
    rw [← hseq, ← hE] at this
    exact this
  · intro i j hij hj hy hy' hx hB
    refine of_split seq hid i j hij hj E (fun a => isMemAccess a = true ∨ insMemOrder a = true)
      (fun a => insMemOrder a = true ∧ insSpecial a = false)
      (fun a => insSpecial a = false ∧ insMemOrder a = false) ?_
      hx ⟨hy, hy'⟩ (fun k hk h1 h2 => nf _ (fun hw => hB k h1 h2 ⟨hk, hw⟩))
    intro A B C x y hseq _ hx hy hB
    have := mo_back_split A B C x y E4 hy.1 hy.2 hx hB
    rw [← hseq, ← hE] at this
    exact this

/-! ### control -/

theorem ctrl_pin' (seq A B C : List Ins) (x y : Ins) (E E' : Edges)
    (hseq : seq = A ++ x :: (B ++ y :: C)) (h : findControlDeps seq E = some E')
    (hk : ipKey ∈ x.outRegs ∨ ipKey ∈ y.outRegs) : (x.id, y.id) ∈ E' := by
  subst hseq; exact ctrl_pin A B C x y E E' h hk

theorem ctrl_term' (seq A B : List Ins) (x y : Ins) (E E' : Edges)
    (hseq : seq = A ++ x :: (B ++ [y])) (h : findControlDeps seq E = some E')
    (hy : y.jumpTargets ≠ []) : (x.id, y.id) ∈ E' := by
  subst hseq; exact ctrl_term A B x y E E' h hy

theorem pin_edge (seq : List Ins) (hid : IdsArePositions seq) (E : Edges)
    (h : findAllDeps seq = some E) (i j : Nat) (hij : i < j) (hj : j < seq.length)
    (hc : ipKey ∈ seq[i].outRegs ∨ ipKey ∈ seq[j].outRegs) : (i, j) ∈ E := by
  obtain ⟨E4, h4, _, i4, _, _, _⟩ := allDeps_incl seq E h
  obtain ⟨A, B, C, hseq, _, _⟩ := split_idx seq i j hij hj
  have hi' : seq[i].id = i := hid i (by omega)
  have hj' : seq[j].id = j := hid j hj
  have := ctrl_pin' seq A B C seq[i] seq[j] _ E4 hseq h4 hc
  rw [hi', hj'] at this
  exact i4 _ this

theorem term_edge (seq : List Ins) (hid : IdsArePositions seq) (E : Edges)
    (h : findAllDeps seq = some E) (i j : Nat) (hij : i < j) (hj : j < seq.length)
    (hlast : j + 1 = seq.length) (hjt : seq[j].jumpTargets ≠ []) : (i, j) ∈ E := by
  obtain ⟨E4, h4, _, i4, _, _, _⟩ := allDeps_incl seq E h
  obtain ⟨A, B, C, hseq, _, hC⟩ := split_idx seq i j hij hj
  have hi' : seq[i].id = i := hid i (by omega)
  have hj' : seq[j].id = j := hid j hj
  have hseq' : seq = A ++ seq[i] :: (B ++ [seq[j]]) := by
    have := hC hlast
    subst this
    exact hseq
  have := ctrl_term' seq A B seq[i] seq[j] _ E4 hseq' h4 hjt
  rw [hi', hj'] at this
  exact i4 _ this

end Mltwist.Lemmas.Deps.Paths

namespace Mltwist.Lemmas.Deps
open Mltwist Mltwist.Deps Mltwist.Deps.Spec Mltwist.Lemmas.Deps.Paths

/-! ### edge soundness -/

theorem conflict_path (seq : List Ins) (hid : IdsArePositions seq) (E : Edges)
    (h : findAllDeps seq = some E) (i j : Nat) (hij : i < j) (hj : j < seq.length)
    (hc : Conflict (seq[i].toS seq.length) (seq[j].toS seq.length)) : Path E i j := by
  unfold Conflict at hc
  rcases hc with ⟨r, h1, h2⟩ | ⟨r, h1, h2⟩ | ⟨r, h1, h2⟩ | ⟨r, h1, h2⟩ | ⟨r, h1, h2⟩ |
    ⟨r, h1, h2⟩ | hc | hc | hc | hc | hc | hc | hc
  · exact reg_paths seq hid E h r i j hij hj
      (Or.inl ⟨(mem_outRegs _ _ _).1 h1, (mem_inRegs _ _ _).1 h2⟩)
  · exact reg_paths seq hid E h r i j hij hj
      (Or.inr (Or.inl ⟨(mem_outRegs _ _ _).1 h1, (mem_outRegs _ _ _).1 h2⟩))
  · exact reg_paths seq hid E h r i j hij hj
      (Or.inr (Or.inr ⟨(mem_inRegs _ _ _).1 h1, (mem_outRegs _ _ _).1 h2⟩))
  · exact mem_paths seq hid E h r i j hij hj
      (Or.inl ⟨(mem_stores _ _ _).1 h1, (mem_loads _ _ _).1 h2⟩)
  · exact mem_paths seq hid E h r i j hij hj
      (Or.inr (Or.inl ⟨(mem_stores _ _ _).1 h1, (mem_stores _ _ _).1 h2⟩))
  · exact mem_paths seq hid E h r i j hij hj
      (Or.inr (Or.inr ⟨(mem_loads _ _ _).1 h1, (mem_stores _ _ _).1 h2⟩))
  · rw [special_eq] at hc
    exact sp_paths seq hid E h i j hij hj (Or.inl hc)
  · rw [special_eq] at hc
    exact sp_paths seq hid E h i j hij hj (Or.inr hc)
  · rw [memOrder_eq, memOrder_eq, memAccess_iff] at hc
    exact memorder_paths seq hid E h i j hij hj (Or.inl hc)
  · rw [memOrder_eq, memAccess_iff] at hc
    exact memorder_paths seq hid E h i j hij hj (Or.inr hc)
  · have hc' : (decide (seq[j].id + 1 = seq.length) && !seq[j].jumpTargets.isEmpty) = true := hc
    rw [hid j hj] at hc'
    simp only [Bool.and_eq_true, decide_eq_true_eq, Bool.not_eq_true', List.isEmpty_eq_false_iff] at hc'
    exact Path.edge (term_edge seq hid E h i j hij hj hc'.1 hc'.2)
  · exact Path.edge (pin_edge seq hid E h i j hij hj (Or.inl ((writesIp_iff _ _).1 hc)))
  · exact Path.edge (pin_edge seq hid E h i j hij hj (Or.inr ((writesIp_iff _ _).1 hc)))

end Mltwist.Lemmas.Deps
