import Mltwist.Spec.Elf
/-
C20, part 1: the block store — `sortByBegin`, `newMemory`, `sort.Search`, `Memory.Address`.
-/
namespace Mltwist.Lemmas.Elf
open Mltwist Mltwist.Elf Mltwist.Elf.Spec

/-- addresses and lengths are `uint64` / slice lengths -/
def Sane (l : List Block) : Prop := ∀ b ∈ l, b.1 < M ∧ b.2.length < M

/-! ### `sortByBegin` -/

theorem insertByBegin_perm (x : Block) (l : List Block) : (insertByBegin x l).Perm (x :: l) := by
  induction l with
  | nil => exact List.Perm.refl _
  | cons y ys ih =>
    unfold insertByBegin
    by_cases h : x.1 < y.1
    · rw [if_pos h]
    · rw [if_neg h]
      exact ((List.Perm.cons y ih).trans (List.Perm.swap x y ys))

theorem foldl_insertByBegin_perm (l : List Block) : ∀ acc : List Block,
    (l.foldl (fun acc x => insertByBegin x acc) acc).Perm (l ++ acc) := by
  induction l with
  | nil => intro acc; exact List.Perm.refl _
  | cons x l ih =>
    intro acc
    rw [List.foldl_cons]
    refine (ih _).trans ?_
    refine (List.Perm.append_left l (insertByBegin_perm x acc)).trans ?_
    exact List.perm_middle

theorem sortByBegin_perm (l : List Block) : (sortByBegin l).Perm l := by
  have := foldl_insertByBegin_perm l []
  simpa [sortByBegin] using this

theorem insertByBegin_sorted (x : Block) (l : List Block)
    (h : l.Pairwise fun a b => a.1 ≤ b.1) : (insertByBegin x l).Pairwise fun a b => a.1 ≤ b.1 := by
  induction l with
  | nil => simp [insertByBegin]
  | cons y ys ih =>
    unfold insertByBegin
    rw [List.pairwise_cons] at h
    by_cases hxy : x.1 < y.1
    · rw [if_pos hxy]
      refine List.pairwise_cons.2 ⟨?_, List.pairwise_cons.2 h⟩
      intro z hz
      rcases List.mem_cons.1 hz with rfl | hz
      · exact Nat.le_of_lt hxy
      · exact Nat.le_trans (Nat.le_of_lt hxy) (h.1 z hz)
    · rw [if_neg hxy]
      refine List.pairwise_cons.2 ⟨?_, ih h.2⟩
      intro z hz
      have hz' := (insertByBegin_perm x ys).subset hz
      rcases List.mem_cons.1 hz' with rfl | hz'
      · exact Nat.le_of_not_lt hxy
      · exact h.1 z hz'

theorem foldl_insertByBegin_sorted (l : List Block) : ∀ acc : List Block,
    (acc.Pairwise fun a b => a.1 ≤ b.1) →
    (l.foldl (fun acc x => insertByBegin x acc) acc).Pairwise fun a b => a.1 ≤ b.1 := by
  induction l with
  | nil => intro acc h; exact h
  | cons x l ih => intro acc h; exact ih _ (insertByBegin_sorted x acc h)

theorem sortByBegin_sorted (l : List Block) : (sortByBegin l).Pairwise fun a b => a.1 ≤ b.1 :=
  foldl_insertByBegin_sorted l [] List.Pairwise.nil

/-! ### `End()`, wrap-around -/

theorem bend_of_fits {b : Block} (h : b.1 + b.2.length < 2 ^ 64) : bend b = b.1 + b.2.length := by
  unfold bend M; exact Nat.mod_eq_of_lt h

theorem wraps_false_iff {b : Block} (h1 : b.1 < M) (h2 : b.2.length < M) :
    wraps b = false ↔ b.1 + b.2.length < 2 ^ 64 := by
  unfold wraps bend
  unfold M at *
  constructor
  · intro h
    have h' : ¬ (b.1 + b.2.length) % 2 ^ 64 < b.1 := by simpa using h
    apply Classical.byContradiction
    intro hn
    have hge : 2 ^ 64 ≤ b.1 + b.2.length := Nat.le_of_not_lt hn
    have hmod : (b.1 + b.2.length) % 2 ^ 64 = b.1 + b.2.length - 2 ^ 64 := by
      rw [Nat.mod_eq_sub_mod hge]
      exact Nat.mod_eq_of_lt (by omega)
    omega
  · intro h
    have : (b.1 + b.2.length) % 2 ^ 64 = b.1 + b.2.length := Nat.mod_eq_of_lt h
    simp [this]

theorem any_wraps_false_iff {l : List Block} (hs : Sane l) : l.any wraps = false ↔ Fits l := by
  constructor
  · intro h b hb
    have := (List.any_eq_false.1 h) b hb
    exact (wraps_false_iff (hs b hb).1 (hs b hb).2).1 (by simpa using this)
  · intro h
    apply List.any_eq_false.2
    intro b hb
    have := (wraps_false_iff (hs b hb).1 (hs b hb).2).2 (h b hb)
    simp [this]

/-! ### the overlap loop -/

/-- on blocks that fit, the loop finds nothing iff the list is sorted and non-overlapping -/
theorem overlapLoop_false_pairwise : ∀ (l : List Block), Fits l → overlapLoop l = false →
    l.Pairwise fun x y => x.1 + x.2.length ≤ y.1
  | [], _, _ => List.Pairwise.nil
  | [a], _, _ => by simp
  | a :: b :: rest, hf, h => by
    have ha : bend a = a.1 + a.2.length := bend_of_fits (hf a (by simp))
    have hf' : Fits (b :: rest) := fun x hx => hf x (List.mem_cons_of_mem _ hx)
    unfold overlapLoop at h
    rw [ha] at h
    by_cases hlt : b.1 < a.1 + a.2.length
    · rw [if_pos hlt] at h; cases h
    · rw [if_neg hlt] at h
      have ihp := overlapLoop_false_pairwise (b :: rest) hf' h
      refine List.pairwise_cons.2 ⟨?_, ihp⟩
      intro z hz
      rcases List.mem_cons.1 hz with rfl | hz
      · omega
      · have := (List.pairwise_cons.1 ihp).1 z hz
        omega

theorem overlapLoop_false_of_pairwise : ∀ (l : List Block), Fits l →
    (l.Pairwise fun x y => x.1 + x.2.length ≤ y.1) → overlapLoop l = false
  | [], _, _ => rfl
  | [a], _, _ => rfl
  | a :: b :: rest, hf, h => by
    have ha : bend a = a.1 + a.2.length := bend_of_fits (hf a (by simp))
    have hf' : Fits (b :: rest) := fun x hx => hf x (List.mem_cons_of_mem _ hx)
    rw [List.pairwise_cons] at h
    unfold overlapLoop
    rw [ha, if_neg (by have := h.1 b (by simp); omega)]
    exact overlapLoop_false_of_pairwise (b :: rest) hf' h.2

/-! ### `Meet`, `NoOverlap` -/

theorem meet_symm {x y : Block} (h : Meet x y) : Meet y x := by
  obtain ⟨a, h1, h2⟩ := h; exact ⟨a, h2, h1⟩

theorem meetB_iff (x y : Block) : meetB x y = true ↔ Meet x y := by
  unfold meetB Meet Covers
  rw [decide_eq_true_iff]
  constructor
  · rintro ⟨hx, hy, h1, h2⟩
    by_cases h : x.1 ≤ y.1
    · exact ⟨y.1, ⟨h, h2⟩, ⟨Nat.le_refl _, by omega⟩⟩
    · exact ⟨x.1, ⟨Nat.le_refl _, by omega⟩, ⟨by omega, h1⟩⟩
  · rintro ⟨a, ⟨h1, h2⟩, ⟨h3, h4⟩⟩
    omega

theorem not_meet_of_le {x y : Block} (h : x.1 + x.2.length ≤ y.1) : ¬ Meet x y := by
  rintro ⟨a, ⟨_, h2⟩, ⟨h3, _⟩⟩; omega

theorem noOverlap_of_tidy {l : List Block} (h : Tidy l) : NoOverlap l :=
  h.2.imp fun hxy => not_meet_of_le hxy

theorem noOverlap_perm {l l' : List Block} (hp : l.Perm l') : NoOverlap l ↔ NoOverlap l' :=
  hp.pairwise_iff (fun {x y} (h : ¬ Meet x y) => fun h' => h (meet_symm h'))

/-! ### `newMemory` -/

theorem fits_perm {l l' : List Block} (hp : l.Perm l') : Fits l ↔ Fits l' :=
  ⟨fun h b hb => h b (hp.mem_iff.2 hb), fun h b hb => h b (hp.mem_iff.1 hb)⟩

/-- `newMemory` never panics; a success is the stably sorted input, which is tidy -/
theorem newMemory_spec (l : List Block) (hs : Sane l) :
    (newMemory l = .ok (sortByBegin l) ∧ Tidy (sortByBegin l)) ∨
    (newMemory l = .error .wrap ∧ ¬ Fits l) ∨
    (newMemory l = .error .overlap ∧ Fits l ∧ ¬ Tidy (sortByBegin l)) := by
  unfold newMemory
  by_cases he : l.isEmpty = true
  · have : l = [] := List.isEmpty_iff.1 he
    subst this
    left
    refine ⟨by simp [sortByBegin], ?_, by simp [sortByBegin]⟩
    intro b hb; cases hb
  · rw [if_neg he]
    by_cases hw : l.any wraps = true
    · rw [if_pos hw]
      right; left
      refine ⟨rfl, fun hf => ?_⟩
      have := (any_wraps_false_iff hs).2 hf
      rw [this] at hw; cases hw
    · rw [if_neg hw]
      have hw' : l.any wraps = false := by simpa using hw
      have hf : Fits l := (any_wraps_false_iff hs).1 hw'
      have hfs : Fits (sortByBegin l) := (fits_perm (sortByBegin_perm l)).2 hf
      dsimp only
      by_cases ho : overlapLoop (sortByBegin l) = true
      · rw [if_pos ho]
        right; right
        refine ⟨rfl, hf, fun ht => ?_⟩
        have := overlapLoop_false_of_pairwise _ hfs ht.2
        rw [this] at ho; cases ho
      · have ho' : overlapLoop (sortByBegin l) = false := by simpa using ho
        rw [if_neg ho]
        left
        exact ⟨rfl, hfs, overlapLoop_false_pairwise _ hfs ho'⟩

/-- blocks that fit, are all non-empty and pairwise do not meet are accepted -/
theorem sorted_tidy_of_noOverlap (l : List Block) (hf : Fits l) (hne : ∀ b ∈ l, b.2 ≠ [])
    (hno : NoOverlap l) : Tidy (sortByBegin l) := by
  have hp := sortByBegin_perm l
  have hfs : Fits (sortByBegin l) := (fits_perm hp).2 hf
  have hnos : NoOverlap (sortByBegin l) := (noOverlap_perm hp).2 hno
  have hso := sortByBegin_sorted l
  have hnes : ∀ b ∈ sortByBegin l, b.2 ≠ [] := fun b hb => hne b (hp.mem_iff.1 hb)
  refine ⟨hfs, ?_⟩
  have hboth := hso.and hnos
  refine (List.Pairwise.and_mem.1 hboth).imp ?_
  rintro x y ⟨hx, hy, hle, hnm⟩
  apply Classical.byContradiction
  intro hn
  apply hnm
  have hylen : 0 < y.2.length := List.length_pos_iff.2 (hnes y hy)
  exact ⟨y.1, ⟨hle, by omega⟩, ⟨Nat.le_refl _, by omega⟩⟩

/-! ### `sort.Search` -/

/-- invariant of the binary search over a predicate that is defined on `[0,n)` and monotone -/
theorem searchLoop_spec (f : Nat → Option Bool) (p : Nat → Bool) (n : Nat)
    (hdef : ∀ i, i < n → f i = some (p i))
    (hmono : ∀ i j, i ≤ j → j < n → p i = true → p j = true) :
    ∀ fuel i j, i ≤ j → j ≤ n → j - i ≤ fuel →
      (∀ k, k < i → p k = false) → (∀ k, j ≤ k → k < n → p k = true) →
      ∃ r, searchLoop f fuel i j = some r ∧ r ≤ n ∧ (∀ k, k < r → p k = false) ∧
        (∀ k, r ≤ k → k < n → p k = true) := by
  intro fuel
  induction fuel with
  | zero =>
    intro i j hij hjn hfuel hlo hhi
    have : i = j := by omega
    subst this
    exact ⟨i, rfl, hjn, hlo, hhi⟩
  | succ fuel ih =>
    intro i j hij hjn hfuel hlo hhi
    unfold searchLoop
    by_cases hlt : i < j
    · rw [if_pos hlt]
      have hh : (i + j) / 2 < n := by omega
      simp only [hdef _ hh]
      cases hp : p ((i + j) / 2) with
      | false =>
        simp only
        refine ih ((i + j) / 2 + 1) j (by omega) hjn (by omega) ?_ hhi
        intro k hk
        by_cases hk' : k < i
        · exact hlo k hk'
        · cases hpk : p k with
          | false => rfl
          | true =>
            have := hmono k ((i + j) / 2) (by omega) hh hpk
            rw [hp] at this; cases this
      | true =>
        simp only
        refine ih i ((i + j) / 2) (by omega) (by omega) (by omega) hlo ?_
        intro k hk hkn
        exact hmono _ k hk hkn hp
    · rw [if_neg hlt]
      have : i = j := by omega
      subst this
      exact ⟨i, rfl, hjn, hlo, hhi⟩

theorem search_spec (f : Nat → Option Bool) (p : Nat → Bool) (n : Nat)
    (hdef : ∀ i, i < n → f i = some (p i))
    (hmono : ∀ i j, i ≤ j → j < n → p i = true → p j = true) :
    ∃ r, search n f = some r ∧ r ≤ n ∧ (∀ k, k < r → p k = false) ∧ (∀ k, r ≤ k → k < n → p k = true) :=
  searchLoop_spec f p n hdef hmono n 0 n (Nat.zero_le _) (Nat.le_refl _) (by omega)
    (fun k hk => absurd hk (Nat.not_lt_zero _)) (fun k hk hkn => absurd hkn (by omega))

/-- the search never indexes out of range, whatever the blocks are -/
theorem searchLoop_total (bs : List Block) (q : Block → Bool) :
    ∀ fuel i j, j ≤ bs.length → ∃ r, searchLoop (fun i => bs[i]?.map q) fuel i j = some r ∧ r ≤ max i j := by
  intro fuel
  induction fuel with
  | zero => intro i j _; exact ⟨i, rfl, Nat.le_max_left _ _⟩
  | succ fuel ih =>
    intro i j hj
    unfold searchLoop
    by_cases hlt : i < j
    · rw [if_pos hlt]
      have hh : (i + j) / 2 < bs.length := by omega
      simp only [List.getElem?_eq_getElem hh, Option.map_some]
      cases q bs[(i + j) / 2] with
      | false =>
        obtain ⟨r, h1, h2⟩ := ih ((i + j) / 2 + 1) j hj
        exact ⟨r, h1, by omega⟩
      | true =>
        obtain ⟨r, h1, h2⟩ := ih i ((i + j) / 2) (by omega)
        exact ⟨r, h1, by omega⟩
    · rw [if_neg hlt]; exact ⟨i, rfl, Nat.le_max_left _ _⟩

/-! ### `Block.Address`, `Memory.Address` -/

theorem blockAddress_of_fits (b : Block) (hf : b.1 + b.2.length < 2 ^ 64) (a : Nat) :
    blockAddress b a = .ok (if Covers b a then some (b.2.drop (a - b.1)) else none) := by
  unfold blockAddress
  rw [bend_of_fits hf]
  by_cases hc : Covers b a
  · rw [if_pos hc]
    unfold Covers at hc
    rw [if_neg (by omega), if_neg (by omega)]
  · rw [if_neg hc]
    unfold Covers at hc
    rw [if_pos (by omega)]

/-- `Block.Address` never panics on blocks whose address and length are machine integers -/
theorem blockAddress_no_panic (b : Block) (h1 : b.1 < M) (h2 : b.2.length < M) (a : Nat) :
    blockAddress b a ≠ .error .panic := by
  unfold blockAddress bend
  unfold M at *
  by_cases h : a < b.1 ∨ a ≥ (b.1 + b.2.length) % 2 ^ 64
  · rw [if_pos h]; intro h'; cases h'
  · rw [if_neg h]
    have hlt : a < (b.1 + b.2.length) % 2 ^ 64 := by omega
    have hge : b.1 ≤ a := by omega
    have : a - b.1 ≤ b.2.length := by
      by_cases hw : b.1 + b.2.length < 2 ^ 64
      · rw [Nat.mod_eq_of_lt hw] at hlt; omega
      · have hmod : (b.1 + b.2.length) % 2 ^ 64 = b.1 + b.2.length - 2 ^ 64 := by
          rw [Nat.mod_eq_sub_mod (by omega)]
          exact Nat.mod_eq_of_lt (by omega)
        omega
    rw [if_neg (by omega)]
    intro h'; cases h'

theorem lookup_none_of_not_covers : ∀ (l : List Block) (a : Nat), (∀ b ∈ l, ¬ Covers b a) → lookup l a = none
  | [], _, _ => rfl
  | b :: rest, a, h => by
    unfold lookup
    rw [if_neg (h b (by simp))]
    exact lookup_none_of_not_covers rest a fun x hx => h x (List.mem_cons_of_mem _ hx)

theorem lookup_drop (l : List Block) (a : Nat) (k : Nat) (h : ∀ i, i < k → ∀ b, l[i]? = some b → ¬ Covers b a) :
    lookup l a = lookup (l.drop k) a := by
  induction k generalizing l with
  | zero => simp
  | succ k ih =>
    cases l with
    | nil => simp
    | cons b rest =>
      rw [List.drop_succ_cons]
      have h0 : lookup (b :: rest) a = lookup rest a := by
        simp only [lookup]
        rw [if_neg (h 0 (by omega) b (by simp))]
      rw [h0]
      apply ih
      intro i hi x hx
      exact h (i + 1) (by omega) x (by simpa using hx)

/-- on a tidy block list `Memory.Address` returns the bytes from `a` to the end of the block
covering `a`, or nothing; it never panics -/
theorem address_spec (bs : List Block) (ht : Tidy bs) (a : Nat) : address bs a = .ok (lookup bs a) := by
  obtain ⟨hf, hp⟩ := ht
  have hfi : ∀ i (h : i < bs.length), bs[i].1 + bs[i].2.length < 2 ^ 64 := fun i h => hf _ (List.getElem_mem h)
  have hdef : ∀ i, i < bs.length →
      (fun i => bs[i]?.map fun b => decide (bend b > a)) i =
        some ((fun i => decide ((bs.getD i (0, [])).1 + (bs.getD i (0, [])).2.length > a)) i) := by
    intro i hi
    simp only [List.getElem?_eq_getElem hi, Option.map_some, List.getD_eq_getElem?_getD, Option.getD_some]
    rw [bend_of_fits (hfi i hi)]
  have hmono : ∀ i j, i ≤ j → j < bs.length →
      (fun i => decide ((bs.getD i (0, [])).1 + (bs.getD i (0, [])).2.length > a)) i = true →
      (fun i => decide ((bs.getD i (0, [])).1 + (bs.getD i (0, [])).2.length > a)) j = true := by
    intro i j hij hj h
    have hi : i < bs.length := by omega
    simp only [List.getD_eq_getElem?_getD, List.getElem?_eq_getElem hi, List.getElem?_eq_getElem hj,
      Option.getD_some, decide_eq_true_eq] at h ⊢
    rcases Nat.lt_or_eq_of_le hij with hlt | rfl
    · have := List.pairwise_iff_getElem.1 hp i j hi hj hlt
      omega
    · exact h
  obtain ⟨r, hr, hrn, hlo, hhi⟩ := search_spec _ _ bs.length hdef hmono
  unfold address
  rw [hr]
  dsimp only
  have hbefore : ∀ i, i < r → ∀ b, bs[i]? = some b → ¬ Covers b a := by
    intro i hi b hb
    have hil : i < bs.length := by omega
    have := hlo i hi
    simp only [List.getD_eq_getElem?_getD, hb, Option.getD_some, decide_eq_false_iff_not] at this
    unfold Covers; omega
  rw [lookup_drop bs a r hbefore]
  by_cases hrl : r < bs.length
  · rw [List.getElem?_eq_getElem hrl]
    simp only
    rw [List.drop_eq_getElem_cons hrl]
    unfold lookup
    by_cases hb : bs[r].1 > a
    · rw [if_pos hb]
      have hnc : ¬ Covers bs[r] a := by unfold Covers; omega
      rw [if_neg hnc]
      congr 1
      symm
      apply lookup_none_of_not_covers
      intro x hx
      obtain ⟨k, hk, rfl⟩ := List.getElem_of_mem hx
      rw [List.length_drop] at hk
      rw [List.getElem_drop]
      have := List.pairwise_iff_getElem.1 hp r (r + 1 + k) hrl (by omega) (by omega)
      unfold Covers; omega
    · rw [if_neg hb]
      rw [blockAddress_of_fits _ (hfi r hrl)]
      have hthis := hhi r (Nat.le_refl _) hrl
      simp only [List.getD_eq_getElem?_getD, List.getElem?_eq_getElem hrl, Option.getD_some,
        decide_eq_true_eq] at hthis
      have hc : Covers bs[r] a := by unfold Covers; omega
      rw [if_pos hc, if_pos hc]
  · have : bs.length ≤ r := by omega
    rw [List.getElem?_eq_none this]
    simp only
    rw [List.drop_eq_nil_of_le this]
    rfl

/-- in a tidy list at most one block covers an address: `lookup` is that block's suffix -/
theorem lookup_eq_some_iff (bs : List Block) (ht : Tidy bs) (a : Nat) (r : List UInt8) :
    lookup bs a = some r ↔ ∃ b ∈ bs, Covers b a ∧ r = b.2.drop (a - b.1) := by
  have hp := ht.2
  clear ht
  induction bs with
  | nil => simp [lookup]
  | cons b rest ih =>
    rw [List.pairwise_cons] at hp
    unfold lookup
    by_cases hc : Covers b a
    · rw [if_pos hc]
      constructor
      · intro h; cases h; exact ⟨b, by simp, hc, rfl⟩
      · rintro ⟨x, hx, hxc, rfl⟩
        rcases List.mem_cons.1 hx with rfl | hx
        · rfl
        · have := hp.1 x hx
          unfold Covers at hc hxc; omega
    · rw [if_neg hc]
      refine (ih hp.2).trans ?_
      constructor
      · rintro ⟨x, hx, h⟩; exact ⟨x, List.mem_cons_of_mem _ hx, h⟩
      · rintro ⟨x, hx, hxc, hr⟩
        rcases List.mem_cons.1 hx with rfl | hx
        · exact absurd hxc hc
        · exact ⟨x, hx, hxc, hr⟩

theorem lookup_eq_none_iff (bs : List Block) (a : Nat) : lookup bs a = none ↔ ∀ b ∈ bs, ¬ Covers b a := by
  induction bs with
  | nil => simp [lookup]
  | cons b rest ih =>
    unfold lookup
    by_cases hc : Covers b a
    · rw [if_pos hc]
      constructor
      · intro h; cases h
      · intro h; exact absurd hc (h b (by simp))
    · rw [if_neg hc]
      refine ih.trans ?_
      constructor
      · intro h x hx
        rcases List.mem_cons.1 hx with rfl | hx
        · exact hc
        · exact h x hx
      · intro h x hx; exact h x (List.mem_cons_of_mem _ hx)

/-- `Memory.Address` never panics, whatever the blocks are -/
theorem address_no_panic (bs : List Block) (hs : Sane bs) (a : Nat) : address bs a ≠ .error .panic := by
  unfold address
  obtain ⟨r, hr, _⟩ := searchLoop_total bs (fun b => decide (bend b > a)) bs.length 0 bs.length (Nat.le_refl _)
  unfold search
  rw [hr]
  simp only
  cases hb : bs[r]? with
  | none => intro h; cases h
  | some b =>
    simp only
    by_cases h : b.1 > a
    · rw [if_pos h]; intro h'; cases h'
    · rw [if_neg h]
      have hm := List.mem_of_getElem? hb
      exact blockAddress_no_panic b (hs b hm).1 (hs b hm).2 a

end Mltwist.Lemmas.Elf
