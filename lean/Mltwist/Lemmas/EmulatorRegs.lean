import Mltwist.Lemmas.EmulatorFill
/-
Emulator (C03, C04), part 3: the register phase of evaluation.  `evalRegsFully` never panics on a state
whose registers hold constants; its result is the expression with every register load replaced by the
value the FINAL register map holds for it; the state evolves by register fills only; the report notes
exactly the loads of the expression with the values read.
-/
namespace Mltwist.Lemmas.Emulator
open Mltwist Mltwist.State Mltwist.Overlay Mltwist.Emulator Mltwist.Spec.Overlay
open Mltwist.Lemmas.State (Good assocGet_set_same assocGet_set_other)

/-- the register loads of an expression, in the order `ReplaceAll` visits them -/
def regLoads : Expr → List (String × Nat)
  | .const _ => []
  | .binary _ a b _ => regLoads a ++ regLoads b
  | .less a b t f _ => regLoads a ++ regLoads b ++ regLoads t ++ regLoads f
  | .memLoad _ a _ => regLoads a
  | .regLoad k w => [(k, w)]

/-- every register load replaced by what the register map holds -/
def substRegs (m : RegMap) : Expr → Expr
  | .const bs => .const bs
  | .binary op a b w => .binary op (substRegs m a) (substRegs m b) w
  | .less a b t f w => .less (substRegs m a) (substRegs m b) (substRegs m t) (substRegs m f) w
  | .memLoad k a w => .memLoad k (substRegs m a) w
  | .regLoad k w => (m.load k w).getD (.regLoad k w)

/-- all registers of the list are in the map -/
def RegsIn (m : RegMap) (l : List (String × Nat)) : Prop := ∀ kw ∈ l, assocGet kw.1 m ≠ none

/-- the values read for a list of loads -/
def readVals (m : RegMap) (l : List (String × Nat)) : List (String × List UInt8) :=
  l.filterMap fun kw => match m.load kw.1 kw.2 with
    | some (.const v) => some (kw.1, v)
    | _ => none

/-- `inputReg` for a list of reads -/
def noteReads (r : Report) (l : List (String × List UInt8)) : Report :=
  l.foldl (fun r kv => r.inputReg kv.1 kv.2) r

theorem noteReads_append (r : Report) (l1 l2 : List (String × List UInt8)) :
    noteReads r (l1 ++ l2) = noteReads (noteReads r l1) l2 := by
  simp [noteReads, List.foldl_append]

theorem load_ext {m m' : RegMap} (h : RExt m m') {k : String} (hk : assocGet k m ≠ none) (w : Nat) :
    m'.load k w = m.load k w := by
  cases hg : assocGet k m with
  | none => exact absurd hg hk
  | some e =>
    unfold RegMap.load
    rw [hg, h k e hg]

theorem RegsIn.append {m : RegMap} {l1 l2 : List (String × Nat)} :
    RegsIn m (l1 ++ l2) ↔ RegsIn m l1 ∧ RegsIn m l2 := by
  unfold RegsIn
  constructor
  · intro h
    exact ⟨fun kw hk => h kw (List.mem_append_left _ hk), fun kw hk => h kw (List.mem_append_right _ hk)⟩
  · rintro ⟨h1, h2⟩ kw hk
    rcases List.mem_append.1 hk with h | h
    · exact h1 kw h
    · exact h2 kw h

theorem RegsIn.ext {m m' : RegMap} {l : List (String × Nat)} (h : RegsIn m l) (he : RExt m m') : RegsIn m' l := by
  intro kw hk
  have := h kw hk
  cases hg : assocGet kw.1 m with
  | none => exact absurd hg this
  | some e => rw [he _ e hg]; simp

theorem readVals_ext {m m' : RegMap} (he : RExt m m') {l : List (String × Nat)} (h : RegsIn m l) :
    readVals m' l = readVals m l := by
  induction l with
  | nil => rfl
  | cons kw l ih =>
    have h1 : RegsIn m l := fun x hx => h x (List.mem_cons_of_mem _ hx)
    have h2 := load_ext he (h kw (List.mem_cons_self ..)) kw.2
    simp only [readVals, List.filterMap_cons] at ih ⊢
    rw [h2, ih h1]

theorem readVals_append (m : RegMap) (l1 l2 : List (String × Nat)) :
    readVals m (l1 ++ l2) = readVals m l1 ++ readVals m l2 := by
  simp [readVals, List.filterMap_append]

theorem substRegs_ext {m m' : RegMap} (he : RExt m m') : ∀ e : Expr, RegsIn m (regLoads e) →
    substRegs m' e = substRegs m e
  | .const _, _ => rfl
  | .binary op a b w, h => by
    simp only [regLoads, RegsIn.append] at h
    simp only [substRegs, substRegs_ext he a h.1, substRegs_ext he b h.2]
  | .less a b t f w, h => by
    simp only [regLoads, RegsIn.append] at h
    simp only [substRegs, substRegs_ext he a h.1.1.1, substRegs_ext he b h.1.1.2,
      substRegs_ext he t h.1.2, substRegs_ext he f h.2]
  | .memLoad k a w, h => by
    simp only [regLoads] at h
    simp only [substRegs, substRegs_ext he a h]
  | .regLoad k w, h => by
    simp only [substRegs]
    rw [load_ext he (h (k, w) (by simp [regLoads]))]

/-- the requests the register phase may issue for an expression: one per load, at the greater of
the load width and the width of the register in the code (REPAIR F70) -/
def RegReqOf (code : CodeView) (l : List (String × Nat)) (r : Req) : Prop :=
  ∃ kw ∈ l, r = .reg kw.1 (max kw.2 (code.regWidth kw.1))

/-- what the register phase guarantees -/
structure RegsOut (p : Provider) (code : CodeView) (e : Expr) (c c' : Ctx) : Prop where
  log : ∃ l, c'.log = c.log ++ l ∧ Fill p c.st l c'.st ∧ ∀ r ∈ l, RegReqOf code (regLoads e) r
  mems : c'.st.mems = c.st.mems
  regsConst : RegsConst c'.st.regs
  regsIn : RegsIn c'.st.regs (regLoads e)
  rep : c'.rep = noteReads c.rep (readVals c'.st.regs (regLoads e))

theorem regValue_spec (p : Provider) (code : CodeView) (c : Ctx) (key : String) (w : Nat)
    (hr : RegsConst c.st.regs) :
    (∃ v, assocGet key c.st.regs = some (.const v) ∧ regValue p code c key w = .ok (cw v w, c)) ∨
    (assocGet key c.st.regs = none ∧
      regValue p code c key w =
        .ok (Const.withWidth (Const.withWidth (p.reg key (max w (code.regWidth key))) (max w (code.regWidth key))) w,
          { c with st := fillReg p c.st key (max w (code.regWidth key))
                   log := c.log ++ [.reg key (max w (code.regWidth key))] })) := by
  cases hg : assocGet key c.st.regs with
  | some e =>
    obtain ⟨v, hv⟩ := hr key e hg
    subst hv
    left
    refine ⟨v, rfl, ?_⟩
    unfold regValue
    rw [load_const hg]
  | none =>
    right
    refine ⟨rfl, ?_⟩
    unfold regValue
    rw [load_none hg]
    rfl

theorem evalRegs_spec (p : Provider) (code : CodeView) : ∀ (e : Expr) (c : Ctx), RegsConst c.st.regs →
    ∃ c', evalRegs p code e c = .ok (substRegs c'.st.regs e, c') ∧ RegsOut p code e c c'
  | .const bs, c, hr =>
    ⟨c, rfl, { log := ⟨[], by simp, Fill.nil _, fun _ h => (nomatch h)⟩, mems := rfl, regsConst := hr,
               regsIn := fun _ h => (nomatch h), rep := rfl }⟩
  | .regLoad k w, c, hr => by
    rcases regValue_spec p code c k w hr with ⟨v, hv, hreg⟩ | ⟨hn, hreg⟩
    · refine ⟨{ c with rep := c.rep.inputReg k (cw v w) }, ?_, ?_⟩
      · simp only [evalRegs, hreg, substRegs, load_const hv, Option.getD]
      · refine ⟨⟨[], by simp, Fill.nil _, fun _ h => (nomatch h)⟩, rfl, hr, ?_, ?_⟩
        · intro kw hk
          simp only [regLoads, List.mem_singleton] at hk
          subst hk
          show assocGet k c.st.regs ≠ none
          rw [hv]
          simp
        · simp [regLoads, readVals, load_const hv, noteReads]
    · let full := max w (code.regWidth k)
      let val := Const.withWidth (p.reg k full) full
      have hlen : val.length = full := withWidth_length _ _
      have hload : (fillReg p c.st k full).regs.load k w = some (.const (cw val w)) := by
        show (RegMap.store _ _ _ _).load k w = _
        rw [load_store_const]
        have h : cw val full = val := by
          have := cw_self val
          rwa [hlen] at this
        show some (Expr.const (cw (cw val full) w)) = _
        rw [h]
      refine ⟨{ c with st := fillReg p c.st k full, log := c.log ++ [.reg k full],
                       rep := c.rep.inputReg k (Const.withWidth val w) }, ?_, ?_⟩
      · simp only [evalRegs, hreg, substRegs]
        rw [hload]
        show Except.ok (Expr.const (Const.withWidth val w), _) = Except.ok (Expr.const (cw val w), _)
        rw [withWidth_eq_cw val w]
      · refine ⟨⟨[.reg k full], rfl, Fill.single_reg hn, ?_⟩, rfl, regsConst_store hr k _ full, ?_, ?_⟩
        · intro r hr'
          simp only [List.mem_singleton] at hr'
          subst hr'
          exact ⟨(k, w), by simp [regLoads], rfl⟩
        · intro kw hk
          simp only [regLoads, List.mem_singleton] at hk
          subst hk
          show assocGet k (RegMap.store _ _ _ _) ≠ none
          unfold RegMap.store
          rw [assocGet_set_same]
          simp
        · show _ = noteReads c.rep (readVals (fillReg p c.st k full).regs (regLoads (.regLoad k w)))
          simp only [regLoads, readVals, List.filterMap_cons, List.filterMap_nil, hload, noteReads,
            List.foldl_cons, List.foldl_nil, withWidth_eq_cw]
  | .memLoad k a w, c, hr => by
    obtain ⟨c1, h1, o1⟩ := evalRegs_spec p code a c hr
    refine ⟨c1, ?_, ?_⟩
    · simp only [evalRegs, h1, substRegs]
    · exact ⟨o1.log, o1.mems, o1.regsConst, o1.regsIn, o1.rep⟩
  | .binary op a b w, c, hr => by
    obtain ⟨c1, h1, o1⟩ := evalRegs_spec p code a c hr
    obtain ⟨c2, h2, o2⟩ := evalRegs_spec p code b c1 o1.regsConst
    obtain ⟨l1, hl1, hf1, hq1⟩ := o1.log
    obtain ⟨l2, hl2, hf2, hq2⟩ := o2.log
    have he : RExt c1.st.regs c2.st.regs := hf2.rext
    refine ⟨c2, ?_, ?_⟩
    · simp only [evalRegs, h1, h2, substRegs, substRegs_ext he a o1.regsIn]
    · refine ⟨⟨l1 ++ l2, by rw [hl2, hl1, List.append_assoc], hf1.append hf2, ?_⟩,
        o2.mems.trans o1.mems, o2.regsConst, ?_, ?_⟩
      · intro r hr'
        rcases List.mem_append.1 hr' with h | h
        · obtain ⟨kw, hk, e⟩ := hq1 r h
          exact ⟨kw, by simp [regLoads, hk], e⟩
        · obtain ⟨kw, hk, e⟩ := hq2 r h
          exact ⟨kw, by simp [regLoads, hk], e⟩
      · simp only [regLoads, RegsIn.append]
        exact ⟨o1.regsIn.ext he, o2.regsIn⟩
      · rw [o2.rep, o1.rep]
        simp only [regLoads, readVals_append, noteReads_append, readVals_ext he o1.regsIn]
  | .less a b t f w, c, hr => by
    obtain ⟨c1, h1, o1⟩ := evalRegs_spec p code a c hr
    obtain ⟨c2, h2, o2⟩ := evalRegs_spec p code b c1 o1.regsConst
    obtain ⟨c3, h3, o3⟩ := evalRegs_spec p code t c2 o2.regsConst
    obtain ⟨c4, h4, o4⟩ := evalRegs_spec p code f c3 o3.regsConst
    obtain ⟨l1, hl1, hf1, hq1⟩ := o1.log
    obtain ⟨l2, hl2, hf2, hq2⟩ := o2.log
    obtain ⟨l3, hl3, hf3, hq3⟩ := o3.log
    obtain ⟨l4, hl4, hf4, hq4⟩ := o4.log
    have e12 : RExt c1.st.regs c2.st.regs := hf2.rext
    have e23 : RExt c2.st.regs c3.st.regs := hf3.rext
    have e34 : RExt c3.st.regs c4.st.regs := hf4.rext
    have e24 := e23.trans e34
    have e14 := e12.trans e24
    refine ⟨c4, ?_, ?_⟩
    · simp only [evalRegs, h1, h2, h3, h4, substRegs, substRegs_ext e14 a o1.regsIn,
        substRegs_ext e24 b o2.regsIn, substRegs_ext e34 t o3.regsIn]
    · refine ⟨⟨l1 ++ l2 ++ l3 ++ l4, by rw [hl4, hl3, hl2, hl1]; simp [List.append_assoc],
          ((hf1.append hf2).append hf3).append hf4, ?_⟩,
        ((o4.mems.trans o3.mems).trans o2.mems).trans o1.mems, o4.regsConst, ?_, ?_⟩
      · intro r hr'
        simp only [List.mem_append] at hr'
        rcases hr' with ((h | h) | h) | h
        · obtain ⟨kw, hk, e⟩ := hq1 r h
          exact ⟨kw, by simp [regLoads, hk], e⟩
        · obtain ⟨kw, hk, e⟩ := hq2 r h
          exact ⟨kw, by simp [regLoads, hk], e⟩
        · obtain ⟨kw, hk, e⟩ := hq3 r h
          exact ⟨kw, by simp [regLoads, hk], e⟩
        · obtain ⟨kw, hk, e⟩ := hq4 r h
          exact ⟨kw, by simp [regLoads, hk], e⟩
      · simp only [regLoads, RegsIn.append]
        exact ⟨⟨⟨o1.regsIn.ext e14, o2.regsIn.ext e24⟩, o3.regsIn.ext e34⟩, o4.regsIn⟩
      · rw [o4.rep, o3.rep, o2.rep, o1.rep]
        simp only [regLoads, readVals_append, noteReads_append, readVals_ext e14 o1.regsIn,
          readVals_ext e24 o2.regsIn, readVals_ext e34 o3.regsIn]

end Mltwist.Lemmas.Emulator
