import Mltwist.Lemmas.RiscvLiftValuesM
/-
C01 library, part 5c: values that exist only on RV64 — `lui` (sign-extended 32-bit constant) and the
`…w` forms, which compute at 4 bytes inside an 8-byte machine and sign-extend (`sext32To64`).

Every lemma is `Ctx.eval_<mnemonic> (h : Ctx 64 8 ρ s w) : (sext32To64 <4-byte op>).eval ρ
= Spec.Rv.sext 64 32 v` with `v` literally the argument of `w32` in `exec_<mnemonic>`, so that
`StepOK.of_wr h (exec_addw ..) (h.eval_addw _)` closes the entry (`hv` is `rfl`).
Registers are read at 4 bytes: `h.eval_rs1' a 4 : … = trunc 4 A`.
-/
namespace Mltwist.Lemmas.RiscvLift
open Mltwist Mltwist.Riscv Mltwist.Spec.Rv Mltwist.Spec.Lift
open Mltwist.Lemmas.EvalBasic Mltwist.Lemmas.Gadgets

/-- `Rv.sext` of two values that agree on the low `n` bits -/
theorem rvsext_congr {xlen n x y : Nat} (hxy : x % 2 ^ n = y % 2 ^ n) :
    Spec.Rv.sext xlen n x = Spec.Rv.sext xlen n y := by
  rw [← rvsext_mod xlen n x, hxy, rvsext_mod]

theorem trunc4 (x : Nat) : trunc 4 x = x % 2 ^ 32 := rfl

/-- `sext32To64 e` in terms of any `v` congruent to the value of `e` mod `2^32` -/
theorem eval_sext32To64_of (ρ : Env) (e : Expr) {v' v : Nat} (he : e.eval ρ = v')
    (hv : v' % 2 ^ 32 = v % 2 ^ 32) : (sext32To64 e).eval ρ = Spec.Rv.sext 64 32 v := by
  rw [eval_sext32To64, he]; exact rvsext_congr hv

/-- the shift-amount constant of `regImmShift f i k W'` seen by a `W'`-byte operator (`W' ≥ 2`),
independent of the machine width -/
theorem eval_shamt' (ρ : Env) {w k W' : Nat} (hw : w < 2 ^ 32) (hk : k ≤ 12) (hW' : 2 ≤ W') :
    trunc W' ((constFromInt 4 ((immParse .I w).1 % ((2 ^ k : Nat) : Int))).eval ρ) = bits w 20 k := by
  have hlt : bits w 20 k < 2 ^ 12 :=
    Nat.lt_of_lt_of_le (bits_lt _ _ _) (Nat.pow_le_pow_right (by decide) hk)
  rw [eval_constFromInt, immParse_I hw]
  have : wrap (8 * 4) (immI w % ((2 ^ k : Nat) : Int)) = bits w 20 k := by
    have e := immI_mod (w := w) hk
    have hnn : 0 ≤ immI w % ((2 ^ k : Nat) : Int) :=
      Int.emod_nonneg _ (by have := pow_pos' k; omega)
    have hc : immI w % ((2 ^ k : Nat) : Int) = ((bits w 20 k : Nat) : Int) := by omega
    have hlt' : bits w 20 k < 2 ^ (8 * 4) := Nat.lt_of_lt_of_le hlt (by decide)
    rw [hc, wrap_of_lt hlt']
  rw [this]
  apply EvalBasic.trunc_of_lt
  have : 2 ^ 12 ≤ 2 ^ (8 * W') := Nat.pow_le_pow_right (by decide) (by omega)
  omega

namespace Ctx
variable {ρ : Env} {s : St} {w : Nat}

/-- `lui` on RV64: the sign-extended 32-bit U-immediate -/
theorem eval_lui64 (h : Ctx 64 8 ρ s w) :
    (sext32To64 (constFromInt 4 (immParse .U w).1)).eval ρ = wrap 64 (immU w) := by
  have hb := immU_bounds w
  rw [eval_sext32To64, eval_constFromInt, immParse_U h.hw]
  unfold Spec.Rv.sext
  rw [sx_wrap (n := 8 * 4) (by decide) (by simp; omega) (by simp; omega)]

/-- the 4-byte shift amounts: `bits w 20 5` and `B % 32` -/
theorem eval_shamtw (h : Ctx 64 8 ρ s w) :
    trunc 4 ((constFromInt 4 ((immParse .I w).1 % ((2 ^ 5 : Nat) : Int))).eval ρ) = bits w 20 5 :=
  eval_shamt' ρ h.hw (by decide) (by decide)

theorem eval_maskedShamtw (h : Ctx 64 8 ρ s w) (a : Nat) :
    trunc 4 ((Tools.maskBits (regLoad .rs2 ⟨a, w⟩ 4) 5 4).eval ρ) = s.get (rs2 w) % 32 := by
  rw [eval_maskBits _ _ _ _ (by decide), h.eval_rs2']
  unfold Spec.mask
  simp only [trunc4]
  omega

theorem bits5_lt (w : Nat) : bits w 20 5 < 32 := bits_lt w 20 5

theorem eval_addiw (h : Ctx 64 8 ρ s w) (a : Nat) :
    (sext32To64 (regImmOp (binOpFunc .add) .I ⟨a, w⟩ 4)).eval ρ
      = Spec.Rv.sext 64 32 (wrap 32 ((s.get (rs1 w) : Int) + immI w)) := by
  refine eval_sext32To64_of ρ _ rfl ?_
  simp only [regImmOp, binOpFunc, eval_binary, h.eval_rs1', h.eval_immI, evalBin, trunc4,
    Nat.reduceMul]
  rw [← add_wrap_mod]
  omega

theorem eval_slliw (h : Ctx 64 8 ρ s w) (a : Nat) :
    (sext32To64 (regImmShift (binOpFunc .lsh) ⟨a, w⟩ 5 4)).eval ρ
      = Spec.Rv.sext 64 32 (s.get (rs1 w) % 2 ^ 32 * 2 ^ bits w 20 5) := by
  refine eval_sext32To64_of ρ _ rfl ?_
  have := bits5_lt w
  simp only [regImmShift, binOpFunc, eval_binary, h.eval_rs1', h.eval_shamtw, evalBin, trunc_trunc]
  rw [if_neg (by omega), Nat.mod_mod]; rfl

theorem eval_srliw (h : Ctx 64 8 ρ s w) (a : Nat) :
    (sext32To64 (regImmShift (binOpFunc .rsh) ⟨a, w⟩ 5 4)).eval ρ
      = Spec.Rv.sext 64 32 (s.get (rs1 w) % 2 ^ 32 / 2 ^ bits w 20 5) := by
  refine eval_sext32To64_of ρ _ rfl ?_
  have := bits5_lt w
  simp only [regImmShift, binOpFunc, eval_binary, h.eval_rs1', h.eval_shamtw, evalBin, trunc_trunc]
  rw [if_neg (by omega)]; rfl

/-- `sra 32` only looks at the low 32 bits -/
theorem sra_mod (n x sh : Nat) : sra n (x % 2 ^ n) sh = sra n x sh := by
  unfold sra; rw [sx_mod]

theorem eval_sraiw (h : Ctx 64 8 ρ s w) (a : Nat) :
    (sext32To64 (regImmShift Tools.rshA ⟨a, w⟩ 5 4)).eval ρ
      = Spec.Rv.sext 64 32 (sra 32 (s.get (rs1 w)) (bits w 20 5)) := by
  refine eval_sext32To64_of ρ _ ?_ rfl
  have := bits5_lt w
  simp only [regImmShift]
  rw [eval_rshA _ _ _ _ (by decide) (by decide), h.eval_rs1', h.eval_shamtw,
    rsha_bridge (trunc_lt _ _) (by omega), trunc4]
  exact sra_mod 32 _ _

theorem eval_addw (h : Ctx 64 8 ρ s w) (a : Nat) :
    (sext32To64 (reg2Op (binOpFunc .add) ⟨a, w⟩ 4)).eval ρ
      = Spec.Rv.sext 64 32 (s.get (rs1 w) + s.get (rs2 w)) := by
  refine eval_sext32To64_of ρ _ rfl ?_
  simp only [reg2Op, binOpFunc, eval_binary, h.eval_rs1', h.eval_rs2', evalBin, trunc4]
  omega

theorem eval_subw (h : Ctx 64 8 ρ s w) (a : Nat) :
    (sext32To64 (reg2Op Tools.sub ⟨a, w⟩ 4)).eval ρ
      = Spec.Rv.sext 64 32 (wrap 32 ((s.get (rs1 w) : Int) - s.get (rs2 w))) := by
  refine eval_sext32To64_of ρ _ ?_ rfl
  unfold reg2Op
  rw [Gadgets.eval_sub, h.eval_rs1', h.eval_rs2', trunc_trunc, trunc_trunc, sub_eq_wrap]
  apply wrap_congr
  rw [trunc4, trunc4, Int.natCast_emod, Int.natCast_emod, ← Int.sub_emod]

theorem eval_sllw (h : Ctx 64 8 ρ s w) (a : Nat) :
    (sext32To64 (maskedRegOp (binOpFunc .lsh) ⟨a, w⟩ 5 4)).eval ρ
      = Spec.Rv.sext 64 32 (s.get (rs1 w) % 2 ^ 32 * 2 ^ (s.get (rs2 w) % 32)) := by
  refine eval_sext32To64_of ρ _ rfl ?_
  have : s.get (rs2 w) % 32 < 32 := Nat.mod_lt _ (by decide)
  simp only [maskedRegOp, binOpFunc, eval_binary, h.eval_rs1', h.eval_maskedShamtw, evalBin,
    trunc_trunc]
  rw [if_neg (by omega), Nat.mod_mod]; rfl

theorem eval_srlw (h : Ctx 64 8 ρ s w) (a : Nat) :
    (sext32To64 (maskedRegOp (binOpFunc .rsh) ⟨a, w⟩ 5 4)).eval ρ
      = Spec.Rv.sext 64 32 (s.get (rs1 w) % 2 ^ 32 / 2 ^ (s.get (rs2 w) % 32)) := by
  refine eval_sext32To64_of ρ _ rfl ?_
  have : s.get (rs2 w) % 32 < 32 := Nat.mod_lt _ (by decide)
  simp only [maskedRegOp, binOpFunc, eval_binary, h.eval_rs1', h.eval_maskedShamtw, evalBin,
    trunc_trunc]
  rw [if_neg (by omega)]; rfl

theorem eval_sraw (h : Ctx 64 8 ρ s w) (a : Nat) :
    (sext32To64 (maskedRegOp Tools.rshA ⟨a, w⟩ 5 4)).eval ρ
      = Spec.Rv.sext 64 32 (sra 32 (s.get (rs1 w)) (s.get (rs2 w) % 32)) := by
  refine eval_sext32To64_of ρ _ ?_ rfl
  have : s.get (rs2 w) % 32 < 32 := Nat.mod_lt _ (by decide)
  simp only [maskedRegOp]
  rw [eval_rshA _ _ _ _ (by decide) (by decide), h.eval_rs1', h.eval_maskedShamtw,
    rsha_bridge (trunc_lt _ _) (by omega), trunc4]
  exact sra_mod 32 _ _

/-! ### M extension, `…w` forms -/

theorem eval_mulw (h : Ctx 64 8 ρ s w) (a : Nat) :
    (sext32To64 (reg2Op (binOpFunc .mul) ⟨a, w⟩ 4)).eval ρ
      = Spec.Rv.sext 64 32 (s.get (rs1 w) * s.get (rs2 w)) := by
  refine eval_sext32To64_of ρ _ rfl ?_
  simp only [reg2Op, binOpFunc, eval_binary, h.eval_rs1', h.eval_rs2', evalBin, trunc_trunc]
  rw [Nat.mod_mod, trunc4, trunc4, ← Nat.mul_mod]

theorem eval_divw (h : Ctx 64 8 ρ s w) (a : Nat) :
    (sext32To64 (Tools.signedDiv (regLoad .rs1 ⟨a, w⟩ 4) (regLoad .rs2 ⟨a, w⟩ 4) 4)).eval ρ
      = Spec.Rv.sext 64 32 (sdiv 32 (s.get (rs1 w)) (s.get (rs2 w))) :=
  eval_sext32To64_of ρ _ (h.eval_div' a (by decide) (by decide)) rfl

theorem eval_divuw (h : Ctx 64 8 ρ s w) (a : Nat) :
    (sext32To64 (reg2Op (binOpFunc .div) ⟨a, w⟩ 4)).eval ρ
      = Spec.Rv.sext 64 32 (udiv 32 (s.get (rs1 w)) (s.get (rs2 w))) :=
  eval_sext32To64_of ρ _ (h.eval_divu' a 4) rfl

theorem eval_remw (h : Ctx 64 8 ρ s w) (a : Nat) :
    (sext32To64 (signedRem (regLoad .rs1 ⟨a, w⟩ 4) (regLoad .rs2 ⟨a, w⟩ 4) 4)).eval ρ
      = Spec.Rv.sext 64 32 (srem 32 (s.get (rs1 w)) (s.get (rs2 w))) :=
  eval_sext32To64_of ρ _ (h.eval_rem' a (by decide) (by decide)) rfl

theorem eval_remuw (h : Ctx 64 8 ρ s w) (a : Nat) :
    (sext32To64 (Tools.mod (regLoad .rs1 ⟨a, w⟩ 4) (regLoad .rs2 ⟨a, w⟩ 4) 4)).eval ρ
      = Spec.Rv.sext 64 32 (urem 32 (s.get (rs1 w)) (s.get (rs2 w))) :=
  eval_sext32To64_of ρ _ (h.eval_remu' a 4) rfl

/-! ### A extension, `.w` forms on RV64 -/

/-- `lr.w` on RV64 -/
theorem eval_lr_w64 (h : Ctx 64 8 ρ s w) (a : Nat) (hn : s.get (rs1 w) + 4 ≤ 2 ^ 64) :
    (sext32To64 (Riscv.memLoad (regLoad .rs1 ⟨a, w⟩ 8) 4)).eval ρ
      = Spec.Rv.sext 64 32 (s.load (s.get (rs1 w)) 4) := by
  rw [eval_sext32To64, h.eval_amoLoad a 4 hn]

/-- `hv` of `of_sc`/`of_amo` when the stored register is read at `n` bytes (`sc.w`, `amoswap.w`) -/
theorem store_val' (h : Ctx 64 8 ρ s w) (a n : Nat) :
    trunc n ((regLoad .rs2 ⟨a, w⟩ n).eval ρ) = s.get (rs2 w) % 2 ^ (8 * n) := by
  rw [h.eval_rs2', trunc_trunc]; rfl

end Ctx

end Mltwist.Lemmas.RiscvLift
