import Mltwist.Lemmas.MemViewLines
import Mltwist.Lemmas.BytesMemRead
import Mltwist.Lemmas.Transform
import Mathlib.Tactic.NormNum
/-
C32, part 2: cells (`formatMemLine`), the `address` command, `Print`, absence of panics.
-/
namespace Mltwist.Lemmas.MemView
open Mltwist Mltwist.MemView

/-! ### `formatMemLine` -/

/-- the memory answers every stored address with a constant whose first byte is `σ a`;
`σ` is undefined elsewhere -/
structure Coh (mem : Mem) (bl : List Range) (σ : Nat → Option UInt8) : Prop where
  blocks : mem.blocks = some bl
  stored : ∀ a, MemR a bl → ∃ b rest, mem.load1 a = some (b :: rest) ∧ σ a = some b
  absent : ∀ a, ¬ MemR a bl → σ a = none

/-- the scan of `formatMemLine` over the ranges: `done` are the ranges left behind (`i = |done|`) -/
theorem fmtLoop_eq (mem : Mem) (l : Line) (σ : Nat → Option UInt8)
    (hst : ∀ a, l.addr ≤ a → a < l.addr + 16 → (∃ r ∈ l.ranges, r.1 ≤ a ∧ a < r.2) →
      ∃ b rest, mem.load1 a = some (b :: rest) ∧ σ a = some b)
    (hab : ∀ a, l.addr ≤ a → a < l.addr + 16 → (¬ ∃ r ∈ l.ranges, r.1 ≤ a ∧ a < r.2) → σ a = none)
    (f : Nat) : ∀ (off : Nat) (done todo : List Range), l.ranges = done ++ todo → f + off = 16 →
      (∀ r ∈ done, r.2 ≤ l.addr + off) → (∀ r ∈ todo, l.addr + off ≤ r.2) →
      todo.Pairwise (fun r r' => r.2 < r'.1) → (∀ r ∈ todo, r.1 < r.2) →
      fmtLoop mem l f off done.length = some (Spec.MemView.cellsText σ l.addr f off) := by
  induction f with
  | zero => intros; rfl
  | succ f ih =>
    intro off done todo hsplit hoff hdone htodo hpw hpos
    have hidx : l.ranges[done.length]? = todo.head? := by
      rw [hsplit, List.getElem?_append_right (Nat.le_refl _), Nat.sub_self]
      cases todo <;> rfl
    have hoff16 : off < 16 := by omega
    -- the conditional increment
    obtain ⟨done', todo', hsplit', hi', hdone', htodo', hpw', hpos'⟩ :
        ∃ done' todo', l.ranges = done' ++ todo' ∧
          advance l.ranges done.length (l.addr + off) = done'.length ∧
          (∀ r ∈ done', r.2 ≤ l.addr + off) ∧ (∀ r ∈ todo', l.addr + off < r.2) ∧
          todo'.Pairwise (fun r r' => r.2 < r'.1) ∧ (∀ r ∈ todo', r.1 < r.2) := by
      unfold advance
      rw [hidx]
      cases todo with
      | nil => exact ⟨done, [], hsplit, rfl, hdone, by simp, hpw, hpos⟩
      | cons r t =>
        simp only [List.head?_cons]
        by_cases hge : l.addr + off ≥ r.2
        · refine ⟨done ++ [r], t, by simp [hsplit], by simp [hge], ?_, ?_, ?_, ?_⟩
          · intro x hx
            rcases List.mem_append.mp hx with hx | hx
            · exact hdone x hx
            · simp only [List.mem_singleton] at hx; subst hx; exact hge
          · intro x hx
            rw [List.pairwise_cons] at hpw
            have h1 := hpw.1 x hx
            have h2 := htodo r (List.mem_cons_self ..)
            have h3 := hpos x (List.mem_cons_of_mem _ hx)
            omega
          · exact (List.pairwise_cons.mp hpw).2
          · exact fun x hx => hpos x (List.mem_cons_of_mem _ hx)
        · refine ⟨done, r :: t, hsplit, by simp [hge], hdone, ?_, hpw, hpos⟩
          intro x hx
          rcases List.mem_cons.mp hx with rfl | hx'
          · omega
          · rw [List.pairwise_cons] at hpw
            have h1 := hpw.1 x hx'
            have h3 := hpos x hx
            have h4 := hpos r (List.mem_cons_self ..)
            omega
    have hidx' : l.ranges[done'.length]? = todo'.head? := by
      rw [hsplit', List.getElem?_append_right (Nat.le_refl _), Nat.sub_self]
      cases todo' <;> rfl
    -- is the address in a range?
    have hcell : cellAt mem l.ranges done'.length (l.addr + off) =
        some (Spec.MemView.cellText (σ (l.addr + off))) := by
      unfold cellAt
      rw [hidx']
      cases todo' with
      | nil =>
        have : ¬ ∃ r ∈ l.ranges, r.1 ≤ l.addr + off ∧ l.addr + off < r.2 := by
          rintro ⟨r, hr, h1, h2⟩
          rw [hsplit', List.append_nil] at hr
          have := hdone' r hr; omega
        rw [hab _ (by omega) (by omega) this]
        rfl
      | cons r t =>
        simp only [List.head?_cons]
        by_cases hgt : r.1 > l.addr + off
        · have : ¬ ∃ r ∈ l.ranges, r.1 ≤ l.addr + off ∧ l.addr + off < r.2 := by
            rintro ⟨x, hx, h1, h2⟩
            rw [hsplit'] at hx
            rcases List.mem_append.mp hx with hx | hx
            · have := hdone' x hx; omega
            · rcases List.mem_cons.mp hx with rfl | hx'
              · omega
              · rw [List.pairwise_cons] at hpw'
                have := hpw'.1 x hx'
                have := hpos' r (List.mem_cons_self ..)
                omega
          rw [hab _ (by omega) (by omega) this]
          simp only [hgt, if_true]
          rfl
        · have hin : ∃ r ∈ l.ranges, r.1 ≤ l.addr + off ∧ l.addr + off < r.2 :=
            ⟨r, by rw [hsplit']; simp, by omega, htodo' r (List.mem_cons_self ..)⟩
          obtain ⟨b, rest, hl, hs⟩ := hst _ (by omega) (by omega) hin
          simp only [hgt, if_false, hl, hs]
          rfl
    have hrec := ih (off + 1) done' todo' hsplit' (by omega)
      (fun r hr => by have := hdone' r hr; omega)
      (fun r hr => by have := htodo' r hr; omega) hpw' hpos'
    simp only [fmtLoop, hi', hcell, hrec, Spec.MemView.cellsText, sepAt, bytesSpace,
      List.append_assoc]
    rfl

/-- a row of the view shows exactly the stored bytes of its window -/
theorem formatMemLine_eq {mem : Mem} {bl : List Range} {σ : Nat → Option UInt8} (hc : Coh mem bl σ)
    (h : NormalR bl) {l : Line} (hl : l ∈ rowsOf bl) :
    formatMemLine mem l = some (Spec.MemView.rowCells σ l.addr) := by
  obtain ⟨hpw, hel⟩ := rowsOf_ranges h hl
  unfold formatMemLine bytesPerLine Spec.MemView.rowCells
  refine fmtLoop_eq mem l σ ?_ ?_ 16 0 [] l.ranges rfl rfl (by simp) ?_ hpw (fun r hr => (hel r hr).2.1)
  · intro a h1 h2 hin
    exact hc.stored a ((rowsOf_cells h hl a h1 h2).mp hin)
  · intro a h1 h2 hnin
    exact hc.absent a (fun hm => hnin ((rowsOf_cells h hl a h1 h2).mpr hm))
  · intro r hr
    have := hel r hr
    omega

/-! ### the view and its commands -/

theorem newMemoryView_eq {mem : Mem} {bl : List Range} (hb : mem.blocks = some bl) (h : NormalR bl) :
    newMemoryView (some mem) = some ⟨addEmptyLines (rowsOf bl), 0⟩ := by
  simp only [newMemoryView, hb, memoryLines_eq h]

/-- the lines of the view of normal blocks -/
def viewLines (bl : List Range) : List Line := addEmptyLines (rowsOf bl)

theorem rowsOf_addr16 {bl : List Range} (h : NormalR bl) : ∀ l ∈ rowsOf bl, l.addr % 16 = 0 :=
  fun l hl => ((rowsOf_mem h l.addr).mp (List.mem_map.mpr ⟨l, hl, rfl⟩)).1

/-- the view shows the layout of the specification for the windows that meet stored memory -/
theorem viewLines_layout {bl : List Range} (h : NormalR bl) :
    (viewLines bl).map key = Spec.MemView.layout ((rowsOf bl).map (·.addr)) :=
  addEmptyLines_layout _ (rowsOf_nonempty bl) (rowsOf_addr16 h)

theorem viewLines_mem {bl : List Range} {l : Line} (hl : l ∈ viewLines bl) :
    l = Line.empty ∨ l ∈ rowsOf bl := by
  unfold viewLines addEmptyLines at hl
  simp only at hl
  split at hl
  · split at hl
    · rcases List.mem_append.mp hl with h | h
      · exact addEmptyLoop_mem _ _ _ h
      · simp only [List.mem_singleton] at h; exact Or.inl h
    · exact addEmptyLoop_mem _ _ _ hl
  · exact addEmptyLoop_mem _ _ _ hl

/-- all block ends are addresses -/
def Bounded (bl : List Range) : Prop := ∀ b ∈ bl, b.2 < 2 ^ 64

theorem rowsOf_bounded {bl : List Range} (h : NormalR bl) (hb : Bounded bl) :
    ∀ l ∈ rowsOf bl, l.addr + 16 ≤ 2 ^ 64 := by
  intro l hl
  obtain ⟨r, hr⟩ := List.exists_mem_of_ne_nil _ (rowsOf_nonempty bl l hl)
  have hx : (l.addr, r) ∈ piecesOf bl := by
    rw [← rowsOf_flat]; exact mem_flat.mpr ⟨l, hl, rfl, hr⟩
  obtain ⟨b, hbm, hxb⟩ := mem_piecesOf.mp hx
  obtain ⟨_, _, _, _, h5⟩ := pieces_elt (h.all_pos b hbm) hxb
  have := hb b hbm
  simp only at h5
  omega

theorem lineHasAddr_key {l : Line} (h16 : l.ranges ≠ [] → l.addr % 16 = 0 ∧ l.addr + 16 ≤ 2 ^ 64)
    {a : Nat} (ha : a < 2 ^ 64) :
    lineHasAddr a l = (key l == some (Spec.MemView.windowOf a)) := by
  have p64 : (2 : Nat) ^ 64 = 18446744073709551616 := by norm_num
  rw [p64] at ha h16
  unfold lineHasAddr key Line.isEllipsis Spec.MemView.windowOf bytesPerLine
  rw [p64]
  cases hr : l.ranges with
  | nil => simp
  | cons r rs =>
    obtain ⟨h1, h2⟩ := h16 (by rw [hr]; simp)
    simp only [List.isEmpty_cons, Bool.not_false, Bool.true_and, Bool.false_eq_true, if_false]
    by_cases hin : l.addr ≤ a ∧ a < l.addr + 16
    · have e1 : (a + 18446744073709551616 - l.addr) % 18446744073709551616 < 16 := by omega
      have e2 : l.addr = a / 16 * 16 := by omega
      simp [e1, ← e2]
    · have e1 : ¬ (a + 18446744073709551616 - l.addr) % 18446744073709551616 < 16 := by omega
      have e2 : l.addr ≠ a / 16 * 16 := by omega
      simp [e1, e2]

/-- observation F81 (wider reading, not the code): searching by window = the row of the window of `a` -/
theorem findLineWindow_eq {bl : List Range} (h : NormalR bl) (hb : Bounded bl) {a : Nat} (ha : a < 2 ^ 64) :
    findLineWindow a (viewLines bl) = Spec.MemView.addrIndex ((viewLines bl).map key) a := by
  unfold findLineWindow Spec.MemView.addrIndex
  have : ∀ l ∈ viewLines bl, lineHasAddr a l = (key l == some (Spec.MemView.windowOf a)) := by
    intro l hl
    apply lineHasAddr_key _ ha
    intro hne
    rcases viewLines_mem hl with rfl | hr
    · exact absurd rfl hne
    · exact ⟨rowsOf_addr16 h l hr, rowsOf_bounded h hb l hr⟩
  have e : (viewLines bl).findIdx (lineHasAddr a) =
      ((viewLines bl).map key).findIdx (· == some (Spec.MemView.windowOf a)) := by
    generalize viewLines bl = L at this
    induction L with
    | nil => rfl
    | cons x L ih =>
      simp only [List.map_cons, List.findIdx_cons, this x (List.mem_cons_self ..)]
      rw [ih (fun l hl => this l (List.mem_cons_of_mem _ hl))]
  simp only [e, List.length_map]

/-- observation F81: a command searching by window would move to that row or report an error -/
theorem cmdAddressWindow_eq {bl : List Range} (h : NormalR bl) (hb : Bounded bl) (c : Nat) {a : Nat}
    (ha : a < 2 ^ 64) :
    cmdAddressWindow ⟨viewLines bl, c⟩ a =
      (Spec.MemView.addrIndex ((viewLines bl).map key) a).map fun i => ⟨viewLines bl, i⟩ := by
  unfold cmdAddressWindow
  simp only [findLineWindow_eq h hb ha]
  cases hi : Spec.MemView.addrIndex ((viewLines bl).map key) a with
  | none => rfl
  | some i =>
    have hlt : i < (viewLines bl).length := by
      unfold Spec.MemView.addrIndex at hi
      simp only [List.length_map] at hi
      split_ifs at hi with hc
      · cases hi; exact hc
    simp only [cursorSet, Option.map_some]
    have h1 : ¬ ((i : Int) < 0) := by omega
    have h2 : ¬ ((i : Int) ≥ ((viewLines bl).length : Int)) := by omega
    simp [h1, h2]

/-- meaning of `addrIndex`: the found row shows the window of `a`; if none is found, no row does -/
theorem addrIndex_some {rows : List (Option Nat)} {a i : Nat}
    (h : Spec.MemView.addrIndex rows a = some i) :
    rows[i]? = some (some (Spec.MemView.windowOf a)) ∧
      ∀ j, j < i → rows[j]? ≠ some (some (Spec.MemView.windowOf a)) := by
  unfold Spec.MemView.addrIndex at h
  simp only at h
  split_ifs at h with hc
  cases h
  constructor
  · have := List.findIdx_getElem (w := hc)
    rw [List.getElem?_eq_getElem hc]
    simpa using this
  · intro j hj hcon
    have hjl : j < rows.length := Nat.lt_trans hj hc
    have := List.not_of_lt_findIdx hj
    rw [List.getElem?_eq_getElem hjl] at hcon
    simp only [Option.some.injEq] at hcon
    simp [hcon] at this

theorem addrIndex_none {rows : List (Option Nat)} {a : Nat}
    (h : Spec.MemView.addrIndex rows a = none) : some (Spec.MemView.windowOf a) ∉ rows := by
  unfold Spec.MemView.addrIndex at h
  simp only at h
  split_ifs at h with hc
  intro hm
  apply hc
  apply List.findIdx_lt_length_of_exists
  exact ⟨_, hm, by simp⟩

/-! ### the `address` command (stored ranges) -/

/-- a window of the list occurs in its layout -/
theorem mem_layout {ws : List Nat} {w : Nat} (hw : w ∈ ws) : some w ∈ Spec.MemView.layout ws := by
  have : ∀ (ws : List Nat) (p w : Nat), w ∈ ws → some w ∈ Spec.MemView.layoutFrom p ws := by
    intro ws
    induction ws with
    | nil => intro p w hw; cases hw
    | cons x ws ih =>
      intro p w hw
      simp only [Spec.MemView.layoutFrom, List.mem_append, List.mem_cons]
      rcases List.mem_cons.mp hw with rfl | hw
      · exact Or.inr (Or.inl rfl)
      · exact Or.inr (Or.inr (ih x w hw))
  cases ws with
  | nil => cases hw
  | cons x ws =>
    simp only [Spec.MemView.layout, List.mem_append, List.mem_cons]
    rcases List.mem_cons.mp hw with rfl | hw
    · exact Or.inr (Or.inl rfl)
    · exact Or.inr (Or.inr (Or.inl (this ws x _ hw)))

/-- no row shows the window of `a` only if no byte of that window is stored -/
theorem addrIndex_none_window {bl : List Range} (h : NormalR bl) {a : Nat}
    (he : Spec.MemView.addrIndex ((viewLines bl).map key) a = none) :
    ¬ ∃ x, MemR x bl ∧ Spec.MemView.windowOf a ≤ x ∧ x < Spec.MemView.windowOf a + 16 := by
  intro hx
  have hnot := addrIndex_none he
  rw [viewLines_layout h] at hnot
  exact hnot (mem_layout ((rowsOf_mem h _).mpr ⟨by unfold Spec.MemView.windowOf; omega, hx⟩))

/-- the stored-range test of the `address` command on a line of the view -/
theorem storedTest_key {bl : List Range} (h : NormalR bl) {a : Nat} {l : Line}
    (hl : l ∈ viewLines bl) :
    (l.ranges.any fun r => contains r a) =
      (decide (MemR a bl) && (key l == some (Spec.MemView.windowOf a))) := by
  rcases viewLines_mem hl with rfl | hr
  · simp [Line.empty, key, Line.isEllipsis]
  · have hk := key_row (rowsOf_nonempty bl l hr)
    have h16 := rowsOf_addr16 h l hr
    obtain ⟨_, hel⟩ := rowsOf_ranges h hr
    rw [hk]
    by_cases hin : l.addr ≤ a ∧ a < l.addr + 16
    · have hw : l.addr = Spec.MemView.windowOf a := by unfold Spec.MemView.windowOf; omega
      have hiff := rowsOf_cells h hr a hin.1 hin.2
      by_cases hm : MemR a bl
      · obtain ⟨r, hr', h1, h2⟩ := hiff.mpr hm
        have : (l.ranges.any fun r => contains r a) = true :=
          List.any_eq_true.mpr ⟨r, hr', by simp [contains, h1, h2]⟩
        simp [this, hm, hw]
      · have : (l.ranges.any fun r => contains r a) = false := by
          rw [List.any_eq_false]
          intro r hr' hc
          simp only [contains, Bool.and_eq_true, decide_eq_true_eq] at hc
          exact hm (hiff.mp ⟨r, hr', hc.1, hc.2⟩)
        simp [this, hm]
    · have hw : l.addr ≠ Spec.MemView.windowOf a := by unfold Spec.MemView.windowOf; omega
      have : (l.ranges.any fun r => contains r a) = false := by
        rw [List.any_eq_false]
        intro r hr' hc
        simp only [contains, Bool.and_eq_true, decide_eq_true_eq] at hc
        have := hel r hr'
        omega
      simp [this, hw]

/-- the search of the `address` command -/
theorem findLine_eq {bl : List Range} (h : NormalR bl) (a : Nat) :
    findLine a (viewLines bl) =
      Spec.MemView.addrIndexStored (decide (MemR a bl)) ((viewLines bl).map key) a := by
  unfold findLine Spec.MemView.addrIndexStored Spec.MemView.addrIndex
  have hp := fun l (hl : l ∈ viewLines bl) => storedTest_key h (a := a) hl
  by_cases hm : MemR a bl
  · simp only [hm, decide_true, Bool.true_and, if_true] at hp ⊢
    have e : (viewLines bl).findIdx (fun l => l.ranges.any fun r => contains r a) =
        ((viewLines bl).map key).findIdx (· == some (Spec.MemView.windowOf a)) := by
      generalize viewLines bl = L at hp
      induction L with
      | nil => rfl
      | cons x L ih =>
        simp only [List.map_cons, List.findIdx_cons, hp x (List.mem_cons_self ..)]
        rw [ih (fun l hl => hp l (List.mem_cons_of_mem _ hl))]
    simp only [e, List.length_map]
  · simp only [hm, decide_false, Bool.false_and] at hp
    have e : (viewLines bl).findIdx (fun l => l.ranges.any fun r => contains r a) =
        (viewLines bl).length := by
      rw [List.findIdx_eq_length]
      intro l hl
      simp [hp l hl]
    simp [e, hm]

/-- the `address` command: for a stored address the cursor moves to the row of its window (which
exists), for any other address an error is reported and the cursor stays -/
theorem cmdAddress_eq {bl : List Range} (h : NormalR bl) (c a : Nat) :
    cmdAddress ⟨viewLines bl, c⟩ a =
      (Spec.MemView.addrIndexStored (decide (MemR a bl)) ((viewLines bl).map key) a).map
        fun i => ⟨viewLines bl, i⟩ := by
  unfold cmdAddress
  simp only [findLine_eq h a]
  cases hi : Spec.MemView.addrIndexStored (decide (MemR a bl)) ((viewLines bl).map key) a with
  | none => rfl
  | some i =>
    have hlt : i < (viewLines bl).length := by
      unfold Spec.MemView.addrIndexStored Spec.MemView.addrIndex at hi
      simp only [List.length_map] at hi
      split_ifs at hi with h1 h2
      · cases hi; exact h2
    simp only [cursorSet, Option.map_some]
    have h1 : ¬ ((i : Int) < 0) := by omega
    have h2 : ¬ ((i : Int) ≥ ((viewLines bl).length : Int)) := by omega
    simp [h1, h2]

/-- a stored address always has its row -/
theorem addrIndexStored_some {bl : List Range} (h : NormalR bl) {a : Nat} (hm : MemR a bl) :
    ∃ i, Spec.MemView.addrIndexStored (decide (MemR a bl)) ((viewLines bl).map key) a = some i := by
  simp only [Spec.MemView.addrIndexStored, hm, decide_true, if_true]
  cases he : Spec.MemView.addrIndex ((viewLines bl).map key) a with
  | some i => exact ⟨i, rfl⟩
  | none =>
    exfalso
    apply addrIndex_none_window h he
    refine ⟨a, hm, ?_, ?_⟩ <;> unfold Spec.MemView.windowOf <;> omega

/-! ### `Print` -/

/-- text of row `i` of the view when it shows `k` (`none` = ellipsis row, `some w` = window `w`) -/
def rowTextF (σ : Nat → Option UInt8) (idw cursor i : Nat) (k : Option Nat) : List UInt8 :=
  let head := pad 1 (if i = cursor then [0x3e] else []) ++ [0x20] ++ pad idw (dec i) ++
    [0x20, 0x20, 0x7c, 0x20]
  match k with
  | none => head ++ [0x2e, 0x2e, 0x2e, 0x0a]
  | some w =>
    head ++ [0x30, 0x78] ++ hex16 w ++ [0x20, 0x2d, 0x20, 0x30, 0x78] ++
      hex16 ((w + 16) % 2 ^ 64) ++ [0x20, 0x7c, 0x20] ++ Spec.MemView.rowCells σ w ++ [0x0a]

def rowsTextF (σ : Nat → Option UInt8) (idw cursor : Nat) : Nat → List (Option Nat) → List UInt8
  | _, [] => []
  | i, k :: ks => rowTextF σ idw cursor i k ++ rowsTextF σ idw cursor (i + 1) ks

theorem printRow_eq {mem : Mem} {bl : List Range} {σ : Nat → Option UInt8} (hc : Coh mem bl σ)
    (h : NormalR bl) (idw c i : Nat) {l : Line} (hl : l ∈ viewLines bl) :
    printRow (some mem) idw c i l = some (rowTextF σ idw c i (key l)) := by
  rcases viewLines_mem hl with rfl | hr
  · rfl
  · have hne := rowsOf_nonempty bl l hr
    have hk := key_row hne
    have he : l.isEllipsis = false := by
      unfold Line.isEllipsis
      cases hq : l.ranges with
      | nil => exact absurd hq hne
      | cons _ _ => rfl
    simp only [printRow, he, Bool.false_eq_true, if_false, formatMemLine_eq hc h hr, hk, rowTextF,
      bytesPerLine]

theorem printRows_eq {mem : Mem} {bl : List Range} {σ : Nat → Option UInt8} (hc : Coh mem bl σ)
    (h : NormalR bl) (idw c : Nat) (L : List Line) : ∀ i, (∀ l ∈ L, l ∈ viewLines bl) →
    printRows (some mem) idw c i L = some (rowsTextF σ idw c i (L.map key)) := by
  induction L with
  | nil => intro i _; rfl
  | cons l L ih =>
    intro i hL
    simp only [printRows, printRow_eq hc h idw c i (hL l (List.mem_cons_self ..)),
      ih (i + 1) (fun x hx => hL x (List.mem_cons_of_mem _ hx)), List.map_cons, rowsTextF]

/-- `Print(n)` writes the rows `begin ≤ i < end` of the layout with the exact cells (or the
`NO MEMORY TO SHOW` text when there is no row) and never panics -/
theorem print_eq {mem : Mem} {bl : List Range} {σ : Nat → Option UInt8} (hc : Coh mem bl σ)
    (h : NormalR bl) (c n : Nat) :
    print (some mem) ⟨viewLines bl, c⟩ n =
      some (if (viewLines bl).isEmpty then noMemory
        else
          let w := window ⟨viewLines bl, c⟩ n
          rowsTextF σ (numDigits (viewLines bl).length) c w.1
            ((((viewLines bl).map key).drop w.1).take (w.2 - w.1))) := by
  unfold print
  by_cases he : (viewLines bl).isEmpty
  · simp [he]
  · simp only [he, Bool.false_eq_true, if_false]
    rw [printRows_eq hc h]
    · simp [List.map_take, List.map_drop]
    · intro l hl
      exact List.mem_of_mem_drop (List.mem_of_mem_take hl)

/-- the view of no memory (nil interface) has no rows, prints the notice and refuses every command -/
theorem nil_view :
    newMemoryView none = some ⟨[], 0⟩ ∧ (∀ n, print none ⟨[], 0⟩ n = some noMemory) ∧
    (∀ n, cmdDown ⟨[], 0⟩ n = none ∧ cmdUp ⟨[], 0⟩ n = none ∧ cmdGoto ⟨[], 0⟩ n = none) ∧
    (∀ a, cmdAddress ⟨[], 0⟩ a = none) := by
  refine ⟨rfl, fun _ => rfl, fun n => ⟨?_, ?_, ?_⟩, fun a => rfl⟩ <;>
    simp only [cmdDown, cmdUp, cmdGoto, cursorSet, List.length_nil] <;> split_ifs <;> first | rfl | omega

/-- cursor moves: inside the rows or an error that leaves the cursor alone -/
theorem cursorSet_spec (v : View) (x : Int) :
    cursorSet v x = if 0 ≤ x ∧ x < v.lines.length then some ⟨v.lines, x.toNat⟩ else none := by
  unfold cursorSet
  split_ifs <;> first | rfl | omega

/-! ### the byte memory of C15 -/

theorem normalR_of_normal : ∀ (m : List Interval.Intv), Interval.Normal m → (∀ i ∈ m, 0 ≤ i.1) →
    NormalR (m.map toRange)
  | [], _, _ => trivial
  | [i], h, h0 => by
    have := h0 i (List.mem_singleton_self _)
    simp only [Interval.Normal] at h
    simp only [List.map, NormalR, toRange]
    omega
  | i :: j :: r, h, h0 => by
    have hi := h0 i (List.mem_cons_self ..)
    have hj := h0 j (List.mem_cons_of_mem _ (List.mem_cons_self ..))
    obtain ⟨h1, h2, h3⟩ := h
    refine ⟨?_, ?_, normalR_of_normal (j :: r) h3 (fun x hx => h0 x (List.mem_cons_of_mem _ hx))⟩
    · simp only [toRange]; omega
    · simp only [toRange]; omega

theorem memR_map_toRange {m : List Interval.Intv} (h0 : ∀ i ∈ m, 0 ≤ i.1) (a : Nat) :
    MemR a (m.map toRange) ↔ Interval.Mem (a : Int) m := by
  unfold MemR Interval.Mem
  constructor
  · rintro ⟨b, hb, h1, h2⟩
    obtain ⟨i, hi, rfl⟩ := List.mem_map.mp hb
    have := h0 i hi
    simp only [toRange] at h1 h2
    exact ⟨i, hi, by omega, by omega⟩
  · rintro ⟨i, hi, h1, h2⟩
    have := h0 i hi
    exact ⟨toRange i, List.mem_map.mpr ⟨i, hi, rfl⟩, by simp only [toRange]; omega,
      by simp only [toRange]; omega⟩

theorem constFold_const (c : List UInt8) : constFold (.const c) = .const c := by
  simp [constFold, constFoldRaw, purgeWidthGadgets, purge, stripSame]

/-- a byte memory in its invariant is coherent with its byte map -/
theorem ofBytes_coh (bs : List BytesMem.Block) (h : BytesSpec.Inv bs) :
    ∃ bl, NormalR bl ∧ Coh (ofBytes bs) bl (BytesSpec.ofBlocks bs) ∧
      ∀ a, MemR a bl ↔ BytesSpec.ofBlocks bs a ≠ none := by
  obtain ⟨hn, hm⟩ := Lemmas.BytesMem.blocks_spec bs h
  have h0 : ∀ i ∈ BytesMem.blocks bs, 0 ≤ i.1 := by
    intro i hi
    cases hp : decide (i.1 < i.2) with
    | true =>
      have hlt : i.1 < i.2 := of_decide_eq_true hp
      exact ((hm i.1).mp ⟨i, hi, Int.le_refl _, hlt⟩).1
    | false =>
      exfalso
      have hge : ¬ i.1 < i.2 := of_decide_eq_false hp
      -- a normal interval list has no empty interval
      have : ∀ (m : List Interval.Intv), Interval.Normal m → ∀ j ∈ m, j.1 < j.2 := by
        intro m
        induction m with
        | nil => intro _ j hj; cases hj
        | cons x r ih =>
          intro hN j hj
          cases r with
          | nil =>
            rcases List.mem_cons.mp hj with rfl | hj
            · exact hN
            · cases hj
          | cons y r =>
            rcases List.mem_cons.mp hj with rfl | hj
            · exact hN.1
            · exact ih hN.2.2 j hj
      exact hge (this _ hn i hi)
  have hmem : ∀ a, MemR a ((BytesMem.blocks bs).map toRange) ↔ BytesSpec.ofBlocks bs a ≠ none := by
    intro a
    rw [memR_map_toRange h0, hm]
    simp
  refine ⟨(BytesMem.blocks bs).map toRange, normalR_of_normal _ hn h0, ⟨rfl, ?_, ?_⟩, hmem⟩
  · intro a ha
    have hpres := (hmem a).mp ha
    obtain ⟨r, hr, hiff, hval⟩ := Lemmas.BytesMem.load_spec bs h a 1 (Nat.le_refl _)
    have hsome : r.isSome = true := hiff.mpr (by
      intro i hi
      have : i = 0 := by omega
      subst this; simpa using hpres)
    obtain ⟨v, rfl⟩ := Option.isSome_iff_exists.mp hsome
    obtain ⟨hlen, hv⟩ := hval v rfl
    have hv0 := hv 0 (by omega)
    match v, hlen, hv0 with
    | [b], _, hv0 =>
      refine ⟨b, [], ?_, ?_⟩
      · simp only [ofBytes, hr, constFold_const]
      · simpa using hv0.symm
  · intro a ha
    by_contra hne
    exact ha ((hmem a).mpr hne)

end Mltwist.Lemmas.MemView
