import Mltwist.Lemmas.SparseLoad
import Mltwist.Lemmas.IntervalBasic
/-
C14, part 6: `Missing` and `Blocks`.
-/
namespace Mltwist.Lemmas.Sparse
open Mltwist Mltwist.Sparse Mltwist.Spec.Sparse Mltwist.Interval
open Mltwist.Lemmas.Interval (mem_nil mem_cons mem_append mem_singleton)

/-- `NewMap` of non-empty intervals is in normal form (as `Lemmas.Interval.newMap_normal`, repeated
here so that this file does not depend on the unfinished parts of `Lemmas/Interval.lean`) -/
theorem newMap_normal' (l : List Intv) (h : ∀ i ∈ l, i.1 < i.2) : Normal (newMap l) := by
  unfold newMap
  rw [Interval.normal_reverse]
  exact (Interval.foldl_addInterval_spec (sortByBegin l) [] Interval.rnormal_nil
    (fun _ _ => Interval.headLe_nil _)
    (fun i hi => h i ((Interval.mem_sortByBegin l i).1 hi)) (Interval.sortByBegin_sorted l)).1

theorem newMap_mem' (l : List Intv) (h : ∀ i ∈ l, i.1 < i.2) (x : Int) :
    Mem x (newMap l) ↔ Mem x l := by
  unfold newMap
  rw [Interval.mem_reverse]
  rw [(Interval.foldl_addInterval_spec (sortByBegin l) [] Interval.rnormal_nil
    (fun _ _ => Interval.headLe_nil _)
    (fun i hi => h i ((Interval.mem_sortByBegin l i).1 hi)) (Interval.sortByBegin_sorted l)).2 x]
  rw [Interval.mem_congr x (Interval.mem_sortByBegin l)]
  simp [mem_nil]

/-- a list of non-empty intervals of naturals -/
def NatList (l : List Intv) : Prop := ∀ i ∈ l, ∃ b e : Nat, i = ((b : Int), (e : Int)) ∧ b < e

theorem NatList.nil : NatList [] := fun _ h => by cases h

theorem NatList.snoc {l : List Intv} (h : NatList l) {b e : Nat} (hbe : b < e) :
    NatList (l ++ [((b : Int), (e : Int))]) := by
  intro i hi
  rcases List.mem_append.1 hi with hi | hi
  · exact h i hi
  · rw [List.mem_singleton] at hi
    exact ⟨b, e, hi, hbe⟩

theorem NatList.nonempty {l : List Intv} (h : NatList l) : ∀ i ∈ l, i.1 < i.2 := by
  intro i hi
  obtain ⟨b, e, rfl, hbe⟩ := h i hi
  simp only
  omega

theorem NatList.not_mem_neg {l : List Intv} (h : NatList l) {x : Int} (hx : x < 0) : ¬ Mem x l := by
  rintro ⟨i, hi, h1, _⟩
  obtain ⟨b, e, rfl, _⟩ := h i hi
  simp only at h1
  omega

theorem mem_snoc_nat (n : Nat) (l : List Intv) (b e : Nat) :
    Mem (n : Int) (l ++ [((b : Int), (e : Int))]) ↔ Mem (n : Int) l ∨ (b ≤ n ∧ n < e) := by
  rw [mem_append, mem_singleton]
  simp only [Int.ofNat_le, Int.ofNat_lt]

theorem newIntv_ok {b e : Nat} (h : b ≤ e) : newIntv b e = .ok ((b : Int), (e : Int)) := by
  unfold newIntv
  rw [if_neg (by omega)]

theorem chainEnd_ge : ∀ (os : List KV) (le : Nat), Ordered os → (∀ o ∈ os, o.low < o.high) →
    (∀ o ∈ os, le ≤ o.low) → le ≤ chainEnd le os ∧ ∀ o ∈ os, o.high ≤ chainEnd le os
  | [], le, _, _, _ => ⟨Nat.le_refl _, fun _ h => by cases h⟩
  | o :: os, le, hord, hne, hle => by
    rw [Ordered, List.pairwise_cons] at hord
    have ho := hne o List.mem_cons_self
    have hlo := hle o List.mem_cons_self
    obtain ⟨h1, h2⟩ := chainEnd_ge os o.high hord.2 (fun o' h => hne o' (List.mem_cons_of_mem _ h)) hord.1
    simp only [chainEnd]
    refine ⟨by omega, fun o' ho' => ?_⟩
    rcases List.mem_cons.1 ho' with rfl | ho'
    · exact h1
    · exact h2 o' ho'

theorem missingLoop_ok : ∀ (os : List KV) (le : Nat) (acc : List Intv), Ordered os →
    (∀ o ∈ os, o.low < o.high) → (∀ o ∈ os, le ≤ o.low) → NatList acc →
    ∃ acc', missingLoop le os acc = .ok (acc', chainEnd le os) ∧ NatList acc' ∧
      ∀ n : Nat, Mem (n : Int) acc' ↔
        Mem (n : Int) acc ∨ (le ≤ n ∧ n < chainEnd le os ∧ ∀ o ∈ os, ¬ Contains o n)
  | [], le, acc, _, _, _, hacc => by
    refine ⟨acc, rfl, hacc, fun n => ?_⟩
    simp only [chainEnd]
    constructor
    · intro h; exact .inl h
    · rintro (h | h)
      · exact h
      · omega
  | o :: os, le, acc, hord, hne, hle, hacc => by
    have hord' := hord
    rw [Ordered, List.pairwise_cons] at hord'
    have ho := hne o List.mem_cons_self
    have hlo := hle o List.mem_cons_self
    have hne' : ∀ o' ∈ os, o'.low < o'.high := fun o' h => hne o' (List.mem_cons_of_mem _ h)
    obtain ⟨hce1, hce2⟩ := chainEnd_ge os o.high hord'.2 hne' hord'.1
    have hkey : ∀ n : Nat, (∀ o' ∈ os, ¬ Contains o' n) ∨ o.high ≤ n := by
      intro n
      by_cases h : o.high ≤ n
      · exact .inr h
      · refine .inl fun o' ho' hc => ?_
        have := hord'.1 o' ho'
        unfold Contains at hc; omega
    unfold missingLoop
    simp only [chainEnd]
    by_cases h1 : o.low ≠ le
    · rw [if_pos h1, newIntv_ok hlo]
      simp only [bind, Except.bind]
      obtain ⟨acc', h2, h3, h4⟩ := missingLoop_ok os o.high (acc ++ [((le : Int), (o.low : Int))])
        hord'.2 hne' hord'.1 (hacc.snoc (by omega))
      refine ⟨acc', h2, h3, fun n => ?_⟩
      rw [h4 n, mem_snoc_nat]
      constructor
      · rintro ((h | h) | h)
        · exact .inl h
        · refine .inr ⟨h.1, by omega, fun o' ho' hc => ?_⟩
          unfold Contains at hc
          rcases List.mem_cons.1 ho' with rfl | ho'
          · omega
          · have := hord'.1 o' ho'; omega
        · exact .inr ⟨by omega, h.2.1, fun o' ho' hc => by
            rcases List.mem_cons.1 ho' with rfl | ho'
            · unfold Contains at hc; omega
            · exact h.2.2 o' ho' hc⟩
      · rintro (h | ⟨h5, h6, h7⟩)
        · exact .inl (.inl h)
        · have hno := h7 o List.mem_cons_self
          unfold Contains at hno
          by_cases hn : n < o.low
          · exact .inl (.inr ⟨h5, hn⟩)
          · exact .inr ⟨by omega, h6, fun o' ho' => h7 o' (List.mem_cons_of_mem _ ho')⟩
    · rw [if_neg h1]
      obtain ⟨acc', h2, h3, h4⟩ := missingLoop_ok os o.high acc hord'.2 hne' hord'.1 hacc
      refine ⟨acc', h2, h3, fun n => ?_⟩
      rw [h4 n]
      constructor
      · rintro (h | h)
        · exact .inl h
        · exact .inr ⟨by omega, h.2.1, fun o' ho' hc => by
            rcases List.mem_cons.1 ho' with rfl | ho'
            · unfold Contains at hc; omega
            · exact h.2.2 o' ho' hc⟩
      · rintro (h | ⟨h5, h6, h7⟩)
        · exact .inl h
        · have hno := h7 o List.mem_cons_self
          unfold Contains at hno
          exact .inr ⟨by omega, h6, fun o' ho' => h7 o' (List.mem_cons_of_mem _ ho')⟩

theorem gap_before : ∀ (os : List KV) (le n : Nat), le ≤ n → n < chainEnd le os →
    (∀ o ∈ os, ¬ Contains o n) → ∃ o ∈ os, n < o.low
  | [], le, n, h1, h2, _ => by simp only [chainEnd] at h2; omega
  | o :: os, le, n, h1, h2, h3 => by
    by_cases hn : n < o.low
    · exact ⟨o, List.mem_cons_self, hn⟩
    · have hno := h3 o List.mem_cons_self
      unfold Contains at hno
      obtain ⟨o', ho', h⟩ := gap_before os o.high n (by omega) h2
        (fun o' ho' => h3 o' (List.mem_cons_of_mem _ ho'))
      exact ⟨o', List.mem_cons_of_mem _ ho', h⟩

theorem abs_none_iff_ovl (t : Tree) {a e n : Nat} (h1 : a ≤ n) (h2 : n < e) :
    abs t n = none ↔ ∀ o ∈ ovl t a e, ¬ Contains o n := by
  rw [abs_eq_none_iff]
  constructor
  · intro h o ho; exact h o (mem_ovl.1 ho).1
  · intro h kv hkv hc
    exact h kv (mem_ovl.2 ⟨hkv, by unfold Contains at hc; omega⟩) hc

/-- transfer of a membership statement about naturals to integers -/
theorem mem_int_of_nat {l : List Intv} (hl : NatList l) {P : Nat → Prop} {lo : Nat}
    (h : ∀ n : Nat, Mem (n : Int) l ↔ (lo ≤ n ∧ P n)) (x : Int) :
    Mem x l ↔ ((lo : Int) ≤ x ∧ P x.toNat) := by
  by_cases hx : x < 0
  · constructor
    · intro hm; exact absurd hm (hl.not_mem_neg hx)
    · rintro ⟨h1, _⟩; omega
  · obtain ⟨n, rfl⟩ : ∃ n : Nat, x = n := ⟨x.toNat, by omega⟩
    rw [h n, Int.toNat_natCast, Int.ofNat_le]

/-- `Missing` never panics and returns the normal form of the unwritten part of `[a, a+w)` -/
theorem missing_ok (t : Tree) (hinv : Inv t) (a w : Nat) (hd : InDom a w) :
    ∃ m, missing t a w = .ok m ∧ Normal m ∧
      ∀ x : Int, Mem x m ↔ ((a : Int) ≤ x ∧ (x.toNat < a + w ∧ abs t x.toNat = none)) := by
  obtain ⟨hw1, hw2, hlt⟩ := hd
  obtain ⟨hord, hgood⟩ := hinv
  have hoo := ovl_ordered hord a (a + w)
  unfold missing
  rw [endAddr_eq hlt]
  dsimp only
  rw [overlaps_eq t (by omega)]
  simp only [bind, Except.bind]
  cases hints : ovl t a (a + w) with
  | nil =>
    simp only
    rw [newIntv_ok (by omega)]
    simp only [pure, Except.pure]
    have hnl : NatList [((a : Int), ((a + w : Nat) : Int))] := NatList.nil.snoc (by omega)
    refine ⟨_, rfl, newMap_normal' _ hnl.nonempty, fun x => ?_⟩
    rw [newMap_mem' _ hnl.nonempty]
    refine mem_int_of_nat (P := fun n => n < a + w ∧ abs t n = none) hnl ?_ x
    intro n
    rw [mem_singleton]
    simp only [Int.ofNat_le, Int.ofNat_lt]
    constructor
    · rintro ⟨h1, h2⟩
      refine ⟨h1, h2, ?_⟩
      rw [abs_none_iff_ovl t h1 h2, hints]
      intro o ho; cases ho
    · rintro ⟨h1, h2, _⟩; exact ⟨h1, h2⟩
  | cons i0 rest =>
    rw [hints] at hoo
    have hi0 := mem_ovl.1 (hints ▸ List.mem_cons_self : i0 ∈ ovl t a (a + w))
    have hrest : ∀ o ∈ rest, o ∈ t ∧ o.low < a + w ∧ a < o.high :=
      fun o ho => mem_ovl.1 (hints ▸ List.mem_cons_of_mem _ ho : o ∈ ovl t a (a + w))
    have hne : ∀ o ∈ rest, o.low < o.high := fun o ho => (hgood o (hrest o ho).1).1
    have hg0 := (hgood i0 hi0.1).1
    rw [Ordered, List.pairwise_cons] at hoo
    obtain ⟨hce1, hce2⟩ := chainEnd_ge rest i0.high hoo.2 hne hoo.1
    -- the first gap
    have hfirst : ∃ first, missingFirst a i0 = .ok first ∧ NatList first ∧
        ∀ n : Nat, Mem (n : Int) first ↔ (a ≤ n ∧ n < i0.low) := by
      unfold missingFirst
      by_cases h : a < i0.low
      · rw [if_pos h, newIntv_ok (by omega)]
        refine ⟨_, rfl, NatList.nil.snoc h, fun n => ?_⟩
        rw [mem_singleton]; simp only [Int.ofNat_le, Int.ofNat_lt]
      · rw [if_neg h]
        refine ⟨[], rfl, NatList.nil, fun n => ?_⟩
        constructor
        · intro hm; exact absurd hm (mem_nil _)
        · intro hh; omega
    obtain ⟨first, hf1, hf2, hf3⟩ := hfirst
    obtain ⟨acc, hl1, hl2, hl3⟩ := missingLoop_ok rest i0.high first hoo.2 hne hoo.1 hf2
    -- the last gap
    have hlast : ∃ fin, missingLast (chainEnd i0.high rest) (a + w) acc = .ok fin ∧ NatList fin ∧
        ∀ n : Nat, Mem (n : Int) fin ↔
          Mem (n : Int) acc ∨ (chainEnd i0.high rest ≤ n ∧ n < a + w) := by
      unfold missingLast
      by_cases h : chainEnd i0.high rest < a + w
      · rw [if_pos h, newIntv_ok (by omega)]
        exact ⟨_, rfl, hl2.snoc h, fun n => mem_snoc_nat n acc _ _⟩
      · rw [if_neg h]
        refine ⟨acc, rfl, hl2, fun n => ?_⟩
        constructor
        · intro hm; exact .inl hm
        · rintro (hm | hm)
          · exact hm
          · omega
    obtain ⟨fin, hn1, hn2, hn3⟩ := hlast
    simp only
    rw [hf1]
    simp only
    rw [hl1]
    simp only
    rw [hn1]
    simp only [pure, Except.pure]
    refine ⟨_, rfl, newMap_normal' _ hn2.nonempty, fun x => ?_⟩
    rw [newMap_mem' _ hn2.nonempty]
    refine mem_int_of_nat (P := fun n => n < a + w ∧ abs t n = none) hn2 ?_ x
    intro n
    rw [hn3 n, hl3 n, hf3 n]
    constructor
    · rintro ((⟨h1, h2⟩ | ⟨h1, h2, h3⟩) | ⟨h1, h2⟩)
      · refine ⟨h1, by omega, ?_⟩
        rw [abs_none_iff_ovl t h1 (by omega : n < a + w), hints]
        intro o ho hc
        unfold Contains at hc
        rcases List.mem_cons.1 ho with rfl | ho
        · omega
        · have := hoo.1 o ho; omega
      · obtain ⟨o, ho, hlow⟩ := gap_before rest i0.high n h1 h2 h3
        have := (hrest o ho).2.1
        refine ⟨by omega, by omega, ?_⟩
        rw [abs_none_iff_ovl t (by omega : a ≤ n) (by omega : n < a + w), hints]
        intro o' ho' hc
        rcases List.mem_cons.1 ho' with rfl | ho'
        · unfold Contains at hc; omega
        · exact h3 o' ho' hc
      · refine ⟨by omega, h2, ?_⟩
        rw [abs_none_iff_ovl t (by omega : a ≤ n) h2, hints]
        intro o ho hc
        unfold Contains at hc
        rcases List.mem_cons.1 ho with rfl | ho
        · omega
        · have := hce2 o ho; omega
    · rintro ⟨h1, h2, h3⟩
      rw [abs_none_iff_ovl t h1 h2, hints] at h3
      have hno := h3 i0 List.mem_cons_self
      unfold Contains at hno
      by_cases hn : n < i0.low
      · exact .inl (.inl ⟨h1, hn⟩)
      · by_cases hc : n < chainEnd i0.high rest
        · exact .inl (.inr ⟨by omega, hc, fun o ho => h3 o (List.mem_cons_of_mem _ ho)⟩)
        · exact .inr ⟨by omega, h2⟩

theorem blocksLoop_ok : ∀ (t : List KV), (∀ kv ∈ t, kv.low < kv.high) →
    ∃ l, blocksLoop t = .ok l ∧ NatList l ∧
      ∀ n : Nat, Mem (n : Int) l ↔ ∃ kv ∈ t, Contains kv n
  | [], _ => ⟨[], rfl, NatList.nil, fun n => by
      constructor
      · intro h; exact absurd h (mem_nil _)
      · rintro ⟨_, h, _⟩; cases h⟩
  | kv :: t, h => by
    have hkv := h kv List.mem_cons_self
    obtain ⟨l, h1, h2, h3⟩ := blocksLoop_ok t (fun kv' h' => h kv' (List.mem_cons_of_mem _ h'))
    unfold blocksLoop
    rw [newIntv_ok (by omega), h1]
    simp only [bind, Except.bind, pure, Except.pure]
    refine ⟨_, rfl, ?_, fun n => ?_⟩
    · intro i hi
      rcases List.mem_cons.1 hi with rfl | hi
      · exact ⟨kv.low, kv.high, rfl, hkv⟩
      · exact h2 i hi
    · rw [mem_cons, h3 n]
      simp only [Int.ofNat_le, Int.ofNat_lt, List.mem_cons, exists_eq_or_imp, Contains]

/-- `Blocks` never panics and returns the normal form of the written address set -/
theorem blocks_ok (t : Tree) (hinv : Inv t) :
    ∃ m, blocks t = .ok m ∧ Normal m ∧
      ∀ x : Int, Mem x m ↔ ((0 : Int) ≤ x ∧ abs t x.toNat ≠ none) := by
  obtain ⟨l, h1, h2, h3⟩ := blocksLoop_ok t (fun kv h => (hinv.2 kv h).1)
  unfold blocks
  rw [h1]
  simp only [bind, Except.bind, pure, Except.pure]
  refine ⟨_, rfl, newMap_normal' _ h2.nonempty, fun x => ?_⟩
  rw [newMap_mem' _ h2.nonempty]
  have := mem_int_of_nat (lo := 0) (P := fun n => abs t n ≠ none) h2 (fun n => by
    rw [h3 n]
    constructor
    · rintro ⟨kv, hkv, hc⟩
      refine ⟨Nat.zero_le _, fun hn => ?_⟩
      exact (abs_eq_none_iff t n).1 hn kv hkv hc
    · rintro ⟨_, hn⟩
      rcases abs_cases t n with ⟨h, _⟩ | ⟨kv, hkv, hc, _⟩
      · exact absurd h hn
      · exact ⟨kv, hkv, hc⟩) x
  simpa using this

end Mltwist.Lemmas.Sparse
