import Mltwist.Lemmas.RiscvLiftNodes
/-
Emulator (C03), part 18: the domain condition of the emulator follows from the scope of the REFERENCE.
Because every `MemLoad` node and every `MemStore` of a lifted instruction addresses exactly the
reference's `accessRange` (`RiscvLiftNodes.lean`) — also after constant folding (`EmulatorNodes.lean`) —
it suffices that the reference's access lies in the domain of C14 (`addr + n < 2^64`).  The refinement
theorems then have a single side condition, on the reference run.
-/
namespace Mltwist.Lemmas.Emulator
open Mltwist Mltwist.State Mltwist.Overlay Mltwist.Emulator Mltwist.Riscv
open Mltwist.Spec.Rv Mltwist.Spec.Lift
open Mltwist.Lemmas.RiscvLift (EntryShape EffShape OShape NodeOK AllNodes allNodes_iff mem_instructionSet
  shape_integer64 shape_mul64 shape_atomic64 Ctx)

theorem entryShape_of_mem {e : Entry} (he : e ∈ instructionSet 64 true true) : EntryShape e := by
  rcases mem_instructionSet (Or.inr rfl) he with ⟨h, _⟩ | ⟨_, h | h | h⟩
  · cases h
  · exact shape_integer64 e h
  · exact shape_mul64 e h
  · exact shape_atomic64 e h

/-- the memory access of the instruction `name`/`word` in the reference state `σ`, if any, lies in the
domain of C14: `addr + n < 2^64` (the number of bytes is 1, 2, 4 or 8 anyway) -/
def RefScope (name : String) (word : Nat) (σ : St) : Prop :=
  ∀ a n, accessRange 64 name word σ = some (a, n) → Sparse.InDom a n

theorem noWrap_of_refScope {name : String} {word : Nat} {σ : St} (h : RefScope name word σ) :
    noWrap 64 name word σ = true := by
  unfold noWrap
  cases hacc : accessRange 64 name word σ with
  | none => rfl
  | some an =>
    obtain ⟨a, n⟩ := an
    have := (h a n hacc).2.2
    simp only [decide_eq_true_eq]
    omega

theorem loadsDom_of_allNodes {name : String} {word : Nat} {σ : St} {ρ : Env} (hs : RefScope name word σ)
    {e : Expr} (h : AllNodes (NodeOK name word σ ρ) e) : LoadsDom ρ e := by
  intro n hn
  have := (allNodes_iff _ e).1 h n hn
  exact hs _ _ this.2

/-- the static domain condition of every (constant-folded) effect of a lifted instruction -/
theorem effStatic_of_lifted {ins : Emulator.Ins} {e : Entry} {word : Nat} {σ : St} {ρ : Env}
    (hlift : LiftedFrom ins e word) (haddr : ins.addr = σ.pc) (hwf : St.WF 64 σ) (hrel : Rel ρ σ)
    (hs : RefScope e.name word σ) : ∀ ef ∈ ins.effects, EffStatic ρ ef := by
  have hctx : Ctx 64 8 ρ σ word := Ctx.mk64 hlift.word_lt hwf hrel
  have hshape := entryShape_of_mem hlift.mem word σ ρ hctx
  have hraw := hlift.wf.1
  intro ef hef
  rw [hlift.effects, haddr] at hef
  obtain ⟨ef0, h0, rfl⟩ := List.mem_map.1 hef
  have hwf0 := hraw ef0 (by rw [haddr]; exact h0)
  -- the shape of the raw effect
  have hsh : EffShape e.name word σ ρ ef0 := by
    unfold Entry.validEffects at h0
    rw [List.mem_filterMap] at h0
    obtain ⟨o, ho, hid⟩ := h0
    exact hshape o ho ef0 hid
  cases ef0 with
  | regStore v k w =>
    exact loadsDom_constFold hwf0 (loadsDom_of_allNodes hs hsh)
  | memStore v k a w =>
    refine ⟨loadsDom_constFold hwf0.1 (loadsDom_of_allNodes hs hsh.1),
      loadsDom_constFold hwf0.2 (loadsDom_of_allNodes hs hsh.2.1), ?_⟩
    show Sparse.InDom ((constFold a).eval ρ % 2 ^ 64) w
    rw [Lemmas.Transform.constFold_eval ρ a hwf0.2]
    exact hs _ _ hsh.2.2.2

/-- THE REFINEMENT STEP with the side condition on the REFERENCE only -/
theorem refine_step'' (p : Provider) (code : CodeView) {σ : St} {s : State} {ins : Emulator.Ins} {e : Entry}
    {word : Nat} (hR : R p code σ s) (hl : code.lookup σ.pc = some ins) (hlift : LiftedFrom ins e word)
    (hs : RefScope e.name word σ) :
    ∃ σ', exec 64 e.name word σ = some σ' ∧
      ∃ s' rep log, step p code s = .ok s' rep log ∧ R p code σ' s' := by
  obtain ⟨ρ, hrel, hagree⟩ := hR.rep
  have hstat := effStatic_of_lifted hlift (lookup_addr hl) hR.wf hrel hs
  have hd : StepDom p code s ins :=
    stepDom_of_static hR.ready.inv hagree (lookup_mem hl) hlift.wf.2 hstat
  exact refine_step' p code hR hl hlift (noWrap_of_refScope hs) hd

/-- the reference's accesses stay in the domain during its first `n` steps along the code -/
def RefRunScope (code : CodeView) : Nat → St → Prop
  | 0, _ => True
  | n + 1, σ => ∀ ins e word, code.lookup σ.pc = some ins → LiftedFrom ins e word →
      RefScope e.name word σ ∧ ∀ σ', exec 64 e.name word σ = some σ' → RefRunScope code n σ'

/-- REFINEMENT after every number of steps, with the side condition on the reference run only -/
theorem refine_run'' (p : Provider) (code : CodeView) : ∀ (n : Nat) (σ σn : St) (s : State), R p code σ s →
    RefRunScope code n σ → RefSteps code n σ σn → ∃ sn, stateAfter p code n s = some sn ∧ R p code σn sn
  | 0, σ, σn, s, hR, _, hrun => by
    cases hrun
    exact ⟨s, rfl, hR⟩
  | n + 1, σ, σn, s, hR, hsc, hrun => by
    cases hrun with
    | @succ _ _ σ' _ ins e word hl hlift hexec hrest =>
      obtain ⟨h1, h2⟩ := hsc ins e word hl hlift
      obtain ⟨σ2, hexec2, s', rep, log, hstep, hR'⟩ := refine_step'' p code hR hl hlift h1
      rw [hexec] at hexec2
      cases hexec2
      obtain ⟨sn, g1, g2⟩ := refine_run'' p code n σ' σn s' hR' (h2 σ' hexec) hrest
      refine ⟨sn, ?_, g2⟩
      show (match step p code s with | .ok s' _ _ => stateAfter p code n s' | _ => none) = _
      rw [hstep]
      exact g1

/-- … and the report of the step at related states is the reference report -/
theorem refine_report (p : Provider) (code : CodeView) {σ : St} {s : State} {ins : Emulator.Ins} {e : Entry}
    {word : Nat} (hR : R p code σ s) (hl : code.lookup σ.pc = some ins) (hlift : LiftedFrom ins e word)
    (hs : RefScope e.name word σ) :
    ∃ s' log ρ, Rel ρ σ ∧ step p code s = .ok s' (specReport ρ ins.effects) log := by
  obtain ⟨ρ, hrel, hagree⟩ := hR.rep
  obtain ⟨c, hc, hcv⟩ := hR.ip
  have hpc : leToNat c % 2 ^ 64 = σ.pc := by rw [hcv]; exact Nat.mod_eq_of_lt hR.wf.pc
  have hl' : code.lookup (leToNat c % 2 ^ 64) = some ins := by rw [hpc]; exact hl
  have hstat := effStatic_of_lifted hlift (lookup_addr hl) hR.wf hrel hs
  have hd : StepDom p code s ins :=
    stepDom_of_static hR.ready.inv hagree (lookup_mem hl) hlift.wf.2 hstat
  obtain ⟨s1, s', rep, log, h1, _, _, ha1, hpres, hi1, hrec, _⟩ :=
    step_sound p code hR.ready hagree hc hl' hlift.wf.2 hd
  have := report_spec (lookup_mem hl) hi1 ha1 hpres hrec
  subst this
  exact ⟨s', log, ρ, hrel, h1⟩

end Mltwist.Lemmas.Emulator
