import Mltwist.Model.RiscvTables
import Mltwist.Lemmas.Bytes
/-
General facts behind C02 (independent of the instruction tables): little-endian values versus
byte-wise `&&&`, and "a pattern of at most four bytes matches `bs`" as a statement about the
32-bit word `wordOf bs`.
-/
namespace Mltwist.Lemmas.RiscvDecode
open Mltwist Mltwist.Riscv Mltwist.Lemmas.Bytes

theorem and_split (x y A B : Nat) (hx : x < 256) (hy : y < 256) :
    (x + 256 * A) &&& (y + 256 * B) = (x &&& y) + 256 * (A &&& B) := by
  have h := Nat.mod_add_div ((x + 256 * A) &&& (y + 256 * B)) 256
  have hm : ((x + 256 * A) &&& (y + 256 * B)) % 256 = x &&& y := by
    have := @Nat.and_mod_two_pow (x + 256 * A) (y + 256 * B) 8
    rw [show (2 : Nat) ^ 8 = 256 from rfl] at this
    rw [this, show (x + 256 * A) % 256 = x by omega, show (y + 256 * B) % 256 = y by omega]
  have hd : ((x + 256 * A) &&& (y + 256 * B)) / 256 = A &&& B := by
    have := @Nat.and_div_two_pow (x + 256 * A) (y + 256 * B) 8
    rw [show (2 : Nat) ^ 8 = 256 from rfl] at this
    rw [this, show (x + 256 * A) / 256 = A by omega, show (y + 256 * B) / 256 = B by omega]
  rw [hm, hd] at h
  exact h.symm

/-- the value of a byte-wise AND is the AND of the values (the shorter list decides the length) -/
theorem leToNat_zipWith_and (a b : List UInt8) :
    leToNat (List.zipWith (fun x y => x &&& y) a b) = leToNat a &&& leToNat b := by
  induction a generalizing b with
  | nil => simp
  | cons x xs ih =>
    cases b with
    | nil => simp
    | cons y ys =>
      simp only [List.zipWith_cons_cons, leToNat_cons, ih, UInt8.toNat_and]
      exact (and_split _ _ _ _ (toNat_lt_256 x) (toNat_lt_256 y)).symm

theorem leToNat_inj (a b : List UInt8) (hl : a.length = b.length) (h : leToNat a = leToNat b) :
    a = b := by
  induction a generalizing b with
  | nil =>
    cases b with
    | nil => rfl
    | cons _ _ => simp at hl
  | cons x xs ih =>
    cases b with
    | nil => simp at hl
    | cons y ys =>
      simp only [leToNat_cons] at h
      have hx := toNat_lt_256 x
      have hy := toNat_lt_256 y
      have h1 : x.toNat = y.toNat := by omega
      have h2 : leToNat xs = leToNat ys := by omega
      rw [UInt8.toNat_inj.1 h1, ih ys (by simpa using hl) h2]

theorem wordMask_eq (e : Entry) : e.wordMask = leToNat e.mask := by
  simp [Entry.wordMask, leToNat_append]

theorem wordMatch_eq (e : Entry) : e.wordMatch = leToNat e.bytes &&& leToNat e.mask := by
  simp [Entry.wordMatch, leToNat_append, leToNat_zipWith_and]

theorem zipWith_take4 (bs mask : List UInt8) (hm : mask.length ≤ 4) :
    List.zipWith (fun x y => x &&& y) (bs.take 4) mask =
      List.zipWith (fun x y => x &&& y) bs mask := by
  have h := @List.take_zipWith _ _ _ (fun (x y : UInt8) => x &&& y) bs mask 4
  rw [List.take_of_length_le (l := mask) hm] at h
  rw [← h]
  apply List.take_of_length_le
  simp only [List.length_zipWith]
  omega

/-- a pattern of at most four bytes matches `bs` iff the word `wordOf bs` matches it -/
theorem patMatches_iff_word (e : Entry) (bs : List UInt8) (hl : e.bytes.length = e.mask.length)
    (hm : e.mask.length ≤ 4) (hb : 4 ≤ bs.length) :
    patMatches e.bytes e.mask bs = e.matchesWord (wordOf bs) := by
  have hlen : e.mask.length ≤ bs.length := by omega
  have key : wordOf bs &&& e.wordMask = e.wordMatch ↔
      List.zipWith (fun b m => b &&& m) bs e.mask = List.zipWith (fun b m => b &&& m) e.bytes e.mask := by
    rw [wordMask_eq, wordMatch_eq, wordOf, ← leToNat_zipWith_and, ← leToNat_zipWith_and,
      zipWith_take4 _ _ hm]
    constructor
    · intro h
      apply leToNat_inj _ _ _ h
      simp only [List.length_zipWith]
      omega
    · intro h
      rw [h]
  unfold patMatches Entry.matchesWord
  rw [Bool.eq_iff_iff]
  simp only [Bool.and_eq_true, decide_eq_true_eq, beq_iff_eq, hlen, true_and]
  exact key.symm

end Mltwist.Lemmas.RiscvDecode
