import Mltwist.Model.Const
import Mltwist.Spec.Gadgets
/-
Helper lemmas for C27.
-/
namespace Mltwist.Lemmas.Const
open Mltwist

theorem pow8_succ (w : Nat) : 2 ^ (8 * (w + 1)) = 256 * 2 ^ (8 * w) := by
  rw [Nat.mul_succ, Nat.pow_add]; omega

theorem natToLE_length (w x : Nat) : (natToLE w x).length = w := by
  induction w generalizing x with
  | zero => rfl
  | succ w ih => simp [natToLE, ih]

theorem leToNat_natToLE (w x : Nat) : leToNat (natToLE w x) = x % 2 ^ (8 * w) := by
  induction w generalizing x with
  | zero => simp [natToLE, leToNat, Nat.mod_one]
  | succ w ih =>
    simp only [natToLE, leToNat, ih, pow8_succ, UInt8.toNat_ofNat']
    rw [Nat.mod_mul]
    omega

theorem leToNat_lt (bs : List UInt8) : leToNat bs < 2 ^ (8 * bs.length) := by
  induction bs with
  | nil => simp [leToNat]
  | cons b bs ih =>
    simp only [leToNat, List.length_cons, pow8_succ]
    have := b.toNat_lt
    omega

theorem natToLE_zero (w : Nat) : natToLE w 0 = List.replicate w 0 := by
  induction w with
  | zero => rfl
  | succ w ih => simp [natToLE, ih, List.replicate_succ]

theorem natToLE_leToNat_gen (w : Nat) (bs : List UInt8) :
    natToLE w (leToNat bs) = bs.take w ++ List.replicate (w - bs.length) 0 := by
  induction w generalizing bs with
  | zero => simp [natToLE]
  | succ w ih =>
    cases bs with
    | nil => simp [leToNat, natToLE_zero]
    | cons b bs =>
      have hb := b.toNat_lt
      have h1 : (b.toNat + 256 * leToNat bs) % 256 = b.toNat := by omega
      have h2 : (b.toNat + 256 * leToNat bs) / 256 = leToNat bs := by omega
      simp [natToLE, leToNat, h1, h2, ih]

theorem natToLE_leToNat (bs : List UInt8) : natToLE bs.length (leToNat bs) = bs := by
  simp [natToLE_leToNat_gen]

theorem newConstUint_spec (val w : Nat) :
    Const.newConstUint val w = if val < 2 ^ (8 * w) then some (natToLE w val) else none := by
  have h : (256 : Nat) ^ w = 2 ^ (8 * w) := by rw [Nat.pow_mul]
  unfold Const.newConstUint
  rw [h]
  have hp : 0 < 2 ^ (8 * w) := Nat.pow_pos (by omega)
  by_cases hv : val < 2 ^ (8 * w)
  · simp [hv, Nat.div_eq_of_lt hv]
  · have : 0 < val / 2 ^ (8 * w) := Nat.div_pos (by omega) hp
    simp [hv, this]

theorem newConst_spec (b : List UInt8) (w : Nat) :
    Const.newConst b w = natToLE w (leToNat b) := by
  rw [natToLE_leToNat_gen]
  unfold Const.newConst Expreval.setWidth
  split
  · next h => simp [Nat.sub_eq_zero_of_le h]
  · next h => rw [List.take_of_length_le (by omega)]

theorem withWidth_spec (bs : List UInt8) (w : Nat) :
    Const.withWidth bs w = natToLE w (leToNat bs) := by
  unfold Const.withWidth
  split
  · next h => rw [← h, natToLE_leToNat]
  · split
    · next h => rw [natToLE_leToNat_gen]; simp [Nat.sub_eq_zero_of_le (Nat.le_of_lt h)]
    · exact newConst_spec bs w


/-! ### `NewConstInt` -/

theorem intLoop_succ (w : Nat) (v : Int) : Const.intLoop (w + 1) v =
   (UInt8.ofNat (v % 256).toNat :: (Const.intLoop w (v / 256)).1, (Const.intLoop w (v / 256)).2) := by
  rw [Const.intLoop]

theorem intLoop_inv (w : Nat) (v : Int) :
    (Const.intLoop w v).1.length = w ∧
      (leToNat (Const.intLoop w v).1 : Int) + (2 ^ (8 * w) : Nat) * (Const.intLoop w v).2 = v := by
  induction w generalizing v with
  | zero => simp [Const.intLoop, leToNat]
  | succ w ih =>
    obtain ⟨h1, h2⟩ := ih (v / 256)
    rw [intLoop_succ]
    simp only [List.length_cons, h1, leToNat, pow8_succ, UInt8.toNat_ofNat', true_and]
    generalize (Const.intLoop w (v / 256)).2 = r at h2 ⊢
    generalize leToNat (Const.intLoop w (v / 256)).1 = n at h2 ⊢
    generalize 2 ^ (8 * w) = M at h2 ⊢
    rw [Int.natCast_mul, Int.mul_assoc]
    generalize (M : Int) * r = t at h2 ⊢
    omega

theorem leToNat_top (bs : List UInt8) (hne : bs ≠ []) :
    ∃ lo, lo < 2 ^ (8 * (bs.length - 1)) ∧
      leToNat bs = lo + 2 ^ (8 * (bs.length - 1)) * (bs.getLast?.getD 0).toNat := by
  induction bs with
  | nil => exact absurd rfl hne
  | cons b bs ih =>
    cases bs with
    | nil => exact ⟨0, by simp [leToNat]⟩
    | cons c rest =>
      obtain ⟨lo, hlo, heq⟩ := ih (by simp)
      refine ⟨b.toNat + 256 * lo, ?_, ?_⟩
      · have := b.toNat_lt
        simp only [List.length_cons, Nat.add_sub_cancel] at hlo ⊢
        rw [pow8_succ]; omega
      · rw [List.getLast?_cons_cons, leToNat, heq]
        simp only [List.length_cons, Nat.add_sub_cancel]
        rw [pow8_succ, Nat.mul_add, Nat.mul_assoc]
        omega

theorem newConstInt_spec (val : Int) (w : Nat) (hw : 1 ≤ w) :
    Const.newConstInt val w =
      if -(2 ^ (8 * w - 1) : Int) ≤ val ∧ val < (2 ^ (8 * w - 1) : Int)
      then some (natToLE w (Spec.ofInt w val)) else none := by
  obtain ⟨w', rfl⟩ : ∃ w', w = w' + 1 := ⟨w - 1, by omega⟩
  obtain ⟨hlen, hval⟩ := intLoop_inv (w' + 1) val
  unfold Const.newConstInt
  generalize Const.intLoop (w' + 1) val = p at hlen hval
  obtain ⟨bs, rest⟩ := p
  simp only at hlen hval ⊢
  have hne : bs ≠ [] := by intro h; simp [h] at hlen
  obtain ⟨lo, hlo, htop⟩ := leToNat_top bs hne
  have hlt := leToNat_lt bs
  rw [hlen] at hlt
  rw [hlen, Nat.add_sub_cancel] at hlo htop
  have hbs : natToLE (w' + 1) (leToNat bs) = bs := by rw [← hlen]; exact natToLE_leToNat bs
  have hH : (2 : Int) ^ (8 * (w' + 1) - 1) = ((128 * 2 ^ (8 * w') : Nat) : Int) := by
    have : 8 * (w' + 1) - 1 = 8 * w' + 7 := by omega
    have e : ((2 ^ (8 * w') : Nat) : Int) = (2 : Int) ^ (8 * w') := Int.natCast_pow 2 _
    rw [this, Int.pow_add, Int.natCast_mul, e]; omega
  have hofInt : Spec.ofInt (w' + 1) val = leToNat bs := by
    unfold Spec.ofInt Spec.M
    rw [← hval, Int.add_mul_emod_self_left,
      Int.emod_eq_of_lt (Int.natCast_nonneg _) (Int.ofNat_lt.mpr hlt)]
    simp
  rw [hofInt, hbs, hH]
  rw [pow8_succ] at hval hlt
  generalize (bs.getLast?.getD 0).toNat = top at htop ⊢
  generalize leToNat bs = n at *
  generalize hP : 2 ^ (8 * w') = P at *
  have hPpos : 0 < P := by rw [← hP]; exact Nat.pow_pos (by omega)
  have e256 : ((256 : Nat) : Int) = 256 := rfl
  have e128 : ((128 : Nat) : Int) = 128 := rfl
  rw [Int.natCast_mul, e256, Int.mul_assoc] at hval
  rw [Int.natCast_mul, e128]
  by_cases h0 : rest = 0
  · subst h0
    by_cases ht : top < 128
    · have : P * top ≤ P * 127 := Nat.mul_le_mul_left P (by omega)
      have hc : (-(128 * (P : Int)) ≤ val ∧ val < 128 * (P : Int)) := by omega
      simp [ht, hc]
    · have : P * 128 ≤ P * top := Nat.mul_le_mul_left P (by omega)
      have hc : ¬ (-(128 * (P : Int)) ≤ val ∧ val < 128 * (P : Int)) := by omega
      simp [ht, hc]
  · by_cases h1 : rest = -1
    · subst h1
      by_cases ht : top < 128
      · have : P * top ≤ P * 127 := Nat.mul_le_mul_left P (by omega)
        have hc : ¬ (-(128 * (P : Int)) ≤ val ∧ val < 128 * (P : Int)) := by omega
        simp [ht, hc]
      · have : P * 128 ≤ P * top := Nat.mul_le_mul_left P (by omega)
        have hc : (-(128 * (P : Int)) ≤ val ∧ val < 128 * (P : Int)) := by omega
        simp [ht, hc]
    · have hc : ¬ (-(128 * (P : Int)) ≤ val ∧ val < 128 * (P : Int)) := by
        rcases (by omega : rest ≥ 1 ∨ rest ≤ -2) with hr | hr
        · have := Int.mul_le_mul_of_nonneg_left hr (by omega : (0 : Int) ≤ P)
          omega
        · have := Int.mul_le_mul_of_nonneg_left hr (by omega : (0 : Int) ≤ P)
          omega
      simp [h0, h1, hc]


/-! ### `ConstUint` -/

theorem leToNat_append (l₁ l₂ : List UInt8) :
    leToNat (l₁ ++ l₂) = leToNat l₁ + 2 ^ (8 * l₁.length) * leToNat l₂ := by
  induction l₁ with
  | nil => simp [leToNat]
  | cons b l ih =>
    simp only [List.cons_append, leToNat, ih, List.length_cons, pow8_succ]
    rw [Nat.mul_add, Nat.mul_assoc]; omega

theorem leToNat_replicate_zero (n : Nat) : leToNat (List.replicate n 0) = 0 := by
  induction n with
  | zero => rfl
  | succ n ih => simp [List.replicate_succ, leToNat, ih]

theorem leToNat_take (bs : List UInt8) (k : Nat) :
    leToNat (bs.take k) = leToNat bs % 2 ^ (8 * k) := by
  rw [← leToNat_natToLE, natToLE_leToNat_gen, leToNat_append, leToNat_replicate_zero]; simp

theorem leToNat_reverse_dropWhile (r : List UInt8) :
    leToNat (r.dropWhile (· == 0)).reverse = leToNat r.reverse := by
  induction r with
  | nil => rfl
  | cons x r ih =>
    rw [List.dropWhile_cons]
    split
    · next h =>
      have hx : x = 0 := by simpa using h
      subst hx
      rw [ih, List.reverse_cons, leToNat_append]; simp [leToNat]
    · rfl

theorem constUint_spec (size : Nat) (bs : List UInt8) (hs : 1 ≤ size) (hb : bs ≠ []) :
    Const.constUint size bs =
      (leToNat bs % 2 ^ (8 * size), decide (leToNat bs < 2 ^ (8 * size))) := by
  have _ := hb
  unfold Const.constUint Const.nonzeroUpperIdx
  have hrev := leToNat_reverse_dropWhile bs.reverse
  rw [List.reverse_reverse] at hrev
  have hnn := List.head_dropWhile_not (· == (0 : UInt8)) (l := bs.reverse)
  generalize bs.reverse.dropWhile (· == 0) = l at hrev hnn
  simp only [leToNat_take]
  have hone : 2 ^ (8 * 1) ≤ 2 ^ (8 * size) := Nat.pow_le_pow_right (by omega) (by omega)
  cases l with
  | nil =>
    have h0 : leToNat bs = 0 := by rw [← hrev]; rfl
    have hp : 0 < 2 ^ (8 * size) := Nat.pow_pos (by omega)
    simp only []
    rw [if_neg (by omega), h0]
    simp [hp]
  | cons x l =>
    have hx : x ≠ 0 := by simpa using hnn (by simp)
    have hx' : 1 ≤ x.toNat := by
      rcases Nat.eq_zero_or_pos x.toNat with h | h
      · exact absurd (UInt8.toNat_inj.mp (by simpa using h)) hx
      · exact h
    have hlt := leToNat_lt (x :: l).reverse
    rw [List.reverse_cons, leToNat_append] at hrev
    simp only [List.length_reverse, List.length_cons, leToNat, Nat.mul_zero, Nat.add_zero] at hrev hlt
    simp only [List.length_cons, Nat.add_sub_cancel]
    have hge : 2 ^ (8 * l.length) ≤ leToNat bs := by
      rw [← hrev]
      have := Nat.mul_le_mul_left (2 ^ (8 * l.length)) hx'
      omega
    rw [List.reverse_cons, leToNat_append] at hlt
    simp only [List.length_reverse, leToNat, Nat.mul_zero, Nat.add_zero] at hlt
    rw [hrev] at hlt
    split
    · next h =>
      have : 2 ^ (8 * size) ≤ 2 ^ (8 * l.length) := Nat.pow_le_pow_right (by omega) (by omega)
      have hnl : ¬ leToNat bs < 2 ^ (8 * size) := by omega
      simp [hnl]
    · next h =>
      have : 2 ^ (8 * (l.length + 1)) ≤ 2 ^ (8 * size) := Nat.pow_le_pow_right (by omega) (by omega)
      have hl : leToNat bs < 2 ^ (8 * size) := by omega
      rw [Nat.mod_eq_of_lt hlt, Nat.mod_eq_of_lt hl]
      simp [hl]

end Mltwist.Lemmas.Const
