import Mltwist.Model.Const
import Mltwist.Spec.Gadgets
/-
Helper lemmas for C27.  (Proofs to be supplied.)
-/
namespace Mltwist.Lemmas.Const
open Mltwist

theorem natToLE_length (w x : Nat) : (natToLE w x).length = w := by
  sorry

theorem leToNat_natToLE (w x : Nat) : leToNat (natToLE w x) = x % 2 ^ (8 * w) := by
  sorry

theorem leToNat_lt (bs : List UInt8) : leToNat bs < 2 ^ (8 * bs.length) := by
  sorry

theorem natToLE_leToNat (bs : List UInt8) : natToLE bs.length (leToNat bs) = bs := by
  sorry

theorem newConstUint_spec (val w : Nat) :
    Const.newConstUint val w = if val < 2 ^ (8 * w) then some (natToLE w val) else none := by
  sorry

theorem newConstInt_spec (val : Int) (w : Nat) (hw : 1 ≤ w) :
    Const.newConstInt val w =
      if -(2 ^ (8 * w - 1) : Int) ≤ val ∧ val < (2 ^ (8 * w - 1) : Int)
      then some (natToLE w (Spec.ofInt w val)) else none := by
  sorry

theorem constUint_spec (size : Nat) (bs : List UInt8) (hs : 1 ≤ size) (hb : bs ≠ []) :
    Const.constUint size bs =
      (leToNat bs % 2 ^ (8 * size), decide (leToNat bs < 2 ^ (8 * size))) := by
  sorry

theorem withWidth_spec (bs : List UInt8) (w : Nat) :
    Const.withWidth bs w = natToLE w (leToNat bs) := by
  sorry

theorem newConst_spec (b : List UInt8) (w : Nat) :
    Const.newConst b w = natToLE w (leToNat b) := by
  sorry

end Mltwist.Lemmas.Const
