import Mltwist.Lemmas.OverlayInst
/-
C18, part 2: an applied `MemStore` is the store of C14/C16 in the address space of its key.
-/
namespace Mltwist.Lemmas.State
open Mltwist Mltwist.State Mltwist.Overlay Mltwist.Spec.Overlay

/-- the memories of the state satisfy their invariants and accept every store -/
def Good (s : State) : Prop := s.mems.Inv ∧ ∀ key e, s.mems.Storable key e

theorem good_new : Good State.new :=
  ⟨fun _ _ h => by simp [State.new, assocGet] at h, fun _ _ => by simp [State.new, MemMap.Storable, assocGet]⟩

theorem abs_of_get_eq {m m' : MemMap} {key : String} (h : assocGet key m' = assocGet key m) :
    m'.abs key = m.abs key := by
  unfold MemMap.abs
  rw [h]

theorem apply_memStore_spec (s : State) (hg : Good s) (v : Expr) (key : String) (addr : Expr) (w : Nat)
    (c : List UInt8) (hc : constFold addr = .const c) (hd : InDom (leToNat c % 2 ^ 64) w) :
    ∃ s', s.apply (.memStore v key addr w) = .ok (s', true) ∧ s'.regs = s.regs ∧ Good s' ∧
      s'.mems.abs key = (s.mems.abs key).store (leToNat c % 2 ^ 64) v w ∧
      ∀ key', key' ≠ key → s'.mems.abs key' = s.mems.abs key' := by
  obtain ⟨m', h1, h2, h3, h4, h5⟩ :=
    Lemmas.Overlay.memmap_store s.mems hg.1 key (leToNat c % 2 ^ 64) v w (hg.2 key v) hd
  refine ⟨{ s with mems := m' }, ?_, rfl, ⟨h2, fun key' e => ?_⟩, h3, fun key' hne => abs_of_get_eq (h4 key' hne)⟩
  · rw [apply_memStore_const s v key addr w c hc, h1]
  · by_cases hk : key' = key
    · subst hk
      exact (h5 e).2 (Or.inl (hg.2 _ e))
    · have := hg.2 key' e
      unfold MemMap.Storable at this ⊢
      simp only
      rw [h4 key' hk]
      exact this

/-- every effect whose constant store address lies in the domain of C14 applies without panic and
keeps the state good -/
theorem good_apply (s : State) (hg : Good s) (ef : Effect)
    (hd : ∀ v key addr w c, ef = .memStore v key addr w → constFold addr = .const c →
      InDom (leToNat c % 2 ^ 64) w) :
    ∃ s' b, s.apply ef = .ok (s', b) ∧ Good s' := by
  cases ef with
  | regStore v k w => exact ⟨_, true, apply_regStore s v k w, hg⟩
  | memStore v key addr w =>
    cases hc : (constFold addr).isConst with
    | false => exact ⟨s, false, apply_memStore_refused s v key addr w hc, hg⟩
    | true =>
      obtain ⟨c, hcc⟩ : ∃ c, constFold addr = .const c := by
        cases hx : constFold addr <;> simp_all [Expr.isConst]
      obtain ⟨s', h1, _, h3, _⟩ := apply_memStore_spec s hg v key addr w c hcc (hd v key addr w c rfl hcc)
      exact ⟨s', true, h1, h3⟩

end Mltwist.Lemmas.State
