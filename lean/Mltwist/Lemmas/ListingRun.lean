import Mltwist.Lemmas.ListingNav
/-
Every command keeps the invariant, nothing panics, a command that does not report success changes
nothing but marks; histories (C23, C31).
-/
namespace Mltwist.Lemmas.Listing
open Mltwist.Listing Mltwist.Listing.Spec

/-- the command did not report success -/
def Failed (s : Status) : Prop := s ≠ .ok

/-- nothing changed but the marks -/
def Unchanged (st st' : St) : Prop :=
  shown st'.lines = shown st.lines ∧ st'.code = st.code ∧ st'.cursor = st.cursor

theorem unchanged_of_eq (st : St) : Unchanged st st := ⟨rfl, rfl, rfl⟩

theorem cursor_ext (c c' : Cursor) (h1 : c.maxValue = c'.maxValue) (h2 : c.value = c'.value) : c = c' := by
  cases c; cases c'; simp_all

theorem nav_unchanged (st st' : St) (hinv : Inv st) (hk : NavKeeps st st') (hv : st'.cursor.value = st.cursor.value) :
    Unchanged st st' := by
  refine ⟨by rw [hk.lines], hk.code, cursor_ext _ _ ?_ hv⟩
  rw [hk.keeps.inv.curMax, hinv.curMax, hk.keeps.length]

theorem setCursor_step (st : St) (hinv : Inv st) (v : Int) :
    Keeps st (setCursor st v).2 ∧ (Failed (setCursor st v).1 → Unchanged st (setCursor st v).2) := by
  obtain ⟨k, l, c, h⟩ := setCursor_spec st hinv v
  refine ⟨k, fun hf => ?_⟩
  rcases h with ⟨_, _, hs, _⟩ | ⟨_, _, hst⟩
  · exact absurd hs hf
  · rw [hst]; exact unchanged_of_eq st

theorem step_of_setCursor (ops : CodeOps) (st : St) (hinv : Inv st) (cmd : Cmd) (v : Int)
    (hstep : step ops st cmd = some (setCursor st v)) :
    ∃ s st', step ops st cmd = some (s, st') ∧ Keeps st st' ∧ (Failed s → Unchanged st st') := by
  obtain ⟨k, u⟩ := setCursor_step st hinv v
  exact ⟨(setCursor st v).1, (setCursor st v).2, hstep, k, u⟩

theorem step_spec (ops : CodeOps) (hl : Lawful ops) (st : St) (hinv : Inv st) (c : Cmd)
    (hv : ValidCmd st.lines.lines.length c) :
    ∃ s st', step ops st c = some (s, st') ∧ Keeps st st' ∧ (Failed s → Unchanged st st') := by
  cases c with
  | down n => exact step_of_setCursor ops st hinv _ _ rfl
  | up n => exact step_of_setCursor ops st hinv _ _ rfl
  | move f t =>
    obtain ⟨s, st', h, k, hc, hu⟩ := cmdMove_spec ops hl st hinv f t
    exact ⟨s, st', h, k, fun hf => ⟨(hu hf).1, (hu hf).2, hc⟩⟩
  | bounds n =>
    obtain ⟨s, st', h, k, hc, hr, hcode⟩ := cmdBounds_spec st hinv n
    exact ⟨s, st', h, k, fun _ => ⟨hr, hcode, hc⟩⟩
  | find ms =>
    obtain ⟨s, st', h, k, hlands⟩ := find_spec ops st hinv ms (fun v hv' => by subst hv'; exact hv)
    refine ⟨s, st', h, k.keeps, fun hf => nav_unchanged st st' hinv k ?_⟩
    unfold Lands at hlands
    split at hlands
    · exact absurd hlands.1 hf
    · exact hlands.2
  | goto n =>
    obtain ⟨s, st', h, k, hlands⟩ := goto_spec ops st hinv n
    refine ⟨s, st', h, k.keeps, fun hf => nav_unchanged st st' hinv k ?_⟩
    unfold Lands at hlands
    split at hlands
    · exact absurd hlands.1 hf
    · exact hlands.2
  | entrypoint =>
    obtain ⟨s, st', h, k, hcase⟩ := entry_sound ops st hinv
    refine ⟨s, st', h, k.keeps, fun hf => ?_⟩
    rcases hcase with ⟨hs, _⟩ | ⟨_, hst, _⟩
    · exact absurd hs hf
    · rw [hst]; exact unchanged_of_eq st

theorem run_spec (ops : CodeOps) (hl : Lawful ops) (st : St) (hinv : Inv st) (cmds : List Cmd)
    (hv : ∀ c ∈ cmds, ValidCmd st.lines.lines.length c) :
    ∃ st', run ops st cmds = some st' ∧ Inv st' ∧ st'.lines.lines.length = st.lines.lines.length ∧
      st'.code.entry = st.code.entry := by
  induction cmds generalizing st with
  | nil => exact ⟨st, rfl, hinv, rfl, rfl⟩
  | cons c cs ih =>
    obtain ⟨s, st1, h1, k1, _⟩ := step_spec ops hl st hinv c (hv c (by simp))
    obtain ⟨st2, h2, i2, l2, e2⟩ := ih st1 k1.inv (fun c' hc' => by rw [k1.length]; exact hv c' (by simp [hc']))
    exact ⟨st2, by simp only [run, h1, h2], i2, l2.trans k1.length, e2.trans k1.entry⟩

/-- what the invariant means in terms of the specification -/
theorem inv_shows (st : St) (hinv : Inv st) :
    shown st.lines = rows st.code ∧
    ∀ (k : Nat) (b : Block), st.code.blocks[k]? = some b → ∀ i, st.lines.line b i = some (lineOf st.code k i) := by
  refine ⟨hinv.rows.trans (shown_newLines _ hinv.wf), fun k b hb i => ?_⟩
  have := line_newLines st.code k b hb (hinv.wf.blockIdx k b hb) i
  simpa [Lines.line, hinv.starts] using this

/-- states of the disassembler mode reachable from the initial state on code `c` -/
def Reachable (ops : CodeOps) (c : Code) (st : St) : Prop :=
  ∃ cmds : List Cmd, (∀ x ∈ cmds, ValidCmd (newLines c).lines.length x) ∧ run ops (St.init c) cmds = some st

theorem reachable_inv (ops : CodeOps) (hl : Lawful ops) (c : Code) (hwf : WF c) (st : St)
    (h : Reachable ops c st) :
    Inv st ∧ st.lines.lines.length = (newLines c).lines.length ∧ st.code.entry = c.entry := by
  obtain ⟨cmds, hv, hrun⟩ := h
  obtain ⟨st', h', i, l, e⟩ := run_spec ops hl (St.init c) (inv_init c hwf) cmds hv
  rw [hrun] at h'
  cases h'
  exact ⟨i, l, e⟩

end Mltwist.Lemmas.Listing
