import Mltwist.Lemmas.DepsLookup
/-
The invariant of a whole code of the model (`CInv`): every block object satisfies the block
invariant, pointers are positions in `blocksByAddr` (`store`), `blocks` is a permutation of all
pointers, block indices are positions in `blocks`, and the block objects are sorted by address and
pairwise disjoint.
-/
namespace Mltwist.Lemmas.Deps
open Mltwist Mltwist.Deps Mltwist.Deps.Spec

/-- everything of a block except its index -/
def frozen (b : Block) : Nat × Nat × Nat × List Ins × Edges := (b.ptr, b.begin, b.end_, b.seq, b.edges)

structure CInv (c : Code) : Prop where
  blocks : ∀ b ∈ c.store, BInv b
  ptr : ∀ p (h : p < c.store.length), c.store[p].ptr = p
  perm : c.blocks.Perm (List.range c.store.length)
  idx : ∀ k (h : k < c.blocks.length) (hp : c.blocks[k] < c.store.length), c.store[c.blocks[k]].idx = k
  sorted : c.store.Pairwise (fun a b => a.begin + bytesI a.seq ≤ b.begin)

end Mltwist.Lemmas.Deps
