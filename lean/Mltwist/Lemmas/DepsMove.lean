import Mltwist.Model.Deps
import Mltwist.Spec.Deps
/-
The loops of `moves.go` (`Model/Deps.lean`: `moveFwd`, `moveBack`, `move`) in closed form: the
segment between the two positions is rotated by one and its elements get fresh indices and
addresses (`readdr`); nothing else changes; no index is ever out of range.
-/
namespace Mltwist.Lemmas.Deps
open Mltwist Mltwist.Deps

/-- fresh indices `k, k+1, …` and addresses `a, End(), …` for a segment: what both loops assign -/
def readdr {α : Type} (o : Movable α) : Nat → Nat → List α → List α
  | _, _, [] => []
  | k, a, x :: xs =>
    let y := o.setAddr (o.setIndex x k) a
    y :: readdr o (k + 1) (o.end_ y) xs

/-- the running address after `readdr o k a l` -/
def readdrEnd {α : Type} (o : Movable α) : Nat → Nat → List α → Nat
  | _, a, [] => a
  | k, a, x :: xs => readdrEnd o (k + 1) (o.end_ (o.setAddr (o.setIndex x k) a)) xs

/-- fresh indices only -/
def reidx {α : Type} (o : Movable α) : Nat → List α → List α
  | _, [] => []
  | k, x :: xs => o.setIndex x k :: reidx o (k + 1) xs

/-- fresh addresses only -/
def addrs {α : Type} (o : Movable α) : Nat → List α → List α
  | _, [] => []
  | a, x :: xs => o.setAddr x a :: addrs o (o.end_ (o.setAddr x a)) xs

theorem readdr_length {α : Type} (o : Movable α) (k a : Nat) (l : List α) :
    (readdr o k a l).length = l.length := by
  induction l generalizing k a with
  | nil => rfl
  | cons x xs ih => simp [readdr, ih]

theorem reidx_length {α : Type} (o : Movable α) (k : Nat) (l : List α) :
    (reidx o k l).length = l.length := by
  induction l generalizing k with
  | nil => rfl
  | cons x xs ih => simp [reidx, ih]

theorem addrs_length {α : Type} (o : Movable α) (a : Nat) (l : List α) :
    (addrs o a l).length = l.length := by
  induction l generalizing a with
  | nil => rfl
  | cons x xs ih => simp [addrs, ih]

theorem readdr_append {α : Type} (o : Movable α) (k a : Nat) (l₁ l₂ : List α) :
    readdr o k a (l₁ ++ l₂) =
      readdr o k a l₁ ++ readdr o (k + l₁.length) (readdrEnd o k a l₁) l₂ := by
  induction l₁ generalizing k a with
  | nil => simp [readdr, readdrEnd]
  | cons x xs ih =>
    simp only [List.cons_append, readdr, readdrEnd, ih, List.length_cons]
    have : k + 1 + xs.length = k + (xs.length + 1) := by omega
    rw [this]

theorem reidx_append {α : Type} (o : Movable α) (k : Nat) (l₁ l₂ : List α) :
    reidx o k (l₁ ++ l₂) = reidx o k l₁ ++ reidx o (k + l₁.length) l₂ := by
  induction l₁ generalizing k with
  | nil => simp [reidx]
  | cons x xs ih =>
    simp only [List.cons_append, reidx, ih, List.length_cons]
    have : k + 1 + xs.length = k + (xs.length + 1) := by omega
    rw [this]

theorem readdr_eq_addrs_reidx {α : Type} (o : Movable α) (k a : Nat) (l : List α) :
    readdr o k a l = addrs o a (reidx o k l) := by
  induction l generalizing k a with
  | nil => rfl
  | cons x xs ih => simp [readdr, reidx, addrs, ih]

/-- a function of the elements that neither `setIndex` nor `setAddr` changes is preserved by `readdr` -/
theorem readdr_map {α β : Type} (o : Movable α) (g : α → β) (hi : ∀ x k, g (o.setIndex x k) = g x)
    (ha : ∀ x a, g (o.setAddr x a) = g x) (k a : Nat) (l : List α) :
    (readdr o k a l).map g = l.map g := by
  induction l generalizing k a with
  | nil => rfl
  | cons x xs ih => simp [readdr, ih, hi, ha]

/-! ### `moveFwd` -/

theorem moveFwdLoop_split {α : Type} (o : Movable α) (k : Nat) :
    ∀ (i a : Nat) (P : List α) (x0 : α) (S : List α), i = P.length → k ≤ S.length →
      ∃ z, moveFwdLoop o k i a (P ++ x0 :: S) =
        some (P ++ readdr o i a (S.take k) ++ z :: S.drop k, readdrEnd o i a (S.take k)) := by
  induction k with
  | zero =>
    intro i a P x0 S _ _
    exact ⟨x0, by simp [moveFwdLoop, readdr, readdrEnd]⟩
  | succ k ih =>
    intro i a P x0 S hi hk
    cases S with
    | nil => simp at hk
    | cons y S' =>
      simp only [List.length_cons, Nat.add_le_add_iff_right] at hk
      subst hi
      obtain ⟨z, hz⟩ := ih (P.length + 1) (o.end_ (o.setAddr (o.setIndex y P.length) a))
        (P ++ [o.setAddr (o.setIndex y P.length) a]) y S' (by simp) hk
      refine ⟨z, ?_⟩
      have h1 : (P ++ x0 :: y :: S')[P.length + 1]? = some y := by
        rw [List.getElem?_append_right (by omega)]
        simp
      have h2 : (P ++ x0 :: y :: S').set P.length (o.setAddr (o.setIndex y P.length) a) =
          (P ++ [o.setAddr (o.setIndex y P.length) a]) ++ y :: S' := by
        rw [List.set_append_right _ _ (by omega)]
        simp
      simp only [moveFwdLoop, h1, h2, hz]
      simp [readdr, readdrEnd]

theorem moveFwd_split {α : Type} (o : Movable α) (P : List α) (x0 : α) (S : List α) (k : Nat)
    (hk : k ≤ S.length) :
    moveFwd o (P ++ x0 :: S) P.length (P.length + k) =
      some (P ++ readdr o P.length (o.begin x0) (S.take k ++ [x0]) ++ S.drop k) := by
  obtain ⟨z, hz⟩ := moveFwdLoop_split o k P.length (o.begin x0) P x0 S rfl hk
  have h0 : (P ++ x0 :: S)[P.length]? = some x0 := by simp
  have h3 : P.length + k - P.length = k := by omega
  simp only [moveFwd, h0, h3, hz]
  have hlen : P.length + k < (P ++ readdr o P.length (o.begin x0) (S.take k) ++ z :: S.drop k).length := by
    simp [readdr_length]; omega
  rw [if_pos hlen]
  congr 1
  rw [List.set_append_right _ _ (by simp [readdr_length]; omega)]
  have h4 : P.length + k - (P ++ readdr o P.length (o.begin x0) (S.take k)).length = 0 := by
    simp [readdr_length]; omega
  rw [h4, readdr_append]
  have h5 : (S.take k).length = k := by simp; omega
  simp [readdr, h5]

theorem split_at {α : Type} (arr : List α) (f : Nat) (hf : f < arr.length) :
    ∃ P S, arr = P ++ arr[f] :: S ∧ P.length = f ∧ P = arr.take f ∧ S = arr.drop (f + 1) := by
  refine ⟨arr.take f, arr.drop (f + 1), ?_, ?_, rfl, rfl⟩
  · simp
  · simp; omega

theorem moveFwd_eq {α : Type} (o : Movable α) (arr : List α) (f t : Nat) (hft : f < t)
    (ht : t < arr.length) :
    moveFwd o arr f t = some (arr.take f ++
      readdr o f (o.begin (arr[f]'(by omega))) ((arr.drop (f + 1)).take (t - f) ++ [arr[f]'(by omega)]) ++
      arr.drop (t + 1)) := by
  obtain ⟨P, S, harr, hP, hP', hS'⟩ := split_at arr f (by omega)
  rw [← hP', ← hS']
  have hlen : arr.length = P.length + (S.length + 1) := by
    have := congrArg List.length harr
    simpa using this
  have hk : t - f ≤ S.length := by omega
  have h := moveFwd_split o P arr[f] S (t - f) hk
  rw [← harr, hP] at h
  have h6 : f + (t - f) = t := by omega
  rw [h6] at h
  rw [h]
  have h7 : arr.drop (t + 1) = S.drop (t - f) := by
    rw [hS', List.drop_drop]
    congr 1; omega
  rw [h7]

/-! ### `moveBack` -/

theorem moveBackShift_split_aux {α : Type} (o : Movable α) (R : List α) :
    ∀ (P : List α) (z : α) (S : List α) (i : Nat), i = P.length + R.length →
      ∃ hd, moveBackShift o R.length i (P ++ R.reverse ++ z :: S) =
        some (P ++ hd :: reidx o (P.length + 1) R.reverse ++ S) := by
  induction R with
  | nil =>
    intro P z S i _
    exact ⟨z, by simp [moveBackShift, reidx]⟩
  | cons q R' ih =>
    intro P z S i hi
    simp only [List.length_cons] at hi
    subst hi
    generalize hQ' : R'.reverse = Q' at ih
    have hl : R'.length = Q'.length := by rw [← hQ']; simp
    simp only [List.length_cons]
    rw [hl] at ih ⊢
    obtain ⟨hd, hhd⟩ := ih P q (o.setIndex q (P.length + (Q'.length + 1)) :: S)
      (P.length + Q'.length) rfl
    refine ⟨hd, ?_⟩
    rw [List.reverse_cons, hQ']
    have e : P ++ (Q' ++ [q]) ++ z :: S = (P ++ Q') ++ q :: z :: S := by simp
    have h1 : (P ++ (Q' ++ [q]) ++ z :: S)[P.length + (Q'.length + 1) - 1]? = some q := by
      rw [e, List.getElem?_append_right (by simp)]
      have : P.length + (Q'.length + 1) - 1 - (P ++ Q').length = 0 := by simp
      rw [this]; rfl
    have h2 : P.length + (Q'.length + 1) < (P ++ (Q' ++ [q]) ++ z :: S).length := by
      simp
    have h3 : (P ++ (Q' ++ [q]) ++ z :: S).set (P.length + (Q'.length + 1))
          (o.setIndex q (P.length + (Q'.length + 1))) =
        P ++ Q' ++ q :: o.setIndex q (P.length + (Q'.length + 1)) :: S := by
      rw [e, List.set_append_right _ _ (by simp)]
      have : P.length + (Q'.length + 1) - (P ++ Q').length = 1 := by simp; omega
      rw [this]; rfl
    have h4 : P.length + (Q'.length + 1) - 1 = P.length + Q'.length := by omega
    simp only [moveBackShift, h1, if_pos h2, h3]
    rw [h4, hhd, reidx_append]
    simp [reidx]
    congr 1
    omega

theorem moveBackShift_split {α : Type} (o : Movable α) (Q : List α)
    (P : List α) (z : α) (S : List α) (i : Nat) (hi : i = P.length + Q.length) :
    ∃ hd, moveBackShift o Q.length i (P ++ Q ++ z :: S) =
      some (P ++ hd :: reidx o (P.length + 1) Q ++ S) := by
  have h := moveBackShift_split_aux o Q.reverse P z S i (by simpa using hi)
  simpa using h

theorem moveBackAddr_split {α : Type} (o : Movable α) (L : List α) :
    ∀ (P S : List α) (i a : Nat), i = P.length →
      moveBackAddr o L.length i a (P ++ L ++ S) = some (P ++ addrs o a L ++ S) := by
  induction L with
  | nil =>
    intro P S i a _
    simp [moveBackAddr, addrs]
  | cons y L' ih =>
    intro P S i a hi
    subst hi
    have h1 : (P ++ y :: L' ++ S)[P.length]? = some y := by simp
    have h2 : (P ++ y :: L' ++ S).set P.length (o.setAddr y a) =
        (P ++ [o.setAddr y a]) ++ L' ++ S := by
      rw [List.append_assoc, List.set_append_right _ _ (by omega)]
      simp
    simp only [List.length_cons, moveBackAddr, h1, h2]
    rw [ih (P ++ [o.setAddr y a]) S (P.length + 1) _ (by simp)]
    simp [addrs]

theorem moveBack_split {α : Type} (o : Movable α) (P Q : List α) (x : α) (S : List α) (y : α)
    (hy : (Q ++ [x])[0]? = some y) (hQ : 0 < Q.length) :
    moveBack o (P ++ Q ++ x :: S) (P.length + Q.length) P.length =
      some (P ++ readdr o P.length (o.begin y) (x :: Q) ++ S) := by
  obtain ⟨hd, hhd⟩ := moveBackShift_split o Q P x S (P.length + Q.length) rfl
  have h0 : (P ++ Q ++ x :: S)[P.length + Q.length]? = some x := by
    rw [List.getElem?_append_right (by simp)]
    simp
  have h1 : (P ++ Q ++ x :: S)[P.length]? = some y := by
    rw [List.append_assoc, List.getElem?_append_right (by omega)]
    cases Q with
    | nil => simp at hQ
    | cons q Q' => simpa using hy
  have h2 : P.length + Q.length - P.length = Q.length := by omega
  have h3 : (P ++ hd :: reidx o (P.length + 1) Q ++ S).set P.length (o.setIndex x P.length) =
      P ++ reidx o P.length (x :: Q) ++ S := by
    rw [List.append_assoc, List.set_append_right _ _ (by omega)]
    simp [reidx]
  have h4 : Q.length + 1 = (reidx o P.length (x :: Q)).length := by simp [reidx_length]
  simp only [moveBack, h0, h1, h2, hhd, h3]
  rw [h4, moveBackAddr_split o _ P S P.length _ rfl, readdr_eq_addrs_reidx]

theorem split_at2 {α : Type} (arr : List α) (t f : Nat) (htf : t ≤ f) (hf : f < arr.length) :
    ∃ P Q S, arr = P ++ Q ++ arr[f] :: S ∧ P.length = t ∧ Q.length = f - t ∧ P = arr.take t ∧
      Q = (arr.drop t).take (f - t) ∧ S = arr.drop (f + 1) := by
  refine ⟨arr.take t, (arr.drop t).take (f - t), arr.drop (f + 1), ?_, ?_, ?_, rfl, rfl, rfl⟩
  · have h1 : arr.drop t = (arr.drop t).take (f - t) ++ (arr.drop t).drop (f - t) :=
      (List.take_append_drop _ _).symm
    have h2 : (arr.drop t).drop (f - t) = arr.drop f := by
      rw [List.drop_drop]; congr 1; omega
    have h3 : arr.drop f = arr[f] :: arr.drop (f + 1) := by simp
    rw [List.append_assoc, ← h3, ← h2, ← h1]
    simp
  · simp; omega
  · simp; omega

theorem moveBack_eq {α : Type} (o : Movable α) (arr : List α) (f t : Nat) (htf : t < f)
    (hf : f < arr.length) :
    moveBack o arr f t = some (arr.take t ++
      readdr o t (o.begin (arr[t]'(by omega))) (arr[f] :: (arr.drop t).take (f - t)) ++
      arr.drop (f + 1)) := by
  obtain ⟨P, Q, S, harr, hP, hQ, hP', hQ', hS'⟩ := split_at2 arr t f (by omega) hf
  rw [← hP', ← hQ', ← hS']
  have hy : (Q ++ [arr[f]])[0]? = some (arr[t]'(by omega)) := by
    rw [List.getElem?_append_left (by omega), hQ']
    simp [List.getElem?_take]
    omega
  have h := moveBack_split o P Q arr[f] S _ hy (by omega)
  rw [← harr, hP, hQ] at h
  have h6 : t + (f - t) = f := by omega
  rw [h6] at h
  exact h

/-! ### `move`, and the rotation without the refresh -/

/-- the segment in its new order, before indices/addresses are refreshed -/
def rotSeg {α : Type} (arr : List α) (f t : Nat) (x : α) : List α :=
  if f < t then (arr.drop (f + 1)).take (t - f) ++ [x] else x :: (arr.drop t).take (f - t)

theorem move_eq {α : Type} (o : Movable α) (arr : List α) (f t : Nat) (hf : f < arr.length)
    (ht : t < arr.length) (hne : f ≠ t) :
    move o arr f t = some (arr.take (min f t) ++
      readdr o (min f t) (o.begin (arr[min f t]'(by omega))) (rotSeg arr f t arr[f]) ++
      arr.drop (max f t + 1)) := by
  by_cases hft : f < t
  · have h1 : min f t = f := by omega
    have h2 : max f t = t := by omega
    simp only [move, if_neg hne, if_pos hft, rotSeg, h1, h2]
    exact moveFwd_eq o arr f t hft ht
  · have htf : t < f := by omega
    have h1 : min f t = t := by omega
    have h2 : max f t = f := by omega
    simp only [move, if_neg hne, if_neg hft, rotSeg, h1, h2]
    exact moveBack_eq o arr f t htf hf

theorem move_self {α : Type} (o : Movable α) (arr : List α) (f : Nat) : move o arr f f = some arr := by
  simp [move]

theorem eraseIdx_mid {α : Type} (P : List α) (x : α) (R : List α) :
    (P ++ x :: R).eraseIdx P.length = P ++ R := by
  induction P with
  | nil => simp
  | cons p P ih => simp [ih]

theorem insertIdx_mid {α : Type} (P R : List α) (x : α) :
    (P ++ R).insertIdx P.length x = P ++ x :: R := by
  induction P with
  | nil => simp
  | cons p P ih => simp [ih]

theorem rotate_fwd_split {α : Type} (P Q S : List α) (m : α) :
    Mltwist.Deps.Spec.rotate (P ++ m :: Q ++ S) P.length (P.length + Q.length) = P ++ Q ++ m :: S := by
  have hg : (P ++ m :: Q ++ S)[P.length]? = some m := by simp
  simp only [Mltwist.Deps.Spec.rotate, hg]
  rw [List.append_assoc, List.cons_append, eraseIdx_mid]
  have : P.length + Q.length = (P ++ Q).length := by simp
  rw [this, ← List.append_assoc, insertIdx_mid]

theorem rotate_back_split {α : Type} (P Q S : List α) (m : α) :
    Mltwist.Deps.Spec.rotate (P ++ Q ++ m :: S) (P.length + Q.length) P.length = P ++ m :: Q ++ S := by
  have hg : (P ++ Q ++ m :: S)[P.length + Q.length]? = some m := by
    rw [List.getElem?_append_right (by simp)]; simp
  simp only [Mltwist.Deps.Spec.rotate, hg]
  have : P.length + Q.length = (P ++ Q).length := by simp
  rw [this, eraseIdx_mid, List.append_assoc, insertIdx_mid]
  simp

/-- `arr = P ++ arr[i] :: Q ++ S` with `|P| = i`, `|Q| = k` -/
theorem split_seg {α : Type} (arr : List α) (i k : Nat) (h : i + k < arr.length) :
    ∃ P Q S, arr = P ++ arr[i] :: Q ++ S ∧ P.length = i ∧ Q.length = k ∧ P = arr.take i ∧
      Q = (arr.drop (i + 1)).take k ∧ S = arr.drop (i + k + 1) := by
  refine ⟨arr.take i, (arr.drop (i + 1)).take k, arr.drop (i + k + 1), ?_, ?_, ?_, rfl, rfl, rfl⟩
  · have h1 : arr.drop (i + 1) = (arr.drop (i + 1)).take k ++ (arr.drop (i + 1)).drop k :=
      (List.take_append_drop _ _).symm
    have h2 : (arr.drop (i + 1)).drop k = arr.drop (i + k + 1) := by
      rw [List.drop_drop]; congr 1; omega
    have h3 : arr.drop i = arr[i] :: arr.drop (i + 1) := by simp
    have h4 : arr = arr.take i ++ arr.drop i := (List.take_append_drop _ _).symm
    conv => lhs; rw [h4, h3, h1, h2]
    simp
  · simp; omega
  · simp; omega

theorem rotate_eq {α : Type} (arr : List α) (f t : Nat) (hf : f < arr.length) (ht : t < arr.length)
    (hne : f ≠ t) :
    Mltwist.Deps.Spec.rotate arr f t =
      arr.take (min f t) ++ rotSeg arr f t arr[f] ++ arr.drop (max f t + 1) := by
  by_cases hft : f < t
  · have h1 : min f t = f := by omega
    have h2 : max f t = t := by omega
    rw [h1, h2, rotSeg, if_pos hft]
    obtain ⟨P, Q, S, harr, hP, hQ, hP', hQ', hS'⟩ := split_seg arr f (t - f) (by omega)
    rw [show f + (t - f) + 1 = t + 1 by omega] at hS'
    rw [← hP', ← hQ', ← hS']
    generalize arr[f] = m at harr ⊢
    subst harr
    have := rotate_fwd_split P Q S m
    rw [hP, hQ, show f + (t - f) = t by omega] at this
    rw [this]; simp
  · have htf : t < f := by omega
    have h1 : min f t = t := by omega
    have h2 : max f t = f := by omega
    rw [h1, h2, rotSeg, if_neg hft]
    obtain ⟨P, Q, S, harr, hP, hQ, hP', hQ', hS'⟩ := split_at2 arr t f (by omega) hf
    rw [← hP', ← hQ', ← hS']
    generalize arr[f] = m at harr ⊢
    subst harr
    have := rotate_back_split P Q S m
    rw [hP, hQ, show t + (f - t) = f by omega] at this
    rw [this]

theorem rotSeg_perm {α : Type} (arr : List α) (f t : Nat) (hf : f < arr.length) (ht : t < arr.length)
    (hne : f ≠ t) :
    (rotSeg arr f t arr[f]).Perm ((arr.drop (min f t)).take (max f t - min f t + 1)) := by
  by_cases hft : f < t
  · have h1 : min f t = f := by omega
    have h2 : max f t = t := by omega
    rw [h1, h2, rotSeg, if_pos hft]
    have h3 : arr.drop f = arr[f] :: arr.drop (f + 1) := by simp
    rw [h3, show t - f + 1 = (t - f) + 1 by rfl, List.take_succ_cons]
    exact List.perm_append_singleton _ _
  · have htf : t < f := by omega
    have h1 : min f t = t := by omega
    have h2 : max f t = f := by omega
    rw [h1, h2, rotSeg, if_neg hft]
    have h3 : (arr.drop t).take (f - t + 1) = (arr.drop t).take (f - t) ++ [arr[f]] := by
      rw [List.take_add_one]
      congr 1
      rw [List.getElem?_drop]
      simp [show t + (f - t) = f by omega, hf]
    rw [h3]
    exact (List.perm_append_singleton _ _).symm

end Mltwist.Lemmas.Deps
