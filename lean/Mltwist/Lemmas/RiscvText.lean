import Mltwist.Model.RiscvTables
import Mltwist.Lemmas.RiscvDecode
import Mltwist.Lemmas.RiscvTextTables
/-
Helper lemmas for C25 (disassembly text is faithful).

Route: `Entry.text` factors through the argument tokens (`RiscvTextArgs.text_eq`).  Mnemonics
contain no space, so equal texts have equal mnemonics, hence (`names_nodup`) come from the same
entry, and have equal token lists (`", ".intercalate` is injective on comma-free tokens, whose
number depends on the entry only); equal tokens give equal shown fields (`args_shown`); the effects
of every table entry depend on the word only through the shown fields (`RiscvTextTables`).
-/
namespace Mltwist.Lemmas.RiscvText
open Mltwist Mltwist.Riscv
open Mltwist.Lemmas.RiscvDecode (Cfg)
open Mltwist.Lemmas.RiscvTextArgs Mltwist.Lemmas.RiscvTextTables

theorem text_prefix (e : Entry) (i : Ins) : ∃ rest, e.text i = e.name ++ " " ++ rest :=
  ⟨_, text_eq e i⟩

/-- in a list with pairwise distinct keys, the key determines the element -/
theorem eq_of_nodup_map {α β : Type} (f : α → β) :
    ∀ (l : List α), (l.map f).Nodup → ∀ a ∈ l, ∀ b ∈ l, f a = f b → a = b
  | [], _, _, ha, _, _, _ => by cases ha
  | x :: xs, hn, a, ha, b, hb, hab => by
    rw [List.map_cons, List.nodup_cons] at hn
    rcases List.mem_cons.1 ha with rfl | ha' <;> rcases List.mem_cons.1 hb with rfl | hb'
    · rfl
    · exact absurd (hab ▸ List.mem_map_of_mem hb') hn.1
    · exact absurd (hab ▸ List.mem_map_of_mem ha') hn.1
    · exact eq_of_nodup_map f xs hn.2 a ha' b hb' hab

/-- same entry, equal argument tokens ⇒ equal effects (no use of the mnemonic) -/
theorem args_faithful (xlen : Nat) (hx : Cfg xlen) (m a : Bool)
    (e : Entry) (h : e ∈ instructionSet xlen m a) (addr w1 w2 : Nat)
    (ha : args e ⟨addr, w1⟩ = args e ⟨addr, w2⟩) :
    e.validEffects ⟨addr, w1⟩ = e.validEffects ⟨addr, w2⟩ := by
  obtain ⟨_, hwf, hdep⟩ := good_of_mem xlen hx m a e h
  unfold Entry.validEffects
  rw [hdep addr w1 w2 (args_shown e hwf addr addr w1 w2 ha)]

/-- equal texts within one configuration come from the same entry -/
theorem entry_of_text (xlen : Nat) (hx : Cfg xlen) (m a : Bool)
    (e1 e2 : Entry) (h1 : e1 ∈ instructionSet xlen m a) (h2 : e2 ∈ instructionSet xlen m a)
    (i1 i2 : Ins) (ht : e1.text i1 = e2.text i2) : e1 = e2 :=
  eq_of_nodup_map (·.name) _ (RiscvDecode.names_nodup xlen hx m a) e1 h1 e2 h2
    (name_of_text e1 e2 i1 i2 (good_of_mem xlen hx m a e1 h1).1 (good_of_mem xlen hx m a e2 h2).1 ht)

/- the bounds on the words and the pattern matches are not needed: the effects of an entry depend on
the shown fields for every word -/
set_option linter.unusedVariables false in
theorem text_faithful (xlen : Nat) (hx : Cfg xlen) (m a : Bool)
    (e1 e2 : Entry) (h1 : e1 ∈ instructionSet xlen m a) (h2 : e2 ∈ instructionSet xlen m a)
    (addr w1 w2 : Nat) (hw1 : w1 < 2 ^ 32) (hw2 : w2 < 2 ^ 32)
    (hm1 : e1.matchesWord w1 = true) (hm2 : e2.matchesWord w2 = true)
    (ht : e1.text ⟨addr, w1⟩ = e2.text ⟨addr, w2⟩) :
    e1.validEffects ⟨addr, w1⟩ = e2.validEffects ⟨addr, w2⟩ := by
  have he := entry_of_text xlen hx m a e1 e2 h1 h2 _ _ ht
  subst he
  exact args_faithful xlen hx m a e1 h1 addr w1 w2 (args_of_text e1 _ _ ht)

end Mltwist.Lemmas.RiscvText
