import Mltwist.Model.RiscvTables
import Mltwist.Lemmas.RiscvDecode
/-
Helper lemmas for C25.  (Proofs to be supplied.)
-/
namespace Mltwist.Lemmas.RiscvText
open Mltwist Mltwist.Riscv
open Mltwist.Lemmas.RiscvDecode (Cfg)

theorem text_prefix (e : Entry) (i : Ins) : ∃ rest, e.text i = e.name ++ " " ++ rest := by
  sorry

theorem text_faithful (xlen : Nat) (hx : Cfg xlen) (m a : Bool)
    (e1 e2 : Entry) (h1 : e1 ∈ instructionSet xlen m a) (h2 : e2 ∈ instructionSet xlen m a)
    (addr w1 w2 : Nat) (hw1 : w1 < 2 ^ 32) (hw2 : w2 < 2 ^ 32)
    (hm1 : e1.matchesWord w1 = true) (hm2 : e2.matchesWord w2 = true)
    (ht : e1.text ⟨addr, w1⟩ = e2.text ⟨addr, w2⟩) :
    e1.validEffects ⟨addr, w1⟩ = e2.validEffects ⟨addr, w2⟩ := by
  sorry

end Mltwist.Lemmas.RiscvText
