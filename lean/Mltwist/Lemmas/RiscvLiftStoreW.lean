import Mltwist.Lemmas.RiscvLiftWF
/-
C03 support (REPAIR F45): every `MemStore` the RV64IMA tables lift has a width between 1 and 255, for every
instruction word — the companion of `RiscvLiftWF.lean` (`Expr.wf` covers the widths inside the expressions, not
the width of the store itself).  The unconditional never-panics theorems need it: `checkAccess` tests
`addr + w` in `uint64`, and the memories accept stores of 1 to 255 bytes.
-/
namespace Mltwist.Lemmas.RiscvLift
open Mltwist Mltwist.Riscv
set_option linter.unusedSimpArgs false

/-- the optional effect, if it is a store to memory, stores between 1 and 255 bytes -/
def OSW (o : Option Effect) : Prop := ∀ v k a n, o = some (Effect.memStore v k a n) → WOK n

@[simp] theorem osw_none : OSW none := fun _ _ _ _ h => nomatch h

@[simp] theorem osw_regStore (e : Expr) (i : Ins) (W : Nat) : OSW (Riscv.regStore e i W) := by
  intro v k a n h
  unfold Riscv.regStore at h
  simp only at h
  split at h <;> cases h

theorem osw_memStore (v a : Expr) {n : Nat} (hn : WOK n) : OSW (some (Riscv.memStore v a n)) := by
  intro v' k' a' n' h
  cases h
  exact hn

@[simp] theorem osw_effRegStore (v : Expr) (k : String) (W : Nat) : OSW (some (Effect.regStore v k W)) :=
  fun _ _ _ _ h => nomatch h

@[simp] theorem osw_branchCmp (f : CondF) (b : Bool) (i : Ins) (W : Nat) : OSW (some (branchCmp f b i W)) := by
  intro v k a n h
  unfold branchCmp at h
  simp only at h
  split at h <;> cases h

/-- every optional effect of the list that is a store stores between 1 and 255 bytes -/
def AllOSW (l : List (Option Effect)) : Prop := ∀ o ∈ l, OSW o

theorem allOSW_atomicOp (f : BinF) (i : Ins) {w : Nat} (h : WOK w) : AllOSW (atomicOp f i w) := by
  unfold atomicOp
  simp only
  intro o ho
  simp only [List.mem_cons, List.not_mem_nil, or_false] at ho
  rcases ho with rfl | rfl
  · exact osw_regStore _ i w
  · exact osw_memStore _ _ h

theorem allOSW_atomicOpWidth (f : BinF) (i : Ins) (aw : Nat) {ow : Nat} (ho : WOK ow) :
    AllOSW (atomicOpWidth f i aw ow) := by
  unfold atomicOpWidth
  simp only
  intro o hmem
  simp only [List.mem_cons, List.not_mem_nil, or_false] at hmem
  rcases hmem with rfl | rfl
  · exact osw_regStore _ i aw
  · exact osw_memStore _ _ ho

attribute [simp] osw_memStore allOSW_atomicOp allOSW_atomicOpWidth

/-- every store of the entry, for every instruction word, stores between 1 and 255 bytes -/
def EntrySW (e : Entry) : Prop := ∀ i, AllOSW (e.effects i)

@[simp] theorem allOSW_cons (o : Option Effect) (l : List (Option Effect)) :
    AllOSW (o :: l) ↔ OSW o ∧ AllOSW l := by
  unfold AllOSW
  simp
@[simp] theorem allOSW_nil_iff : AllOSW [] ↔ True := by simp [AllOSW]

theorem sw_integer64 : ∀ e ∈ Gen.integer64, EntrySW e := by
  unfold Gen.integer64
  simp only [List.forall_mem_cons, List.not_mem_nil, false_imp_iff, implies_true, and_true]
  simp (config := { maxDischargeDepth := 12 }) [EntrySW]

theorem sw_mul64 : ∀ e ∈ Gen.mul64, EntrySW e := by
  unfold Gen.mul64
  simp only [List.forall_mem_cons, List.not_mem_nil, false_imp_iff, implies_true, and_true]
  simp (config := { maxDischargeDepth := 12 }) [EntrySW]

theorem sw_atomic64 : ∀ e ∈ Gen.atomic64, EntrySW e := by
  unfold Gen.atomic64
  simp only [List.forall_mem_cons, List.not_mem_nil, false_imp_iff, implies_true, and_true]
  simp (config := { maxDischargeDepth := 12 }) [EntrySW]

end Mltwist.Lemmas.RiscvLift
