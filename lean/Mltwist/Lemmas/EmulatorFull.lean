import Mltwist.Lemmas.EmulatorFetch
/-
Emulator (C03), part 20: the full statement over the model.  The reference machine runs on its OWN memory
(fetch at `pc`, `Spec.Rv.decode`, `Spec.Rv.exec`); as long as it leaves the code blocks intact, stays on
instructions of the code and keeps its accesses below the top of the address space, the emulator makes the
same number of successful steps and stays related; its next step reports the reference report, or is the
error exactly when the reference's `pc` is not at an instruction of the code.
-/
namespace Mltwist.Lemmas.Emulator
open Mltwist Mltwist.State Mltwist.Overlay Mltwist.Emulator Mltwist.Riscv
open Mltwist.Spec.Rv Mltwist.Spec.Lift

/-- the reference machine on its own: fetch four bytes at `pc`, decode, execute -/
def refStep (σ : St) : Option St :=
  match decode 64 true true (σ.load σ.pc 4) with
  | some name => exec 64 name (σ.load σ.pc 4) σ
  | none => none

def refRun : Nat → St → Option St
  | 0, σ => some σ
  | n + 1, σ => match refStep σ with
    | some σ' => refRun n σ'
    | none => none

/-- the memory access of the next instruction of the reference stays below the top of the address space -/
def InScope (σ : St) : Prop :=
  ∀ name, decode 64 true true (σ.load σ.pc 4) = some name →
    ∀ a n, accessRange 64 name (σ.load σ.pc 4) σ = some (a, n) → a + n < 2 ^ 64

theorem accessRange_width (name : String) (w : Nat) (s : St) (a n : Nat)
    (h : accessRange 64 name w s = some (a, n)) : 1 ≤ n ∧ n ≤ 8 := by
  unfold accessRange at h
  dsimp only at h
  split at h <;> first | (cases h; omega) | (cases h)

theorem refScope_of_inScope {σ : St} {name : String} (h : InScope σ)
    (hd : decode 64 true true (σ.load σ.pc 4) = some name) : RefScope name (σ.load σ.pc 4) σ := by
  intro a n hacc
  have h1 := accessRange_width name _ σ a n hacc
  have h2 := h name hd a n hacc
  exact ⟨h1.1, by omega, h2⟩

/-- one step of the reference on its own memory, at an instruction of the intact code, in scope -/
theorem full_step (p : Provider) {blocks : List (Nat × List UInt8)} {code : CodeView} (hok : BlocksOK blocks)
    (hc : liftCode blocks = some code) {σ σ' : St} {s : State} (hR : R p code σ s) (hint : Intact blocks σ)
    (hsc : InScope σ) (hin : code.lookup σ.pc ≠ none) (href : refStep σ = some σ') :
    ∃ s' rep log, step p code s = .ok s' rep log ∧ R p code σ' s' := by
  cases hl : code.lookup σ.pc with
  | none => exact absurd hl hin
  | some ins =>
    obtain ⟨e, hlift, hdec⟩ := fetch_lifted hok hc hint hl
    have hrs := refScope_of_inScope hsc hdec
    obtain ⟨σ2, hexec, s', rep, log, hstep, hR'⟩ := refine_step'' p code hR hl hlift hrs
    unfold refStep at href
    rw [hdec] at href
    simp only at href
    rw [hexec] at href
    cases href
    exact ⟨s', rep, log, hstep, hR'⟩

theorem full_run (p : Provider) {blocks : List (Nat × List UInt8)} {code : CodeView} (hok : BlocksOK blocks)
    (hc : liftCode blocks = some code) : ∀ (n : Nat) (σ0 σn : St) (s0 : State), R p code σ0 s0 →
    (∀ k σk, k ≤ n → refRun k σ0 = some σk → Intact blocks σk ∧ InScope σk) →
    (∀ k σk, k < n → refRun k σ0 = some σk → code.lookup σk.pc ≠ none) →
    refRun n σ0 = some σn → ∃ sn, stateAfter p code n s0 = some sn ∧ R p code σn sn
  | 0, σ0, σn, s0, hR, _, _, hrun => by
    simp only [refRun] at hrun
    cases hrun
    exact ⟨s0, rfl, hR⟩
  | n + 1, σ0, σn, s0, hR, h1, h2, hrun => by
    cases href : refStep σ0 with
    | none => simp only [refRun, href] at hrun; cases hrun
    | some σ' =>
      simp only [refRun, href] at hrun
      obtain ⟨hint, hsc⟩ := h1 0 σ0 (by omega) rfl
      have hin := h2 0 σ0 (by omega) rfl
      obtain ⟨s', rep, log, hstep, hR'⟩ := full_step p hok hc hR hint hsc hin href
      have shift : ∀ k σk, refRun k σ' = some σk → refRun (k + 1) σ0 = some σk := by
        intro k σk hk
        simp only [refRun, href]
        exact hk
      obtain ⟨sn, g1, g2⟩ := full_run p hok hc n σ' σn s' hR'
        (fun k σk hk hr => h1 (k + 1) σk (by omega) (shift k σk hr))
        (fun k σk hk hr => h2 (k + 1) σk (by omega) (shift k σk hr)) hrun
      refine ⟨sn, ?_, g2⟩
      show (match step p code s0 with | .ok s' _ _ => stateAfter p code n s' | _ => none) = _
      rw [hstep]
      exact g1

/-- C03 in full, over the model. -/
def Statement : Prop :=
  ∀ (p : Provider) (blocks : List (Nat × List UInt8)) (code : CodeView) (σ0 : St) (s0 : State),
    BlocksOK blocks → liftCode blocks = some code → R p code σ0 s0 →
    ∀ n σn,
      (∀ k σk, k ≤ n → refRun k σ0 = some σk → Intact blocks σk ∧ InScope σk) →
      (∀ k σk, k < n → refRun k σ0 = some σk → code.lookup σk.pc ≠ none) →
      refRun n σ0 = some σn →
      ∃ sn, stateAfter p code n s0 = some sn ∧ R p code σn sn ∧
        (code.lookup σn.pc = none → step p code sn = .err) ∧
        (∀ ins, code.lookup σn.pc = some ins →
          ∃ s' log ρ, Rel ρ σn ∧ step p code sn = .ok s' (specReport ρ ins.effects) log)

theorem statement_holds : Statement := by
  intro p blocks code σ0 s0 hok hc hR n σn h1 h2 hrun
  obtain ⟨sn, g1, g2⟩ := full_run p hok hc n σ0 σn s0 hR h1 h2 hrun
  refine ⟨sn, g1, g2, fun hl => refine_err p code g2 hl, fun ins hl => ?_⟩
  obtain ⟨hint, hsc⟩ := h1 n σn (Nat.le_refl n) hrun
  obtain ⟨e, hlift, hdec⟩ := fetch_lifted hok hc hint hl
  exact refine_report p code g2 hl hlift (refScope_of_inScope hsc hdec)

end Mltwist.Lemmas.Emulator
