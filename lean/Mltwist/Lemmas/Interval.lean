import Mltwist.Spec.IntervalSet
/-
Helper lemmas for C17.  (Proofs to be supplied.)
-/
namespace Mltwist.Lemmas.Interval
open Mltwist.Interval

theorem newMap_normal (l : List Intv) (h : ∀ i ∈ l, i.1 < i.2) : Normal (newMap l) := by
  sorry

theorem newMap_mem (l : List Intv) (h : ∀ i ∈ l, i.1 < i.2) (x : Int) :
    Mem x (newMap l) ↔ Mem x l := by
  sorry

theorem union_normal (a b : List Intv) (ha : Normal a) (hb : Normal b) : Normal (mapUnion a b) := by
  sorry

theorem union_mem (a b : List Intv) (ha : Normal a) (hb : Normal b) (x : Int) :
    Mem x (mapUnion a b) ↔ Mem x a ∨ Mem x b := by
  sorry

theorem complement_normal (a b : List Intv) (ha : Normal a) (hb : Normal b) :
    Normal (mapComplement a b) := by
  sorry

theorem complement_mem (a b : List Intv) (ha : Normal a) (hb : Normal b) (x : Int) :
    Mem x (mapComplement a b) ↔ Mem x a ∧ ¬ Mem x b := by
  sorry

theorem intersect_normal (a b : List Intv) (ha : Normal a) (hb : Normal b) :
    Normal (mapIntersect a b) := by
  sorry

theorem intersect_mem (a b : List Intv) (ha : Normal a) (hb : Normal b) (x : Int) :
    Mem x (mapIntersect a b) ↔ Mem x a ∧ Mem x b := by
  sorry

end Mltwist.Lemmas.Interval
