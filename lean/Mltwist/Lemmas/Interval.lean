import Mltwist.Spec.IntervalSet
import Mltwist.Lemmas.IntervalBasic
import Mltwist.Lemmas.IntervalInter
import Mltwist.Lemmas.IntervalCompl
/-
Helper lemmas for C17.  The supporting development is in `IntervalBasic` (Mem/Normal,
`addInterval`, sort, union), `IntervalInter` (intersect) and `IntervalCompl` (complement).
-/
namespace Mltwist.Lemmas.Interval
open Mltwist.Interval

theorem newMap_normal (l : List Intv) (h : ∀ i ∈ l, i.1 < i.2) : Normal (newMap l) := by
  unfold newMap
  rw [normal_reverse]
  exact (foldl_addInterval_spec (sortByBegin l) [] rnormal_nil (fun _ _ => headLe_nil _)
    (fun i hi => h i ((mem_sortByBegin l i).1 hi)) (sortByBegin_sorted l)).1

theorem newMap_mem (l : List Intv) (h : ∀ i ∈ l, i.1 < i.2) (x : Int) :
    Mem x (newMap l) ↔ Mem x l := by
  unfold newMap
  rw [mem_reverse]
  rw [(foldl_addInterval_spec (sortByBegin l) [] rnormal_nil (fun _ _ => headLe_nil _)
    (fun i hi => h i ((mem_sortByBegin l i).1 hi)) (sortByBegin_sorted l)).2 x]
  rw [mem_congr x (mem_sortByBegin l)]
  simp [mem_nil]

theorem union_normal (a b : List Intv) (ha : Normal a) (hb : Normal b) : Normal (mapUnion a b) := by
  unfold mapUnion
  rw [normal_reverse]
  exact (unionMerge_spec a b [] ha hb rnormal_nil (fun _ _ => headLe_nil _)
    (fun _ _ => headLe_nil _)).1

theorem union_mem (a b : List Intv) (ha : Normal a) (hb : Normal b) (x : Int) :
    Mem x (mapUnion a b) ↔ Mem x a ∨ Mem x b := by
  unfold mapUnion
  rw [mem_reverse, (unionMerge_spec a b [] ha hb rnormal_nil (fun _ _ => headLe_nil _)
    (fun _ _ => headLe_nil _)).2 x]
  simp [mem_nil]

theorem complement_normal (a b : List Intv) (ha : Normal a) (hb : Normal b) :
    Normal (mapComplement a b) := by
  unfold mapComplement
  exact (mapComplementLoop_spec b hb a 0 [] ha (by simp [Normal]) (by simp) (by simp)).1

theorem complement_mem (a b : List Intv) (ha : Normal a) (hb : Normal b) (x : Int) :
    Mem x (mapComplement a b) ↔ Mem x a ∧ ¬ Mem x b := by
  unfold mapComplement
  rw [(mapComplementLoop_spec b hb a 0 [] ha (by simp [Normal]) (by simp) (by simp)).2 x]
  simp [mem_nil]

theorem intersect_normal (a b : List Intv) (ha : Normal a) (hb : Normal b) :
    Normal (mapIntersect a b) := by
  unfold mapIntersect
  exact (mapIntersectLoop_spec b hb a 0 [] ha (by simp [Normal]) (by simp) (by simp)).1

theorem intersect_mem (a b : List Intv) (ha : Normal a) (hb : Normal b) (x : Int) :
    Mem x (mapIntersect a b) ↔ Mem x a ∧ Mem x b := by
  unfold mapIntersect
  rw [(mapIntersectLoop_spec b hb a 0 [] ha (by simp [Normal]) (by simp) (by simp)).2 x]
  simp [mem_nil]

end Mltwist.Lemmas.Interval
