import Mltwist.Lemmas.DepsCode
import Mltwist.Lemmas.DepsFinders
/-
C06 in every reachable state: a block and its original (`Orig`), conflicts only depend on the
static part of instructions, and two adjacent independent instructions can always be swapped.
-/
namespace Mltwist.Lemmas.Deps
open Mltwist Mltwist.Deps Mltwist.Deps.Spec

/-- `b` is the block `b0` (in its original order, as analysed by the finders) after some history -/
structure Orig (b0 b : Block) : Prop where
  ids : IdsArePositions b0.seq
  edges : findAllDeps b0.seq = some b.edges
  len : b.seq.length = b0.seq.length
  static : ∀ x ∈ b.seq, ∃ h : x.id < b0.seq.length, x.static = b0.seq[x.id].static

theorem orig_of_same {b0 b : Block} (hids : IdsArePositions b0.seq)
    (hedges : findAllDeps b0.seq = some b0.edges) (hs : SameBlock b0 b) : Orig b0 b := by
  refine ⟨hids, by rw [hs.edges]; exact hedges, by simpa using hs.static.length_eq, ?_⟩
  intro x hx
  have hm : x.static ∈ b0.seq.map Ins.static := (hs.static.mem_iff).1 (List.mem_map_of_mem hx)
  obtain ⟨y, hy, hyx⟩ := List.mem_map.1 hm
  obtain ⟨k, hk, rfl⟩ := List.mem_iff_getElem.1 hy
  have hid : b0.seq[k].id = x.id := by
    have := congrArg Prod.fst hyx
    simpa [Ins.static] using this
  have hk' : x.id = k := by rw [← hid]; exact hids k hk
  subst hk'
  exact ⟨hk, hyx.symm⟩

/-- the specification's instruction only depends on the static part, apart from the address -/
theorem toS_static {x y : Ins} (n : Nat) (h : x.static = y.static) :
    x.toS n = { y.toS n with addr := x.currAddr } := by
  simp only [Ins.static, Prod.mk.injEq] at h
  obtain ⟨h1, h2, _, h4, h5, h6⟩ := h
  simp [Ins.toS, h1, h2, h4, h5, h6]

theorem conflict_addr (x y : SIns) (a b : Nat) :
    Conflict { x with addr := a } { y with addr := b } ↔ Conflict x y := Iff.rfl

theorem conflict_static {x y x' y' : Ins} (n : Nat) (hx : x.static = x'.static) (hy : y.static = y'.static) :
    Conflict (x.toS n) (y.toS n) ↔ Conflict (x'.toS n) (y'.toS n) := by
  rw [toS_static n hx, toS_static n hy]
  exact conflict_addr _ _ _ _

/-- an edge between two instructions of the current order means that they conflict -/
theorem Orig.edge_conflict {b0 b : Block} (ho : Orig b0 b) (hb : BInv b) (i j : Nat)
    (hi : i < b.seq.length) (hj : j < b.seq.length) (he : (b.seq[i].id, b.seq[j].id) ∈ b.edges) :
    Conflict (b.seq[i].toS b.seq.length) (b.seq[j].toS b.seq.length) := by
  obtain ⟨h1, hs1⟩ := ho.static _ (List.getElem_mem hi)
  obtain ⟨h2, hs2⟩ := ho.static _ (List.getElem_mem hj)
  rw [conflict_static _ hs1 hs2, ho.len]
  exact Lemmas.Deps.edge_conflict b0.seq ho.ids b.edges ho.edges _ he h1 h2

/-- C06: two adjacent independent instructions can be swapped -/
theorem Orig.swap_accepted {b0 b : Block} (ho : Orig b0 b) (hb : BInv b) (i : Nat)
    (hi : i + 1 < b.seq.length)
    (hind : Independent (b.seq[i].toS b.seq.length) (b.seq[i + 1].toS b.seq.length)) :
    ∃ b', b.move (i : Int) ((i : Int) + 1) = .ok b' := by
  have hi' : i < b.seq.length := by omega
  obtain ⟨lo, hlo, hlo1, _, _⟩ := hb.lowerBound_spec i hi'
  obtain ⟨up, hup, hup1, hup2, _, htight⟩ := hb.upperBound_spec i hi'
  have hup3 : i + 1 ≤ up := by
    rcases htight with h | ⟨e, he, h1, h2⟩
    · omega
    · apply Classical.byContradiction
      intro hlt
      have hu : up = i := by omega
      subst hu
      have he2 : e.2 = b.seq[up + 1].id := by
        have hm := (hb.fwd e he).2.1
        have hl := List.idxOf_lt_length_of_mem hm
        have := List.getElem_idxOf hl
        rw [← this]
        simp only [h2]
        exact idsOf_getElem b.seq (up + 1) hi
      have : (b.seq[up].id, b.seq[up + 1].id) ∈ b.edges := by
        rw [← h1, ← he2]; exact he
      exact hind (ho.edge_conflict hb up (up + 1) hi' hi this)
  have hc : b.checkMove (i : Int) ((i : Int) + 1) = .ok () := by
    rw [hb.checkMove_iff]
    refine ⟨by omega, by omega, by omega, by omega, lo, up, hlo, hup, by omega, by omega⟩
  obtain ⟨b', hb', _⟩ := hb.move_ok _ _ hc
  exact ⟨b', hb'⟩

end Mltwist.Lemmas.Deps
