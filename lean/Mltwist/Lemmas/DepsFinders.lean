import Mltwist.Lemmas.DepsFootprint
/-
The five dependency finders of `internal/deps` (`Model/Deps.lean`: `findTrueDeps`, `findAntiDeps`,
`findOutputDeps`, `findControlDeps`, `findSpecialDeps`, combined in `findAllDeps`) against the
conflict relation of the specification (`Spec/Deps.lean`: `Conflict`).

* `edges_forward`: every edge goes from an earlier to a later instruction of the block;
* `edge_conflict`: no spurious edge — the two ends of every edge conflict (C06);
(edge soundness, `conflict_path`, is in `Lemmas/DepsPaths.lean`.)

Route: one predicate `Good seq e` (forward, in range, the ends conflict); every finder maps a set
of good edges to a set of good edges (`AllGood`).  The scans are handled by two generic fold
lemmas with a position index (`foldl_inv`, `foldr_inv`); the auxiliary maps only carry what is
needed (`MapOK`, `Ent`).
-/
namespace Mltwist.Lemmas.Deps
open Mltwist Mltwist.Deps Mltwist.Deps.Spec

/-! ### generic fold invariants with a position index -/

theorem foldl_inv_idx {α σ : Type} (seq : List α) (f : σ → α → σ) (Inv : Nat → σ → Prop)
    (hstep : ∀ k x s, seq[k]? = some x → Inv k s → Inv (k + 1) (f s x)) :
    ∀ (rest pre : List α) (s : σ), seq = pre ++ rest → Inv pre.length s →
      Inv seq.length (rest.foldl f s) := by
  intro rest
  induction rest with
  | nil =>
    intro pre s h hs
    simp at h
    subst h
    simpa using hs
  | cons x rest ih =>
    intro pre s h hs
    have hx : seq[pre.length]? = some x := by subst h; simp
    have := ih (pre ++ [x]) (f s x) (by simp [h]) (by simpa using hstep _ _ _ hx hs)
    simpa using this

/-- forward scan: `Inv k` holds after the first `k` elements -/
theorem foldl_inv {α σ : Type} (seq : List α) (f : σ → α → σ) (Inv : Nat → σ → Prop) (s0 : σ)
    (h0 : Inv 0 s0)
    (hstep : ∀ k x s, seq[k]? = some x → Inv k s → Inv (k + 1) (f s x)) :
    Inv seq.length (seq.foldl f s0) :=
  foldl_inv_idx seq f Inv hstep seq [] s0 rfl h0

theorem foldr_inv_idx {α σ : Type} (seq : List α) (f : α → σ → σ) (Inv : Nat → σ → Prop) (s0 : σ)
    (h0 : Inv seq.length s0)
    (hstep : ∀ k x s, seq[k]? = some x → Inv (k + 1) s → Inv k (f x s)) :
    ∀ (rest pre : List α), seq = pre ++ rest → Inv pre.length (rest.foldr f s0) := by
  intro rest
  induction rest with
  | nil =>
    intro pre h
    simp at h
    subst h
    simpa using h0
  | cons x rest ih =>
    intro pre h
    have hx : seq[pre.length]? = some x := by subst h; simp
    have := ih (pre ++ [x]) (by simp [h])
    simp only [List.foldr_cons]
    exact hstep _ _ _ hx (by simpa using this)

/-- backward scan: `Inv k` holds after the elements from position `k` on -/
theorem foldr_inv {α σ : Type} (seq : List α) (f : α → σ → σ) (Inv : Nat → σ → Prop) (s0 : σ)
    (h0 : Inv seq.length s0)
    (hstep : ∀ k x s, seq[k]? = some x → Inv (k + 1) s → Inv k (f x s)) :
    Inv 0 (seq.foldr f s0) :=
  foldr_inv_idx seq f Inv s0 h0 hstep seq [] rfl

/-! ### good edges -/

/-- the edge points forward, both ends are instructions of `seq`, and they conflict -/
def Good (seq : List Ins) (e : Nat × Nat) : Prop :=
  e.1 < e.2 ∧ ∃ x y, seq[e.1]? = some x ∧ seq[e.2]? = some y ∧
    Conflict (x.toS seq.length) (y.toS seq.length)

def AllGood (seq : List Ins) (E : Edges) : Prop := ∀ e ∈ E, Good seq e

theorem allGood_nil (seq : List Ins) : AllGood seq [] := by
  intro e he; cases he

theorem allGood_cons {seq : List Ins} {e : Nat × Nat} {E : Edges} (he : Good seq e)
    (hE : AllGood seq E) : AllGood seq (e :: E) := by
  intro e' he'
  rcases List.mem_cons.1 he' with rfl | h
  · exact he
  · exact hE _ h

theorem allGood_addDep {seq : List Ins} {a b : Nat} {E : Edges} (he : Good seq (a, b))
    (hE : AllGood seq E) : AllGood seq (addDep a b E) := allGood_cons he hE

theorem allGood_foldl {α : Type} {seq : List Ins} (f : α → Nat × Nat) (l : List α) (E : Edges)
    (hl : ∀ p ∈ l, Good seq (f p)) (hE : AllGood seq E) :
    AllGood seq (l.foldl (fun E p => f p :: E) E) := by
  induction l generalizing E with
  | nil => exact hE
  | cons p l ih =>
    simp only [List.foldl_cons]
    exact ih _ (fun q hq => hl q (List.mem_cons_of_mem _ hq))
      (allGood_cons (hl p List.mem_cons_self) hE)

theorem id_of_getElem? {seq : List Ins} (hid : IdsArePositions seq) {k : Nat} {x : Ins}
    (h : seq[k]? = some x) : x.id = k := by
  obtain ⟨hk, rfl⟩ := List.getElem?_eq_some_iff.1 h
  exact hid k hk

/-! ### the disjuncts of `Conflict` on model instructions -/

section conflict
variable (n : Nat) (x y : Ins)

theorem conflict_regOut_regIn {r : String} (hx : r ∈ x.outRegs) (hy : r ∈ y.inRegs) :
    Conflict (x.toS n) (y.toS n) := by
  unfold Conflict
  left
  exact ⟨r, (mem_outRegs_toS n x r).1 hx, (mem_inRegs_toS n y r).1 hy⟩

theorem conflict_regOut_regOut {r : String} (hx : r ∈ x.outRegs) (hy : r ∈ y.outRegs) :
    Conflict (x.toS n) (y.toS n) := by
  unfold Conflict
  right; left
  exact ⟨r, (mem_outRegs_toS n x r).1 hx, (mem_outRegs_toS n y r).1 hy⟩

theorem conflict_regIn_regOut {r : String} (hx : r ∈ x.inRegs) (hy : r ∈ y.outRegs) :
    Conflict (x.toS n) (y.toS n) := by
  unfold Conflict
  right; right; left
  exact ⟨r, (mem_inRegs_toS n x r).1 hx, (mem_outRegs_toS n y r).1 hy⟩

theorem conflict_memOut_memIn {r : String} (hx : r ∈ x.stores) (hy : r ∈ y.loads) :
    Conflict (x.toS n) (y.toS n) := by
  unfold Conflict
  right; right; right; left
  exact ⟨r, (mem_stores_toS n x r).1 hx, (mem_loads_toS n y r).1 hy⟩

theorem conflict_memOut_memOut {r : String} (hx : r ∈ x.stores) (hy : r ∈ y.stores) :
    Conflict (x.toS n) (y.toS n) := by
  unfold Conflict
  right; right; right; right; left
  exact ⟨r, (mem_stores_toS n x r).1 hx, (mem_stores_toS n y r).1 hy⟩

theorem conflict_memIn_memOut {r : String} (hx : r ∈ x.loads) (hy : r ∈ y.stores) :
    Conflict (x.toS n) (y.toS n) := by
  unfold Conflict
  right; right; right; right; right; left
  exact ⟨r, (mem_loads_toS n x r).1 hx, (mem_stores_toS n y r).1 hy⟩

theorem conflict_special_left (hx : insSpecial x = true) : Conflict (x.toS n) (y.toS n) := by
  unfold Conflict
  right; right; right; right; right; right; left
  rw [← insSpecial_toS]; exact hx

theorem conflict_special_right (hy : insSpecial y = true) : Conflict (x.toS n) (y.toS n) := by
  unfold Conflict
  right; right; right; right; right; right; right; left
  rw [← insSpecial_toS]; exact hy

theorem conflict_memOrder_memAccess (hx : insMemOrder x = true) (hy : isMemAccess y = true) :
    Conflict (x.toS n) (y.toS n) := by
  unfold Conflict
  right; right; right; right; right; right; right; right; left
  rw [← insMemOrder_toS, ← isMemAccess_toS]
  exact ⟨hx, Or.inl hy⟩

theorem conflict_memOrder_memOrder (hx : insMemOrder x = true) (hy : insMemOrder y = true) :
    Conflict (x.toS n) (y.toS n) := by
  unfold Conflict
  right; right; right; right; right; right; right; right; left
  rw [← insMemOrder_toS, ← insMemOrder_toS]
  exact ⟨hx, Or.inr hy⟩

theorem conflict_memAccess_memOrder (hx : isMemAccess x = true) (hy : insMemOrder y = true) :
    Conflict (x.toS n) (y.toS n) := by
  unfold Conflict
  right; right; right; right; right; right; right; right; right; left
  rw [← insMemOrder_toS, ← isMemAccess_toS]
  exact ⟨hy, hx⟩

theorem conflict_term (hy : (y.toS n).term = true) : Conflict (x.toS n) (y.toS n) := by
  unfold Conflict
  right; right; right; right; right; right; right; right; right; right; left
  exact hy

theorem conflict_writesIp_left (hx : Deps.ipKey ∈ x.outRegs) : Conflict (x.toS n) (y.toS n) := by
  unfold Conflict
  right; right; right; right; right; right; right; right; right; right; right; left
  exact (ipKey_mem_outRegs_iff n x).1 hx

theorem conflict_writesIp_right (hy : Deps.ipKey ∈ y.outRegs) : Conflict (x.toS n) (y.toS n) := by
  unfold Conflict
  right; right; right; right; right; right; right; right; right; right; right; right
  exact (ipKey_mem_outRegs_iff n y).1 hy

end conflict

/-! ### key maps -/

/-- every binding that a lookup can return satisfies `Q` -/
def MapOK (Q : String → Nat → Prop) (m : KeyMap) : Prop := ∀ r d, m.lookup r = some d → Q r d

theorem lookup_cons_eq (r' r : String) (i : Nat) (m : KeyMap) :
    List.lookup r' ((r, i) :: m) = if r' = r then some i else List.lookup r' m := by
  rw [List.lookup_cons]
  by_cases h : r' = r
  · subst h; simp
  · have h' : (r' == r) = false := by simpa using h
    simp [h', h]

theorem mapOK_nil (Q : String → Nat → Prop) : MapOK Q [] := by
  intro r d h; simp at h

theorem mapOK_mono {Q Q' : String → Nat → Prop} {m : KeyMap} (h : ∀ r d, Q r d → Q' r d)
    (hm : MapOK Q m) : MapOK Q' m := fun r d hl => h r d (hm r d hl)

theorem mapOK_cons {Q : String → Nat → Prop} {r : String} {i : Nat} {m : KeyMap} (h : Q r i)
    (hm : MapOK Q m) : MapOK Q ((r, i) :: m) := by
  intro r' d hl
  rw [lookup_cons_eq] at hl
  split at hl
  · rename_i heq
    cases hl
    subst heq
    exact h
  · exact hm r' d hl

theorem mapOK_setAll {Q : String → Nat → Prop} (keys : List String) (i : Nat) (m : KeyMap)
    (hk : ∀ r ∈ keys, Q r i) (hm : MapOK Q m) : MapOK Q (setAll keys i m) := by
  unfold setAll
  induction keys generalizing m with
  | nil => exact hm
  | cons r keys ih =>
    simp only [List.foldl_cons]
    exact ih _ (fun r' hr' => hk r' (List.mem_cons_of_mem _ hr'))
      (mapOK_cons (hk r List.mem_cons_self) hm)

theorem depsFromMap_good {seq : List Ins} {Q : String → Nat → Prop} (keys : List String)
    (m : KeyMap) (ins : Nat) (E : Edges) (hm : MapOK Q m)
    (hq : ∀ r ∈ keys, ∀ d, Q r d → Good seq (d, ins)) (hE : AllGood seq E) :
    AllGood seq (depsFromMap keys m ins E) := by
  unfold depsFromMap
  induction keys generalizing E with
  | nil => exact hE
  | cons r keys ih =>
    simp only [List.foldl_cons]
    apply ih _ (fun r' hr' => hq r' (List.mem_cons_of_mem _ hr'))
    cases hl : List.lookup r m with
    | none => exact hE
    | some d => exact allGood_addDep (hq r List.mem_cons_self d (hm r d hl)) hE

theorem depsToMap_good {seq : List Ins} {Q : String → Nat → Prop} (skipSelf : Bool)
    (keys : List String) (m : KeyMap) (ins : Nat) (E : Edges) (hm : MapOK Q m)
    (hq : ∀ r ∈ keys, ∀ d, Q r d → (skipSelf = true → d ≠ ins) → Good seq (ins, d))
    (hE : AllGood seq E) : AllGood seq (depsToMap skipSelf keys m ins E) := by
  unfold depsToMap
  induction keys generalizing E with
  | nil => exact hE
  | cons r keys ih =>
    simp only [List.foldl_cons]
    apply ih _ (fun r' hr' => hq r' (List.mem_cons_of_mem _ hr'))
    cases hl : List.lookup r m with
    | none => exact hE
    | some d =>
      show AllGood seq (if (skipSelf && d == ins) = true then E else addDep ins d E)
      split
      · exact hE
      · rename_i hs
        refine allGood_addDep (hq r List.mem_cons_self d (hm r d hl) ?_) hE
        intro h1 h2
        apply hs
        simp [h1, h2]

/-- an entry of a key map: the instruction at position `d` (restricted by `P`) has `r` in its
footprint `sel` -/
def Ent (seq : List Ins) (sel : Ins → List String) (P : Nat → Prop) (r : String) (d : Nat) : Prop :=
  P d ∧ ∃ x, seq[d]? = some x ∧ r ∈ sel x

theorem ent_mono {seq : List Ins} {sel : Ins → List String} {P P' : Nat → Prop}
    (h : ∀ d, P d → P' d) (r : String) (d : Nat) (he : Ent seq sel P r d) : Ent seq sel P' r d :=
  ⟨h d he.1, he.2⟩

/-! ### `findTrueDeps` -/

def TrueInv (seq : List Ins) (k : Nat) (st : KeyMap × KeyMap × Edges) : Prop :=
  MapOK (Ent seq Ins.outRegs (· < k)) st.1 ∧ MapOK (Ent seq Ins.stores (· < k)) st.2.1 ∧
    AllGood seq st.2.2

theorem trueStep_inv {seq : List Ins} (hid : IdsArePositions seq) (k : Nat) (x : Ins)
    (st : KeyMap × KeyMap × Edges) (hx : seq[k]? = some x) (h : TrueInv seq k st) :
    TrueInv seq (k + 1) (trueStep st x) := by
  obtain ⟨hr, hm, hE⟩ := h
  have hxid : x.id = k := id_of_getElem? hid hx
  unfold trueStep findTrueDepsReg findTrueDepsMemory
  simp only [hxid]
  refine ⟨?_, ?_, ?_⟩
  · apply mapOK_setAll
    · intro r hr'
      exact ⟨Nat.lt_succ_self k, x, hx, hr'⟩
    · exact mapOK_mono (ent_mono (fun d hd => Nat.lt_succ_of_lt hd)) hr
  · apply mapOK_setAll
    · intro r hr'
      exact ⟨Nat.lt_succ_self k, x, hx, hr'⟩
    · exact mapOK_mono (ent_mono (fun d hd => Nat.lt_succ_of_lt hd)) hm
  · apply depsFromMap_good _ _ _ _ hm
    · rintro r hr' d ⟨hd, y, hy, hry⟩
      exact ⟨hd, y, x, hy, hx, conflict_memOut_memIn _ y x hry hr'⟩
    · apply depsFromMap_good _ _ _ _ hr
      · rintro r hr' d ⟨hd, y, hy, hry⟩
        exact ⟨hd, y, x, hy, hx, conflict_regOut_regIn _ y x hry hr'⟩
      · exact hE

theorem findTrueDeps_good {seq : List Ins} (hid : IdsArePositions seq) (E : Edges)
    (hE : AllGood seq E) : AllGood seq (findTrueDeps seq E) := by
  unfold findTrueDeps
  exact (foldl_inv seq trueStep (TrueInv seq) ([], [], E)
    ⟨mapOK_nil _, mapOK_nil _, hE⟩ (trueStep_inv hid)).2.2

/-! ### `findAntiDeps` -/

def BackInv (seq : List Ins) (k : Nat) (st : KeyMap × KeyMap × Edges) : Prop :=
  MapOK (Ent seq Ins.outRegs (k ≤ ·)) st.1 ∧ MapOK (Ent seq Ins.stores (k ≤ ·)) st.2.1 ∧
    AllGood seq st.2.2

theorem antiStep_inv {seq : List Ins} (hid : IdsArePositions seq) (k : Nat) (x : Ins)
    (st : KeyMap × KeyMap × Edges) (hx : seq[k]? = some x) (h : BackInv seq (k + 1) st) :
    BackInv seq k (antiStep x st) := by
  obtain ⟨hr, hm, hE⟩ := h
  have hxid : x.id = k := id_of_getElem? hid hx
  have hr' : MapOK (Ent seq Ins.outRegs (k ≤ ·)) (setAll x.outRegs k st.1) := by
    apply mapOK_setAll
    · intro r hr'
      exact ⟨Nat.le_refl k, x, hx, hr'⟩
    · exact mapOK_mono (ent_mono (fun d hd => Nat.le_of_succ_le hd)) hr
  have hm' : MapOK (Ent seq Ins.stores (k ≤ ·)) (setAll x.stores k st.2.1) := by
    apply mapOK_setAll
    · intro r hr'
      exact ⟨Nat.le_refl k, x, hx, hr'⟩
    · exact mapOK_mono (ent_mono (fun d hd => Nat.le_of_succ_le hd)) hm
  unfold antiStep findAntiDepsReg findAntiDepsMemory
  simp only [hxid]
  refine ⟨hr', hm', ?_⟩
  apply depsToMap_good _ _ _ _ _ hm'
  · rintro r hrx d ⟨hd, y, hy, hry⟩ hne
    exact ⟨Nat.lt_of_le_of_ne hd (fun h => hne rfl h.symm), x, y, hx, hy,
      conflict_memIn_memOut _ x y hrx hry⟩
  · apply depsToMap_good _ _ _ _ _ hr'
    · rintro r hrx d ⟨hd, y, hy, hry⟩ hne
      exact ⟨Nat.lt_of_le_of_ne hd (fun h => hne rfl h.symm), x, y, hx, hy,
        conflict_regIn_regOut _ x y hrx hry⟩
    · exact hE

theorem backInv_init (seq : List Ins) (E : Edges) (hE : AllGood seq E) :
    BackInv seq seq.length ([], [], E) := ⟨mapOK_nil _, mapOK_nil _, hE⟩

theorem findAntiDeps_good {seq : List Ins} (hid : IdsArePositions seq) (E : Edges)
    (hE : AllGood seq E) : AllGood seq (findAntiDeps seq E) := by
  unfold findAntiDeps
  exact (foldr_inv seq antiStep (BackInv seq) ([], [], E) (backInv_init seq E hE)
    (antiStep_inv hid)).2.2

/-! ### `findOutputDeps` -/

/-- the inner loop of `findOutputDepsReg`: entries for keys that are still to be visited belong
to later instructions -/
theorem outputRegLoop_inv {seq : List Ins} (k : Nat) (x : Ins) (hx : seq[k]? = some x)
    (todo : List String) (hnd : todo.Nodup) (hsub : ∀ r ∈ todo, r ∈ x.outRegs) :
    ∀ (m : KeyMap) (E : Edges),
      (∀ r d, List.lookup r m = some d → Ent seq Ins.outRegs (k ≤ ·) r d ∧ (r ∈ todo → k + 1 ≤ d)) →
      AllGood seq E →
      MapOK (Ent seq Ins.outRegs (k ≤ ·)) (todo.foldl (fun (st : KeyMap × Edges) r =>
        match List.lookup r st.1 with
        | none => ((r, k) :: st.1, st.2)
        | some dep => ((r, k) :: st.1, addDep k dep st.2)) (m, E)).1 ∧
      AllGood seq (todo.foldl (fun (st : KeyMap × Edges) r =>
        match List.lookup r st.1 with
        | none => ((r, k) :: st.1, st.2)
        | some dep => ((r, k) :: st.1, addDep k dep st.2)) (m, E)).2 := by
  induction todo with
  | nil =>
    intro m E hm hE
    exact ⟨fun r d hl => (hm r d hl).1, hE⟩
  | cons r todo ih =>
    intro m E hm hE
    have hnd' := (List.nodup_cons.1 hnd)
    have hm' : ∀ r' d, List.lookup r' ((r, k) :: m) = some d →
        Ent seq Ins.outRegs (k ≤ ·) r' d ∧ (r' ∈ todo → k + 1 ≤ d) := by
      intro r' d hl
      rw [lookup_cons_eq] at hl
      split at hl
      · rename_i heq
        cases hl
        subst heq
        exact ⟨⟨Nat.le_refl k, x, hx, hsub r' List.mem_cons_self⟩, fun h => absurd h hnd'.1⟩
      · exact ⟨(hm r' d hl).1, fun h => (hm r' d hl).2 (List.mem_cons_of_mem _ h)⟩
    simp only [List.foldl_cons]
    cases hl : List.lookup r m with
    | none =>
      exact ih hnd'.2 (fun r' h => hsub r' (List.mem_cons_of_mem _ h)) _ _ hm' hE
    | some d =>
      refine ih hnd'.2 (fun r' h => hsub r' (List.mem_cons_of_mem _ h)) _ _ hm' ?_
      obtain ⟨⟨_, y, hy, hry⟩, hd⟩ := hm r d hl
      exact allGood_addDep ⟨hd List.mem_cons_self, x, y, hx, hy,
        conflict_regOut_regOut _ x y (hsub r List.mem_cons_self) hry⟩ hE

theorem outputStep_inv {seq : List Ins} (hid : IdsArePositions seq) (k : Nat) (x : Ins)
    (st : KeyMap × KeyMap × Edges) (hx : seq[k]? = some x) (h : BackInv seq (k + 1) st) :
    BackInv seq k (outputStep x st) := by
  obtain ⟨hr, hm, hE⟩ := h
  have hxid : x.id = k := id_of_getElem? hid hx
  have hloop := outputRegLoop_inv k x hx x.outRegs (nodup_outRegs x) (fun r h => h) st.1 st.2.2
    (fun r d hl => ⟨ent_mono (fun d hd => Nat.le_of_succ_le hd) r d (hr r d hl), fun _ => (hr r d hl).1⟩)
    hE
  unfold outputStep findOutputDepsReg findOutputDepsMemory
  simp only [hxid]
  refine ⟨hloop.1, ?_, ?_⟩
  · apply mapOK_setAll
    · intro r hr'
      exact ⟨Nat.le_refl k, x, hx, hr'⟩
    · exact mapOK_mono (ent_mono (fun d hd => Nat.le_of_succ_le hd)) hm
  · apply depsToMap_good _ _ _ _ _ hm
    · rintro r hrx d ⟨hd, y, hy, hry⟩ -
      exact ⟨hd, x, y, hx, hy, conflict_memOut_memOut _ x y hrx hry⟩
    · exact hloop.2

theorem findOutputDeps_good {seq : List Ins} (hid : IdsArePositions seq) (E : Edges)
    (hE : AllGood seq E) : AllGood seq (findOutputDeps seq E) := by
  unfold findOutputDeps
  exact (foldr_inv seq outputStep (BackInv seq) ([], [], E) (backInv_init seq E hE)
    (outputStep_inv hid)).2.2

/-! ### `findControlDeps` -/

theorem getElem?_of_mem_left {seq before after : List Ins} (h : seq = before ++ after) {p : Ins}
    (hp : p ∈ before) : ∃ j, j < before.length ∧ seq[j]? = some p := by
  obtain ⟨j, hj, rfl⟩ := List.getElem_of_mem hp
  refine ⟨j, hj, ?_⟩
  subst h
  rw [List.getElem?_append_left hj]
  exact List.getElem?_eq_getElem hj

theorem getElem?_of_mem_right {seq before after : List Ins} (h : seq = before ++ after) {p : Ins}
    (hp : p ∈ after) : ∃ j, before.length ≤ j ∧ seq[j]? = some p := by
  obtain ⟨j, hj, rfl⟩ := List.getElem_of_mem hp
  refine ⟨before.length + j, Nat.le_add_right _ _, ?_⟩
  subst h
  rw [List.getElem?_append_right (Nat.le_add_right _ _)]
  simp [hj]

theorem pinLoop_good {seq : List Ins} (hid : IdsArePositions seq) (after : List Ins) :
    ∀ (before : List Ins) (E : Edges), seq = before ++ after → AllGood seq E →
      AllGood seq (pinLoop before after E) := by
  induction after with
  | nil => intro before E _ hE; exact hE
  | cons ins after ih =>
    intro before E h hE
    have hx : seq[before.length]? = some ins := by subst h; simp
    have hxid : ins.id = before.length := id_of_getElem? hid hx
    unfold pinLoop
    apply ih (before ++ [ins]) _ (by simp [h])
    show AllGood seq (if ipKey ∈ ins.outRegs then _ else E)
    split
    · rename_i hip
      apply allGood_foldl (fun next : Ins => (ins.id, next.id))
      · intro q hq
        obtain ⟨j, hj, hq'⟩ := getElem?_of_mem_right (seq := seq) (before := before ++ [ins]) (after := after) (by simp [h]) hq
        have hqid : q.id = j := id_of_getElem? hid hq'
        simp at hj
        refine ⟨by simp only [hxid, hqid]; omega, ins, q, by rw [hxid]; exact hx,
          by rw [hqid]; exact hq', conflict_writesIp_left _ ins q hip⟩
      · apply allGood_foldl (fun prev : Ins => (prev.id, ins.id))
        · intro p hp
          obtain ⟨j, hj, hp'⟩ := getElem?_of_mem_left h hp
          have hpid : p.id = j := id_of_getElem? hid hp'
          refine ⟨by simp only [hxid, hpid]; omega, p, ins, by rw [hpid]; exact hp',
            by rw [hxid]; exact hx, conflict_writesIp_right _ p ins hip⟩
        · exact hE
    · exact hE

theorem findControlDeps_good {seq : List Ins} (hid : IdsArePositions seq) (E E' : Edges)
    (hE : AllGood seq E) (h : findControlDeps seq E = some E') : AllGood seq E' := by
  have hpin := pinLoop_good hid seq [] E rfl hE
  unfold findControlDeps at h
  cases hl : seq.getLast? with
  | none => simp [hl] at h
  | some last =>
    simp only [hl] at h
    obtain ⟨ys, hys⟩ := List.getLast?_eq_some_iff.1 hl
    have hlast : seq[ys.length]? = some last := by subst hys; simp
    have hlid : last.id = ys.length := id_of_getElem? hid hlast
    have hlen : seq.length = ys.length + 1 := by subst hys; simp
    split at h
    · cases h; exact hpin
    · rename_i hj
      cases h
      have hdl : seq.dropLast = ys := by subst hys; simp
      rw [hdl]
      apply allGood_foldl (fun p : Ins => (p.id, last.id))
      · intro p hp
        obtain ⟨j, hj', hp'⟩ := getElem?_of_mem_left hys hp
        have hpid : p.id = j := id_of_getElem? hid hp'
        refine ⟨by simp only [hlid, hpid]; omega, p, last, by rw [hpid]; exact hp',
          by rw [hlid]; exact hlast, conflict_term _ p last ?_⟩
        have hne : last.jumpTargets.isEmpty = false := by
          cases hjt : last.jumpTargets with
          | nil => simp [hjt] at hj
          | cons a l => rfl
        simp [Ins.toS, hlid, hlen, hne]
      · exact hpin

/-! ### `findSpecialDeps` -/

def SpInv (seq : List Ins) (P : Nat → Prop) (st : SpecialState) : Prop :=
  (∀ m, st.lastMemOrder = some m → P m ∧ ∃ x, seq[m]? = some x ∧ insMemOrder x = true) ∧
  (∀ s, st.lastSpecial = some s → P s ∧ ∃ x, seq[s]? = some x ∧ insSpecial x = true) ∧
  AllGood seq st.edges

theorem spInv_mono {seq : List Ins} {P P' : Nat → Prop} {st : SpecialState}
    (h : ∀ d, P d → P' d) (hs : SpInv seq P st) : SpInv seq P' st :=
  ⟨fun m hm => ⟨h m (hs.1 m hm).1, (hs.1 m hm).2⟩,
   fun s hs' => ⟨h s (hs.2.1 s hs').1, (hs.2.1 s hs').2⟩, hs.2.2⟩

theorem specialUpdate_eq (x : Ins) (st : SpecialState) : specialUpdate x st =
    if insSpecial x = true then ⟨none, some x.id, st.edges⟩
    else ⟨if insMemOrder x = true then some x.id else st.lastMemOrder, st.lastSpecial, st.edges⟩ :=
  rfl

theorem specialUpdate_inv {seq : List Ins} {P : Nat → Prop} (k : Nat) (x : Ins)
    (hx : seq[k]? = some x) (hxid : x.id = k) (hP : P k) (st : SpecialState)
    (hs : SpInv seq P st) : SpInv seq P (specialUpdate x st) := by
  obtain ⟨h1, h2, h3⟩ := hs
  rw [specialUpdate_eq]
  by_cases hsp : insSpecial x = true
  · rw [if_pos hsp]
    refine ⟨fun m hm => (by cases hm), ?_, h3⟩
    intro s hs'
    have hs'' : some x.id = some s := hs'
    cases hs''
    rw [hxid]
    exact ⟨hP, x, hx, hsp⟩
  · rw [if_neg hsp]
    refine ⟨?_, h2, h3⟩
    intro m hm
    have hm' : (if insMemOrder x = true then some x.id else st.lastMemOrder) = some m := hm
    split at hm'
    · rename_i hmo
      cases hm'
      rw [hxid]
      exact ⟨hP, x, hx, hmo⟩
    · exact h1 m hm'

theorem specialFwdStep_inv {seq : List Ins} (hid : IdsArePositions seq) (k : Nat) (x : Ins)
    (st : SpecialState) (hx : seq[k]? = some x) (h : SpInv seq (· < k) st) :
    SpInv seq (· < k + 1) (specialFwdStep st x) := by
  have hxid : x.id = k := id_of_getElem? hid hx
  unfold specialFwdStep
  apply specialUpdate_inv k x hx hxid (Nat.lt_succ_self k)
  obtain ⟨h1, h2, h3⟩ := spInv_mono (P' := (· < k + 1)) (fun d hd => Nat.lt_succ_of_lt hd) h
  refine ⟨h1, h2, ?_⟩
  have hE1 : AllGood seq (match st.lastMemOrder with
      | some m => if isMemAccess x then addDep m x.id st.edges else st.edges
      | none => st.edges) := by
    cases hm : st.lastMemOrder with
    | none => exact h3
    | some m =>
      show AllGood seq (if isMemAccess x = true then _ else _)
      split
      · rename_i hacc
        obtain ⟨hlt, y, hy, hmo⟩ := h.1 m hm
        exact allGood_addDep ⟨by simp only [hxid]; exact hlt, y, x, hy, by rw [hxid]; exact hx,
          conflict_memOrder_memAccess _ y x hmo hacc⟩ h3
      · exact h3
  show AllGood seq (match st.lastSpecial with
    | some s => addDep s x.id _
    | none => _)
  cases hs : st.lastSpecial with
  | none => exact hE1
  | some s =>
    obtain ⟨hlt, y, hy, hsp⟩ := h.2.1 s hs
    exact allGood_addDep ⟨by simp only [hxid]; exact hlt, y, x, hy, by rw [hxid]; exact hx,
      conflict_special_left _ y x hsp⟩ hE1

theorem specialBackStep_inv {seq : List Ins} (hid : IdsArePositions seq) (k : Nat) (x : Ins)
    (st : SpecialState) (hx : seq[k]? = some x) (h : SpInv seq (k + 1 ≤ ·) st) :
    SpInv seq (k ≤ ·) (specialBackStep x st) := by
  have hxid : x.id = k := id_of_getElem? hid hx
  unfold specialBackStep
  apply specialUpdate_inv k x hx hxid (Nat.le_refl k)
  obtain ⟨h1, h2, h3⟩ := spInv_mono (P' := (k ≤ ·)) (fun d hd => Nat.le_of_succ_le hd) h
  refine ⟨h1, h2, ?_⟩
  have hE1 : AllGood seq (match st.lastMemOrder with
      | some m => if isMemAccess x || insMemOrder x then addDep x.id m st.edges else st.edges
      | none => st.edges) := by
    cases hm : st.lastMemOrder with
    | none => exact h3
    | some m =>
      show AllGood seq (if (isMemAccess x || insMemOrder x) = true then _ else _)
      split
      · rename_i hacc
        obtain ⟨hlt, y, hy, hmo⟩ := h.1 m hm
        refine allGood_addDep ⟨by simp only [hxid]; exact hlt, x, y, by rw [hxid]; exact hx, hy,
          ?_⟩ h3
        by_cases ha : isMemAccess x = true
        · exact conflict_memAccess_memOrder _ x y ha hmo
        · have hxo : insMemOrder x = true := by
            cases h1' : isMemAccess x with
            | true => exact absurd h1' ha
            | false => rw [h1'] at hacc; simpa using hacc
          exact conflict_memOrder_memOrder _ x y hxo hmo
      · exact h3
  show AllGood seq (match st.lastSpecial with
    | some s => addDep x.id s _
    | none => _)
  cases hs : st.lastSpecial with
  | none => exact hE1
  | some s =>
    obtain ⟨hlt, y, hy, hsp⟩ := h.2.1 s hs
    exact allGood_addDep ⟨by simp only [hxid]; exact hlt, x, y, by rw [hxid]; exact hx, hy,
      conflict_special_right _ x y hsp⟩ hE1

theorem spInv_init (seq : List Ins) (P : Nat → Prop) (E : Edges) (hE : AllGood seq E) :
    SpInv seq P ⟨none, none, E⟩ :=
  ⟨fun m hm => (by cases hm), fun s hs => (by cases hs), hE⟩

theorem findSpecialDeps_good {seq : List Ins} (hid : IdsArePositions seq) (E : Edges)
    (hE : AllGood seq E) : AllGood seq (findSpecialDeps seq E) := by
  have hfwd := foldl_inv seq specialFwdStep (fun k => SpInv seq (· < k)) ⟨none, none, E⟩
    (spInv_init seq _ E hE) (specialFwdStep_inv hid)
  unfold findSpecialDeps
  show AllGood seq (if _ then _ else _)
  split
  · exact hfwd.2.2
  · exact (foldr_inv seq specialBackStep (fun k => SpInv seq (k ≤ ·)) _
      (spInv_init seq _ _ hfwd.2.2) (specialBackStep_inv hid)).2.2

/-! ### all finders -/

theorem findAllDeps_good {seq : List Ins} (hid : IdsArePositions seq) (E : Edges)
    (h : findAllDeps seq = some E) : AllGood seq E := by
  unfold findAllDeps at h
  obtain ⟨E', hE', rfl⟩ := Option.map_eq_some_iff.1 h
  apply findSpecialDeps_good hid
  apply findControlDeps_good hid _ _ _ hE'
  apply findOutputDeps_good hid
  apply findAntiDeps_good hid
  apply findTrueDeps_good hid
  exact allGood_nil seq

theorem findAllDeps_isSome (seq : List Ins) (hne : seq ≠ []) : ∃ E, findAllDeps seq = some E := by
  unfold findAllDeps findControlDeps
  cases hl : seq.getLast? with
  | none => exact absurd (List.getLast?_eq_none_iff.1 hl) hne
  | some last =>
    simp only
    split <;> exact ⟨_, rfl⟩

theorem edges_forward (seq : List Ins) (hid : IdsArePositions seq) (E : Edges)
    (h : findAllDeps seq = some E) : ∀ e ∈ E, e.1 < e.2 ∧ e.2 < seq.length := by
  intro e he
  obtain ⟨hlt, x, y, _, hy, _⟩ := findAllDeps_good hid E h e he
  exact ⟨hlt, (List.getElem?_eq_some_iff.1 hy).1⟩

theorem edge_conflict (seq : List Ins) (hid : IdsArePositions seq) (E : Edges)
    (h : findAllDeps seq = some E) :
    ∀ e ∈ E, ∀ (h1 : e.1 < seq.length) (h2 : e.2 < seq.length),
      Conflict (seq[e.1].toS seq.length) (seq[e.2].toS seq.length) := by
  intro e he h1 h2
  obtain ⟨_, x, y, hx, hy, hc⟩ := findAllDeps_good hid E h e he
  obtain ⟨_, rfl⟩ := List.getElem?_eq_some_iff.1 hx
  obtain ⟨_, rfl⟩ := List.getElem?_eq_some_iff.1 hy
  exact hc

end Mltwist.Lemmas.Deps
