import Mltwist.Lemmas.DepsInv
import Mltwist.Lemmas.BasicBlockBasic
/-
Exact lookups (`Block.Address`) on a block that satisfies the invariant, and the invariant of the
specification (`VBlock.Inv` on the view) from the invariant of the model (`BInv`).
-/
namespace Mltwist.Lemmas.Deps
open Mltwist Mltwist.Deps Mltwist.Deps.Spec

theorem tilesI_ge (a : Nat) (l : List Ins) (h : TilesI a l) (j : Nat) (hj : j < l.length) :
    a ≤ l[j].currAddr := by
  rw [tilesI_getElem a l h j hj]; omega

theorem tilesI_lt (a : Nat) (l : List Ins) (h : TilesI a l) (i j : Nat) (hij : i < j)
    (hj : j < l.length) : (l[i]'(by omega)).currAddr + (l[i]'(by omega)).len ≤ l[j].currAddr := by
  induction l generalizing a i j with
  | nil => simp at hj
  | cons x xs ih =>
    cases j with
    | zero => omega
    | succ j =>
      have hj' : j < xs.length := by simpa using hj
      cases i with
      | zero =>
        have := tilesI_ge (a + x.len) xs h.2.2 j hj'
        simp only [List.getElem_cons_zero, List.getElem_cons_succ]
        rw [h.1]; exact this
      | succ i =>
        simp only [List.getElem_cons_succ]
        exact ih (a + x.len) h.2.2 i j (by omega) hj'

/-- the predicate of the binary search of `Block.Address` -/
def addrPred (b : Block) (a : Nat) : Nat → Except BasicBlock.Fail Bool := fun i =>
  match b.seq[i]? with
  | none => .error .panic
  | some x => .ok (decide (x.currAddr ≥ a))

theorem address_unfold (b : Block) (a : Nat) :
    b.address a =
      match BasicBlock.search b.seq.length (addrPred b a) with
      | .error _ => none
      | .ok i =>
        if i = b.seq.length then some none
        else
          match b.seq[i]? with
          | none => none
          | some ins => if ins.currAddr ≠ a then some none else some (some ins) := rfl

/-- `Block.Address a` finds exactly the instruction whose current address is `a` -/
theorem BInv.address_exact {b : Block} (hb : BInv b) (a : Nat) :
    b.address a = some (b.seq.find? (fun i => i.currAddr == a)) := by
  let p : Nat → Bool := fun i => decide ((b.seq.getD i default).currAddr ≥ a)
  have hf : ∀ i, i < b.seq.length → addrPred b a i = .ok (p i) := by
    intro i hi
    simp [addrPred, p, hi]
  have hmono : ∀ s t, s ≤ t → t < b.seq.length → p s = true → p t = true := by
    intro s t hst ht hs
    have hs' : s < b.seq.length := by omega
    simp only [p, List.getD_eq_getElem?_getD, List.getElem?_eq_getElem hs', List.getElem?_eq_getElem ht,
      Option.getD_some, decide_eq_true_eq] at hs ⊢
    rcases Nat.lt_or_eq_of_le hst with h | h
    · have := tilesI_lt b.begin b.seq hb.tiles s t h ht
      omega
    · subst h; exact hs
  obtain ⟨k, hk, hkn, hlo, hhi⟩ := Lemmas.BasicBlock.search_spec _ p b.seq.length hf hmono
  have hlt : ∀ t (ht : t < b.seq.length), t < k → b.seq[t].currAddr < a := by
    intro t ht htk
    have := hlo t htk
    simpa [p, ht] using this
  rw [address_unfold, hk]
  by_cases hkn' : k = b.seq.length
  · simp only [hkn', if_true]
    congr 1
    symm
    rw [List.find?_eq_none]
    intro x hx
    obtain ⟨j, hj, rfl⟩ := List.mem_iff_getElem.1 hx
    have := hlt j hj (by omega)
    simp; omega
  · have hk' : k < b.seq.length := by omega
    have hge : b.seq[k].currAddr ≥ a := by
      have := hhi hk'
      simpa [p, hk'] using this
    simp only [hkn', if_false, List.getElem?_eq_getElem hk']
    by_cases heq : b.seq[k].currAddr = a
    · simp only [heq, ne_eq, not_true_eq_false, if_false]
      congr 1
      symm
      rw [List.find?_eq_some_iff_append]
      refine ⟨by simp [heq], b.seq.take k, b.seq.drop (k + 1), by simp, ?_⟩
      intro x hx
      obtain ⟨j, hj, rfl⟩ := List.mem_iff_getElem.1 hx
      have hj' : j < k := by
        rw [List.length_take] at hj; omega
      rw [List.getElem_take]
      have := hlt j (by omega) hj'
      simp; omega
    · simp only [ne_eq, heq, not_false_eq_true, if_true]
      congr 1
      symm
      rw [List.find?_eq_none]
      intro x hx
      obtain ⟨j, hj, rfl⟩ := List.mem_iff_getElem.1 hx
      rcases Nat.lt_trichotomy j k with h | h | h
      · have := hlt j hj h; simp; omega
      · subst h; simpa using heq
      · have := tilesI_lt b.begin b.seq hb.tiles k j h hj
        simp; omega

/-! ### the specification's invariant on the view -/

theorem tiles_view (a : Nat) (l : List Ins) (h : TilesI a l) :
    Tiles a (l.map Ins.view) (a + bytesI l) := by
  induction l generalizing a with
  | nil => simp [Tiles, bytesI]
  | cons x xs ih =>
    simp only [List.map_cons, Tiles, bytesI_cons]
    refine ⟨h.1, h.2.1, ?_⟩
    have := ih (a + x.len) h.2.2
    rw [show a + (x.len + bytesI xs) = a + x.len + bytesI xs by omega]
    exact this

theorem view_bytes (b : Block) : b.view.bytes = bytesI b.seq := by
  simp [VBlock.bytes, Block.view, bytesI, Ins.view, Function.comp_def]

theorem findIdx_view (l : List Ins) (id : Nat) :
    (l.map Ins.view).findIdx (fun i => i.id == id) = (idsOf l).idxOf id := by
  rw [List.findIdx_map]
  simp only [idsOf, List.idxOf, List.findIdx_map]
  rfl

theorem view_pos (b : Block) (id : Nat) (h : id ∈ idsOf b.seq) :
    b.view.pos id = some ((idsOf b.seq).idxOf id) := by
  have hl := List.idxOf_lt_length_of_mem h
  rw [idsOf_length] at hl
  show (if (b.seq.map Ins.view).findIdx (fun i => i.id == id) < (b.seq.map Ins.view).length
    then some ((b.seq.map Ins.view).findIdx (fun i => i.id == id)) else none) = _
  rw [findIdx_view, List.length_map, if_pos hl]

/-- the model's invariant is the specification's invariant on the view -/
theorem BInv.view_inv {b : Block} (hb : BInv b) : b.view.Inv := by
  refine ⟨?_, ?_, ?_, ?_, ?_, ?_, ?_⟩
  · simpa [Block.view] using hb.ne
  · intro k hk
    have hk' : k < b.seq.length := by simpa [Block.view] using hk
    have := idxFrom_getElem 0 b.seq hb.idx k hk'
    simpa [Block.view, Ins.view] using this
  · have : (b.view.seq.map (·.id)) = idsOf b.seq := by
      simp [Block.view, idsOf, Ins.view, Function.comp_def]
    rw [this]
    simpa [Block.view] using hb.ids
  · rw [view_bytes]
    exact tiles_view b.begin b.seq hb.tiles
  · rw [view_bytes]; exact hb.top
  · rw [view_bytes]; exact hb.end_
  · intro e he
    obtain ⟨h1, h2, h3⟩ := hb.fwd e he
    exact ⟨_, _, view_pos b e.1 h1, view_pos b e.2 h2, h3⟩

end Mltwist.Lemmas.Deps
