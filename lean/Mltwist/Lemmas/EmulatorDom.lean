import Mltwist.Lemmas.EmulatorLifted
/-
Emulator (C03), part 16: the domain condition `StepDom` (every memory access the step performs lies in
the domain of C14) follows from a STATIC condition on the instruction under the represented valuation:
every `MemLoad` node of its expressions and every `MemStore` of its effects addresses a range in the
domain when the address expression is evaluated under `ρ`.
-/
namespace Mltwist.Lemmas.Emulator
open Mltwist Mltwist.State Mltwist.Overlay Mltwist.Emulator Mltwist.Spec.Overlay
open Mltwist.Lemmas.State (Good)

/-- the memory-load nodes of an expression: key, address expression, width -/
def memNodes : Expr → List (String × Expr × Nat)
  | .const _ => []
  | .regLoad _ _ => []
  | .binary _ a b _ => memNodes a ++ memNodes b
  | .less a b t f _ => memNodes a ++ memNodes b ++ memNodes t ++ memNodes f
  | .memLoad k a w => (k, a, w) :: memNodes a

/-- every load node of the expression, its address evaluated under `ρ`, lies in the domain of C14 -/
def LoadsDom (ρ : Env) (e : Expr) : Prop := ∀ n ∈ memNodes e, InDom (n.2.1.eval ρ % 2 ^ 64) n.2.2

/-! ### `Agree` along the phases of evaluation -/

theorem agree_of_memFill {p : Provider} {code : CodeView} {ρ : Env} {s s' : State} {l : List Req}
    (hf : Fill p s l s') (hi : Inv s) (ha : Agree p code ρ s) (hq : ∀ r ∈ l, ∃ k a w, r = Req.mem k a w) :
    Agree p code ρ s' := by
  refine hf.agree hi ha ?_
  intro k w hk
  obtain ⟨k', a', w', h⟩ := hq _ hk
  cases h

theorem memOut_agree {p : Provider} {code : CodeView} {ρ : Env} {e : Expr} {c c' : Ctx} (o : MemOut p e c c')
    (hi : Inv c.st) (ha : Agree p code ρ c.st) : Agree p code ρ c'.st := by
  obtain ⟨l, _, hf, hq⟩ := o.log
  exact agree_of_memFill hf hi ha hq

theorem atCodeWidth_of {code : CodeView} {l : List Req} {es : List Expr} (hle : ∀ e ∈ es, RegsLe code e)
    (hq : ∀ r ∈ l, (∃ e ∈ es, RegReqOf code (regLoads e) r) ∨ ∃ k a w, r = Req.mem k a w) : AtCodeWidth code l := by
  intro k w hk
  rcases hq _ hk with ⟨e, he, kw, hkw, heq⟩ | ⟨k', a', w', heq⟩
  · cases heq
    exact Nat.max_eq_right (hle e he kw hkw)
  · cases heq

theorem regsOut_agree {p : Provider} {code : CodeView} {ρ : Env} {e : Expr} {c c' : Ctx}
    (o : RegsOut p code e c c') (hi : Inv c.st) (ha : Agree p code ρ c.st) (hle : RegsLe code e) :
    Agree p code ρ c'.st := by
  obtain ⟨l, _, hf, hq⟩ := o.log
  refine hf.agree hi ha (atCodeWidth_of (es := [e]) (fun x hx => by simp at hx; subst hx; exact hle) ?_)
  intro r hr
  exact Or.inl ⟨e, by simp, hq r hr⟩

theorem evalsOut_agree {p : Provider} {code : CodeView} {ρ : Env} {es : List Expr} {c c' : Ctx}
    (o : EvalsOut p code es c c') (hi : Inv c.st) (ha : Agree p code ρ c.st) (hle : ∀ e ∈ es, RegsLe code e) :
    Agree p code ρ c'.st := by
  obtain ⟨l, _, hf, hq⟩ := o.log
  exact hf.agree hi ha (atCodeWidth_of hle hq)

/-! ### the memory phase -/

theorem evalMem_inj {p : Provider} {e : Expr} {c : Ctx} {x y : Expr × Ctx} (h1 : evalMem p e c = .ok x)
    (h2 : evalMem p e c = .ok y) : x = y := by
  rw [h1] at h2
  cases h2
  rfl

theorem loadsDom_binary {ρ : Env} {op : BinOp} {a b : Expr} {w : Nat} (h : LoadsDom ρ (.binary op a b w)) :
    LoadsDom ρ a ∧ LoadsDom ρ b :=
  ⟨fun n hn => h n (by simp [memNodes, hn]), fun n hn => h n (by simp [memNodes, hn])⟩

theorem loadsDom_less {ρ : Env} {a b t f : Expr} {w : Nat} (h : LoadsDom ρ (.less a b t f w)) :
    LoadsDom ρ a ∧ LoadsDom ρ b ∧ LoadsDom ρ t ∧ LoadsDom ρ f :=
  ⟨fun n hn => h n (by simp [memNodes, hn]), fun n hn => h n (by simp [memNodes, hn]),
   fun n hn => h n (by simp [memNodes, hn]), fun n hn => h n (by simp [memNodes, hn])⟩

/-- what the memory phase of a sub-expression leaves behind, for the next sub-expression -/
theorem after_evalMem {p : Provider} {code : CodeView} {ρ : Env} {R : RegMap} {e : Expr} {c : Ctx}
    (hi : Inv c.st) (ha : Agree p code ρ c.st) (hR : c.st.regs = R) (hr : RegsIn R (regLoads e))
    (hw : e.wf = true) (hd : EvalMemDom p (substRegs R e) c) {e' : Expr} {c1 : Ctx}
    (h : evalMem p (substRegs R e) c = .ok (e', c1)) :
    Inv c1.st ∧ Agree p code ρ c1.st ∧ c1.st.regs = R ∧ e' = substMem (absOf c1.st) (substRegs R e) ∧
      MemsIn (absOf c1.st) (substRegs R e) := by
  have hnr := substRegs_noRegs (hR ▸ hi.regs) e hr
  have hwf := substRegs_wf (hR ▸ hi.regs) e hw
  obtain ⟨c1', h1, o1⟩ := evalMem_spec p (substRegs R e) c hi hnr hwf hd
  have := evalMem_inj h h1
  cases this
  exact ⟨o1.inv, memOut_agree o1 hi ha, o1.regs.trans hR, rfl, o1.memsIn⟩

theorem evalMemDom_of_static (p : Provider) (code : CodeView) (ρ : Env) (R : RegMap) : ∀ (e : Expr) (c : Ctx),
    Inv c.st → Agree p code ρ c.st → c.st.regs = R → RegsIn R (regLoads e) → RegsLe code e → e.wf = true →
    LoadsDom ρ e → EvalMemDom p (substRegs R e) c
  | .const _, _, _, _, _, _, _, _, _ => trivial
  | .regLoad k w, c, hi, _, hR, hr, _, _, _ => by
    have hk := hr (k, w) (by simp [regLoads])
    cases hg : assocGet k R with
    | none => exact absurd hg hk
    | some e0 =>
      obtain ⟨v, rfl⟩ := (hR ▸ hi.regs) k e0 hg
      simp only [substRegs, load_const hg, Option.getD]
      trivial
  | .memLoad key a w, c, hi, ha, hR, hr, hle, hw, hd => by
    simp only [regLoads] at hr
    have hwa : a.wf = true := by
      simp only [Expr.wf, Bool.and_eq_true] at hw; exact hw.2
    have hla : RegsLe code a := fun kw h => hle kw (by simpa [regLoads] using h)
    have hda : LoadsDom ρ a := fun n hn => hd n (by simp [memNodes, hn])
    have ih := evalMemDom_of_static p code ρ R a c hi ha hR hr hla hwa hda
    refine ⟨ih, fun a'' c1 hev ab hcf => ?_⟩
    obtain ⟨hi1, ha1, hR1, rfl, hm1⟩ := after_evalMem hi ha hR hr hwa ih hev
    -- the address
    have hnr := substRegs_noRegs (hR ▸ hi.regs) a hr
    have hwf := substRegs_wf (hR ▸ hi.regs) a hwa
    have hsh := substMem_shape (absOf c1.st) (substRegs R a) hnr hwf
    have hval := Lemmas.State.const_is_value _ hsh.2 ab hcf ρ0
    have hall : (substAll c1.st a).eval ρ0 = a.eval ρ :=
      substAll_eval hi1 ha1 a (hR1 ▸ hr) (hR1 ▸ hm1) hla
    have : leToNat ab = a.eval ρ := by
      rw [hval, ← hall]
      unfold substAll
      rw [hR1]
    rw [Lemmas.State.constUint8, this]
    exact hd (key, a, w) (by simp [memNodes])
  | .binary op a b w, c, hi, ha, hR, hr, hle, hw, hd => by
    simp only [regLoads, RegsIn.append] at hr
    simp only [Expr.wf, Bool.and_eq_true] at hw
    have hla : RegsLe code a := fun kw h => hle kw (by simp [regLoads, h])
    have hlb : RegsLe code b := fun kw h => hle kw (by simp [regLoads, h])
    obtain ⟨hda, hdb⟩ := loadsDom_binary hd
    have iha := evalMemDom_of_static p code ρ R a c hi ha hR hr.1 hla hw.1.2 hda
    refine ⟨iha, fun a' c1 hev => ?_⟩
    obtain ⟨hi1, ha1, hR1, _, _⟩ := after_evalMem hi ha hR hr.1 hw.1.2 iha hev
    exact evalMemDom_of_static p code ρ R b c1 hi1 ha1 hR1 hr.2 hlb hw.2 hdb
  | .less a b t f w, c, hi, ha, hR, hr, hle, hw, hd => by
    simp only [regLoads, RegsIn.append] at hr
    simp only [Expr.wf, Bool.and_eq_true] at hw
    have hla : RegsLe code a := fun kw h => hle kw (by simp [regLoads, h])
    have hlb : RegsLe code b := fun kw h => hle kw (by simp [regLoads, h])
    have hlt : RegsLe code t := fun kw h => hle kw (by simp [regLoads, h])
    have hlf : RegsLe code f := fun kw h => hle kw (by simp [regLoads, h])
    obtain ⟨hda, hdb, hdt, hdf⟩ := loadsDom_less hd
    have iha := evalMemDom_of_static p code ρ R a c hi ha hR hr.1.1.1 hla hw.1.1.1.2 hda
    refine ⟨iha, fun a' c1 hev => ?_⟩
    obtain ⟨hi1, ha1, hR1, _, _⟩ := after_evalMem hi ha hR hr.1.1.1 hw.1.1.1.2 iha hev
    have ihb := evalMemDom_of_static p code ρ R b c1 hi1 ha1 hR1 hr.1.1.2 hlb hw.1.1.2 hdb
    refine ⟨ihb, fun b' c2 hev2 => ?_⟩
    obtain ⟨hi2, ha2, hR2, _, _⟩ := after_evalMem hi1 ha1 hR1 hr.1.1.2 hw.1.1.2 ihb hev2
    have iht := evalMemDom_of_static p code ρ R t c2 hi2 ha2 hR2 hr.1.2 hlt hw.1.2 hdt
    refine ⟨iht, fun t' c3 hev3 => ?_⟩
    obtain ⟨hi3, ha3, hR3, _, _⟩ := after_evalMem hi2 ha2 hR2 hr.1.2 hw.1.2 iht hev3
    exact evalMemDom_of_static p code ρ R f c3 hi3 ha3 hR3 hr.2 hlf hw.2 hdf

/-! ### `eval`, the effects, the step -/

theorem evalDom_of_static {p : Provider} {code : CodeView} {ρ : Env} {e : Expr} {c : Ctx} (hi : Inv c.st)
    (ha : Agree p code ρ c.st) (hle : RegsLe code e) (hw : e.wf = true) (hd : LoadsDom ρ e) :
    EvalDom p code e c := by
  intro e1 c1 h
  obtain ⟨c1', h1, o1⟩ := evalRegs_spec p code e c hi.regs
  obtain ⟨he1, hc1⟩ := Prod.mk.inj (Except.ok.inj (h1.symm.trans h))
  subst hc1
  subst he1
  obtain ⟨l, _, hf, _⟩ := o1.log
  exact evalMemDom_of_static p code ρ c1'.st.regs e c1' (hf.inv hi) (regsOut_agree o1 hi ha hle) rfl o1.regsIn hle hw hd

/-- the static condition on an effect -/
def EffStatic (ρ : Env) : Effect → Prop
  | .memStore v _ a w => LoadsDom ρ v ∧ LoadsDom ρ a ∧ InDom (a.eval ρ % 2 ^ 64) w
  | .regStore v _ _ => LoadsDom ρ v

theorem effDom_of_static {p : Provider} {code : CodeView} {ρ : Env} {ef : Effect} {c : Ctx} (hi : Inv c.st)
    (ha : Agree p code ρ c.st) (hle : ∀ e ∈ evalOrder ef, RegsLe code e) (hw : Effect.wfE ef)
    (hs : EffStatic ρ ef) : EffDom p code ef c := by
  cases ef with
  | regStore v k w => exact evalDom_of_static hi ha (hle v (by simp [evalOrder])) hw hs
  | memStore v k a w =>
    have hlv := hle v (by simp [evalOrder])
    have hla := hle a (by simp [evalOrder])
    have hdv := evalDom_of_static hi ha hlv hw.1 hs.1
    refine ⟨hdv, fun v' c1 hev => ?_⟩
    obtain ⟨c1', h1, o1⟩ := eval_spec p code v c hi hw.1 hdv
    obtain ⟨_, hc1⟩ := Prod.mk.inj (Except.ok.inj (h1.symm.trans hev))
    subst hc1
    have ha1 := evalsOut_agree (EvalsOut.of_eval o1) hi ha (fun x hx => by simp at hx; subst hx; exact hlv)
    exact evalDom_of_static o1.inv ha1 hla hw.2 hs.2.1

theorem effsDom_of_static {p : Provider} {code : CodeView} {ρ : Env} : ∀ (efs : List Effect) (c : Ctx),
    Inv c.st → Agree p code ρ c.st → (∀ ef ∈ efs, ∀ e ∈ evalOrder ef, RegsLe code e) →
    (∀ ef ∈ efs, Effect.wfE ef) → (∀ ef ∈ efs, EffStatic ρ ef) → EffsDom p code efs c
  | [], _, _, _, _, _, _ => trivial
  | ef :: efs, c, hi, ha, hle, hw, hs => by
    have h0 := effDom_of_static hi ha (hle ef (List.mem_cons_self ..)) (hw ef (List.mem_cons_self ..))
      (hs ef (List.mem_cons_self ..))
    refine ⟨h0, fun ef' c1 hev => ?_⟩
    obtain ⟨c1', h1, o1⟩ := evalEffect_spec p code ef c hi (hw ef (List.mem_cons_self ..)) h0
    obtain ⟨_, hc1⟩ := Prod.mk.inj (Except.ok.inj (h1.symm.trans hev))
    subst hc1
    have ha1 := evalsOut_agree o1 hi ha (hle ef (List.mem_cons_self ..))
    exact effsDom_of_static efs c1' o1.inv ha1 (fun x hx => hle x (List.mem_cons_of_mem _ hx))
      (fun x hx => hw x (List.mem_cons_of_mem _ hx)) (fun x hx => hs x (List.mem_cons_of_mem _ hx))

/-- THE DOMAIN CONDITION FROM A STATIC ONE: if every load node and every store of the instruction
addresses, under `ρ`, a range in the domain of C14, the step performs accesses in the domain only -/
theorem stepDom_of_static {p : Provider} {code : CodeView} {ρ : Env} {s : State} {ins : Ins} (hi : Inv s)
    (ha : Agree p code ρ s) (hmem : ins ∈ code) (hw : InsWF ins) (hs : ∀ ef ∈ ins.effects, EffStatic ρ ef) :
    StepDom p code s ins := by
  have hle : ∀ ef ∈ ins.effects, ∀ e ∈ evalOrder ef, RegsLe code e := fun ef hef e he => regsLe_of_code hmem hef he
  have hd := effsDom_of_static (p := p) ins.effects { st := s } hi ha hle hw hs
  refine ⟨hd, fun efs' c1 hev v k a w hm => ?_⟩
  obtain ⟨c1', h1, o1⟩ := evalEffects_spec p code ins.effects { st := s } hi hw hd
  obtain ⟨hefs, hc1⟩ := Prod.mk.inj (Except.ok.inj (h1.symm.trans hev))
  subst hc1
  subst hefs
  obtain ⟨ef0, h0, he0⟩ := List.mem_map.1 hm
  have hle' : ∀ e ∈ evalOrders ins.effects, RegsLe code e := by
    intro e he
    obtain ⟨ef, hef, he'⟩ := mem_evalOrders he
    exact hle ef hef e he'
  have ha1 := evalsOut_agree o1 hi ha hle'
  cases ef0 with
  | regStore v0 k0 w0 => simp [evalEff] at he0
  | memStore v0 k0 a0 w0 =>
    simp only [evalEff, Effect.memStore.injEq, Expr.const.injEq] at he0
    obtain ⟨_, _, rfl, rfl⟩ := he0
    have hin : a0 ∈ evalOrders ins.effects := List.mem_flatMap.2 ⟨_, h0, by simp [evalOrder]⟩
    rw [valBytes_eval o1.inv ha1 (o1.present a0 hin) (hle' a0 hin)]
    exact (hs _ h0).2.2

end Mltwist.Lemmas.Emulator
