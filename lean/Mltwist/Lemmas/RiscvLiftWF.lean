import Mltwist.Lemmas.Const
import Mltwist.Lemmas.EmulatorFoldWF
import Mltwist.Lemmas.RiscvLiftX0
/-
C03 support: every expression the RV64IMA tables lift is well formed (`Expr.wf`: all widths between 1 and
255), for every instruction word — a table-wide syntactic fact in the style of `RiscvLiftX0.lean`: one
`wf` lemma per gadget of `exprtools` and per helper of `opcodes.go`, then `simp` over the tables.
Together with `constFold_wf` the constant-folded effects `parser.newInstruction` stores are well formed too.
-/
namespace Mltwist.Lemmas.RiscvLift
open Mltwist Mltwist.Riscv Mltwist.Lemmas.Emulator
set_option linter.unusedSimpArgs false

/-- in range for a Go `expr.Width` -/
def WOK (w : Nat) : Prop := 1 ≤ w ∧ w ≤ 255

@[simp] theorem wok_iff (w : Nat) : WOK w ↔ 1 ≤ w ∧ w ≤ 255 := Iff.rfl
instance (w : Nat) : Decidable (WOK w) := by unfold WOK; infer_instance

theorem wf_width' : ∀ e : Expr, e.wf = true → WOK e.width
  | .const bs, h => by simpa [Expr.wf, Expr.width] using h
  | .binary _ _ _ w, h => by
    simp only [Expr.wf, Bool.and_eq_true, decide_eq_true_eq] at h; exact h.1.1
  | .less _ _ _ _ w, h => by
    simp only [Expr.wf, Bool.and_eq_true, decide_eq_true_eq] at h; exact h.1.1.1.1
  | .memLoad _ _ w, h => by
    simp only [Expr.wf, Bool.and_eq_true, decide_eq_true_eq] at h; exact h.1
  | .regLoad _ w, h => by simpa [Expr.wf, Expr.width] using h

/-! ### constants -/

theorem wf_natToLE (n v : Nat) (h : WOK n) : (Expr.const (natToLE n v)).wf = true := by
  rw [wf_const_iff, Mltwist.Lemmas.Const.natToLE_length]; exact h

@[simp] theorem wf_constUint (v n : Nat) (h : WOK n) : (Tools.constUint v n).wf = true := wf_natToLE n v h
@[simp] theorem wf_constFromUint (n v : Nat) (h : WOK n) : (constFromUint n v).wf = true := wf_natToLE n v h
@[simp] theorem wf_constFromInt (n : Nat) (v : Int) (h : WOK n) : (constFromInt n v).wf = true := wf_natToLE n _ h
@[simp] theorem wf_addrConst (a n : Nat) (h : WOK n) : (addrConst a n).wf = true := wf_natToLE n _ h
@[simp] theorem wf_zero' : Expr.zero.wf = true := by decide
@[simp] theorem wf_one' : Expr.one.wf = true := by decide
@[simp] theorem wf_immConst (t : ImmType) (i : Ins) (w : Nat) (h : WOK w) : (immConst t i w).wf = true :=
  wf_constFromInt w _ h
@[simp] theorem wf_addrImmConst (t : ImmType) (i : Ins) (w : Nat) (h : WOK w) : (addrImmConst t i w).wf = true :=
  wf_addrConst _ w h
@[simp] theorem wf_csrImm (i : Ins) : (csrImm i).wf = true := wf_constFromUint 1 _ (by decide)

@[simp] theorem wf_regLoad (r : Reg) (i : Ins) (w : Nat) (h : WOK w) : (regLoad r i w).wf = true := by
  unfold regLoad
  simp only
  split
  · exact wf_zero'
  · rw [wf_regLoad_iff]; exact h

@[simp] theorem wf_exprRegLoad (k : String) (w : Nat) (h : WOK w) : (Expr.regLoad k w).wf = true := by
  rw [wf_regLoad_iff]; exact h

/-! ### gadgets of `exprtools` -/

theorem wf_bin {a b : Expr} (op : BinOp) {w : Nat} (ha : a.wf = true) (hb : b.wf = true) (h : WOK w) :
    (Expr.binary op a b w).wf = true := by
  rw [wf_binary_iff]; exact ⟨h, ha, hb⟩

theorem wf_lessE {a b t f : Expr} {w : Nat} (ha : a.wf = true) (hb : b.wf = true) (ht : t.wf = true)
    (hf : f.wf = true) (h : WOK w) : (Expr.less a b t f w).wf = true := by
  rw [wf_less_iff]; exact ⟨h, ha, hb, ht, hf⟩

theorem wf_ones {w : Nat} (h : WOK w) : (Tools.ones w).wf = true := wf_bin _ wf_zero' wf_zero' h

theorem wf_bitNot {e : Expr} {w : Nat} (he : e.wf = true) (h : WOK w) : (Tools.bitNot e w).wf = true :=
  wf_bin _ he (wf_ones h) h

theorem wf_bitAnd {a b : Expr} {w : Nat} (ha : a.wf = true) (hb : b.wf = true) (h : WOK w) :
    (Tools.bitAnd a b w).wf = true := wf_bitNot (wf_bin _ ha hb h) h

theorem wf_bitOr {a b : Expr} {w : Nat} (ha : a.wf = true) (hb : b.wf = true) (h : WOK w) :
    (Tools.bitOr a b w).wf = true := wf_bin _ (wf_bitNot ha h) (wf_bitNot hb h) h

theorem wf_bitXor {a b : Expr} {w : Nat} (ha : a.wf = true) (hb : b.wf = true) (h : WOK w) :
    (Tools.bitXor a b w).wf = true := by
  unfold Tools.bitXor
  exact wf_bin _ (wf_bin _ ha (wf_bin _ ha hb h) h) (wf_bin _ hb (wf_bin _ ha hb h) h) h

theorem wf_negate {e : Expr} {w : Nat} (he : e.wf = true) (h : WOK w) : (Tools.negate e w).wf = true :=
  wf_bin _ (wf_bitNot he h) wf_one' h

theorem wf_sub {a b : Expr} {w : Nat} (ha : a.wf = true) (hb : b.wf = true) (h : WOK w) :
    (Tools.sub a b w).wf = true := wf_bin _ ha (wf_negate hb h) h

theorem wf_signBitMask {w : Nat} (h : WOK w) : (Tools.signBitMask w).wf = true := by
  unfold Tools.signBitMask
  simp only
  split
  · exact wf_constUint _ w h
  · exact wf_bin _ wf_one' (wf_constUint _ 2 (by decide)) h

theorem signBitMask_width (w : Nat) : (Tools.signBitMask w).width = w := by
  unfold Tools.signBitMask
  simp only
  split
  · simp [Tools.constUint, Expr.width, Mltwist.Lemmas.Const.natToLE_length]
  · rfl

theorem wf_bitMaskRaw {bits w : Nat} (h : WOK w) : (Tools.bitMaskRaw bits w).wf = true := by
  unfold Tools.bitMaskRaw
  split
  · exact wf_constUint _ w h
  · exact wf_sub (wf_bin _ wf_one' (wf_constUint _ 2 (by decide)) h) wf_one' h

theorem wf_bitMask {bits w : Nat} (h : WOK w) : (Tools.bitMask bits w).wf = true := wf_bitMaskRaw h

theorem wf_maskBits {e : Expr} {cnt w : Nat} (he : e.wf = true) (h : WOK w) : (Tools.maskBits e cnt w).wf = true :=
  wf_bitAnd he (wf_bitMask h) h

theorem wf_intNegative {e : Expr} {w : Nat} (he : e.wf = true) (h : WOK w) : (Tools.intNegative e w).wf = true :=
  wf_bitAnd he (wf_signBitMask h) h

theorem wf_absMask {e mask : Expr} (he : e.wf = true) (hm : mask.wf = true) : (Tools.absMask e mask).wf = true := by
  unfold Tools.absMask
  have hw := wf_width' mask hm
  exact wf_lessE he hm he (wf_negate he hw) hw

theorem wf_abs {e : Expr} {w : Nat} (he : e.wf = true) (h : WOK w) : (Tools.abs e w).wf = true :=
  wf_absMask he (wf_signBitMask h)

theorem wf_mod {a b : Expr} {w : Nat} (ha : a.wf = true) (hb : b.wf = true) (h : WOK w) :
    (Tools.mod a b w).wf = true := by
  unfold Tools.mod
  exact wf_sub ha (wf_bin _ (wf_bin _ ha hb h) hb h) h

theorem wf_newWidthGadget {e : Expr} {w : Nat} (he : e.wf = true) (h : WOK w) : (newWidthGadget e w).wf = true :=
  wf_bin _ he wf_zero' h

theorem wf_bool {e : Expr} (he : e.wf = true) : (Tools.bool e).wf = true := by
  unfold Tools.bool
  exact wf_newWidthGadget (wf_lessE he wf_one' wf_zero' wf_one' (wf_width' e he)) (by decide)

theorem wf_boolCond {b t f : Expr} {w : Nat} (hb : b.wf = true) (ht : t.wf = true) (hf : f.wf = true) (h : WOK w) :
    (Tools.boolCond b t f w).wf = true := wf_lessE wf_zero' hb ht hf h

theorem bitAnd_width (a b : Expr) (w : Nat) : (Tools.bitAnd a b w).width = w := rfl

theorem wf_negativeSignJoin {a b : Expr} (ha : a.wf = true) (hb : b.wf = true) :
    (Tools.negativeSignJoin a b).wf = true := by
  unfold Tools.negativeSignJoin
  exact wf_bitXor (wf_bool (wf_intNegative ha (wf_width' a ha))) (wf_bool (wf_intNegative hb (wf_width' b hb)))
    (by decide)

theorem wf_signExtend {e sb : Expr} {w : Nat} (he : e.wf = true) (hs : sb.wf = true) (h : WOK w) :
    (Tools.signExtend e sb w).wf = true := by
  unfold Tools.signExtend
  simp only
  have hsm : (Expr.binary .lsh Expr.one sb w).wf = true := wf_bin _ wf_one' hs h
  have hvm := wf_sub hsm wf_one' h
  exact wf_boolCond (wf_bitAnd he hsm h) (wf_bitOr he (wf_bitNot hvm h) h) (wf_bitAnd he hvm h) h

theorem wf_signedMul {a b : Expr} {w : Nat} (ha : a.wf = true) (hb : b.wf = true) (h : WOK (2 * w)) :
    (Tools.signedMul a b w).wf = true := by
  unfold Tools.signedMul
  simp only
  exact wf_bin _ (wf_signExtend ha (wf_constUint _ 2 (by decide)) h)
    (wf_signExtend hb (wf_constUint _ 2 (by decide)) h) h

theorem wf_signedOp {a b : Expr} {w : Nat} (f : Expr → Expr → Nat → Expr)
    (hf : ∀ x y, x.wf = true → y.wf = true → (f x y w).wf = true)
    (ha : a.wf = true) (hb : b.wf = true) (h : WOK w) : (Tools.signedOp a b w f).wf = true := by
  unfold Tools.signedOp
  simp only
  have hu := hf _ _ (wf_abs ha (wf_width' a ha)) (wf_abs hb (wf_width' b hb))
  exact wf_boolCond (wf_negativeSignJoin ha hb) (wf_negate hu h) hu h

theorem wf_signedDiv {a b : Expr} {w : Nat} (ha : a.wf = true) (hb : b.wf = true) (h : WOK w) :
    (Tools.signedDiv a b w).wf = true := by
  unfold Tools.signedDiv
  exact wf_boolCond hb (wf_signedOp _ (fun x y hx hy => wf_bin _ hx hy h) ha hb h) (wf_ones h) h

theorem wf_rshA {e s : Expr} {w : Nat} (he : e.wf = true) (hs : s.wf = true) (h : WOK w) :
    (Tools.rshA e s w).wf = true := by
  unfold Tools.rshA
  simp only
  have ho := wf_ones h
  have hr : (Expr.binary .rsh e s w).wf = true := wf_bin _ he hs h
  exact wf_lessE he (wf_signBitMask h) hr (wf_bitOr hr (wf_sub ho (wf_bin _ ho hs h) h) h) h

theorem wf_eq {a b t f : Expr} {w : Nat} (ha : a.wf = true) (hb : b.wf = true) (ht : t.wf = true)
    (hf : f.wf = true) (h : WOK w) : (Tools.eq a b t f w).wf = true :=
  wf_lessE (wf_sub ha hb h) wf_one' ht hf h

theorem wf_lts {a b t f : Expr} {w : Nat} (ha : a.wf = true) (hb : b.wf = true) (ht : t.wf = true)
    (hf : f.wf = true) (h : WOK w) : (Tools.lts a b t f w).wf = true := by
  unfold Tools.lts
  simp only
  have hm := wf_signBitMask h
  have s1 := wf_bitAnd ha hm h
  have s2 := wf_bitAnd hb hm h
  have a1 := wf_absMask ha hm
  have a2 := wf_absMask hb hm
  exact wf_lessE wf_zero' (wf_bitXor s1 s2 h) (wf_lessE s1 s2 hf ht h)
    (wf_lessE wf_zero' s1 (wf_lessE a2 a1 ht hf h) (wf_lessE a1 a2 ht hf h) h) h

/-! ### helpers of `opcodes.go` -/

/-- a binary expression builder keeps well-formedness -/
def BinFWF (f : BinF) : Prop := ∀ a b w, a.wf = true → b.wf = true → WOK w → (f a b w).wf = true
def CondFWF (f : CondF) : Prop :=
  ∀ a b t e w, a.wf = true → b.wf = true → t.wf = true → e.wf = true → WOK w → (f a b t e w).wf = true

@[simp] theorem binFWF_binOp (op : BinOp) : BinFWF (binOpFunc op) := fun _ _ _ ha hb h => wf_bin op ha hb h
@[simp] theorem binFWF_sub : BinFWF Tools.sub := fun _ _ _ ha hb h => wf_sub ha hb h
@[simp] theorem binFWF_bitAnd : BinFWF Tools.bitAnd := fun _ _ _ ha hb h => wf_bitAnd ha hb h
@[simp] theorem binFWF_bitOr : BinFWF Tools.bitOr := fun _ _ _ ha hb h => wf_bitOr ha hb h
@[simp] theorem binFWF_bitXor : BinFWF Tools.bitXor := fun _ _ _ ha hb h => wf_bitXor ha hb h
@[simp] theorem binFWF_rshA : BinFWF Tools.rshA := fun _ _ _ ha hb h => wf_rshA ha hb h
@[simp] theorem condFWF_less : CondFWF lessFunc := fun _ _ _ _ _ ha hb ht hf h => wf_lessE ha hb ht hf h
@[simp] theorem condFWF_lts : CondFWF Tools.lts := fun _ _ _ _ _ ha hb ht hf h => wf_lts ha hb ht hf h
@[simp] theorem condFWF_eq : CondFWF Tools.eq := fun _ _ _ _ _ ha hb ht hf h => wf_eq ha hb ht hf h
@[simp] theorem binFWF_atomicMinMax (f : CondF) (neg : Bool) (hf : CondFWF f) : BinFWF (atomicMinMax f neg) := by
  intro a b w ha hb h
  unfold atomicMinMax
  split
  · exact hf _ _ _ _ _ ha hb hb ha h
  · exact hf _ _ _ _ _ ha hb ha hb h

theorem wf_regImmOp {f : BinF} (hf : BinFWF f) (t : ImmType) (i : Ins) {w : Nat} (h : WOK w) :
    (regImmOp f t i w).wf = true := hf _ _ _ (wf_regLoad _ i w h) (wf_immConst t i w h) h

theorem wf_reg2Op {f : BinF} (hf : BinFWF f) (i : Ins) {w : Nat} (h : WOK w) : (reg2Op f i w).wf = true :=
  hf _ _ _ (wf_regLoad _ i w h) (wf_regLoad _ i w h) h

theorem wf_maskedRegOp {f : BinF} (hf : BinFWF f) (i : Ins) (bits : Nat) {w : Nat} (h : WOK w) :
    (maskedRegOp f i bits w).wf = true :=
  hf _ _ _ (wf_regLoad _ i w h) (wf_maskBits (wf_regLoad _ i w h) h) h

theorem wf_regImmShift {f : BinF} (hf : BinFWF f) (i : Ins) (bits : Nat) {w : Nat} (h : WOK w) :
    (regImmShift f i bits w).wf = true :=
  hf _ _ _ (wf_regLoad _ i w h) (wf_constFromInt 4 _ (by decide)) h

theorem wf_sext {e : Expr} (he : e.wf = true) (sb : Nat) {w : Nat} (h : WOK w) : (sext e sb w).wf = true :=
  wf_signExtend he (wf_constFromUint 1 sb (by decide)) h

theorem wf_sext32To64 {e : Expr} (he : e.wf = true) : (sext32To64 e).wf = true := wf_sext he 31 (by decide)

theorem wf_jumpTarget (i : Ins) {w : Nat} (h : WOK w) : (jumpTarget i w).wf = true :=
  wf_bitAnd (wf_regImmOp (binFWF_binOp .add) .I i h) (wf_constFromInt w _ h) h

theorem wf_signedRem {a b : Expr} {w : Nat} (ha : a.wf = true) (hb : b.wf = true) (h : WOK w) :
    (signedRem a b w).wf = true := by
  unfold signedRem
  exact wf_sub ha (wf_bin _ (wf_signedDiv ha hb h) hb h) h

theorem wf_mulhsu {a b : Expr} {w : Nat} (ha : a.wf = true) (hb : b.wf = true) (h : WOK w) (h2 : WOK (2 * w)) :
    (mulhsu a b w).wf = true := by
  unfold mulhsu
  simp only
  exact wf_newWidthGadget (wf_bin _ (wf_bin _ (wf_signExtend ha (wf_constFromUint 2 _ (by decide)) h2) hb h2)
    (wf_constFromUint 2 _ (by decide)) h2) h

theorem wf_memLoad {a : Expr} (ha : a.wf = true) {w : Nat} (h : WOK w) : (memLoad a w).wf = true := by
  unfold memLoad; rw [wf_memLoad_iff]; exact ⟨h, ha⟩

/-! ### optional effects -/

/-- every expression of the effect is well formed -/
def EffWF : Effect → Prop
  | .memStore v _ a _ => v.wf = true ∧ a.wf = true
  | .regStore v _ _ => v.wf = true

/-- the optional effect, if present, has well-formed expressions -/
def OWF (o : Option Effect) : Prop := ∀ ef, o = some ef → EffWF ef

@[simp] theorem owf_none : OWF none := fun _ h => nomatch h

theorem owf_regStore {e : Expr} (he : e.wf = true) (i : Ins) (W : Nat) : OWF (Riscv.regStore e i W) := by
  intro ef h
  unfold Riscv.regStore at h
  simp only at h
  split at h
  · cases h
  · cases h; exact he

theorem owf_memStore {v a : Expr} (hv : v.wf = true) (ha : a.wf = true) (n : Nat) :
    OWF (some (Riscv.memStore v a n)) := by
  intro ef h
  cases h
  exact ⟨hv, ha⟩

theorem owf_effRegStore {v : Expr} (hv : v.wf = true) (k : String) (W : Nat) :
    OWF (some (Effect.regStore v k W)) := by
  intro ef h
  cases h
  exact hv

theorem owf_branchCmp {f : CondF} (hf : CondFWF f) (b : Bool) (i : Ins) {W : Nat} (h : WOK W) :
    OWF (some (branchCmp f b i W)) := by
  intro ef he
  cases he
  unfold branchCmp
  simp only
  split <;>
    exact hf _ _ _ _ _ (wf_regLoad _ i W h) (wf_regLoad _ i W h) (by first | exact wf_addrImmConst _ i W h | exact wf_addrConst _ W h)
      (by first | exact wf_addrConst _ W h | exact wf_addrImmConst _ i W h) h

/-- every optional effect of the list is well formed -/
def AllOWF (l : List (Option Effect)) : Prop := ∀ o ∈ l, OWF o

theorem allOWF_atomicOp {f : BinF} (hf : BinFWF f) (i : Ins) {w : Nat} (h : WOK w) : AllOWF (atomicOp f i w) := by
  unfold atomicOp
  simp only
  have hl := wf_memLoad (wf_regLoad .rs1 i w h) h
  intro o ho
  simp only [List.mem_cons, List.not_mem_nil, or_false] at ho
  rcases ho with rfl | rfl
  · exact owf_regStore hl i w
  · exact owf_memStore (hf _ _ _ hl (wf_regLoad _ i w h) h) (wf_regLoad _ i w h) w

theorem allOWF_atomicOpWidth {f : BinF} (hf : BinFWF f) (i : Ins) {aw ow : Nat} (ha : WOK aw) (ho : WOK ow) :
    AllOWF (atomicOpWidth f i aw ow) := by
  unfold atomicOpWidth
  simp only
  have hl := wf_memLoad (wf_regLoad .rs1 i aw ha) ho
  intro o hmem
  simp only [List.mem_cons, List.not_mem_nil, or_false] at hmem
  rcases hmem with rfl | rfl
  · exact owf_regStore (wf_sext32To64 hl) i aw
  · exact owf_memStore (hf _ _ _ hl (wf_regLoad _ i ow ho) ho) (wf_regLoad _ i aw ha) ow

/-! ### the tables -/

attribute [simp] wf_bin wf_lessE wf_ones wf_bitNot wf_bitAnd wf_bitOr wf_bitXor wf_negate wf_sub wf_signBitMask
  wf_bitMask wf_maskBits wf_intNegative wf_absMask wf_abs wf_mod wf_newWidthGadget wf_bool wf_boolCond
  wf_negativeSignJoin wf_signExtend wf_signedMul wf_signedDiv wf_rshA wf_eq wf_lts wf_regImmOp wf_reg2Op
  wf_maskedRegOp wf_regImmShift wf_sext wf_sext32To64 wf_jumpTarget wf_signedRem wf_mulhsu wf_memLoad
  owf_regStore owf_memStore owf_effRegStore owf_branchCmp allOWF_atomicOp allOWF_atomicOpWidth

/-- every effect of the entry, for every instruction word, has well-formed expressions -/
def EntryWF (e : Entry) : Prop := ∀ i, AllOWF (e.effects i)

theorem allOWF_nil : AllOWF [] := fun _ h => nomatch h
@[simp] theorem allOWF_cons (o : Option Effect) (l : List (Option Effect)) :
    AllOWF (o :: l) ↔ OWF o ∧ AllOWF l := by
  unfold AllOWF
  simp
@[simp] theorem allOWF_nil_iff : AllOWF [] ↔ True := by simp [AllOWF]

theorem wf_integer64 : ∀ e ∈ Gen.integer64, EntryWF e := by
  unfold Gen.integer64
  simp only [List.forall_mem_cons, List.not_mem_nil, false_imp_iff, implies_true, and_true]
  simp (config := { maxDischargeDepth := 12 }) [EntryWF]

theorem wf_mul64 : ∀ e ∈ Gen.mul64, EntryWF e := by
  unfold Gen.mul64
  simp only [List.forall_mem_cons, List.not_mem_nil, false_imp_iff, implies_true, and_true]
  simp (config := { maxDischargeDepth := 12 }) [EntryWF]

theorem wf_atomic64 : ∀ e ∈ Gen.atomic64, EntryWF e := by
  unfold Gen.atomic64
  simp only [List.forall_mem_cons, List.not_mem_nil, false_imp_iff, implies_true, and_true]
  simp (config := { maxDischargeDepth := 12 }) [EntryWF]

end Mltwist.Lemmas.RiscvLift
