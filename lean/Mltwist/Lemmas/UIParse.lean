import Mltwist.Model.UI
import Mltwist.Lemmas.NumParse
/-
C22, part 1: the command maps of the three modes and `UI.parseCommand`.

* `newCmdMap` succeeds for the three command tables (no duplicate key), and whatever a lookup
  returns is one of the commands of the table (`find_mem`);
* `parseCommand` never panics (after the repairs of F20 and F43), and the arguments it delivers have
  the types the command declares (`parse_shape`), so that no type assertion of an action can fail.
-/
namespace Mltwist.Lemmas.UI
open Mltwist Mltwist.UI

/-! ### command maps -/

theorem find_mem_pairs (m : CmdMap) (k : Str) (c : Command) (h : m.find k = some c) : ∃ k', (k', c) ∈ m := by
  unfold CmdMap.find at h
  cases hf : m.find? (fun p => p.1 == k) with
  | none => simp [hf] at h
  | some p =>
    simp only [hf, Option.map_some, Option.some.injEq] at h
    subst h
    exact ⟨p.1, List.mem_of_find?_eq_some hf⟩

theorem addKeys_mem (cmd : Command) (S : List Command) (hc : cmd ∈ S) :
    ∀ (ks : List Str) (m m' : CmdMap), (∀ p ∈ m, p.2 ∈ S) → addKeys cmd ks m = some m' → ∀ p ∈ m', p.2 ∈ S := by
  intro ks
  induction ks with
  | nil => intro m m' hm h; simp only [addKeys, Option.some.injEq] at h; subst h; exact hm
  | cons k ks ih =>
    intro m m' hm h
    simp only [addKeys] at h
    split at h
    · cases h
    · refine ih _ _ ?_ h
      intro p hp
      rcases List.mem_append.mp hp with hp | hp
      · exact hm p hp
      · simp only [List.mem_singleton] at hp; subst hp; exact hc

theorem addCmds_mem (S : List Command) :
    ∀ (cs : List Command) (m m' : CmdMap), (∀ c ∈ cs, c ∈ S) → (∀ p ∈ m, p.2 ∈ S) → addCmds cs m = some m' →
      ∀ p ∈ m', p.2 ∈ S := by
  intro cs
  induction cs with
  | nil => intro m m' _ hm h; simp only [addCmds, Option.some.injEq] at h; subst h; exact hm
  | cons c cs ih =>
    intro m m' hcs hm h
    simp only [addCmds] at h
    cases hk : addKeys c c.keys m with
    | none => simp [hk] at h
    | some m1 =>
      simp only [hk] at h
      exact ih m1 m' (fun x hx => hcs x (List.mem_cons_of_mem _ hx))
        (addKeys_mem c S (hcs c (by simp)) c.keys m m1 hm hk) h

/-- a lookup in the command map of a mode returns one of the commands of the mode -/
theorem find_mem (cmds : List Command) (m : CmdMap) (h : newCmdMap cmds = some m) (k : Str) (c : Command)
    (hf : m.find k = some c) : c ∈ addStandardCmds cmds := by
  obtain ⟨k', hk'⟩ := find_mem_pairs m k c hf
  exact addCmds_mem (addStandardCmds cmds) (addStandardCmds cmds) [] m (fun _ hc => hc) (by simp) h (k', c) hk'

/-- `AddMode` never fails for the three modes: their command keys are distinct -/
theorem newCmdMap_isSome (k : UI.Kind) : (newCmdMap (commandsOf k)).isSome = true := by
  cases k <;> decide

/-! ### the shape of the arguments -/

def kindOfVal : ArgVal → ArgKind
  | .num _ => .num
  | .str _ => .str
  | .addr _ => .addr

theorem parseArg_kind (k : ArgKind) (s : Str) (v : ArgVal) (h : parseArg k s = .ok v) : kindOfVal v = k := by
  cases k with
  | num =>
    simp only [parseArg] at h
    split at h
    · cases h; rfl
    · cases h
  | str => simp only [parseArg] at h; cases h; rfl
  | addr =>
    simp only [parseArg] at h
    split at h
    · cases h; rfl
    · cases h
    · cases h

theorem parseArg_no_panic (k : ArgKind) (s : Str) : parseArg k s ≠ .panic := by
  cases k with
  | num => simp only [parseArg]; split <;> simp
  | str => simp [parseArg]
  | addr =>
    simp only [parseArg]
    split
    · simp
    · simp
    · rename_i h; exact absurd h (Lemmas.NumParse.parseAddr_no_panic s)

theorem parseArgs_shape : ∀ (ks : List ArgKind) (ss : List Str) (vs : List ArgVal),
    parseArgs ks ss = .ok vs → vs.map kindOfVal = ks
  | [], _, vs, h => by simp only [parseArgs] at h; cases h; rfl
  | _ :: _, [], _, h => by simp [parseArgs] at h
  | k :: ks, s :: ss, vs, h => by
    simp only [parseArgs] at h
    cases hv : parseArg k s with
    | ok v =>
      simp only [hv] at h
      cases hr : parseArgs ks ss with
      | ok vs' =>
        simp only [hr] at h
        cases h
        simp [parseArg_kind k s v hv, parseArgs_shape ks ss vs' hr]
      | err => simp [hr] at h
      | panic => simp [hr] at h
    | err => simp [hv] at h
    | panic => simp [hv] at h

theorem parseArgs_no_panic : ∀ (ks : List ArgKind) (ss : List Str), ks.length ≤ ss.length →
    parseArgs ks ss ≠ .panic
  | [], _, _ => by simp [parseArgs]
  | _ :: _, [], h => by simp at h
  | k :: ks, s :: ss, h => by
    simp only [parseArgs]
    cases hv : parseArg k s with
    | ok v =>
      simp only
      cases hr : parseArgs ks ss with
      | ok vs' => simp
      | err => simp
      | panic => exact absurd hr (parseArgs_no_panic ks ss (by simpa using h))
    | err => simp
    | panic => exact absurd hv (parseArg_no_panic k s)

/-- the arguments have the declared types, plus one string if optional words were joined -/
def ArgsFit (cmd : Command) (args : List ArgVal) : Prop :=
  args.map kindOfVal = cmd.args ∨ (cmd.opt = true ∧ args.map kindOfVal = cmd.args ++ [.str])

/-- `parseCommand` (repaired) never panics -/
theorem parseCommand_no_panic (m : CmdMap) (str : Str) : parseCommand m str ≠ .panic := by
  unfold parseCommand parseCommandWith
  split
  · simp
  · split
    · simp
    · rename_i cmd _
      split
      · simp
      · rename_i hlen
        split
        · simp
        · rename_i hp
          exact absurd hp (parseArgs_no_panic _ _ (by omega))
        · simp only [Bool.false_eq_true, ↓reduceIte]
          split
          · simp
          · split <;> simp

/-- what `parseCommand` delivers: a command found in the map under the first word, with fitting arguments -/
theorem parseCommand_ok (m : CmdMap) (str : Str) (cmd : Command) (args : List ArgVal)
    (h : parseCommand m str = .ok cmd args) : (∃ k, m.find k = some cmd) ∧ ArgsFit cmd args := by
  unfold parseCommand parseCommandWith at h
  split at h
  · simp at h
  · rename_i cmdStr parts _
    split at h
    · cases h
    · rename_i c hfind
      split at h
      · cases h
      · split at h
        · cases h
        · cases h
        · rename_i vs hvs
          have hshape := parseArgs_shape _ _ _ hvs
          simp only [Bool.false_eq_true, ↓reduceIte] at h
          split at h
          · cases h
            exact ⟨⟨cmdStr, hfind⟩, Or.inl hshape⟩
          · split at h
            · cases h
            · rename_i hopt
              cases h
              refine ⟨⟨cmdStr, hfind⟩, Or.inr ⟨by simpa using hopt, ?_⟩⟩
              simp [hshape, kindOfVal]

/-! ### F20 and F43 in the pinned code -/

/-- F20: a line of spaces makes the pinned `parseCommand` panic, whatever the mode -/
theorem pinned_F20 (m : CmdMap) (n : Nat) : parseCommandPinned m (List.replicate n 0x20) = .panic := by
  have : ∀ (n : Nat) (cur : Str), cur = [] → dropEmptyStrs (splitLoop (List.replicate n 0x20) cur) = [] := by
    intro n
    induction n with
    | zero => intro cur hc; subst hc; simp [splitLoop, dropEmptyStrs]
    | succ n ih =>
      intro cur hc; subst hc
      simp only [List.replicate_succ, splitLoop, ↓reduceIte, List.reverse_nil, dropEmptyStrs]
      rw [List.filter_cons_of_neg (by simp)]
      exact ih [] rfl
  simp [parseCommandPinned, parseCommandWith, split, this n [] rfl]

end Mltwist.Lemmas.UI
