import Mltwist.Lemmas.ComposeListing
/-
COMPOSITION, part 5: histories of disassembler commands over the REAL dependency model.

* `nextDeps c st cmd`   the real state after the command `cmd` issued in listing state `st` at real state `c`:
                        `move f t` performs `code.Move(fromBlock, toBlock)` or
                        `code.Index(block).Move(fromIns, toIns)` with the block/instruction numbers the listing
                        reads off the rows `f`, `t` (exactly the case analysis of `Lines.Move`); every other
                        command leaves the code alone;
* `step_tracks`         COUPLING: if the listing state shows the real state (`st.code = listingOf info c`), then
                        after any command executed with the operations at `c` it shows `nextDeps c st cmd`;
* `RSt`, `realStep`, `realRun`   the disassembler mode over the real model: a pair (real code, listing state);
* `realRun_spec`        after any history: no panic, C07's invariant on the real code, the same instructions and
                        edges as initially (`SameCode`), the coupling, and the listing invariant of C23 — i.e. the
                        listing is the fresh rendering of the view of the CURRENT real code.
-/
namespace Mltwist.Lemmas.Compose
open Mltwist Mltwist.Listing Mltwist.Listing.Spec Mltwist.Lemmas.Deps Mltwist.Lemmas.Listing

-- `movedDeps`, `nextDeps`: `Model/Compose.lean`

/-! ### the real operations are steps of C07's histories -/

theorem realMoveIns_step {c c' : Deps.Code} {k s d : Nat} (h : realMoveIns c k s d = some c') :
    c' = (c.step (.mv k s d)).1 := by
  unfold realMoveIns at h
  simp only [Deps.Code.step]
  cases hi : c.index k with
  | none => rw [hi] at h; cases h
  | some b =>
    rw [hi] at h
    simp only at h ⊢
    cases hm : b.move s d with
    | error e => rw [hm] at h; cases h
    | ok b' => rw [hm] at h; cases h; rfl

theorem realMoveBlock_step {c c' : Deps.Code} {s d : Nat} (h : realMoveBlock c s d = some c') :
    c' = (c.step (.bmv s d)).1 := by
  unfold realMoveBlock at h
  simp only [Deps.Code.step]
  cases hm : c.move s d with
  | error e => rw [hm] at h; cases h
  | ok c'' => rw [hm] at h; cases h; rfl

theorem realMoveBlock_getD_inv {c : Deps.Code} (hc : CInv c) (fb tb : Nat) :
    CInv ((realMoveBlock c fb tb).getD c) ∧ SameCode c ((realMoveBlock c fb tb).getD c) := by
  cases hm : realMoveBlock c fb tb with
  | none => exact ⟨hc, SameCode.refl c⟩
  | some c' => rw [Option.getD_some, realMoveBlock_step hm]; exact hc.step _

theorem realMoveIns_getD_inv {c : Deps.Code} (hc : CInv c) (fb fi ti : Nat) :
    CInv ((realMoveIns c fb fi ti).getD c) ∧ SameCode c ((realMoveIns c fb fi ti).getD c) := by
  cases hm : realMoveIns c fb fi ti with
  | none => exact ⟨hc, SameCode.refl c⟩
  | some c' => rw [Option.getD_some, realMoveIns_step hm]; exact hc.step _

theorem movedDeps_inv {c : Deps.Code} (hc : CInv c) (rf rt : Option Row) :
    CInv (movedDeps c rf rt) ∧ SameCode c (movedDeps c rf rt) := by
  unfold movedDeps
  repeat' split
  all_goals first
    | exact ⟨hc, SameCode.refl c⟩
    | exact realMoveBlock_getD_inv hc _ _
    | exact realMoveIns_getD_inv hc _ _ _

/-- the next real state satisfies C07's invariant and has the same instructions, edges and block ranges -/
theorem nextDeps_inv {c : Deps.Code} (hc : CInv c) (st : St) (cmd : Cmd) :
    CInv (nextDeps c st cmd) ∧ SameCode c (nextDeps c st cmd) := by
  cases cmd with
  | move f t =>
    simp only [nextDeps]
    split
    · exact ⟨hc, SameCode.refl c⟩
    · exact movedDeps_inv hc _ _
  | _ => exact ⟨hc, SameCode.refl c⟩

/-! ### coupling -/

/-- `Lines.Move` with the operations at `c` on the view of `c`: the code afterwards is the view of the real
successor -/
theorem move_tracks (info : Info) (c : Deps.Code) (l : Lines) (f t : Nat) (r : MoveRes)
    (h : l.move (opsAt info c) (listingOf info c) f t = some r) :
    r.code = listingOf info (movedDeps c ((l.lines[f]?).map rowOf) ((l.lines[t]?).map rowOf)) := by
  simp only [Lines.move, Lines.moveWith] at h
  cases hF : l.lines[f]? with
  | none => simp [hF] at h
  | some a =>
    cases hT : l.lines[t]? with
    | none => simp [hF, hT] at h
    | some b =>
      simp only [hF, hT, Option.map_some, movedDeps, rowOf] at h ⊢
      cases hb1 : a.block with
      | none => simp only [hb1] at h ⊢; cases h; rfl
      | some fb =>
        cases hb2 : b.block with
        | none => simp only [hb1, hb2] at h ⊢; cases h; rfl
        | some tb =>
          cases hi1 : a.instr with
          | none =>
            cases hi2 : b.instr with
            | some ti => simp only [hb1, hb2, hi1, hi2] at h ⊢; cases h; rfl
            | none =>
              simp only [hb1, hb2, hi1, hi2, opsAt_moveBlock] at h ⊢
              cases hm : realMoveBlock c fb tb with
              | none => simp only [hm, Option.map_none] at h ⊢; cases h; rfl
              | some c' => simp only [hm, Option.map_some, if_true] at h ⊢; cases h; rfl
          | some fi =>
            cases hi2 : b.instr with
            | none => simp only [hb1, hb2, hi1, hi2] at h ⊢; cases h; rfl
            | some ti =>
              simp only [hb1, hb2, hi1, hi2] at h ⊢
              by_cases hne : fb ≠ tb
              · rw [if_pos hne] at h
                cases h
                rw [if_neg hne]
              · rw [if_neg hne] at h
                have heq : fb = tb := by omega
                rw [if_pos heq]
                split at h
                · cases h
                · rw [opsAt_moveIns] at h
                  cases hm : realMoveIns c fb fi ti with
                  | none => simp only [hm, Option.map_none] at h ⊢; cases h; rfl
                  | some c' =>
                    simp only [hm, Option.map_some] at h ⊢
                    split at h
                    · cases h
                    · cases h; rfl

theorem setCursor_code (st : St) (v : Int) : (setCursor st v).2.code = st.code := by
  unfold setCursor
  split <;> rfl

/-- `move f t` with the operations at `c`, in a listing state that shows `c` -/
theorem cmdMove_tracks (info : Info) (c : Deps.Code) (st : St) (hinv : Inv st)
    (hcode : st.code = listingOf info c) (f t : Nat) (s : Status) (st' : St)
    (h : cmdMove (opsAt info c) st f t = some (s, st')) :
    st'.code = listingOf info (nextDeps c st (.move f t)) := by
  unfold cmdMove at h
  simp only [nextDeps]
  by_cases hr : f ≥ st.lines.len ∨ t ≥ st.lines.len
  · rw [if_pos hr] at h ⊢
    cases h
    exact hcode
  · rw [if_neg hr] at h ⊢
    obtain ⟨l0, h0, r0, _, _, _⟩ := unmarkAll_spec st.lines hinv.marks
    rw [h0] at h
    simp only at h
    have hrows : ∀ j : Nat, (l0.lines[j]?).map rowOf = (st.lines.lines[j]?).map rowOf := by
      intro j
      have := congrArg (fun (x : List Row) => x[j]?) r0
      simpa only [shown, List.getElem?_map] using this
    rw [hcode] at h
    cases hm : l0.move (opsAt info c) (listingOf info c) f t with
    | none => rw [hm] at h; cases h
    | some r =>
      rw [hm] at h
      simp only at h
      have htr := move_tracks info c l0 f t r hm
      rw [hrows f, hrows t] at htr
      cases he : r.err with
      | some e =>
        rw [he] at h
        simp only at h
        cases h2 : markMove r.lines f t true with
        | none => rw [h2] at h; cases h
        | some l2 => rw [h2] at h; cases h; exact htr
      | none =>
        rw [he] at h
        simp only at h
        cases h2 : markMove r.lines f t false with
        | none => rw [h2] at h; cases h
        | some l2 => rw [h2] at h; cases h; exact htr

/-- COUPLING.  In a listing state that satisfies the listing invariant and shows the real state `c`, every command
executed with the operations at `c` (does not panic and) leads to a listing state that shows `nextDeps c st cmd` -/
theorem step_tracks (info : Info) {c : Deps.Code} (hc : CInv c) (st : St) (hinv : Inv st)
    (hcode : st.code = listingOf info c) (cmd : Cmd) (hv : ValidCmd st.lines.lines.length cmd) :
    ∃ s st', step (opsAt info c) st cmd = some (s, st') ∧ Keeps st st' ∧ (Failed s → Unchanged st st') ∧
      st'.code = listingOf info (nextDeps c st cmd) := by
  obtain ⟨s, st', h, k, hu⟩ := step_spec (opsAt info c) (opsAt_lawful info hc) st hinv cmd hv
  refine ⟨s, st', h, k, hu, ?_⟩
  cases cmd with
  | move f t => exact cmdMove_tracks info c st hinv hcode f t s st' h
  | down n =>
    simp only [step, Option.some.injEq] at h
    have e := setCursor_code st (wrap64 (st.cursor.value + n))
    rw [h] at e
    exact e.trans hcode
  | up n =>
    simp only [step, Option.some.injEq] at h
    have e := setCursor_code st (wrap64 (st.cursor.value + -(n : Int)))
    rw [h] at e
    exact e.trans hcode
  | bounds n =>
    obtain ⟨s2, st2, h2, _, _, _, hc2⟩ := cmdBounds_spec st hinv n
    simp only [step] at h
    rw [h2] at h
    cases h
    rw [hc2]; exact hcode
  | find ms =>
    obtain ⟨s2, st2, h2, k2, _⟩ := find_spec (opsAt info c) st hinv ms (fun v hv' => by subst hv'; exact hv)
    rw [h2] at h
    cases h
    rw [k2.code]; exact hcode
  | goto n =>
    obtain ⟨s2, st2, h2, k2, _⟩ := goto_spec (opsAt info c) st hinv n
    rw [h2] at h
    cases h
    rw [k2.code]; exact hcode
  | entrypoint =>
    obtain ⟨s2, st2, h2, k2, _⟩ := entry_sound (opsAt info c) st hinv
    rw [h2] at h
    cases h
    rw [k2.code]; exact hcode

/-! ### the disassembler mode over the real model -/

/-- the real code and the listing state that shows it -/
structure RSt where
  deps : Deps.Code
  st : St

/-- `disassemble.New(code, _)` -/
def RSt.init (info : Info) (c : Deps.Code) : RSt := ⟨c, St.init (listingOf info c)⟩

/-- one command of the disassembler mode on the real model; `none` = the program panics -/
def realStep (info : Info) (r : RSt) (cmd : Cmd) : Option (Status × RSt) :=
  match step (opsAt info r.deps) r.st cmd with
  | none => none
  | some (s, st') => some (s, ⟨nextDeps r.deps r.st cmd, st'⟩)

/-- a history of commands on the real model -/
def realRun (info : Info) : RSt → List Cmd → Option RSt
  | r, [] => some r
  | r, c :: cs =>
    match realStep info r c with
    | none => none
    | some (_, r') => realRun info r' cs

/-- the invariant of the composed state -/
structure RInv (info : Info) (r : RSt) : Prop where
  deps : CInv r.deps
  listing : Inv r.st
  coupled : r.st.code = listingOf info r.deps

theorem rinv_init (info : Info) {c : Deps.Code} (hc : CInv c) : RInv info (RSt.init info c) :=
  ⟨hc, inv_init _ (listingOf_wf info hc), rfl⟩

/-- one command on the real model: no panic; the invariants and the coupling are kept; the real code keeps its
instructions, edges and block ranges; a command that does not report success changes nothing but marks -/
theorem realStep_spec (info : Info) (r : RSt) (hr : RInv info r) (cmd : Cmd)
    (hv : ValidCmd r.st.lines.lines.length cmd) :
    ∃ s r', realStep info r cmd = some (s, r') ∧ RInv info r' ∧ SameCode r.deps r'.deps ∧
      r'.st.lines.lines.length = r.st.lines.lines.length ∧ (Failed s → Unchanged r.st r'.st) := by
  obtain ⟨s, st', h, k, hu, htr⟩ := step_tracks info hr.deps r.st hr.listing hr.coupled cmd hv
  obtain ⟨hc', hsame⟩ := nextDeps_inv hr.deps r.st cmd
  exact ⟨s, ⟨nextDeps r.deps r.st cmd, st'⟩, by simp only [realStep, h], ⟨hc', k.inv, htr⟩, hsame, k.length, hu⟩

theorem realRun_spec (info : Info) (r : RSt) (hr : RInv info r) (cmds : List Cmd)
    (hv : ∀ c ∈ cmds, ValidCmd r.st.lines.lines.length c) :
    ∃ r', realRun info r cmds = some r' ∧ RInv info r' ∧ SameCode r.deps r'.deps ∧
      r'.st.lines.lines.length = r.st.lines.lines.length := by
  induction cmds generalizing r with
  | nil => exact ⟨r, rfl, hr, SameCode.refl _, rfl⟩
  | cons c cs ih =>
    obtain ⟨s, r1, h1, i1, s1, l1, _⟩ := realStep_spec info r hr c (hv c (by simp))
    obtain ⟨r2, h2, i2, s2, l2⟩ := ih r1 i1 (fun c' hc' => by rw [l1]; exact hv c' (by simp [hc']))
    exact ⟨r2, by simp only [realRun, h1, h2], i2, s1.trans s2, l2.trans l1⟩

end Mltwist.Lemmas.Compose
