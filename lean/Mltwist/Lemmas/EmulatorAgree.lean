import Mltwist.Lemmas.EmulatorRun
import Mltwist.Spec.RiscvLift
/-
Emulator (C03), part 10: soundness of evaluation with respect to the reference semantics of the IR.
`Agree p code ρ s`: the emulator state `s` together with the not-yet-asked provider answers represents
the valuation `ρ` (on every width the code can observe a register with).  Under `Agree`:
* the constant `eval` returns for an expression of the code is `Expr.eval` under `ρ`
  (`valBytes_eval`: evaluation of the closed substituted expression = value under the induced valuation);
* provider fills preserve `Agree` (`Fill.agree`);
* applying the evaluated effects is `Spec.Lift.Env.applyEffects` (`Applied.agree`).
-/
namespace Mltwist.Lemmas.Emulator
open Mltwist Mltwist.State Mltwist.Overlay Mltwist.Emulator Mltwist.Spec.Overlay Mltwist.Interval
open Mltwist.Lemmas.State (Good assocGet_set_same assocGet_set_other)
open Mltwist.Spec.Sparse (sumBytes)
open Mltwist.Lemmas.Transform (trunc_trunc_of_le trunc_of_lt trunc_lt)

/-! ### the widths the code observes registers with -/

theorem foldl_max_ge {α : Type} (f : α → Nat) : ∀ (l : List α) (m0 : Nat),
    m0 ≤ l.foldl (fun m x => max m (f x)) m0 ∧ ∀ x ∈ l, f x ≤ l.foldl (fun m x => max m (f x)) m0
  | [], m0 => ⟨Nat.le_refl _, fun _ h => (nomatch h)⟩
  | y :: ys, m0 => by
    obtain ⟨h1, h2⟩ := foldl_max_ge f ys (max m0 (f y))
    refine ⟨Nat.le_trans (Nat.le_max_left _ _) h1, fun x hx => ?_⟩
    rcases List.mem_cons.1 hx with h | h
    · subst h; exact Nat.le_trans (Nat.le_max_right _ _) h1
    · exact h2 x h

theorem exprRegWidth_ge : ∀ (e : Expr) (kw : String × Nat), kw ∈ regLoads e → kw.2 ≤ exprRegWidth kw.1 e
  | .const _, _, h => by simp [regLoads] at h
  | .regLoad k w, kw, h => by
    simp only [regLoads, List.mem_singleton] at h
    subst h
    simp [exprRegWidth]
  | .memLoad _ a _, kw, h => by
    simp only [regLoads] at h
    simpa [exprRegWidth] using exprRegWidth_ge a kw h
  | .binary _ a b _, kw, h => by
    simp only [regLoads, List.mem_append] at h
    simp only [exprRegWidth]
    rcases h with h | h
    · exact Nat.le_trans (exprRegWidth_ge a kw h) (Nat.le_max_left _ _)
    · exact Nat.le_trans (exprRegWidth_ge b kw h) (Nat.le_max_right _ _)
  | .less a b t f _, kw, h => by
    simp only [regLoads, List.mem_append] at h
    simp only [exprRegWidth]
    rcases h with ((h | h) | h) | h
    · exact Nat.le_trans (exprRegWidth_ge a kw h) (Nat.le_trans (Nat.le_max_left _ _) (Nat.le_max_left _ _))
    · exact Nat.le_trans (exprRegWidth_ge b kw h) (Nat.le_trans (Nat.le_max_right _ _) (Nat.le_max_left _ _))
    · exact Nat.le_trans (exprRegWidth_ge t kw h) (Nat.le_trans (Nat.le_max_left _ _) (Nat.le_max_right _ _))
    · exact Nat.le_trans (exprRegWidth_ge f kw h) (Nat.le_trans (Nat.le_max_right _ _) (Nat.le_max_right _ _))

/-- every register load of the expression is at most as wide as the code's width of the register -/
def RegsLe (code : CodeView) (e : Expr) : Prop := ∀ kw ∈ regLoads e, kw.2 ≤ code.regWidth kw.1

theorem effectRegWidth_ge {ef : Effect} {e : Expr} (he : e ∈ evalOrder ef) (kw : String × Nat)
    (h : kw ∈ regLoads e) : kw.2 ≤ effectRegWidth kw.1 ef := by
  cases ef with
  | regStore v k w =>
    simp only [evalOrder, List.mem_singleton] at he
    subst he
    exact Nat.le_trans (exprRegWidth_ge _ kw h) (Nat.le_max_right _ _)
  | memStore v k a w =>
    simp only [evalOrder, List.mem_cons, List.not_mem_nil, or_false] at he
    rcases he with he | he
    · subst he; exact Nat.le_trans (exprRegWidth_ge _ kw h) (Nat.le_max_right _ _)
    · subst he; exact Nat.le_trans (exprRegWidth_ge _ kw h) (Nat.le_max_left _ _)

theorem regsLe_of_code {code : CodeView} {ins : Ins} (hi : ins ∈ code) {ef : Effect} (hef : ef ∈ ins.effects)
    {e : Expr} (he : e ∈ evalOrder ef) : RegsLe code e := by
  intro kw hk
  have h1 := effectRegWidth_ge he kw hk
  have h2 := (foldl_max_ge (effectRegWidth kw.1) ins.effects 0).2 ef hef
  have h3 := (foldl_max_ge (fun i : Ins => effectsRegWidth kw.1 i.effects) code 0).2 ins hi
  exact Nat.le_trans h1 (Nat.le_trans h2 h3)

/-- the register stores of the code are at most as wide as the code's width of the register -/
theorem storeWidth_le {code : CodeView} {ins : Ins} (hi : ins ∈ code) {v : Expr} {k : String} {w : Nat}
    (hef : Effect.regStore v k w ∈ ins.effects) : w ≤ code.regWidth k := by
  have h1 : w ≤ effectRegWidth k (.regStore v k w) := by
    show w ≤ max (if k = k then w else 0) (exprRegWidth k v)
    rw [if_pos rfl]; exact Nat.le_max_left _ _
  have h2 := (foldl_max_ge (effectRegWidth k) ins.effects 0).2 _ hef
  have h3 := (foldl_max_ge (fun i : Ins => effectsRegWidth k i.effects) code 0).2 ins hi
  exact Nat.le_trans h1 (Nat.le_trans h2 h3)

/-! ### representation of a valuation -/

/-- the state `s` and the provider `p` (for what `s` does not know) represent the valuation `ρ`, on the
widths the code `code` observes -/
structure Agree (p : Provider) (code : CodeView) (ρ : Env) (s : State) : Prop where
  regKnown : ∀ k c, assocGet k s.regs = some (.const c) → ∀ w, w ≤ code.regWidth k →
    trunc w (leToNat c) = trunc w (ρ.reg k)
  regUnknown : ∀ k, assocGet k s.regs = none →
    leToNat (Const.withWidth (p.reg k (code.regWidth k)) (code.regWidth k)) = trunc (code.regWidth k) (ρ.reg k)
  memKnown : ∀ key x b, s.mems.abs key x = some b → ∀ ρ', b ρ' = ρ.mem key x % 256
  memUnknown : ∀ key a w i, i < w → s.mems.abs key (a + i) = none →
    leToNat (Const.withWidth (p.mem key a w) w) / 256 ^ i % 256 = ρ.mem key (a + i) % 256

/-- the register requests of the list are at the code's width of the register -/
def AtCodeWidth (code : CodeView) (l : List Req) : Prop := ∀ k w, Req.reg k w ∈ l → w = code.regWidth k

theorem Fill.agree {p : Provider} {code : CodeView} {ρ : Env} {s s' : State} {l : List Req}
    (hf : Fill p s l s') (hi : Inv s) (ha : Agree p code ρ s) (hw : AtCodeWidth code l) : Agree p code ρ s' := by
  induction hf with
  | nil s => exact ha
  | @reg s s' l key w hn hf' ih =>
    apply ih (inv_fillReg hi key w) _ (fun k w' h => hw k w' (List.mem_cons_of_mem _ h))
    have hwk : w = code.regWidth key := hw key w (List.mem_cons_self ..)
    have hst : ∀ k, assocGet k (fillReg p s key w).regs =
        if k = key then some (.const (Const.withWidth (p.reg key w) w)) else assocGet k s.regs := by
      intro k
      show assocGet k (RegMap.store _ _ _ _) = _
      unfold RegMap.store
      by_cases hk : k = key
      · subst hk
        rw [assocGet_set_same, if_pos rfl, setWidth_const, cw]
        simp [withWidth_length]
      · rw [assocGet_set_other key k _ hk, if_neg hk]
    refine ⟨fun k c hk w' hw' => ?_, fun k hk => ?_, ha.memKnown, ha.memUnknown⟩
    · rw [hst] at hk
      by_cases hkk : k = key
      · subst hkk
        rw [if_pos rfl] at hk
        cases hk
        rw [hwk, ha.regUnknown k hn]
        exact trunc_trunc_of_le hw' _
      · rw [if_neg hkk] at hk
        exact ha.regKnown k c hk w' hw'
    · rw [hst] at hk
      by_cases hkk : k = key
      · subst hkk; rw [if_pos rfl] at hk; cases hk
      · rw [if_neg hkk] at hk; exact ha.regUnknown k hk
  | @mem s s' l key a w mems' hd habs hs hf' ih =>
    apply ih (inv_store hi hd (withWidth_byteConst _ hd) hs) _ (fun k w' h => hw k w' (List.mem_cons_of_mem _ h))
    obtain ⟨m2, g1, _, g3, g4⟩ := good_store hi.good key a (.const (Const.withWidth (p.mem key a w) w)) w hd
    rw [hs] at g1
    cases g1
    have habs' : ∀ key' x, mems'.abs key' x =
        if key' = key ∧ a ≤ x ∧ x < a + w
        then some (fun _ => leToNat (Const.withWidth (p.mem key a w) w) / 256 ^ (x - a) % 256)
        else s.mems.abs key' x := by
      intro key' x
      by_cases hk : key' = key
      · subst hk
        rw [g3]
        unfold AbsMem.store
        by_cases hr : a ≤ x ∧ x < a + w
        · rw [if_pos hr, if_pos ⟨rfl, hr⟩]
          congr 1
          funext ρ'
          simp only [Expr.eval]
          rw [trunc_of_lt]
          have := Lemmas.Transform.leToNat_lt (Const.withWidth (p.mem key' a w) w)
          rwa [withWidth_length] at this
        · rw [if_neg hr, if_neg (fun h => hr h.2)]
      · rw [g4 key' hk, if_neg (fun h => hk h.1)]
    refine ⟨ha.regKnown, ha.regUnknown, fun key' x b hb ρ' => ?_, fun key' a' w' i hi' hb => ?_⟩
    · rw [habs'] at hb
      split at hb
      · rename_i hr
        cases hb
        obtain ⟨rfl, h1, h2⟩ := hr
        have := ha.memUnknown key' a w (x - a) (by omega) (by rw [show a + (x - a) = x by omega]; exact habs (x - a) (by omega) ▸ (by rw [show a + (x - a) = x by omega]))
        rw [show a + (x - a) = x by omega] at this
        exact this
      · exact ha.memKnown key' x b hb ρ'
    · rw [habs'] at hb
      split at hb
      · cases hb
      · exact ha.memUnknown key' a' w' i hi' hb

/-! ### the value of an expression -/

theorem sumBytes_front (f : Nat → Nat) (n : Nat) :
    sumBytes f (n + 1) = f 0 + 256 * sumBytes (fun j => f (j + 1)) n := by
  have := Lemmas.Sparse.sumBytes_add f 1 n
  rw [Nat.add_comm 1 n] at this
  rw [this]
  simp only [sumBytes, Nat.pow_zero, Nat.mul_one, Nat.zero_add, Nat.pow_one]
  congr 2
  apply Lemmas.Sparse.sumBytes_congr
  intro j _
  rw [Nat.add_comm]

theorem loadBytes_eq_sum (mem : Nat → Nat) : ∀ (w a : Nat), a + w ≤ 2 ^ 64 →
    loadBytes mem a w = sumBytes (fun i => mem (a + i) % 256) w
  | 0, _, _ => rfl
  | w + 1, a, h => by
    have ha : a % 2 ^ 64 = a := Nat.mod_eq_of_lt (by omega)
    rw [loadBytes, ha, loadBytes_eq_sum mem w (a + 1) (by omega), sumBytes_front]
    simp only [Nat.add_zero]
    congr 2
    apply Lemmas.Sparse.sumBytes_congr
    intro j _
    rw [Nat.add_assoc, Nat.add_comm 1 j]

/-- the bytes the state holds in a fully present range, read under `Agree`, are the bytes of `ρ` -/
theorem loadVal_agree {p : Provider} {code : CodeView} {ρ : Env} {s : State} (ha : Agree p code ρ s)
    {key : String} {addr w : Nat} (hd : InDom addr w) (hp : ∀ i, i < w → s.mems.abs key (addr + i) ≠ none) :
    loadVal ρ0 (s.mems.abs key) addr w = loadBytes (ρ.mem key) addr w := by
  rw [loadBytes_eq_sum _ w addr (by have := hd.2.2; omega)]
  unfold loadVal
  apply Lemmas.Sparse.sumBytes_congr
  intro i hi
  cases hx : s.mems.abs key (addr + i) with
  | none => exact absurd hx (hp i hi)
  | some b => simp only [byteOf]; exact ha.memKnown key _ b hx ρ0

theorem loadVal_lt_of_inv {s : State} (hi : Inv s) (key : String) (addr w : Nat) (ρ : Env) :
    loadVal ρ (s.mems.abs key) addr w < 256 ^ w :=
  Lemmas.Overlay.loadVal_lt (laws_of_inv hi key).bytewise ρ addr w

/-- evaluation of the closed substituted expression = value under the represented valuation -/
theorem substAll_eval {p : Provider} {code : CodeView} {ρ : Env} {s : State} (hi : Inv s)
    (ha : Agree p code ρ s) : ∀ e : Expr, RegsIn s.regs (regLoads e) → MemsIn (absOf s) (substRegs s.regs e) →
    RegsLe code e → (substAll s e).eval ρ0 = e.eval ρ
  | .const _, _, _, _ => rfl
  | .regLoad k w, hr, _, hle => by
    have hk := hr (k, w) (by simp [regLoads])
    cases hg : assocGet k s.regs with
    | none => exact absurd hg hk
    | some e0 =>
      obtain ⟨c, rfl⟩ := hi.regs k e0 hg
      simp only [substAll, substRegs, load_const hg, Option.getD, substMem, Expr.eval]
      rw [cw_value]
      exact ha.regKnown k c hg w (hle (k, w) (by simp [regLoads]))
  | .binary op a b w, hr, hm, hle => by
    simp only [regLoads, RegsIn.append] at hr
    have hla : RegsLe code a := fun kw h => hle kw (by simp [regLoads, h])
    have hlb : RegsLe code b := fun kw h => hle kw (by simp [regLoads, h])
    have ia := substAll_eval hi ha a hr.1 hm.1 hla
    have ib := substAll_eval hi ha b hr.2 hm.2 hlb
    simp only [substAll, substRegs, substMem, Expr.eval] at ia ib ⊢
    rw [ia, ib]
  | .less a b t f w, hr, hm, hle => by
    simp only [regLoads, RegsIn.append] at hr
    have hla : RegsLe code a := fun kw h => hle kw (by simp [regLoads, h])
    have hlb : RegsLe code b := fun kw h => hle kw (by simp [regLoads, h])
    have hlt : RegsLe code t := fun kw h => hle kw (by simp [regLoads, h])
    have hlf : RegsLe code f := fun kw h => hle kw (by simp [regLoads, h])
    have ia := substAll_eval hi ha a hr.1.1.1 hm.1 hla
    have ib := substAll_eval hi ha b hr.1.1.2 hm.2.1 hlb
    have it := substAll_eval hi ha t hr.1.2 hm.2.2.1 hlt
    have jf := substAll_eval hi ha f hr.2 hm.2.2.2 hlf
    simp only [substAll, substRegs, substMem, Expr.eval] at ia ib it jf ⊢
    rw [ia, ib, it, jf]
  | .memLoad key a w, hr, hm, hle => by
    simp only [regLoads] at hr
    have hla : RegsLe code a := fun kw h => hle kw (by simpa [regLoads] using h)
    have ia := substAll_eval hi ha a hr hm.1 hla
    have haddr : loadAddr (absOf s) (substRegs s.regs a) = a.eval ρ % 2 ^ 64 := by
      unfold loadAddr; unfold substAll at ia; rw [ia]
    obtain ⟨_, hd, hp⟩ := hm
    rw [haddr] at hd hp
    simp only [substAll, substRegs, substMem, Expr.eval, loadConst]
    have h2 : (substMem (absOf s) (substRegs s.regs a)).eval ρ0 % 2 ^ 64 = a.eval ρ % 2 ^ 64 := haddr
    rw [h2, Lemmas.Bytes.leToNat_natToLE_pow256]
    have hlt := loadVal_lt_of_inv hi key (a.eval ρ % 2 ^ 64) w ρ0
    show loadVal ρ0 (s.mems.abs key) (a.eval ρ % 2 ^ 64) w % 256 ^ w = _
    rw [Nat.mod_eq_of_lt hlt]
    exact loadVal_agree ha hd hp

/-- the constant `eval` returns is the value of the expression under the represented valuation -/
theorem valBytes_eval {p : Provider} {code : CodeView} {ρ : Env} {s : State} (hi : Inv s)
    (ha : Agree p code ρ s) {e : Expr} (hp : Present s e) (hle : RegsLe code e) :
    leToNat (valBytes s e) = e.eval ρ := by
  unfold valBytes
  rw [Lemmas.Bytes.leToNat_natToLE, substAll_eval hi ha e hp.1 hp.2 hle]
  exact Nat.mod_eq_of_lt (Lemmas.Transform.eval_lt ρ e)

end Mltwist.Lemmas.Emulator
