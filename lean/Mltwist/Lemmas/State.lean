import Mltwist.Model.State
import Mltwist.Spec.State
import Mltwist.Lemmas.Transform
import Mltwist.Lemmas.Const
/-
C18, part 1: finite maps, the register map over write histories, and the case analysis of `Apply`.
-/
namespace Mltwist.Lemmas.State
open Mltwist Mltwist.State Mltwist.Overlay Mltwist.Spec.State

/-! ### finite maps -/

theorem assocGet_set_same {α : Type} (k : String) (v : α) :
    ∀ m : List (String × α), assocGet k (assocSet k v m) = some v
  | [] => by simp [assocSet, assocGet]
  | (k', v') :: rest => by
    unfold assocSet
    by_cases h : k' = k
    · rw [if_pos h]; simp [assocGet]
    · rw [if_neg h]; simp only [assocGet, if_neg h]; exact assocGet_set_same k v rest

theorem assocGet_set_other {α : Type} (k k2 : String) (v : α) (hne : k2 ≠ k) :
    ∀ m : List (String × α), assocGet k2 (assocSet k v m) = assocGet k2 m
  | [] => by simp [assocSet, assocGet, Ne.symm hne]
  | (k', v') :: rest => by
    unfold assocSet
    by_cases h : k' = k
    · rw [if_pos h]
      have h1 : ¬ k = k2 := fun e => hne e.symm
      have h2 : ¬ k' = k2 := fun e => hne (e.symm.trans h)
      simp [assocGet, h1, h2]
    · rw [if_neg h]
      by_cases h2 : k' = k2
      · simp [assocGet, h2]
      · simp only [assocGet, if_neg h2]; exact assocGet_set_other k k2 v hne rest

/-! ### the register map -/

theorem load_empty (k : String) (w : Nat) : RegMap.load RegMap.empty k w = none := rfl

theorem load_store_same (m : RegMap) (k : String) (e : Expr) (w w' : Nat) :
    (m.store k e w).load k w' = some (setWidth (setWidth e w) w') := by
  unfold RegMap.load RegMap.store
  rw [assocGet_set_same]

theorem load_store_other (m : RegMap) (k k2 : String) (e : Expr) (w w' : Nat) (h : k2 ≠ k) :
    (m.store k e w).load k2 w' = m.load k2 w' := by
  unfold RegMap.load RegMap.store
  rw [assocGet_set_other k k2 _ h]

/-- replay of a write history (oldest first) on the model -/
def runWrites (m : RegMap) : RegHist → RegMap
  | [] => m
  | r :: rest => runWrites (m.store r.key r.value r.w) rest

theorem runWrites_load (k : String) (w' : Nat) : ∀ (h : RegHist) (m : RegMap),
    (runWrites m h).load k w' =
      match lastWrite k h with
      | some r => some (setWidth (setWidth r.value r.w) w')
      | none => m.load k w'
  | [], m => by simp [runWrites, lastWrite]
  | r :: rest, m => by
    rw [runWrites, runWrites_load k w' rest, lastWrite]
    cases hl : lastWrite k rest with
    | some r' => rfl
    | none =>
      simp only
      by_cases hk : r.key = k
      · rw [if_pos hk, ← hk, load_store_same]
      · rw [if_neg hk, load_store_other _ _ _ _ _ _ (fun e => hk e.symm)]

theorem lastWrite_none_iff (k : String) : ∀ h : RegHist, lastWrite k h = none ↔ ∀ r ∈ h, r.key ≠ k
  | [] => by simp [lastWrite]
  | r :: rest => by
    rw [lastWrite]
    cases hl : lastWrite k rest with
    | some r' =>
      simp only [reduceCtorEq, false_iff]
      intro hall
      have := (lastWrite_none_iff k rest).2 (fun x hx => hall x (List.mem_cons_of_mem _ hx))
      rw [hl] at this
      cases this
    | none =>
      have hr := (lastWrite_none_iff k rest).1 hl
      by_cases hk : r.key = k
      · simp only [if_pos hk, reduceCtorEq, false_iff]
        intro hall
        exact hall r List.mem_cons_self hk
      · simp only [if_neg hk, true_iff]
        intro x hx
        rcases List.mem_cons.1 hx with rfl | hx
        · exact hk
        · exact hr x hx

theorem lastWrite_some_mem (k : String) : ∀ (h : RegHist) (r : RegWrite), lastWrite k h = some r →
    r ∈ h ∧ r.key = k
  | [], r, hr => by simp [lastWrite] at hr
  | x :: rest, r, hr => by
    rw [lastWrite] at hr
    cases hl : lastWrite k rest with
    | some r' =>
      rw [hl] at hr
      simp only [Option.some.injEq] at hr
      subst hr
      have := lastWrite_some_mem k rest r' hl
      exact ⟨List.mem_cons_of_mem _ this.1, this.2⟩
    | none =>
      rw [hl] at hr
      by_cases hk : x.key = k
      · simp only [if_pos hk, Option.some.injEq] at hr
        subst hr
        exact ⟨List.mem_cons_self, hk⟩
      · simp [if_neg hk] at hr

/-- writes to other registers after the last write to `k` do not matter -/
theorem lastWrite_append_other (k : String) (r : RegWrite) (hk : r.key ≠ k) :
    ∀ h : RegHist, lastWrite k (h ++ [r]) = lastWrite k h
  | [] => by simp [lastWrite, hk]
  | x :: rest => by
    rw [List.cons_append, lastWrite, lastWrite, lastWrite_append_other k r hk rest]

theorem lastWrite_append_same (k : String) (r : RegWrite) (hk : r.key = k) :
    ∀ h : RegHist, lastWrite k (h ++ [r]) = some r
  | [] => by simp [lastWrite, hk]
  | x :: rest => by
    rw [List.cons_append, lastWrite, lastWrite_append_same k r hk rest]

/-! ### `Apply` -/

theorem constUint8 (c : List UInt8) : (Const.constUint 8 c).1 = leToNat c % 2 ^ 64 := by
  cases c with
  | nil => decide
  | cons b bs => rw [Lemmas.Const.constUint_spec 8 (b :: bs) (by omega) (by simp)]

theorem apply_regStore (s : State) (v : Expr) (k : String) (w : Nat) :
    s.apply (.regStore v k w) = .ok ({ s with regs := s.regs.store k v w }, true) := rfl

theorem apply_memStore_refused (s : State) (v : Expr) (key : String) (addr : Expr) (w : Nat)
    (h : (constFold addr).isConst = false) : s.apply (.memStore v key addr w) = .ok (s, false) := by
  unfold State.apply
  cases hc : constFold addr <;> simp_all [Expr.isConst]

theorem apply_memStore_const (s : State) (v : Expr) (key : String) (addr : Expr) (w : Nat)
    (c : List UInt8) (h : constFold addr = .const c) :
    s.apply (.memStore v key addr w) =
      match s.mems.store key (leToNat c % 2 ^ 64) v w with
      | .ok mems' => .ok ({ s with mems := mems' }, true)
      | .error f => .error f := by
  simp only [State.apply, h, constUint8]
  cases s.mems.store key (leToNat c % 2 ^ 64) v w <;> rfl

/-- the constant the address folds to is the value of the address (under any valuation) -/
theorem const_is_value (addr : Expr) (hwf : addr.wf = true) (c : List UInt8)
    (h : constFold addr = .const c) (ρ : Env) : leToNat c = addr.eval ρ := by
  have := Lemmas.Transform.constFold_eval ρ addr hwf
  rw [h] at this
  simpa [Expr.eval] using this

/-- a refused effect leaves the state as it was, and only memory stores whose address does not fold
to a constant are refused -/
theorem apply_false (s s' : State) (ef : Effect) (h : s.apply ef = .ok (s', false)) :
    s' = s ∧ ∃ v key addr w, ef = .memStore v key addr w ∧ (constFold addr).isConst = false := by
  cases ef with
  | regStore v k w => simp [State.apply] at h
  | memStore v key addr w =>
    cases hc : (constFold addr).isConst with
    | false =>
      rw [apply_memStore_refused s v key addr w hc] at h
      cases h
      exact ⟨rfl, v, key, addr, w, rfl, hc⟩
    | true =>
      obtain ⟨c, hcc⟩ : ∃ c, constFold addr = .const c := by
        cases hx : constFold addr <;> simp_all [Expr.isConst]
      rw [apply_memStore_const s v key addr w c hcc] at h
      cases hs : s.mems.store key (leToNat c % 2 ^ 64) v w <;> simp [hs] at h

end Mltwist.Lemmas.State
