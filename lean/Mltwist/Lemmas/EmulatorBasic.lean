import Mltwist.Model.Emulator
import Mltwist.Lemmas.StateMem
/-
Emulator (C03, C04), part 1: vocabulary — invariants of the emulator state, what the emulator knows,
the relation `Fill` (a state evolves by provider fills only, each for state that is absent at that
moment) — and the register phase of evaluation (`regValue`, `evalRegsFully`).
-/
namespace Mltwist.Lemmas.Emulator
open Mltwist Mltwist.State Mltwist.Overlay Mltwist.Emulator Mltwist.Spec.Overlay
open Mltwist.Lemmas.State (Good assocGet_set_same assocGet_set_other)

/-! ### constants and widths -/

/-- the bytes `RegMap.Load` returns for a stored constant `v` read `w` bytes wide -/
def cw (v : List UInt8) (w : Nat) : List UInt8 := if v.length = w then v else Expreval.setWidth v w

theorem setWidth_const (v : List UInt8) (w : Nat) : setWidth (.const v) w = .const (cw v w) := by
  unfold setWidth cw
  by_cases h : v.length = w
  · simp [Expr.width, h]
  · simp [Expr.width, h]

theorem cw_length (v : List UInt8) (w : Nat) : (cw v w).length = w := by
  unfold cw
  split
  · assumption
  · exact Lemmas.Transform.exprevalSetWidth_length v w

theorem cw_value (v : List UInt8) (w : Nat) : leToNat (cw v w) = trunc w (leToNat v) := by
  unfold cw
  split
  · rename_i h
    subst h
    exact (Lemmas.Transform.trunc_of_lt (Lemmas.Transform.leToNat_lt v)).symm
  · exact Lemmas.Transform.exprevalSetWidth_value v w

theorem withWidth_eq_cw (v : List UInt8) (w : Nat) : Const.withWidth v w = cw v w := by
  unfold Const.withWidth cw Const.newConst Expreval.setWidth
  by_cases h1 : v.length = w
  · simp [h1]
  · by_cases h2 : v.length > w
    · simp [h1, h2, Nat.le_of_lt h2]
    · simp [h1, h2]

theorem withWidth_length (v : List UInt8) (w : Nat) : (Const.withWidth v w).length = w := by
  rw [withWidth_eq_cw]; exact cw_length v w

theorem withWidth_value (v : List UInt8) (w : Nat) : leToNat (Const.withWidth v w) = trunc w (leToNat v) := by
  rw [withWidth_eq_cw]; exact cw_value v w

theorem cw_self (v : List UInt8) : cw v v.length = v := by simp [cw]

/-! ### `checkAccess` (REPAIR F45) -/

/-- a range inside the address space passes `checkAccess` -/
theorem accessBad_false {a w : Nat} (h : a + w < 2 ^ 64) : accessBad a w = false := by
  unfold accessBad
  rw [Nat.mod_eq_of_lt h]
  simp

/-- a range (of an address, with a width that fits `uint64`) whose exclusive end is not an address — it is `2^64`
or it wrapped — does not -/
theorem accessBad_true {a w : Nat} (ha : a < 2 ^ 64) (hw : w < 2 ^ 64) (h : 2 ^ 64 ≤ a + w) : accessBad a w = true := by
  unfold accessBad
  have : (a + w) % 2 ^ 64 = a + w - 2 ^ 64 := by
    rw [Nat.mod_eq_sub_mod h, Nat.mod_eq_of_lt (by omega)]
  rw [this]
  simp only [decide_eq_true_eq]
  omega

/-- for the accesses of well-formed code, `checkAccess` tests exactly the domain of C14 -/
theorem accessBad_iff {a w : Nat} (ha : a < 2 ^ 64) (hw : w < 2 ^ 64) : accessBad a w = true ↔ 2 ^ 64 ≤ a + w := by
  constructor
  · intro h
    by_cases hc : a + w < 2 ^ 64
    · rw [accessBad_false hc] at h; cases h
    · omega
  · exact accessBad_true ha hw

/-! ### invariants -/

/-- every register holds a constant -/
def RegsConst (m : RegMap) : Prop := ∀ k e, assocGet k m = some e → ∃ c, e = .const c

/-- a constant of 1 to 255 bytes -/
def IsByteConst (e : Expr) : Prop := ∃ c, e = .const c ∧ 1 ≤ c.length ∧ c.length ≤ 255

/-- every expression a memory stores is a constant (of a width Go can represent) -/
def AllConst : Mem → Prop
  | .bytes _ => True
  | .sparse t => ∀ kv ∈ t, IsByteConst kv.val.ex
  | .overlay b o => AllConst b ∧ AllConst o

def MemsConst (m : MemMap) : Prop := ∀ key mem, assocGet key m = some mem → AllConst mem

/-- the invariant of the emulator state: the memories satisfy their representation invariants (C14,
C15), accept every store, and registers and memories hold constants only -/
structure Inv (s : State) : Prop where
  good : Good s
  regs : RegsConst s.regs
  mems : MemsConst s.mems

/-- register map extension: what was there stays, with the same value -/
def RExt (m m' : RegMap) : Prop := ∀ k e, assocGet k m = some e → assocGet k m' = some e

theorem RExt.refl (m : RegMap) : RExt m m := fun _ _ h => h
theorem RExt.trans {a b c : RegMap} (h1 : RExt a b) (h2 : RExt b c) : RExt a c :=
  fun k e h => h2 k e (h1 k e h)

theorem rext_store {m : RegMap} {k : String} (h : assocGet k m = none) (e : Expr) (w : Nat) :
    RExt m (m.store k e w) := by
  intro k2 e2 h2
  unfold RegMap.store
  by_cases hk : k2 = k
  · subst hk; rw [h] at h2; cases h2
  · rw [assocGet_set_other k k2 _ hk]; exact h2

theorem regsConst_store {m : RegMap} (h : RegsConst m) (k : String) (v : List UInt8) (w : Nat) :
    RegsConst (m.store k (.const v) w) := by
  intro k2 e2 h2
  unfold RegMap.store at h2
  by_cases hk : k2 = k
  · subst hk
    rw [assocGet_set_same] at h2
    cases h2
    exact ⟨_, setWidth_const v w⟩
  · rw [assocGet_set_other k k2 _ hk] at h2
    exact h k2 e2 h2

theorem load_const {m : RegMap} {k : String} {v : List UInt8} (h : assocGet k m = some (.const v)) (w : Nat) :
    m.load k w = some (.const (cw v w)) := by
  unfold RegMap.load
  rw [h]
  simp [setWidth_const]

theorem load_none {m : RegMap} {k : String} (h : assocGet k m = none) (w : Nat) : m.load k w = none := by
  unfold RegMap.load
  rw [h]

theorem load_store_const (m : RegMap) (k : String) (v : List UInt8) (w w' : Nat) :
    (m.store k (.const v) w).load k w' = some (.const (cw (cw v w) w')) := by
  rw [Lemmas.State.load_store_same, setWidth_const, setWidth_const]

/-! ### what the emulator knows; fills -/

/-- the emulator knows the byte `a` of the address space `key` -/
def ByteKnown (s : State) (key : String) (a : Nat) : Prop := s.mems.abs key a ≠ none

/-- the emulator knows the register `k` -/
def RegKnown (s : State) (k : String) : Prop := assocGet k s.regs ≠ none

/-- the state the emulator is in after the provider answered the request `r` -/
def fillReg (p : Provider) (s : State) (key : String) (w : Nat) : State :=
  { s with regs := s.regs.store key (.const (Const.withWidth (p.reg key w) w)) w }

/-- `Fill p s l s'`: `s'` results from `s` by the provider requests `l`, in order; each request is
for state the emulator does not know at that moment (a register absent from the register map; a
non-empty range of bytes in the domain of C14 none of which is present in any memory layer), and
stores the (width-adjusted) answer -/
inductive Fill (p : Provider) : State → List Req → State → Prop where
  | nil (s : State) : Fill p s [] s
  | reg {s s' : State} {l : List Req} (key : String) (w : Nat) :
      assocGet key s.regs = none → Fill p (fillReg p s key w) l s' → Fill p s (.reg key w :: l) s'
  | mem {s s' : State} {l : List Req} (key : String) (a w : Nat) (mems' : MemMap) :
      InDom a w → (∀ i, i < w → s.mems.abs key (a + i) = none) →
      s.mems.store key a (.const (Const.withWidth (p.mem key a w) w)) w = .ok mems' →
      Fill p { s with mems := mems' } l s' → Fill p s (.mem key a w :: l) s'

theorem Fill.append {p : Provider} {s1 s2 s3 : State} {l1 l2 : List Req}
    (h1 : Fill p s1 l1 s2) (h2 : Fill p s2 l2 s3) : Fill p s1 (l1 ++ l2) s3 := by
  induction h1 with
  | nil s => exact h2
  | reg key w hn _ ih => exact Fill.reg key w hn (ih h2)
  | mem key a w mems' hd ha hs _ ih => exact Fill.mem key a w mems' hd ha hs (ih h2)

theorem Fill.single_reg {p : Provider} {s : State} {key : String} {w : Nat}
    (h : assocGet key s.regs = none) : Fill p s [.reg key w] (fillReg p s key w) :=
  Fill.reg key w h (Fill.nil _)

/-- any constant is accepted by any memory -/
theorem storable_const : ∀ (m : Mem) (c : List UInt8), m.Storable (.const c)
  | .bytes _, _ => rfl
  | .sparse _, _ => trivial
  | .overlay _ o, c => storable_const o c

/-- a store of a constant into a good state: no panic, the state stays good, the byte map of the key is
updated by the `w` bytes, every other address space is unchanged -/
theorem good_store {s : State} (hg : Good s) (key : String) (a : Nat) (v : Expr) (w : Nat) (hd : InDom a w) :
    ∃ m', s.mems.store key a v w = .ok m' ∧ Good { s with mems := m' } ∧
      m'.abs key = (s.mems.abs key).store a v w ∧
      ∀ key', key' ≠ key → m'.abs key' = s.mems.abs key' := by
  obtain ⟨m', h1, h2, h3, h4, h5⟩ := Lemmas.Overlay.memmap_store s.mems hg.1 key a v w (hg.2 key v) hd
  refine ⟨m', h1, ⟨h2, fun key' e => ?_⟩, h3, fun key' hne => Lemmas.State.abs_of_get_eq (h4 key' hne)⟩
  by_cases hk : key' = key
  · subst hk
    exact (h5 e).2 (Or.inl (hg.2 _ e))
  · have := hg.2 key' e
    unfold MemMap.Storable at this ⊢
    simp only
    rw [h4 key' hk]
    exact this

end Mltwist.Lemmas.Emulator
