import Mltwist.Lemmas.DepsView
/-
Bridging lemmas between the footprints of the model (`Model/Deps.lean`: `inputRegs`, `outputRegs`,
`loads`, `stores`, `keySet`, `findAll`) and those of the specification (`Spec/Deps.lean`:
`regReads`, `memReads`, `SIns.regIn` …) through the view `Ins.toS`.  Core Lean only.
-/
namespace Mltwist.Lemmas.Deps
open Mltwist Mltwist.Deps Mltwist.Deps.Spec

/-! ### `findAll` against the structural footprints -/

theorem mem_findAll_regLoad (k : String) (e : Expr) :
    k ∈ (findAll .regLoad e).filterMap regLoadKey ↔ k ∈ regReads e := by
  induction e with
  | const bs => simp [findAll, regReads, Expr.kind]
  | binary op a b w iha ihb =>
    simp [findAll, regReads, Expr.kind, List.filterMap_append, iha, ihb]
  | less a b t f w iha ihb iht ihf =>
    simp [findAll, regReads, Expr.kind, List.filterMap_append, iha, ihb, iht, ihf]
  | memLoad key a w iha =>
    simp [findAll, regReads, Expr.kind, iha]
  | regLoad key w => simp [findAll, regReads, Expr.kind, regLoadKey]

theorem mem_findAll_memLoad (k : String) (e : Expr) :
    k ∈ (findAll .memLoad e).filterMap memLoadKey ↔ k ∈ memReads e := by
  induction e with
  | const bs => simp [findAll, memReads, Expr.kind]
  | binary op a b w iha ihb =>
    simp [findAll, memReads, Expr.kind, List.filterMap_append, iha, ihb]
  | less a b t f w iha ihb iht ihf =>
    simp [findAll, memReads, Expr.kind, List.filterMap_append, iha, ihb, iht, ihf]
  | memLoad key a w iha =>
    simp [findAll, memReads, Expr.kind, iha, memLoadKey]
  | regLoad key w => simp [findAll, memReads, Expr.kind]

/-! ### `keySet` -/

theorem mem_insertKey (k a : String) (s : List String) : k ∈ insertKey a s ↔ k ∈ s ∨ k = a := by
  unfold insertKey
  split
  · constructor
    · exact Or.inl
    · rintro (h | rfl) <;> assumption
  · simp

theorem nodup_insertKey (a : String) (s : List String) (h : s.Nodup) : (insertKey a s).Nodup := by
  unfold insertKey
  split
  · exact h
  · rename_i hn
    rw [List.nodup_append]
    refine ⟨h, by simp, ?_⟩
    intro x hx y hy
    simp at hy
    subst hy
    rintro rfl
    exact hn hx

theorem mem_foldl_insertKey (k : String) (ks acc : List String) :
    k ∈ ks.foldl (fun s k => insertKey k s) acc ↔ k ∈ acc ∨ k ∈ ks := by
  induction ks generalizing acc with
  | nil => simp
  | cons a ks ih =>
    simp only [List.foldl_cons, ih, mem_insertKey, List.mem_cons]
    constructor
    · rintro ((h | h) | h)
      · exact Or.inl h
      · exact Or.inr (Or.inl h)
      · exact Or.inr (Or.inr h)
    · rintro (h | h | h)
      · exact Or.inl (Or.inl h)
      · exact Or.inl (Or.inr h)
      · exact Or.inr h

theorem nodup_foldl_insertKey (ks acc : List String) (h : acc.Nodup) :
    (ks.foldl (fun s k => insertKey k s) acc).Nodup := by
  induction ks generalizing acc with
  | nil => exact h
  | cons a ks ih => exact ih _ (nodup_insertKey a acc h)

theorem mem_keySet (k : String) (l : List String) : k ∈ keySet l ↔ k ∈ l := by
  simp [keySet, mem_foldl_insertKey]

theorem nodup_keySet (l : List String) : (keySet l).Nodup :=
  nodup_foldl_insertKey l [] List.nodup_nil

/-! ### the four footprints of an instruction -/

theorem mem_inputRegs (k : String) (efs : List Effect) :
    k ∈ inputRegs efs ↔ k ∈ efs.flatMap effRegReads := by
  unfold inputRegs exprsMany
  rw [mem_keySet]
  simp only [List.mem_flatMap]
  constructor
  · rintro ⟨ex, ⟨ef, hef, hex⟩, hk⟩
    refine ⟨ef, hef, ?_⟩
    rw [mem_findAll_regLoad] at hk
    cases ef <;> simp [Effect.exprs] at hex <;> simp [effRegReads]
    · rcases hex with rfl | rfl
      · exact Or.inl hk
      · exact Or.inr hk
    · subst hex; exact hk
  · rintro ⟨ef, hef, hk⟩
    cases ef with
    | memStore v key a w =>
      simp [effRegReads] at hk
      rcases hk with hk | hk
      · exact ⟨a, ⟨_, hef, by simp [Effect.exprs]⟩, (mem_findAll_regLoad k a).2 hk⟩
      · exact ⟨v, ⟨_, hef, by simp [Effect.exprs]⟩, (mem_findAll_regLoad k v).2 hk⟩
    | regStore v key w =>
      simp [effRegReads] at hk
      exact ⟨v, ⟨_, hef, by simp [Effect.exprs]⟩, (mem_findAll_regLoad k v).2 hk⟩

theorem mem_loads (k : String) (efs : List Effect) :
    k ∈ Deps.loads efs ↔ k ∈ efs.flatMap effMemReads := by
  unfold Deps.loads exprsMany
  simp only [List.mem_flatMap]
  constructor
  · rintro ⟨ex, ⟨ef, hef, hex⟩, hk⟩
    refine ⟨ef, hef, ?_⟩
    rw [mem_findAll_memLoad] at hk
    cases ef <;> simp [Effect.exprs] at hex <;> simp [effMemReads]
    · rcases hex with rfl | rfl
      · exact Or.inl hk
      · exact Or.inr hk
    · subst hex; exact hk
  · rintro ⟨ef, hef, hk⟩
    cases ef with
    | memStore v key a w =>
      simp [effMemReads] at hk
      rcases hk with hk | hk
      · exact ⟨a, ⟨_, hef, by simp [Effect.exprs]⟩, (mem_findAll_memLoad k a).2 hk⟩
      · exact ⟨v, ⟨_, hef, by simp [Effect.exprs]⟩, (mem_findAll_memLoad k v).2 hk⟩
    | regStore v key w =>
      simp [effMemReads] at hk
      exact ⟨v, ⟨_, hef, by simp [Effect.exprs]⟩, (mem_findAll_memLoad k v).2 hk⟩

theorem mem_outputRegs (k : String) (efs : List Effect) :
    k ∈ outputRegs efs ↔ k ∈ efs.flatMap effRegWrites := by
  unfold outputRegs
  rw [mem_keySet]
  simp only [List.mem_flatMap, List.mem_filterMap]
  constructor
  · rintro ⟨ef, hef, hk⟩
    refine ⟨ef, hef, ?_⟩
    cases ef <;> simp at hk <;> simp [effRegWrites, hk]
  · rintro ⟨ef, hef, hk⟩
    refine ⟨ef, hef, ?_⟩
    cases ef <;> simp [effRegWrites] at hk <;> simp [hk]

theorem mem_stores (k : String) (efs : List Effect) :
    k ∈ Deps.stores efs ↔ k ∈ efs.flatMap effMemWrites := by
  unfold Deps.stores
  simp only [List.mem_flatMap, List.mem_filterMap]
  constructor
  · rintro ⟨ef, hef, hk⟩
    refine ⟨ef, hef, ?_⟩
    cases ef <;> simp at hk <;> simp [effMemWrites, hk]
  · rintro ⟨ef, hef, hk⟩
    refine ⟨ef, hef, ?_⟩
    cases ef <;> simp [effMemWrites] at hk <;> simp [hk]

/-! ### the view `Ins.toS` -/

theorem mem_inRegs_toS (n : Nat) (i : Ins) (k : String) : k ∈ i.inRegs ↔ k ∈ (i.toS n).regIn :=
  mem_inputRegs k i.effects

theorem mem_outRegs_toS (n : Nat) (i : Ins) (k : String) : k ∈ i.outRegs ↔ k ∈ (i.toS n).regOut :=
  mem_outputRegs k i.effects

theorem mem_loads_toS (n : Nat) (i : Ins) (k : String) : k ∈ i.loads ↔ k ∈ (i.toS n).memIn :=
  mem_loads k i.effects

theorem mem_stores_toS (n : Nat) (i : Ins) (k : String) : k ∈ i.stores ↔ k ∈ (i.toS n).memOut :=
  mem_stores k i.effects

theorem nodup_outRegs (i : Ins) : i.outRegs.Nodup := nodup_keySet _

theorem nodup_inRegs (i : Ins) : i.inRegs.Nodup := nodup_keySet _

private theorem length_pos_iff_exists_mem (l : List String) : 0 < l.length ↔ ∃ k, k ∈ l := by
  cases l <;> simp

private theorem isEmpty_false_iff_exists_mem (l : List String) : l.isEmpty = false ↔ ∃ k, k ∈ l := by
  cases l <;> simp

theorem isMemAccess_iff (n : Nat) (i : Ins) :
    isMemAccess i = true ↔ ((∃ k, k ∈ (i.toS n).memOut) ∨ ∃ k, k ∈ (i.toS n).memIn) := by
  unfold isMemAccess
  simp only [Bool.or_eq_true, decide_eq_true_eq, gt_iff_lt, length_pos_iff_exists_mem,
    mem_loads_toS n, mem_stores_toS n]

theorem isMemAccess_toS (n : Nat) (i : Ins) : isMemAccess i = (i.toS n).memAccess := by
  rw [Bool.eq_iff_iff, isMemAccess_iff n]
  unfold SIns.memAccess
  simp only [Bool.or_eq_true, Bool.not_eq_true', isEmpty_false_iff_exists_mem]
  exact Or.comm

theorem insMemOrder_toS (n : Nat) (i : Ins) : insMemOrder i = (i.toS n).memOrder := rfl

theorem insSpecial_toS (n : Nat) (i : Ins) : insSpecial i = (i.toS n).special := by
  unfold insSpecial SIns.special Ins.syscall Ins.cpuStateChange Ins.toS
  exact Bool.or_comm _ _

theorem ipKey_eq : Deps.ipKey = Mltwist.Spec.Lift.ipKey := rfl

theorem ipKey_mem_outRegs_iff (n : Nat) (i : Ins) :
    Deps.ipKey ∈ i.outRegs ↔ (i.toS n).writesIp = true := by
  rw [mem_outRegs_toS n]
  unfold SIns.writesIp
  rw [ipKey_eq]
  simp

/-- membership form of the memory-access test -/
theorem memAccess_of_mem_stores (n : Nat) (i : Ins) (k : String) (h : k ∈ i.stores) :
    (i.toS n).memAccess = true := by
  rw [← isMemAccess_toS, isMemAccess_iff n]
  exact Or.inl ⟨k, (mem_stores_toS n i k).1 h⟩

theorem memAccess_of_mem_loads (n : Nat) (i : Ins) (k : String) (h : k ∈ i.loads) :
    (i.toS n).memAccess = true := by
  rw [← isMemAccess_toS, isMemAccess_iff n]
  exact Or.inr ⟨k, (mem_loads_toS n i k).1 h⟩

end Mltwist.Lemmas.Deps
