import Mltwist.Lemmas.RiscvDecodeBits
import Mltwist.Spec.Riscv
import Mltwist.Lemmas.Opcode
/-
C02, table-independent part: what follows for `parse` / `parseM` over ANY table `T` from a few
decidable facts about `T` (shape of the patterns, same rows as a reference list `R`, no two
reference rows with different names matched by a common word, opcode patterns valid and pairwise
conflict-free).  `RiscvDecode.lean` re-checks those facts for the regenerated tables by kernel
evaluation.
-/
namespace Mltwist.Lemmas.RiscvDecode
open Mltwist Mltwist.Riscv Mltwist.Lemmas.Bytes

abbrev Row := String × Nat × Nat

def triT (T : List Entry) : List Row := T.map (fun e => (e.name, e.wordMatch, e.wordMask))
def triR (R : List Spec.Rv.Enc) : List Row := R.map (fun e => (e.name, e.mtch, e.mask))

/-! ### decidable table facts -/

def subB (A B : List Row) : Bool := A.all fun x => B.contains x

/-- every pattern has as many bytes as mask bytes, at most four -/
def shapeB (T : List Entry) : Bool :=
  T.all fun e => e.bytes.length == e.mask.length && decide (e.mask.length ≤ 4)

/-- two rows matched by a common word have the same name -/
def rowsUniqueB (R : List Row) : Bool :=
  R.all fun r1 => R.all fun r2 => r1.1 == r2.1 || (r1.2.1 &&& r2.2.2 != r2.2.1 &&& r1.2.2)

theorem subB_iff (A B : List Row) : subB A B = true ↔ ∀ r ∈ A, r ∈ B := by
  simp [subB]

theorem shapeB_iff (T : List Entry) :
    shapeB T = true ↔ ∀ e ∈ T, e.bytes.length = e.mask.length ∧ e.mask.length ≤ 4 := by
  simp [shapeB]

def RowMatches (w : Nat) (r : Row) : Prop := w &&& r.2.2 = r.2.1

theorem rowsUnique_of (R : List Row) (h : rowsUniqueB R = true) (w : Nat) (r1 r2 : Row)
    (h1 : r1 ∈ R) (h2 : r2 ∈ R) (m1 : RowMatches w r1) (m2 : RowMatches w r2) : r1.1 = r2.1 := by
  simp only [rowsUniqueB, List.all_eq_true, Bool.or_eq_true, beq_iff_eq, bne_iff_ne] at h
  rcases h r1 h1 r2 h2 with h | h
  · exact h
  · exfalso
    apply h
    unfold RowMatches at m1 m2
    rw [← m1, ← m2, Nat.and_assoc, Nat.and_assoc, Nat.and_comm r1.2.2]

/-! ### `find?` -/

theorem find?_congr' {α} (l : List α) (p q : α → Bool) (h : ∀ x ∈ l, p x = q x) :
    l.find? p = l.find? q := by
  induction l with
  | nil => rfl
  | cons x xs ih =>
    simp only [List.find?_cons, h x (List.mem_cons_self ..)]
    rw [ih (fun y hy => h y (List.mem_cons_of_mem _ hy))]

/-! ### `parse` through the word -/

theorem parse_eq_word (T : List Entry) (hs : shapeB T = true) (addr : Nat) (bs : List UInt8)
    (h : 4 ≤ bs.length) :
    parse T addr bs =
      match T.find? (fun e => e.matchesWord (wordOf bs)) with
      | none => .unknown
      | some e => .ok e ⟨addr, wordOf bs⟩ := by
  have hs' := (shapeB_iff T).1 hs
  have : T.find? (fun e => patMatches e.bytes e.mask bs) =
      T.find? (fun e => e.matchesWord (wordOf bs)) :=
    find?_congr' _ _ _ fun e he => patMatches_iff_word e bs (hs' e he).1 (hs' e he).2 h
  unfold parse
  rw [if_neg (by omega), this]
  cases T.find? (fun e => e.matchesWord (wordOf bs)) <;> rfl

theorem parse_trailing_gen (T : List Entry) (hs : shapeB T = true) (addr : Nat) (bs : List UInt8)
    (h : 4 ≤ bs.length) : parse T addr bs = parse T addr (bs.take 4) := by
  have hw : wordOf (bs.take 4) = wordOf bs := by simp [wordOf, List.take_take]
  rw [parse_eq_word T hs addr bs h, parse_eq_word T hs addr (bs.take 4) (by simp; omega), hw]

theorem matchesWord_iff (e : Entry) (w : Nat) :
    e.matchesWord w = true ↔ RowMatches w (e.name, e.wordMatch, e.wordMask) := by
  simp [Entry.matchesWord, RowMatches]

theorem mem_triT (T : List Entry) (r : Row) :
    r ∈ triT T ↔ ∃ e ∈ T, (e.name, e.wordMatch, e.wordMask) = r := by
  simp [triT]

theorem mem_triR (R : List Spec.Rv.Enc) (r : Row) :
    r ∈ triR R ↔ ∃ e ∈ R, (e.name, e.mtch, e.mask) = r := by
  simp [triR]

theorem parse_unknown_gen (T : List Entry) (R : List Spec.Rv.Enc) (hs : shapeB T = true)
    (heq : ∀ r, r ∈ triT T ↔ r ∈ triR R) (addr : Nat) (bs : List UInt8) (h : 4 ≤ bs.length) :
    parse T addr bs = .unknown ↔
      (R.find? fun e => wordOf bs &&& e.mask == e.mtch).map (·.name) = none := by
  rw [parse_eq_word T hs addr bs h, Option.map_eq_none_iff, List.find?_eq_none]
  constructor
  · intro hp r hr hm
    have : (r.name, r.mtch, r.mask) ∈ triT T := (heq _).2 ((mem_triR R _).2 ⟨r, hr, rfl⟩)
    obtain ⟨e, he, hee⟩ := (mem_triT T _).1 this
    have hme : e.matchesWord (wordOf bs) = true := by
      rw [matchesWord_iff, hee]
      simpa [RowMatches] using hm
    cases hf : T.find? (fun e => e.matchesWord (wordOf bs)) with
    | none => exact List.find?_eq_none.1 hf e he hme
    | some e' => rw [hf] at hp; cases hp
  · intro hr
    cases hf : T.find? (fun e => e.matchesWord (wordOf bs)) with
    | none => rfl
    | some e =>
      exfalso
      have he := List.mem_of_find?_eq_some hf
      have hme :=
      List.find?_some (p := fun e => Entry.matchesWord e (wordOf bs)) hf
      have : (e.name, e.wordMatch, e.wordMask) ∈ triR R := (heq _).1 ((mem_triT T _).2 ⟨e, he, rfl⟩)
      obtain ⟨r, hr', hrr⟩ := (mem_triR R _).1 this
      apply hr r hr'
      rw [matchesWord_iff, ← hrr] at hme
      simpa [RowMatches] using hme

theorem parse_ok_gen (T : List Entry) (R : List Spec.Rv.Enc) (hs : shapeB T = true)
    (heq : ∀ r, r ∈ triT T ↔ r ∈ triR R) (hu : rowsUniqueB (triR R) = true)
    (addr : Nat) (bs : List UInt8) (h : 4 ≤ bs.length) (n : String) :
    (∃ e, e ∈ T ∧ e.name = n ∧ parse T addr bs = .ok e ⟨addr, wordOf bs⟩) ↔
      (R.find? fun e => wordOf bs &&& e.mask == e.mtch).map (·.name) = some n := by
  rw [parse_eq_word T hs addr bs h]
  constructor
  · rintro ⟨e, he, hn, hp⟩
    have hf : T.find? (fun e => e.matchesWord (wordOf bs)) = some e := by
      cases hf : T.find? (fun e => e.matchesWord (wordOf bs)) with
      | none => rw [hf] at hp; cases hp
      | some e' =>
        rw [hf] at hp
        simp only [ParseResult.ok.injEq] at hp
        rw [hp.1]
    have hme0 : e.matchesWord (wordOf bs) = true :=
      List.find?_some (p := fun e => Entry.matchesWord e (wordOf bs)) hf
    have hme := (matchesWord_iff _ _).1 hme0
    have hin : (e.name, e.wordMatch, e.wordMask) ∈ triR R := (heq _).1 ((mem_triT T _).2 ⟨e, he, rfl⟩)
    obtain ⟨r, hr, hrr⟩ := (mem_triR R _).1 hin
    cases hg : R.find? (fun e => wordOf bs &&& e.mask == e.mtch) with
    | none =>
      exfalso
      apply List.find?_eq_none.1 hg r hr
      rw [← hrr] at hme
      simpa [RowMatches] using hme
    | some r' =>
      have hr'm := List.find?_some hg
      have hr'in := List.mem_of_find?_eq_some hg
      have := rowsUnique_of (triR R) hu (wordOf bs) (r'.name, r'.mtch, r'.mask) _
        ((mem_triR R _).2 ⟨r', hr'in, rfl⟩) hin (by simpa [RowMatches] using hr'm) hme
      simp only [Option.map_some]
      rw [show r'.name = e.name from this, hn]
  · intro hd
    cases hg : R.find? (fun e => wordOf bs &&& e.mask == e.mtch) with
    | none => rw [hg] at hd; cases hd
    | some r =>
      rw [hg] at hd
      simp only [Option.map_some, Option.some.injEq] at hd
      have hrm := List.find?_some hg
      have hrin := List.mem_of_find?_eq_some hg
      have hin : (r.name, r.mtch, r.mask) ∈ triT T := (heq _).2 ((mem_triR R _).2 ⟨r, hrin, rfl⟩)
      obtain ⟨e, he, hee⟩ := (mem_triT T _).1 hin
      have hme : e.matchesWord (wordOf bs) = true := by
        rw [matchesWord_iff, hee]
        simpa [RowMatches] using hrm
      cases hf : T.find? (fun e => e.matchesWord (wordOf bs)) with
      | none => exact absurd hme (List.find?_eq_none.1 hf e he)
      | some e' =>
        have he'm0 : e'.matchesWord (wordOf bs) = true :=
      List.find?_some (p := fun e => Entry.matchesWord e (wordOf bs)) hf
        have he'm := (matchesWord_iff _ _).1 he'm0
        have he'in := List.mem_of_find?_eq_some hf
        have hin' : (e'.name, e'.wordMatch, e'.wordMask) ∈ triR R :=
          (heq _).1 ((mem_triT T _).2 ⟨e', he'in, rfl⟩)
        have := rowsUnique_of (triR R) hu (wordOf bs) _ (r.name, r.mtch, r.mask) hin'
          ((mem_triR R _).2 ⟨r, hrin, rfl⟩) he'm (by simpa [RowMatches] using hrm)
        exact ⟨e', he'in, (show e'.name = r.name from this).trans hd, rfl⟩

/-! ### `parseM`: through the opcode matcher of C19 -/

open Mltwist.Opcode Mltwist.Lemmas.Opcode in
theorem noConflict_of_pairwise (ps : List Pat)
    (h : ps.Pairwise (fun p q => conflictB p q = false)) : NoConflict ps := by
  rw [List.pairwise_iff_getElem] at h
  have key : ∀ (i j : Nat) (p q : Pat), i < j → ps[i]? = some p → ps[j]? = some q → ¬ Conflict p q := by
    intro i j p q hij hp hq hc
    obtain ⟨hi, rfl⟩ := List.getElem?_eq_some_iff.1 hp
    obtain ⟨hj, rfl⟩ := List.getElem?_eq_some_iff.1 hq
    have := h i j hi hj hij
    rw [(conflict_iff _ _).1 hc] at this
    cases this
  intro i j p q hij hp hq hc
  rcases Nat.lt_or_gt_of_ne hij with hlt | hgt
  · exact key i j p q hlt hp hq hc
  · exact key j i q p hgt hq hp ((conflict_comm _ _).1 hc)

open Mltwist.Opcode Mltwist.Lemmas.Opcode in
theorem applyMask_eq_zipWith (a b : List UInt8) :
    applyMask a b = List.zipWith (fun x m => x &&& m) a b := by
  induction a generalizing b with
  | nil => cases b <;> simp [applyMask]
  | cons x xs ih => cases b <;> simp [applyMask, ih]

open Mltwist.Opcode Mltwist.Lemmas.Opcode in
theorem patMatches_iff_Matches (e : Entry) (bs : List UInt8) (hl : e.bytes.length = e.mask.length) :
    patMatches e.bytes e.mask bs = true ↔ Matches ⟨e.bytes, e.mask⟩ bs := by
  rw [matches_iff_masked _ _ hl, applyMask_take, applyMask_eq_zipWith, applyMask_eq_zipWith]
  simp [patMatches]

/-- the opcode patterns are valid and pairwise conflict-free (decidable) -/
def MatcherFacts (T : List Entry) : Prop :=
  (patsOf T).all Opcode.validate = true ∧
    (patsOf T).Pairwise (fun p q => Opcode.conflictB p q = false)

instance (T : List Entry) : Decidable (MatcherFacts T) := by
  unfold MatcherFacts; infer_instance

open Mltwist.Opcode Mltwist.Lemmas.Opcode in
theorem parseM_gen (T : List Entry) (hm : MatcherFacts T) (addr : Nat) (bs : List UInt8) :
    parseM T addr bs = some (parse T addr bs) := by
  have hwf := (all_validate_iff _).1 hm.1
  obtain ⟨M, hM⟩ := newMatcher_ok_of (patsOf T) hwf (noConflict_of_pairwise _ hm.2)
  have hb := built_of_ok _ _ hM
  have hlen : ∀ e ∈ T, e.bytes.length = e.mask.length := by
    intro e he
    exact wellFormed_len (p := ⟨e.bytes, e.mask⟩) (hwf _ (List.mem_map.2 ⟨e, he, rfl⟩))
  have hget : ∀ (i : Nat) (p : Pat), (patsOf T)[i]? = some p → ∃ e, T[i]? = some e ∧ p = ⟨e.bytes, e.mask⟩ := by
    intro i p hp
    simp only [patsOf, List.getElem?_map, Option.map_eq_some_iff] at hp
    obtain ⟨e, he, rfl⟩ := hp
    exact ⟨e, he, rfl⟩
  unfold parseM parse
  rw [hM]
  simp only []
  by_cases hs : bs.length < 4
  · simp [hs]
  · rw [if_neg hs, if_neg hs]
    cases hmt : M.match bs with
    | none =>
      simp only []
      have hnone : ∀ p ∈ patsOf T, ¬ Matches p bs := by
        intro p hp hmp
        obtain ⟨i, hi⟩ := List.mem_iff_getElem?.1 hp
        have := hb.match_complete bs i p hi hmp
        rw [Matcher.match] at hmt
        rw [hmt] at this
        cases this
      have : T.find? (fun e => patMatches e.bytes e.mask bs) = none := by
        rw [List.find?_eq_none]
        intro e he hme
        exact hnone ⟨e.bytes, e.mask⟩ (List.mem_map.2 ⟨e, he, rfl⟩)
          ((patMatches_iff_Matches e bs (hlen e he)).1 hme)
      rw [this]
    | some idx =>
      simp only []
      obtain ⟨p, hp, hmp⟩ := hb.match_sound bs idx hmt
      obtain ⟨e, he, rfl⟩ := hget idx p hp
      rw [he]
      simp only []
      have hein : e ∈ T := List.mem_of_getElem? he
      have hme := (patMatches_iff_Matches e bs (hlen e hein)).2 hmp
      cases hf : T.find? (fun e => patMatches e.bytes e.mask bs) with
      | none => exact absurd hme (List.find?_eq_none.1 hf e hein)
      | some e' =>
        have he'in := List.mem_of_find?_eq_some hf
        have he'm : patMatches e'.bytes e'.mask bs = true :=
          List.find?_some (p := fun e : Entry => patMatches e.bytes e.mask bs) hf
        obtain ⟨j, hj⟩ := List.mem_iff_getElem?.1 he'in
        have hpj : (patsOf T)[j]? = some ⟨e'.bytes, e'.mask⟩ := by
          simp [patsOf, List.getElem?_map, hj]
        have hmj := hb.match_complete bs j _ hpj
          ((patMatches_iff_Matches e' bs (hlen e' he'in)).1 he'm)
        rw [Matcher.match] at hmt
        rw [hmt] at hmj
        have : idx = j := Option.some.inj hmj
        subst this
        rw [he] at hj
        cases hj
        rfl

end Mltwist.Lemmas.RiscvDecode
