import Mltwist.Lemmas.SparseStore
import Mltwist.Lemmas.SparseOr
/-
C14, part 5: `Load`.
-/
namespace Mltwist.Lemmas.Sparse
open Mltwist Mltwist.Sparse Mltwist.Spec.Sparse

/-! ### contiguous chains (`wholeInterval`) -/

/-- the intervals follow one another without a gap, starting at `le` -/
def Chain : Nat → List KV → Prop
  | _, [] => True
  | le, o :: os => o.low = le ∧ Chain o.high os

/-- where a chain ends -/
def chainEnd : Nat → List KV → Nat
  | le, [] => le
  | _, o :: os => chainEnd o.high os

theorem wholeLoop_some : ∀ (os : List KV) (le le' : Nat), wholeLoop le os = some le' →
    Chain le os ∧ le' = chainEnd le os
  | [], le, le', h => by
    simp only [wholeLoop, Option.some.injEq] at h
    exact ⟨trivial, h.symm⟩
  | o :: os, le, le', h => by
    unfold wholeLoop at h
    by_cases h1 : o.low ≠ le
    · rw [if_pos h1] at h; cases h
    · rw [if_neg h1] at h
      have := wholeLoop_some os o.high le' h
      exact ⟨⟨by omega, this.1⟩, this.2⟩

theorem wholeLoop_none : ∀ (os : List KV) (le : Nat), wholeLoop le os = none → Ordered os →
    (∀ o ∈ os, o.low < o.high) → (∀ o ∈ os, le ≤ o.low) →
    ∃ x, le ≤ x ∧ (∃ o ∈ os, x < o.low) ∧ ∀ o ∈ os, ¬ Contains o x
  | [], le, h, _, _, _ => by simp [wholeLoop] at h
  | o :: os, le, h, hord, hne, hle => by
    rw [Ordered, List.pairwise_cons] at hord
    have ho := hne o List.mem_cons_self
    have hlo := hle o List.mem_cons_self
    unfold wholeLoop at h
    by_cases h1 : o.low ≠ le
    · refine ⟨le, Nat.le_refl _, ⟨o, List.mem_cons_self, by omega⟩, fun o' ho' hc => ?_⟩
      unfold Contains at hc
      rcases List.mem_cons.1 ho' with rfl | ho'
      · omega
      · have := hord.1 o' ho'; omega
    · rw [if_neg h1] at h
      obtain ⟨x, hx1, ⟨o', ho', hx2⟩, hx3⟩ := wholeLoop_none os o.high h hord.2
        (fun o' ho' => hne o' (List.mem_cons_of_mem _ ho')) hord.1
      refine ⟨x, by omega, ⟨o', List.mem_cons_of_mem _ ho', hx2⟩, fun o'' ho'' hc => ?_⟩
      rcases List.mem_cons.1 ho'' with rfl | ho''
      · unfold Contains at hc; omega
      · exact hx3 o'' ho'' hc

theorem chain_covers : ∀ (os : List KV) (le : Nat), Chain le os → (∀ o ∈ os, o.low < o.high) →
    le ≤ chainEnd le os ∧ (∀ o ∈ os, o.high ≤ chainEnd le os) ∧
    ∀ x, le ≤ x → x < chainEnd le os → ∃ o ∈ os, Contains o x
  | [], le, _, _ => by
    refine ⟨Nat.le_refl _, by simp, fun x h1 h2 => ?_⟩
    simp only [chainEnd] at h2; omega
  | o :: os, le, hc, hne => by
    obtain ⟨h1, h2⟩ := hc
    have ho := hne o List.mem_cons_self
    obtain ⟨i1, i2, i3⟩ := chain_covers os o.high h2 (fun o' ho' => hne o' (List.mem_cons_of_mem _ ho'))
    simp only [chainEnd]
    refine ⟨by omega, ?_, fun x hx1 hx2 => ?_⟩
    · intro o' ho'
      rcases List.mem_cons.1 ho' with rfl | ho'
      · exact i1
      · exact i2 o' ho'
    · by_cases hx : x < o.high
      · exact ⟨o, List.mem_cons_self, by unfold Contains; omega⟩
      · obtain ⟨o', ho', hc'⟩ := i3 x (by omega) hx2
        exact ⟨o', List.mem_cons_of_mem _ ho', hc'⟩

/-- `wholeInterval` decides whether every byte of the range is stored -/
theorem wholeInterval_iff (t : Tree) (hinv : Inv t) (a e : Nat) (hae : a < e) :
    wholeInterval a e (ovl t a e) = true ↔ ∀ x, a ≤ x → x < e → abs t x ≠ none := by
  obtain ⟨hord, hgood⟩ := hinv
  have hoo := ovl_ordered hord a e
  have hcov : ∀ x, a ≤ x → x < e → abs t x ≠ none → ∃ o ∈ ovl t a e, Contains o x := by
    intro x h1 h2 h3
    rcases abs_cases t x with ⟨hn, _⟩ | ⟨kv, hkv, hc, _⟩
    · exact absurd hn h3
    · exact ⟨kv, mem_ovl.2 ⟨hkv, by unfold Contains at hc; omega⟩, hc⟩
  have hsome : ∀ x, (∃ o ∈ ovl t a e, Contains o x) → abs t x ≠ none := by
    rintro x ⟨o, ho, hc⟩ hn
    exact (abs_eq_none_iff t x).1 hn o (mem_ovl.1 ho).1 hc
  cases hints : ovl t a e with
  | nil =>
    simp only [wholeInterval, Bool.false_eq_true, false_iff]
    intro h
    obtain ⟨o, ho, _⟩ := hcov a (Nat.le_refl _) hae (h a (Nat.le_refl _) hae)
    rw [hints] at ho; cases ho
  | cons i0 rest =>
    rw [hints] at hoo hcov hsome
    have hi0 := mem_ovl.1 (hints ▸ List.mem_cons_self : i0 ∈ ovl t a e)
    have hrest : ∀ o ∈ rest, o ∈ t ∧ o.low < e ∧ a < o.high :=
      fun o ho => mem_ovl.1 (hints ▸ List.mem_cons_of_mem _ ho : o ∈ ovl t a e)
    have hne : ∀ o ∈ rest, o.low < o.high := fun o ho => (hgood o (hrest o ho).1).1
    have hg0 := (hgood i0 hi0.1).1
    rw [Ordered, List.pairwise_cons] at hoo
    rw [wholeInterval]
    by_cases h1 : i0.low > a
    · rw [if_pos h1]
      simp only [Bool.false_eq_true, false_iff]
      intro h
      obtain ⟨o, ho, hc⟩ := hcov a (Nat.le_refl _) hae (h a (Nat.le_refl _) hae)
      unfold Contains at hc
      rcases List.mem_cons.1 ho with rfl | ho
      · omega
      · have := hoo.1 o ho; omega
    · rw [if_neg h1]
      cases hw : wholeLoop i0.high rest with
      | none =>
        simp only [Bool.false_eq_true, false_iff]
        intro h
        obtain ⟨x, hx1, ⟨o, ho, hx2⟩, hx3⟩ := wholeLoop_none rest i0.high hw hoo.2 hne hoo.1
        have hoe := (hrest o ho).2.1
        obtain ⟨o', ho', hc⟩ := hcov x (by omega) (by omega) (h x (by omega) (by omega))
        rcases List.mem_cons.1 ho' with rfl | ho'
        · unfold Contains at hc; omega
        · exact hx3 o' ho' hc
      | some le =>
        obtain ⟨hch, hle⟩ := wholeLoop_some rest i0.high le hw
        obtain ⟨c1, c2, c3⟩ := chain_covers rest i0.high hch hne
        simp only [Bool.not_eq_eq_eq_not, Bool.not_true, decide_eq_false_iff_not, Nat.not_lt]
        rw [hle]
        constructor
        · intro h x hx1 hx2
          apply hsome
          by_cases hx : x < i0.high
          · exact ⟨i0, List.mem_cons_self, by unfold Contains; omega⟩
          · obtain ⟨o, ho, hc⟩ := c3 x (by omega) (by omega)
            exact ⟨o, List.mem_cons_of_mem _ ho, hc⟩
        · intro h
          apply Classical.byContradiction
          intro hlt
          obtain ⟨o, ho, hc⟩ := hcov (chainEnd i0.high rest) (by omega) (by omega)
            (h _ (by omega) (by omega))
          unfold Contains at hc
          rcases List.mem_cons.1 ho with rfl | ho
          · omega
          · have := c2 o ho; omega

/-! ### the loaded expression -/

/-- what `cut` keeps of `o` for the range `[a, e)` -/
def clip (a e : Nat) (o : KV) : CutExpr :=
  { ex := o.val.ex, begin := o.val.begin + (max a o.low - o.low),
    end_ := o.val.begin + (min e o.high - o.low) }

theorem cutExpr_ext {c d : CutExpr} (h1 : c.ex = d.ex) (h2 : c.begin = d.begin) (h3 : c.end_ = d.end_) :
    c = d := by
  cases c; cases d; simp only at h1 h2 h3; subst h1 h2 h3; rfl

theorem cutTail_eq (e high : Nat) (he : e < 2 ^ 64) (c : CutExpr) (low : Nat) (hc1 : c.begin < c.end_)
    (hc2 : c.end_ ≤ 255) (hl : low < e) (hlen : high - low = c.end_ - c.begin) (hlh : low < high) :
    cutTail e high c low = CutExpr.expr { ex := c.ex, begin := c.begin, end_ := c.begin + (min e high - low) } := by
  unfold cutTail
  by_cases hr : e < high
  · rw [if_pos hr, sub64_eq (by omega) he, cutEnd_ok c (by omega) hc2 (e - low) (by omega)]
    simp only [bind, Except.bind]
    congr 1
    apply cutExpr_ext <;> simp only <;> omega
  · rw [if_neg hr]
    congr 1
    apply cutExpr_ext <;> simp only <;> omega

theorem cut_eq_clip (a e : Nat) (he : e < 2 ^ 64) (o : KV) (hg : o.Good) (h1 : o.low < e)
    (h2 : a < o.high) (hae : a < e) : cut a e o = (clip a e o).expr := by
  unfold KV.Good at hg
  unfold cut
  by_cases hl : o.low < a
  · rw [if_pos hl, sub64_eq (by omega) (by omega),
      cutBegin_ok o.val (by omega) (by omega) (o.high - a) (by omega)]
    simp only [bind, Except.bind]
    rw [cutTail_eq e o.high he _ a (by simp only; omega) (by simp only; omega) hae
      (by simp only; omega) h2]
    congr 1
    apply cutExpr_ext <;> simp only [clip] <;> omega
  · rw [if_neg hl, cutTail_eq e o.high he _ o.low (by omega) (by omega) h1 (by omega) (by omega)]
    congr 1
    apply cutExpr_ext <;> simp only [clip] <;> omega
/-- the bytes of the memory denoted by `t`, read little-endian from `a` -/
def S (ρ : Env) (t : Tree) (a n : Nat) : Nat := sumBytes (fun i => byteAt ρ (abs t (a + i))) n

theorem S_eq_loadVal (ρ : Env) (t : Tree) (a n : Nat) : S ρ t a n = loadVal ρ (abs t) a n := rfl

theorem byteAt_lt (ρ : Env) (c : Option Cell) : byteAt ρ c < 256 := by
  cases c with
  | none => simp [byteAt]
  | some c => exact Nat.mod_lt _ (by decide)

theorem S_lt (ρ : Env) (t : Tree) (a n : Nat) : S ρ t a n < 256 ^ n :=
  sumBytes_lt _ (fun _ => byteAt_lt ρ _) n

theorem byteAt_abs {t : Tree} (hord : Ordered t) {o : KV} (ho : o ∈ t) (hg : o.Good) {x : Nat}
    (hx : Contains o x) (ρ : Env) :
    byteAt ρ (abs t x) = byteOf (o.val.ex.eval ρ) (o.val.begin + (x - o.low)) := by
  rw [abs_eq_some_of_mem hord ho hx]
  simp only [byteAt]
  rw [byteVal_eq ρ _ (cell_lt hg hx)]
  rfl

/-- `cut` succeeds and yields the stored bytes of `[max a low, min e high)` -/
theorem cut_ok {t : Tree} (hord : Ordered t) (a e : Nat) (he : e < 2 ^ 64) (hae : a < e) (o : KV)
    (ho : o ∈ t) (hg : o.Good) (h1 : o.low < e) (h2 : a < o.high) :
    ∃ c, cut a e o = .ok c ∧ c.width = min e o.high - max a o.low ∧
      ∀ ρ, c.eval ρ = S ρ t (max a o.low) (min e o.high - max a o.low) := by
  rw [cut_eq_clip a e he o hg h1 h2 hae]
  have hg' := hg
  unfold KV.Good at hg'
  obtain ⟨c, hc1, hc2, hc3⟩ := expr_ok (clip a e o) (by simp only [clip]; omega) (by simp only [clip]; omega)
  have hn : (clip a e o).end_ - (clip a e o).begin = min e o.high - max a o.low := by
    simp only [clip]; omega
  refine ⟨c, hc1, by rw [hc2, hn], fun ρ => ?_⟩
  rw [hc3 ρ, hn, slice_eq_sum]
  unfold S
  apply sumBytes_congr
  intro j hj
  rw [byteAt_abs hord ho hg (x := max a o.low + j) (by unfold Contains; omega) ρ]
  simp only [clip]
  congr 1
  omega

theorem loadLoop_ok {t : Tree} (hord : Ordered t) (a w : Nat) (hw : w ≤ 255) (he : a + w < 2 ^ 64) :
    ∀ (os : List KV) (cur : Nat) (acc : Expr), Chain cur os →
      (∀ o ∈ os, o ∈ t ∧ o.Good ∧ o.low < a + w ∧ a < o.high) → a < cur →
      (∀ ρ, acc.eval ρ = S ρ t a (min cur (a + w) - a)) →
      ∃ r, loadLoop a (a + w) w os acc = .ok r ∧ (os = [] → r = acc) ∧ (os ≠ [] → r.width = w) ∧
        ∀ ρ, r.eval ρ = S ρ t a (min (chainEnd cur os) (a + w) - a)
  | [], cur, acc, _, _, _, hacc => ⟨acc, rfl, fun _ => rfl, fun h => absurd rfl h, hacc⟩
  | o :: os, cur, acc, hch, hos, hcur, hacc => by
    obtain ⟨hlow, hch'⟩ := hch
    obtain ⟨hot, hg, h1, h2⟩ := hos o List.mem_cons_self
    have hg' := hg
    unfold KV.Good at hg'
    obtain ⟨c, hc1, hc2, hc3⟩ := cut_ok hord a (a + w) he (by omega) o hot hg h1 h2
    have hmax : max a o.low = cur := by omega
    rw [hmax] at hc2 hc3
    unfold loadLoop
    rw [hc1]
    simp only [bind, Except.bind]
    have hk : sub64 o.low a = cur - a := by rw [sub64_eq (by omega) (by omega), hlow]
    rw [hk]
    have hmin : min cur (a + w) - a = cur - a := by omega
    have hstep : ∀ ρ, (Tools.bitOr acc (Expr.binary .lsh c (Tools.constUint ((cur - a) * 8 % 2 ^ 64) 8) w) w).eval ρ
        = S ρ t a (min o.high (a + w) - a) := by
      intro ρ
      rw [eval_or_lsh ρ acc c (cur - a) (min (a + w) o.high - cur) w _ _ (by rw [hacc ρ, hmin])
        (S_lt ρ t a _) (hc3 ρ) (S_lt ρ t _ _) (by omega) (by omega) (by omega) hw]
      have hsplit : min o.high (a + w) - a = (cur - a) + (min (a + w) o.high - cur) := by omega
      rw [hsplit]
      unfold S
      rw [sumBytes_add]
      congr 2
      apply sumBytes_congr
      intro j _
      have : a + (cur - a + j) = cur + j := by omega
      rw [this]
    obtain ⟨r, hr1, hr2, hr3, hr4⟩ := loadLoop_ok hord a w hw he os o.high _ hch'
      (fun o' ho' => hos o' (List.mem_cons_of_mem _ ho')) (by omega) hstep
    refine ⟨r, hr1, fun h => absurd h (List.cons_ne_nil _ _), fun _ => ?_, hr4⟩
    cases os with
    | nil => rw [hr2 rfl]; rfl
    | cons o' os' => exact hr3 (List.cons_ne_nil _ _)

theorem wholeInterval_true {a e : Nat} {i0 : KV} {rest : List KV}
    (h : wholeInterval a e (i0 :: rest) = true) :
    i0.low ≤ a ∧ Chain i0.high rest ∧ e ≤ chainEnd i0.high rest := by
  rw [wholeInterval] at h
  by_cases h1 : i0.low > a
  · rw [if_pos h1] at h; cases h
  · rw [if_neg h1] at h
    cases hw : wholeLoop i0.high rest with
    | none => rw [hw] at h; cases h
    | some le =>
      rw [hw] at h
      simp only [Bool.not_eq_eq_eq_not, Bool.not_true, decide_eq_false_iff_not, Nat.not_lt] at h
      obtain ⟨hc, hle⟩ := wholeLoop_some rest i0.high le hw
      exact ⟨by omega, hc, by omega⟩

/-- `Load` never panics, succeeds exactly when every byte of the range is stored, and then returns
an expression of width `w` whose value is the little-endian sum of the stored bytes -/
theorem load_ok (t : Tree) (hinv : Inv t) (a w : Nat) (hd : InDom a w) :
    ∃ r, load t a w = .ok r ∧ (r ≠ none ↔ ∀ i, i < w → abs t (a + i) ≠ none) ∧
      ∀ e, r = some e → e.width = w ∧ ∀ ρ, e.eval ρ = loadVal ρ (abs t) a w := by
  obtain ⟨hw1, hw2, hlt⟩ := hd
  have hiff := wholeInterval_iff t hinv a (a + w) (by omega)
  have hpres : (∀ x, a ≤ x → x < a + w → abs t x ≠ none) ↔ ∀ i, i < w → abs t (a + i) ≠ none := by
    constructor
    · intro h i hi; exact h (a + i) (by omega) (by omega)
    · intro h x h1 h2
      have := h (x - a) (by omega)
      rwa [show a + (x - a) = x by omega] at this
  rw [hpres] at hiff
  unfold load
  rw [endAddr_eq hlt]
  dsimp only
  rw [overlaps_eq t (by omega)]
  simp only [bind, Except.bind]
  by_cases hwi : wholeInterval a (a + w) (ovl t a (a + w)) = true
  · rw [hwi]
    simp only [Bool.not_true, Bool.false_eq_true, if_false]
    have hmem : ∀ o ∈ ovl t a (a + w), o ∈ t ∧ o.Good ∧ o.low < a + w ∧ a < o.high :=
      fun o ho => ⟨(mem_ovl.1 ho).1, hinv.2 o (mem_ovl.1 ho).1, (mem_ovl.1 ho).2⟩
    cases hints : ovl t a (a + w) with
    | nil => rw [hints] at hwi; simp [wholeInterval] at hwi
    | cons i0 rest =>
      rw [hints] at hwi hmem
      obtain ⟨hl, hch, hce⟩ := wholeInterval_true hwi
      obtain ⟨hi0t, hi0g, hi01, hi02⟩ := hmem i0 List.mem_cons_self
      obtain ⟨c0, hc1, hc2, hc3⟩ := cut_ok hinv.1 a (a + w) hlt (by omega) i0 hi0t hi0g hi01 hi02
      have hmax : max a i0.low = a := by omega
      rw [hmax] at hc2 hc3
      obtain ⟨r, hr1, hr2, hr3, hr4⟩ := loadLoop_ok hinv.1 a w hw2 hlt rest i0.high c0 hch
        (fun o ho => hmem o (List.mem_cons_of_mem _ ho)) hi02
        (fun ρ => by rw [hc3 ρ, Nat.min_comm])
      simp only
      rw [hc1]
      simp only
      rw [hr1]
      refine ⟨some r, rfl, ?_, ?_⟩
      · constructor
        · intro _; exact hiff.1 (hints ▸ hwi)
        · intro _ h; cases h
      · intro e he
        cases he
        have hmin : min (chainEnd i0.high rest) (a + w) - a = w := by omega
        refine ⟨?_, fun ρ => by rw [hr4 ρ, hmin]; rfl⟩
        cases rest with
        | nil =>
          rw [hr2 rfl, hc2]
          simp only [chainEnd] at hce
          omega
        | cons o os => exact hr3 (List.cons_ne_nil _ _)
  · have hwi' : wholeInterval a (a + w) (ovl t a (a + w)) = false := by
      cases h : wholeInterval a (a + w) (ovl t a (a + w)) with
      | true => exact absurd h hwi
      | false => rfl
    rw [hwi']
    simp only [Bool.not_false, if_true]
    refine ⟨none, rfl, ?_, fun e he => by cases he⟩
    constructor
    · intro h; exact absurd rfl h
    · intro h; exact absurd (hiff.2 h) hwi

end Mltwist.Lemmas.Sparse
