import Mltwist.Lemmas.EmulatorNodes
import Mltwist.Lemmas.RiscvLiftValues
/-
C03 support: the SHAPE of the memory accesses of the lifted RV64IMA instructions.  For every table entry,
every instruction word and every reference state: every `MemLoad` node of every lifted expression and
every `MemStore` effect addresses exactly the reference's `accessRange` (key `memory`, the address
expression evaluates to the reference's address, same number of bytes).  Instructions without memory
access have no `MemLoad` node and no `MemStore`.  Table-wide, in the style of `RiscvLiftX0.lean`:
one lemma per gadget ("all load nodes satisfy `P`" is compositional), then `simp` over the tables.
-/
namespace Mltwist.Lemmas.RiscvLift
open Mltwist Mltwist.Riscv Mltwist.Spec.Rv Mltwist.Spec.Lift Mltwist.Lemmas.Emulator
set_option linter.unusedSimpArgs false

/-- every load node `(key, address, width)` of the expression satisfies `P` -/
def AllNodes (P : String → Expr → Nat → Prop) : Expr → Prop
  | .const _ => True
  | .regLoad _ _ => True
  | .binary _ a b _ => AllNodes P a ∧ AllNodes P b
  | .less a b t f _ => AllNodes P a ∧ AllNodes P b ∧ AllNodes P t ∧ AllNodes P f
  | .memLoad k a w => P k a w ∧ AllNodes P a

theorem allNodes_iff (P : String → Expr → Nat → Prop) : ∀ e : Expr,
    AllNodes P e ↔ ∀ n ∈ memNodes e, P n.1 n.2.1 n.2.2
  | .const _ => by simp [AllNodes, memNodes]
  | .regLoad _ _ => by simp [AllNodes, memNodes]
  | .binary _ a b _ => by
    simp only [AllNodes, memNodes, List.mem_append, allNodes_iff P a, allNodes_iff P b]
    constructor
    · rintro ⟨h1, h2⟩ n (h | h)
      · exact h1 n h
      · exact h2 n h
    · intro h; exact ⟨fun n hn => h n (Or.inl hn), fun n hn => h n (Or.inr hn)⟩
  | .less a b t f _ => by
    simp only [AllNodes, memNodes, List.mem_append, allNodes_iff P a, allNodes_iff P b, allNodes_iff P t,
      allNodes_iff P f]
    constructor
    · rintro ⟨h1, h2, h3, h4⟩ n (((h | h) | h) | h)
      · exact h1 n h
      · exact h2 n h
      · exact h3 n h
      · exact h4 n h
    · intro h
      exact ⟨fun n hn => h n (Or.inl (Or.inl (Or.inl hn))), fun n hn => h n (Or.inl (Or.inl (Or.inr hn))),
        fun n hn => h n (Or.inl (Or.inr hn)), fun n hn => h n (Or.inr hn)⟩
  | .memLoad k a w => by
    simp only [AllNodes, memNodes, List.mem_cons, allNodes_iff P a]
    constructor
    · rintro ⟨h1, h2⟩ n (rfl | h)
      · exact h1
      · exact h2 n h
    · intro h; exact ⟨h (k, a, w) (Or.inl rfl), fun n hn => h n (Or.inr hn)⟩

section
variable {P : String → Expr → Nat → Prop}

/-! ### leaves -/

@[simp] theorem an_const (bs : List UInt8) : AllNodes P (.const bs) := trivial
@[simp] theorem an_exprRegLoad (k : String) (w : Nat) : AllNodes P (.regLoad k w) := trivial
@[simp] theorem an_zero : AllNodes P Expr.zero := trivial
@[simp] theorem an_one : AllNodes P Expr.one := trivial
@[simp] theorem an_constUint (v n : Nat) : AllNodes P (Tools.constUint v n) := trivial
@[simp] theorem an_constFromUint (n v : Nat) : AllNodes P (constFromUint n v) := trivial
@[simp] theorem an_constFromInt (n : Nat) (v : Int) : AllNodes P (constFromInt n v) := trivial
@[simp] theorem an_addrConst (a n : Nat) : AllNodes P (addrConst a n) := trivial
@[simp] theorem an_immConst (t : ImmType) (i : Ins) (w : Nat) : AllNodes P (immConst t i w) := trivial
@[simp] theorem an_addrImmConst (t : ImmType) (i : Ins) (w : Nat) : AllNodes P (addrImmConst t i w) := trivial
@[simp] theorem an_csrImm (i : Ins) : AllNodes P (csrImm i) := trivial
@[simp] theorem an_regLoad (r : Reg) (i : Ins) (w : Nat) : AllNodes P (regLoad r i w) := by
  unfold regLoad
  simp only
  split <;> trivial

/-! ### gadgets -/

theorem an_bin {a b : Expr} (op : BinOp) (w : Nat) (ha : AllNodes P a) (hb : AllNodes P b) :
    AllNodes P (.binary op a b w) := ⟨ha, hb⟩
theorem an_less {a b t f : Expr} (w : Nat) (ha : AllNodes P a) (hb : AllNodes P b) (ht : AllNodes P t)
    (hf : AllNodes P f) : AllNodes P (.less a b t f w) := ⟨ha, hb, ht, hf⟩
theorem an_ones (w : Nat) : AllNodes P (Tools.ones w) := an_bin _ w an_zero an_zero
theorem an_bitNot {e : Expr} (w : Nat) (he : AllNodes P e) : AllNodes P (Tools.bitNot e w) :=
  an_bin _ w he (an_ones w)
theorem an_bitAnd {a b : Expr} (w : Nat) (ha : AllNodes P a) (hb : AllNodes P b) :
    AllNodes P (Tools.bitAnd a b w) := an_bitNot w (an_bin _ w ha hb)
theorem an_bitOr {a b : Expr} (w : Nat) (ha : AllNodes P a) (hb : AllNodes P b) :
    AllNodes P (Tools.bitOr a b w) := an_bin _ w (an_bitNot w ha) (an_bitNot w hb)
theorem an_bitXor {a b : Expr} (w : Nat) (ha : AllNodes P a) (hb : AllNodes P b) :
    AllNodes P (Tools.bitXor a b w) := by
  unfold Tools.bitXor
  exact an_bin _ w (an_bin _ w ha (an_bin _ w ha hb)) (an_bin _ w hb (an_bin _ w ha hb))
theorem an_negate {e : Expr} (w : Nat) (he : AllNodes P e) : AllNodes P (Tools.negate e w) :=
  an_bin _ w (an_bitNot w he) an_one
theorem an_sub {a b : Expr} (w : Nat) (ha : AllNodes P a) (hb : AllNodes P b) : AllNodes P (Tools.sub a b w) :=
  an_bin _ w ha (an_negate w hb)
theorem an_signBitMask (w : Nat) : AllNodes P (Tools.signBitMask w) := by
  unfold Tools.signBitMask
  simp only
  split
  · trivial
  · exact an_bin _ w an_one (an_constUint _ 2)
theorem an_bitMaskRaw (bits w : Nat) : AllNodes P (Tools.bitMaskRaw bits w) := by
  unfold Tools.bitMaskRaw
  split
  · trivial
  · exact an_sub w (an_bin _ w an_one (an_constUint _ 2)) an_one
theorem an_bitMask (bits w : Nat) : AllNodes P (Tools.bitMask bits w) := an_bitMaskRaw _ w
theorem an_maskBits {e : Expr} (cnt w : Nat) (he : AllNodes P e) : AllNodes P (Tools.maskBits e cnt w) :=
  an_bitAnd w he (an_bitMask cnt w)
theorem an_intNegative {e : Expr} (w : Nat) (he : AllNodes P e) : AllNodes P (Tools.intNegative e w) :=
  an_bitAnd w he (an_signBitMask w)
theorem an_absMask {e mask : Expr} (he : AllNodes P e) (hm : AllNodes P mask) : AllNodes P (Tools.absMask e mask) := by
  unfold Tools.absMask
  exact an_less _ he hm he (an_negate _ he)
theorem an_abs {e : Expr} (w : Nat) (he : AllNodes P e) : AllNodes P (Tools.abs e w) :=
  an_absMask he (an_signBitMask w)
theorem an_mod {a b : Expr} (w : Nat) (ha : AllNodes P a) (hb : AllNodes P b) : AllNodes P (Tools.mod a b w) := by
  unfold Tools.mod
  exact an_sub w ha (an_bin _ w (an_bin _ w ha hb) hb)
theorem an_newWidthGadget {e : Expr} (w : Nat) (he : AllNodes P e) : AllNodes P (newWidthGadget e w) :=
  an_bin _ w he an_zero
theorem an_bool {e : Expr} (he : AllNodes P e) : AllNodes P (Tools.bool e) := by
  unfold Tools.bool
  exact an_newWidthGadget 1 (an_less _ he an_one an_zero an_one)
theorem an_boolCond {b t f : Expr} (w : Nat) (hb : AllNodes P b) (ht : AllNodes P t) (hf : AllNodes P f) :
    AllNodes P (Tools.boolCond b t f w) := an_less w an_zero hb ht hf
theorem an_negativeSignJoin {a b : Expr} (ha : AllNodes P a) (hb : AllNodes P b) :
    AllNodes P (Tools.negativeSignJoin a b) := by
  unfold Tools.negativeSignJoin
  exact an_bitXor 1 (an_bool (an_intNegative _ ha)) (an_bool (an_intNegative _ hb))
theorem an_signExtend {e sb : Expr} (w : Nat) (he : AllNodes P e) (hs : AllNodes P sb) :
    AllNodes P (Tools.signExtend e sb w) := by
  unfold Tools.signExtend
  simp only
  have hsm : AllNodes P (Expr.binary .lsh Expr.one sb w) := an_bin _ w an_one hs
  have hvm := an_sub w hsm (an_one (P := P))
  exact an_boolCond w (an_bitAnd w he hsm) (an_bitOr w he (an_bitNot w hvm)) (an_bitAnd w he hvm)
theorem an_signedMul {a b : Expr} (w : Nat) (ha : AllNodes P a) (hb : AllNodes P b) :
    AllNodes P (Tools.signedMul a b w) := by
  unfold Tools.signedMul
  simp only
  exact an_bin _ _ (an_signExtend _ ha (an_constUint _ 2)) (an_signExtend _ hb (an_constUint _ 2))
theorem an_signedOp {a b : Expr} (w : Nat) (f : Expr → Expr → Nat → Expr)
    (hf : ∀ x y, AllNodes P x → AllNodes P y → AllNodes P (f x y w)) (ha : AllNodes P a) (hb : AllNodes P b) :
    AllNodes P (Tools.signedOp a b w f) := by
  unfold Tools.signedOp
  simp only
  have hu := hf _ _ (an_abs a.width ha) (an_abs b.width hb)
  exact an_boolCond w (an_negativeSignJoin ha hb) (an_negate w hu) hu
theorem an_signedDiv {a b : Expr} (w : Nat) (ha : AllNodes P a) (hb : AllNodes P b) :
    AllNodes P (Tools.signedDiv a b w) := by
  unfold Tools.signedDiv
  exact an_boolCond w hb (an_signedOp w _ (fun x y hx hy => an_bin _ w hx hy) ha hb) (an_ones w)
theorem an_rshA {e s : Expr} (w : Nat) (he : AllNodes P e) (hs : AllNodes P s) : AllNodes P (Tools.rshA e s w) := by
  unfold Tools.rshA
  simp only
  have ho := an_ones (P := P) w
  have hr : AllNodes P (Expr.binary .rsh e s w) := an_bin _ w he hs
  exact an_less w he (an_signBitMask w) hr (an_bitOr w hr (an_sub w ho (an_bin _ w ho hs)))
theorem an_eq {a b t f : Expr} (w : Nat) (ha : AllNodes P a) (hb : AllNodes P b) (ht : AllNodes P t)
    (hf : AllNodes P f) : AllNodes P (Tools.eq a b t f w) := an_less w (an_sub w ha hb) an_one ht hf
theorem an_lts {a b t f : Expr} (w : Nat) (ha : AllNodes P a) (hb : AllNodes P b) (ht : AllNodes P t)
    (hf : AllNodes P f) : AllNodes P (Tools.lts a b t f w) := by
  unfold Tools.lts
  simp only
  have hm := an_signBitMask (P := P) w
  have s1 := an_bitAnd w ha hm
  have s2 := an_bitAnd w hb hm
  have a1 := an_absMask ha hm
  have a2 := an_absMask hb hm
  exact an_less w an_zero (an_bitXor w s1 s2) (an_less w s1 s2 hf ht)
    (an_less w an_zero s1 (an_less w a2 a1 ht hf) (an_less w a1 a2 ht hf))

/-! ### helpers of `opcodes.go` -/

def BinFN (P : String → Expr → Nat → Prop) (f : BinF) : Prop :=
  ∀ a b w, AllNodes P a → AllNodes P b → AllNodes P (f a b w)
def CondFN (P : String → Expr → Nat → Prop) (f : CondF) : Prop :=
  ∀ a b t e w, AllNodes P a → AllNodes P b → AllNodes P t → AllNodes P e → AllNodes P (f a b t e w)

@[simp] theorem binFN_binOp (op : BinOp) : BinFN P (binOpFunc op) := fun _ _ w ha hb => an_bin op w ha hb
@[simp] theorem binFN_sub : BinFN P Tools.sub := fun _ _ w ha hb => an_sub w ha hb
@[simp] theorem binFN_bitAnd : BinFN P Tools.bitAnd := fun _ _ w ha hb => an_bitAnd w ha hb
@[simp] theorem binFN_bitOr : BinFN P Tools.bitOr := fun _ _ w ha hb => an_bitOr w ha hb
@[simp] theorem binFN_bitXor : BinFN P Tools.bitXor := fun _ _ w ha hb => an_bitXor w ha hb
@[simp] theorem binFN_rshA : BinFN P Tools.rshA := fun _ _ w ha hb => an_rshA w ha hb
@[simp] theorem condFN_less : CondFN P lessFunc := fun _ _ _ _ w ha hb ht hf => an_less w ha hb ht hf
@[simp] theorem condFN_lts : CondFN P Tools.lts := fun _ _ _ _ w ha hb ht hf => an_lts w ha hb ht hf
@[simp] theorem condFN_eq : CondFN P Tools.eq := fun _ _ _ _ w ha hb ht hf => an_eq w ha hb ht hf
@[simp] theorem binFN_atomicMinMax (f : CondF) (neg : Bool) (hf : CondFN P f) : BinFN P (atomicMinMax f neg) := by
  intro a b w ha hb
  unfold atomicMinMax
  split
  · exact hf _ _ _ _ _ ha hb hb ha
  · exact hf _ _ _ _ _ ha hb ha hb

theorem an_regImmOp {f : BinF} (hf : BinFN P f) (t : ImmType) (i : Ins) (w : Nat) : AllNodes P (regImmOp f t i w) :=
  hf _ _ _ (an_regLoad _ i w) (an_immConst t i w)
theorem an_reg2Op {f : BinF} (hf : BinFN P f) (i : Ins) (w : Nat) : AllNodes P (reg2Op f i w) :=
  hf _ _ _ (an_regLoad _ i w) (an_regLoad _ i w)
theorem an_maskedRegOp {f : BinF} (hf : BinFN P f) (i : Ins) (bits w : Nat) : AllNodes P (maskedRegOp f i bits w) :=
  hf _ _ _ (an_regLoad _ i w) (an_maskBits bits w (an_regLoad _ i w))
theorem an_regImmShift {f : BinF} (hf : BinFN P f) (i : Ins) (bits w : Nat) : AllNodes P (regImmShift f i bits w) :=
  hf _ _ _ (an_regLoad _ i w) (an_constFromInt 4 _)
theorem an_sext {e : Expr} (sb w : Nat) (he : AllNodes P e) : AllNodes P (sext e sb w) :=
  an_signExtend w he (an_constFromUint 1 sb)
theorem an_sext32To64 {e : Expr} (he : AllNodes P e) : AllNodes P (sext32To64 e) := an_sext 31 8 he
theorem an_jumpTarget (i : Ins) (w : Nat) : AllNodes P (jumpTarget i w) :=
  an_bitAnd w (an_regImmOp (binFN_binOp .add) .I i w) (an_constFromInt w _)
theorem an_signedRem {a b : Expr} (w : Nat) (ha : AllNodes P a) (hb : AllNodes P b) : AllNodes P (signedRem a b w) := by
  unfold signedRem
  exact an_sub w ha (an_bin _ w (an_signedDiv w ha hb) hb)
theorem an_mulhsu {a b : Expr} (w : Nat) (ha : AllNodes P a) (hb : AllNodes P b) : AllNodes P (mulhsu a b w) := by
  unfold mulhsu
  simp only
  exact an_newWidthGadget w (an_bin _ _ (an_bin _ _ (an_signExtend _ ha (an_constFromUint 2 _)) hb)
    (an_constFromUint 2 _))
theorem an_memLoad {a : Expr} (w : Nat) (hp : P memoryKey a w) (ha : AllNodes P a) : AllNodes P (memLoad a w) :=
  ⟨hp, ha⟩

end

/-! ### the shape of the effects -/

/-- the load node / store `(k, a, n)` accesses the reference's range: key `memory`, the address expression
has the value of the reference's address, `n` bytes -/
def NodeOK (name : String) (w : Nat) (s : St) (ρ : Env) (k : String) (a : Expr) (n : Nat) : Prop :=
  k = memKey ∧ accessRange 64 name w s = some (a.eval ρ % 2 ^ 64, n)

/-- an effect: all load nodes of its expressions, and the store itself, access the reference's range -/
def EffShape (name : String) (w : Nat) (s : St) (ρ : Env) : Effect → Prop
  | .regStore v _ _ => AllNodes (NodeOK name w s ρ) v
  | .memStore v k a n => AllNodes (NodeOK name w s ρ) v ∧ AllNodes (NodeOK name w s ρ) a ∧ NodeOK name w s ρ k a n

def OShape (name : String) (w : Nat) (s : St) (ρ : Env) (o : Option Effect) : Prop :=
  ∀ ef, o = some ef → EffShape name w s ρ ef

@[simp] theorem oshape_none {name : String} {w : Nat} {s : St} {ρ : Env} : OShape name w s ρ none :=
  fun _ h => nomatch h

theorem oshape_regStore {name : String} {w : Nat} {s : St} {ρ : Env} {e : Expr}
    (he : AllNodes (NodeOK name w s ρ) e) (i : Ins) (W : Nat) : OShape name w s ρ (Riscv.regStore e i W) := by
  intro ef h
  unfold Riscv.regStore at h
  simp only at h
  split at h
  · cases h
  · cases h; exact he

theorem oshape_effRegStore {name : String} {w : Nat} {s : St} {ρ : Env} {e : Expr}
    (he : AllNodes (NodeOK name w s ρ) e) (k : String) (W : Nat) :
    OShape name w s ρ (some (Effect.regStore e k W)) := by
  intro ef h; cases h; exact he

theorem oshape_memStore {name : String} {w : Nat} {s : St} {ρ : Env} {v a : Expr} {n : Nat}
    (hv : AllNodes (NodeOK name w s ρ) v) (ha : AllNodes (NodeOK name w s ρ) a)
    (hp : NodeOK name w s ρ memoryKey a n) : OShape name w s ρ (some (Riscv.memStore v a n)) := by
  intro ef h; cases h; exact ⟨hv, ha, hp⟩

theorem oshape_branchCmp {name : String} {w : Nat} {s : St} {ρ : Env} {f : CondF}
    (hf : CondFN (NodeOK name w s ρ) f) (b : Bool) (i : Ins) (W : Nat) :
    OShape name w s ρ (some (branchCmp f b i W)) := by
  intro ef he
  cases he
  unfold branchCmp
  simp only
  split <;> exact hf _ _ _ _ _ (an_regLoad _ i W) (an_regLoad _ i W) trivial trivial

/-! ### the three address forms -/

theorem nodeOK_ld {ρ : Env} {s : St} {w : Nat} (h : Ctx 64 8 ρ s w) {name : String} {n : Nat}
    (hacc : accessRange 64 name w s = some (ldAddr 64 w s, n)) (a : Nat) :
    NodeOK name w s ρ memoryKey (regImmOp (binOpFunc .add) .I ⟨a, w⟩ 8) n := by
  refine ⟨rfl, ?_⟩
  rw [h.eval_addI, Nat.mod_eq_of_lt (Ctx.ldAddr_lt 64 w s)]
  exact hacc

theorem nodeOK_st {ρ : Env} {s : St} {w : Nat} (h : Ctx 64 8 ρ s w) {name : String} {n : Nat}
    (hacc : accessRange 64 name w s = some (stAddr 64 w s, n)) (a : Nat) :
    NodeOK name w s ρ memoryKey (regImmOp (binOpFunc .add) .S ⟨a, w⟩ 8) n := by
  refine ⟨rfl, ?_⟩
  rw [h.eval_addS, Nat.mod_eq_of_lt (Ctx.stAddr_lt 64 w s)]
  exact hacc

theorem nodeOK_rs1 {ρ : Env} {s : St} {w : Nat} (h : Ctx 64 8 ρ s w) {name : String} {n : Nat}
    (hacc : accessRange 64 name w s = some (s.get (rs1 w), n)) (a : Nat) :
    NodeOK name w s ρ memoryKey (regLoad .rs1 ⟨a, w⟩ 8) n := by
  refine ⟨rfl, ?_⟩
  rw [h.eval_rs1, Nat.mod_eq_of_lt (h.get_lt _)]
  exact hacc

/-! ### the reference's access ranges, by mnemonic -/

@[simp] theorem accessRange_lb (w : Nat) (s : St) : accessRange 64 "lb" w s = some (ldAddr 64 w s, 1) := rfl
@[simp] theorem accessRange_lh (w : Nat) (s : St) : accessRange 64 "lh" w s = some (ldAddr 64 w s, 2) := rfl
@[simp] theorem accessRange_lw (w : Nat) (s : St) : accessRange 64 "lw" w s = some (ldAddr 64 w s, 4) := rfl
@[simp] theorem accessRange_ld (w : Nat) (s : St) : accessRange 64 "ld" w s = some (ldAddr 64 w s, 8) := rfl
@[simp] theorem accessRange_lbu (w : Nat) (s : St) : accessRange 64 "lbu" w s = some (ldAddr 64 w s, 1) := rfl
@[simp] theorem accessRange_lhu (w : Nat) (s : St) : accessRange 64 "lhu" w s = some (ldAddr 64 w s, 2) := rfl
@[simp] theorem accessRange_lwu (w : Nat) (s : St) : accessRange 64 "lwu" w s = some (ldAddr 64 w s, 4) := rfl
@[simp] theorem accessRange_sb (w : Nat) (s : St) : accessRange 64 "sb" w s = some (stAddr 64 w s, 1) := rfl
@[simp] theorem accessRange_sh (w : Nat) (s : St) : accessRange 64 "sh" w s = some (stAddr 64 w s, 2) := rfl
@[simp] theorem accessRange_sw (w : Nat) (s : St) : accessRange 64 "sw" w s = some (stAddr 64 w s, 4) := rfl
@[simp] theorem accessRange_sd (w : Nat) (s : St) : accessRange 64 "sd" w s = some (stAddr 64 w s, 8) := rfl
@[simp] theorem accessRange_lr_w (w : Nat) (s : St) : accessRange 64 "lr.w" w s = some (s.get (rs1 w), 4) := rfl
@[simp] theorem accessRange_sc_w (w : Nat) (s : St) : accessRange 64 "sc.w" w s = some (s.get (rs1 w), 4) := rfl
@[simp] theorem accessRange_amoswap_w (w : Nat) (s : St) : accessRange 64 "amoswap.w" w s = some (s.get (rs1 w), 4) := rfl
@[simp] theorem accessRange_amoadd_w (w : Nat) (s : St) : accessRange 64 "amoadd.w" w s = some (s.get (rs1 w), 4) := rfl
@[simp] theorem accessRange_amoxor_w (w : Nat) (s : St) : accessRange 64 "amoxor.w" w s = some (s.get (rs1 w), 4) := rfl
@[simp] theorem accessRange_amoand_w (w : Nat) (s : St) : accessRange 64 "amoand.w" w s = some (s.get (rs1 w), 4) := rfl
@[simp] theorem accessRange_amoor_w (w : Nat) (s : St) : accessRange 64 "amoor.w" w s = some (s.get (rs1 w), 4) := rfl
@[simp] theorem accessRange_amomin_w (w : Nat) (s : St) : accessRange 64 "amomin.w" w s = some (s.get (rs1 w), 4) := rfl
@[simp] theorem accessRange_amomax_w (w : Nat) (s : St) : accessRange 64 "amomax.w" w s = some (s.get (rs1 w), 4) := rfl
@[simp] theorem accessRange_amominu_w (w : Nat) (s : St) : accessRange 64 "amominu.w" w s = some (s.get (rs1 w), 4) := rfl
@[simp] theorem accessRange_amomaxu_w (w : Nat) (s : St) : accessRange 64 "amomaxu.w" w s = some (s.get (rs1 w), 4) := rfl
@[simp] theorem accessRange_lr_d (w : Nat) (s : St) : accessRange 64 "lr.d" w s = some (s.get (rs1 w), 8) := rfl
@[simp] theorem accessRange_sc_d (w : Nat) (s : St) : accessRange 64 "sc.d" w s = some (s.get (rs1 w), 8) := rfl
@[simp] theorem accessRange_amoswap_d (w : Nat) (s : St) : accessRange 64 "amoswap.d" w s = some (s.get (rs1 w), 8) := rfl
@[simp] theorem accessRange_amoadd_d (w : Nat) (s : St) : accessRange 64 "amoadd.d" w s = some (s.get (rs1 w), 8) := rfl
@[simp] theorem accessRange_amoxor_d (w : Nat) (s : St) : accessRange 64 "amoxor.d" w s = some (s.get (rs1 w), 8) := rfl
@[simp] theorem accessRange_amoand_d (w : Nat) (s : St) : accessRange 64 "amoand.d" w s = some (s.get (rs1 w), 8) := rfl
@[simp] theorem accessRange_amoor_d (w : Nat) (s : St) : accessRange 64 "amoor.d" w s = some (s.get (rs1 w), 8) := rfl
@[simp] theorem accessRange_amomin_d (w : Nat) (s : St) : accessRange 64 "amomin.d" w s = some (s.get (rs1 w), 8) := rfl
@[simp] theorem accessRange_amomax_d (w : Nat) (s : St) : accessRange 64 "amomax.d" w s = some (s.get (rs1 w), 8) := rfl
@[simp] theorem accessRange_amominu_d (w : Nat) (s : St) : accessRange 64 "amominu.d" w s = some (s.get (rs1 w), 8) := rfl
@[simp] theorem accessRange_amomaxu_d (w : Nat) (s : St) : accessRange 64 "amomaxu.d" w s = some (s.get (rs1 w), 8) := rfl

/-! ### the atomic helpers -/

theorem oshape_atomicOp {name : String} {w : Nat} {s : St} {ρ : Env} {f : BinF}
    (hf : BinFN (NodeOK name w s ρ) f) (i : Ins) (W : Nat)
    (hp : NodeOK name w s ρ memoryKey (regLoad .rs1 i W) W) : ∀ o ∈ atomicOp f i W, OShape name w s ρ o := by
  unfold atomicOp
  simp only
  have hl := an_memLoad (P := NodeOK name w s ρ) W hp (an_regLoad .rs1 i W)
  intro o ho
  simp only [List.mem_cons, List.not_mem_nil, or_false] at ho
  rcases ho with rfl | rfl
  · exact oshape_regStore hl i W
  · exact oshape_memStore (hf _ _ _ hl (an_regLoad _ i W)) (an_regLoad _ i W) hp

theorem oshape_atomicOpWidth {name : String} {w : Nat} {s : St} {ρ : Env} {f : BinF}
    (hf : BinFN (NodeOK name w s ρ) f) (i : Ins) (aw ow : Nat)
    (hp : NodeOK name w s ρ memoryKey (regLoad .rs1 i aw) ow) :
    ∀ o ∈ atomicOpWidth f i aw ow, OShape name w s ρ o := by
  unfold atomicOpWidth
  simp only
  have hl := an_memLoad (P := NodeOK name w s ρ) ow hp (an_regLoad .rs1 i aw)
  intro o ho
  simp only [List.mem_cons, List.not_mem_nil, or_false] at ho
  rcases ho with rfl | rfl
  · exact oshape_regStore (an_sext32To64 hl) i aw
  · exact oshape_memStore (hf _ _ _ hl (an_regLoad _ i ow)) (an_regLoad _ i aw) hp

/-! ### the tables -/

attribute [simp] an_bin an_less an_ones an_bitNot an_bitAnd an_bitOr an_bitXor an_negate an_sub an_signBitMask
  an_bitMask an_maskBits an_intNegative an_absMask an_abs an_mod an_newWidthGadget an_bool an_boolCond
  an_negativeSignJoin an_signExtend an_signedMul an_signedDiv an_rshA an_eq an_lts an_regImmOp an_reg2Op
  an_maskedRegOp an_regImmShift an_sext an_sext32To64 an_jumpTarget an_signedRem an_mulhsu an_memLoad
  oshape_regStore oshape_effRegStore oshape_memStore oshape_branchCmp

/-- every effect of the entry, for every word and reference state, accesses memory exactly where the
reference does -/
def EntryShape (e : Entry) : Prop :=
  ∀ (w : Nat) (s : St) (ρ : Env), Ctx 64 8 ρ s w → ∀ o ∈ e.effects ⟨s.pc, w⟩, OShape e.name w s ρ o

theorem shape_integer64 : ∀ e ∈ Gen.integer64, EntryShape e := by
  unfold Gen.integer64
  simp only [List.forall_mem_cons, List.not_mem_nil, false_imp_iff, implies_true, and_true]
  repeat' (apply And.intro)
  all_goals (
    unfold EntryShape
    intro w s ρ h
    simp (config := { maxDischargeDepth := 12 }) [nodeOK_ld h (accessRange_lb w s), nodeOK_ld h (accessRange_lh w s), nodeOK_ld h (accessRange_lw w s), nodeOK_ld h (accessRange_ld w s), nodeOK_ld h (accessRange_lbu w s), nodeOK_ld h (accessRange_lhu w s), nodeOK_ld h (accessRange_lwu w s), nodeOK_st h (accessRange_sb w s), nodeOK_st h (accessRange_sh w s), nodeOK_st h (accessRange_sw w s), nodeOK_st h (accessRange_sd w s)])

theorem shape_mul64 : ∀ e ∈ Gen.mul64, EntryShape e := by
  unfold Gen.mul64
  simp only [List.forall_mem_cons, List.not_mem_nil, false_imp_iff, implies_true, and_true]
  repeat' (apply And.intro)
  all_goals (
    unfold EntryShape
    intro w s ρ h
    simp (config := { maxDischargeDepth := 12 }) [nodeOK_ld h (accessRange_lb w s), nodeOK_ld h (accessRange_lh w s), nodeOK_ld h (accessRange_lw w s), nodeOK_ld h (accessRange_ld w s), nodeOK_ld h (accessRange_lbu w s), nodeOK_ld h (accessRange_lhu w s), nodeOK_ld h (accessRange_lwu w s), nodeOK_st h (accessRange_sb w s), nodeOK_st h (accessRange_sh w s), nodeOK_st h (accessRange_sw w s), nodeOK_st h (accessRange_sd w s)])

theorem shape_atomic64 : ∀ e ∈ Gen.atomic64, EntryShape e := by
  unfold Gen.atomic64
  simp only [List.forall_mem_cons, List.not_mem_nil, false_imp_iff, implies_true, and_true]
  repeat' (apply And.intro)
  all_goals (
    unfold EntryShape
    intro w s ρ h
    dsimp only
    first
    | (refine oshape_atomicOp (by simp) _ _ ?_
       simp [nodeOK_rs1 h (accessRange_lr_w w s), nodeOK_rs1 h (accessRange_sc_w w s), nodeOK_rs1 h (accessRange_amoswap_w w s), nodeOK_rs1 h (accessRange_amoadd_w w s), nodeOK_rs1 h (accessRange_amoxor_w w s), nodeOK_rs1 h (accessRange_amoand_w w s), nodeOK_rs1 h (accessRange_amoor_w w s), nodeOK_rs1 h (accessRange_amomin_w w s), nodeOK_rs1 h (accessRange_amomax_w w s), nodeOK_rs1 h (accessRange_amominu_w w s), nodeOK_rs1 h (accessRange_amomaxu_w w s), nodeOK_rs1 h (accessRange_lr_d w s), nodeOK_rs1 h (accessRange_sc_d w s), nodeOK_rs1 h (accessRange_amoswap_d w s), nodeOK_rs1 h (accessRange_amoadd_d w s), nodeOK_rs1 h (accessRange_amoxor_d w s), nodeOK_rs1 h (accessRange_amoand_d w s), nodeOK_rs1 h (accessRange_amoor_d w s), nodeOK_rs1 h (accessRange_amomin_d w s), nodeOK_rs1 h (accessRange_amomax_d w s), nodeOK_rs1 h (accessRange_amominu_d w s), nodeOK_rs1 h (accessRange_amomaxu_d w s)])
    | (refine oshape_atomicOpWidth (by simp) _ _ _ ?_
       simp [nodeOK_rs1 h (accessRange_lr_w w s), nodeOK_rs1 h (accessRange_sc_w w s), nodeOK_rs1 h (accessRange_amoswap_w w s), nodeOK_rs1 h (accessRange_amoadd_w w s), nodeOK_rs1 h (accessRange_amoxor_w w s), nodeOK_rs1 h (accessRange_amoand_w w s), nodeOK_rs1 h (accessRange_amoor_w w s), nodeOK_rs1 h (accessRange_amomin_w w s), nodeOK_rs1 h (accessRange_amomax_w w s), nodeOK_rs1 h (accessRange_amominu_w w s), nodeOK_rs1 h (accessRange_amomaxu_w w s), nodeOK_rs1 h (accessRange_lr_d w s), nodeOK_rs1 h (accessRange_sc_d w s), nodeOK_rs1 h (accessRange_amoswap_d w s), nodeOK_rs1 h (accessRange_amoadd_d w s), nodeOK_rs1 h (accessRange_amoxor_d w s), nodeOK_rs1 h (accessRange_amoand_d w s), nodeOK_rs1 h (accessRange_amoor_d w s), nodeOK_rs1 h (accessRange_amomin_d w s), nodeOK_rs1 h (accessRange_amomax_d w s), nodeOK_rs1 h (accessRange_amominu_d w s), nodeOK_rs1 h (accessRange_amomaxu_d w s)])
    | simp (config := { maxDischargeDepth := 12 }) [nodeOK_rs1 h (accessRange_lr_w w s), nodeOK_rs1 h (accessRange_sc_w w s), nodeOK_rs1 h (accessRange_amoswap_w w s), nodeOK_rs1 h (accessRange_amoadd_w w s), nodeOK_rs1 h (accessRange_amoxor_w w s), nodeOK_rs1 h (accessRange_amoand_w w s), nodeOK_rs1 h (accessRange_amoor_w w s), nodeOK_rs1 h (accessRange_amomin_w w s), nodeOK_rs1 h (accessRange_amomax_w w s), nodeOK_rs1 h (accessRange_amominu_w w s), nodeOK_rs1 h (accessRange_amomaxu_w w s), nodeOK_rs1 h (accessRange_lr_d w s), nodeOK_rs1 h (accessRange_sc_d w s), nodeOK_rs1 h (accessRange_amoswap_d w s), nodeOK_rs1 h (accessRange_amoadd_d w s), nodeOK_rs1 h (accessRange_amoxor_d w s), nodeOK_rs1 h (accessRange_amoand_d w s), nodeOK_rs1 h (accessRange_amoor_d w s), nodeOK_rs1 h (accessRange_amomin_d w s), nodeOK_rs1 h (accessRange_amomax_d w s), nodeOK_rs1 h (accessRange_amominu_d w s), nodeOK_rs1 h (accessRange_amomaxu_d w s)])

end Mltwist.Lemmas.RiscvLift
