import Std.Data.String.ToNat
import Std.Data.String.ToInt
/-
String facts for C25 (disassembly text is faithful): splitting at a separator character,
injectivity of `", ".intercalate` on comma-free tokens, and the character sets / injectivity of the
tokens that `instruction.String()` prints (`xN`, naturals, integers, `imm(xN)`).
-/
namespace Mltwist.Lemmas.RiscvTextStr

/-! ### lists of characters -/

/-- a list is determined by its split at the first occurrence of `c` -/
theorem split_unique {α : Type} {c : α} :
    ∀ {l1 l2 r1 r2 : List α}, c ∉ l1 → c ∉ l2 → l1 ++ c :: r1 = l2 ++ c :: r2 →
      l1 = l2 ∧ r1 = r2
  | [], [], _, _, _, _, h => by simpa using h
  | [], y :: l2, _, _, _, h2, h => by
      simp only [List.nil_append, List.cons_append, List.cons.injEq] at h
      exact absurd (h.1 ▸ List.mem_cons_self) h2
  | x :: l1, [], _, _, h1, _, h => by
      simp only [List.nil_append, List.cons_append, List.cons.injEq] at h
      exact absurd (h.1 ▸ List.mem_cons_self) h1
  | x :: l1, y :: l2, r1, r2, h1, h2, h => by
      simp only [List.cons_append, List.cons.injEq] at h
      have := split_unique (l1 := l1) (l2 := l2) (fun hm => h1 (List.mem_cons_of_mem _ hm))
        (fun hm => h2 (List.mem_cons_of_mem _ hm)) h.2
      exact ⟨by rw [h.1, this.1], this.2⟩

/-- `intercalate` with a separator starting with `c` is injective on lists of equal length
whose elements do not contain `c` -/
theorem intercalate_inj {α : Type} {c : α} {s : List α} :
    ∀ {L1 L2 : List (List α)}, L1.length = L2.length →
      (∀ t ∈ L1, c ∉ t) → (∀ t ∈ L2, c ∉ t) →
      (c :: s).intercalate L1 = (c :: s).intercalate L2 → L1 = L2
  | [], [], _, _, _, _ => rfl
  | [], _ :: _, h, _, _, _ => by simp at h
  | _ :: _, [], h, _, _, _ => by simp at h
  | [x], [y], _, _, _, h => by simpa [List.intercalate] using h
  | [x], _ :: _ :: _, h, _, _, _ => by simp at h
  | _ :: _ :: _, [y], h, _, _, _ => by simp at h
  | x :: x' :: xs, y :: y' :: ys, hl, h1, h2, h => by
      rw [List.intercalate_cons_cons, List.intercalate_cons_cons] at h
      simp only [List.append_assoc, List.cons_append] at h
      have hs := split_unique (h1 x List.mem_cons_self) (h2 y List.mem_cons_self) h
      have hr := List.append_cancel_left hs.2
      have := intercalate_inj (L1 := x' :: xs) (L2 := y' :: ys) (by simpa using hl)
        (fun t ht => h1 t (List.mem_cons_of_mem _ ht))
        (fun t ht => h2 t (List.mem_cons_of_mem _ ht)) hr
      rw [hs.1, this]

/-! ### strings -/

/-- `a ++ sep ++ r` with `sep` starting with `c`, `a` free of `c`: both parts are determined -/
theorem str_split_unique {c : Char} {n1 n2 r1 r2 : String}
    (h1 : c ∉ n1.toList) (h2 : c ∉ n2.toList)
    (h : n1 ++ String.singleton c ++ r1 = n2 ++ String.singleton c ++ r2) : n1 = n2 ∧ r1 = r2 := by
  have h' := congrArg String.toList h
  simp only [String.toList_append, String.toList_singleton, List.append_assoc,
    List.singleton_append] at h'
  have := split_unique h1 h2 h'
  exact ⟨String.toList_inj.1 this.1, String.toList_inj.1 this.2⟩

theorem str_intercalate_inj {L1 L2 : List String} (hl : L1.length = L2.length)
    (h1 : ∀ t ∈ L1, ',' ∉ t.toList) (h2 : ∀ t ∈ L2, ',' ∉ t.toList)
    (h : ", ".intercalate L1 = ", ".intercalate L2) : L1 = L2 := by
  have h' := congrArg String.toList h
  simp only [String.toList_intercalate] at h'
  have hs : ", ".toList = ',' :: [' '] := by decide
  rw [hs] at h'
  have := intercalate_inj (by simpa using hl)
    (by intro t ht; simp only [List.mem_map] at ht; obtain ⟨u, hu, rfl⟩ := ht; exact h1 u hu)
    (by intro t ht; simp only [List.mem_map] at ht; obtain ⟨u, hu, rfl⟩ := ht; exact h2 u hu) h'
  exact (List.map_inj_right (fun a b hab => String.toList_inj.1 hab)).1 this

/-! ### tokens -/

theorem digit_of_mem_natRepr {n : Nat} {c : Char} (h : c ∈ (Nat.repr n).toList) : c.isDigit = true := by
  rw [Nat.toList_repr] at h
  exact Nat.isDigit_of_mem_toDigits (by decide) (by decide) h

/-- characters of an integer's decimal form: digits or `-` -/
theorem mem_intRepr {a : Int} {c : Char} (h : c ∈ (Int.repr a).toList) : c.isDigit = true ∨ c = '-' := by
  rw [Int.repr_eq_if] at h
  split at h
  · exact Or.inl (digit_of_mem_natRepr h)
  · simp only [String.toList_append, List.mem_append] at h
    rcases h with h | h
    · right
      have : "-".toList = ['-'] := by decide
      rw [this] at h
      simpa using h
    · exact Or.inl (digit_of_mem_natRepr h)

theorem comma_not_digit : ','.isDigit = false := by decide
theorem paren_not_digit : '('.isDigit = false := by decide

theorem comma_notMem_natRepr (n : Nat) : ',' ∉ (toString n).toList := by
  intro h
  rw [Nat.toString_eq_repr] at h
  have := digit_of_mem_natRepr h
  simp [comma_not_digit] at this

theorem comma_notMem_intRepr (a : Int) : ',' ∉ (toString a).toList := by
  intro h
  rw [Int.toString_eq_repr] at h
  rcases mem_intRepr h with h | h
  · simp [comma_not_digit] at h
  · exact absurd h (by decide)

theorem paren_notMem_intRepr (a : Int) : '(' ∉ (toString a).toList := by
  intro h
  rw [Int.toString_eq_repr] at h
  rcases mem_intRepr h with h | h
  · simp [paren_not_digit] at h
  · exact absurd h (by decide)

theorem natToString_inj {m n : Nat} : toString m = toString n ↔ m = n := by
  rw [Nat.toString_eq_repr, Nat.toString_eq_repr, Nat.repr_inj]

theorem intToString_inj {a b : Int} : toString a = toString b ↔ a = b := by
  rw [Int.toString_eq_repr, Int.toString_eq_repr, Int.repr_inj]

end Mltwist.Lemmas.RiscvTextStr
