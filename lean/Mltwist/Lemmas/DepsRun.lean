import Mltwist.Lemmas.DepsPass
import Mltwist.Lemmas.DepsExec
import Mltwist.Lemmas.DepsNew
/-
C05: an accepted instruction move does not change the behaviour of its block (`runSeq` of the
current order at the current addresses), hence after any history every block behaves like the
original one.
-/
namespace Mltwist.Lemmas.Deps
open Mltwist Mltwist.Deps Mltwist.Deps.Spec

/-- the specification's instructions of a list of model instructions -/
def sl (n : Nat) (l : List Ins) : List SIns := l.map (Ins.toS n)

theorem layout_of_tiles (n a : Nat) (l : List Ins) (h : TilesI a l) : sl n l = layout a (sl n l) := by
  induction l generalizing a with
  | nil => rfl
  | cons x xs ih =>
    simp only [sl, List.map_cons, layout]
    congr 1
    · simp [Ins.toS, h.1]
    · exact ih (a + x.len) h.2.2

theorem layout_static (n a : Nat) (l l' : List Ins) (h : l.map Ins.static = l'.map Ins.static) :
    layout a (sl n l) = layout a (sl n l') := by
  induction l generalizing a l' with
  | nil =>
    cases l' with
    | nil => rfl
    | cons y ys => simp at h
  | cons x xs ih =>
    cases l' with
    | nil => simp at h
    | cons y ys =>
      simp only [List.map_cons, List.cons.injEq] at h
      simp only [sl, List.map_cons, layout]
      have hlen : (x.toS n).len = (y.toS n).len := by
        have := h.1
        simp only [Ins.static, Prod.mk.injEq] at this
        exact this.2.2.2.1
      rw [hlen]
      congr 1
      · rw [toS_static n h.1]
      · exact ih _ ys h.2

theorem bytes_sl (n : Nat) (l : List Ins) : bytes (sl n l) = bytesI l := by
  simp [bytes, sl, bytesI, Ins.toS, Function.comp_def]

theorem sl_append (n : Nat) (l1 l2 : List Ins) : sl n (l1 ++ l2) = sl n l1 ++ sl n l2 := by
  simp [sl]

theorem runSeq_toS (b : Block) (hb : BInv b) (ρ : Env) :
    runSeq b.toS ρ = runFrom (layout b.begin (sl b.seq.length b.seq)) ρ b.begin := by
  have h := layout_of_tiles b.seq.length b.begin b.seq hb.tiles
  have e : b.toS = sl b.seq.length b.seq := rfl
  rw [e]
  cases hs : b.seq with
  | nil => exact absurd hs hb.ne
  | cons x xs =>
    have ha : x.currAddr = b.begin := by
      have := hb.tiles; rw [hs] at this; exact this.1
    rw [← hs, ← h, hs]
    simp only [sl, List.map_cons, runSeq]
    show runFrom _ ρ x.currAddr = _
    rw [ha]

/-- C05 for one accepted move -/
theorem Orig.move_run {b0 b b' : Block} (ho : Orig b0 b) (hb : BInv b) (f t : Int)
    (hm : b.move f t = .ok b') (ρ : Env) : runSeq b'.toS ρ = runSeq b.toS ρ := by
  have hc := move_ok_check hm
  obtain ⟨b'', hb'', hinv', hbeg, _, _, _, _, hst, _, hperm⟩ := hb.move_ok f t hc
  rw [hm] at hb''
  cases hb''
  obtain ⟨h0, h1, h2, h3, lo, up, hlo, hup, hlt, htu⟩ := (hb.checkMove_iff f t).1 hc
  obtain ⟨i, rfl⟩ := Int.eq_ofNat_of_zero_le h0
  obtain ⟨j, rfl⟩ := Int.eq_ofNat_of_zero_le h2
  have hi : i < b.seq.length := by omega
  have hj : j < b.seq.length := by omega
  simp only [Int.toNat_natCast] at hst
  have hlen : b'.seq.length = b.seq.length := by simpa using hperm.length_eq
  rw [runSeq_toS b' hinv' ρ, runSeq_toS b hb ρ, hbeg, hlen]
  obtain ⟨lo', hlo', _, hlo3, _⟩ := hb.lowerBound_spec i hi
  obtain ⟨up', hup', _, _, hup3, _⟩ := hb.upperBound_spec i hi
  rw [hlo] at hlo'; rw [hup] at hup'
  cases hlo'; cases hup'
  have hpos := tilesI_pos _ _ hb.tiles
  have htop : b.begin + bytesI b.seq ≤ 2 ^ 64 := hb.top
  rcases Nat.lt_trichotomy i j with hij | hij | hij
  · -- forward
    obtain ⟨P, Q, S, harr, hP, hQ, _, _, _⟩ := split_seg b.seq i (j - i) (by omega)
    have hst' : b'.seq.map Ins.static = (P ++ Q ++ b.seq[i] :: S).map Ins.static := by
      rw [hst]
      conv => lhs; rw [harr]
      have := rotate_fwd_split (P.map Ins.static) (Q.map Ins.static) (S.map Ins.static) (Ins.static b.seq[i])
      simp only [List.length_map, hP, hQ, show i + (j - i) = j by omega] at this
      simpa using this
    rw [layout_static _ _ _ _ hst']
    have hq : ∀ z ∈ Q, ¬ Conflict (b.seq[i].toS b.seq.length) (z.toS b.seq.length) := by
      intro z hz
      obtain ⟨q, hq, rfl⟩ := List.mem_iff_getElem.1 hz
      have hk : i + 1 + q < b.seq.length := by omega
      have : b.seq[i + 1 + q] = Q[q] := by
        have e : (b.seq)[i + 1 + q]? = (P ++ b.seq[i] :: Q ++ S)[i + 1 + q]? := by rw [← harr]
        rw [List.getElem?_eq_getElem hk] at e
        rw [List.append_assoc, List.getElem?_append_right (by omega), hP] at e
        rw [show i + 1 + q - i = q + 1 by omega] at e
        simp only [List.cons_append, List.getElem?_cons_succ] at e
        rw [List.getElem?_append_left hq, List.getElem?_eq_getElem hq] at e
        exact Option.some.inj e
      rw [← this]
      apply ho.passes_fwd hb i j hij hj _ (i + 1 + q) (by omega) (by omega)
      intro e he h; have := hup3 e he h; omega
    have := runFrom_move_fwd (sl b.seq.length P) (sl b.seq.length Q) (sl b.seq.length S)
      (b.seq[i].toS b.seq.length)
      (by intro z hz; obtain ⟨z', hz', rfl⟩ := List.mem_map.1 hz; exact hq z' hz')
      b.begin
      (by
        have e : sl b.seq.length P ++ b.seq[i].toS b.seq.length :: sl b.seq.length Q ++ sl b.seq.length S
            = sl b.seq.length (P ++ b.seq[i] :: Q ++ S) := by simp [sl]
        rw [e, ← harr, bytes_sl]; exact htop)
      ρ
      (by
        have e : sl b.seq.length P ++ b.seq[i].toS b.seq.length :: sl b.seq.length Q ++ sl b.seq.length S
            = sl b.seq.length (P ++ b.seq[i] :: Q ++ S) := by simp [sl]
        rw [e, ← harr]
        intro x hx
        obtain ⟨x', hx', rfl⟩ := List.mem_map.1 hx
        exact hpos x' hx')
    have e1 : sl b.seq.length (P ++ Q ++ b.seq[i] :: S) =
        sl b.seq.length P ++ sl b.seq.length Q ++ b.seq[i].toS b.seq.length :: sl b.seq.length S := by
      simp [sl]
    have e2 : ∀ n, sl n b.seq = sl n P ++ b.seq[i].toS n :: sl n Q ++ sl n S := by
      intro n
      conv => lhs; rw [harr]
      simp [sl]
    rw [e1, this, ← e2]
  · subst hij
    rw [rotate_self] at hst
    rw [layout_static _ _ _ _ hst]
  · -- backward
    obtain ⟨P, Q, S, harr, hP, hQ, _, _, _⟩ := split_at2 b.seq j i (by omega) hi
    have hst' : b'.seq.map Ins.static = (P ++ b.seq[i] :: Q ++ S).map Ins.static := by
      rw [hst]
      conv => lhs; rw [harr]
      have := rotate_back_split (P.map Ins.static) (Q.map Ins.static) (S.map Ins.static) (Ins.static b.seq[i])
      simp only [List.length_map, hP, hQ, show j + (i - j) = i by omega] at this
      simpa using this
    rw [layout_static _ _ _ _ hst']
    have hq : ∀ z ∈ Q, ¬ Conflict (z.toS b.seq.length) (b.seq[i].toS b.seq.length) := by
      intro z hz
      obtain ⟨q, hq, rfl⟩ := List.mem_iff_getElem.1 hz
      have hk : j + q < b.seq.length := by omega
      have : b.seq[j + q] = Q[q] := by
        have e : (b.seq)[j + q]? = (P ++ Q ++ b.seq[i] :: S)[j + q]? := by rw [← harr]
        rw [List.getElem?_eq_getElem hk] at e
        rw [List.append_assoc, List.getElem?_append_right (by omega), hP] at e
        rw [show j + q - j = q by omega] at e
        rw [List.getElem?_append_left hq, List.getElem?_eq_getElem hq] at e
        exact Option.some.inj e
      rw [← this]
      apply ho.passes_back hb i j hij hi _ (j + q) (by omega) (by omega)
      intro e he h; have := hlo3 e he h; omega
    have := runFrom_move_back (sl b.seq.length P) (sl b.seq.length Q) (sl b.seq.length S)
      (b.seq[i].toS b.seq.length)
      (by intro z hz; obtain ⟨z', hz', rfl⟩ := List.mem_map.1 hz; exact hq z' hz')
      b.begin
      (by
        have e : sl b.seq.length P ++ sl b.seq.length Q ++ b.seq[i].toS b.seq.length :: sl b.seq.length S
            = sl b.seq.length (P ++ Q ++ b.seq[i] :: S) := by simp [sl]
        rw [e, ← harr, bytes_sl]; exact htop)
      ρ
      (by
        have e : sl b.seq.length P ++ sl b.seq.length Q ++ b.seq[i].toS b.seq.length :: sl b.seq.length S
            = sl b.seq.length (P ++ Q ++ b.seq[i] :: S) := by simp [sl]
        rw [e, ← harr]
        intro x hx
        obtain ⟨x', hx', rfl⟩ := List.mem_map.1 hx
        exact hpos x' hx')
    have e1 : sl b.seq.length (P ++ b.seq[i] :: Q ++ S) =
        sl b.seq.length P ++ b.seq[i].toS b.seq.length :: sl b.seq.length Q ++ sl b.seq.length S := by
      simp [sl]
    have e2 : ∀ n, sl n b.seq = sl n P ++ sl n Q ++ b.seq[i].toS n :: sl n S := by
      intro n
      conv => lhs; rw [harr]
      simp [sl]
    rw [e1, this, ← e2]

/-! ### histories -/

theorem toS_of_seq {b b' : Block} (h : b'.seq = b.seq) : b'.toS = b.toS := by
  simp [Block.toS, h]

/-- what an operation does to the code -/
theorem step_cases (c : Code) (op : Op) :
    (c.step op).1 = c ∨
    (∃ bi f t b b', c.index bi = some b ∧ b.move f t = .ok b' ∧ (c.step op).1 = c.put b') ∨
    (∃ f t c', c.move f t = .ok c' ∧ (c.step op).1 = c') := by
  cases op with
  | mv bi f t =>
    cases hi : c.index bi with
    | none => left; simp [Code.step, hi]
    | some b =>
      cases hm : b.move f t with
      | error e => left; cases e <;> simp [Code.step, hi, hm]
      | ok b' => right; left; exact ⟨bi, f, t, b, b', hi, hm, by simp [Code.step, hi, hm]⟩
  | bmv f t =>
    cases hm : c.move f t with
    | error e => left; cases e <;> simp [Code.step, hm]
    | ok c' => right; right; exact ⟨f, t, c', hm, by simp [Code.step, hm]⟩
  | lb bi i =>
    left
    cases h : (c.index bi).bind (·.lowerBound i) <;> simp [Code.step, h]
  | ub bi i =>
    left
    cases h : (c.index bi).bind (·.upperBound i) <;> simp [Code.step, h]
  | addr a =>
    left
    cases h : c.address a with
    | none => simp [Code.step, h]
    | some r =>
      cases r with
      | none => simp [Code.step, h]
      | some b => cases h2 : b.address a <;> simp [Code.step, h, h2]
  | edges bi =>
    left
    cases h : c.index bi <;> simp [Code.step, h]

/-- one operation does not change the behaviour of any block -/
theorem step_run {c0 c : Code} (hfresh : ∀ b ∈ c0.store, Fresh b) (hc : CInv c) (hs : SameCode c0 c)
    (op : Op) (p : Nat) (hp : p < c.store.length) (hp' : p < (c.step op).1.store.length) (ρ : Env) :
    runSeq ((c.step op).1.store[p]).toS ρ = runSeq (c.store[p]).toS ρ := by
  generalize hc1 : (c.step op).1 = c1 at hp' ⊢
  rcases step_cases c op with h | ⟨bi, f, t, b, b', hi, hm, h⟩ | ⟨f, t, c', hm, h⟩
  · rw [hc1] at h; subst h; rfl
  · rw [hc1] at h; subst h
    obtain ⟨k, rfl, hk, hb⟩ := index_some hi
    have hq := hc.ptr_lt k hk
    rw [List.getElem?_eq_getElem hq] at hb
    cases hb
    have hbi : BInv c.store[c.blocks[k]] := hc.blocks _ (List.getElem_mem hq)
    obtain ⟨b'', hb'', _, _, _, _, _, h5, _⟩ := hbi.move_ok f t (move_ok_check hm)
    rw [hm] at hb''
    cases hb''
    have hptr : b'.ptr = c.blocks[k] := by rw [h5]; exact hc.ptr _ hq
    have : (c.put b').store[p] = if c.blocks[k] = p then b' else c.store[p] := by
      simp [Code.put, hptr, List.getElem_set]
    rw [this]
    split
    · rename_i heq
      subst heq
      have hq0 : c.blocks[k] < c0.store.length := by rw [← hs.len]; exact hq
      have hf := hfresh _ (List.getElem_mem hq0)
      have ho := orig_of_same hf.ids hf.edges (hs.blocks _ hq0 hq)
      exact ho.move_run hbi f t hm ρ
    · rfl
  · rw [hc1] at h; subst h
    obtain ⟨_, _, hfro, _⟩ := hc.move_ok f t hm
    have h1 : (c1.store.map frozen)[p]'(by simpa using hp') = (c.store.map frozen)[p]'(by simpa using hp) := by
      simp only [hfro]
    simp only [List.getElem_map, frozen, Prod.mk.injEq] at h1
    rw [toS_of_seq h1.2.2.2.1]

/-- after any history every block behaves like the original block -/
theorem run_run {c0 c : Code} (hfresh : ∀ b ∈ c0.store, Fresh b) (hc : CInv c) (hs : SameCode c0 c)
    (ops : List Op) (p : Nat) (hp : p < c.store.length) (hp' : p < (c.run ops).store.length) (ρ : Env) :
    runSeq ((c.run ops).store[p]).toS ρ = runSeq (c.store[p]).toS ρ := by
  induction ops generalizing c with
  | nil => rfl
  | cons op ops ih =>
    obtain ⟨h1, h2⟩ := hc.step op
    have hlen : (c.step op).1.store.length = c.store.length := h2.len
    have := ih h1 (hs.trans h2) (by rw [hlen]; exact hp) hp'
    exact this.trans (step_run hfresh hc hs op p hp (by rw [hlen]; exact hp) ρ)

end Mltwist.Lemmas.Deps
