import Mltwist.Lemmas.RenderViews
import Mltwist.Lemmas.RenderDist
/-
Proofs for C24, part 3: `Composite.Print` — a composite of well-behaved views is well behaved — and the
composites the tool builds.
-/
namespace Mltwist.Lemmas.Render
open Mltwist.Render

/-- A view keeps its promise: its minimum is non-negative and for every height of at least the minimum
`Print` neither panics (nor runs out of model fuel) and uses at most that many rows. -/
structure Good (v : View) : Prop where
  min_nonneg : 0 ≤ v.minLines
  fits : ∀ n : Nat, v.minLines ≤ n →
    (v.print n).status ≠ .panic ∧ (v.print n).status ≠ .outOfFuel ∧ ((v.print n).out.used : Int) ≤ n

/-! ### lists -/

theorem sumInts_nonneg_of (l m : List Int) (hlen : l.length = m.length) (hm : ∀ x ∈ m, 0 ≤ x)
    (h : ∀ j, m.getD j 0 ≤ l.getD j 0) : 0 ≤ sumInts l := by
  induction l generalizing m with
  | nil => simp [sumInts]
  | cons x xs ih =>
    cases m with
    | nil => simp at hlen
    | cons y ys =>
      simp only [sumInts]
      have h0 := h 0
      simp at h0
      have := ih ys (by simpa using hlen) (fun z hz => hm z (by simp [hz]))
        (fun j => by simpa using h (j + 1))
      have := hm y (by simp)
      omega

theorem mins_eq (els : List View) (h : ∀ e ∈ els, 0 ≤ e.minLines) : mins els = els.map (·.minLines) := by
  unfold mins
  apply List.map_congr_left
  intro e he
  rw [if_neg (by have := h e he; omega)]

theorem row_used : Out.row.used = 1 := rfl

/-! ### the loop over the elements -/

/-- grants `gs` give every element at least its minimum -/
def Covers : List View → List Int → Prop
  | [], _ => True
  | e :: es, gs => e.minLines ≤ gs.headD 0 ∧ Covers es gs.tail

theorem covers_of_getD (els : List View) (gs : List Int)
    (h : ∀ j, (els.map (·.minLines)).getD j 0 ≤ gs.getD j 0) : Covers els gs := by
  induction els generalizing gs with
  | nil => trivial
  | cons e es ih =>
    refine ⟨?_, ih gs.tail (fun j => ?_)⟩
    · have := h 0; cases gs <;> simpa using this
    · have := h (j + 1); cases gs <;> simpa using this

theorem covers_sum_nonneg (els : List View) (gs : List Int) (hlen : gs.length = els.length)
    (hmin : ∀ e ∈ els, 0 ≤ e.minLines) (hcov : Covers els gs) : 0 ≤ sumInts gs := by
  induction els generalizing gs with
  | nil => cases gs with
    | nil => simp [sumInts]
    | cons _ _ => simp at hlen
  | cons e es ih =>
    cases gs with
    | nil => simp at hlen
    | cons g gs =>
      obtain ⟨d1, d2⟩ := hcov
      simp only [List.headD_cons] at d1
      simp only [List.tail_cons] at d2
      have := hmin e (by simp)
      have := ih gs (by simpa using hlen) (fun x hx => hmin x (by simp [hx])) d2
      simp only [sumInts]; omega

theorem printEls_bound (els : List View) (gs : List Int) (first : Bool) (acc : Out)
    (hlen : gs.length = els.length) (hgood : ∀ e ∈ els, Good e) (hcov : Covers els gs)
    (hne : els ≠ [] ∨ first = false) :
    (printEls els gs first acc).status ≠ .panic ∧ (printEls els gs first acc).status ≠ .outOfFuel ∧
    ((printEls els gs first acc).out.used : Int) ≤
      acc.used + sumInts gs + els.length - (if first = true then (1 : Int) else 0) := by
  induction els generalizing gs first acc with
  | nil =>
    rcases hne with h | h
    · exact absurd rfl h
    · subst h
      cases gs with
      | nil => simp [printEls, sumInts]
      | cons g gs => simp at hlen
  | cons e es ih =>
    cases gs with
    | nil => simp at hlen
    | cons g gs =>
      have hg := hgood e (by simp)
      obtain ⟨hc1, hc2⟩ := hcov
      simp only [List.headD_cons] at hc1
      simp only [List.tail_cons] at hc2
      have hg0 : 0 ≤ g := by have := hg.min_nonneg; omega
      have hgn : ((g.toNat : Nat) : Int) = g := Int.toNat_of_nonneg hg0
      have hfit := hg.fits g.toNat (by omega)
      have hrest : 0 ≤ sumInts gs :=
        covers_sum_nonneg es gs (by simpa using hlen)
          (fun x hx => (hgood x (by simp [hx])).min_nonneg) hc2
      unfold printEls
      simp only [List.headD_cons, List.tail_cons]
      -- the accumulator after the separator
      have hacc : ((if first = true then acc else acc.app .row).used : Int) ≤
          acc.used + 1 - (if first = true then (1 : Int) else 0) := by
        cases first
        · simp only [Bool.false_eq_true, if_false]
          have := used_app_le acc .row
          rw [row_used] at this; omega
        · simp
      generalize (if first = true then acc else acc.app .row) = acc1 at hacc
      have happ : ((acc1.app (e.print g.toNat).out).used : Int) ≤ acc1.used + (e.print g.toNat).out.used := by
        exact_mod_cast used_app_le acc1 (e.print g.toNat).out
      obtain ⟨f1, f2, f3⟩ := hfit
      rw [hgn] at f3
      have hl : (((e :: es).length : Nat) : Int) = es.length + 1 := by simp
      rw [hl]
      simp only [sumInts]
      generalize (if first = true then (1 : Int) else 0) = k at hacc ⊢
      cases hs : (e.print g.toNat).status with
      | ok =>
        simp only
        have := ih gs false (acc1.app (e.print g.toNat).out) (by simpa using hlen)
          (fun x hx => hgood x (by simp [hx])) hc2 (Or.inr rfl)
        refine ⟨this.1, this.2.1, ?_⟩
        have h3 := this.2.2
        simp only [Bool.false_eq_true, if_false] at h3
        omega
      | err =>
        simp only
        refine ⟨by simp, by simp, ?_⟩
        omega
      | panic => exact absurd hs f1
      | outOfFuel => exact absurd hs f2

/-! ### the composite -/

theorem compMinLines_eq (els : List View) (h : ∀ e ∈ els, 0 ≤ e.minLines) :
    compMinLines els = sumInts (mins els) + els.length - 1 := by
  unfold compMinLines elementSpaces
  rw [mins_eq els h]; omega

theorem sumInts_map_nonneg (els : List View) (h : ∀ e ∈ els, 0 ≤ e.minLines) :
    0 ≤ sumInts (els.map (·.minLines)) := by
  induction els with
  | nil => simp [sumInts]
  | cons e es ih =>
    simp only [List.map_cons, sumInts]
    have := h e (by simp)
    have := ih (fun x hx => h x (by simp [hx]))
    omega

/-- **A composite inherits the bound from its elements** — for the variant of `distributeLines` with
`remLines--` (`compPrint true`; transferred to the code as it is for the composites of the tool by
`composite_two_fixed`): a composite of good views never panics, never runs out of fuel, and uses at most `n` rows for every
`n ≥ MinLines`. -/
theorem comp_fits (els : List View) (hgood : ∀ e ∈ els, Good e) (n : Nat)
    (hn : compMinLines els ≤ n) :
    (compPrint true els n).status ≠ .panic ∧ (compPrint true els n).status ≠ .outOfFuel ∧
    ((compPrint true els n).out.used : Int) ≤ n := by
  have hmin : ∀ e ∈ els, 0 ≤ e.minLines := fun e he => (hgood e he).min_nonneg
  unfold compPrint
  simp only
  rw [if_neg (by omega)]
  obtain ⟨gs, hgs, hlen, hpt, hdec, _, _⟩ :=
    distributeLines_spec true els ((n : Int) - compMinLines els) (by omega)
  rw [hgs]
  simp only
  cases els with
  | nil =>
    cases gs with
    | nil => simp [printEls, Out.used, Out.none]
    | cons _ _ => simp at hlen
  | cons e es =>
    have hb := printEls_bound (e :: es) gs true .none hlen hgood
      (covers_of_getD _ gs (fun j => by rw [← mins_eq _ hmin]; exact (hpt j).1)) (Or.inl (by simp))
    refine ⟨hb.1, hb.2.1, ?_⟩
    have h3 := hb.2.2
    have hsum := (hdec rfl).1
    rw [compMinLines_eq _ hmin] at hsum
    simp only [if_true] at h3
    have : (Out.none.used : Int) = 0 := rfl
    omega

/-- a non-empty composite of good views is a good view -/
theorem comp_good (els : List View) (hne : els ≠ []) (hgood : ∀ e ∈ els, Good e) : Good (compositeDec els) := by
  have hmin : ∀ e ∈ els, 0 ≤ e.minLines := fun e he => (hgood e he).min_nonneg
  refine ⟨?_, fun n hn => comp_fits els hgood n hn⟩
  show 0 ≤ compMinLines els
  unfold compMinLines elementSpaces
  have := sumInts_map_nonneg els hmin
  have : 1 ≤ els.length := by cases els with
    | nil => exact absurd rfl hne
    | cons _ _ => simp
  omega

/-- below its minimum `Composite.Print` returns an error without writing anything -/
theorem comp_below_min (dec : Bool) (els : List View) (n : Int) (h : n < compMinLines els) :
    compPrint dec els n = ⟨.err, .none⟩ := by
  unfold compPrint; simp only; rw [if_pos (by omega)]

/-! ### exactness -/

/-- Elements that, granted exactly their minimum, write exactly that many rows whenever they return
without error: all but the last one complete rows only, the last one may end with an unterminated row
(the prompt). -/
def ExactList : List View → Prop
  | [] => True
  | [e] => 0 ≤ e.minLines ∧ ((e.print e.minLines.toNat).status = .ok →
      ((e.print e.minLines.toNat).out.used : Int) = e.minLines)
  | e :: e' :: es => 0 ≤ e.minLines ∧
      ((e.print e.minLines.toNat).status = .ok → (e.print e.minLines.toNat).out = ⟨e.minLines.toNat, false⟩) ∧
      ExactList (e' :: es)

theorem exactList_min (els : List View) (h : ExactList els) : ∀ e ∈ els, 0 ≤ e.minLines := by
  induction els with
  | nil => simp
  | cons e es ih =>
    cases es with
    | nil => intro x hx; simp at hx; subst hx; exact h.1
    | cons e' es' =>
      intro x hx
      rcases List.mem_cons.mp hx with hx | hx
      · subst hx; exact h.1
      · exact ih h.2.2 x hx

theorem printEls_exact (els : List View) (first : Bool) (acc : Out) (hacc : acc.op = false)
    (hex : ExactList els) (hne : els ≠ []) :
    (printEls els (els.map (·.minLines)) first acc).status = .ok →
    ((printEls els (els.map (·.minLines)) first acc).out.used : Int) =
      acc.nl + sumInts (els.map (·.minLines)) + els.length - (if first = true then (1 : Int) else 0) := by
  induction els generalizing first acc with
  | nil => exact absurd rfl hne
  | cons e es ih =>
    unfold printEls
    simp only [List.map_cons, List.headD_cons, List.tail_cons]
    have hacc1 : (if first = true then acc else acc.app .row).op = false ∧
        ((if first = true then acc else acc.app .row).nl : Int) =
          acc.nl + 1 - (if first = true then (1 : Int) else 0) := by
      cases first <;> simp [hacc]
    generalize (if first = true then acc else acc.app .row) = acc1 at hacc1
    generalize (if first = true then (1 : Int) else 0) = k at hacc1 ⊢
    cases es with
    | nil =>
      obtain ⟨h0, h1⟩ := hex
      cases hs : (e.print e.minLines.toNat).status with
      | ok =>
        simp only [printEls, List.map_nil, sumInts, List.length_cons, List.length_nil]
        intro _
        rw [used_app_closed _ _ hacc1.1]
        push_cast
        rw [h1 hs, hacc1.2]; omega
      | err => simp
      | panic => simp
      | outOfFuel => simp
    | cons e' es' =>
      obtain ⟨h0, h1, h2⟩ := hex
      cases hs : (e.print e.minLines.toNat).status with
      | ok =>
        simp only
        rw [h1 hs]
        intro hok
        have := ih false (acc1.app ⟨e.minLines.toNat, false⟩) (by
          simp only [Out.app]; split <;> simp [hacc1.1]) h2 (by simp) hok
        rw [this]
        simp only [app_nl, sumInts, List.map_cons, List.length_cons, Bool.false_eq_true, if_false]
        push_cast
        rw [hacc1.2, Int.toNat_of_nonneg h0]; omega
      | err => simp
      | panic => simp
      | outOfFuel => simp

/-- **Exactness of composites**: granted exactly its minimum, a composite of exact elements that
returns without error has used exactly that many rows. -/
theorem comp_exact (els : List View) (hne : els ≠ []) (hex : ExactList els) :
    (compPrint true els (compMinLines els)).status = .ok →
    ((compPrint true els (compMinLines els)).out.used : Int) = compMinLines els := by
  have hmin := exactList_min els hex
  unfold compPrint
  simp only
  rw [if_neg (by omega)]
  obtain ⟨gs, hgs, _, _, _, _, h0⟩ :=
    distributeLines_spec true els (compMinLines els - compMinLines els) (by omega)
  rw [hgs]
  simp only
  rw [h0 (by omega), mins_eq els hmin]
  intro hok
  rw [printEls_exact els true .none rfl hex hne hok]
  unfold compMinLines elementSpaces
  simp only [Out.none, if_true]
  push_cast
  omega

/-- the declared maximum of a composite of fixed-height elements equals its minimum -/
theorem compMaxLoop_fixed (spaces : Int) (els : List View) (h : ∀ e ∈ els, e.maxLines = e.minLines ∧ 0 ≤ e.minLines)
    (acc : Int) : compMaxLoop spaces els acc = acc + sumInts (els.map (·.minLines)) + spaces := by
  induction els generalizing acc with
  | nil => simp [compMaxLoop, sumInts]
  | cons e es ih =>
    have he := h e (by simp)
    unfold compMaxLoop
    rw [if_neg (by omega), ih (fun x hx => h x (by simp [hx])), he.1]
    simp only [List.map_cons, sumInts]; omega

theorem comp_fixed (els : List View) (h : ∀ e ∈ els, e.maxLines = e.minLines ∧ 0 ≤ e.minLines) :
    compMaxLines els = compMinLines els := by
  unfold compMaxLines compMinLines
  rw [compMaxLoop_fixed _ _ h]; omega

/-! ### the missing `remLines--` does not matter for the composites of the tool

Both composites of the tool have two elements of which the second has a fixed height (the register
table, the prompt): at most one element can take rows above its minimum, and then the pinned
`distributeLines` computes the same grants as the variant with `remLines--`. -/

theorem list_two (l : List Int) (h : l.length = 2) : l = [l.getD 0 0, l.getD 1 0] := by
  match l, h with
  | [x, y], _ => simp

theorem distribute_two_fixed (a b : View) (hb : b.maxLines = b.minLines) (hb0 : 0 ≤ b.minLines)
    (rem0 : Int) (h : 0 ≤ rem0) :
    distributeLines false [a, b] rem0 = distributeLines true [a, b] rem0 := by
  obtain ⟨gp, hgp, lp, ptp, _, fp, zp⟩ := distributeLines_spec false [a, b] rem0 h
  obtain ⟨gr, hgr, lr, ptr, dr, _, zr⟩ := distributeLines_spec true [a, b] rem0 h
  rw [hgp, hgr]
  by_cases h0 : rem0 = 0
  · rw [zp h0, zr h0]
  · have hpos : 0 < rem0 := by omega
    have fp := fp rfl hpos
    have dr := dr rfl
    -- the difference of the second element is 0
    have hd1 : (diffLinesMax [a, b] (mins [a, b]) rem0).getD 1 0 = 0 := by
      rw [diffLinesMax_getD _ _ _ 1 (by simp)]
      simp only [mins, List.map_cons, List.map_nil, List.getD_cons_succ, List.getD_cons_zero]
      rw [if_neg (by omega)]
      unfold diffOf; simp only
      split
      · rfl
      · rw [if_neg (by omega)]; omega
    have hd0 : (diffLinesMax [a, b] (mins [a, b]) rem0).getD 0 0 ≤ rem0 := by
      rw [diffLinesMax_getD _ _ _ 0 (by simp)]; exact diffOf_le _ _ _ h
    rw [list_two gp (by simpa using lp), list_two gr (by simpa using lr)]
    have p0 := fp 0; have p1 := fp 1
    have r0 := ptr 0; have r1 := ptr 1
    rw [hd1] at p1 r1
    have e1 : gr.getD 1 0 = gp.getD 1 0 := by omega
    have e0 : gr.getD 0 0 = gp.getD 0 0 := by
      rcases dr.2 with hs | hs
      · rw [list_two gr (by simpa using lr)] at hs
        have hm : sumInts (mins [a, b]) = (mins [a, b]).getD 0 0 + (mins [a, b]).getD 1 0 := by
          simp [mins, sumInts]
        simp only [sumInts] at hs
        omega
      · rw [hs 0, p0]
    rw [e0, e1]

theorem compPrint_two_fixed (a b : View) (hb : b.maxLines = b.minLines) (hb0 : 0 ≤ b.minLines) (n : Int) :
    compPrint false [a, b] n = compPrint true [a, b] n := by
  unfold compPrint
  simp only
  split
  · rfl
  · rw [distribute_two_fixed a b hb hb0 _ (by omega)]

/-- a composite of two elements the second of which has a fixed height behaves exactly like the variant
with `remLines--` -/
theorem composite_two_fixed (a b : View) (hb : b.maxLines = b.minLines) (hb0 : 0 ≤ b.minLines) :
    composite [a, b] = compositeDec [a, b] := by
  unfold composite compositeDec
  congr 1
  funext n
  exact compPrint_two_fixed a b hb hb0 n

end Mltwist.Lemmas.Render
