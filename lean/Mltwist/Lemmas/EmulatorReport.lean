import Mltwist.Lemmas.EmulatorRefine
/-
Emulator (C03), part 13: the `Step` report.  Under `Agree` the report is a function of the valuation `ρ`
and the effect list alone (`specReport`): it lists exactly the register loads and memory loads of the
effect expressions (with the values `ρ` gives them) and exactly the register and memory stores of the
effects (with the values of their expressions under `ρ`).  Also: the state `emulator.New` produces is
related to the reference state.
-/
namespace Mltwist.Lemmas.Emulator
open Mltwist Mltwist.State Mltwist.Overlay Mltwist.Emulator Mltwist.Spec.Overlay
open Mltwist.Lemmas.State (Good assocGet_set_same assocGet_set_other)
open Mltwist.Lemmas.Transform (trunc_trunc_of_le trunc_of_lt trunc_lt)

theorem natToLE_trunc (w x : Nat) : natToLE w (trunc w x) = natToLE w x := by
  have := Lemmas.Const.natToLE_leToNat (natToLE w x)
  rw [Lemmas.Const.natToLE_length, Lemmas.Bytes.leToNat_natToLE_trunc] at this
  exact this

theorem bytes_eq_natToLE {b : List UInt8} {w v : Nat} (hl : b.length = w) (hv : leToNat b = v) :
    b = natToLE w v := by
  rw [← hv, ← hl, Lemmas.Const.natToLE_leToNat]

/-! ### the reference report -/

/-- the register loads of an expression with the values of `ρ` -/
def specRegReads (ρ : Env) (e : Expr) : List (String × List UInt8) :=
  (regLoads e).map fun kw => (kw.1, natToLE kw.2 (ρ.reg kw.1))

/-- the memory loads of an expression, bottom-up left to right, with address and bytes under `ρ` -/
def specMemReads (ρ : Env) : Expr → List MemAccess
  | .const _ => []
  | .regLoad _ _ => []
  | .binary _ a b _ => specMemReads ρ a ++ specMemReads ρ b
  | .less a b t f _ => specMemReads ρ a ++ specMemReads ρ b ++ specMemReads ρ t ++ specMemReads ρ f
  | .memLoad key a w =>
    specMemReads ρ a ++ [⟨key, a.eval ρ % 2 ^ 64, natToLE w (loadBytes (ρ.mem key) (a.eval ρ % 2 ^ 64) w)⟩]

def specRegStores (ρ : Env) (m : List (String × List UInt8)) : List Effect → List (String × List UInt8)
  | [] => m
  | .regStore v k _ :: efs => specRegStores ρ (assocSet k (natToLE v.width (v.eval ρ)) m) efs
  | .memStore .. :: efs => specRegStores ρ m efs

def specMemStores (ρ : Env) : List Effect → List MemAccess
  | [] => []
  | .regStore .. :: efs => specMemStores ρ efs
  | .memStore v k a w :: efs => ⟨k, a.eval ρ % 2 ^ 64, natToLE w (v.eval ρ)⟩ :: specMemStores ρ efs

/-- the report a step must produce for the effect list `efs` when the machine is in the state `ρ` -/
def specReport (ρ : Env) (efs : List Effect) : Report where
  regLoads := (evalOrders efs).foldl (fun m e => (specRegReads ρ e).foldl (fun m kv => assocSet kv.1 kv.2 m) m) []
  memLoads := (evalOrders efs).flatMap (specMemReads ρ)
  regStores := specRegStores ρ [] efs
  memStores := specMemStores ρ efs

/-! ### reads -/

theorem readVals_spec {p : Provider} {code : CodeView} {ρ : Env} {s : State} (hi : Inv s) (ha : Agree p code ρ s)
    {e : Expr} (hr : RegsIn s.regs (regLoads e)) (hle : RegsLe code e) :
    readVals s.regs (regLoads e) = specRegReads ρ e := by
  unfold specRegReads readVals
  have : ∀ l : List (String × Nat), (∀ kw ∈ l, assocGet kw.1 s.regs ≠ none ∧ kw.2 ≤ code.regWidth kw.1) →
      l.filterMap (fun kw => match s.regs.load kw.1 kw.2 with
        | some (.const v) => some (kw.1, v)
        | _ => none) = l.map fun kw => (kw.1, natToLE kw.2 (ρ.reg kw.1)) := by
    intro l
    induction l with
    | nil => intro _; rfl
    | cons kw l ih =>
      intro h
      have h0 := h kw (List.mem_cons_self ..)
      cases hg : assocGet kw.1 s.regs with
      | none => exact absurd hg h0.1
      | some e0 =>
        obtain ⟨c, rfl⟩ := hi.regs kw.1 e0 hg
        have hv : cw c kw.2 = natToLE kw.2 (ρ.reg kw.1) := by
          rw [← natToLE_trunc]
          exact bytes_eq_natToLE (cw_length c kw.2) (by rw [cw_value]; exact ha.regKnown kw.1 c hg kw.2 h0.2)
        simp only [List.filterMap_cons, load_const hg, List.map_cons, hv]
        rw [ih (fun x hx => h x (List.mem_cons_of_mem _ hx))]
  exact this _ (fun kw hk => ⟨hr kw hk, hle kw hk⟩)

theorem memReads_spec {p : Provider} {code : CodeView} {ρ : Env} {s : State} (hi : Inv s)
    (ha : Agree p code ρ s) : ∀ e : Expr, RegsIn s.regs (regLoads e) → MemsIn (absOf s) (substRegs s.regs e) →
    RegsLe code e → memReads (absOf s) (substRegs s.regs e) = specMemReads ρ e
  | .const _, _, _, _ => rfl
  | .regLoad k w, hr, _, _ => by
    have hk := hr (k, w) (by simp [regLoads])
    cases hg : assocGet k s.regs with
    | none => exact absurd hg hk
    | some e0 =>
      obtain ⟨c, rfl⟩ := hi.regs k e0 hg
      simp only [substRegs, load_const hg, Option.getD, memReads, specMemReads]
  | .binary op a b w, hr, hm, hle => by
    simp only [regLoads, RegsIn.append] at hr
    have hla : RegsLe code a := fun kw h => hle kw (by simp [regLoads, h])
    have hlb : RegsLe code b := fun kw h => hle kw (by simp [regLoads, h])
    simp only [substRegs, memReads, specMemReads, memReads_spec hi ha a hr.1 hm.1 hla,
      memReads_spec hi ha b hr.2 hm.2 hlb]
  | .less a b t f w, hr, hm, hle => by
    simp only [regLoads, RegsIn.append] at hr
    have hla : RegsLe code a := fun kw h => hle kw (by simp [regLoads, h])
    have hlb : RegsLe code b := fun kw h => hle kw (by simp [regLoads, h])
    have hlt : RegsLe code t := fun kw h => hle kw (by simp [regLoads, h])
    have hlf : RegsLe code f := fun kw h => hle kw (by simp [regLoads, h])
    simp only [substRegs, memReads, specMemReads, memReads_spec hi ha a hr.1.1.1 hm.1 hla,
      memReads_spec hi ha b hr.1.1.2 hm.2.1 hlb, memReads_spec hi ha t hr.1.2 hm.2.2.1 hlt,
      memReads_spec hi ha f hr.2 hm.2.2.2 hlf]
  | .memLoad key a w, hr, hm, hle => by
    simp only [regLoads] at hr
    have hla : RegsLe code a := fun kw h => hle kw (by simpa [regLoads] using h)
    have ia := substAll_eval hi ha a hr hm.1 hla
    have haddr : loadAddr (absOf s) (substRegs s.regs a) = a.eval ρ % 2 ^ 64 := by
      unfold loadAddr; unfold substAll at ia; rw [ia]
    obtain ⟨hm1, hd, hp⟩ := hm
    rw [haddr] at hd hp
    have hlv : loadConst (absOf s) key (a.eval ρ % 2 ^ 64) w =
        natToLE w (loadBytes (ρ.mem key) (a.eval ρ % 2 ^ 64) w) := by
      unfold loadConst
      show natToLE w (loadVal ρ0 (s.mems.abs key) _ w) = _
      rw [loadVal_agree ha hd hp]
    simp only [substRegs, memReads, specMemReads, memReads_spec hi ha a hr hm1 hla, haddr, hlv]

/-! ### the report of the evaluation phase -/

theorem noteReads_fields (r : Report) (l : List (String × List UInt8)) :
    noteReads r l = { r with regLoads := l.foldl (fun m kv => assocSet kv.1 kv.2 m) r.regLoads } := by
  induction l generalizing r with
  | nil => rfl
  | cons kv l ih =>
    simp only [noteReads, List.foldl_cons] at ih ⊢
    rw [ih]
    rfl

theorem noteExprs_spec {p : Provider} {code : CodeView} {ρ : Env} {s : State} (hi : Inv s)
    (ha : Agree p code ρ s) : ∀ (es : List Expr) (r : Report), PresentAll s es → (∀ e ∈ es, RegsLe code e) →
    noteExprs s r es =
      { r with
        regLoads := es.foldl (fun m e => (specRegReads ρ e).foldl (fun m kv => assocSet kv.1 kv.2 m) m) r.regLoads
        memLoads := r.memLoads ++ es.flatMap (specMemReads ρ) }
  | [], r, _, _ => by simp [noteExprs]
  | e :: es, r, hp, hle => by
    have he := hp e (List.mem_cons_self ..)
    have h1 := readVals_spec hi ha he.1 (hle e (List.mem_cons_self ..))
    have h2 := memReads_spec hi ha e he.1 he.2 (hle e (List.mem_cons_self ..))
    have ih := noteExprs_spec hi ha es (noteExpr s r e) (fun x hx => hp x (List.mem_cons_of_mem _ hx))
      (fun x hx => hle x (List.mem_cons_of_mem _ hx))
    simp only [noteExprs, List.foldl_cons] at ih ⊢
    rw [ih]
    simp only [noteExpr, h1, h2, noteReads_fields, noteLoads, List.flatMap_cons, List.append_assoc]

/-! ### the report of the application phase -/

theorem recordAll_spec {ρ : Env} (s1 : State) : ∀ (efs : List Effect) (r : Report),
    (∀ ef ∈ efs, EvalsTo ρ s1 ef) →
    recordAll r (efs.map (evalEff s1)) =
      some { r with regStores := specRegStores ρ r.regStores efs
                    memStores := r.memStores ++ specMemStores ρ efs }
  | [], r, _ => by simp [recordAll, specRegStores, specMemStores]
  | .regStore v k w :: efs, r, hev => by
    have h0 : leToNat (valBytes s1 v) = v.eval ρ := hev _ (List.mem_cons_self ..)
    have hv : valBytes s1 v = natToLE v.width (v.eval ρ) := bytes_eq_natToLE (valBytes_length s1 v) h0
    simp only [List.map_cons, evalEff, recordAll, Report.recordOutput]
    rw [recordAll_spec s1 efs _ (fun x hx => hev x (List.mem_cons_of_mem _ hx))]
    simp only [specRegStores, specMemStores, hv]
  | .memStore v k a w :: efs, r, hev => by
    have h0 : EvalsTo ρ s1 (.memStore v k a w) := hev _ (List.mem_cons_self ..)
    have hv : Const.withWidth (valBytes s1 v) w = natToLE w (v.eval ρ) := by
      rw [Lemmas.Const.withWidth_spec, h0.1]
    have haddr : (Const.constUint 8 (valBytes s1 a)).1 = a.eval ρ % 2 ^ 64 := by
      rw [Lemmas.State.constUint8, h0.2]
    simp only [List.map_cons, evalEff, recordAll, Report.recordOutput]
    rw [recordAll_spec s1 efs _ (fun x hx => hev x (List.mem_cons_of_mem _ hx))]
    simp only [specRegStores, specMemStores, hv, haddr, List.append_assoc, List.singleton_append]

/-- THE REPORT: under the hypotheses of `step_sound`, the report of the step is `specReport ρ effects` -/
theorem report_spec {p : Provider} {code : CodeView} {ρ : Env} {s1 : State} {ins : Ins} {rep : Report}
    (hmem : ins ∈ code) (hi1 : Inv s1) (ha1 : Agree p code ρ s1) (hpres : PresentAll s1 (evalOrders ins.effects))
    (hrec : recordAll (noteExprs s1 {} (evalOrders ins.effects)) (ins.effects.map (evalEff s1)) = some rep) :
    rep = specReport ρ ins.effects := by
  have hle : ∀ e ∈ evalOrders ins.effects, RegsLe code e := by
    intro e he
    obtain ⟨ef, hef, he'⟩ := mem_evalOrders he
    exact regsLe_of_code hmem hef he'
  have hev : ∀ ef ∈ ins.effects, EvalsTo ρ s1 ef := by
    intro ef hef
    have hp : ∀ e ∈ evalOrder ef, leToNat (valBytes s1 e) = e.eval ρ := by
      intro e he
      have hin : e ∈ evalOrders ins.effects := List.mem_flatMap.2 ⟨ef, hef, he⟩
      exact valBytes_eval hi1 ha1 (hpres e hin) (regsLe_of_code hmem hef he)
    cases ef with
    | regStore v k w => exact hp v (by simp [evalOrder])
    | memStore v k a w => exact ⟨hp v (by simp [evalOrder]), hp a (by simp [evalOrder])⟩
  rw [noteExprs_spec hi1 ha1 _ _ hpres hle, recordAll_spec s1 _ _ hev] at hrec
  cases hrec
  simp [specReport]

/-! ### the start -/

/-- `emulator.New`: if the state (without instruction pointer) and the provider represent a valuation that
represents the reference state `σ`, the emulator started at `σ.pc` is related to `σ` -/
theorem R_new {p : Provider} {code : CodeView} {σ : Spec.Rv.St} {s0 : State} {ρ : Env} (hi : Inv s0)
    (hwf : Spec.Lift.St.WF 64 σ) (hrel : Spec.Lift.Rel ρ σ) (ha : Agree p code ρ s0) :
    R p code σ (Emulator.new σ.pc s0) := by
  have hle : leToNat (natToLE 8 σ.pc) = σ.pc := by
    rw [Lemmas.Bytes.leToNat_natToLE]
    exact Nat.mod_eq_of_lt hwf.pc
  refine ⟨ready_new hi σ.pc, hwf, ⟨cw (natToLE 8 σ.pc) 8, ?_, ?_⟩, withIp ρ σ.pc, rel_withIp hrel _, ?_⟩
  · show assocGet ipKey (RegMap.store _ _ _ _) = _
    unfold RegMap.store
    rw [assocGet_set_same]
    exact congrArg some (setWidth_const _ _)
  · rw [cw_value, hle]
    exact trunc_of_lt hwf.pc
  · have := agree_regStore ha (natToLE 8 σ.pc) ipKey 8 σ.pc hle
    refine this.congr (fun k => ?_) (fun _ _ => rfl)
    show (if k = ipKey then σ.pc else _) = (if k = ipKey then trunc 8 σ.pc else _)
    by_cases hk : k = ipKey
    · rw [if_pos hk, if_pos hk]; exact (trunc_of_lt hwf.pc).symm
    · rw [if_neg hk, if_neg hk]

end Mltwist.Lemmas.Emulator
