import Mltwist.Model.NumParse
import Mltwist.Spec.NumParse
import Mltwist.Lemmas.Const
import Mltwist.Lemmas.Gadgets
import Mltwist.Lemmas.Transform
import Mathlib.Tactic.Ring
import Mathlib.Tactic.Linarith
import Mathlib.Tactic.SplitIfs
/-
Proofs for C30: the two input parsers against the reference grammar.
-/
namespace Mltwist.Lemmas.NumParse
open Mltwist Mltwist.NumParse Mltwist.Spec.NumParse
open Mltwist.Lemmas.Transform Mltwist.Lemmas.EvalBasic

abbrev Str := List UInt8

/-- the bases of the grammar -/
def GBase (b : Nat) : Prop := b = 2 ∨ b = 8 ∨ b = 10 ∨ b = 16

/-! ### digits -/

/-- model digit test = reference digit of the base -/
theorem digit_agree {b : Nat} (hb : GBase b) (c : UInt8) :
    (match digitVal c.toNat with
      | some d => if d < b then some d else none
      | none => none) = digitOf b c := by
  have hc := c.toNat_lt
  rcases hb with h | h | h | h <;> subst h <;>
    simp only [digitVal, digitOf, binDigit, octDigit, decDigit, hexDigit] <;>
    split_ifs <;> (try dsimp only) <;> (try split_ifs) <;>
    first | rfl | omega | (simp only [Option.some.injEq]; omega)

theorem loop_step {b : Nat} (hb : GBase b) (c : UInt8) (cs : Str) (n : Nat) :
    digitsLoop b (c :: cs) n =
      match digitOf b c with
      | some d => digitsLoop b cs (n * b + d)
      | none => none := by
  rw [← digit_agree hb c]
  simp only [digitsLoop]
  cases digitVal c.toNat with
  | none => rfl
  | some d => by_cases h : d < b <;> simp [h]

/-- the Horner loop computes the positional value of the reference digits -/
theorem digitsLoop_eq {b : Nat} (hb : GBase b) (s : Str) (n : Nat) :
    digitsLoop b s n = (digits b s).map fun ds => n * b ^ ds.length + valueOf b ds := by
  induction s generalizing n with
  | nil => simp [digitsLoop, digits, valueOf]
  | cons c cs ih =>
    rw [loop_step hb]
    simp only [digits]
    cases hd : digitOf b c with
    | none => simp
    | some d =>
      simp only [ih]
      cases hds : digits b cs with
      | none => simp
      | some ds =>
        simp only [Option.map_some, valueOf, List.length_cons, Option.some.injEq]
        ring

theorem digitOf_lt {b : Nat} {c : UInt8} {d : Nat} (h : digitOf b c = some d) : d < b := by
  have hc := c.toNat_lt
  simp only [digitOf, binDigit, octDigit, decDigit, hexDigit] at h
  split_ifs at h <;> first | omega | (simp only [Option.some.injEq] at h; omega)

theorem digits_length {b : Nat} {s : Str} {ds : List Nat} (h : digits b s = some ds) :
    ds.length = s.length := by
  induction s generalizing ds with
  | nil => simp [digits] at h; subst h; rfl
  | cons c cs ih =>
    simp only [digits] at h
    cases hd : digitOf b c with
    | none => simp [hd] at h
    | some d =>
      cases hds : digits b cs with
      | none => simp [hd, hds] at h
      | some ds' =>
        simp only [hd, hds, Option.some.injEq] at h
        subst h
        simp [ih hds]

/-- a numeral of `k` digits is below `b^k` -/
theorem valueOf_lt {b : Nat} {s : Str} {ds : List Nat} (h : digits b s = some ds) :
    valueOf b ds < b ^ ds.length := by
  induction s generalizing ds with
  | nil => simp [digits] at h; subst h; simp [valueOf]
  | cons c cs ih =>
    simp only [digits] at h
    cases hd : digitOf b c with
    | none => simp [hd] at h
    | some d =>
      cases hds : digits b cs with
      | none => simp [hd, hds] at h
      | some ds' =>
        simp only [hd, hds, Option.some.injEq] at h
        subst h
        have h1 := ih hds
        have h2 := digitOf_lt hd
        simp only [valueOf, List.length_cons, Nat.pow_succ]
        have : (d + 1) * b ^ ds'.length ≤ b * b ^ ds'.length := Nat.mul_le_mul_right _ h2
        nlinarith

/-- `strconv.ParseUint` with a base of the grammar = reference numeral below `2^64` -/
theorem parseUint_eq {b : Nat} (hb : GBase b) (s : Str) :
    parseUint s b = (numeral b s).bind fun v => if v < 2 ^ 64 then some v else none := by
  unfold parseUint numeral
  by_cases he : s.isEmpty
  · simp [he]
  · simp only [he, Bool.false_eq_true, if_false, digitsLoop_eq hb]
    cases digits b s with
    | none => simp
    | some ds => simp

theorem numeral_iff {b : Nat} {s : Str} {v : Nat} : numeral b s = some v ↔ Numeral b s v := by
  unfold numeral Numeral
  by_cases he : s.isEmpty
  · have : s = [] := List.isEmpty_iff.mp he
    simp [this]
  · have hne : s ≠ [] := fun h => he (by simp [h])
    simp only [he, Bool.false_eq_true, if_false, Option.map_eq_some_iff]
    exact ⟨fun h => ⟨hne, h⟩, fun h => h.2⟩

/-! ### `parseAddr` -/

theorem addrBase_cons2 (c0 c : UInt8) (r : Str) :
    addrBase (c0 :: c :: r) =
      if c0 = 0x30 then
        if c = 0x78 ∨ c = 0x58 then (16, r)
        else if c = 0x62 ∨ c = 0x42 then (2, r)
        else (8, c :: r)
      else (10, c0 :: c :: r) := by
  simp only [addrBase, hasPrefix2, List.length_cons, List.take_succ_cons, List.take_zero,
    List.drop_succ_cons, List.drop_zero, List.head?_cons]
  by_cases h0 : c0 = 0x30
  · subst h0
    by_cases h1 : c = 0x78 ∨ c = 0x58
    · rcases h1 with h | h <;> subst h <;> simp
    · by_cases h2 : c = 0x62 ∨ c = 0x42
      · rcases h2 with h | h <;> subst h <;> simp
      · have := not_or.mp h1; have := not_or.mp h2
        simp [*]
  · simp [h0]

theorem gb2 : GBase 2 := Or.inl rfl
theorem gb8 : GBase 8 := Or.inr (Or.inl rfl)
theorem gb10 : GBase 10 := Or.inr (Or.inr (Or.inl rfl))
theorem gb16 : GBase 16 := Or.inr (Or.inr (Or.inr rfl))

/-- `parseAddr` answers exactly what the reference grammar demands -/
theorem parseAddr_eq (s : Str) :
    parseAddr s = match addrExpected s with
      | some v => .ok v
      | none => .err := by
  unfold parseAddr addrExpected addrValue
  match s with
  | [] =>
    have : addrBase [] = (10, []) := by simp [addrBase, hasPrefix2]
    rw [this]; simp only [parseUint_eq gb10]; (generalize numeral _ _ = o; cases o <;> rfl)
  | [c] =>
    have : addrBase [c] = (10, [c]) := by simp [addrBase, hasPrefix2]
    rw [this]; simp only [parseUint_eq gb10]; (generalize numeral _ _ = o; cases o <;> rfl)
  | c0 :: c :: r =>
    rw [addrBase_cons2]
    by_cases h0 : c0 = 0x30
    · by_cases h1 : c = 0x78 ∨ c = 0x58
      · simp only [h0, h1, if_true, parseUint_eq gb16]; (generalize numeral _ _ = o; cases o <;> rfl)
      · by_cases h2 : c = 0x62 ∨ c = 0x42
        · simp only [h0, h1, h2, if_true, if_false, parseUint_eq gb2]; (generalize numeral _ _ = o; cases o <;> rfl)
        · simp only [h0, h1, h2, if_true, if_false, parseUint_eq gb8]; (generalize numeral _ _ = o; cases o <;> rfl)
    · simp only [h0, if_false, parseUint_eq gb10]; (generalize numeral _ _ = o; cases o <;> rfl)

/-! ### the executable oracles decide the grammars -/

theorem numeral_head_digit {b : Nat} {c : UInt8} {r : Str} {v : Nat} (h : Numeral b (c :: r) v) :
    ∃ d, digitOf b c = some d := by
  obtain ⟨_, ds, hds, _⟩ := h
  simp only [digits] at hds
  cases hd : digitOf b c with
  | none => simp [hd] at hds
  | some d => exact ⟨d, rfl⟩

theorem oct_head {c : UInt8} {d : Nat} (h : digitOf 8 c = some d) :
    0x30 ≤ c.toNat ∧ c.toNat ≤ 0x37 := by
  simp only [digitOf, octDigit] at h
  split_ifs at h <;> omega

theorem dec_head {c : UInt8} {d : Nat} (h : digitOf 10 c = some d) :
    0x30 ≤ c.toNat ∧ c.toNat ≤ 0x39 := by
  simp only [digitOf, decDigit, octDigit] at h
  split_ifs at h <;> omega

theorem ne_of_toNat_ne {a b : UInt8} (h : a.toNat ≠ b.toNat) : a ≠ b := fun e => h (by rw [e])

theorem addrValue_iff (s : Str) (v : Nat) : addrValue s = some v ↔ AddrDenotes s v := by
  constructor
  · intro h
    unfold addrValue at h
    match s, h with
    | [], h => exact absurd h (by simp [numeral])
    | [c], h =>
      refine .dec (numeral_iff.mp h) ?_
      by_cases hc : c = 0x30
      · exact Or.inr (by rw [hc])
      · exact Or.inl (by simpa using hc)
    | c0 :: c :: r, h =>
      by_cases h0 : c0 = 0x30
      · subst h0
        by_cases h1 : c = 0x78 ∨ c = 0x58
        · simp only [h1, if_true] at h
          exact .hex h1 (numeral_iff.mp h)
        · by_cases h2 : c = 0x62 ∨ c = 0x42
          · simp only [h1, h2, if_true, if_false] at h
            exact .bin h2 (numeral_iff.mp h)
          · simp only [h1, h2, if_true, if_false] at h
            exact .oct (numeral_iff.mp h)
      · simp only [h0, if_false] at h
        exact .dec (numeral_iff.mp h) (Or.inl (by simpa using h0))
  · intro h
    cases h with
    | hex hp hn =>
      simp only [addrValue, hp, if_true]; exact numeral_iff.mpr hn
    | @bin p r v hp hn =>
      have : ¬ (p = (0x78 : UInt8) ∨ p = (0x58 : UInt8)) := by
        rcases hp with h | h <;> subst h <;> decide
      simp only [addrValue, hp, this, if_true, if_false]; exact numeral_iff.mpr hn
    | oct hn =>
      rename_i r
      match r, hn with
      | [], hn => exact absurd rfl hn.1
      | c :: r', hn =>
        obtain ⟨d, hd⟩ := numeral_head_digit hn
        have hr := oct_head hd
        have n1 : ¬ (c = 0x78 ∨ c = 0x58) := by
          rintro (h | h) <;> subst h <;> simp at hr
        have n2 : ¬ (c = 0x62 ∨ c = 0x42) := by
          rintro (h | h) <;> subst h <;> simp at hr
        simp only [addrValue, n1, n2, if_true, if_false]; exact numeral_iff.mpr hn
    | dec hn hs =>
      match s, hn, hs with
      | [], hn, _ => exact absurd rfl hn.1
      | [c], hn, _ => simp only [addrValue]; exact numeral_iff.mpr hn
      | c0 :: c :: r, hn, hs =>
        have h0 : c0 ≠ 0x30 := by
          rcases hs with h | h
          · simpa using h
          · simp at h
        simp only [addrValue, h0, if_false]; exact numeral_iff.mpr hn

theorem magValue_iff (s : Str) (v : Nat) : magValue s = some v ↔ MagDenotes s v := by
  constructor
  · intro h
    unfold magValue at h
    match s, h with
    | [], h => exact absurd h (by simp [numeral])
    | [c], h =>
      refine .dec (numeral_iff.mp h) ?_
      by_cases hc : c = 0x30
      · exact Or.inr (by rw [hc])
      · exact Or.inl (by simpa using hc)
    | c0 :: c :: r, h =>
      by_cases h0 : c0 = 0x30
      · subst h0
        by_cases h1 : c = 0x78 ∨ c = 0x58
        · simp only [h1, if_true] at h
          exact .hex h1 (numeral_iff.mp h)
        · by_cases h2 : c = 0x62 ∨ c = 0x42
          · simp only [h1, h2, if_true, if_false] at h
            exact .bin h2 (numeral_iff.mp h)
          · by_cases h3 : c = 0x6f ∨ c = 0x4f
            · simp only [h1, h2, h3, if_true, if_false] at h
              exact .octO h3 (numeral_iff.mp h)
            · simp only [h1, h2, h3, if_true, if_false] at h
              exact .oct (numeral_iff.mp h)
      · simp only [h0, if_false] at h
        exact .dec (numeral_iff.mp h) (Or.inl (by simpa using h0))
  · intro h
    cases h with
    | hex hp hn =>
      simp only [magValue, hp, if_true]; exact numeral_iff.mpr hn
    | @bin p r v hp hn =>
      have : ¬ (p = (0x78 : UInt8) ∨ p = (0x58 : UInt8)) := by
        rcases hp with h | h <;> subst h <;> decide
      simp only [magValue, hp, this, if_true, if_false]; exact numeral_iff.mpr hn
    | @octO p r v hp hn =>
      have n1 : ¬ (p = (0x78 : UInt8) ∨ p = (0x58 : UInt8)) := by
        rcases hp with h | h <;> subst h <;> decide
      have n2 : ¬ (p = (0x62 : UInt8) ∨ p = (0x42 : UInt8)) := by
        rcases hp with h | h <;> subst h <;> decide
      simp only [magValue, hp, n1, n2, if_true, if_false]; exact numeral_iff.mpr hn
    | oct hn =>
      rename_i r
      match r, hn with
      | [], hn => exact absurd rfl hn.1
      | c :: r', hn =>
        obtain ⟨d, hd⟩ := numeral_head_digit hn
        have hr := oct_head hd
        have n1 : ¬ (c = 0x78 ∨ c = 0x58) := by
          rintro (h | h) <;> subst h <;> simp at hr
        have n2 : ¬ (c = 0x62 ∨ c = 0x42) := by
          rintro (h | h) <;> subst h <;> simp at hr
        have n3 : ¬ (c = 0x6f ∨ c = 0x4f) := by
          rintro (h | h) <;> subst h <;> simp at hr
        simp only [magValue, n1, n2, n3, if_true, if_false]; exact numeral_iff.mpr hn
    | dec hn hs =>
      match s, hn, hs with
      | [], hn, _ => exact absurd rfl hn.1
      | [c], hn, _ => simp only [magValue]; exact numeral_iff.mpr hn
      | c0 :: c :: r, hn, hs =>
        have h0 : c0 ≠ 0x30 := by
          rcases hs with h | h
          · simpa using h
          · simp at h
        simp only [magValue, h0, if_false]; exact numeral_iff.mpr hn

/-- a magnitude begins with a decimal digit -/
theorem magDenotes_head {c : UInt8} {r : Str} {v : Nat} (h : MagDenotes (c :: r) v) :
    0x30 ≤ c.toNat ∧ c.toNat ≤ 0x39 := by
  cases h with
  | hex _ _ => decide
  | bin _ _ => decide
  | octO _ _ => decide
  | oct _ => decide
  | dec hn _ => obtain ⟨d, hd⟩ := numeral_head_digit hn; exact dec_head hd

theorem magDenotes_ne_nil {v : Nat} : ¬ MagDenotes [] v := by
  intro h
  cases h with
  | dec hn _ => exact hn.1 rfl

theorem lineValue_iff (s : Str) (n : Int) : lineValue s = some n ↔ ValueDenotes s n := by
  constructor
  · intro h
    unfold lineValue at h
    match s, h with
    | [], h => exact absurd h (by simp)
    | c :: r, h =>
      by_cases hp : c = 0x2b
      · simp only [hp, if_true, Option.map_eq_some_iff] at h
        obtain ⟨v, hv, rfl⟩ := h
        rw [hp]; exact .plus ((magValue_iff _ _).mp hv)
      · by_cases hm : c = 0x2d
        · subst hm
          simp only [hp, if_true, if_false, Option.map_eq_some_iff] at h
          obtain ⟨v, hv, rfl⟩ := h
          exact .minus ((magValue_iff _ _).mp hv)
        · simp only [hp, hm, if_false, Option.map_eq_some_iff] at h
          obtain ⟨v, hv, rfl⟩ := h
          exact .plain ((magValue_iff _ _).mp hv)
  · intro h
    cases h with
    | plain hm =>
      match s, hm with
      | [], hm => exact absurd hm magDenotes_ne_nil
      | c :: r, hm =>
        have hr := magDenotes_head hm
        have n1 : c ≠ 0x2b := by intro h; subst h; simp at hr
        have n2 : c ≠ 0x2d := by intro h; subst h; simp at hr
        simp only [lineValue, n1, n2, if_false, (magValue_iff _ _).mpr hm, Option.map_some]
    | plus hm =>
      simp only [lineValue, if_true, (magValue_iff _ _).mpr hm, Option.map_some]
    | minus hm =>
      have : (0x2d : UInt8) ≠ 0x2b := by decide
      simp only [lineValue, this, if_true, if_false, (magValue_iff _ _).mpr hm, Option.map_some]

/-! ### `readValue` -/

/-- digits after sign and prefix: the scanner of `math/big` = reference numeral -/
theorem scan_numeral {b : Nat} (hb : GBase b) (s : Str) :
    (if s.isEmpty then none else digitsLoop b s 0) = numeral b s := by
  unfold numeral
  by_cases he : s.isEmpty
  · simp [he]
  · simp only [he, Bool.false_eq_true, if_false, digitsLoop_eq hb]
    cases digits b s <;> simp

theorem scanPrefix_mag (s : Str) :
    (if (scanPrefix s).2.isEmpty then none else digitsLoop (scanPrefix s).1 (scanPrefix s).2 0)
      = magValue s := by
  unfold scanPrefix magValue
  match s with
  | [] => exact scan_numeral gb10 _
  | [c] => exact scan_numeral gb10 _
  | c0 :: c :: r =>
    by_cases h0 : c0 = 0x30
    · by_cases h1 : c = 0x78 ∨ c = 0x58
      · have n2 : ¬ (c = 0x62 ∨ c = 0x42) := by
          rcases h1 with h | h <;> subst h <;> decide
        have n3 : ¬ (c = 0x6f ∨ c = 0x4f) := by
          rcases h1 with h | h <;> subst h <;> decide
        simp only [h0, h1, n2, n3, if_true, if_false]; exact scan_numeral gb16 _
      · by_cases h2 : c = 0x62 ∨ c = 0x42
        · simp only [h0, h1, h2, if_true, if_false]; exact scan_numeral gb2 _
        · by_cases h3 : c = 0x6f ∨ c = 0x4f
          · simp only [h0, h1, h2, h3, if_true, if_false]; exact scan_numeral gb8 _
          · simp only [h0, h1, h2, h3, if_true, if_false]; exact scan_numeral gb8 _
    · simp only [h0, if_false]; exact scan_numeral gb10 _

theorem setString0_mag (neg : Bool) (s1 : Str) :
    (let (b, s2) := scanPrefix s1
     if s2.isEmpty then none
     else
      match digitsLoop b s2 0 with
      | none => none
      | some n => some (if neg then -(n : Int) else (n : Int))) =
    (magValue s1).map fun (v : Nat) => if neg then -(v : Int) else (v : Int) := by
  rw [← scanPrefix_mag]
  generalize scanPrefix s1 = p
  obtain ⟨b, s2⟩ := p
  by_cases he : s2.isEmpty
  · simp [he]
  · simp only [he, Bool.false_eq_true, if_false]
    cases digitsLoop b s2 0 <;> rfl

/-- `SetString(·, 0)` = the reference value of the line -/
theorem setString0_eq (s : Str) : setString0 s = lineValue s := by
  unfold setString0 lineValue scanSign
  match s with
  | [] => simp [scanPrefix]
  | c :: r =>
    by_cases hm : c = 0x2d
    · subst hm
      have : (0x2d : UInt8) ≠ 0x2b := by decide
      simp only [if_true, this, if_false]
      exact setString0_mag true r
    · by_cases hp : c = 0x2b
      · simp only [hp, if_true]
        exact setString0_mag false r
      · simp only [hm, hp, if_false]
        exact setString0_mag false (c :: r)

/-- no underscore occurs -/
def NoUnd (s : Str) : Prop := ∀ c ∈ s, c ≠ (0x5f : UInt8)

theorem digitOf_und (b : Nat) : digitOf b 0x5f = none := by
  simp [digitOf, binDigit, octDigit, decDigit, hexDigit]

theorem digits_noUnd {b : Nat} {s : Str} {ds : List Nat} (h : digits b s = some ds) : NoUnd s := by
  induction s generalizing ds with
  | nil => intro c hc; simp at hc
  | cons c cs ih =>
    simp only [digits] at h
    cases hd : digitOf b c with
    | none => simp [hd] at h
    | some d =>
      cases hds : digits b cs with
      | none => simp [hd, hds] at h
      | some ds' =>
        intro x hx
        rcases List.mem_cons.mp hx with rfl | hx
        · intro e; rw [e, digitOf_und] at hd; cases hd
        · exact ih hds x hx

theorem numeral_noUnd {b : Nat} {s : Str} {v : Nat} (h : numeral b s = some v) : NoUnd s := by
  obtain ⟨_, ds, hds, _⟩ := numeral_iff.mp h
  exact digits_noUnd hds

theorem noUnd_cons {c : UInt8} {s : Str} (hc : c ≠ 0x5f) (hs : NoUnd s) : NoUnd (c :: s) := by
  intro x hx
  rcases List.mem_cons.mp hx with rfl | hx
  · exact hc
  · exact hs x hx

theorem magDenotes_noUnd {s : Str} {v : Nat} (h : MagDenotes s v) : NoUnd s := by
  have z : (0x30 : UInt8) ≠ 0x5f := by decide
  cases h with
  | hex hp hn =>
    refine noUnd_cons z (noUnd_cons ?_ (numeral_noUnd (numeral_iff.mpr hn)))
    rcases hp with h | h <;> subst h <;> decide
  | bin hp hn =>
    refine noUnd_cons z (noUnd_cons ?_ (numeral_noUnd (numeral_iff.mpr hn)))
    rcases hp with h | h <;> subst h <;> decide
  | octO hp hn =>
    refine noUnd_cons z (noUnd_cons ?_ (numeral_noUnd (numeral_iff.mpr hn)))
    rcases hp with h | h <;> subst h <;> decide
  | oct hn => exact noUnd_cons z (numeral_noUnd (numeral_iff.mpr hn))
  | dec hn _ => exact numeral_noUnd (numeral_iff.mpr hn)

theorem valueDenotes_noUnd {s : Str} {n : Int} (h : ValueDenotes s n) : NoUnd s ∧ s ≠ [] := by
  cases h with
  | plain hm =>
    refine ⟨magDenotes_noUnd hm, ?_⟩
    rintro rfl; exact magDenotes_ne_nil hm
  | plus hm => exact ⟨noUnd_cons (by decide) (magDenotes_noUnd hm), by simp⟩
  | minus hm => exact ⟨noUnd_cons (by decide) (magDenotes_noUnd hm), by simp⟩

theorem any_und_false {s : Str} (h : NoUnd s) : s.any (· == (0x5f : UInt8)) = false := by
  rw [List.any_eq_false]
  intro x hx
  simpa using h x hx

/-! magnitude bounds -/

theorem numeral_lt {b : Nat} {s : Str} {v : Nat} (h : numeral b s = some v) :
    v < b ^ s.length := by
  obtain ⟨_, ds, hds, rfl⟩ := numeral_iff.mp h
  rw [← digits_length hds]
  exact valueOf_lt hds

theorem pow_le_16 {b k n : Nat} (hb : b ≤ 16) (hk : k ≤ n) : b ^ k ≤ 16 ^ n :=
  Nat.le_trans (Nat.pow_le_pow_left hb k) (Nat.pow_le_pow_right (by decide) hk)

theorem magDenotes_lt {s : Str} {v : Nat} (h : MagDenotes s v) : v < 16 ^ s.length := by
  cases h with
  | hex _ hn =>
    exact Nat.lt_of_lt_of_le (numeral_lt (numeral_iff.mpr hn)) (pow_le_16 (by decide) (by simp only [List.length_cons]; omega))
  | bin _ hn =>
    exact Nat.lt_of_lt_of_le (numeral_lt (numeral_iff.mpr hn)) (pow_le_16 (by decide) (by simp only [List.length_cons]; omega))
  | octO _ hn =>
    exact Nat.lt_of_lt_of_le (numeral_lt (numeral_iff.mpr hn)) (pow_le_16 (by decide) (by simp only [List.length_cons]; omega))
  | oct hn =>
    exact Nat.lt_of_lt_of_le (numeral_lt (numeral_iff.mpr hn)) (pow_le_16 (by decide) (by simp only [List.length_cons]; omega))
  | dec hn _ =>
    exact Nat.lt_of_lt_of_le (numeral_lt (numeral_iff.mpr hn)) (pow_le_16 (by decide) (Nat.le_refl _))

theorem valueDenotes_lt {s : Str} {n : Int} (h : ValueDenotes s n) : n.natAbs < 256 ^ s.length := by
  have key : ∀ {r : Str} {v : Nat}, MagDenotes r v → r.length ≤ s.length → v < 256 ^ s.length := by
    intro r v hm hl
    have h1 := magDenotes_lt hm
    have h2 : 16 ^ r.length ≤ 256 ^ s.length :=
      Nat.le_trans (Nat.pow_le_pow_right (by decide) hl) (Nat.pow_le_pow_left (by decide) _)
    omega
  cases h with
  | plain hm => simpa using key hm (Nat.le_refl _)
  | plus hm => simpa using key hm (by simp)
  | minus hm => simpa using key hm (by simp)

theorem leToNat_minLE (f n : Nat) (h : n < 256 ^ f) : leToNat (minLE f n) = n := by
  induction f generalizing n with
  | zero => simp at h; subst h; rfl
  | succ f ih =>
    unfold minLE
    by_cases h0 : n = 0
    · simp [h0]
    · simp only [h0, if_false, leToNat]
      rw [ih (n / 256) (by rw [Nat.pow_succ] at h; omega)]
      have : (UInt8.ofNat (n % 256)).toNat = n % 256 := by
        simp [UInt8.toNat_ofNat']
      rw [this]; omega

theorem natToLE_mod (w x : Nat) : natToLE w (x % 2 ^ (8 * w)) = natToLE w x := by
  have h := Const.natToLE_leToNat (natToLE w x)
  rw [Const.natToLE_length, Const.leToNat_natToLE] at h
  exact h

/-- the folded subtraction `0 - abs` at width `w` -/
theorem fold_neg (w a : Nat) (hw1 : 1 ≤ w) (hw : w ≤ 255) :
    constFold (Tools.sub Expr.zero (.const (natToLE w a)) w) =
      .const (natToLE w (Spec.ofInt w (-(a : Int)))) := by
  generalize he : Tools.sub Expr.zero (.const (natToLE w a)) w = e
  have hwf : e.wf = true := by
    subst he
    simp [Tools.sub, Tools.negate, Tools.bitNot, Tools.ones, Expr.wf, Expr.zero, Expr.one, hw1, hw]
  have hcl : e.closed = true := by
    subst he
    simp [Tools.sub, Tools.negate, Tools.bitNot, Tools.ones, Expr.closed, Expr.zero, Expr.one]
  obtain ⟨bs, hbs⟩ := isConst_iff.mp (constFold_closed e hcl)
  have hlen : bs.length = w := by
    have := constFold_width e
    rw [hbs] at this
    subst he
    simpa [Expr.width, Tools.sub] using this
  let ρ : Env := ⟨fun _ => 0, fun _ _ => 0⟩
  have hev := constFold_eval ρ e hwf
  rw [hbs] at hev
  subst he
  rw [Gadgets.eval_sub] at hev
  simp only [Expr.eval, eval_zero, EvalBasic.trunc_zero, Const.leToNat_natToLE] at hev
  rw [hbs, ← Const.natToLE_leToNat bs, hlen, hev]
  congr 1
  simp only [Spec.sub, Spec.ofInt, trunc]
  congr 1
  rw [Nat.mod_mod]
  have := Int.sub_emod 0 (a : Int) (Spec.M w : Int)
  simp only [Int.zero_emod, Int.zero_sub] at this
  rw [this]
  simp [Spec.M]

theorem fold_neg_zero (a : Nat) :
    constFold (Tools.sub Expr.zero (.const (natToLE 0 a)) 0) = .const [] := by
  show constFold (Tools.sub Expr.zero (.const []) 0) = .const []
  decide

/-- `readValue` answers exactly what the reference grammar demands -/
theorem readValue_eq (w : Nat) (hw : w ≤ 255) (line : Str) :
    readValue w line = match valueExpected w line with
      | some bs => .ok bs
      | none => .err := by
  unfold readValue valueExpected
  rw [setString0_eq]
  cases hv : lineValue line with
  | none =>
    simp only [Option.map_none]
    split_ifs <;> rfl
  | some n =>
    have hd := (lineValue_iff _ _).mp hv
    obtain ⟨hnu, hne⟩ := valueDenotes_noUnd hd
    have hlt := valueDenotes_lt hd
    have he : line.isEmpty = false := by
      cases line with
      | nil => exact absurd rfl hne
      | cons _ _ => rfl
    simp only [he, any_und_false hnu, Bool.false_eq_true, if_false, Option.map_some]
    have habs : Const.newConst (minLE line.length n.natAbs) w = natToLE w n.natAbs := by
      rw [Const.newConst_spec, leToNat_minLE _ _ hlt]
    rw [habs]
    by_cases hn : n ≥ 0
    · simp only [hn, if_true]
      congr 1
      obtain ⟨a, rfl⟩ := Int.eq_ofNat_of_zero_le hn
      have hof : Spec.ofInt w (a : Int) = a % 2 ^ (8 * w) := by
        simp only [Spec.ofInt, Spec.M]
        rw [← Int.natCast_mod, Int.toNat_natCast]
      rw [hof, natToLE_mod, Int.natAbs_natCast]
    · simp only [hn, if_false]
      have hneg : (-(n.natAbs : Int)) = n := by omega
      rcases Nat.eq_zero_or_pos w with h0 | h1
      · subst h0
        rw [fold_neg_zero]
        rfl
      · rw [fold_neg w _ h1 hw, hneg]

/-! ### the property statements -/

theorem parseAddr_ok_iff (s : Str) (v : Nat) :
    parseAddr s = .ok v ↔ AddrDenotes s v ∧ v < 2 ^ 64 := by
  rw [parseAddr_eq, ← addrValue_iff]
  unfold addrExpected
  cases addrValue s with
  | none => simp
  | some x =>
    by_cases hx : x < 2 ^ 64
    · simp only [hx, if_true, Res.ok.injEq, Option.some.injEq]
      constructor
      · rintro rfl; exact ⟨rfl, hx⟩
      · rintro ⟨rfl, _⟩; rfl
    · simp only [hx, if_false, reduceCtorEq, Option.some.injEq, false_iff, not_and]
      rintro rfl; exact hx

theorem parseAddr_no_panic (s : Str) : parseAddr s ≠ .panic := by
  rw [parseAddr_eq]
  cases addrExpected s <;> simp

theorem parseAddr_err_iff (s : Str) :
    parseAddr s = .err ↔ ¬ ∃ v, AddrDenotes s v ∧ v < 2 ^ 64 := by
  constructor
  · rintro h ⟨v, hv⟩
    rw [(parseAddr_ok_iff s v).mpr hv] at h
    cases h
  · intro h
    cases hp : parseAddr s with
    | ok v => exact absurd ⟨v, (parseAddr_ok_iff s v).mp hp⟩ h
    | err => rfl
    | panic => exact absurd hp (parseAddr_no_panic s)

theorem readValue_ok_iff (w : Nat) (hw : w ≤ 255) (line : Str) (c : List UInt8) :
    readValue w line = .ok c ↔ ∃ n, ValueDenotes line n ∧ c = natToLE w (Spec.ofInt w n) := by
  rw [readValue_eq w hw]
  unfold valueExpected
  cases hv : lineValue line with
  | none =>
    simp only [Option.map_none, reduceCtorEq, false_iff, not_exists, not_and]
    intro n hn
    rw [(lineValue_iff _ _).mpr hn] at hv
    cases hv
  | some n =>
    simp only [Option.map_some, Res.ok.injEq]
    constructor
    · rintro rfl; exact ⟨n, (lineValue_iff _ _).mp hv, rfl⟩
    · rintro ⟨m, hm, rfl⟩
      have := (lineValue_iff _ _).mpr hm
      rw [hv] at this
      cases this; rfl

theorem readValue_no_panic (w : Nat) (hw : w ≤ 255) (line : Str) : readValue w line ≠ .panic := by
  rw [readValue_eq w hw]
  cases valueExpected w line <;> simp

theorem readValue_err_iff (w : Nat) (hw : w ≤ 255) (line : Str) :
    readValue w line = .err ↔ ¬ ∃ n, ValueDenotes line n := by
  rw [readValue_eq w hw]
  unfold valueExpected
  cases hv : lineValue line with
  | none =>
    simp only [Option.map_none, true_iff, not_exists]
    intro n hn
    rw [(lineValue_iff _ _).mpr hn] at hv
    cases hv
  | some n =>
    simp only [Option.map_some, reduceCtorEq, false_iff, not_not]
    exact ⟨n, (lineValue_iff _ _).mp hv⟩

/-- the grammar is unambiguous -/
theorem valueDenotes_unique {s : Str} {n m : Int} (h1 : ValueDenotes s n) (h2 : ValueDenotes s m) :
    n = m := by
  have a := (lineValue_iff _ _).mpr h1
  have b := (lineValue_iff _ _).mpr h2
  rw [a] at b
  exact Option.some.inj b

theorem addrDenotes_unique {s : Str} {n m : Nat} (h1 : AddrDenotes s n) (h2 : AddrDenotes s m) :
    n = m := by
  have a := (addrValue_iff _ _).mpr h1
  have b := (addrValue_iff _ _).mpr h2
  rw [a] at b
  exact Option.some.inj b

/-- the `w`-byte constant of an integer is its residue modulo `2^(8w)` -/
theorem encoding_residue (w : Nat) (n : Int) :
    (natToLE w (Spec.ofInt w n)).length = w ∧
    (leToNat (natToLE w (Spec.ofInt w n)) : Int) = n % (2 ^ (8 * w) : Nat) := by
  refine ⟨Const.natToLE_length _ _, ?_⟩
  rw [Const.leToNat_natToLE]
  simp only [Spec.ofInt, Spec.M]
  have hpos : (0 : Int) < ((2 ^ (8 * w) : Nat) : Int) := by
    exact_mod_cast Nat.pow_pos (by decide : 0 < 2)
  have h0 := Int.emod_nonneg n (Int.ne_of_gt hpos)
  have h1 := Int.emod_lt_of_pos n hpos
  rw [Nat.mod_eq_of_lt (by omega)]
  omega

theorem readValue_empty (w : Nat) : readValue w [] = .err := rfl

theorem readValue_underscore (w : Nat) (line : Str) (h : (0x5f : UInt8) ∈ line) :
    readValue w line = .err := by
  unfold readValue
  have : line.any (· == (0x5f : UInt8)) = true := by
    rw [List.any_eq_true]; exact ⟨_, h, by simp⟩
  simp only [this, if_true]
  split_ifs <;> rfl

end Mltwist.Lemmas.NumParse
