import Mltwist.Lemmas.ComposeEmu
import Mltwist.Lemmas.ComposeListingRun
import Mltwist.Lemmas.ComposeStartup
/-
COMPOSITION, part 8: the console UI (C22, `Model/UI.lean`) FULLY INSTANTIATED: the code operations are those of
the real dependency model (`opsAt`, `Lemmas/ComposeListing.lean`), the emulator is the real emulator model
(`emuOps`, `Lemmas/ComposeEmu.lean`).  What is left as a parameter is genuinely external: the answers of the
regular expression library (`rx`), the terminal height (argument of `renderTop`), and the input.

Because the code operations are functions of the view and the view does not determine the `Deps.Code`
(`Lemmas/ComposeListing.lean`), the session threads the real code: `RUI` = (real code, UI state); every call of
`processCommand` runs with the parameters AT the current real code (`paramsAt`), and the real code advances by
`uiNextDeps` (a `move` command of the disassembler mode performs `code.Move` / `code.Index(b).Move`).

* `real_step_safe`, `real_session_never_panics`   C22 for the instantiated UI with the SCOPED emulator
      (`honest = false`: an emulator step that leaves the domain of C14 is reported as the error of `Step`);
* `TreeOOD`, `SessionOOD`   "for the values typed in, the replay of an emulator step leaves the domain of C14";
* `real_session_honest`     C22 for the instantiated UI with the emulator AS IT IS: the session ends by `quit`, at
      the end of the input or in a starving value prompt — or the user steps the emulator into a memory access
      with `addr + w ≥ 2^64` (`SessionOOD`), where the real program panics (`honest_panics`, NOTES).
-/
namespace Mltwist.Lemmas.Compose
open Mltwist Mltwist.UI Mltwist.Lemmas.UI Mltwist.Lemmas.Deps Mltwist.Lemmas.Emulator
open Mltwist.Listing.Spec (Lawful WF)

/-! ### the instantiated UI -/

/-- the parameters of `processCommand` at the real code `d` -/
noncomputable def paramsAt (honest : Bool) (info : Info) (bs : List BytesMem.Block) (rx : Str → Option (String → Bool))
    (d : Deps.Code) : Params ESt :=
  ⟨opsAt info d, emuOps honest bs (codeViewOf d), rx⟩

/-- the real code after the action `act` on `args` in the mode `top`: only `move` of the disassembler mode
touches it -/
def actDeps (d : Deps.Code) (top : NamedMode ESt) (act : Act) (args : List ArgVal) : Deps.Code :=
  match top.mode, args with
  | .dis st, [.num f, .num t] => if act = .dMove then nextDeps d st (.move f t) else d
  | _, _ => d

/-- the real code after one call of `processCommand` -/
def uiNextDeps (d : Deps.Code) (ui : UI ESt) : Input → Deps.Code
  | [] => d
  | line :: _ =>
    match ui.stack with
    | [] => d
    | top :: _ =>
      match parseCommand top.cmdMap line with
      | .ok cmd args => actDeps d top cmd.act args
      | _ => d

/-- the composed state: the real code and the UI -/
structure RUI where
  deps : Deps.Code
  ui : UI ESt

/-- the loop of `UI.Run` over the real models -/
noncomputable def realRunWith (honest : Bool) (info : Info) (bs : List BytesMem.Block)
    (rx : Str → Option (String → Bool)) : Nat → RUI → Input → Final
  | 0, _, _ => .outOfFuel
  | fuel + 1, r, inp =>
    match uiStep (paramsAt honest info bs rx r.deps) r.ui inp with
    | .cont _ ui' rest => realRunWith honest info bs rx fuel ⟨uiNextDeps r.deps r.ui inp, ui'⟩ rest
    | .exited _ => .exited
    | .eof a => .eof a
    | .hang => .hang
    | .panic => .panic

/-- a whole session on the code `d0`: `consoleui.New(disassemble.New(code, emulF))`, then `Run` -/
noncomputable def realSession (honest : Bool) (info : Info) (bs : List BytesMem.Block)
    (rx : Str → Option (String → Bool)) (d0 : Deps.Code) (inp : Input) : Final :=
  match UI.init (listingOf info d0) with
  | none => .panic
  | some ui => realRunWith honest info bs rx (inp.length + 1) ⟨d0, ui⟩ inp

/-! ### the invariant of the composed state -/

/-- the emulator sees the same instructions whatever the order: well-formedness of the code view is kept by moves -/
theorem codeWF_sameCode {c0 c : Deps.Code} (hs : SameCode c0 c) (h : CodeWF (codeViewOf c0)) :
    CodeWF (codeViewOf c) := by
  intro ins hins
  obtain ⟨i, hi, rfl⟩ := List.mem_map.1 hins
  obtain ⟨b, hb, hib⟩ := List.mem_flatMap.1 hi
  obtain ⟨p, hp, rfl⟩ := List.mem_iff_getElem.1 hb
  have hp0 : p < c0.store.length := by rw [← hs.len]; exact hp
  have hperm := (hs.blocks p hp0 hp).static
  have hmem : Deps.Ins.static i ∈ (c0.store[p]).seq.map Deps.Ins.static :=
    hperm.mem_iff.1 (List.mem_map_of_mem hib)
  obtain ⟨i0, hi0, he⟩ := List.mem_map.1 hmem
  have heff : i0.effects = i.effects := by
    have := congrArg (fun (x : Nat × Nat × Nat × Nat × List Effect × List Expr) => x.2.2.2.2.1) he
    exact this
  have h0 : emuOf i0 ∈ codeViewOf c0 :=
    List.mem_map_of_mem (List.mem_flatMap.2 ⟨c0.store[p], List.getElem_mem hp0, hi0⟩)
  intro ef hef
  exact h (emuOf i0) h0 ef (by simpa only [emuOf, heff] using hef)

structure SInv (d0 : Deps.Code) (r : RUI) : Prop where
  deps : CInv r.deps
  same : SameCode d0 r.deps
  ui : UIInv EGood r.ui

theorem uiNextDeps_inv {d : Deps.Code} (hd : CInv d) (ui : UI ESt) (inp : Input) :
    CInv (uiNextDeps d ui inp) ∧ SameCode d (uiNextDeps d ui inp) := by
  unfold uiNextDeps actDeps
  repeat' split
  all_goals first
    | exact ⟨hd, SameCode.refl d⟩
    | exact nextDeps_inv hd _ _

/-- the hypotheses about the program that make the emulator parameter lawful: the byte memory comes from
`memory.NewBytes` of an image that does not reach the top of the address space (C20 `Tidy`), and the code view of
the start code is well formed (C03 `code_of_image_wellformed`) -/
structure EnvOK (bs : List BytesMem.Block) (d0 : Deps.Code) : Prop where
  bytes : ∃ image, BytesMem.newBytes image = .ok bs
  bounded : ∀ x, BytesSpec.ofBlocks bs x ≠ none → x + 1 < 2 ^ 64
  wf : CodeWF (codeViewOf d0)

theorem paramsAt_lawful (info : Info) {bs : List BytesMem.Block} (rx : Str → Option (String → Bool))
    {d0 d : Deps.Code} (henv : EnvOK bs d0) (hd : CInv d) (hs : SameCode d0 d) :
    Lawful (paramsAt false info bs rx d).cops ∧ EmuLawful (paramsAt false info bs rx d).eops EGood := by
  obtain ⟨image, hnb⟩ := henv.bytes
  exact ⟨opsAt_lawful info hd, emu_lawful hnb henv.bounded _ (codeWF_sameCode hs henv.wf)⟩

/-- one call of `processCommand` on the instantiated UI (scoped emulator): it never panics, the invariants hold
again, the real code keeps its instructions and edges -/
theorem real_step_safe (info : Info) {bs : List BytesMem.Block} (rx : Str → Option (String → Bool))
    {d0 : Deps.Code} (henv : EnvOK bs d0) (r : RUI) (hr : SInv d0 r) (inp : Input) :
    StepOK EGood inp (uiStep (paramsAt false info bs rx r.deps) r.ui inp) ∧
    ∀ a ui' rest, uiStep (paramsAt false info bs rx r.deps) r.ui inp = .cont a ui' rest →
      SInv d0 ⟨uiNextDeps r.deps r.ui inp, ui'⟩ := by
  obtain ⟨hl, he⟩ := paramsAt_lawful info rx henv hr.deps hr.same
  have hs := uiStep_safe (paramsAt false info bs rx r.deps) hl he r.ui hr.ui inp
  refine ⟨hs, fun a ui' rest hc => ?_⟩
  rw [hc] at hs
  obtain ⟨h1, h2⟩ := uiNextDeps_inv hr.deps r.ui inp
  exact ⟨h1, hr.same.trans h2, hs.1⟩

theorem realRunWith_safe (info : Info) {bs : List BytesMem.Block} (rx : Str → Option (String → Bool))
    {d0 : Deps.Code} (henv : EnvOK bs d0) : ∀ (fuel : Nat) (r : RUI) (inp : Input), SInv d0 r → inp.length < fuel →
      realRunWith false info bs rx fuel r inp ≠ .panic ∧ realRunWith false info bs rx fuel r inp ≠ .outOfFuel
  | 0, _, _, _, hf => by omega
  | fuel + 1, r, inp, hr, hf => by
    obtain ⟨hs, hnext⟩ := real_step_safe info rx henv r hr inp
    simp only [realRunWith]
    cases hc : uiStep (paramsAt false info bs rx r.deps) r.ui inp with
    | cont a ui' rest =>
      simp only
      rw [hc] at hs
      exact realRunWith_safe info rx henv fuel _ rest (hnext a ui' rest hc) (by have := hs.2.1; omega)
    | exited rest => simp
    | eof a => simp
    | hang => simp
    | panic => rw [hc] at hs; exact absurd hs (by simp [StepOK])

theorem sinv_init (info : Info) (d0 : Deps.Code) (hd : CInv d0) (ui : UI ESt)
    (h : UI.init (listingOf info d0) = some ui) : SInv d0 ⟨d0, ui⟩ := by
  obtain ⟨ui0, h0, hinv⟩ := init_inv EGood (listingOf info d0) (listingOf_wf info hd)
  rw [h0] at h
  cases h
  exact ⟨hd, SameCode.refl d0, hinv⟩

/-- WHOLE SESSIONS over the instantiated UI (scoped emulator) never panic -/
theorem realSession_safe (info : Info) {bs : List BytesMem.Block} (rx : Str → Option (String → Bool))
    {d0 : Deps.Code} (henv : EnvOK bs d0) (hd : CInv d0) (inp : Input) :
    realSession false info bs rx d0 inp = .exited ∨ (∃ a, realSession false info bs rx d0 inp = .eof a) ∨
      realSession false info bs rx d0 inp = .hang := by
  unfold realSession
  obtain ⟨ui0, h0, _⟩ := init_inv EGood (listingOf info d0) (listingOf_wf info hd)
  rw [h0]
  simp only
  have := realRunWith_safe info rx henv (inp.length + 1) ⟨d0, ui0⟩ inp (sinv_init info d0 hd ui0 h0) (by omega)
  cases hr : realRunWith false info bs rx (inp.length + 1) ⟨d0, ui0⟩ inp with
  | exited => exact Or.inl rfl
  | eof a => exact Or.inr (Or.inl ⟨a, rfl⟩)
  | hang => exact Or.inr (Or.inr rfl)
  | panic => simp [hr] at this
  | outOfFuel => simp [hr] at this

/-! ### the emulator as it is -/

/-- for the values typed in (`inp`), the replay of the step of `e` leaves the domain of C14 — at once, or after
some more prompts were answered -/
def TreeOOD (e : ESt) : Nat → Answers → Input → Prop
  | 0, _, _ => False
  | fuel + 1, ans, inp =>
    ¬ DomAt e (provOf ans) ∨
      match Emulator.step (provOf ans) e.code e.st with
      | .ok _ _ log =>
        match log.find? fun r => !(ans.any fun p => p.1 == r) with
        | some r =>
          match readValueNoErr (reqWidth r % 256) inp with
          | .value c rest => TreeOOD e fuel (ans ++ [(r, c)]) rest
          | _ => False
        | none => False
      | _ => False

/-- the honest and the scoped step behave alike on the console unless the replay leaves the domain of C14 -/
theorem runTree_agree (e : ESt) : ∀ (fuel : Nat) (ans : Answers) (inp : Input),
    runTree (stepTree true e fuel ans) inp = runTree (stepTree false e fuel ans) inp ∨ TreeOOD e fuel ans inp
  | 0, _, _ => Or.inl rfl
  | fuel + 1, ans, inp => by
    by_cases hd : DomAt e (provOf ans)
    · unfold stepTree TreeOOD
      rw [if_neg (fun h => Bool.noConfusion h.1), if_neg (fun h => h.2 hd)]
      cases hs : Emulator.step (provOf ans) e.code e.st with
      | panic x => exact Or.inl rfl
      | err => exact Or.inl rfl
      | ok s' rep log =>
        simp only
        cases hf : log.find? fun r => !(ans.any fun p => p.1 == r) with
        | none => exact Or.inl rfl
        | some r =>
          simp only [runTree]
          cases hv : readValueNoErr (reqWidth r % 256) inp with
          | hang => exact Or.inl rfl
          | panic => exact Or.inl rfl
          | value c rest =>
            simp only
            rcases runTree_agree e fuel (ans ++ [(r, c)]) rest with h | h
            · exact Or.inl h
            · exact Or.inr (Or.inr h)
    · exact Or.inr (by unfold TreeOOD; exact Or.inl hd)

/-- the same parameters with another `Emulator.Step` -/
def withStep {σ : Type} (p : Params σ) (f : σ → StepTree σ) : Params σ :=
  { p with eops := { p.eops with step := f } }

set_option maxRecDepth 8000 in
/-- only the action `step` of the emulator mode looks at `Emulator.Step` -/
theorem runAct_withStep {σ : Type} (p : Params σ) (f : σ → StepTree σ) (top : NamedMode σ)
    (below : List (NamedMode σ)) (act : Act) (args : List ArgVal) (inp : Input)
    (h : act = .eStep → ∀ e, top.mode = .emu e → runTree (f e.emu) inp = runTree (p.eops.step e.emu) inp) :
    runAct (withStep p f) top below act args inp = runAct p top below act args inp := by
  cases act
  case eStep =>
    unfold runAct
    simp only
    cases hm : top.mode with
    | emu e =>
      simp only [actStep]
      have := h rfl e hm
      show (match runTree (f e.emu) inp with
        | TreeOut.panic => ActOut.panic
        | TreeOut.hang => ActOut.hang
        | TreeOut.fail s rest => _
        | TreeOut.done s rest => _) = _
      rw [this]
      rfl
    | dis st => rfl
    | mem m v => rfl
  all_goals rfl

theorem paramsAt_true (info : Info) (bs : List BytesMem.Block) (rx : Str → Option (String → Bool)) (d : Deps.Code) :
    paramsAt true info bs rx d = withStep (paramsAt false info bs rx d) (fun e => stepTree true e stepFuel []) := rfl

/-- the two parameter sets differ in the field `step` of the emulator only -/
theorem runAct_agree (info : Info) (bs : List BytesMem.Block) (rx : Str → Option (String → Bool)) (d : Deps.Code)
    (top : NamedMode ESt) (below : List (NamedMode ESt)) (act : Act) (args : List ArgVal) (inp : Input)
    (h : act = .eStep → ∀ e, top.mode = .emu e →
      runTree (stepTree true e.emu stepFuel []) inp = runTree (stepTree false e.emu stepFuel []) inp) :
    runAct (paramsAt true info bs rx d) top below act args inp =
      runAct (paramsAt false info bs rx d) top below act args inp := by
  rw [paramsAt_true]
  exact runAct_withStep _ _ top below act args inp h

/-- during this call of `processCommand` the emulator is stepped into a memory access outside the domain of C14 -/
def StepOOD (ui : UI ESt) : Input → Prop
  | [] => False
  | line :: rest =>
    match ui.stack with
    | [] => False
    | top :: _ =>
      match top.mode, parseCommand top.cmdMap line with
      | .emu e, .ok cmd _ => cmd.act = .eStep ∧ TreeOOD e.emu stepFuel [] rest
      | _, _ => False

theorem uiStep_agree (info : Info) (bs : List BytesMem.Block) (rx : Str → Option (String → Bool)) (d : Deps.Code)
    (ui : UI ESt) (inp : Input) :
    uiStep (paramsAt true info bs rx d) ui inp = uiStep (paramsAt false info bs rx d) ui inp ∨ StepOOD ui inp := by
  unfold uiStep uiStepWith StepOOD
  cases inp with
  | nil => exact Or.inl rfl
  | cons line rest =>
    simp only
    split
    · exact Or.inl rfl
    · cases hs : ui.stack with
      | nil => exact Or.inl rfl
      | cons top below =>
        simp only
        cases hp : parseCommandWith false top.cmdMap line with
        | panic => exact Or.inl rfl
        | err => exact Or.inl rfl
        | ok cmd args =>
          simp only
          have hp' : parseCommand top.cmdMap line = .ok cmd args := hp
          by_cases hact : cmd.act = .eStep
          · cases hm : top.mode with
            | emu e =>
              rcases runTree_agree e.emu stepFuel [] rest with h | h
              · left
                rw [runAct_agree info bs rx d top below cmd.act args rest
                  (fun _ e' he' => by rw [hm] at he'; cases he'; exact h)]
              · right
                simp only [hp']
                exact ⟨hact, h⟩
            | dis st =>
              left
              rw [runAct_agree info bs rx d top below cmd.act args rest
                (fun _ e' he' => by rw [hm] at he'; cases he')]
            | mem m v =>
              left
              rw [runAct_agree info bs rx d top below cmd.act args rest
                (fun _ e' he' => by rw [hm] at he'; cases he')]
          · left
            rw [runAct_agree info bs rx d top below cmd.act args rest (fun h => absurd h hact)]

/-- somewhere in the session the emulator is stepped into a memory access outside the domain of C14 -/
inductive SessionOOD (info : Info) (bs : List BytesMem.Block) (rx : Str → Option (String → Bool)) :
    RUI → Input → Prop where
  | here {r : RUI} {inp : Input} : StepOOD r.ui inp → SessionOOD info bs rx r inp
  | later {r : RUI} {inp rest : Input} {a : Answer} {ui' : UI ESt} :
      uiStep (paramsAt false info bs rx r.deps) r.ui inp = .cont a ui' rest →
      SessionOOD info bs rx ⟨uiNextDeps r.deps r.ui inp, ui'⟩ rest → SessionOOD info bs rx r inp

theorem realRunWith_agree (info : Info) (bs : List BytesMem.Block) (rx : Str → Option (String → Bool)) :
    ∀ (fuel : Nat) (r : RUI) (inp : Input),
      realRunWith true info bs rx fuel r inp = realRunWith false info bs rx fuel r inp ∨ SessionOOD info bs rx r inp
  | 0, _, _ => Or.inl rfl
  | fuel + 1, r, inp => by
    rcases uiStep_agree info bs rx r.deps r.ui inp with h | h
    · simp only [realRunWith, h]
      cases hc : uiStep (paramsAt false info bs rx r.deps) r.ui inp with
      | cont a ui' rest =>
        simp only
        rcases realRunWith_agree info bs rx fuel ⟨uiNextDeps r.deps r.ui inp, ui'⟩ rest with h2 | h2
        · exact Or.inl h2
        · exact Or.inr (SessionOOD.later hc h2)
      | exited rest => exact Or.inl rfl
      | eof a => exact Or.inl rfl
      | hang => exact Or.inl rfl
      | panic => exact Or.inl rfl
    · exact Or.inr (SessionOOD.here h)

/-- WHOLE SESSIONS over the instantiated UI with the emulator AS IT IS: `quit`, the end of the input, a starving
value prompt — or the user stepped the emulator into a memory access outside the domain of C14 -/
theorem realSession_honest (info : Info) {bs : List BytesMem.Block} (rx : Str → Option (String → Bool))
    {d0 : Deps.Code} (henv : EnvOK bs d0) (hd : CInv d0) (inp : Input) :
    realSession true info bs rx d0 inp = .exited ∨ (∃ a, realSession true info bs rx d0 inp = .eof a) ∨
      realSession true info bs rx d0 inp = .hang ∨
      ∃ ui, UI.init (listingOf info d0) = some ui ∧ SessionOOD info bs rx ⟨d0, ui⟩ inp := by
  have hsafe := realSession_safe info rx henv hd inp
  unfold realSession at hsafe ⊢
  cases hi : UI.init (listingOf info d0) with
  | none =>
    obtain ⟨ui0, h0, _⟩ := init_inv EGood (listingOf info d0) (listingOf_wf info hd)
    rw [h0] at hi
    cases hi
  | some ui =>
    rw [hi] at hsafe
    simp only at hsafe ⊢
    rcases realRunWith_agree info bs rx (inp.length + 1) ⟨d0, ui⟩ inp with h | h
    · rw [h]
      rcases hsafe with h1 | h1 | h1
      · exact Or.inl h1
      · exact Or.inr (Or.inl h1)
      · exact Or.inr (Or.inr (Or.inl h1))
    · exact Or.inr (Or.inr (Or.inr ⟨ui, rfl, h⟩))

/-! ### the hypotheses about the program are theorems after start-up (C26) -/

/-- the byte memory `memory.NewBytes` makes of a tidy memory image has no byte at the top of the address space -/
theorem bytes_bounded {mem : List Elf.Block} (ht : Elf.Spec.Tidy mem) {bs : List BytesMem.Block}
    (h : BytesMem.newBytes mem = .ok bs) : ∀ x, BytesSpec.ofBlocks bs x ≠ none → x + 1 < 2 ^ 64 := by
  intro x hx
  rcases Lemmas.BytesMem.newBytes_spec mem with ⟨he, _⟩ | ⟨bs', h1, _, _, h4⟩
  · rw [h] at he; cases he
  · rw [h] at h1
    cases h1
    rw [h4 x] at hx
    obtain ⟨b, hb, hc⟩ := (Lemmas.BytesMem.ofBlocks_ne_none_iff mem x).1 hx
    have := ht.1 b hb
    unfold BytesSpec.Covers at hc
    omega

/-- start-up (C26) establishes everything the instantiated UI assumes about the program -/
theorem envOK_of_started {lim : Nat} {w : Elf.View} {code mem : List Elf.Block}
    {is : List (Parse.Ins (Riscv.Entry × Riscv.Ins))} {c : Deps.Code} {bs : List BytesMem.Block}
    (hs : Started lim w code mem is c bs) : EnvOK bs c ∧ CInv c :=
  ⟨⟨⟨mem, hs.bytes⟩, bytes_bounded hs.mem_tidy hs.bytes,
      codeWF_of_liftCode (codeViewOf_newCode hs.code_tidy hs.parsed _ c hs.built).2⟩,
    inv_of_parse hs.code_tidy hs.parsed _ c hs.built⟩

end Mltwist.Lemmas.Compose
