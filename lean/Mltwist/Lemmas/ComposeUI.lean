import Mltwist.Lemmas.ComposeEmu
import Mltwist.Lemmas.ComposeListingRun
import Mltwist.Lemmas.ComposeStartup
/-
COMPOSITION, part 8: the console UI (C22, `Model/UI.lean`) FULLY INSTANTIATED: the code operations are those of
the real dependency model (`opsAt`, `Lemmas/ComposeListing.lean`), the emulator is the real emulator model
(`emuOps`, `Lemmas/ComposeEmu.lean`).  What is left as a parameter is genuinely external: the answers of the
regular expression library (`rx`), the terminal height (argument of `renderTop`), and the input.

Because the code operations are functions of the view and the view does not determine the `Deps.Code`
(`Lemmas/ComposeListing.lean`), the session threads the real code: `RUI` = (real code, UI state); every call of
`processCommand` runs with the parameters AT the current real code (`paramsAt`), and the real code advances by
`uiNextDeps` (a `move` command of the disassembler mode performs `code.Move` / `code.Index(b).Move`).

* `real_step_safe`, `realSession_safe`   C22 for the instantiated UI with the emulator AS IT IS: since the repair of
      F45 an emulator step whose access leaves the address space (`addr + w ≥ 2^64`) is an ordinary error of `Step`,
      so there is one emulator only (no "scoped" variant, no `SessionOOD` escape clause): the session ends by `quit`,
      at the end of the input or in a starving value prompt — never by a panic.
-/
namespace Mltwist.Lemmas.Compose
open Mltwist Mltwist.UI Mltwist.Lemmas.UI Mltwist.Lemmas.Deps Mltwist.Lemmas.Emulator
open Mltwist.Listing.Spec (Lawful WF)

/-! ### the instantiated UI -/

-- `paramsAt`, `actDeps`, `uiNextDeps`, `RUI`, `realRunWith`, `realSession`: `Model/Compose.lean`

/-! ### the invariant of the composed state -/

/-- the emulator sees the same instructions whatever the order: well-formedness of the code view is kept by moves -/
theorem codeWF_sameCode {c0 c : Deps.Code} (hs : SameCode c0 c) (h : CodeWF (codeViewOf c0)) :
    CodeWF (codeViewOf c) := by
  intro ins hins
  obtain ⟨i, hi, rfl⟩ := List.mem_map.1 hins
  obtain ⟨b, hb, hib⟩ := List.mem_flatMap.1 hi
  obtain ⟨p, hp, rfl⟩ := List.mem_iff_getElem.1 hb
  have hp0 : p < c0.store.length := by rw [← hs.len]; exact hp
  have hperm := (hs.blocks p hp0 hp).static
  have hmem : Deps.Ins.static i ∈ (c0.store[p]).seq.map Deps.Ins.static :=
    hperm.mem_iff.1 (List.mem_map_of_mem hib)
  obtain ⟨i0, hi0, he⟩ := List.mem_map.1 hmem
  have heff : i0.effects = i.effects := by
    have := congrArg (fun (x : Nat × Nat × Nat × Nat × List Effect × List Expr) => x.2.2.2.2.1) he
    exact this
  have h0 : emuOf i0 ∈ codeViewOf c0 :=
    List.mem_map_of_mem (List.mem_flatMap.2 ⟨c0.store[p], List.getElem_mem hp0, hi0⟩)
  intro ef hef
  exact h (emuOf i0) h0 ef (by simpa only [emuOf, heff] using hef)

/-- … and so are the widths of its stores -/
theorem codeSW_sameCode {c0 c : Deps.Code} (hs : SameCode c0 c) (h : CodeSW (codeViewOf c0)) :
    CodeSW (codeViewOf c) := by
  intro ins hins
  obtain ⟨i, hi, rfl⟩ := List.mem_map.1 hins
  obtain ⟨b, hb, hib⟩ := List.mem_flatMap.1 hi
  obtain ⟨p, hp, rfl⟩ := List.mem_iff_getElem.1 hb
  have hp0 : p < c0.store.length := by rw [← hs.len]; exact hp
  have hperm := (hs.blocks p hp0 hp).static
  have hmem : Deps.Ins.static i ∈ (c0.store[p]).seq.map Deps.Ins.static :=
    hperm.mem_iff.1 (List.mem_map_of_mem hib)
  obtain ⟨i0, hi0, he⟩ := List.mem_map.1 hmem
  have heff : i0.effects = i.effects := by
    have := congrArg (fun (x : Nat × Nat × Nat × Nat × List Effect × List Expr) => x.2.2.2.2.1) he
    exact this
  have h0 : emuOf i0 ∈ codeViewOf c0 :=
    List.mem_map_of_mem (List.mem_flatMap.2 ⟨c0.store[p], List.getElem_mem hp0, hi0⟩)
  intro v k a w hm
  exact h (emuOf i0) h0 v k a w (by simpa only [emuOf, heff] using hm)

structure SInv (d0 : Deps.Code) (r : RUI) : Prop where
  deps : CInv r.deps
  same : SameCode d0 r.deps
  ui : UIInv EGood r.ui

theorem uiNextDeps_inv {d : Deps.Code} (hd : CInv d) (ui : UI ESt) (inp : Input) :
    CInv (uiNextDeps d ui inp) ∧ SameCode d (uiNextDeps d ui inp) := by
  unfold uiNextDeps actDeps
  repeat' split
  all_goals first
    | exact ⟨hd, SameCode.refl d⟩
    | exact nextDeps_inv hd _ _

/-- the hypotheses about the program that make the emulator parameter lawful: the byte memory comes from
`memory.NewBytes` of an image that does not reach the top of the address space (C20 `Tidy`), and the code view of
the start code is well formed (C03 `code_of_image_wellformed`: the widths of its expressions and of its stores) -/
structure EnvOK (bs : List BytesMem.Block) (d0 : Deps.Code) : Prop where
  bytes : ∃ image, BytesMem.newBytes image = .ok bs
  bounded : ∀ x, BytesSpec.ofBlocks bs x ≠ none → x + 1 < 2 ^ 64
  wf : CodeWF (codeViewOf d0)
  sw : CodeSW (codeViewOf d0)

theorem paramsAt_lawful (info : Info) {bs : List BytesMem.Block} (rx : Str → Option (String → Bool))
    {d0 d : Deps.Code} (henv : EnvOK bs d0) (hd : CInv d) (hs : SameCode d0 d) :
    Lawful (paramsAt info bs rx d).cops ∧ EmuLawful (paramsAt info bs rx d).eops EGood := by
  obtain ⟨image, hnb⟩ := henv.bytes
  exact ⟨opsAt_lawful info hd, emu_lawful hnb henv.bounded _ (codeWF_sameCode hs henv.wf) (codeSW_sameCode hs henv.sw)⟩

/-- one call of `processCommand` on the instantiated UI (the real emulator): it never panics, the invariants hold
again, the real code keeps its instructions and edges -/
theorem real_step_safe (info : Info) {bs : List BytesMem.Block} (rx : Str → Option (String → Bool))
    {d0 : Deps.Code} (henv : EnvOK bs d0) (r : RUI) (hr : SInv d0 r) (inp : Input) :
    StepOK EGood inp (uiStep (paramsAt info bs rx r.deps) r.ui inp) ∧
    ∀ a ui' rest, uiStep (paramsAt info bs rx r.deps) r.ui inp = .cont a ui' rest →
      SInv d0 ⟨uiNextDeps r.deps r.ui inp, ui'⟩ := by
  obtain ⟨hl, he⟩ := paramsAt_lawful info rx henv hr.deps hr.same
  have hs := uiStep_safe (paramsAt info bs rx r.deps) hl he r.ui hr.ui inp
  refine ⟨hs, fun a ui' rest hc => ?_⟩
  rw [hc] at hs
  obtain ⟨h1, h2⟩ := uiNextDeps_inv hr.deps r.ui inp
  exact ⟨h1, hr.same.trans h2, hs.1⟩

theorem realRunWith_safe (info : Info) {bs : List BytesMem.Block} (rx : Str → Option (String → Bool))
    {d0 : Deps.Code} (henv : EnvOK bs d0) : ∀ (fuel : Nat) (r : RUI) (inp : Input), SInv d0 r → inp.length < fuel →
      realRunWith info bs rx fuel r inp ≠ .panic ∧ realRunWith info bs rx fuel r inp ≠ .outOfFuel
  | 0, _, _, _, hf => by omega
  | fuel + 1, r, inp, hr, hf => by
    obtain ⟨hs, hnext⟩ := real_step_safe info rx henv r hr inp
    simp only [realRunWith]
    cases hc : uiStep (paramsAt info bs rx r.deps) r.ui inp with
    | cont a ui' rest =>
      simp only
      rw [hc] at hs
      exact realRunWith_safe info rx henv fuel _ rest (hnext a ui' rest hc) (by have := hs.2.1; omega)
    | exited rest => simp
    | eof a => simp
    | hang => simp
    | panic => rw [hc] at hs; exact absurd hs (by simp [StepOK])

theorem sinv_init (info : Info) (d0 : Deps.Code) (hd : CInv d0) (ui : UI ESt)
    (h : UI.init (listingOf info d0) = some ui) : SInv d0 ⟨d0, ui⟩ := by
  obtain ⟨ui0, h0, hinv⟩ := init_inv EGood (listingOf info d0) (listingOf_wf info hd)
  rw [h0] at h
  cases h
  exact ⟨hd, SameCode.refl d0, hinv⟩

/-- WHOLE SESSIONS over the instantiated UI (the real emulator) never panic -/
theorem realSession_safe (info : Info) {bs : List BytesMem.Block} (rx : Str → Option (String → Bool))
    {d0 : Deps.Code} (henv : EnvOK bs d0) (hd : CInv d0) (inp : Input) :
    realSession info bs rx d0 inp = .exited ∨ (∃ a, realSession info bs rx d0 inp = .eof a) ∨
      realSession info bs rx d0 inp = .hang := by
  unfold realSession
  obtain ⟨ui0, h0, _⟩ := init_inv EGood (listingOf info d0) (listingOf_wf info hd)
  rw [h0]
  simp only
  have := realRunWith_safe info rx henv (inp.length + 1) ⟨d0, ui0⟩ inp (sinv_init info d0 hd ui0 h0) (by omega)
  cases hr : realRunWith info bs rx (inp.length + 1) ⟨d0, ui0⟩ inp with
  | exited => exact Or.inl rfl
  | eof a => exact Or.inr (Or.inl ⟨a, rfl⟩)
  | hang => exact Or.inr (Or.inr rfl)
  | panic => simp [hr] at this
  | outOfFuel => simp [hr] at this

/-! ### the hypotheses about the program are theorems after start-up (C26) -/

/-- the byte memory `memory.NewBytes` makes of a tidy memory image has no byte at the top of the address space -/
theorem bytes_bounded {mem : List Elf.Block} (ht : Elf.Spec.Tidy mem) {bs : List BytesMem.Block}
    (h : BytesMem.newBytes mem = .ok bs) : ∀ x, BytesSpec.ofBlocks bs x ≠ none → x + 1 < 2 ^ 64 := by
  intro x hx
  rcases Lemmas.BytesMem.newBytes_spec mem with ⟨he, _⟩ | ⟨bs', h1, _, _, h4⟩
  · rw [h] at he; cases he
  · rw [h] at h1
    cases h1
    rw [h4 x] at hx
    obtain ⟨b, hb, hc⟩ := (Lemmas.BytesMem.ofBlocks_ne_none_iff mem x).1 hx
    have := ht.1 b hb
    unfold BytesSpec.Covers at hc
    omega

/-- start-up (C26) establishes everything the instantiated UI assumes about the program -/
theorem envOK_of_started {lim : Nat} {w : Elf.View} {code mem : List Elf.Block}
    {is : List (Parse.Ins (Riscv.Entry × Riscv.Ins))} {c : Deps.Code} {bs : List BytesMem.Block}
    (hs : Started lim w code mem is c bs) : EnvOK bs c ∧ CInv c :=
  ⟨⟨⟨mem, hs.bytes⟩, bytes_bounded hs.mem_tidy hs.bytes,
      codeWF_of_liftCode (codeViewOf_newCode hs.code_tidy hs.parsed _ c hs.built).2,
      codeSW_of_liftCode (codeViewOf_newCode hs.code_tidy hs.parsed _ c hs.built).2⟩,
    inv_of_parse hs.code_tidy hs.parsed _ c hs.built⟩

end Mltwist.Lemmas.Compose
