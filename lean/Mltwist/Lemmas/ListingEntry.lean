import Mltwist.Lemmas.ListingRun
/-
`entrypoint` lands on the row of the entry instruction (C31): completeness of the two address
look-ups under `Spec.AddrWF`, uniqueness of the instruction at an address.
-/
namespace Mltwist.Lemmas.Listing
open Mltwist.Listing Mltwist.Listing.Spec

/-! ### `blocksByAddr` -/

theorem insertByBegin_perm (b : Block) (l : List Block) : (insertByBegin b l).Perm (b :: l) := by
  induction l with
  | nil => exact List.Perm.refl _
  | cons c cs ih =>
    simp only [insertByBegin]
    split
    · exact List.Perm.refl _
    · exact (List.Perm.cons c ih).trans (List.Perm.swap b c cs)

theorem sortByBegin_perm (l : List Block) : (sortByBegin l).Perm l := by
  induction l with
  | nil => exact List.Perm.refl _
  | cons b bs ih => exact (insertByBegin_perm b _).trans (List.Perm.cons b ih)

theorem insertByBegin_sorted (b : Block) (l : List Block) (h : l.Pairwise (fun x y => x.begin ≤ y.begin)) :
    (insertByBegin b l).Pairwise (fun x y => x.begin ≤ y.begin) := by
  induction l with
  | nil => simp [insertByBegin]
  | cons c cs ih =>
    rw [List.pairwise_cons] at h
    simp only [insertByBegin]
    split
    · next hle =>
      refine List.pairwise_cons.mpr ⟨?_, List.pairwise_cons.mpr h⟩
      intro a ha
      rcases List.mem_cons.mp ha with rfl | ha
      · exact hle
      · exact Nat.le_trans hle (h.1 a ha)
    · next hgt =>
      refine List.pairwise_cons.mpr ⟨?_, ih h.2⟩
      intro a ha
      rcases (mem_insertByBegin b a cs).mp ha with rfl | ha
      · omega
      · exact h.1 a ha

theorem sortByBegin_sorted (l : List Block) : (sortByBegin l).Pairwise (fun x y => x.begin ≤ y.begin) := by
  induction l with
  | nil => simp [sortByBegin]
  | cons b bs ih => exact insertByBegin_sorted b _ ih

/-- the first block of a sorted list of disjoint blocks that ends behind `a` is the block containing `a` -/
theorem find_containing (S : List Block) (a : Nat) (bk : Block)
    (hs : S.Pairwise (fun x y => x.begin ≤ y.begin))
    (hd : S.Pairwise (fun b b' => b.stop ≤ b'.begin ∨ b'.stop ≤ b.begin))
    (hm : bk ∈ S) (h1 : bk.begin ≤ a) (h2 : a < bk.stop) :
    S.find? (fun b => b.stop > a) = some bk := by
  induction S with
  | nil => cases hm
  | cons s rest ih =>
    rw [List.pairwise_cons] at hs hd
    by_cases hst : s.stop > a
    · rw [List.find?_cons_of_pos (by simpa using hst)]
      rcases List.mem_cons.mp hm with rfl | hm'
      · rfl
      · have := hs.1 bk hm'
        rcases hd.1 bk hm' with h | h <;> omega
    · rw [List.find?_cons_of_neg (by simpa using hst)]
      rcases List.mem_cons.mp hm with rfl | hm'
      · omega
      · exact ih hs.2 hd.2 hm'

theorem code_address_complete (c : Code) (ha : AddrWF c) (a : Nat) (bk : Block) (hm : bk ∈ c.blocks)
    (h1 : bk.begin ≤ a) (h2 : a < bk.stop) : c.address a = some bk := by
  have hd : (sortByBegin c.blocks).Pairwise (fun b b' => b.stop ≤ b'.begin ∨ b'.stop ≤ b.begin) :=
    (List.Perm.pairwise_iff (fun h => h.symm) (sortByBegin_perm c.blocks)).mpr ha.disjoint
  have := find_containing _ a bk (sortByBegin_sorted _) hd ((mem_sortByBegin _ _).mpr hm) h1 h2
  simp only [Code.address, this]
  rw [if_neg (by omega)]

theorem block_address_complete (ins : List Ins) (a : Nat) (x : Ins)
    (hs : ins.Pairwise (fun x y => x.addr < y.addr)) (hm : x ∈ ins) (hx : x.addr = a) :
    ∃ y, ins.find? (fun i => i.addr ≥ a) = some y ∧ y.addr = a := by
  induction ins with
  | nil => cases hm
  | cons h t ih =>
    rw [List.pairwise_cons] at hs
    by_cases hge : h.addr ≥ a
    · refine ⟨h, List.find?_cons_of_pos (by simpa using hge), ?_⟩
      rcases List.mem_cons.mp hm with rfl | hm'
      · exact hx
      · have := hs.1 x hm'; omega
    · rw [List.find?_cons_of_neg (by simpa using hge)]
      rcases List.mem_cons.mp hm with rfl | hm'
      · omega
      · exact ih hs.2 hm'

/-- the two look-ups of `entrypoint` find an instruction whenever one exists -/
theorem lookups_complete (c : Code) (ha : AddrWF c) (b : Block) (hb : b ∈ c.blocks) (x : Ins) (hx : x ∈ b.ins)
    (hxa : x.addr = c.entry) :
    ∃ b' x', c.address c.entry = some b' ∧ b'.address c.entry = some x' := by
  obtain ⟨i1, i2⟩ := ha.inside b hb x hx
  refine ⟨b, ?_⟩
  obtain ⟨y, hy, hya⟩ := block_address_complete b.ins c.entry x (ha.ascending b hb) hx hxa
  refine ⟨y, code_address_complete c ha c.entry b hb (by omega) (by omega), ?_⟩
  simp only [Block.address, hy]
  rw [if_neg (by simpa using hya)]

/-! ### the specification's search -/

theorem findIns_some (a : Nat) (ins : List Ins) (ipos j : Nat) (h : findIns a ipos ins = some j) :
    ∃ x, ins[j - ipos]? = some x ∧ x.addr = a ∧ ipos ≤ j := by
  induction ins generalizing ipos with
  | nil => simp [findIns] at h
  | cons i is ih =>
    simp only [findIns] at h
    split at h
    · next hi => cases h; exact ⟨i, by simp, hi, Nat.le_refl _⟩
    · obtain ⟨x, hx, hxa, hle⟩ := ih (ipos + 1) h
      refine ⟨x, ?_, hxa, by omega⟩
      rw [show j - ipos = (j - (ipos + 1)) + 1 by omega]; simpa using hx

theorem findIns_none (a : Nat) (ins : List Ins) (ipos : Nat) (h : findIns a ipos ins = none) :
    ∀ x ∈ ins, x.addr ≠ a := by
  induction ins generalizing ipos with
  | nil => intro x hx; cases hx
  | cons i is ih =>
    simp only [findIns] at h
    split at h
    · cases h
    · next hi =>
      intro x hx
      rcases List.mem_cons.mp hx with rfl | hx
      · exact hi
      · exact ih (ipos + 1) h x hx

theorem findAddr_some (a : Nat) (bs : List Block) (pos k j : Nat) (h : findAddr a pos bs = some (k, j)) :
    ∃ b x, bs[k - pos]? = some b ∧ b.ins[j]? = some x ∧ x.addr = a ∧ pos ≤ k := by
  induction bs generalizing pos with
  | nil => simp [findAddr] at h
  | cons b bs ih =>
    simp only [findAddr] at h
    split at h
    · next i hi =>
      cases h
      obtain ⟨x, hx, hxa, _⟩ := findIns_some a b.ins 0 _ hi
      exact ⟨b, x, by simp, by simpa using hx, hxa, Nat.le_refl _⟩
    · obtain ⟨b', x, hb', hx, hxa, hle⟩ := ih (pos + 1) h
      refine ⟨b', x, ?_, hx, hxa, by omega⟩
      rw [show k - pos = (k - (pos + 1)) + 1 by omega]; simpa using hb'

theorem findAddr_none (a : Nat) (bs : List Block) (pos : Nat) (h : findAddr a pos bs = none) :
    ∀ b ∈ bs, ∀ x ∈ b.ins, x.addr ≠ a := by
  induction bs generalizing pos with
  | nil => intro b hb; cases hb
  | cons b bs ih =>
    simp only [findAddr] at h
    split at h
    · cases h
    · next hi =>
      intro b' hb'
      rcases List.mem_cons.mp hb' with rfl | hb'
      · exact findIns_none a _ 0 hi
      · exact ih (pos + 1) h b' hb'

/-- at most one instruction has a given current address -/
theorem addr_unique (c : Code) (ha : AddrWF c) (a : Nat) (k k' j j' : Nat) (b b' : Block) (x x' : Ins)
    (hb : c.blocks[k]? = some b) (hx : b.ins[j]? = some x) (hxa : x.addr = a)
    (hb' : c.blocks[k']? = some b') (hx' : b'.ins[j']? = some x') (hxa' : x'.addr = a) : k = k' ∧ j = j' := by
  have hk := getElem?_lt hb
  have hk' := getElem?_lt hb'
  have e : c.blocks[k] = b := by rw [List.getElem?_eq_getElem hk] at hb; exact Option.some.inj hb
  have e' : c.blocks[k'] = b' := by rw [List.getElem?_eq_getElem hk'] at hb'; exact Option.some.inj hb'
  have hbm : b ∈ c.blocks := List.mem_of_getElem? hb
  have hbm' : b' ∈ c.blocks := List.mem_of_getElem? hb'
  have i1 := ha.inside b hbm x (List.mem_of_getElem? hx)
  have i2 := ha.inside b' hbm' x' (List.mem_of_getElem? hx')
  have hd := List.pairwise_iff_getElem.mp ha.disjoint
  have hkk : k = k' := by
    rcases Nat.lt_trichotomy k k' with h | h | h
    · have := hd k k' hk hk' h; rw [e, e'] at this; omega
    · exact h
    · have := hd k' k hk' hk h; rw [e, e'] at this; omega
  subst hkk
  have ebb : b = b' := by rw [← e, ← e']
  subst ebb
  refine ⟨rfl, ?_⟩
  have hj := getElem?_lt hx
  have hj' := getElem?_lt hx'
  have f : b.ins[j] = x := by rw [List.getElem?_eq_getElem hj] at hx; exact Option.some.inj hx
  have f' : b.ins[j'] = x' := by rw [List.getElem?_eq_getElem hj'] at hx'; exact Option.some.inj hx'
  have hs := List.pairwise_iff_getElem.mp (ha.ascending b hbm)
  rcases Nat.lt_trichotomy j j' with h | h | h
  · have := hs j j' hj hj' h; rw [f, f'] at this; omega
  · exact h
  · have := hs j' j hj' hj h; rw [f, f'] at this; omega

/-- `entrypoint` does what the specification expects -/
theorem entry_spec (ops : CodeOps) (st : St) (hinv : Inv st) (ha : AddrWF st.code) :
    ∃ s st', step ops st .entrypoint = some (s, st') ∧ NavKeeps st st' ∧
      Lands (expectEntry st.code) (s = .ok) st.cursor.value st'.cursor.value := by
  obtain ⟨s, st', h1, k, hcase⟩ := entry_sound ops st hinv
  refine ⟨s, st', h1, k, ?_⟩
  unfold expectEntry
  cases hf : findAddr st.code.entry 0 st.code.blocks with
  | none =>
    simp only [Lands]
    have hnone := findAddr_none _ _ _ hf
    rcases hcase with ⟨_, ⟨k', j', b, x, hb, hx, hxa, _⟩, _⟩ | ⟨hs, hst, _⟩
    · exact absurd hxa (hnone b (List.mem_of_getElem? hb) x (List.mem_of_getElem? hx))
    · exact ⟨hs, by rw [hst]⟩
  | some p =>
    obtain ⟨kk, jj⟩ := p
    simp only [Lands]
    obtain ⟨b, x, hb, hx, hxa, _⟩ := findAddr_some _ _ _ _ _ hf
    rw [Nat.sub_zero] at hb
    rcases hcase with ⟨hs, ⟨k', j', b', x', hb', hx', hxa', hline⟩, _⟩ | ⟨_, _, hno⟩
    · obtain ⟨e1, e2⟩ := addr_unique st.code ha _ kk k' jj j' b b' x x' hb hx hxa hb' hx' hxa'
      subst e1 e2
      exact ⟨hs, hline⟩
    · exact absurd (lookups_complete st.code ha b (List.mem_of_getElem? hb) x (List.mem_of_getElem? hx) hxa) hno

end Mltwist.Lemmas.Listing
