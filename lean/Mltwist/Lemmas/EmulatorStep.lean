import Mltwist.Lemmas.EmulatorEval
/-
Emulator (C03, C04), part 8: the application of the evaluated effects (`recordOutput`, `State.Apply`,
the `jumped` flag), `MustIP`, and one `Step` as a whole: on a state satisfying the invariant whose
instruction pointer is known, `Step` returns an error exactly when no instruction starts at the
instruction pointer and otherwise never panics: it succeeds when all its memory accesses lie in the domain of C14 —
the state first evolves by provider fills (while the effects are evaluated against the pre-state) and then
by the program's writes — and returns the access error otherwise, leaving a state that results from provider
fills only (REPAIR F45: `checkStores_spec`, `step_total`).
-/
namespace Mltwist.Lemmas.Emulator
open Mltwist Mltwist.State Mltwist.Overlay Mltwist.Emulator Mltwist.Spec.Overlay Mltwist.Interval
open Mltwist.Lemmas.State (Good assocGet_set_same assocGet_set_other)

/-! ### the program's writes -/

/-- `Applied s efs s'`: `s'` results from `s` by the writes of the evaluated effects `efs`, in order -/
inductive Applied : State → List Effect → State → Prop where
  | nil (s : State) : Applied s [] s
  | reg {s s' : State} {efs : List Effect} (v : List UInt8) (k : String) (w : Nat) :
      Applied { s with regs := s.regs.store k (.const v) w } efs s' →
      Applied s (.regStore (.const v) k w :: efs) s'
  | mem {s s' : State} {efs : List Effect} (v : List UInt8) (key : String) (a : List UInt8) (w : Nat)
      (m' : MemMap) : InDom (leToNat a % 2 ^ 64) w → 1 ≤ v.length ∧ v.length ≤ 255 →
      s.mems.store key (leToNat a % 2 ^ 64) (.const v) w = .ok m' →
      Applied { s with mems := m' } efs s' → Applied s (.memStore (.const v) key (.const a) w :: efs) s'

/-- an evaluated effect that `State.Apply` accepts without leaving the domain of C14 -/
def EvOK : Effect → Prop
  | .memStore v _ a w => ∃ vb ab, v = .const vb ∧ a = .const ab ∧ 1 ≤ vb.length ∧ vb.length ≤ 255 ∧
      InDom (leToNat ab % 2 ^ 64) w
  | .regStore v _ _ => ∃ vb, v = .const vb

/-- `recordOutput` over a list of effects -/
def recordAll : Report → List Effect → Option Report
  | r, [] => some r
  | r, ef :: efs =>
    match r.recordOutput ef with
    | none => none
    | some r' => recordAll r' efs

theorem constFold_const (a : List UInt8) : constFold (.const a) = .const a := rfl

theorem inv_regStore {s : State} (h : Inv s) (v : List UInt8) (k : String) (w : Nat) :
    Inv { s with regs := s.regs.store k (.const v) w } :=
  ⟨h.good, regsConst_store h.regs k v w, h.mems⟩

theorem applyAll_spec : ∀ (efs : List Effect) (s : State) (r : Report) (j : Bool), Inv s →
    (∀ ef ∈ efs, EvOK ef) →
    ∃ s' r', applyAll efs s r j = .ok (s', r', j || efs.any isJump) ∧ Applied s efs s' ∧ Inv s' ∧
      recordAll r efs = some r'
  | [], s, r, j, hi, _ => ⟨s, r, by simp [applyAll], Applied.nil s, hi, rfl⟩
  | ef :: efs, s, r, j, hi, hok => by
    have h0 := hok ef (List.mem_cons_self ..)
    have hrest : ∀ x ∈ efs, EvOK x := fun x hx => hok x (List.mem_cons_of_mem _ hx)
    cases ef with
    | regStore v k w =>
      obtain ⟨vb, rfl⟩ := h0
      obtain ⟨s', r', h1, h2, h3, h4⟩ := applyAll_spec efs _ (({ r with regStores := assocSet k vb r.regStores }))
        (j || isJump (.regStore (.const vb) k w)) (inv_regStore hi vb k w) hrest
      refine ⟨s', r', ?_, Applied.reg vb k w h2, h3, ?_⟩
      · simp only [applyAll, Report.recordOutput, Lemmas.State.apply_regStore, h1, List.any_cons, Bool.or_assoc]
      · simp only [recordAll, Report.recordOutput, h4]
    | memStore v key a w =>
      obtain ⟨vb, ab, rfl, rfl, hv1, hv2, hd⟩ := h0
      obtain ⟨m', g1, _, _, _⟩ := good_store hi.good key (leToNat ab % 2 ^ 64) (.const vb) w hd
      have hi1 : Inv { s with mems := m' } := inv_store hi hd ⟨hv1, hv2⟩ g1
      obtain ⟨s', r', h1, h2, h3, h4⟩ := applyAll_spec efs { s with mems := m' }
        ({ r with memStores := r.memStores ++ [⟨key, (Const.constUint 8 ab).1, Const.withWidth vb w⟩] })
        (j || isJump (.memStore (.const vb) key (.const ab) w)) hi1 hrest
      refine ⟨s', r', ?_, Applied.mem vb key ab w m' hd ⟨hv1, hv2⟩ g1 h2, h3, ?_⟩
      · have ha := Lemmas.State.apply_memStore_const s (.const vb) key (.const ab) w ab (constFold_const ab)
        rw [g1] at ha
        simp only [applyAll, Report.recordOutput, ha, h1, List.any_cons, Bool.or_assoc]
      · simp only [recordAll, Report.recordOutput, h4]

/-! ### what the writes preserve -/

theorem Applied.inv {s s' : State} {efs : List Effect} (h : Applied s efs s') (hi : Inv s) : Inv s' := by
  induction h with
  | nil s => exact hi
  | reg v k w _ ih => exact ih (inv_regStore hi v k w)
  | mem v key a w m' hd hv hs _ ih => exact ih (inv_store hi hd hv hs)

/-- the registers an effect list writes -/
def writtenRegs : List Effect → List String
  | [] => []
  | .regStore _ k _ :: efs => k :: writtenRegs efs
  | .memStore .. :: efs => writtenRegs efs

/-- a byte lies in a range some memory store of the list writes (store address from a constant) -/
def WrittenByte (key : String) (x : Nat) : List Effect → Prop
  | [] => False
  | .regStore .. :: efs => WrittenByte key x efs
  | .memStore _ k a w :: efs =>
    (k = key ∧ ∃ ab, a = .const ab ∧ leToNat ab % 2 ^ 64 ≤ x ∧ x < leToNat ab % 2 ^ 64 + w) ∨ WrittenByte key x efs

/-- a register once known stays known -/
theorem Applied.reg_known {s s' : State} {efs : List Effect} (h : Applied s efs s') (k : String)
    (hk : assocGet k s.regs ≠ none) : assocGet k s'.regs ≠ none := by
  induction h with
  | nil s => exact hk
  | @reg s s' efs v k2 w _ ih =>
    apply ih
    show assocGet k (RegMap.store _ _ _ _) ≠ none
    unfold RegMap.store
    by_cases he : k = k2
    · subst he; rw [assocGet_set_same]; simp
    · rw [assocGet_set_other k2 k _ he]; exact hk
  | mem v key a w m' _ _ _ _ ih => exact ih hk

/-- a byte once known stays known -/
theorem Applied.byte_known {s s' : State} {efs : List Effect} (h : Applied s efs s') (hi : Inv s) (key : String)
    (x : Nat) (hk : s.mems.abs key x ≠ none) : s'.mems.abs key x ≠ none := by
  induction h with
  | nil s => exact hk
  | reg v k w _ ih => exact ih (inv_regStore hi v k w) hk
  | @mem s s' efs v key2 a w m' hd hv hs _ ih =>
    apply ih (inv_store hi hd hv hs)
    obtain ⟨m2, g1, _, g3, g4⟩ := good_store hi.good key2 (leToNat a % 2 ^ 64) (.const v) w hd
    rw [hs] at g1
    cases g1
    show m'.abs key x ≠ none
    by_cases he : key = key2
    · subst he
      rw [g3]
      unfold AbsMem.store
      split
      · simp
      · exact hk
    · rw [g4 key he]; exact hk

/-- registers the program does not write keep their value -/
theorem Applied.reg_frame {s s' : State} {efs : List Effect} (h : Applied s efs s') (k : String)
    (hk : k ∉ writtenRegs efs) : assocGet k s'.regs = assocGet k s.regs := by
  induction h with
  | nil s => rfl
  | @reg s s' efs v k2 w _ ih =>
    simp only [writtenRegs, List.mem_cons, not_or] at hk
    rw [ih hk.2]
    show assocGet k (RegMap.store _ _ _ _) = _
    unfold RegMap.store
    exact assocGet_set_other k2 k _ hk.1 _
  | mem v key a w m' _ _ _ _ ih => exact ih (by simpa [writtenRegs] using hk)

/-- bytes the program does not write keep their value -/
theorem Applied.byte_frame {s s' : State} {efs : List Effect} (h : Applied s efs s') (hi : Inv s) (key : String)
    (x : Nat) (hk : ¬ WrittenByte key x efs) : s'.mems.abs key x = s.mems.abs key x := by
  induction h with
  | nil s => rfl
  | reg v k w _ ih => exact ih (inv_regStore hi v k w) (by simpa [WrittenByte] using hk)
  | @mem s s' efs v key2 a w m' hd hv hs _ ih =>
    simp only [WrittenByte, not_or] at hk
    rw [ih (inv_store hi hd hv hs) hk.2]
    obtain ⟨m2, g1, _, g3, g4⟩ := good_store hi.good key2 (leToNat a % 2 ^ 64) (.const v) w hd
    rw [hs] at g1
    cases g1
    show m'.abs key x = _
    by_cases he : key = key2
    · subst he
      rw [g3]
      unfold AbsMem.store
      rw [if_neg]
      intro hr
      exact hk.1 ⟨rfl, a, rfl, hr.1, hr.2⟩
    · rw [g4 key he]

/-! ### `MustIP` -/

theorem mustIP_spec {s : State} {c : List UInt8} (hip : assocGet ipKey s.regs = some (.const c)) :
    mustIP s = .ok (leToNat c % 2 ^ 64) := by
  unfold mustIP addrWidth
  rw [load_const hip]
  have hne : cw c 8 ≠ [] := by
    intro h
    have := cw_length c 8
    rw [h] at this
    cases this
  have hlt : leToNat (cw c 8) < 2 ^ (8 * 8) := by
    have := Lemmas.Transform.leToNat_lt (cw c 8)
    rwa [cw_length] at this
  simp only [Lemmas.Const.constUint_spec 8 (cw c 8) (by omega) hne, hlt, decide_true, if_true]
  rw [cw_value]
  show Except.ok (trunc 8 (leToNat c) % 2 ^ 64) = _
  unfold trunc
  rw [show (2 : Nat) ^ (8 * 8) = 2 ^ 64 from rfl, Nat.mod_mod]

/-! ### one step -/

/-- every memory access the step performs from `s` at the instruction `ins` lies in the domain of C14
(`1 ≤ w ≤ 255`, `addr + w < 2^64`): the loads during evaluation and the stores of the evaluated effects -/
def StepDom (p : Provider) (code : CodeView) (s : State) (ins : Ins) : Prop :=
  EffsDom p code ins.effects { st := s } ∧
  ∀ efs' c1, evalEffects p code ins.effects { st := s } = .ok (efs', c1) →
    ∀ v k a w, Effect.memStore v k (.const a) w ∈ efs' → InDom (leToNat a % 2 ^ 64) w

/-- every expression of the instruction is well formed (widths between 1 and 255) -/
def InsWF (ins : Ins) : Prop := ∀ ef ∈ ins.effects, Effect.wfE ef

/-- every store of the instruction has a width between 1 and 255 (`expr.Width` is `uint8`; no instruction of the
front end stores 0 bytes) -/
def InsSW (ins : Ins) : Prop := ∀ v k a w, Effect.memStore v k a w ∈ ins.effects → 1 ≤ w ∧ w ≤ 255

/-! ### the check of the stores (REPAIR F45) -/

/-- the first loop of `Step` over the evaluated effects: it passes iff every store lies in the domain of C14,
and otherwise stops the step at the first store that does not, before anything is applied -/
theorem checkStores_spec (c : Ctx) (s : State) : ∀ efs : List Effect,
    (∀ v k a w, Effect.memStore v k a w ∈ efs → 1 ≤ w ∧ w ≤ 255) →
    (checkStores c (efs.map (evalEff s)) = .ok () ∧
      ∀ v k a w, Effect.memStore v k (.const a) w ∈ efs.map (evalEff s) → InDom (leToNat a % 2 ^ 64) w) ∨
    (∃ a w, checkStores c (efs.map (evalEff s)) = .error (.access c a w) ∧ 2 ^ 64 ≤ a + w ∧
      ∃ v k ab, Effect.memStore v k (.const ab) w ∈ efs.map (evalEff s) ∧ a = leToNat ab % 2 ^ 64)
  | [], _ => Or.inl ⟨rfl, fun _ _ _ _ h => nomatch h⟩
  | .regStore v k w :: efs, hw => by
    have hrest := checkStores_spec c s efs (fun v' k' a' w' h => hw v' k' a' w' (List.mem_cons_of_mem _ h))
    simp only [List.map_cons, evalEff, checkStores]
    rcases hrest with ⟨h1, h2⟩ | ⟨a0, w0, h1, h2, v', k', ab, hm, he⟩
    · refine Or.inl ⟨h1, fun v' k' a' w' h => ?_⟩
      rcases List.mem_cons.1 h with h | h
      · cases h
      · exact h2 v' k' a' w' h
    · exact Or.inr ⟨a0, w0, h1, h2, v', k', ab, List.mem_cons_of_mem _ hm, he⟩
  | .memStore v k a w :: efs, hw => by
    have hw0 := hw v k a w (List.mem_cons_self ..)
    have hrest := checkStores_spec c s efs (fun v' k' a' w' h => hw v' k' a' w' (List.mem_cons_of_mem _ h))
    simp only [List.map_cons, evalEff, checkStores, Lemmas.State.constUint8]
    have hlt : leToNat (valBytes s a) % 2 ^ 64 < 2 ^ 64 := Nat.mod_lt _ (by decide)
    by_cases hin : leToNat (valBytes s a) % 2 ^ 64 + w < 2 ^ 64
    · rw [accessBad_false hin]
      simp only [Bool.false_eq_true, if_false]
      rcases hrest with ⟨h1, h2⟩ | ⟨a0, w0, h1, h2, v', k', ab, hm, he⟩
      · refine Or.inl ⟨h1, fun v' k' a' w' h => ?_⟩
        rcases List.mem_cons.1 h with h | h
        · cases h
          exact ⟨hw0.1, hw0.2, hin⟩
        · exact h2 v' k' a' w' h
      · exact Or.inr ⟨a0, w0, h1, h2, v', k', ab, List.mem_cons_of_mem _ hm, he⟩
    · rw [accessBad_true hlt (by omega) (by omega)]
      simp only [if_true]
      exact Or.inr ⟨_, w, rfl, by omega, _, k, _, List.mem_cons_self .., rfl⟩

/-- the fall-through of `Step` -/
def finish (ins : Ins) (jumped : Bool) (s : State) : State :=
  if jumped then s else { s with regs := s.regs.store ipKey (addrConst ins.end_) addrWidth }

theorem wf_width : ∀ e : Expr, e.wf = true → 1 ≤ e.width ∧ e.width ≤ 255
  | .const bs, h => by simpa [Expr.wf, Expr.width] using h
  | .binary _ _ _ w, h => by
    simp only [Expr.wf, Bool.and_eq_true, decide_eq_true_eq] at h; exact h.1.1
  | .less _ _ _ _ w, h => by
    simp only [Expr.wf, Bool.and_eq_true, decide_eq_true_eq] at h; exact h.1.1.1.1
  | .memLoad _ _ w, h => by
    simp only [Expr.wf, Bool.and_eq_true, decide_eq_true_eq] at h; exact h.1
  | .regLoad _ w, h => by simpa [Expr.wf, Expr.width] using h

theorem valBytes_length (s : State) (e : Expr) : (valBytes s e).length = e.width := by
  unfold valBytes; exact Lemmas.Const.natToLE_length _ _

theorem any_isJump_map (s : State) (efs : List Effect) :
    (efs.map (evalEff s)).any isJump = efs.any isJump := by
  induction efs with
  | nil => rfl
  | cons ef efs ih =>
    simp only [List.map_cons, List.any_cons, ih]
    cases ef <;> rfl

theorem inv_finish {ins : Ins} {j : Bool} {s : State} (h : Inv s) : Inv (finish ins j s) := by
  unfold finish
  split
  · exact h
  · exact inv_regStore h _ ipKey addrWidth

theorem ip_finish {ins : Ins} {j : Bool} {s : State} (h : assocGet ipKey s.regs ≠ none) :
    assocGet ipKey (finish ins j s).regs ≠ none := by
  unfold finish
  split
  · exact h
  · show assocGet ipKey (RegMap.store _ _ _ _) ≠ none
    unfold RegMap.store
    rw [assocGet_set_same]
    simp

/-- no instruction at the instruction pointer: `Step` returns the error, whatever else -/
theorem step_err (p : Provider) (code : CodeView) {s : State} {c : List UInt8}
    (hip : assocGet ipKey s.regs = some (.const c)) (hl : code.lookup (leToNat c % 2 ^ 64) = none) :
    ∃ o, step p code s = o ∧ (match o with | .err => True | _ => False) := by
  refine ⟨.err, ?_, trivial⟩
  unfold step
  rw [mustIP_spec hip]
  simp only [hl]

/-- AN INSTRUCTION AT THE INSTRUCTION POINTER, ANY ACCESSES (REPAIR F45): `Step` never panics.  Either it succeeds —
the state evolves by the provider fills `log` (to `s1`, against which all effects are evaluated) and then by the
writes of the evaluated effects — or it returns the access error: an access `[a, a+w)` of the instruction does not
fit the address space (so the step is outside the domain condition `StepDom`); the state it leaves, `s1`, results
from `s` by the provider fills `log` ONLY: no effect was applied, the instruction pointer was not written -/
theorem step_total (p : Provider) (code : CodeView) {s : State} {c : List UInt8} {ins : Ins} (hi : Inv s)
    (hip : assocGet ipKey s.regs = some (.const c)) (hl : code.lookup (leToNat c % 2 ^ 64) = some ins)
    (hw : InsWF ins) (hsw : InsSW ins) :
    (∃ s1 s2 log rep,
      step p code s = .ok (finish ins (ins.effects.any isJump) s2) rep log ∧
      Fill p s log s1 ∧ Inv s1 ∧
      Applied s1 (ins.effects.map (evalEff s1)) s2 ∧ Inv s2 ∧
      PresentAll s1 (evalOrders ins.effects) ∧
      recordAll (noteExprs s1 {} (evalOrders ins.effects)) (ins.effects.map (evalEff s1)) = some rep ∧
      (∀ r ∈ log, (∃ e ∈ evalOrders ins.effects, RegReqOf code (regLoads e) r) ∨ ∃ k a w, r = Req.mem k a w)) ∨
    (∃ s1 log a w, step p code s = .accessErr s1 log a w ∧ Fill p s log s1 ∧ Inv s1 ∧ 2 ^ 64 ≤ a + w ∧
      ¬ StepDom p code s ins) := by
  rcases evalEffects_total p code ins.effects { st := s } hi hw with ⟨c1, h1, o1⟩ | ⟨c1, a0, w0, h1, s1, hnd⟩
  rotate_left
  · -- a load leaves the address space
    obtain ⟨l, hl1, hf⟩ := s1.log
    have hlog : c1.log = l := by simpa using hl1
    refine Or.inr ⟨c1.st, l, a0, w0, ?_, hf, s1.inv, s1.bad, fun hd => hnd hd.1⟩
    unfold step
    rw [mustIP_spec hip]
    simp only [hl, h1, recovered, hlog]
  obtain ⟨l, hl1, hf, hq⟩ := o1.log
  have hlog : c1.log = l := by simpa using hl1
  rcases checkStores_spec c1 c1.st ins.effects hsw with ⟨hcs, hdom⟩ | ⟨a0, w0, hcs, hbad, v, k, ab, hm, he⟩
  rotate_left
  · -- a store leaves the address space
    refine Or.inr ⟨c1.st, l, a0, w0, ?_, hf, o1.inv, hbad, fun hd => ?_⟩
    · unfold step
      rw [mustIP_spec hip]
      simp only [hl, h1, hcs, recovered, hlog]
    · have := (hd.2 _ c1 h1 v k ab w0 hm).2.2
      omega
  have hok : ∀ ef ∈ ins.effects.map (evalEff c1.st), EvOK ef := by
    intro ef hef
    obtain ⟨ef0, h0, rfl⟩ := List.mem_map.1 hef
    cases ef0 with
    | regStore v k w => exact ⟨_, rfl⟩
    | memStore v k a w =>
      have hwf := hw _ h0
      have hlen := valBytes_length c1.st v
      have hwd := wf_width v hwf.1
      refine ⟨_, _, rfl, rfl, by rw [hlen]; exact hwd.1, by rw [hlen]; exact hwd.2, ?_⟩
      exact hdom _ k _ w hef
  obtain ⟨s2, rep, g1, g2, g3, g4⟩ := applyAll_spec (ins.effects.map (evalEff c1.st)) c1.st c1.rep false o1.inv hok
  refine Or.inl ⟨c1.st, s2, l, rep, ?_, hf, o1.inv, g2, g3, o1.present, ?_, hq⟩
  · unfold step
    rw [mustIP_spec hip]
    simp only [hl, h1, hcs, g1, Bool.false_or, any_isJump_map, hlog]
    rfl
  · rw [← o1.rep]; exact g4

/-- … in particular: when all accesses of the step lie in the domain of C14, `Step` succeeds -/
theorem step_ok (p : Provider) (code : CodeView) {s : State} {c : List UInt8} {ins : Ins} (hi : Inv s)
    (hip : assocGet ipKey s.regs = some (.const c)) (hl : code.lookup (leToNat c % 2 ^ 64) = some ins)
    (hw : InsWF ins) (hd : StepDom p code s ins) :
    ∃ s1 s2 log rep,
      step p code s = .ok (finish ins (ins.effects.any isJump) s2) rep log ∧
      Fill p s log s1 ∧ Inv s1 ∧
      Applied s1 (ins.effects.map (evalEff s1)) s2 ∧ Inv s2 ∧
      PresentAll s1 (evalOrders ins.effects) ∧
      recordAll (noteExprs s1 {} (evalOrders ins.effects)) (ins.effects.map (evalEff s1)) = some rep ∧
      (∀ r ∈ log, (∃ e ∈ evalOrders ins.effects, RegReqOf code (regLoads e) r) ∨ ∃ k a w, r = Req.mem k a w) := by
  -- the widths of the stores are part of the domain condition
  have hsw : InsSW ins := by
    intro v k a w hm
    obtain ⟨c1, h1, _⟩ := evalEffects_spec p code ins.effects { st := s } hi hw hd.1
    have := hd.2 _ c1 h1 (.const (valBytes c1.st v)) k (valBytes c1.st a) w
      (List.mem_map.2 ⟨_, hm, rfl⟩)
    exact ⟨this.1, this.2.1⟩
  rcases step_total p code hi hip hl hw hsw with h | ⟨_, _, _, _, _, _, _, _, hnd⟩
  · exact h
  · exact absurd hd hnd

end Mltwist.Lemmas.Emulator
